package c09

import (
	"fmt"
	"os"
	"path/filepath"
	"sort"
	"strings"
	"sync"
	"sync/atomic"
	"testing"
	"time"

	"pgregory.net/rapid"

	"verif/internal/fw"
	"verif/internal/run"
	"verif/internal/sched"
)

// ---------------------------------------------------------------------
// transfers: transactions that hold SEVERAL tables for update at once.
//
// Two counter tables a and b (sum 0) and a log table. A transfer moves one unit from one table to the other
// (two UPDATE statements in either order, or one multi-table UPDATE) and optionally appends a row to the log;
// a "sum" transaction reads both counters FOR UPDATE in one statement. Opposite acquisition orders deadlock:
// csvq has no deadlock detection, so the only way out is the wait timeout, which the scheduler delivers as an
// event to a drawn victim once no process has made progress for a while (and, as in the single-table check,
// at drawn steps). The property's last sentence is then exercised with work already done: a transfer that has
// changed table a in memory, holds its lock and times out on b must fail with the lock-timeout error, change
// nothing and release a.

type xferProc struct {
	Kind string `json:"kind"` // xfer_ab | xfer_ba | multi_ab | multi_ba | sum | reader_a | reader_b | logger
	Txns int    `json:"txns"`
	Log  bool   `json:"log"` // transfers: also INSERT INTO log
}

type xferCase struct {
	Procs    []xferProc  `json:"procs"`
	Bursts   []burst     `json:"bursts"`
	Timeouts []timeoutEv `json:"timeouts"`
	Victims  []int       `json:"victims"` // order in which deadlocked processes are timed out
	Patience int         `json:"patience"`
}

func genXfer(t *rapid.T) xferCase {
	c := xferCase{}
	n := fw.Range(t, "nprocs", 2, 3)
	if fw.Pct(t, "four", 10) {
		n = 4
	}
	kinds := []string{"xfer_ab", "xfer_ba", "multi_ab", "multi_ba", "sum", "reader_a", "reader_b", "logger"}
	for i := 0; i < n; i++ {
		p := xferProc{Txns: fw.Range(t, "txns", 1, 2), Log: fw.Pct(t, "log", 40)}
		p.Kind = kinds[fw.Weighted(t, "kind", []int{25, 25, 8, 8, 14, 7, 7, 6})]
		c.Procs = append(c.Procs, p)
	}
	// at least two processes that take both counters
	both := 0
	for _, p := range c.Procs {
		if strings.HasPrefix(p.Kind, "xfer") || strings.HasPrefix(p.Kind, "multi") || p.Kind == "sum" {
			both++
		}
	}
	if both < 2 {
		c.Procs[0].Kind = "xfer_ab"
		c.Procs[1].Kind = "xfer_ba"
	}
	nb := fw.Range(t, "nbursts", 4, 40)
	for i := 0; i < nb; i++ {
		c.Bursts = append(c.Bursts, burst{Proc: fw.Uniform(t, "bproc", n), Len: fw.Range(t, "blen", 1, 12)})
	}
	if fw.Pct(t, "withTimeout", 25) {
		c.Timeouts = append(c.Timeouts, timeoutEv{Proc: fw.Uniform(t, "tproc", n), Step: fw.Range(t, "tstep", 3, 120)})
	}
	perm := make([]int, n)
	for i := range perm {
		perm[i] = i
	}
	for i := n - 1; i > 0; i-- {
		j := fw.Uniform(t, "vperm", i+1)
		perm[i], perm[j] = perm[j], perm[i]
	}
	c.Victims = perm
	c.Patience = []int{120, 200, 350}[fw.Uniform(t, "patience", 3)]
	return c
}

func checkXfer(c xferCase) (fw.Outcome, *fw.Violation) {
	o := fw.Outcome{Classes: []string{fmt.Sprintf("procs=%d", len(c.Procs))}}
	for _, p := range c.Procs {
		o.Classes = append(o.Classes, "kind="+p.Kind)
	}
	dir := filepath.Join(fw.WorkDir(), fmt.Sprintf("c09x-%d", atomic.AddInt64(&seq, 1)))
	_ = os.RemoveAll(dir)
	_ = os.MkdirAll(dir, 0755)
	defer os.RemoveAll(dir)
	_ = os.WriteFile(filepath.Join(dir, "a.csv"), []byte("n\n0\n"), 0644)
	_ = os.WriteFile(filepath.Join(dir, "b.csv"), []byte("n\n0\n"), 0644)
	_ = os.WriteFile(filepath.Join(dir, "log.csv"), []byte("p,k\n"), 0644)
	tables := map[string]string{filepath.Join(dir, "a.csv"): "a", filepath.Join(dir, "b.csv"): "b", filepath.Join(dir, "log.csv"): "log"}
	lockOf := map[string]string{}
	for p := range tables {
		lockOf[filepath.Join(dir, "."+filepath.Base(p)+".lock")] = p
	}

	n := len(c.Procs)
	ctxs := make([]*sched.Ctx, n)
	sessions := make([]*run.Sess, n)
	type res struct {
		commits  int
		logged   []string // rows this process committed to the log
		sums     []string
		errs     []string
		errMsgs  []string
		timedOut bool
	}
	results := make([]*res, n)
	for i := range c.Procs {
		ctxs[i] = sched.NewCtx()
		results[i] = &res{}
		s, err := run.NewSess(run.Opt{Dir: dir, Ctx: ctxs[i], RetryDelay: time.Millisecond})
		if err != nil {
			return o, fw.Harness("session: %v", err)
		}
		sessions[i] = s
	}

	var mu sync.Mutex
	holdX := map[string]map[int]bool{} // table -> processes holding it for update
	holdS := map[string]map[int]int{}  // table -> readers
	for p := range tables {
		holdX[p] = map[int]bool{}
		holdS[p] = map[int]int{}
	}
	var violation *fw.Violation
	lastProgress := 0
	steps := 0
	heldWhileWaiting := 0 // a process waited for a table while holding another one for update
	var commitOrder []string
	observe := func(p sched.Point) {
		mu.Lock()
		defer mu.Unlock()
		steps++
		_, isTable := tables[p.Path]
		switch {
		case (p.Name == "h.update.ready" || p.Name == "h.create.ready") && isTable:
			for q, h := range holdX[p.Path] {
				if q != p.Proc && h && violation == nil {
					violation = fw.V("xfer_two_writers", "process %d obtained %s for update while process %d still holds it for update", p.Proc, tables[p.Path], q)
				}
			}
			for q, k := range holdS[p.Path] {
				if q != p.Proc && k > 0 && violation == nil {
					violation = fw.V("xfer_writer_while_reader", "process %d obtained %s for update while process %d is reading it", p.Proc, tables[p.Path], q)
				}
			}
			holdX[p.Path][p.Proc] = true
			lastProgress = steps
		case p.Name == "h.read.ready" && isTable:
			for q, h := range holdX[p.Path] {
				if q != p.Proc && h && violation == nil {
					violation = fw.V("xfer_reader_while_writer", "process %d obtained %s for reading while process %d holds it for update", p.Proc, tables[p.Path], q)
				}
			}
			holdS[p.Path][p.Proc]++
			lastProgress = steps
		case p.Name == "cf.remove":
			if tp, ok := lockOf[p.Path]; ok && holdX[tp][p.Proc] {
				holdX[tp][p.Proc] = false
				lastProgress = steps
			}
			if strings.HasSuffix(p.Path, ".rlock") {
				for tp := range tables {
					if strings.HasPrefix(filepath.Base(p.Path), "."+filepath.Base(tp)+".") && holdS[tp][p.Proc] > 0 {
						holdS[tp][p.Proc]--
						lastProgress = steps
					}
				}
			}
		case p.Name == "h.commit.unlock" && isTable:
			commitOrder = append(commitOrder, fmt.Sprintf("%d:%s", p.Proc, tables[p.Path]))
			lastProgress = steps
		case p.Name == "cf.try" && isTable:
			contended := false
			for q, h := range holdX[p.Path] {
				if q != p.Proc && h {
					contended = true
				}
			}
			if contended {
				for tp, hs := range holdX {
					if tp != p.Path && hs[p.Proc] {
						heldWhileWaiting++
						break
					}
				}
			}
		case p.Name == "start" || p.Name == "stmt" || strings.HasPrefix(p.Name, "tx."):
			lastProgress = steps
		}
	}

	body := func(i int) func() {
		return func() {
			s := sessions[i]
			r := results[i]
			spec := c.Procs[i]
			defer s.Close()
			exec := func(sql string) bool {
				rs := s.Exec(sql)
				if rs.Err != nil {
					r.errs = append(r.errs, run.ErrClass(rs.Err))
					r.errMsgs = append(r.errMsgs, sql+": "+rs.Err.Error())
					return false
				}
				if strings.HasPrefix(sql, "SELECT a.n + b.n") {
					if len(rs.Views) == 1 && len(rs.Views[0].Rows) == 1 {
						r.sums = append(r.sums, rs.Views[0].Rows[0][0].S)
					} else {
						r.sums = append(r.sums, fmt.Sprintf("<shape %v>", rs.Views))
					}
				}
				return true
			}
			for k := 0; k < spec.Txns; k++ {
				ok := true
				row := fmt.Sprintf("%d,%d", i, k)
				logIt := func() bool {
					if !spec.Log {
						return true
					}
					return exec(fmt.Sprintf("INSERT INTO log VALUES (%d, %d)", i, k))
				}
				changes := false
				switch spec.Kind {
				case "xfer_ab":
					ok = exec("UPDATE a SET n = n - 1") && exec("UPDATE b SET n = n + 1") && logIt() && exec("COMMIT")
					changes = true
				case "xfer_ba":
					ok = exec("UPDATE b SET n = n + 1") && exec("UPDATE a SET n = n - 1") && logIt() && exec("COMMIT")
					changes = true
				case "multi_ab":
					ok = exec("UPDATE x, y SET x.n = x.n - 1, y.n = y.n + 1 FROM a x CROSS JOIN b y") && logIt() && exec("COMMIT")
					changes = true
				case "multi_ba":
					ok = exec("UPDATE x, y SET x.n = x.n - 1, y.n = y.n + 1 FROM b y CROSS JOIN a x") && logIt() && exec("COMMIT")
					changes = true
				case "sum":
					ok = exec("SELECT a.n + b.n AS s FROM a CROSS JOIN b FOR UPDATE") && exec("COMMIT")
				case "reader_a":
					ok = exec("SELECT n FROM a") && exec("COMMIT")
				case "reader_b":
					ok = exec("SELECT n FROM b") && exec("COMMIT")
				case "logger":
					ok = exec(fmt.Sprintf("INSERT INTO log VALUES (%d, %d)", i, k)) && exec("COMMIT")
					if ok {
						r.logged = append(r.logged, row)
					}
				}
				if ok && changes {
					r.commits++
					if spec.Log {
						r.logged = append(r.logged, row)
					}
				}
				if !ok {
					_ = s.Exec("ROLLBACK")
					break
				}
			}
		}
	}
	bodies := make([]func(), n)
	for i := range bodies {
		bodies[i] = body(i)
	}

	acquiring := func(at *sched.Point) bool {
		if at == nil {
			return false
		}
		if _, ok := tables[at.Path]; !ok {
			return false
		}
		return at.Name == "cf.try" || strings.HasPrefix(at.Name, "lock.") || strings.HasPrefix(at.Name, "rlock.")
	}
	bi, left := 0, 0
	if len(c.Bursts) > 0 {
		left = c.Bursts[0].Len
	}
	fired := map[int]bool{}
	deadlockTimeouts := 0
	pick := func(sc *sched.Sched, waiting []int) int {
		step := sc.Steps
		for _, te := range c.Timeouts {
			if te.Step <= step && !fired[te.Proc] && te.Proc < n && acquiring(sc.WaitingAt(te.Proc)) {
				fired[te.Proc] = true
				ctxs[te.Proc].Fire()
				results[te.Proc].timedOut = true
			}
		}
		mu.Lock()
		stuck := steps-lastProgress > c.Patience
		mu.Unlock()
		if stuck {
			// nobody has obtained, released or committed anything for a while: every live process is retrying.
			// The wait timeout of the first victim (drawn order) that is inside an acquisition expires now.
			for _, v := range c.Victims {
				if v < n && !fired[v] && acquiring(sc.WaitingAt(v)) {
					fired[v] = true
					ctxs[v].Fire()
					results[v].timedOut = true
					deadlockTimeouts++
					mu.Lock()
					lastProgress = steps
					mu.Unlock()
					break
				}
			}
		}
		for bi < len(c.Bursts) {
			if left <= 0 {
				bi++
				if bi < len(c.Bursts) {
					left = c.Bursts[bi].Len
				}
				continue
			}
			for k, w := range waiting {
				if w == c.Bursts[bi].Proc {
					left--
					return k
				}
			}
			left = 0
		}
		return step % len(waiting)
	}

	sc := sched.Run(bodies, pick, observe, 3*time.Second, 12000)
	if sc.Steps < 0 {
		o.Classes = append(o.Classes, "step_budget_exhausted")
		fw.AddExtra("xfer_step_budget_exhausted", 1)
	}
	if sc.Stalls > 0 {
		fw.AddExtra("stalls", int64(sc.Stalls))
	}
	mu.Lock()
	defer mu.Unlock()
	describe := func() string {
		var b strings.Builder
		for i, r := range results {
			fmt.Fprintf(&b, "\n  proc %d %s x%d log=%v: commits=%d logged=%v sums=%v timedOut=%v errs=%v %v", i, c.Procs[i].Kind, c.Procs[i].Txns, c.Procs[i].Log, r.commits, r.logged, r.sums, r.timedOut, r.errs, r.errMsgs)
		}
		fmt.Fprintf(&b, "\n  commit order: %v\n  trace:", commitOrder)
		for i, p := range sc.Trace {
			if i > 500 {
				b.WriteString(" ...")
				break
			}
			fmt.Fprintf(&b, " %d:%s", p.Proc, p.Name)
			if t, ok := tables[p.Path]; ok {
				b.WriteString("(" + t + ")")
			}
		}
		return b.String()
	}
	if violation != nil {
		violation.Msg += describe()
		return o, violation
	}
	net := 0 // units moved from a to b by committed transfers
	var wantLog []string
	for i, r := range results {
		net += r.commits
		wantLog = append(wantLog, r.logged...)
		for k, e := range r.errs {
			if !r.timedOut {
				return o, fw.V("xfer_unexpected_error:"+e, "process %d (%s) failed although its wait timeout never expired: %s%s", i, c.Procs[i].Kind, r.errMsgs[k], describe())
			}
			if !strings.HasPrefix(e, "E8/") {
				return o, fw.V("xfer_timeout_error_class:"+e, "process %d timed out but reported %s%s", i, r.errMsgs[k], describe())
			}
		}
		for _, s := range r.sums {
			if s != "0" {
				return o, fw.V("xfer_sum_not_zero", "process %d read a.n + b.n = %s while holding both tables for update; every committed transfer keeps the sum at 0%s", i, s, describe())
			}
		}
	}
	if cf := run.ControlFiles(dir); len(cf) > 0 {
		return o, fw.V("xfer_control_files_left", "control files remain after all processes ended: %v%s", cf, describe())
	}
	ba, erra := os.ReadFile(filepath.Join(dir, "a.csv"))
	bb, errb := os.ReadFile(filepath.Join(dir, "b.csv"))
	bl, errl := os.ReadFile(filepath.Join(dir, "log.csv"))
	if erra != nil || errb != nil || errl != nil {
		return o, fw.V("xfer_table_missing", "a table no longer exists: %v %v %v%s", erra, errb, errl, describe())
	}
	if string(ba) != fmt.Sprintf("n\n%d\n", -net) || string(bb) != fmt.Sprintf("n\n%d\n", net) {
		return o, fw.V("xfer_lost_or_partial_transfer", "final a=%q b=%q, but %d transfers reported a successful COMMIT (expected a=%d b=%d)%s", string(ba), string(bb), net, -net, net, describe())
	}
	gotLog := strings.Split(strings.TrimSuffix(string(bl), "\n"), "\n")
	if len(gotLog) == 0 || gotLog[0] != "p,k" {
		return o, fw.V("xfer_log_header", "log table is %q%s", string(bl), describe())
	}
	gotRows := append([]string(nil), gotLog[1:]...)
	// per process its rows appear in transaction order; as a multiset the log holds exactly the committed rows
	lastK := map[string]int{}
	for _, ln := range gotRows {
		var p, k int
		if _, err := fmt.Sscanf(ln, "%d,%d", &p, &k); err != nil {
			return o, fw.V("xfer_log_row", "log row %q%s", ln, describe())
		}
		key := fmt.Sprint(p)
		if prev, ok := lastK[key]; ok && prev >= k {
			return o, fw.V("xfer_log_order", "log rows of process %d are out of transaction order: %v%s", p, gotRows, describe())
		}
		lastK[key] = k
	}
	sort.Strings(gotRows)
	sort.Strings(wantLog)
	if strings.Join(gotRows, ";") != strings.Join(wantLog, ";") {
		return o, fw.V("xfer_log_rows", "log holds %v, committed rows are %v%s", gotRows, wantLog, describe())
	}
	o.Evals = 1
	if heldWhileWaiting > 0 {
		o.Classes = append(o.Classes, "waited_while_holding")
		o.Fingerprint = fmt.Sprintf("xfer|%d|%d", len(c.Procs), hashTrace(sc.Trace))
	}
	if deadlockTimeouts > 0 {
		o.Classes = append(o.Classes, "deadlock_broken_by_timeout")
		fw.AddExtra("xfer_deadlock_timeouts", int64(deadlockTimeouts))
	}
	timedOutAfterWork := false
	for i, r := range results {
		if r.timedOut && len(r.errs) > 0 && strings.Contains(r.errMsgs[0], "UPDATE") && !strings.HasPrefix(r.errMsgs[0], "UPDATE a SET n = n - 1:") && c.Procs[i].Kind == "xfer_ab" {
			timedOutAfterWork = true
		}
		if r.timedOut && len(r.errs) > 0 && c.Procs[i].Kind == "xfer_ba" && strings.HasPrefix(r.errMsgs[0], "UPDATE a") {
			timedOutAfterWork = true
		}
	}
	if timedOutAfterWork {
		o.Classes = append(o.Classes, "timeout_after_first_table_changed")
	}
	fw.AddExtra("xfer_steps", int64(abs(sc.Steps)))
	return o, nil
}

func TestC09Transfers(t *testing.T) {
	fw.Run(t, fw.Spec[xferCase]{
		ID: "C09", Name: "transfers", Quick: 1000, Thorough: 30000,
		Gen: genXfer, Check: checkXfer,
		Rule: "2-4 virtual processes on three tables (counters a and b with a.n + b.n = 0, and a log): transfers that change a then b or b then a in two statements, or both in one multi-table UPDATE (either FROM order), optionally appending a row to the log; 'sum' transactions reading both counters FOR UPDATE in one statement; single-table readers; log appenders. Same baton scheduler and yield points as 'schedules'. Opposite acquisition orders deadlock: when no process has obtained, released or committed anything for a drawn number of steps, the wait timeout of the first process of a drawn victim order that is inside a lock acquisition expires (plus timeout events at drawn steps). Invariants: per table, no two holders for update, no reader with a writer; a process fails only after its timeout fired and only with the lock-timeout error; final a = -(committed transfers), b = +(committed transfers) - a timed-out transfer that had already changed one table leaves nothing; the log holds exactly the rows of committed transactions, each process's rows in order; a.n + b.n read under FOR UPDATE is 0; no control files at the end. non-trivial = a process waited for a table held by another process while itself holding another table for update; distinct by the full (process, point) trace",
		Assumptions: []string{"deadlocks are broken by delivering the wait timeout as a scheduler event to a process that is inside a lock acquisition; wall-clock plays no part"},
	})
}
