package c09

import (
	"fmt"
	"os"
	"path/filepath"
	"sort"
	"strings"
	"sync/atomic"
	"testing"
	"time"

	"pgregory.net/rapid"

	"verif/internal/fw"
	"verif/internal/run"
)

// ---------------------------------------------------------------------
// held_timeout: the REAL wait timeout of a REAL process against access that is never released.
//
// In 'schedules', 'transfers' and 'forms' the wait timeout is a scheduler event (the context of the virtual process
// carries a far deadline, so file.GetTimeoutContext never builds its own); in 'stress' the timeout is 600 s and never
// expires. The code that turns --wait-timeout / @@WAIT_TIMEOUT into a deadline and the deadline into the lock-timeout
// error therefore never ran to its end. Here the other process is one that never lets go - a reader or writer that was
// stopped (SIGSTOP) or killed after it created its control file, which for the process under test is the same thing as
// a control file that stays: '.NAME.lock' (a holder for update, or a reader inside its transient lock), one
// '.NAME.<12>.rlock' (a reader), '.NAME.temp' (a writer past its lock; together with '.lock' as a live writer has
// them, or alone as a crashed one leaves it). One csvq process runs a drawn program with a drawn small wait timeout.
// No wall-clock limit is an oracle except as a LOWER bound (a lock timeout cannot be reported before the timeout has
// elapsed) and one very far upper bound (300 s for a timeout of at most 1.2 s).

type heldCase struct {
	Table  string   `json:"table"`
	Plant  []string `json:"plant"` // lock | rlock | temp, on the table the program needs
	Other  bool     `json:"other"` // control files of a table the program never touches
	Op     string   `json:"op"`
	Shape  string   `json:"shape"` // only | a_then_b | commit_a_then_b | b_then_a
	How    string   `json:"how"`   // long | short | flag
	WaitMs int      `json:"wait_ms"`
}

var heldOps = []string{"upd", "ins", "del", "repl", "alter", "sfu", "read", "read_inline"}

func genHeld(t *rapid.T) heldCase {
	c := heldCase{Table: "b.csv"}
	if fw.Pct(t, "oddName", 40) {
		c.Table = []string{"b[1].csv", "[b].csv", "b[.csv", "b*.csv", "b?x.csv", "b 1.csv"}[fw.Uniform(t, "table", 6)]
	}
	switch fw.Weighted(t, "plant", []int{25, 25, 12, 15, 8, 5, 10}) {
	case 0:
		c.Plant = []string{"lock"}
	case 1:
		c.Plant = []string{"rlock"}
	case 2:
		c.Plant = []string{"temp"}
	case 3:
		c.Plant = []string{"lock", "temp"}
	case 4:
		c.Plant = []string{"lock", "rlock"}
	case 5:
		c.Plant = []string{"rlock", "rlock2"}
	case 6:
		c.Plant = nil
	}
	c.Other = fw.Pct(t, "other", 30)
	c.Op = heldOps[fw.Uniform(t, "op", len(heldOps))]
	c.Shape = []string{"only", "a_then_b", "commit_a_then_b", "b_then_a"}[fw.Uniform(t, "shape", 4)]
	c.How = []string{"long", "short", "flag"}[fw.Uniform(t, "how", 3)]
	if c.Shape == "a_then_b" || c.Shape == "commit_a_then_b" {
		// the small timeout must not apply to the statement on table a, which nobody holds: on a busy machine even
		// an uncontended acquisition can take longer than a few dozen milliseconds, and csvq then (rightly) reports
		// that it did not get access in time. The flag is set right in front of the statement under test.
		c.How = "flag"
	}
	c.WaitMs = []int{50, 200, 500, 1200}[fw.Uniform(t, "wait", 4)]
	return c
}

const heldInitialB = "id,v\n1,10\n2,20\n"

func heldOpSQL(c heldCase) (sql string, after string, reads bool) {
	T := "`" + c.Table + "`"
	switch c.Op {
	case "upd":
		return "UPDATE " + T + " SET v = v + 1 WHERE id = 1", "id,v\n1,11\n2,20\n", false
	case "ins":
		return "INSERT INTO " + T + " VALUES (3, 30)", "id,v\n1,10\n2,20\n3,30\n", false
	case "del":
		return "DELETE FROM " + T + " WHERE id = 2", "id,v\n1,10\n", false
	case "repl":
		return "REPLACE INTO " + T + " (id, v) USING (id) VALUES (2, 99)", "id,v\n1,10\n2,99\n", false
	case "alter":
		return "ALTER TABLE " + T + " ADD (w DEFAULT 0)", "id,v,w\n1,10,0\n2,20,0\n", false
	case "sfu":
		return "SELECT * FROM " + T + " FOR UPDATE", heldInitialB, false
	case "read":
		return "SELECT * FROM " + T, heldInitialB, true
	}
	return "SELECT * FROM INLINE::('" + c.Table + "')", heldInitialB, true
}

func checkHeld(c heldCase) (fw.Outcome, *fw.Violation) {
	o := fw.Outcome{Classes: []string{"op=" + c.Op, "shape=" + c.Shape, "how=" + c.How, "plant=" + strings.Join(c.Plant, "+")}}
	bin, err := run.Binary(fw.WorkDir(), false)
	if err != nil {
		return o, fw.Harness("%v", err)
	}
	dir := filepath.Join(fw.WorkDir(), fmt.Sprintf("c09h-%d", atomic.AddInt64(&seq, 1)))
	_ = os.RemoveAll(dir)
	_ = os.MkdirAll(dir, 0755)
	defer os.RemoveAll(dir)
	home := filepath.Join(fw.WorkDir(), "clihome")
	_ = os.MkdirAll(home, 0755)
	files := map[string]string{"a.csv": "n\n0\n", c.Table: heldInitialB, "z.csv": "n\n5\n"}
	if err := run.WriteFiles(dir, files); err != nil {
		return o, fw.Harness("%v", err)
	}
	var planted []string
	has := map[string]bool{}
	for _, p := range c.Plant {
		has[p] = true
		switch p {
		case "lock":
			planted = append(planted, "."+c.Table+".lock")
		case "rlock":
			planted = append(planted, "."+c.Table+".a1B2c3D4e5F6.rlock")
		case "rlock2":
			planted = append(planted, "."+c.Table+".ZZZZZZZZZZZZ.rlock")
		case "temp":
			planted = append(planted, "."+c.Table+".temp")
		}
	}
	if c.Other {
		planted = append(planted, ".z.csv.lock", ".z.csv.a1B2c3D4e5F6.rlock", ".z.csv.temp")
	}
	for _, p := range planted {
		if err := os.WriteFile(filepath.Join(dir, p), nil, 0644); err != nil {
			return o, fw.Harness("%v", err)
		}
	}
	sort.Strings(planted)

	opSQL, afterB, reads := heldOpSQL(c)
	blocked := has["lock"]
	if !reads && (has["rlock"] || has["temp"]) {
		blocked = true
	}
	incA := "UPDATE a SET n = n + 1"
	var prog []string
	wantA := "n\n0\n"
	switch c.Shape {
	case "only":
		prog = []string{opSQL}
	case "a_then_b":
		prog = []string{incA, opSQL}
		if !blocked {
			wantA = "n\n1\n"
		}
	case "commit_a_then_b":
		prog = []string{incA, "COMMIT", opSQL}
		wantA = "n\n1\n" // committed before the statement that cannot get access
	case "b_then_a":
		prog = []string{opSQL, incA}
		if !blocked {
			wantA = "n\n1\n"
		}
	}
	wantB := heldInitialB
	if !blocked {
		wantB = afterB
	}
	secs := fmt.Sprintf("%.3f", float64(c.WaitMs)/1000)
	if !blocked {
		// nothing stands in the way: a small timeout would only measure how busy the machine is
		secs = "600"
	}
	args := []string{"-q", "-f", "CSV"}
	switch c.How {
	case "long":
		args = append(args, "--wait-timeout", secs)
	case "short":
		args = append(args, "-w", secs)
	case "flag":
		args = append(args, "-w", "600")
		var withFlag []string
		for _, st := range prog {
			if st == opSQL {
				withFlag = append(withFlag, "SET @@WAIT_TIMEOUT TO "+secs)
			}
			withFlag = append(withFlag, st)
		}
		prog = withFlag
	}
	src := filepath.Join(home, fmt.Sprintf("h-%d.sql", atomic.AddInt64(&seq, 1)))
	_ = os.WriteFile(src, []byte(strings.Join(prog, ";\n")+";\n"), 0644)
	defer os.Remove(src)
	args = append(args, "-s", src)
	res := run.CLI(run.CLIOpt{Bin: bin, Dir: dir, Home: home, Args: args, Timeout: 300 * time.Second})
	ctx := fmt.Sprintf("\n  planted: %v\n  program: %s\n  args: %v\n  exit %d in %v\n  stdout: %q\n  stderr: %q", planted, strings.Join(prog, "; "), args, res.Code, res.Dur, res.Stdout, res.Stderr)
	if res.TimedOut {
		if blocked {
			return o, fw.V("held_no_timeout", "the process was still waiting after 300 s although its wait timeout is %s s%s", secs, ctx)
		}
		return o, fw.Harness("process hit the 300 s limit although nothing holds its tables%s", ctx)
	}
	gotA, _ := os.ReadFile(filepath.Join(dir, "a.csv"))
	gotB, _ := os.ReadFile(filepath.Join(dir, c.Table))
	gotZ, _ := os.ReadFile(filepath.Join(dir, "z.csv"))
	left := run.ControlFiles(dir)
	if blocked {
		if res.Code == 0 {
			return o, fw.V("held_not_blocked", "the table is held (%v) but the process got access and exited 0; table now %q%s", c.Plant, string(gotB), ctx)
		}
		// "context deadline exceeded" is what csvq says when the deadline had already passed at the start of one of
		// the acquisition's steps (possible on a busy machine with a timeout of 50 ms); same exit code
		if res.Code != 8 || !(strings.Contains(res.Stderr, "lock wait timeout period exceeded") || strings.Contains(res.Stderr, "context deadline exceeded")) {
			return o, fw.V("held_wrong_error", "the table is held (%v): expected exit code 8 with the lock wait timeout message%s", c.Plant, ctx)
		}
		if strings.Contains(res.Stderr, "lock wait timeout period exceeded") {
			o.Classes = append(o.Classes, "msg=lock_wait_timeout")
		} else {
			o.Classes = append(o.Classes, "msg=context_deadline")
		}
		if res.Dur < time.Duration(c.WaitMs)*time.Millisecond {
			return o, fw.V("held_failed_before_timeout", "lock timeout reported after %v, before the wait timeout of %s s elapsed%s", res.Dur, secs, ctx)
		}
	} else if res.Code != 0 {
		return o, fw.V("held_spurious_failure", "nothing that blocks this program is held (%v) but it failed%s", c.Plant, ctx)
	}
	if string(gotB) != wantB {
		return o, fw.V("held_table_changed", "table %s is %q, expected %q (blocked=%v)%s", c.Table, string(gotB), wantB, blocked, ctx)
	}
	if string(gotA) != wantA {
		return o, fw.V("held_other_table_wrong", "table a is %q, expected %q (blocked=%v, shape %s)%s", string(gotA), wantA, blocked, c.Shape, ctx)
	}
	if string(gotZ) != "n\n5\n" {
		return o, fw.V("held_untouched_table_changed", "table z is %q%s", string(gotZ), ctx)
	}
	if strings.Join(left, "|") != strings.Join(planted, "|") {
		return o, fw.V("held_control_files_differ", "control files afterwards %v, the ones that were held before %v: the process removed another's or left its own%s", left, planted, ctx)
	}
	if !blocked && reads && !strings.Contains(res.Stdout, "1,10\n2,20") {
		return o, fw.V("held_read_result", "reader printed %q%s", res.Stdout, ctx)
	}
	o.Evals = 1
	if blocked {
		o.Classes = append(o.Classes, "blocked")
		o.Fingerprint = fmt.Sprintf("held|%s|%v|%v|%s|%s|%s|%d", c.Table, c.Plant, c.Other, c.Op, c.Shape, c.How, c.WaitMs)
	} else {
		o.Classes = append(o.Classes, "not_blocked")
	}
	return o, nil
}

func TestC09HeldTimeout(t *testing.T) {
	fw.Run(t, fw.Spec[heldCase]{
		ID: "C09", Name: "held_timeout", Quick: 64, Thorough: 2000,
		Gen: genHeld, Check: checkHeld,
		Rule: "one real csvq process against control files that stay (= another process stopped or killed while holding access): '.T.lock', one or two '.T.<12>.rlock', '.T.temp', lock+temp, lock+rlock, or none, plus control files of a table the program never touches; T drawn from names with characters special to filepath.Glob; the program performs UPDATE / INSERT / DELETE / REPLACE / ALTER TABLE ADD / SELECT FOR UPDATE / SELECT / SELECT from INLINE:: on T alone, after changing table a in the same transaction, after changing and COMMITting a, or before changing a; the wait timeout (50 ms - 1.2 s when the model says blocked, else 600 s) comes from --wait-timeout, -w or SET @@WAIT_TIMEOUT (with -w 600; always this way, set right before the statement, when a statement on table a precedes: the small timeout must not apply to an uncontended acquisition, which on a busy machine may take longer). Model: a reader is blocked by '.lock' only, every other statement by any of the three. Oracle when blocked: exit code 8 with 'lock wait timeout period exceeded' (or 'context deadline exceeded': the deadline passed before a step of the acquisition began), not earlier than the wait timeout, T byte-identical, a changed only by the transaction committed before, the control files afterwards are exactly the held ones (none of them removed, none of the process's own left); when not blocked: exit 0, T and a as the statements define, control files untouched. non-trivial = blocked case; distinct by the whole case",
		Assumptions: []string{"a control file that stays stands for a process that holds access and does not progress; flock on the data file is not held by anyone in this sub-check",
			"the only upper wall-clock bound is 300 s for a wait timeout of at most 1.2 s"},
	})
}
