package c09

import (
	"fmt"
	"os"
	"path/filepath"
	"strings"
	"sync"
	"sync/atomic"
	"testing"
	"time"

	"pgregory.net/rapid"

	"verif/internal/fw"
	"verif/internal/run"
	"verif/internal/sched"
)

func TestMain(m *testing.M) { fw.Main(m) }

type procSpec struct {
	Kind string `json:"kind"` // reader | writer | rmw | sfu | rollback | creator
	Txns int    `json:"txns"`
}

type burst struct {
	Proc int `json:"proc"`
	Len  int `json:"len"`
}

type timeoutEv struct {
	Proc int `json:"proc"`
	Step int `json:"step"`
}

type schedCase struct {
	Mode     string      `json:"mode"` // counter | create
	Procs    []procSpec  `json:"procs"`
	Bursts   []burst     `json:"bursts"`
	Timeouts []timeoutEv `json:"timeouts"`
}

func genCase(t *rapid.T) schedCase {
	c := schedCase{Mode: "counter"}
	if fw.Pct(t, "createMode", 20) {
		c.Mode = "create"
	}
	n := fw.Range(t, "nprocs", 2, 3)
	if fw.Pct(t, "four", 10) {
		n = 4
	}
	for i := 0; i < n; i++ {
		p := procSpec{Txns: fw.Range(t, "txns", 1, 2)}
		if c.Mode == "create" {
			p.Kind = "creator"
			p.Txns = 1
			if i > 0 {
				// next to the creators: a creator that rolls back, and processes that read or extend the table
				// that is being created (they may run before, while or after it comes into being)
				p.Kind = []string{"creator", "creator_rb", "newreader", "newwriter"}[fw.Weighted(t, "ckind", []int{40, 15, 25, 20})]
				if p.Kind == "newreader" || p.Kind == "newwriter" {
					p.Txns = fw.Range(t, "btxns", 1, 2)
				}
			}
		} else {
			p.Kind = []string{"writer", "rmw", "reader", "sfu", "rollback", "reader"}[fw.Weighted(t, "kind", []int{25, 20, 20, 15, 10, 10})]
		}
		c.Procs = append(c.Procs, p)
	}
	if c.Mode == "counter" {
		// at least one writer
		hasW := false
		for _, p := range c.Procs {
			if p.Kind == "writer" || p.Kind == "sfu" || p.Kind == "rmw" {
				hasW = true
			}
		}
		if !hasW {
			c.Procs[0].Kind = "writer"
		}
	}
	nb := fw.Range(t, "nbursts", 4, 40)
	for i := 0; i < nb; i++ {
		c.Bursts = append(c.Bursts, burst{Proc: fw.Uniform(t, "bproc", n), Len: fw.Range(t, "blen", 1, 9)})
	}
	if fw.Pct(t, "withTimeout", 30) {
		nt := fw.Range(t, "ntimeouts", 1, 2)
		for i := 0; i < nt; i++ {
			c.Timeouts = append(c.Timeouts, timeoutEv{Proc: fw.Uniform(t, "tproc", n), Step: fw.Range(t, "tstep", 3, 80)})
		}
	}
	return c
}

var seq int64

type procResult struct {
	commits  int      // transactions whose COMMIT returned success
	reads    []string // values read
	readLo   []int
	readHi   []int
	errs     []string // error classes of failed statements
	errMsgs  []string
	timedOut bool
	errAfter []bool // create mode: the table had been created and committed when the failing statement began
	appends  int    // create mode: committed INSERTs of a 'newwriter'
}

func checkCase(c schedCase) (fw.Outcome, *fw.Violation) {
	o := fw.Outcome{Classes: []string{"mode=" + c.Mode, fmt.Sprintf("procs=%d", len(c.Procs))}}
	if c.Mode == "create" {
		for _, p := range c.Procs {
			o.Classes = append(o.Classes, "create:"+p.Kind)
		}
	}
	dir := filepath.Join(fw.WorkDir(), fmt.Sprintf("c09-%d", atomic.AddInt64(&seq, 1)))
	_ = os.RemoveAll(dir)
	_ = os.MkdirAll(dir, 0755)
	defer os.RemoveAll(dir)
	if c.Mode == "counter" {
		_ = os.WriteFile(filepath.Join(dir, "c.csv"), []byte("n\n0\n"), 0644)
	}
	table := filepath.Join(dir, "c.csv")
	if c.Mode == "create" {
		table = filepath.Join(dir, "newt.csv")
	}

	n := len(c.Procs)
	ctxs := make([]*sched.Ctx, n)
	results := make([]*procResult, n)
	sessions := make([]*run.Sess, n)
	for i := range c.Procs {
		ctxs[i] = sched.NewCtx()
		results[i] = &procResult{}
		s, err := run.NewSess(run.Opt{Dir: dir, Ctx: ctxs[i], RetryDelay: time.Millisecond})
		if err != nil {
			return o, fw.Harness("session: %v", err)
		}
		sessions[i] = s
	}

	// bookkeeping driven by the observed points (scheduler goroutine only)
	var mu sync.Mutex
	holdX := map[int]bool{}
	holdS := map[int]int{}
	commitsDone := 0
	curLo := make([]int, n)
	var violation *fw.Violation
	lockPath := filepath.Join(dir, "."+filepath.Base(table)+".lock")
	createCommitted := false     // create mode: a creator's COMMIT has swapped the table in
	createStates := []string{""} // create mode: column a of the table after each commit ("" = no table yet)
	inWindow := false            // some process is inside an acquisition window (between its first check and ready/back-off)
	windowOwner := -1
	interleavedInWindow := 0
	observe := func(p sched.Point) {
		mu.Lock()
		defer mu.Unlock()
		isTable := p.Path == table
		switch {
		case p.Name == "lock.check" || p.Name == "rlock.check":
			if inWindow && windowOwner != p.Proc {
				interleavedInWindow++
			}
			if !inWindow {
				inWindow, windowOwner = true, p.Proc
			}
		case (p.Name == "h.update.ready" || p.Name == "h.create.ready") && isTable:
			for q := range holdX {
				if q != p.Proc && holdX[q] && violation == nil {
					violation = fw.V("two_writers", "process %d obtained the table for update while process %d still holds it for update", p.Proc, q)
				}
			}
			for q, k := range holdS {
				if q != p.Proc && k > 0 && violation == nil {
					violation = fw.V("writer_while_reader", "process %d obtained the table for update while process %d is reading it", p.Proc, q)
				}
			}
			holdX[p.Proc] = true
			if windowOwner == p.Proc {
				inWindow = false
			}
		case p.Name == "h.read.ready" && isTable:
			for q := range holdX {
				if q != p.Proc && holdX[q] && violation == nil {
					violation = fw.V("reader_while_writer", "process %d obtained the table for reading while process %d holds it for update", p.Proc, q)
				}
			}
			holdS[p.Proc]++
			curLo[p.Proc] = commitsDone
			if windowOwner == p.Proc {
				inWindow = false
			}
		case p.Name == "load.cached" && isTable:
			if holdS[p.Proc] > 0 {
				results[p.Proc].readLo = append(results[p.Proc].readLo, curLo[p.Proc])
				results[p.Proc].readHi = append(results[p.Proc].readHi, commitsDone)
			}
		case p.Name == "cf.remove":
			if p.Path == lockPath && holdX[p.Proc] {
				holdX[p.Proc] = false
			}
			if strings.HasSuffix(p.Path, ".rlock") && holdS[p.Proc] > 0 {
				holdS[p.Proc]--
			}
			if windowOwner == p.Proc {
				inWindow = false
			}
		case (p.Name == "h.commit.done" || p.Name == "h.close.done" || p.Name == "h.closew.done") && isTable:
			// the handler is gone whatever control files it had (one handler per path and process)
			holdX[p.Proc] = false
		case p.Name == "h.commit.unlock" && isTable:
			commitsDone++
			if c.Mode == "create" && p.Proc < len(c.Procs) {
				switch c.Procs[p.Proc].Kind {
				case "creator":
					createCommitted = true
					createStates = append(createStates, fmt.Sprint(p.Proc+1))
				case "newwriter":
					createStates = append(createStates, createStates[len(createStates)-1]+","+fmt.Sprint(100+p.Proc))
				}
			}
		case p.Name == "cf.try":
			if inWindow && windowOwner != p.Proc {
				interleavedInWindow++
			}
		}
	}

	body := func(i int) func() {
		return func() {
			s := sessions[i]
			r := results[i]
			spec := c.Procs[i]
			defer s.Close()
			exec := func(sql string) bool {
				mu.Lock()
				after := createCommitted
				mu.Unlock()
				res := s.Exec(sql)
				if res.Err != nil {
					r.errs = append(r.errs, run.ErrClass(res.Err))
					r.errMsgs = append(r.errMsgs, sql+": "+res.Err.Error())
					r.errAfter = append(r.errAfter, after)
					return false
				}
				if strings.HasPrefix(sql, "SELECT a FROM") {
					v := "<shape>"
					if len(res.Views) == 1 {
						var cells []string
						for _, row := range res.Views[0].Rows {
							cells = append(cells, row[0].S)
						}
						v = strings.Join(cells, ",")
					}
					r.reads = append(r.reads, v)
				}
				if strings.HasPrefix(sql, "SELECT n FROM") && !strings.Contains(sql, "FOR UPDATE") {
					if len(res.Views) == 1 && len(res.Views[0].Rows) == 1 {
						r.reads = append(r.reads, res.Views[0].Rows[0][0].S)
					} else {
						r.reads = append(r.reads, fmt.Sprintf("<shape %v>", res.Views))
					}
				}
				return true
			}
			for k := 0; k < spec.Txns; k++ {
				ok := true
				switch spec.Kind {
				case "writer":
					ok = exec("UPDATE c SET n = n + 1") && exec("COMMIT")
					if ok {
						r.commits++
					}
				case "sfu":
					ok = exec("SELECT n FROM c FOR UPDATE") && exec("UPDATE c SET n = n + 1") && exec("COMMIT")
					if ok {
						r.commits++
					}
				case "rmw":
					// read-modify-write in one transaction: a plain read first, then the change (which must
					// work on the current file, not on the earlier unlocked read)
					ok = exec("SELECT n FROM c") && exec("UPDATE c SET n = n + 1") && exec("COMMIT")
					if ok {
						r.commits++
					}
				case "rollback":
					ok = exec("UPDATE c SET n = n + 100") && exec("ROLLBACK")
				case "reader":
					ok = exec("SELECT n FROM c") && exec("COMMIT")
				case "creator":
					ok = exec("CREATE TABLE `newt.csv` (a)") && exec(fmt.Sprintf("INSERT INTO `newt.csv` VALUES (%d)", i+1)) && exec("COMMIT")
					if ok {
						r.commits++
					}
				case "creator_rb":
					ok = exec("CREATE TABLE `newt.csv` (a)") && exec(fmt.Sprintf("INSERT INTO `newt.csv` VALUES (%d)", i+1)) && exec("ROLLBACK")
				case "newreader":
					ok = exec("SELECT a FROM `newt.csv`") && exec("COMMIT")
				case "newwriter":
					ok = exec(fmt.Sprintf("INSERT INTO `newt.csv` VALUES (%d)", 100+i)) && exec("COMMIT")
					if ok {
						r.appends++
					}
				}
				if !ok {
					_ = s.Exec("ROLLBACK")
					break
				}
			}
		}
	}
	bodies := make([]func(), n)
	for i := range bodies {
		bodies[i] = body(i)
	}

	bi, left := 0, 0
	if len(c.Bursts) > 0 {
		left = c.Bursts[0].Len
	}
	fired := map[int]bool{}
	pick := func(sc *sched.Sched, waiting []int) int {
		step := sc.Steps
		for _, te := range c.Timeouts {
			// the wait timeout of a process can only expire while it is acquiring access
			if te.Step <= step && !fired[te.Proc] && te.Proc < n {
				if at := sc.WaitingAt(te.Proc); at != nil && at.Path == table && (at.Name == "cf.try" || strings.HasPrefix(at.Name, "lock.") || strings.HasPrefix(at.Name, "rlock.")) {
					fired[te.Proc] = true
					ctxs[te.Proc].Fire()
					results[te.Proc].timedOut = true
				}
			}
		}
		for bi < len(c.Bursts) {
			if left <= 0 {
				bi++
				if bi < len(c.Bursts) {
					left = c.Bursts[bi].Len
				}
				continue
			}
			for k, w := range waiting {
				if w == c.Bursts[bi].Proc {
					left--
					return k
				}
			}
			// the burst's process is not available: skip the burst
			left = 0
		}
		return step % len(waiting)
	}

	sc := sched.Run(bodies, pick, observe, 3*time.Second, 6000)
	if sc.Steps < 0 {
		o.Classes = append(o.Classes, "step_budget_exhausted")
		fw.AddExtra("step_budget_exhausted", 1)
	}
	if sc.Stalls > 0 {
		fw.AddExtra("stalls", int64(sc.Stalls))
	}
	mu.Lock()
	defer mu.Unlock()
	describe := func() string {
		var b strings.Builder
		for i, r := range results {
			fmt.Fprintf(&b, "\n  proc %d %s x%d: commits=%d reads=%v window lo=%v hi=%v timedOut=%v errs=%v %v", i, c.Procs[i].Kind, c.Procs[i].Txns, r.commits, r.reads, r.readLo, r.readHi, r.timedOut, r.errs, r.errMsgs)
		}
		b.WriteString("\n  trace:")
		for i, p := range sc.Trace {
			if i > 400 {
				b.WriteString(" ...")
				break
			}
			fmt.Fprintf(&b, " %d:%s", p.Proc, p.Name)
		}
		return b.String()
	}
	if violation != nil {
		violation.Msg += describe()
		return o, violation
	}
	// errors: only processes whose wait timeout fired may fail, and only with the timeout/context family
	total := 0
	for i, r := range results {
		total += r.commits
		for k, e := range r.errs {
			if c.Mode == "create" && strings.HasPrefix(c.Procs[i].Kind, "creator") {
				continue // losing creators fail at once without waiting (already exists / lock held); judged below
			}
			if c.Mode == "create" && !r.errAfter[k] {
				continue // the table did not exist (or was not committed yet) when the statement began: any refusal is fine
			}
			if !r.timedOut {
				return o, fw.V("unexpected_error:"+e, "process %d (%s) failed although its wait timeout never expired: %s%s", i, c.Procs[i].Kind, r.errMsgs[k], describe())
			}
			if !strings.HasPrefix(e, "E8/") {
				return o, fw.V("timeout_error_class:"+e, "process %d timed out but reported %s%s", i, r.errMsgs[k], describe())
			}
		}
	}
	// I5: no control files at quiescence
	if cf := run.ControlFiles(dir); len(cf) > 0 {
		return o, fw.V("control_files_left", "control files remain after all processes ended: %v%s", cf, describe())
	}
	switch c.Mode {
	case "counter":
		b, err := os.ReadFile(table)
		if err != nil {
			return o, fw.V("table_missing", "table no longer exists: %v%s", err, describe())
		}
		want := fmt.Sprintf("n\n%d\n", total)
		if string(b) != want {
			return o, fw.V("lost_or_phantom_update", "final table %q, but %d increment transactions reported a successful COMMIT (expected %q)%s", string(b), total, want, describe())
		}
		for i, r := range results {
			for k, v := range r.reads {
				if k >= len(r.readLo) {
					// served from the transaction's cache: not a file read
					continue
				}
				lo, hi := r.readLo[k], r.readHi[k]
				ok := false
				for x := lo; x <= hi; x++ {
					if v == fmt.Sprint(x) {
						ok = true
					}
				}
				if !ok {
					return o, fw.V("reader_saw_uncommitted_or_stale", "process %d read n=%s but the committed value during its read was in [%d,%d]%s", i, v, lo, hi, describe())
				}
			}
		}
	case "create":
		b, err := os.ReadFile(table)
		switch {
		case total == 0 && err == nil:
			return o, fw.V("created_without_commit", "no creator committed but the file exists: %q%s", string(b), describe())
		case total > 1:
			return o, fw.V("two_creators_committed", "%d processes created the same table successfully%s", total, describe())
		case total == 1:
			winner := -1
			for i, r := range results {
				if r.commits == 1 {
					winner = i
				}
			}
			wantFile := "a\n" + strings.ReplaceAll(createStates[len(createStates)-1], ",", "\n") + "\n"
			if err != nil || string(b) != wantFile || !strings.HasPrefix(wantFile, fmt.Sprintf("a\n%d\n", winner+1)) {
				return o, fw.V("created_table_wrong", "creator %d committed (states after each commit: %q) but the file is %q (err %v)%s", winner, createStates, string(b), err, describe())
			}
		}
		appended := 0
		for i, r := range results {
			appended += r.appends
			for _, v := range r.reads {
				ok := false
				for _, st := range createStates[1:] {
					if st == v {
						ok = true
					}
				}
				if !ok {
					return o, fw.V("created_table_read_uncommitted", "process %d read column a = [%s] of the table being created; the committed contents were %q%s", i, v, createStates[1:], describe())
				}
				o.Classes = append(o.Classes, "read_created_table")
			}
		}
		if total == 1 && appended != len(createStates)-2 {
			return o, fw.V("created_table_lost_insert", "%d INSERT transactions into the new table reported success, %d commits were observed%s", appended, len(createStates)-2, describe())
		}
		if appended > 0 {
			o.Classes = append(o.Classes, "extended_created_table")
		}
	}
	o.Evals = 1
	if interleavedInWindow > 0 {
		o.Fingerprint = fmt.Sprintf("%s|%d|%d", c.Mode, len(c.Procs), hashTrace(sc.Trace))
		o.Classes = append(o.Classes, "interleaved_in_window")
	}
	if len(c.Timeouts) > 0 {
		o.Classes = append(o.Classes, "with_timeout_event")
	}
	fw.AddExtra("steps", int64(abs(sc.Steps)))
	return o, nil
}

func abs(x int) int {
	if x < 0 {
		return -x
	}
	return x
}

func hashTrace(tr []sched.Point) uint64 {
	var h uint64 = 1469598103934665603
	for _, p := range tr {
		for _, ch := range fmt.Sprintf("%d:%s;", p.Proc, p.Name) {
			h ^= uint64(ch)
			h *= 1099511628211
		}
	}
	return h
}

func TestC09Schedules(t *testing.T) {
	fw.Run(t, fw.Spec[schedCase]{
		ID: "C09", Name: "schedules", Quick: 2400, Thorough: 60000,
		Gen: genCase, Check: checkCase,
		Rule: "2-4 virtual processes (goroutines with their own csvq Session/Transaction/Processor on one directory): readers (SELECT n; COMMIT), writers (UPDATE n=n+1; COMMIT), read-then-write transactions (SELECT n; UPDATE; COMMIT), SELECT FOR UPDATE writers, rolled-back writers, or concurrent CREATE TABLE of one name; every file-system step of lib/file and Transaction.Commit is a yield point and a baton scheduler runs exactly one process between two points; the drawn value is the schedule (bursts of picks, then round-robin) plus wait-timeout events (the processes' context expires at a drawn step instead of by wall-clock). History invariants: no process gets the table for update while another holds it for update or reading, none for reading while one holds it for update; final counter = number of successful COMMITs; each read value lies in the committed range of its read window; only timed-out processes fail and only with the lock-timeout/context error; no control files at the end; one creator at most. non-trivial = a second process takes a step inside another's lock-acquisition window; distinct by the full (process, point) trace",
		Assumptions: []string{"go-file's flock retry loop is not hooked: a process blocked there is detected by a 3 s watchdog and the others proceed (counted in measured.stalls)",
			"interleavings are owned at the hooked steps only; steps inside one syscall are atomic"},
	})
}

// ---------------------------------------------------------------------
// multi-process stress: real csvq processes incrementing one counter

type stressCase struct {
	Procs   int   `json:"procs"`
	Txns    int   `json:"txns"`
	Readers int   `json:"readers"`
	Delays  []int `json:"delays_ms"` // start offsets
	ForUpd  bool  `json:"for_update"`
	Pad     int   `json:"pad"` // further rows that carry the same counter: the file outgrows one write(2) / one read buffer
}

func genStress(t *rapid.T) stressCase {
	c := stressCase{Procs: fw.Range(t, "procs", 4, 12), Txns: fw.Range(t, "txns", 2, 6), Readers: fw.Range(t, "readers", 0, 4), ForUpd: fw.Pct(t, "forupd", 40)}
	if fw.Tier() == "thorough" {
		c.Procs = fw.Range(t, "procsT", 8, 32)
		c.Txns = fw.Range(t, "txnsT", 5, 20)
	}
	for i := 0; i < c.Procs+c.Readers; i++ {
		c.Delays = append(c.Delays, fw.Range(t, "delay", 0, 20))
	}
	c.Pad = []int{0, 0, 300, 3000, 20000}[fw.Uniform(t, "pad", 5)]
	if c.Pad == 20000 && c.Procs*c.Txns > 72 {
		c.Pad = 3000 // the transactions run one after the other: keep a thorough-tier round within seconds
	}
	return c
}

func checkStress(c stressCase) (fw.Outcome, *fw.Violation) {
	o := fw.Outcome{Classes: []string{fmt.Sprintf("procs=%d", c.Procs), fmt.Sprintf("pad=%d", c.Pad)}}
	bin, err := run.Binary(fw.WorkDir(), false)
	if err != nil {
		return o, fw.Harness("%v", err)
	}
	dir := filepath.Join(fw.WorkDir(), fmt.Sprintf("c09s-%d", atomic.AddInt64(&seq, 1)))
	_ = os.RemoveAll(dir)
	_ = os.MkdirAll(dir, 0755)
	defer os.RemoveAll(dir)
	home := filepath.Join(fw.WorkDir(), "clihome")
	_ = os.MkdirAll(home, 0755)
	_ = os.WriteFile(filepath.Join(dir, "c.csv"), []byte("n\n"+strings.Repeat("0\n", 1+c.Pad)), 0644)
	var wprog, rprog strings.Builder
	for k := 0; k < c.Txns; k++ {
		if c.ForUpd {
			wprog.WriteString("SELECT n FROM c FOR UPDATE;\n")
		}
		wprog.WriteString("UPDATE c SET n = n + 1;\nCOMMIT;\nPRINT 'DONE';\n")
		rprog.WriteString("SELECT n FROM c;\nCOMMIT;\n")
	}
	wsrc := filepath.Join(home, fmt.Sprintf("w-%d.sql", atomic.AddInt64(&seq, 1)))
	rsrc := filepath.Join(home, fmt.Sprintf("r-%d.sql", atomic.AddInt64(&seq, 1)))
	_ = os.WriteFile(wsrc, []byte(wprog.String()), 0644)
	_ = os.WriteFile(rsrc, []byte(rprog.String()), 0644)
	defer os.Remove(wsrc)
	defer os.Remove(rsrc)
	type out struct {
		res    run.CLIRes
		writer bool
	}
	outs := make([]out, c.Procs+c.Readers)
	var wg sync.WaitGroup
	for i := range outs {
		wg.Add(1)
		go func(i int) {
			defer wg.Done()
			time.Sleep(time.Duration(c.Delays[i]) * time.Millisecond)
			src := wsrc
			if i >= c.Procs {
				src = rsrc
			}
			outs[i] = out{writer: i < c.Procs, res: run.CLI(run.CLIOpt{Bin: bin, Dir: dir, Home: home, Args: []string{"-q", "-f", "CSV", "-N", "--wait-timeout", "600", "-s", src}, Timeout: 900 * time.Second})}
		}(i)
	}
	wg.Wait()
	done := 0
	for i, ot := range outs {
		if ot.res.TimedOut {
			return o, fw.Harness("stress process %d hit the 900 s limit", i)
		}
		if ot.writer {
			done += strings.Count(ot.res.Stdout, "DONE")
		}
		if ot.res.Code != 0 {
			return o, fw.V("stress_process_failed", "process %d (writer=%v) exited with %d although the wait timeout is 600 s: %s", i, ot.writer, ot.res.Code, ot.res.Stderr)
		}
		if !ot.writer {
			// every value read is a committed value: a non-negative integer not above the final count, non-decreasing
			prev := -1
			lines := strings.Fields(ot.res.Stdout)
			if len(lines) != c.Txns*(1+c.Pad) {
				return o, fw.V("stress_reader_rows", "reader %d printed %d lines for %d SELECTs over %d rows", i, len(lines), c.Txns, 1+c.Pad)
			}
			for k, ln := range lines {
				v := -1
				fmt.Sscanf(ln, "%d", &v)
				if k%(1+c.Pad) != 0 {
					// every row of one SELECT carries the same counter: a reader never sees a half-written table
					if v != prev {
						return o, fw.V("stress_reader_torn", "reader %d: SELECT %d returned rows with different counters (%d and %d): it saw a table in the middle of being written", i, k/(1+c.Pad), prev, v)
					}
					continue
				}
				if v < prev || v < 0 || v > c.Procs*c.Txns {
					return o, fw.V("stress_reader_value", "reader %d saw values %.300q (not a non-decreasing sequence of committed values)", i, ot.res.Stdout)
				}
				prev = v
			}
		}
	}
	b, _ := os.ReadFile(filepath.Join(dir, "c.csv"))
	if string(b) != "n\n"+strings.Repeat(fmt.Sprintf("%d\n", done), 1+c.Pad) {
		return o, fw.V("stress_lost_update", "%d processes x %d transactions: %d commits reported, final table (%d bytes) begins %.60q", c.Procs, c.Txns, done, len(b), string(b))
	}
	if cf := run.ControlFiles(dir); len(cf) > 0 {
		return o, fw.V("stress_control_files_left", "%v", cf)
	}
	o.Evals = c.Procs + c.Readers
	o.Fingerprint = fmt.Sprintf("stress|%d|%d|%d|%v|%d", c.Procs, c.Txns, c.Readers, c.ForUpd, c.Pad)
	return o, nil
}

func TestC09Stress(t *testing.T) {
	fw.Run(t, fw.Spec[stressCase]{
		ID: "C09", Name: "stress", Quick: 16, Thorough: 200,
		Gen: genStress, Check: checkStress,
		Rule: "4-12 (thorough 8-32) real csvq processes with generated start offsets each run 2-6 (5-20) increment transactions (optionally SELECT FOR UPDATE first) next to 0-4 reader processes, wait timeout 600 s; oracle: every process exits 0, final counter = number of DONE markers printed after successful COMMITs, readers see non-decreasing committed values, no control files remain; the table has 1, 301, 3001 or 20001 rows that all carry the counter (UPDATE changes every row), so the file outgrows one write(2) and one read buffer: every SELECT of a reader must return rows that all agree (never a table in the middle of being written) and the final file must hold the final counter in every row; every case is non-trivial (real contention), distinct by (processes, transactions, readers, for-update, rows)",
	})
}
