package c09

import (
	"fmt"
	"os"
	"path/filepath"
	"sort"
	"strings"
	"sync"
	"sync/atomic"
	"testing"
	"time"

	"pgregory.net/rapid"

	"verif/internal/fw"
	"verif/internal/run"
	"verif/internal/sched"
)

// ---------------------------------------------------------------------
// forms: every data-changing statement form, every way of naming the table, judged by serial replay.
//
// 'schedules' changes the table with UPDATE n = n + 1 only (a commutative change: the final counter says that no
// update was lost, not that the transactions ran one after the other) and reads it with SELECT n FROM c only.
// Here one table t (id, p, v) is changed by INSERT VALUES, INSERT SELECT from itself, UPDATE (additive,
// multiplicative, with a subquery on itself), DELETE, REPLACE, ALTER TABLE ADD, a read-modify-write whose value is
// carried in a variable (SELECT @r := v ... FOR UPDATE; UPDATE ... = @r + 1), a FOR UPDATE cursor, a prepared
// UPDATE, DML inside IF and inside a user-defined function; it is read as `t.csv`, FILE::(), CSV(), INLINE::() and
// CSV_INLINE() (the last two take the shared lock on a code path of their own and, inside a transaction that holds
// the table, read through the handler that holds it). The file and its directory may carry characters that are
// special to filepath.Glob, which lib/file uses to look for read-lock files.
//
// Oracle: the lock serialises the transactions in the order in which they obtained the table for update, so the
// final file must be byte-identical to running the same transactions one after the other, in that order, in one
// directory without any concurrency (csvq itself is the reference: a differential against the serial execution).
// Every result read while the transaction held the table must equal the result of the same statement in the serial
// run; every result read without holding it must be the file as it was after some commit inside the read window.

type formOp struct {
	Kind string `json:"kind"`
	Arg  int    `json:"arg"`
	Form int    `json:"form"` // reader form (kind read)
	Wrap string `json:"wrap"` // "" | if | func (single-statement changes only)
}

type formTxn struct {
	Ops []formOp `json:"ops"`
	End string   `json:"end"` // commit | rollback
}

type formProc struct {
	Txns  []formTxn `json:"txns"`
	Spell string    `json:"spell"` // how this process writes the table's name: "" (file name) | abs | dot | updown
}

type formCase struct {
	Table    string      `json:"table"`
	Dir      string      `json:"dir"`
	Rows     int         `json:"rows"`
	Procs    []formProc  `json:"procs"`
	Bursts   []burst     `json:"bursts"`
	Timeouts []timeoutEv `json:"timeouts"`
}

var formTables = []string{"t.csv", "t[1].csv", "[t].csv", "t[.csv", "t*.csv", "t?x.csv", "t 1.csv", "t{1}.csv"}
var formDirs = []string{"", "sub", "[d]", "d[", "d*"}
var formChangeKinds = []string{"ins", "inssel", "upd_add", "upd_mul", "upd_max", "del", "repl", "alter", "rmwvar", "cursor", "prep"}
var formReadForms = []string{"name", "file", "csv", "inline", "csv_inline"}

func genForms(t *rapid.T) formCase {
	c := formCase{Table: "t.csv", Rows: fw.Range(t, "rows", 3, 6)}
	if fw.Pct(t, "oddName", 40) {
		c.Table = formTables[fw.Uniform(t, "table", len(formTables))]
	}
	if fw.Pct(t, "oddDir", 30) {
		c.Dir = formDirs[fw.Uniform(t, "dir", len(formDirs))]
	}
	if fw.Pct(t, "manyRows", 8) {
		c.Rows = fw.Range(t, "rowsBig", 30, 60)
	}
	n := fw.Range(t, "nprocs", 2, 3)
	if fw.Pct(t, "four", 10) {
		n = 4
	}
	if fw.Tier() == "thorough" && fw.Pct(t, "five", 10) {
		n = 5
	}
	writers := 0
	for i := 0; i < n; i++ {
		p := formProc{Spell: []string{"", "", "abs", "dot", "updown"}[fw.Uniform(t, "spell", 5)]}
		nt := fw.Range(t, "txns", 1, 2)
		if fw.Tier() == "thorough" && fw.Pct(t, "threeTxns", 15) {
			nt = 3
		}
		for k := 0; k < nt; k++ {
			tx := formTxn{End: "commit"}
			if fw.Pct(t, "rollback", 15) {
				tx.End = "rollback"
			}
			no := fw.Range(t, "nops", 1, 3)
			for j := 0; j < no; j++ {
				op := formOp{Arg: fw.Range(t, "arg", 0, 9)}
				switch fw.Weighted(t, "opclass", []int{60, 25, 15}) {
				case 0:
					op.Kind = formChangeKinds[fw.Uniform(t, "change", len(formChangeKinds))]
					if op.Kind != "rmwvar" && op.Kind != "cursor" && op.Kind != "prep" {
						op.Wrap = []string{"", "", "", "if", "func"}[fw.Uniform(t, "wrap", 5)]
					}
					writers++
				case 1:
					op.Kind = "read"
					op.Form = fw.Uniform(t, "form", len(formReadForms))
				case 2:
					op.Kind = "lockread"
				}
				tx.Ops = append(tx.Ops, op)
			}
			p.Txns = append(p.Txns, tx)
		}
		c.Procs = append(c.Procs, p)
	}
	if writers == 0 {
		c.Procs[0].Txns[0].Ops[0] = formOp{Kind: "upd_mul", Arg: 1}
		c.Procs[0].Txns[0].End = "commit"
	}
	nb := fw.Range(t, "nbursts", 4, 40)
	for i := 0; i < nb; i++ {
		c.Bursts = append(c.Bursts, burst{Proc: fw.Uniform(t, "bproc", n), Len: fw.Range(t, "blen", 1, 9)})
	}
	if fw.Pct(t, "withTimeout", 20) {
		c.Timeouts = append(c.Timeouts, timeoutEv{Proc: fw.Uniform(t, "tproc", n), Step: fw.Range(t, "tstep", 3, 120)})
	}
	return c
}

type formStmt struct {
	SQL  string
	Read string // "" | plain | locked  (result is recorded)
}

// formTxnStmts renders the statements of transaction ti of process pi (without the ending); dir is the directory
// the table lives in (the repository of the session), needed for the absolute spelling of its name.
func formTxnStmts(c formCase, pi, ti int, dir string) []formStmt {
	T := "`" + c.Table + "`"
	switch c.Procs[pi].Spell {
	case "abs":
		T = "`" + filepath.Join(dir, c.Table) + "`"
	case "dot":
		T = "`./" + c.Table + "`"
	case "updown":
		T = "`x/../" + c.Table + "`" // x is an empty directory next to the table
	}
	var out []formStmt
	for oi, op := range c.Procs[pi].Txns[ti].Ops {
		uid := 10000*(pi+1) + 1000*ti + 100*oi
		var sql string
		switch op.Kind {
		case "ins":
			sql = fmt.Sprintf("INSERT INTO %s (id, p, v) VALUES (%d, %d, %d)", T, uid+50, pi, op.Arg)
		case "inssel":
			sql = fmt.Sprintf("INSERT INTO %s (id, p, v) SELECT id + %d, %d, v + 1 FROM %s WHERE id < 3", T, uid, pi, T)
		case "upd_add":
			sql = fmt.Sprintf("UPDATE %s SET v = v + %d", T, op.Arg+1)
		case "upd_mul":
			sql = fmt.Sprintf("UPDATE %s SET v = (v * 3 + %d) %% 1000003 WHERE id < 10", T, pi+1)
		case "upd_max":
			sql = fmt.Sprintf("UPDATE %s SET v = (SELECT MAX(v) FROM %s) + 1 WHERE id = 0", T, T)
		case "del":
			sql = fmt.Sprintf("DELETE FROM %s WHERE id >= 10 AND v %% 2 = %d", T, op.Arg%2)
		case "repl":
			sql = fmt.Sprintf("REPLACE INTO %s (id, p, v) USING (id) VALUES (%d, %d, %d)", T, op.Arg%3, pi, uid)
		case "alter":
			sql = fmt.Sprintf("ALTER TABLE %s ADD (x%d DEFAULT %d)", T, uid, op.Arg)
		case "rmwvar":
			// the canonical read-modify-write: the value travels through a variable of the process
			out = append(out, formStmt{SQL: fmt.Sprintf("VAR @r%d", uid)})
			out = append(out, formStmt{SQL: fmt.Sprintf("SELECT @r%d := v FROM %s WHERE id = 0 FOR UPDATE", uid, T), Read: "locked"})
			out = append(out, formStmt{SQL: fmt.Sprintf("UPDATE %s SET v = @r%d * 2 + %d WHERE id = 0", T, uid, op.Arg)})
			continue
		case "cursor":
			out = append(out, formStmt{SQL: fmt.Sprintf("DECLARE cu%d CURSOR FOR SELECT v FROM %s WHERE id = 1 FOR UPDATE; OPEN cu%d; VAR @c%d; FETCH cu%d INTO @c%d; CLOSE cu%d; DISPOSE CURSOR cu%d", uid, T, uid, uid, uid, uid, uid, uid)})
			out = append(out, formStmt{SQL: fmt.Sprintf("UPDATE %s SET v = @c%d * 2 + %d WHERE id = 1", T, uid, op.Arg)})
			continue
		case "prep":
			sql = fmt.Sprintf("PREPARE st%d FROM 'UPDATE %s SET v = v * 2 + ? WHERE id = 2'; EXECUTE st%d USING %d; DISPOSE PREPARE st%d", uid, T, uid, op.Arg, uid)
		case "lockread":
			out = append(out, formStmt{SQL: fmt.Sprintf("SELECT * FROM %s FOR UPDATE", T), Read: "locked"})
			continue
		case "read":
			var from string
			switch formReadForms[op.Form%len(formReadForms)] {
			case "name":
				from = T
			case "file":
				from = "FILE::('" + c.Table + "')"
			case "csv":
				from = "CSV(',', " + T + ")"
			case "inline":
				from = "INLINE::('" + c.Table + "')"
			case "csv_inline":
				from = "CSV_INLINE(',', " + T + ")"
			}
			out = append(out, formStmt{SQL: "SELECT * FROM " + from, Read: "plain"})
			continue
		}
		switch op.Wrap {
		case "if":
			sql = "IF 1 = 1 THEN " + sql + "; END IF"
		case "func":
			sql = fmt.Sprintf("DECLARE fn%d FUNCTION () AS BEGIN %s; RETURN 1; END; SELECT fn%d()", uid, sql, uid)
		}
		out = append(out, formStmt{SQL: sql})
	}
	return out
}

func formInitial(rows int) string {
	var b strings.Builder
	b.WriteString("id,p,v\n")
	for i := 0; i < rows; i++ {
		fmt.Fprintf(&b, "%d,0,%d\n", i, i)
	}
	return b.String()
}

// renderTbl gives a result the shape of a CSV file of plain cells (NULL = empty).
func renderTbl(t run.Tbl) string {
	var b strings.Builder
	b.WriteString(strings.Join(t.Header, ","))
	b.WriteString("\n")
	for _, r := range t.Rows {
		for i, c := range r {
			if i > 0 {
				b.WriteString(",")
			}
			if c.K != "N" {
				b.WriteString(c.S)
			}
		}
		b.WriteString("\n")
	}
	return b.String()
}

type formRead struct {
	txn, stmt int
	kind      string // plain | locked
	heldX     bool   // the process held the table for update when the statement began
	win       int    // index of the shared-lock window the statement opened (-1: none)
	text      string
	typed     string
}

type formWindow struct{ lo, hi int }

func checkForms(c formCase) (fw.Outcome, *fw.Violation) {
	o := fw.Outcome{Classes: []string{fmt.Sprintf("procs=%d", len(c.Procs)), "table=" + c.Table, "dir=" + c.Dir}}
	for _, p := range c.Procs {
		if p.Spell != "" {
			o.Classes = append(o.Classes, "spell="+p.Spell)
		}
	}
	base := filepath.Join(fw.WorkDir(), fmt.Sprintf("c09f-%d", atomic.AddInt64(&seq, 1)))
	_ = os.RemoveAll(base)
	defer os.RemoveAll(base)
	dir := filepath.Join(base, "live", c.Dir)
	rdir := filepath.Join(base, "serial", c.Dir)
	_ = os.MkdirAll(filepath.Join(dir, "x"), 0755)
	_ = os.MkdirAll(filepath.Join(rdir, "x"), 0755)
	table := filepath.Join(dir, c.Table)
	initial := formInitial(c.Rows)
	_ = os.WriteFile(table, []byte(initial), 0644)
	_ = os.WriteFile(filepath.Join(rdir, c.Table), []byte(initial), 0644)
	lockPath := filepath.Join(dir, "."+c.Table+".lock")
	rlockPrefix := filepath.Join(dir, "."+c.Table+".")

	n := len(c.Procs)
	ctxs := make([]*sched.Ctx, n)
	sessions := make([]*run.Sess, n)
	for i := range c.Procs {
		ctxs[i] = sched.NewCtx()
		s, err := run.NewSess(run.Opt{Dir: dir, Ctx: ctxs[i], RetryDelay: time.Millisecond})
		if err != nil {
			return o, fw.Harness("session: %v", err)
		}
		sessions[i] = s
	}

	type txnKey struct{ p, t int }
	var mu sync.Mutex
	holdX := make([]bool, n)
	holdS := make([]int, n)         // read-lock files the process owns
	rlockPending := make([]bool, n) // passed rlock.create, the transient lock not yet released
	curTxn := make([]int, n)
	commitsDone := 0
	windows := make([][]formWindow, n)
	var serial []txnKey // transactions in the order they obtained the table for update
	inSerial := map[txnKey]bool{}
	committed := map[txnKey]bool{} // transactions that swapped a new file in
	var violation *fw.Violation
	inWindow, windowOwner, interleaved, contended := false, -1, 0, 0
	observe := func(p sched.Point) {
		mu.Lock()
		defer mu.Unlock()
		isTable := p.Path == table
		switch {
		case (p.Name == "lock.check" || p.Name == "rlock.check") && isTable:
			if inWindow && windowOwner != p.Proc {
				interleaved++
			}
			if !inWindow {
				inWindow, windowOwner = true, p.Proc
			}
			for q := 0; q < n; q++ {
				if q != p.Proc && (holdX[q] || (p.Name == "lock.check" && holdS[q] > 0)) {
					contended++
					break
				}
			}
		case p.Name == "rlock.create" && isTable:
			rlockPending[p.Proc] = true
		case p.Name == "h.update.ready" && isTable:
			for q := 0; q < n; q++ {
				if q == p.Proc || violation != nil {
					continue
				}
				if holdX[q] {
					violation = fw.V("forms_two_writers", "process %d obtained the table for update while process %d still holds it for update", p.Proc, q)
				} else if holdS[q] > 0 {
					violation = fw.V("forms_writer_while_reader", "process %d obtained the table for update while process %d owns a read-lock file of it (shared access not yet released)", p.Proc, q)
				}
			}
			holdX[p.Proc] = true
			k := txnKey{p.Proc, curTxn[p.Proc]}
			if !inSerial[k] {
				inSerial[k] = true
				serial = append(serial, k)
			}
			if windowOwner == p.Proc {
				inWindow = false
			}
		case p.Name == "h.read.ready" && isTable:
			for q := 0; q < n; q++ {
				if q != p.Proc && holdX[q] && violation == nil {
					violation = fw.V("forms_reader_while_writer", "process %d obtained the table for reading while process %d holds it for update", p.Proc, q)
				}
			}
			if windowOwner == p.Proc {
				inWindow = false
			}
		case p.Name == "cf.remove":
			switch {
			case p.Path == lockPath && holdX[p.Proc]:
				holdX[p.Proc] = false
			case p.Path == lockPath && rlockPending[p.Proc]:
				// the reader lets go of the transient lock: from here on it owns a read-lock file
				rlockPending[p.Proc] = false
				holdS[p.Proc]++
				windows[p.Proc] = append(windows[p.Proc], formWindow{lo: commitsDone, hi: -1})
				for q := 0; q < n; q++ {
					if q != p.Proc && holdX[q] && violation == nil {
						violation = fw.V("forms_reader_while_writer", "process %d created a read-lock file while process %d holds the table for update", p.Proc, q)
					}
				}
			case strings.HasPrefix(p.Path, rlockPrefix) && strings.HasSuffix(p.Path, ".rlock") && holdS[p.Proc] > 0:
				holdS[p.Proc]--
				w := windows[p.Proc]
				if len(w) > 0 && w[len(w)-1].hi < 0 {
					w[len(w)-1].hi = commitsDone
				}
			}
			if windowOwner == p.Proc {
				inWindow = false
			}
		case (p.Name == "h.commit.done" || p.Name == "h.close.done" || p.Name == "h.closew.done") && isTable:
			holdX[p.Proc] = false // the handler is gone, whatever became of its control files
		case p.Name == "h.commit.unlock" && isTable:
			commitsDone++
			committed[txnKey{p.Proc, curTxn[p.Proc]}] = true
		case p.Name == "cf.try" && isTable:
			if inWindow && windowOwner != p.Proc {
				interleaved++
			}
		}
	}

	type pres struct {
		okTxns   map[int]bool // transactions that ran to their end without error
		reads    []formRead
		errs     []string
		errMsgs  []string
		timedOut bool
	}
	results := make([]*pres, n)
	for i := range results {
		results[i] = &pres{okTxns: map[int]bool{}}
	}
	body := func(i int) func() {
		return func() {
			s := sessions[i]
			r := results[i]
			defer s.Close()
			for ti, tx := range c.Procs[i].Txns {
				mu.Lock()
				curTxn[i] = ti
				mu.Unlock()
				ok := true
				stmts := append(formTxnStmts(c, i, ti, dir), formStmt{SQL: strings.ToUpper(tx.End)})
				for si, st := range stmts {
					mu.Lock()
					held := holdX[i]
					nw := len(windows[i])
					mu.Unlock()
					res := s.Exec(st.SQL)
					if res.Err != nil {
						r.errs = append(r.errs, run.ErrClass(res.Err))
						r.errMsgs = append(r.errMsgs, st.SQL+": "+res.Err.Error())
						ok = false
						break
					}
					if st.Read != "" {
						fr := formRead{txn: ti, stmt: si, kind: st.Read, heldX: held, win: -1}
						if len(res.Views) == 1 {
							fr.text = renderTbl(res.Views[0])
							fr.typed = res.Views[0].String()
						} else {
							fr.text = fmt.Sprintf("<%d results>", len(res.Views))
							fr.typed = fr.text
						}
						mu.Lock()
						if len(windows[i]) > nw {
							fr.win = nw
						}
						mu.Unlock()
						r.reads = append(r.reads, fr)
					}
				}
				if !ok {
					_ = s.Exec("ROLLBACK")
					break
				}
				r.okTxns[ti] = true
			}
		}
	}
	bodies := make([]func(), n)
	for i := range bodies {
		bodies[i] = body(i)
	}
	bi, left := 0, 0
	if len(c.Bursts) > 0 {
		left = c.Bursts[0].Len
	}
	fired := map[int]bool{}
	livelock := false
	pick := func(sc *sched.Sched, waiting []int) int {
		step := sc.Steps
		if step >= 10000 && !livelock {
			// far beyond any schedule of this size (a few hundred steps): some process retries for ever, e.g. waits
			// for a lock it holds itself. Expire every context so that the run ends; the resulting errors are not
			// excused as wait timeouts (timedOut stays false) and are reported.
			livelock = true
			for _, cx := range ctxs {
				cx.Fire()
			}
		}
		for _, te := range c.Timeouts {
			if te.Step <= step && !fired[te.Proc] && te.Proc < n {
				if at := sc.WaitingAt(te.Proc); at != nil && at.Path == table && (at.Name == "cf.try" || strings.HasPrefix(at.Name, "lock.") || strings.HasPrefix(at.Name, "rlock.")) {
					fired[te.Proc] = true
					ctxs[te.Proc].Fire()
					results[te.Proc].timedOut = true
				}
			}
		}
		for bi < len(c.Bursts) {
			if left <= 0 {
				bi++
				if bi < len(c.Bursts) {
					left = c.Bursts[bi].Len
				}
				continue
			}
			for k, w := range waiting {
				if w == c.Bursts[bi].Proc {
					left--
					return k
				}
			}
			left = 0
		}
		return step % len(waiting)
	}

	sc := sched.Run(bodies, pick, observe, 3*time.Second, 12000)
	if sc.Steps < 0 {
		o.Classes = append(o.Classes, "step_budget_exhausted")
		fw.AddExtra("forms_step_budget_exhausted", 1)
	}
	if sc.Stalls > 0 {
		fw.AddExtra("stalls", int64(sc.Stalls))
	}
	mu.Lock()
	defer mu.Unlock()
	describe := func() string {
		var b strings.Builder
		for i, r := range results {
			fmt.Fprintf(&b, "\n  proc %d: finished txns=%v timedOut=%v errs=%v %v", i, r.okTxns, r.timedOut, r.errs, r.errMsgs)
			for ti := range c.Procs[i].Txns {
				for _, st := range formTxnStmts(c, i, ti, dir) {
					fmt.Fprintf(&b, "\n      p%d.t%d: %s", i, ti, st.SQL)
				}
				fmt.Fprintf(&b, "\n      p%d.t%d: %s", i, ti, c.Procs[i].Txns[ti].End)
			}
		}
		fmt.Fprintf(&b, "\n  serial order (process, txn): %v\n  trace:", serial)
		for i, p := range sc.Trace {
			if i > 500 {
				b.WriteString(" ...")
				break
			}
			fmt.Fprintf(&b, " %d:%s", p.Proc, p.Name)
		}
		return b.String()
	}
	if violation != nil {
		violation.Msg += describe()
		return o, violation
	}
	for i, r := range results {
		for k, e := range r.errs {
			if !r.timedOut {
				return o, fw.V("forms_unexpected_error:"+e, "process %d failed although its wait timeout never expired: %s%s", i, r.errMsgs[k], describe())
			}
			if !strings.HasPrefix(e, "E8/") {
				return o, fw.V("forms_timeout_error_class:"+e, "process %d timed out but reported %s%s", i, r.errMsgs[k], describe())
			}
		}
	}
	if cf := run.ControlFiles(dir); len(cf) > 0 {
		return o, fw.V("forms_control_files_left", "control files remain after all processes ended: %v%s", cf, describe())
	}

	// --- serial replay -------------------------------------------------
	states := []string{initial}
	serialReads := map[string]string{} // "p/t/stmt" -> typed result
	for _, k := range serial {
		if !results[k.p].okTxns[k.t] {
			if committed[k] {
				return o, fw.V("forms_failed_txn_committed", "transaction %d of process %d reported an error but a new file was swapped in%s", k.t, k.p, describe())
			}
			continue // failed (timed out): must have changed nothing, so it has no place in the serial run
		}
		s, err := run.NewSess(run.Opt{Dir: rdir})
		if err != nil {
			return o, fw.Harness("serial session: %v", err)
		}
		stmts := append(formTxnStmts(c, k.p, k.t, rdir), formStmt{SQL: strings.ToUpper(c.Procs[k.p].Txns[k.t].End)})
		for si, st := range stmts {
			res := s.Exec(st.SQL)
			if res.Err != nil {
				s.Close()
				return o, fw.V("forms_serial_run_failed", "the serial run of transaction %d of process %d failed at %q: %v (it succeeded under concurrency)%s", k.t, k.p, st.SQL, res.Err, describe())
			}
			if st.Read != "" && len(res.Views) == 1 {
				serialReads[fmt.Sprintf("%d/%d/%d", k.p, k.t, si)] = res.Views[0].String()
			}
		}
		s.Close()
		if committed[k] {
			b, _ := os.ReadFile(filepath.Join(rdir, c.Table))
			states = append(states, string(b))
		}
	}
	if cf := run.ControlFiles(rdir); len(cf) > 0 {
		return o, fw.Harness("serial run left control files: %v", cf)
	}
	if len(states)-1 != commitsDone {
		return o, fw.V("forms_commit_outside_serial_order", "%d commits were observed but only %d belong to transactions that obtained the table for update%s", commitsDone, len(states)-1, describe())
	}
	got, err := os.ReadFile(table)
	if err != nil {
		return o, fw.V("forms_table_missing", "table no longer exists: %v%s", err, describe())
	}
	want, _ := os.ReadFile(filepath.Join(rdir, c.Table))
	if string(got) != string(want) {
		return o, fw.V("forms_not_serialisable", "final table differs from the serial execution of the successful transactions in the order they obtained the table\n  concurrent: %q\n  serial:     %q%s", string(got), string(want), describe())
	}
	lockedReads, windowReads, inlineUnderLock := 0, 0, 0
	for i, r := range results {
		for _, fr := range r.reads {
			key := fmt.Sprintf("%d/%d/%d", i, fr.txn, fr.stmt)
			if !r.okTxns[fr.txn] {
				continue
			}
			switch {
			case fr.kind == "locked" || fr.heldX:
				sr, ok := serialReads[key]
				if !ok {
					return o, fw.V("forms_locked_read_outside_serial_order", "process %d read under FOR UPDATE / while holding the table (txn %d stmt %d) but never appeared as holder%s", i, fr.txn, fr.stmt, describe())
				}
				if sr != fr.typed {
					return o, fw.V("forms_locked_read_differs", "process %d txn %d stmt %d read while holding the table:\n%s  serial execution gives:\n%s%s", i, fr.txn, fr.stmt, fr.typed, sr, describe())
				}
				lockedReads++
				if fr.kind == "plain" {
					inlineUnderLock++
				}
			case fr.win >= 0:
				w := windows[i][fr.win]
				hi := w.hi
				if hi < 0 {
					hi = commitsDone
				}
				ok := false
				for x := w.lo; x <= hi && x < len(states); x++ {
					if states[x] == fr.text {
						ok = true
					}
				}
				if !ok {
					return o, fw.V("forms_reader_saw_uncommitted_or_stale", "process %d txn %d stmt %d read\n%q\nwhich is not the table after commit %d..%d (%q .. %q)%s", i, fr.txn, fr.stmt, fr.text, w.lo, hi, states[w.lo], states[min(hi, len(states)-1)], describe())
				}
				windowReads++
			default:
				// served from the transaction's cache of an earlier plain read
			}
		}
	}
	o.Evals = 1
	kinds := map[string]bool{}
	for _, k := range serial {
		if results[k.p].okTxns[k.t] {
			for _, op := range c.Procs[k.p].Txns[k.t].Ops {
				kinds[op.Kind] = true
			}
		}
	}
	var ks []string
	for k := range kinds {
		ks = append(ks, k)
		o.Classes = append(o.Classes, "ran="+k)
	}
	sort.Strings(ks)
	if lockedReads > 0 {
		o.Classes = append(o.Classes, "locked_read_judged")
	}
	if windowReads > 0 {
		o.Classes = append(o.Classes, "window_read_judged")
	}
	if inlineUnderLock > 0 {
		o.Classes = append(o.Classes, "plain_read_while_holding")
	}
	if len(c.Timeouts) > 0 {
		o.Classes = append(o.Classes, "with_timeout_event")
	}
	if commitsDone >= 2 && (contended > 0 || interleaved > 0) {
		o.Classes = append(o.Classes, "contended_and_two_commits")
		o.Fingerprint = fmt.Sprintf("forms|%s|%s|%s|%d", c.Table, c.Dir, strings.Join(ks, "+"), hashTrace(sc.Trace))
	}
	fw.AddExtra("forms_steps", int64(abs(sc.Steps)))
	return o, nil
}

func TestC09Forms(t *testing.T) {
	fw.Run(t, fw.Spec[formCase]{
		ID: "C09", Name: "forms", Quick: 800, Thorough: 20000,
		Gen: genForms, Check: checkForms,
		Rule: "2-4 (thorough 5) virtual processes, 1-2 (3) transactions of 1-3 statements on ONE table t(id,p,v), ended by COMMIT or ROLLBACK, under the baton scheduler of 'schedules' with wait-timeout events. Statements: INSERT VALUES, INSERT SELECT from t itself, UPDATE additive / multiplicative / with a subquery on t, DELETE, REPLACE, ALTER TABLE ADD, a read-modify-write carried in a variable (SELECT @r := v FOR UPDATE; UPDATE v = @r*2+k), a FOR UPDATE cursor + UPDATE, a prepared UPDATE, the same inside IF and inside a user-defined function; SELECT * FOR UPDATE; plain SELECT * through `t.csv`, FILE::(), CSV(), INLINE::(), CSV_INLINE(). The file name and its directory are drawn from names with characters special to filepath.Glob ([ ] * ? {) and a blank. Oracle: (1) per-step invariants as in 'schedules', with shared access counted from the moment the read-lock FILE exists (not only from the open of the data file); (2) serialisability: the final file is byte-identical to executing the successful transactions one after the other, in the order in which they obtained the table for update, in a directory without concurrency (changes are not commutative: v*3+p, v*2+k, MAX+1); (3) every result read FOR UPDATE or while holding the table equals the result of the same statement in the serial run; (4) every result read under a shared lock equals the file after some commit inside its window; (5) only timed-out processes fail, with the lock-timeout/context error, and a failed transaction swapped no file in; no control files remain. non-trivial = at least two commits and a lock attempt made while another process held the table (or a step inside another's acquisition window); distinct by table name, directory, set of statement kinds that ran, and the full trace",
		Assumptions: []string{"csvq run serially is the reference for what a transaction does; the check judges the concurrency, not the statements",
			"all processes run with @@CPU 1: lock acquisition happens on the goroutine the scheduler owns"},
	})
}
