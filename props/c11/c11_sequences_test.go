package c11

import (
	"testing"

	"pgregory.net/rapid"

	"verif/internal/fw"
)

// Sub-check "sequences": more than one fault per run. The litter sub-check ends every run in exactly one way; here
// a second signal follows the first (csvq keeps its handler installed, the clean-up must not be interruptible), and
// a signal arrives on top of another ending - in particular while the run that failed, exited or was refused its
// COMMIT is already rolling back and releasing its files.

var secondDelays = []int{0, 2, 6, 11, 14, 15, 16, 17, 19, 24}

func genSequences(t *rapid.T) litterCase {
	var c litterCase
	if fw.Pct(t, "fromForms", 40) {
		c = genForms(t)
		// the forms generator drew its own ending: keep its program (and what that ending inserted), replace the ending
		switch c.Ending {
		case "error", "exit", "exitcode", "commit_error":
			c.AlsoSig = true
			c.SigStep = 2
			c.SigOff = fw.Range(t, "sigOff", 0, 1)
		default:
			c.Ending = "signals2"
			c.LockOn = ""
			c.TinyWait = nil
			c.SigStep, c.SigOff = 0, 0
		}
	} else {
		c = genCaseWith(t, []string{"signals2", "signals2", "signals2", "error", "exit", "exitcode"})
		if c.Ending != "signals2" {
			c.AlsoSig = true
			c.SigStep = 2
			c.SigOff = fw.Range(t, "sigOff", 0, 1)
		}
	}
	if c.Ending == "signals2" {
		n := fw.Range(t, "nseconds", 4, 8)
		for i := 0; i < n; i++ {
			c.Seconds = append(c.Seconds, secondSig{
				At:      fw.Range(t, "at", 0, 999),
				First:   fw.PickU(t, "first", sigNames),
				Second:  fw.PickU(t, "second", sigNames),
				DelayMs: fw.PickU(t, "delay", secondDelays),
			})
		}
	}
	return c
}

func TestC11Sequences(t *testing.T) {
	fw.Run(t, fw.Spec[litterCase]{
		ID: "C11", Name: "sequences", Quick: 72, Thorough: 1800,
		Gen: genSequences, Check: checkCase,
		Rule: "sequences of faults within one run, programs from the litter generator (60%) or the forms generator (40%). signals2: 4-8 runs per program, each with a first signal (INT/TERM/QUIT) self-delivered at a drawn point of the plain run and a second signal (INT/TERM/QUIT) sent by the harness 0-24 ms after that point was logged - the process rests 15 ms at the point and then cleans up, so the second signal falls before, into or after the clean-up started by the first. error / EXIT / EXIT 3 / refused COMMIT + signals: a signal self-delivered at every 2nd point (offset drawn; every step of a commit) of the run that ends that way, which includes the deferred rollback and release after the failure. Oracle: the process ends by itself (a death by signal is a violation whatever it leaves), then the litter oracle. non-trivial = the second signal reached a live process and the exit status is that of one of the two signals, distinct by (first, second, point, read-only); or a signal at a file / commit / rollback step of a run with another ending, distinct by (ending, signal, point, read-only, which of the two decided the exit status)",
		Assumptions: []string{"the moment of the second signal is sampled by timing (it is sent from outside after a drawn delay): the case is not a pure function of its seed in that respect; every outcome is judged",
			"csvq does not restore the default action after the first signal (signal.Notify stays in force until exit), so no number of INT/TERM/QUIT may kill it"},
	})
}
