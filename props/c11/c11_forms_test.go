package c11

import (
	"fmt"
	"path"
	"strings"
	"testing"

	"pgregory.net/rapid"

	"verif/internal/fw"
)

// Sub-check "forms": the litter oracle over what the litter generator never writes - tables in the other file
// formats (created ones too), the statement forms that open, mark or create files in other ways, the same
// statements inside blocks / functions / prepared, executed and sourced texts, command-line options that change
// how a commit writes, a COMMIT that is refused, and two further kinds of lock-timeout.

var formPool = []string{"t1.csv", "x1.tsv", "j1.json", "n1.jsonl", "l1.ltsv", "f1.txt"} // f1.txt: fixed-length, read with --import-format FIXED

// renderTable writes rows of (id, v, s) in the format the extension of the name stands for.
func renderTable(name string, rows [][3]string) string {
	var b strings.Builder
	jsonRow := func(r [3]string) string {
		return fmt.Sprintf(`{"id":%s,"v":%s,"s":"%s"}`, r[0], r[1], r[2])
	}
	switch path.Ext(name) {
	case ".tsv":
		b.WriteString("id\tv\ts\n")
		for _, r := range rows {
			b.WriteString(r[0] + "\t" + r[1] + "\t" + r[2] + "\n")
		}
	case ".json":
		b.WriteString("[")
		for i, r := range rows {
			if i > 0 {
				b.WriteString(",")
			}
			b.WriteString(jsonRow(r))
		}
		b.WriteString("]")
	case ".jsonl":
		for _, r := range rows {
			b.WriteString(jsonRow(r) + "\n")
		}
	case ".ltsv":
		for _, r := range rows {
			b.WriteString("id:" + r[0] + "\tv:" + r[1] + "\ts:" + r[2] + "\n")
		}
	case ".txt":
		// fixed-length, columns found from the spaces: no spaces and no empty cells inside the columns
		b.WriteString(fmt.Sprintf("%-4s %-2s %s\n", "id", "v", "s"))
		for _, r := range rows {
			cell := strings.ReplaceAll(r[2], " ", "_")
			if cell == "" {
				cell = "-"
			}
			b.WriteString(fmt.Sprintf("%-4s %-2s %s\n", r[0], r[1], cell))
		}
	default:
		b.WriteString("id,v,s\n")
		for _, r := range rows {
			b.WriteString(r[0] + "," + r[1] + "," + r[2] + "\n")
		}
	}
	return b.String()
}

func genFormTable(t *rapid.T, name string) string {
	lo := 0
	if e := path.Ext(name); e == ".json" || e == ".jsonl" || e == ".ltsv" || e == ".txt" {
		lo = 1 // these formats carry the column names in the records
	}
	n := fw.Range(t, name+"rows", lo, 5)
	if fw.Pct(t, name+"big", 10) {
		n = fw.Range(t, name+"bigrows", 90, 400) // around the 80/160/300-row thresholds of the parallel evaluator
	}
	rows := make([][3]string, n)
	for i := range rows {
		rows[i] = [3]string{fmt.Sprint(i + 1), fmt.Sprint(fw.Range(t, "v", 0, 9)), fw.PickU(t, "cell", cellPool)}
	}
	return renderTable(name, rows)
}

var createExts = []string{".csv", ".tsv", ".json", ".jsonl", ".ltsv"}

// formsGen carries the state of one generated program.
type formsGen struct {
	t        *rapid.T
	c        *litterCase
	names    []string
	ncreated int
	nwrap    int
	added    map[string][]string // columns added to a table since the last ROLLBACK
	quiet    bool                // no statement may write to standard output (--out must stay empty)
	onlyNew  bool                // the program writes nothing but new tables: its commit consists of created files only
}

func (g *formsGen) tn() string { return "`" + fw.PickU(g.t, "target", g.names) + "`" }

// tableObject is a table object expression reading the file in its own format.
func tableObject(name string) string {
	switch path.Ext(name) {
	case ".tsv":
		return "CSV('\\t', `" + name + "`)"
	case ".json":
		return "JSON('', `" + name + "`)"
	case ".jsonl":
		return "JSONL('', `" + name + "`)"
	case ".ltsv":
		return "LTSV(`" + name + "`)"
	case ".txt":
		return "FIXED('SPACES', `" + name + "`)"
	}
	return "CSV(',', `" + name + "`)"
}

// reading returns one statement (or a short sequence) that only reads.
func (g *formsGen) reading(i int) []string {
	t := g.t
	kinds := []int{0, 1, 2, 3, 4, 5, 6, 7, 8, 9}
	if g.quiet {
		kinds = []int{6, 8, 9} // only SELECT results go to the --out file
	}
	switch fw.PickU(t, "rkind", kinds) {
	case 0:
		return []string{fmt.Sprintf("SELECT * FROM %s WHERE v >= %d", g.tn(), fw.Range(t, "k", 0, 9))}
	case 1:
		return []string{fmt.Sprintf("SELECT a.id, b.s FROM %s a JOIN %s b ON a.id = b.id", g.tn(), g.tn())}
	case 2:
		return []string{fmt.Sprintf("SELECT v, COUNT(*) FROM %s GROUP BY v ORDER BY v", g.tn())}
	case 3:
		return []string{fmt.Sprintf("SELECT id FROM %s WHERE id IN (SELECT id FROM %s WHERE v > %d) UNION SELECT v FROM %s", g.tn(), g.tn(), fw.Range(t, "k", 0, 9), g.tn())}
	case 4:
		return []string{fmt.Sprintf("SELECT id, ROW_NUMBER() OVER (ORDER BY v, id) AS rn FROM %s ORDER BY id", g.tn())}
	case 5:
		return []string{"SELECT COUNT(*) FROM " + tableObject(fw.PickU(t, "target", g.names)) + " o"}
	case 6:
		return []string{"SHOW FIELDS FROM " + g.tn()}
	case 7:
		return []string{fmt.Sprintf("SELECT * FROM %s", g.tn()), "SHOW TABLES"}
	case 8:
		cur := fmt.Sprintf("cur%d", i)
		out := []string{fmt.Sprintf("DECLARE %s CURSOR FOR SELECT id, s FROM %s", cur, g.tn()),
			fmt.Sprintf("OPEN %s", cur), fmt.Sprintf("VAR @a%d, @b%d", i, i), fmt.Sprintf("FETCH %s INTO @a%d, @b%d", cur, i, i)}
		if !g.quiet {
			out = append(out, fmt.Sprintf("PRINT @a%d", i))
		}
		if fw.Pct(t, "closeCur", 60) {
			out = append(out, fmt.Sprintf("CLOSE %s", cur))
		}
		return out
	default:
		return []string{fmt.Sprintf("DECLARE tv%d VIEW (id, v) AS SELECT id, v FROM %s", i, g.tn()), fmt.Sprintf("VAR @c%d := (SELECT COUNT(*) FROM tv%d)", i, i)}
	}
}

// createUnit creates a table and fills it; the table is never written again, so its committed form is unique.
func (g *formsGen) createUnit() []string {
	t := g.t
	if g.ncreated >= 3 {
		return nil
	}
	g.ncreated++
	name := fmt.Sprintf("new%d%s", g.ncreated, fw.PickU(t, "createExt", createExts))
	g.c.Creates = append(g.c.Creates, name)
	switch fw.Range(t, "ckind", 0, 3) {
	case 0:
		return []string{fmt.Sprintf("CREATE TABLE `%s` (a, b)", name), fmt.Sprintf("INSERT INTO `%s` VALUES (1, 'x'), (2, 'y')", name)}
	case 1:
		return []string{fmt.Sprintf("CREATE TABLE `%s` (a, b) AS SELECT id, s FROM %s", name, g.tn())}
	case 2:
		return []string{fmt.Sprintf("CREATE TABLE IF NOT EXISTS `%s` (a, b)", name), fmt.Sprintf("INSERT INTO `%s` SELECT id, v FROM %s", name, g.tn())}
	default:
		return []string{fmt.Sprintf("CREATE TABLE `%s` (a, b)", name)} // no records: the encoders have no record at which they look at the context
	}
}

// simpleWrite is one writing statement that may stand inside a block.
func (g *formsGen) simpleWrite(i int) []string {
	t := g.t
	switch fw.Range(t, "swkind", 0, 5) {
	case 0, 1:
		return []string{fmt.Sprintf("UPDATE %s SET v = v + 1 WHERE id %% 2 = %d", g.tn(), fw.Range(t, "par", 0, 1))}
	case 2:
		return []string{fmt.Sprintf("INSERT INTO %s (id, v, s) VALUES (%d, 1, 'n')", g.tn(), 900+i)}
	case 3:
		return []string{fmt.Sprintf("DELETE FROM %s WHERE id = %d", g.tn(), fw.Range(t, "did", 1, 4))}
	case 4:
		if u := g.createUnit(); u != nil {
			return u
		}
		return []string{fmt.Sprintf("UPDATE %s SET s = 'w' WHERE id = 1", g.tn())}
	default:
		if fw.Pct(t, "txc", 50) {
			return []string{"COMMIT"}
		}
		g.added = map[string][]string{}
		return []string{"ROLLBACK"}
	}
}

// wrap puts statements into a construct that executes them exactly once.
func (g *formsGen) wrap(body []string) []string {
	t := g.t
	g.nwrap++
	k := g.nwrap
	inner := strings.Join(body, "; ")
	noQuote := !strings.Contains(inner, "\"")
	kinds := []int{0, 1, 2}
	if noQuote {
		kinds = append(kinds, 3)
		if !strings.Contains(inner, "%") { // the text of EXECUTE is a format string
			kinds = append(kinds, 4)
		}
	}
	kinds = append(kinds, 5)
	switch fw.PickU(t, "wrapkind", kinds) {
	case 0:
		return []string{"IF 1 = 1 THEN " + inner + "; END IF"}
	case 1:
		return []string{fmt.Sprintf("VAR @w%d := 0", k), fmt.Sprintf("WHILE @w%d < 1 DO %s; @w%d := @w%d + 1; END WHILE", k, inner, k, k)}
	case 2:
		return []string{fmt.Sprintf("DECLARE uf%d FUNCTION () AS BEGIN %s; RETURN 1; END", k, inner), fmt.Sprintf("VAR @r%d := uf%d()", k, k)}
	case 3:
		return []string{fmt.Sprintf("PREPARE ps%d FROM \"%s\"", k, inner), fmt.Sprintf("EXECUTE ps%d", k)}
	case 4:
		return []string{fmt.Sprintf("EXECUTE \"%s\"", inner)}
	default:
		file := fmt.Sprintf("src%d.sql", k)
		if g.c.Files == nil {
			g.c.Files = map[string]string{}
		}
		g.c.Files[file] = inner + ";\n"
		return []string{"SOURCE `" + file + "`"}
	}
}

// writing returns one statement (or unit) of a writing program.
func (g *formsGen) writing(i int) []string {
	t := g.t
	if g.onlyNew {
		if fw.Pct(t, "newOrRead", 60) {
			if u := g.createUnit(); u != nil {
				return u
			}
		}
		return g.reading(i)
	}
	switch fw.Weighted(t, "wkind", []int{2, 3, 2, 2, 2, 3, 2, 2, 2, 2, 3, 2, 2, 2, 4}) {
	case 0:
		return g.reading(i)
	case 1:
		return []string{fmt.Sprintf("UPDATE %s SET v = v + 1 WHERE id %% 2 = %d", g.tn(), fw.Range(t, "par", 0, 1))}
	case 2:
		return []string{fmt.Sprintf("INSERT INTO %s (id, v, s) VALUES (%d, 1, 'n')", g.tn(), 900+i)}
	case 3:
		return []string{fmt.Sprintf("DELETE FROM %s WHERE id IN (SELECT id FROM %s WHERE v > %d)", g.tn(), g.tn(), fw.Range(t, "k", 3, 9))}
	case 4:
		return []string{fmt.Sprintf("REPLACE INTO %s (id, v, s) USING (id) VALUES (%d, 5, 'r')", g.tn(), fw.Range(t, "rid", 1, 6))}
	case 5:
		return []string{fmt.Sprintf("INSERT INTO %s (id, v, s) SELECT id + 500, v, s FROM %s WHERE v < %d", g.tn(), g.tn(), fw.Range(t, "k", 0, 9))}
	case 6:
		a, b := fw.PickU(t, "target", g.names), fw.PickU(t, "target", g.names)
		if a == b {
			return []string{fmt.Sprintf("UPDATE `%s` SET s = 'u' WHERE v = %d", a, fw.Range(t, "k", 0, 9))}
		}
		return []string{fmt.Sprintf("UPDATE ta SET ta.v = tb.v FROM `%s` ta JOIN `%s` tb ON ta.id = tb.id", a, b)}
	case 7:
		// a column is added; columns added earlier (and not rolled back) may be renamed or dropped again
		name := fw.PickU(t, "target", g.names)
		if cols := g.added[name]; len(cols) > 0 && fw.Pct(t, "dropOrRename", 50) {
			col := cols[len(cols)-1]
			g.added[name] = cols[:len(cols)-1]
			if fw.Pct(t, "rename", 50) {
				return []string{fmt.Sprintf("ALTER TABLE `%s` RENAME %s TO %sr", name, col, col)}
			}
			return []string{fmt.Sprintf("ALTER TABLE `%s` DROP %s", name, col)}
		}
		col := fmt.Sprintf("e%d", i)
		g.added[name] = append(g.added[name], col)
		if fw.Pct(t, "addPos", 40) {
			return []string{fmt.Sprintf("ALTER TABLE `%s` ADD %s DEFAULT 0 AFTER id", name, col)}
		}
		return []string{fmt.Sprintf("ALTER TABLE `%s` ADD (%s)", name, col)}
	case 8:
		attr := fw.PickU(t, "attr", []string{"FORMAT TO 'JSON'", "FORMAT TO 'LTSV'", "FORMAT TO 'TSV'", "FORMAT TO 'JSONL'", "FORMAT TO 'CSV'", "FORMAT TO 'FIXED'", "DELIMITER TO ';'", "LINE_BREAK TO CRLF", "ENCLOSE_ALL TO TRUE", "PRETTY_PRINT TO TRUE", "HEADER TO FALSE"})
		return []string{fmt.Sprintf("ALTER TABLE %s SET %s", g.tn(), attr)}
	case 9:
		if g.quiet {
			return []string{fmt.Sprintf("UPDATE %s SET v = v WHERE id = 0", g.tn())}
		}
		return []string{fmt.Sprintf("SELECT * FROM %s FOR UPDATE", g.tn())}
	case 10:
		if u := g.createUnit(); u != nil {
			return u
		}
		return []string{fmt.Sprintf("UPDATE %s SET s = 'w' WHERE id = 1", g.tn())}
	case 11:
		return []string{"COMMIT"}
	case 12:
		g.added = map[string][]string{}
		return []string{"ROLLBACK"}
	case 13:
		// the file is read through a table object while the transaction may hold it for update
		return []string{fmt.Sprintf("VAR @o%d := (SELECT COUNT(*) FROM %s o)", i, tableObject(fw.PickU(t, "target", g.names)))}
	default:
		var body []string
		for j := 0; j < fw.Range(t, "wrapn", 1, 2); j++ {
			body = append(body, g.simpleWrite(i*10+j)...)
		}
		return g.wrap(body)
	}
}

var formsEndings = []string{"signals", "signals", "signals", "signals", "success", "error", "error", "exit", "exitcode", "commit_error", "commit_error",
	"timeout_lock", "timeout_rlock", "timeout_temp", "timeout_flock_ex", "timeout_flock_sh", "tiny_timeout", "tiny_timeout"}

var tinyWaits = []string{"0", "0.000002", "0.000005", "0.00001", "0.00002", "0.00005", "0.0001", "0.0002", "0.0005"}

func genForms(t *rapid.T) litterCase {
	c := litterCase{Tables: map[string]string{}}
	g := &formsGen{t: t, c: &c, added: map[string][]string{}}
	// two to four tables of different formats
	nt := fw.Range(t, "ntables", 2, 4)
	start := fw.Range(t, "firstTable", 0, len(formPool)-1)
	for i := 0; i < nt; i++ {
		g.names = append(g.names, formPool[(start+i*fw.Range(t, "stride", 1, 2))%len(formPool)])
	}
	seen := map[string]bool{}
	var uniq []string
	for _, n := range g.names {
		if !seen[n] {
			seen[n] = true
			uniq = append(uniq, n)
		}
	}
	g.names = uniq
	for _, n := range g.names {
		c.Tables[n] = genFormTable(t, n)
		if path.Ext(n) == ".txt" {
			c.Args = append(c.Args, "--import-format", "FIXED")
		}
	}
	c.ReadOnly = fw.Pct(t, "readonly", 30)
	c.Ending = fw.PickU(t, "ending", formsEndings)
	if c.ReadOnly && c.Ending == "commit_error" {
		c.Ending = "error"
	}
	if fw.Pct(t, "out", 25) {
		c.Out = fw.PickU(t, "outkind", []string{"nonempty", "empty"})
		g.quiet = c.Out == "empty"
	}
	g.onlyNew = !c.ReadOnly && fw.Pct(t, "onlyNew", 25)
	ns := fw.Range(t, "nstmts", 1, 6)
	for i := 0; i < ns; i++ {
		if c.ReadOnly {
			st := g.reading(i)
			if fw.Pct(t, "wrapRead", 25) {
				st = g.wrap(st)
			}
			c.Stmts = append(c.Stmts, st...)
		} else {
			c.Stmts = append(c.Stmts, g.writing(i)...)
		}
	}
	insert := func(pos int, sts ...string) {
		c.Stmts = append(c.Stmts[:pos], append(append([]string{}, sts...), c.Stmts[pos:]...)...)
	}
	if !c.ReadOnly && !g.onlyNew && fw.Pct(t, "burst", 40) {
		// one new table per format in one transaction: the commit runs every encoder on a created file
		var sts []string
		for i, e := range createExts {
			name := fmt.Sprintf("nb%d%s", i+1, e)
			c.Creates = append(c.Creates, name)
			if fw.Pct(t, "burstCtas", 50) {
				sts = append(sts, fmt.Sprintf("CREATE TABLE `%s` (a, b) AS SELECT id, s FROM %s", name, g.tn()))
			} else {
				sts = append(sts, fmt.Sprintf("CREATE TABLE `%s` (a, b)", name), fmt.Sprintf("INSERT INTO `%s` VALUES (1, 'x'), (2, 'y')", name))
			}
		}
		insert(fw.Range(t, "burstPos", 0, len(c.Stmts)), sts...)
	}
	switch c.Ending {
	case "error":
		pos := fw.Range(t, "errpos", 0, len(c.Stmts))
		bads := []string{"SELECT 1 / 0", "SELECT * FROM `nosuch.json`", "SELECT nocolumn FROM " + g.tn(), "TRIGGER ERROR 70 'boom'", "IF 1 = 1 THEN TRIGGER ERROR 70 'deep'; END IF"}
		if !c.ReadOnly {
			bads = append(bads, "INSERT INTO "+g.tn()+" VALUES (1)",
				"CREATE TABLE `bad1.json` (a, b) AS SELECT 1", "CREATE TABLE `bad2.ltsv` (a, a)", "CREATE TABLE `bad3.tsv` (a) AS SELECT nocolumn FROM "+g.tn(),
				"UPDATE "+g.tn()+" SET nocolumn = 1", "ALTER TABLE "+g.tn()+" DROP nocolumn", "ALTER TABLE "+g.tn()+" SET FORMAT TO 'NOFORMAT'")
		}
		bad := fw.PickU(t, "bad", bads)
		for _, n := range []string{"bad1.json", "bad2.ltsv", "bad3.tsv"} {
			if strings.Contains(bad, n) {
				c.Creates = append(c.Creates, n)
			}
		}
		insert(pos, bad)
	case "exit":
		pos := fw.Range(t, "exitpos", 0, len(c.Stmts))
		insert(pos, fw.PickU(t, "exitform", []string{"EXIT", "EXIT", "IF 1 = 1 THEN EXIT; END IF", "WHILE TRUE DO EXIT; END WHILE"}))
	case "exitcode":
		pos := fw.Range(t, "exitpos", 0, len(c.Stmts))
		insert(pos, fw.PickU(t, "exitform", []string{"EXIT 3", "EXIT 3", "IF 1 = 1 THEN EXIT 3; END IF"}))
	case "commit_error":
		// a table whose column names cannot be laid out as JSON objects (a value and an object under the same key):
		// nothing is wrong until the transaction is committed, then the encoder refuses
		pos := fw.Range(t, "cepos", 0, len(c.Stmts))
		var kept []string
		for i, st := range c.Stmts {
			if i >= pos && strings.Contains(st, "ROLLBACK") {
				continue
			}
			kept = append(kept, st)
		}
		c.Stmts = kept
		if pos > len(c.Stmts) {
			pos = len(c.Stmts)
		}
		var jsonTables []string
		for _, n := range g.names {
			if e := path.Ext(n); e == ".json" || e == ".jsonl" {
				jsonTables = append(jsonTables, n)
			}
		}
		switch k := fw.Range(t, "cekind", 0, 2); {
		case k == 0 && len(jsonTables) > 0:
			insert(pos, fmt.Sprintf("ALTER TABLE `%s` ADD (`id.x`)", fw.PickU(t, "ceTable", jsonTables)))
		case k == 1:
			name := fw.PickU(t, "target", g.names)
			insert(pos, fmt.Sprintf("ALTER TABLE `%s` SET FORMAT TO 'JSON'", name), fmt.Sprintf("ALTER TABLE `%s` ADD (`id.x`)", name))
		default:
			name := "cx" + fw.PickU(t, "ceExt", []string{".json", ".jsonl"})
			c.Creates = append(c.Creates, name)
			insert(pos, fmt.Sprintf("CREATE TABLE `%s` (a, `a.b`)", name), fmt.Sprintf("INSERT INTO `%s` VALUES (1, 2)", name))
		}
	case "timeout_lock", "timeout_rlock", "timeout_temp", "timeout_flock_ex", "timeout_flock_sh":
		c.LockOn = fw.PickU(t, "lockon", g.names)
	case "tiny_timeout":
		for i := 0; i < 3; i++ {
			c.TinyWait = append(c.TinyWait, fw.PickU(t, "tinyWait", tinyWaits))
		}
	case "signals":
		c.SigStep = fw.Range(t, "sigStep", 2, 3)
		c.SigOff = fw.Range(t, "sigOff", 0, c.SigStep-1)
	}
	if len(c.Stmts) == 0 {
		c.Stmts = []string{"VAR @z := 1"}
	}
	// options that change how the run evaluates and how a commit writes
	if fw.Pct(t, "cpu", 40) {
		c.Args = append(c.Args, "--cpu", fmt.Sprint(fw.Range(t, "cpuN", 1, 4)))
	}
	if fw.Pct(t, "wopt", 25) {
		c.Args = append(c.Args, fw.PickU(t, "woptKind", [][]string{{"--line-break", "CRLF"}, {"--enclose-all"}, {"--strip-ending-line-break"}, {"--stats"}, {"--write-encoding", "SJIS"}, {"--without-header"}})...)
	}
	return c
}

func TestC11Forms(t *testing.T) {
	fw.Run(t, fw.Spec[litterCase]{
		ID: "C11", Name: "forms", Quick: 144, Thorough: 3600,
		Gen: genForms, Check: checkCase,
		Rule: "the litter oracle (no .lock/.rlock/.temp anywhere below the directory, created tables only in committed form, empty --out removed, read-only => bytes+inode+mtime of every file unchanged, the process ends by itself) over programs the litter generator never writes: 2-4 tables drawn from CSV/TSV/JSON/JSONL/LTSV/fixed-length files (10% with 90-400 rows), created tables in all five text formats (CREATE+INSERT, CREATE AS SELECT, IF NOT EXISTS, without records; 40% of the writing programs create one table per format in one transaction, 25% write nothing but new tables, so that the commit consists of created files only); REPLACE, INSERT SELECT, DELETE with subquery, UPDATE over a join of two files, ALTER TABLE ADD/DROP/RENAME, ALTER TABLE SET (format, delimiter, line break, ...), table objects CSV()/JSON()/LTSV()..., SHOW FIELDS, views from files, cursors left open; the same statements inside IF / WHILE / a user-defined function / PREPARE+EXECUTE / EXECUTE of a text / a SOURCEd file; options --cpu 1-4, --line-break, --enclose-all, --strip-ending-line-break, --stats, --write-encoding, --without-header. Endings: success | failing statement (incl. failing CREATE TABLE forms) | EXIT / EXIT 3 (also inside blocks) | commit_error: a column layout JSON cannot express, so that the (automatic or explicit) COMMIT is refused | held .lock/.rlock, stale .temp | timeout_flock: the competing holder has no control file but the flock of the table file | tiny_timeout: no competitor, --wait-timeout 0..0.5 ms expires inside an acquisition | signals at every 2nd/3rd point of the plain run (offset drawn) and at every step of a commit. Plain runs are also judged without a reference: a run that ends by error/EXIT keeps no table created after its last COMMIT. non-trivial = as in litter; fingerprints additionally carry the format of the file at the signalled point, the step at which a tiny timeout struck",
		Assumptions: []string{"blocks generated around statements always execute their body once, so the textual order of CREATE TABLE / COMMIT / EXIT is the execution order",
			"which acquisition step a tiny --wait-timeout interrupts depends on timing; the step is recorded from the point log of that run, every outcome is judged"},
	})
}
