package c11

import (
	"fmt"
	"path"
	"strings"
	"testing"

	"pgregory.net/rapid"

	"verif/internal/fw"
)

// Sub-check "places": the tables do not all lie in the working directory, and the working directory / the
// repository change while the program runs. The oracle walks the whole tree.

// placesGen tracks the directory against which csvq resolves a relative table name at the current statement
// (as a path relative to the case directory: "." or "sub").
type placesGen struct {
	t        *rapid.T
	c        *litterCase
	base     string
	tables   []string // relative to the case directory
	ncreated int
}

// rel is the spelling of a table (path relative to the case directory) as seen from the current base.
func (g *placesGen) rel(table string) string {
	if g.base == "." {
		return table
	}
	if strings.HasPrefix(table, g.base+"/") {
		return strings.TrimPrefix(table, g.base+"/")
	}
	return "../" + table
}

func (g *placesGen) tn() string { return "`" + g.rel(fw.PickU(g.t, "target", g.tables)) + "`" }

func (g *placesGen) stmt(i int) []string {
	t := g.t
	c := g.c
	if c.ReadOnly {
		switch fw.Range(t, "rkind", 0, 3) {
		case 0, 1:
			return []string{fmt.Sprintf("SELECT * FROM %s WHERE v >= %d", g.tn(), fw.Range(t, "k", 0, 9))}
		case 2:
			return []string{fmt.Sprintf("SELECT a.id, b.s FROM %s a JOIN %s b ON a.id = b.id", g.tn(), g.tn())}
		default:
			return []string{fmt.Sprintf("SHOW FIELDS FROM %s", g.tn())}
		}
	}
	switch fw.Range(t, "wkind", 0, 8) {
	case 0:
		return []string{fmt.Sprintf("SELECT * FROM %s", g.tn())}
	case 1, 2:
		return []string{fmt.Sprintf("UPDATE %s SET v = v + 1 WHERE id %% 2 = %d", g.tn(), fw.Range(t, "par", 0, 1))}
	case 3:
		return []string{fmt.Sprintf("INSERT INTO %s VALUES (%d, 1, 'n')", g.tn(), 900+i)}
	case 4:
		return []string{fmt.Sprintf("DELETE FROM %s WHERE id = %d", g.tn(), fw.Range(t, "did", 1, 4))}
	case 5, 6:
		if g.ncreated >= 3 {
			return []string{fmt.Sprintf("SELECT * FROM %s FOR UPDATE", g.tn())}
		}
		g.ncreated++
		// created where the current base points, or explicitly in another directory
		where := fw.PickU(t, "createIn", []string{".", ".", "sub", "sub/deep"})
		var table string
		if where == "." {
			table = path.Join(g.base, fmt.Sprintf("new%d.csv", g.ncreated))
		} else {
			table = path.Join(where, fmt.Sprintf("new%d.csv", g.ncreated))
		}
		c.Creates = append(c.Creates, table)
		return []string{fmt.Sprintf("CREATE TABLE `%s` (a, b)", g.rel(table)), fmt.Sprintf("INSERT INTO `%s` VALUES (1, 'x')", g.rel(table))}
	case 7:
		return []string{"COMMIT"}
	default:
		return []string{"ROLLBACK"}
	}
}

func genPlaces(t *rapid.T) litterCase {
	c := litterCase{Tables: map[string]string{}}
	g := &placesGen{t: t, c: &c, base: "."}
	g.tables = []string{"t1.csv", "sub/t2.csv"}
	if fw.Pct(t, "deep", 50) {
		g.tables = append(g.tables, "sub/deep/t3.csv")
	}
	if fw.Pct(t, "twin", 30) {
		g.tables = append(g.tables, "sub/t1.csv") // the same name in both directories
	}
	for _, n := range g.tables {
		c.Tables[n] = genTable(t, n)
	}
	c.Files = map[string]string{"sub/deep/keep.txt": "x\n"} // the directories exist whichever tables were drawn
	c.ReadOnly = fw.Pct(t, "readonly", 30)
	c.Ending = fw.PickU(t, "ending", []string{"signals", "signals", "signals", "success", "error", "exit", "exitcode", "timeout_lock", "timeout_rlock", "timeout_temp"})
	// how the program gets to the other directory
	mode := fw.PickU(t, "mode", []string{"relative_paths", "chdir", "chdir", "set_repository", "repository_option"})
	ns := fw.Range(t, "nstmts", 2, 6)
	switchAt := fw.Range(t, "switchAt", 0, ns-1)
	if mode == "repository_option" {
		c.Args = append(c.Args, "--repository", "sub")
		g.base = "sub"
	}
	for i := 0; i < ns; i++ {
		if i == switchAt {
			switch mode {
			case "chdir":
				c.Stmts = append(c.Stmts, "CHDIR 'sub'")
				g.base = "sub"
			case "set_repository":
				c.Stmts = append(c.Stmts, "SET @@REPOSITORY TO 'sub'")
				g.base = "sub"
			}
		}
		c.Stmts = append(c.Stmts, g.stmt(i)...)
	}
	// --out: given relative to the working directory the process starts in (the program may leave it),
	// possibly below it, possibly already there
	if fw.Pct(t, "out", 60) {
		c.OutRel = fw.PickU(t, "outRel", []string{"rel.out", "./rel.out", "sub/rel.out", "sub/deep/../rel.out"})
		c.Out = fw.PickU(t, "outkind", []string{"nonempty", "empty", "empty"})
		if c.ReadOnly && fw.Pct(t, "outExists", 30) {
			// the file is there already: csvq refuses to run; the file is not its own and stays as it is, empty or not
			c.Out = "exists"
			c.Files[path.Clean(c.OutRel)] = fw.PickU(t, "outOld", []string{"", "old\n"})
		}
		if c.Out != "exists" && fw.Pct(t, "decoy", 50) {
			// an unrelated file under the same relative name in the directory the program moves to: if the --out
			// path were resolved again after CHDIR, this file would be taken for the out file
			c.Files[path.Join("sub", path.Clean(c.OutRel))] = "keep me\n"
		}
		if c.Out == "empty" {
			var kept []string
			for _, s := range c.Stmts {
				if !strings.HasPrefix(s, "SELECT") {
					kept = append(kept, s)
				}
			}
			if len(kept) == 0 {
				kept = []string{"VAR @z := 1"}
			}
			c.Stmts = kept
		}
	}
	insert := func(pos int, st string) {
		c.Stmts = append(c.Stmts[:pos], append([]string{st}, c.Stmts[pos:]...)...)
	}
	switch c.Ending {
	case "error":
		insert(fw.Range(t, "errpos", 0, len(c.Stmts)), fw.PickU(t, "bad", []string{"SELECT 1 / 0", "SELECT * FROM `sub/nosuch.csv`", "TRIGGER ERROR 70 'boom'", "CHDIR 'nosuchdir'"}))
	case "exit":
		insert(fw.Range(t, "exitpos", 0, len(c.Stmts)), "EXIT")
	case "exitcode":
		insert(fw.Range(t, "exitpos", 0, len(c.Stmts)), "EXIT 3")
	case "timeout_lock", "timeout_rlock", "timeout_temp":
		c.LockOn = fw.PickU(t, "lockon", g.tables)
	case "signals":
		c.SigStep = fw.Range(t, "sigStep", 2, 3)
		c.SigOff = fw.Range(t, "sigOff", 0, c.SigStep-1)
	}
	return c
}

func TestC11Places(t *testing.T) {
	fw.Run(t, fw.Spec[litterCase]{
		ID: "C11", Name: "places", Quick: 80, Thorough: 1800,
		Gen: genPlaces, Check: checkCase,
		Rule:        "the litter oracle applied to the whole tree below the working directory (the litter sub-check has one flat directory): tables t1.csv, sub/t2.csv, optionally sub/deep/t3.csv and a second t1.csv in sub/; they are reached by relative paths, after CHDIR 'sub' or SET @@REPOSITORY TO 'sub' at a drawn statement (tables behind are then spelled ../t1.csv), or with --repository sub; tables are created in the current, the other and a deeper directory; --out is a path relative to the start directory (rel.out, ./rel.out, sub/rel.out, sub/deep/../rel.out) with empty / non-empty result, or names an existing (empty or non-empty) file of a read-only program, which must stay as it is; in half of the cases an unrelated file lies under the same relative name in sub/ (where the program moves to), which a read-only program must leave untouched. Endings: success | failing statement (also a failing CHDIR) | EXIT | EXIT 3 | held .lock/.rlock / stale .temp next to the table in its sub-directory | signals at every 2nd or 3rd point of the plain run (offset drawn) and at every step of a commit. non-trivial = as in litter",
		Assumptions: []string{"a relative --out path refers to the directory the process was started in, also when the program changes the working directory (lib/action/run.go makes it absolute before the program runs)"},
	})
}
