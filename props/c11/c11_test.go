package c11

import (
	"fmt"
	"os"
	"path/filepath"
	"sort"
	"strings"
	"sync/atomic"
	"syscall"
	"testing"
	"time"

	"pgregory.net/rapid"

	"verif/internal/fw"
	"verif/internal/run"
)

func TestMain(m *testing.M) { fw.Main(m) }

type litterCase struct {
	Tables   map[string]string `json:"tables"`    // file name -> bytes
	Stmts    []string          `json:"stmts"`     // program
	ReadOnly bool              `json:"read_only"` // only reading statements
	Ending   string            `json:"ending"`    // success | error | exit | exitcode | timeout_lock | timeout_rlock | signals
	Out      string            `json:"out"`       // "" | "nonempty" | "empty": use --out
	Creates  []string          `json:"creates"`   // tables created by the program
	LockOn   string            `json:"lock_on"`   // table a competing holder has locked (timeout endings)
	LongName bool              `json:"long_name"` // one table has a 236-249 byte file name (run with a short wait timeout)
	Preload  int               `json:"preload"`   // the first Preload statements are not in the program but in ./csvqrc (run before it, same transaction)
}

var cellPool = []string{"a", "b", "hello", "x y", "", "42", "3.5", "Z"}

func genTable(t *rapid.T, label string) string {
	var b strings.Builder
	b.WriteString("id,v,s\n")
	n := fw.Range(t, label+"rows", 0, 5)
	if fw.Pct(t, label+"big", 10) {
		n = fw.Range(t, label+"bigrows", 200, 400)
	}
	for i := 0; i < n; i++ {
		b.WriteString(fmt.Sprintf("%d,%d,%s\n", i+1, fw.Range(t, "v", 0, 9), fw.PickU(t, "cell", cellPool)))
	}
	return b.String()
}

func genCase(t *rapid.T) litterCase {
	c := litterCase{Tables: map[string]string{}}
	names := []string{"t1.csv", "t2.csv", "t3.csv"}[:fw.Range(t, "ntables", 1, 3)]
	if fw.Pct(t, "longName", 8) {
		// a table whose name is so long that ".NAME.lock"/".NAME.temp" (NAME+6 bytes) still fit the file-name
		// limit of 255 bytes while the read-lock name ".NAME.<12 random>.rlock" (NAME+20) does not: reading it
		// must fail cleanly (lock-timeout family) and leave nothing behind; updating it works
		long := strings.Repeat("n", fw.Range(t, "longLen", 232, 245)) + ".csv"
		names = append(names, long)
		c.LongName = true
	}
	for _, n := range names {
		c.Tables[n] = genTable(t, n)
	}
	c.ReadOnly = fw.Pct(t, "readonly", 35)
	c.Ending = fw.PickU(t, "ending", []string{"signals", "signals", "signals", "success", "error", "exit", "exitcode", "timeout_lock", "timeout_rlock", "timeout_temp", "vanish_while_waiting"})
	ns := fw.Range(t, "nstmts", 1, 6)
	tn := func() string { return "`" + fw.PickU(t, "target", names) + "`" }
	ncreated := 0
	for i := 0; i < ns; i++ {
		if c.ReadOnly {
			switch fw.Range(t, "rkind", 0, 4) {
			case 0, 1:
				c.Stmts = append(c.Stmts, fmt.Sprintf("SELECT * FROM %s WHERE v >= %d", tn(), fw.Range(t, "k", 0, 9)))
			case 2:
				c.Stmts = append(c.Stmts, fmt.Sprintf("SELECT a.id, b.s FROM %s a JOIN %s b ON a.id = b.id", tn(), tn()))
			case 3:
				c.Stmts = append(c.Stmts, fmt.Sprintf("SELECT v, COUNT(*) FROM %s GROUP BY v ORDER BY v", tn()))
			default:
				cur := fmt.Sprintf("cur%d", i)
				c.Stmts = append(c.Stmts, fmt.Sprintf("DECLARE %s CURSOR FOR SELECT id, s FROM %s", cur, tn()),
					fmt.Sprintf("OPEN %s", cur), "VAR @a, @b", fmt.Sprintf("FETCH %s INTO @a, @b", cur), "PRINT @a", fmt.Sprintf("CLOSE %s", cur), "DISPOSE @a", "DISPOSE @b")
			}
			continue
		}
		switch fw.Range(t, "wkind", 0, 8) {
		case 0:
			c.Stmts = append(c.Stmts, fmt.Sprintf("SELECT * FROM %s", tn()))
		case 1, 2:
			c.Stmts = append(c.Stmts, fmt.Sprintf("UPDATE %s SET v = v + 1 WHERE id %% 2 = %d", tn(), fw.Range(t, "par", 0, 1)))
		case 3:
			c.Stmts = append(c.Stmts, fmt.Sprintf("INSERT INTO %s VALUES (%d, 1, 'n')", tn(), 900+i))
		case 4:
			c.Stmts = append(c.Stmts, fmt.Sprintf("DELETE FROM %s WHERE id = %d", tn(), fw.Range(t, "did", 1, 4)))
		case 5:
			if fw.Pct(t, "caseCollision", 30) {
				// a name that differs only in letter case from an existing table: a distinct file on this file
				// system, but the same key in csvq's handler container - refused with "already opened" when the
				// transaction holds the other one, created otherwise; either way nothing may be left unowned
				name := strings.ToUpper(fw.PickU(t, "collideWith", names[:min(len(names), 3)]))
				has := false
				for _, n := range c.Creates {
					has = has || n == name
				}
				if !has {
					c.Creates = append(c.Creates, name)
				}
				c.Stmts = append(c.Stmts, fmt.Sprintf("CREATE TABLE `%s` (a, b)", name))
			} else if ncreated < 2 {
				ncreated++
				name := fmt.Sprintf("new%d.csv", ncreated)
				c.Creates = append(c.Creates, name)
				c.Stmts = append(c.Stmts, fmt.Sprintf("CREATE TABLE `%s` (a, b)", name), fmt.Sprintf("INSERT INTO `%s` VALUES (1, 'x')", name))
			}
		case 6:
			c.Stmts = append(c.Stmts, fmt.Sprintf("SELECT * FROM %s FOR UPDATE", tn()))
		case 7:
			c.Stmts = append(c.Stmts, "COMMIT")
		default:
			c.Stmts = append(c.Stmts, "ROLLBACK")
		}
	}
	if len(c.Stmts) == 0 {
		c.Stmts = append(c.Stmts, fmt.Sprintf("SELECT * FROM %s", tn()))
	}
	switch c.Ending {
	case "error":
		pos := fw.Range(t, "errpos", 0, len(c.Stmts))
		bad := fw.PickU(t, "bad", []string{"SELECT 1 / 0", "SELECT * FROM `nosuch.csv`", "SELECT nocolumn FROM `t1.csv`", "TRIGGER ERROR 70 'boom'", "INSERT INTO `t1.csv` VALUES (1)", "CREATE TABLE `T1.CSV` (a, b)"})
		if strings.HasPrefix(bad, "CREATE") {
			if c.ReadOnly {
				bad = "SELECT 1 / 0"
			} else {
				has := false
				for _, n := range c.Creates {
					has = has || n == "T1.CSV"
				}
				if !has {
					c.Creates = append(c.Creates, "T1.CSV")
				}
			}
		}
		c.Stmts = append(c.Stmts[:pos], append([]string{bad}, c.Stmts[pos:]...)...)
	case "exit":
		pos := fw.Range(t, "exitpos", 0, len(c.Stmts))
		c.Stmts = append(c.Stmts[:pos], append([]string{"EXIT"}, c.Stmts[pos:]...)...)
	case "exitcode":
		pos := fw.Range(t, "exitpos", 0, len(c.Stmts))
		c.Stmts = append(c.Stmts[:pos], append([]string{"EXIT 3"}, c.Stmts[pos:]...)...)
	case "timeout_lock", "timeout_rlock", "timeout_temp", "vanish_while_waiting":
		c.LockOn = fw.PickU(t, "lockon", names)
	}
	if fw.Pct(t, "out", 25) {
		c.Out = fw.PickU(t, "outkind", []string{"nonempty", "empty"})
		if c.Out == "empty" {
			// no SELECT output at all: only DML / declarations
			var kept []string
			for _, s := range c.Stmts {
				if !strings.HasPrefix(s, "SELECT") && !strings.HasPrefix(s, "PRINT") {
					kept = append(kept, s)
				}
			}
			if len(kept) == 0 {
				kept = []string{"VAR @z := 1"}
			}
			c.Stmts = kept
		}
	}
	if !c.LongName && !strings.HasPrefix(c.Ending, "timeout_") && c.Ending != "vanish_while_waiting" && fw.Pct(t, "preload", 22) {
		// csvq executes the statements of a csvqrc file (here: the one in the current directory) before the
		// program, in the same transaction and before the command-line flags are applied; an EXIT there would
		// not end the run, so only statements in front of the first EXIT are moved
		max := len(c.Stmts) - 1
		for i, st := range c.Stmts {
			if strings.HasPrefix(st, "EXIT") && i < max {
				max = i
			}
		}
		if max >= 1 {
			c.Preload = fw.Range(t, "preloadN", 1, max)
		}
	}
	return c
}

const rcName = "csvqrc"

// writeCase writes the tables and, for preload cases, the csvqrc file of the current directory.
func writeCase(dir string, c litterCase) {
	_ = run.WriteFiles(dir, c.Tables)
	old := time.Now().Add(-time.Hour)
	for n := range c.Tables {
		_ = os.Chtimes(filepath.Join(dir, n), old, old)
	}
	if c.Preload > 0 {
		_ = os.WriteFile(filepath.Join(dir, rcName), []byte(strings.Join(c.Stmts[:c.Preload], ";\n")+";\n"), 0644)
		_ = os.Chtimes(filepath.Join(dir, rcName), old, old)
	}
}

var seq int64

type fileID struct {
	ino   uint64
	mtime time.Time
	bytes string
}

func statAll(dir string) map[string]fileID {
	out := map[string]fileID{}
	ents, _ := os.ReadDir(dir)
	for _, e := range ents {
		if e.IsDir() {
			continue
		}
		p := filepath.Join(dir, e.Name())
		fi, err := os.Stat(p)
		if err != nil {
			continue
		}
		b, _ := os.ReadFile(p)
		id := fileID{mtime: fi.ModTime(), bytes: string(b)}
		if st, ok := fi.Sys().(*syscall.Stat_t); ok {
			id.ino = st.Ino
		}
		out[e.Name()] = id
	}
	return out
}

type runner struct {
	bin  string
	home string
}

// run executes the program; a watchdog hit counts only if it repeats on an
// immediate re-run (directory restored first) with a four times longer limit.
var lastRetried bool // the directory was restored for a watchdog re-run: inodes/mtimes of the first snapshot are stale

func (r runner) run(dir string, c litterCase, env []string, extraArgs ...string) run.CLIRes {
	lastRetried = false
	res := r.runOnce(dir, c, 30*time.Second, env, extraArgs...)
	if res.TimedOut {
		lastRetried = true
		fw.AddExtra("watchdog_retries", 1)
		ents, _ := os.ReadDir(dir)
		keep := map[string][]byte{}
		for _, e := range ents {
			if _, isTable := c.Tables[e.Name()]; !isTable && strings.HasPrefix(e.Name(), ".") && len(c.LockOn) > 0 && strings.HasPrefix(e.Name(), "."+c.LockOn) {
				keep[e.Name()] = nil
			}
			_ = os.Remove(filepath.Join(dir, e.Name()))
		}
		writeCase(dir, c)
		for n := range keep {
			_ = os.WriteFile(filepath.Join(dir, n), nil, 0600)
		}
		res = r.runOnce(dir, c, 120*time.Second, env, extraArgs...)
	}
	return res
}

func (r runner) runOnce(dir string, c litterCase, to time.Duration, env []string, extraArgs ...string) run.CLIRes {
	src := filepath.Join(r.home, fmt.Sprintf("prog-%d.sql", atomic.AddInt64(&seq, 1)))
	_ = os.WriteFile(src, []byte(strings.Join(c.Stmts[c.Preload:], ";\n")+";\n"), 0644)
	defer os.Remove(src)
	args := []string{"-q", "-s", src}
	if c.Out != "" {
		args = append(args, "--out", filepath.Join(dir, "result.out"))
	}
	args = append(args, extraArgs...)
	if c.LongName && len(extraArgs) == 0 {
		args = append(args, "--wait-timeout", "0.2")
	}
	return run.CLI(run.CLIOpt{Bin: r.bin, Dir: dir, Home: r.home, Args: args, Env: env, Timeout: to})
}

func setup(c litterCase, tag string) string {
	dir := filepath.Join(fw.WorkDir(), fmt.Sprintf("c11-%d-%s", atomic.AddInt64(&seq, 1), tag))
	_ = os.RemoveAll(dir)
	_ = os.MkdirAll(dir, 0755)
	// files are aged so that a rewrite is visible in mtime
	writeCase(dir, c)
	return dir
}

// verdict inspects the directory after a run.
func verdict(c litterCase, dir string, before map[string]fileID, committed map[string]string, what string, allowed map[string]bool) *fw.Violation {
	after := statAll(dir)
	var litter []string
	for n := range after {
		if allowed[n] {
			continue
		}
		if strings.HasPrefix(n, ".") && (strings.HasSuffix(n, ".lock") || strings.HasSuffix(n, ".rlock") || strings.HasSuffix(n, ".temp")) {
			litter = append(litter, n)
		}
	}
	sort.Strings(litter)
	if len(litter) > 0 {
		return fw.V("control_files_left:"+what, "%s: control files left behind: %v", what, litter)
	}
	for _, n := range c.Creates {
		if id, ok := after[n]; ok {
			want, wasCommitted := committed[n]
			if !wasCommitted || id.bytes != want {
				return fw.V("uncommitted_created_table_left:"+what, "%s: created table %s exists with %q although its creation was not committed (committed form: %q)", what, n, id.bytes, want)
			}
		}
	}
	// a created table may only stay if its transaction was committed: in a program without explicit
	// COMMIT/ROLLBACK there is exactly one (automatic) commit, so a surviving created table implies that
	// every existing table shows its committed contents too
	single := true
	for _, st := range c.Stmts {
		if st == "COMMIT" || st == "ROLLBACK" {
			single = false
		}
	}
	if single && before != nil {
		for _, n := range c.Creates {
			if _, ok := after[n]; !ok {
				continue
			}
			for tn := range c.Tables {
				want, okc := committed[tn]
				if a, ok := after[tn]; ok && okc && a.bytes != want && a.bytes == before[tn].bytes {
					return fw.V("created_table_kept_without_commit:"+what, "%s: created table %s was kept although the transaction was not committed (table %s still has its old contents)", what, n, tn)
				}
			}
		}
	}
	if id, ok := after["result.out"]; ok && len(id.bytes) == 0 {
		return fw.V("empty_out_file_left:"+what, "%s: empty --out file was not removed", what)
	}
	for n := range c.Tables {
		if _, ok := after[n]; !ok {
			return fw.V("table_vanished:"+what, "%s: table %s no longer exists", what, n)
		}
	}
	if c.ReadOnly {
		for n, b := range before {
			a, ok := after[n]
			if !ok || a.bytes != b.bytes || (!lastRetried && (a.ino != b.ino || !a.mtime.Equal(b.mtime))) {
				return fw.V("read_only_program_modified_file:"+what, "%s: read-only program changed %s (bytes equal: %v, inode %d->%d, mtime %v->%v)", what, n, ok && a.bytes == b.bytes, b.ino, a.ino, b.mtime, a.mtime)
			}
		}
		for n := range after {
			if _, ok := before[n]; !ok && n != "result.out" && !allowed[n] {
				return fw.V("read_only_program_created_file:"+what, "%s: read-only program created %s", what, n)
			}
		}
	}
	return nil
}

var sigNames = []string{"INT", "TERM", "QUIT"}
var sigNums = map[string]int{"INT": 2, "TERM": 15, "QUIT": 3}

func checkCase(c litterCase) (fw.Outcome, *fw.Violation) {
	o := fw.Outcome{Classes: []string{"ending=" + c.Ending, fmt.Sprintf("readonly=%v", c.ReadOnly), "out=" + c.Out}}
	if c.Preload > 0 {
		o.Classes = append(o.Classes, "preload_csvqrc")
	}
	if c.LongName {
		o.Classes = append(o.Classes, "long_table_name")
	}
	bin, err := run.Binary(fw.WorkDir(), false)
	if err != nil {
		return o, fw.Harness("%v", err)
	}
	home := filepath.Join(fw.WorkDir(), "clihome")
	_ = os.MkdirAll(home, 0755)
	r := runner{bin: bin, home: home}
	prog := strings.Join(c.Stmts, ";\n") + ";"
	if c.Preload > 0 {
		prog = fmt.Sprintf("-- the first %d statement(s) are in ./csvqrc (preload), the rest is the program\n", c.Preload) + prog
	}

	// reference run without interference: committed contents of created tables, list of points
	dir := setup(c, "ref")
	before := statAll(dir)
	logp := filepath.Join(home, fmt.Sprintf("points-%d.log", atomic.AddInt64(&seq, 1)))
	res := r.run(dir, c, []string{"VERIF_POINT_LOG=" + logp})
	logb, _ := os.ReadFile(logp)
	_ = os.Remove(logp)
	committed := map[string]string{}
	for n, id := range statAll(dir) {
		committed[n] = id.bytes
	}
	if res.TimedOut {
		_ = os.RemoveAll(dir)
		return o, fw.V("hang", "plain run did not terminate\n%s", prog)
	}
	if v := verdict(c, dir, before, committed, c.Ending+"/plain", nil); v != nil && !strings.HasPrefix(c.Ending, "timeout_") {
		_ = os.RemoveAll(dir)
		v.Msg += "\nexit=" + fmt.Sprint(res.Code) + " stderr=" + res.Stderr + "\nprogram:\n" + prog
		return o, v
	}
	_ = os.RemoveAll(dir)
	switch c.Ending {
	case "success":
		if res.Code != 0 {
			o.Classes = append(o.Classes, "success_program_failed")
		}
	case "error":
		if res.Code == 0 {
			o.Classes = append(o.Classes, "error_not_reached")
		}
	case "exitcode":
		if res.Code != 3 && res.Code != 0 {
			// an earlier statement may fail first; only EXIT 3 itself is asserted
			o.Classes = append(o.Classes, "exitcode_other")
		}
	}
	evals := 1
	handlerOpen := false
	var points []string
	for _, ln := range strings.Split(strings.TrimSpace(string(logb)), "\n") {
		key := strings.SplitN(ln, "\t", 2)[0]
		if key != "" {
			points = append(points, key)
		}
	}

	switch c.Ending {
	case "timeout_lock", "timeout_rlock", "timeout_temp":
		dir := setup(c, "to")
		held := "." + c.LockOn + ".lock"
		if c.Ending == "timeout_rlock" {
			held = "." + c.LockOn + ".AbCdEfGhIjKl.rlock"
		}
		if c.Ending == "timeout_temp" {
			held = "." + c.LockOn + ".temp"
		}
		_ = os.WriteFile(filepath.Join(dir, held), nil, 0600)
		before := statAll(dir)
		delete(before, held)
		res := r.run(dir, c, nil, "--wait-timeout", "0.05")
		evals++
		if res.TimedOut {
			_ = os.RemoveAll(dir)
			return o, fw.V("hang", "run against a held lock did not terminate\n%s", prog)
		}
		if v := verdict(c, dir, before, committed, c.Ending, map[string]bool{held: true}); v != nil {
			_ = os.RemoveAll(dir)
			v.Msg += "\nexit=" + fmt.Sprint(res.Code) + " stderr=" + res.Stderr + "\nprogram:\n" + prog
			return o, v
		}
		if strings.Contains(res.Stderr, "Fatal Error") || strings.Contains(res.Stderr, "panic:") {
			_ = os.RemoveAll(dir)
			return o, fw.V("fatal_on_lock_timeout", "stderr: %s\n%s", res.Stderr, prog)
		}
		_ = os.RemoveAll(dir)
		if res.Code == 8 {
			o.Fingerprint = fmt.Sprintf("%s|ro=%v|out=%s|n=%d", c.Ending, c.ReadOnly, c.Out, len(c.Stmts))
		}
	case "vanish_while_waiting":
		// a competing holder has the table locked; while csvq waits for it the table file disappears (the
		// holder had created it and rolls back) and the lock is released: csvq obtains the lock, finds no
		// file, and must give the lock back
		dir := setup(c, "vanish")
		held := "." + c.LockOn + ".lock"
		_ = os.WriteFile(filepath.Join(dir, held), nil, 0600)
		logp := filepath.Join(home, fmt.Sprintf("points-%d.log", atomic.AddInt64(&seq, 1)))
		acted := make(chan bool, 1)
		stop := make(chan struct{})
		go func() {
			deadline := time.Now().Add(25 * time.Second)
			for time.Now().Before(deadline) {
				select {
				case <-stop:
					acted <- false
					return
				default:
				}
				b, _ := os.ReadFile(logp)
				waiting := false
				for _, ln := range strings.Split(string(b), "\n") {
					if (strings.HasPrefix(ln, "lock.check#") || strings.HasPrefix(ln, "rlock.check#")) && strings.HasSuffix(ln, c.LockOn) {
						waiting = true
					}
				}
				if waiting {
					time.Sleep(20 * time.Millisecond)
					_ = os.Remove(filepath.Join(dir, c.LockOn))
					_ = os.Remove(filepath.Join(dir, held))
					acted <- true
					return
				}
				time.Sleep(5 * time.Millisecond)
			}
			_ = os.Remove(filepath.Join(dir, held))
			acted <- false
		}()
		res := r.runOnce(dir, c, 60*time.Second, []string{"VERIF_POINT_LOG=" + logp}, "--wait-timeout", "20")
		close(stop)
		did := <-acted
		_ = os.Remove(logp)
		evals++
		if res.TimedOut {
			_ = os.RemoveAll(dir)
			return o, fw.V("hang", "run whose table vanished while it waited for the lock did not terminate\n%s", prog)
		}
		_ = os.Remove(filepath.Join(dir, held)) // in case the process ended before the watcher acted
		c2 := c
		c2.Tables = map[string]string{}
		for n, b := range c.Tables {
			if n != c.LockOn {
				c2.Tables[n] = b
			}
		}
		c2.ReadOnly = false // the harness itself removed a file
		if v := verdict(c2, dir, nil, committed, c.Ending, nil); v != nil {
			_ = os.RemoveAll(dir)
			v.Msg += "\nexit=" + fmt.Sprint(res.Code) + " stderr=" + res.Stderr + "\nprogram:\n" + prog
			return o, v
		}
		if strings.Contains(res.Stderr, "Fatal Error") || strings.Contains(res.Stderr, "panic:") {
			_ = os.RemoveAll(dir)
			return o, fw.V("fatal_on_vanished_table", "stderr: %s\n%s", res.Stderr, prog)
		}
		_ = os.RemoveAll(dir)
		if did && res.Code != 0 {
			o.Fingerprint = fmt.Sprintf("%s|ro=%v|out=%s|n=%d|code=%d", c.Ending, c.ReadOnly, c.Out, len(c.Stmts), res.Code)
		} else {
			o.Classes = append(o.Classes, "vanish_not_reached")
		}
	case "signals":
		for i, pt := range points {
			sig := sigNames[i%3]
			dir := setup(c, "sig")
			before := statAll(dir)
			res := r.run(dir, c, []string{"VERIF_SIGNAL_AT=" + pt + ":" + sig, "VERIF_SIGNAL_SETTLE_MS=15"})
			evals++
			what := "signal " + sig + " at " + strings.SplitN(pt, "#", 2)[0]
			if res.TimedOut {
				_ = os.RemoveAll(dir)
				return o, fw.V("hang:"+what, "%s (%s): process did not terminate\n%s", what, pt, prog)
			}
			if res.Signaled {
				_ = os.RemoveAll(dir)
				return o, fw.V("killed_by_signal:"+what, "%s (%s): process died of the signal instead of cleaning up\n%s", what, pt, prog)
			}
			if v := verdict(c, dir, before, committed, what, nil); v != nil {
				_ = os.RemoveAll(dir)
				v.Msg += fmt.Sprintf("\npoint=%s exit=%d stderr=%s\nprogram:\n%s", pt, res.Code, res.Stderr, prog)
				return o, v
			}
			_ = os.RemoveAll(dir)
			if strings.Contains(res.Stderr, "Fatal Error") || strings.Contains(res.Stderr, "panic:") || strings.Contains(res.Stderr, "goroutine ") {
				return o, fw.V("fatal_on_signal:"+what, "%s (%s): stderr %s\n%s", what, pt, res.Stderr, prog)
			}
			okCode := res.Code == 0 || res.Code == 8 || res.Code == 128+sigNums[sig] || res.Code == 3 || res.Code == 64 || res.Code == 70 || res.Code == 1 || res.Code == 16 || res.Code == 4
			if !okCode {
				return o, fw.V("exit_code_on_signal:"+what, "%s (%s): exit code %d\nstderr %s\n%s", what, pt, res.Code, res.Stderr, prog)
			}
			name := strings.SplitN(pt, "#", 2)[0]
			if strings.HasSuffix(name, ".ready") || name == "load.read" {
				handlerOpen = true
			}
			if name == "tx.commit.end" || name == "tx.rollback.begin" {
				handlerOpen = false
			}
			if res.Code == 128+sigNums[sig] && (handlerOpen || strings.HasPrefix(name, "h.") || strings.HasPrefix(name, "cf.") || strings.HasPrefix(name, "lock.") || strings.HasPrefix(name, "rlock.") || strings.HasPrefix(name, "tx.commit")) {
				o.More = append(o.More, fmt.Sprintf("sig|%s|%s|ro=%v", sig, name, c.ReadOnly))
			}
		}
		if len(o.More) > 0 {
			o.Fingerprint = o.More[0]
		}
	default:
		// success / error / exit: the plain run above was the run; non-trivial if a handler was opened before the end
		for _, pt := range points {
			if strings.Contains(pt, ".ready#") {
				handlerOpen = true
			}
		}
		if c.Ending != "success" && handlerOpen && res.Code != 0 {
			o.Fingerprint = fmt.Sprintf("%s|ro=%v|out=%s|code=%d|creates=%d", c.Ending, c.ReadOnly, c.Out, res.Code, len(c.Creates))
		}
		if c.Ending == "exit" && handlerOpen {
			o.Fingerprint = fmt.Sprintf("exit|ro=%v|out=%s|creates=%d|n=%d", c.ReadOnly, c.Out, len(c.Creates), len(c.Stmts))
		}
	}
	o.Evals = evals
	return o, nil
}

func TestC11Litter(t *testing.T) {
	fw.Run(t, fw.Spec[litterCase]{
		ID: "C11", Name: "litter", Quick: 320, Thorough: 6400,
		Gen: genCase, Check: checkCase,
		Rule: "generated programs (35% read-only: SELECT/JOIN/GROUP BY/cursors; else DML, CREATE TABLE, FOR UPDATE, COMMIT, ROLLBACK) x ending: success | failing statement at a drawn position | EXIT | EXIT 3 | lock timeout against a held .lock/.rlock with --wait-timeout 0.05 (or a stale .temp file) | SIGINT/SIGTERM/SIGQUIT self-delivered at EVERY verification point the plain run passes (signal kind rotates over the points), optionally with --out (empty/non-empty). Oracle after each process exit: it exited by itself; no .lock/.rlock/.temp files; a created table exists only in its committed form; an empty --out file is gone; for read-only programs every file has identical bytes, inode and mtime. evaluations = process runs; non-trivial = abnormal ending with a file handler open / a signal that terminated the run at a lib/file or commit point, distinct by (signal, point, read-only) or (ending, flags)",
		Assumptions: []string{"signal delivery 'at a moment' = the process signals itself at a hooked point and waits 15 ms so the runtime's handler has run before the next step",
			"a competing lock holder is represented by its lock file (csvq's protocol only tests for existence of these files)"},
	})
}
