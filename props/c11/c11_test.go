package c11

import (
	"fmt"
	"os"
	"path"
	"path/filepath"
	"sort"
	"strings"
	"sync/atomic"
	"syscall"
	"testing"
	"time"

	"pgregory.net/rapid"

	"verif/internal/fw"
	"verif/internal/run"
)

func TestMain(m *testing.M) { fw.Main(m) }

type litterCase struct {
	Tables   map[string]string `json:"tables"`    // file name -> bytes
	Stmts    []string          `json:"stmts"`     // program
	ReadOnly bool              `json:"read_only"` // only reading statements
	Ending   string            `json:"ending"`    // success | error | exit | exitcode | timeout_lock | timeout_rlock | signals
	Out      string            `json:"out"`       // "" | "nonempty" | "empty": use --out
	Creates  []string          `json:"creates"`   // tables created by the program
	LockOn   string            `json:"lock_on"`   // table a competing holder has locked (timeout endings)
	LongName bool              `json:"long_name"` // one table has a 236-249 byte file name (run with a short wait timeout)
	Preload  int               `json:"preload"`   // the first Preload statements are not in the program but in ./csvqrc (run before it, same transaction)

	// round 5 (sub-checks forms / places / sequences; all empty in the litter sub-check)
	Files    map[string]string `json:"files,omitempty"`     // further files of the directory that are not tables (SOURCE scripts, a pre-existing --out file)
	Args     []string          `json:"args,omitempty"`      // further command-line options (--cpu, --repository, ...)
	OutRel   string            `json:"out_rel,omitempty"`   // --out is given as this path relative to the working directory instead of an absolute one
	AlsoSig  bool              `json:"also_sig,omitempty"`  // endings error/exit/exitcode/commit_error: additionally signal at the points of that run (its clean-up included)
	SigStep  int               `json:"sig_step,omitempty"`  // signal sweeps visit the points i with i % SigStep == SigOff (0: all) and every step of a commit
	SigOff   int               `json:"sig_off,omitempty"`   //
	Seconds  []secondSig       `json:"seconds,omitempty"`   // ending signals2: pairs of signals (first self-delivered at a point, second sent from outside)
	TinyWait []string          `json:"tiny_wait,omitempty"` // ending tiny_timeout: values of --wait-timeout so small that the deadline expires inside an acquisition
}

// secondSig is one run of the ending signals2: the first signal is self-delivered at the point with index
// At*len(points)/1000 of the plain run, the second is sent by the harness DelayMs after that point was logged.
type secondSig struct {
	At      int    `json:"at"` // permille position in the list of points
	First   string `json:"first"`
	Second  string `json:"second"`
	DelayMs int    `json:"delay_ms"`
}

var cellPool = []string{"a", "b", "hello", "x y", "", "42", "3.5", "Z"}

func genTable(t *rapid.T, label string) string {
	var b strings.Builder
	b.WriteString("id,v,s\n")
	n := fw.Range(t, label+"rows", 0, 5)
	if fw.Pct(t, label+"big", 10) {
		n = fw.Range(t, label+"bigrows", 200, 400)
	}
	for i := 0; i < n; i++ {
		b.WriteString(fmt.Sprintf("%d,%d,%s\n", i+1, fw.Range(t, "v", 0, 9), fw.PickU(t, "cell", cellPool)))
	}
	return b.String()
}

var litterEndings = []string{"signals", "signals", "signals", "success", "error", "exit", "exitcode", "timeout_lock", "timeout_rlock", "timeout_temp", "vanish_while_waiting"}

func genCase(t *rapid.T) litterCase { return genCaseWith(t, litterEndings) }

// genCaseWith is the generator of the litter sub-check with the list of endings as a parameter (the sequences
// sub-check draws its programs from it with other endings).
func genCaseWith(t *rapid.T, endings []string) litterCase {
	c := litterCase{Tables: map[string]string{}}
	names := []string{"t1.csv", "t2.csv", "t3.csv"}[:fw.Range(t, "ntables", 1, 3)]
	if fw.Pct(t, "longName", 8) {
		// a table whose name is so long that ".NAME.lock"/".NAME.temp" (NAME+6 bytes) still fit the file-name
		// limit of 255 bytes while the read-lock name ".NAME.<12 random>.rlock" (NAME+20) does not: reading it
		// must fail cleanly (lock-timeout family) and leave nothing behind; updating it works
		long := strings.Repeat("n", fw.Range(t, "longLen", 232, 245)) + ".csv"
		names = append(names, long)
		c.LongName = true
	}
	for _, n := range names {
		c.Tables[n] = genTable(t, n)
	}
	c.ReadOnly = fw.Pct(t, "readonly", 35)
	c.Ending = fw.PickU(t, "ending", endings)
	ns := fw.Range(t, "nstmts", 1, 6)
	tn := func() string { return "`" + fw.PickU(t, "target", names) + "`" }
	ncreated := 0
	for i := 0; i < ns; i++ {
		if c.ReadOnly {
			switch fw.Range(t, "rkind", 0, 4) {
			case 0, 1:
				c.Stmts = append(c.Stmts, fmt.Sprintf("SELECT * FROM %s WHERE v >= %d", tn(), fw.Range(t, "k", 0, 9)))
			case 2:
				c.Stmts = append(c.Stmts, fmt.Sprintf("SELECT a.id, b.s FROM %s a JOIN %s b ON a.id = b.id", tn(), tn()))
			case 3:
				c.Stmts = append(c.Stmts, fmt.Sprintf("SELECT v, COUNT(*) FROM %s GROUP BY v ORDER BY v", tn()))
			default:
				cur := fmt.Sprintf("cur%d", i)
				c.Stmts = append(c.Stmts, fmt.Sprintf("DECLARE %s CURSOR FOR SELECT id, s FROM %s", cur, tn()),
					fmt.Sprintf("OPEN %s", cur), "VAR @a, @b", fmt.Sprintf("FETCH %s INTO @a, @b", cur), "PRINT @a", fmt.Sprintf("CLOSE %s", cur), "DISPOSE @a", "DISPOSE @b")
			}
			continue
		}
		switch fw.Range(t, "wkind", 0, 8) {
		case 0:
			c.Stmts = append(c.Stmts, fmt.Sprintf("SELECT * FROM %s", tn()))
		case 1, 2:
			c.Stmts = append(c.Stmts, fmt.Sprintf("UPDATE %s SET v = v + 1 WHERE id %% 2 = %d", tn(), fw.Range(t, "par", 0, 1)))
		case 3:
			c.Stmts = append(c.Stmts, fmt.Sprintf("INSERT INTO %s VALUES (%d, 1, 'n')", tn(), 900+i))
		case 4:
			c.Stmts = append(c.Stmts, fmt.Sprintf("DELETE FROM %s WHERE id = %d", tn(), fw.Range(t, "did", 1, 4)))
		case 5:
			if fw.Pct(t, "caseCollision", 30) {
				// a name that differs only in letter case from an existing table: a distinct file on this file
				// system, but the same key in csvq's handler container - refused with "already opened" when the
				// transaction holds the other one, created otherwise; either way nothing may be left unowned
				name := strings.ToUpper(fw.PickU(t, "collideWith", names[:min(len(names), 3)]))
				has := false
				for _, n := range c.Creates {
					has = has || n == name
				}
				if !has {
					c.Creates = append(c.Creates, name)
				}
				c.Stmts = append(c.Stmts, fmt.Sprintf("CREATE TABLE `%s` (a, b)", name))
			} else if ncreated < 2 {
				ncreated++
				name := fmt.Sprintf("new%d.csv", ncreated)
				c.Creates = append(c.Creates, name)
				c.Stmts = append(c.Stmts, fmt.Sprintf("CREATE TABLE `%s` (a, b)", name), fmt.Sprintf("INSERT INTO `%s` VALUES (1, 'x')", name))
			}
		case 6:
			c.Stmts = append(c.Stmts, fmt.Sprintf("SELECT * FROM %s FOR UPDATE", tn()))
		case 7:
			c.Stmts = append(c.Stmts, "COMMIT")
		default:
			c.Stmts = append(c.Stmts, "ROLLBACK")
		}
	}
	if len(c.Stmts) == 0 {
		c.Stmts = append(c.Stmts, fmt.Sprintf("SELECT * FROM %s", tn()))
	}
	switch c.Ending {
	case "error":
		pos := fw.Range(t, "errpos", 0, len(c.Stmts))
		bad := fw.PickU(t, "bad", []string{"SELECT 1 / 0", "SELECT * FROM `nosuch.csv`", "SELECT nocolumn FROM `t1.csv`", "TRIGGER ERROR 70 'boom'", "INSERT INTO `t1.csv` VALUES (1)", "CREATE TABLE `T1.CSV` (a, b)"})
		if strings.HasPrefix(bad, "CREATE") {
			if c.ReadOnly {
				bad = "SELECT 1 / 0"
			} else {
				has := false
				for _, n := range c.Creates {
					has = has || n == "T1.CSV"
				}
				if !has {
					c.Creates = append(c.Creates, "T1.CSV")
				}
			}
		}
		c.Stmts = append(c.Stmts[:pos], append([]string{bad}, c.Stmts[pos:]...)...)
	case "exit":
		pos := fw.Range(t, "exitpos", 0, len(c.Stmts))
		c.Stmts = append(c.Stmts[:pos], append([]string{"EXIT"}, c.Stmts[pos:]...)...)
	case "exitcode":
		pos := fw.Range(t, "exitpos", 0, len(c.Stmts))
		c.Stmts = append(c.Stmts[:pos], append([]string{"EXIT 3"}, c.Stmts[pos:]...)...)
	case "timeout_lock", "timeout_rlock", "timeout_temp", "vanish_while_waiting":
		c.LockOn = fw.PickU(t, "lockon", names)
	}
	if fw.Pct(t, "out", 25) {
		c.Out = fw.PickU(t, "outkind", []string{"nonempty", "empty"})
		if c.Out == "empty" {
			// no SELECT output at all: only DML / declarations
			var kept []string
			for _, s := range c.Stmts {
				if !strings.HasPrefix(s, "SELECT") && !strings.HasPrefix(s, "PRINT") {
					kept = append(kept, s)
				}
			}
			if len(kept) == 0 {
				kept = []string{"VAR @z := 1"}
			}
			c.Stmts = kept
		}
	}
	if !c.LongName && !strings.HasPrefix(c.Ending, "timeout_") && c.Ending != "vanish_while_waiting" && fw.Pct(t, "preload", 22) {
		// csvq executes the statements of a csvqrc file (here: the one in the current directory) before the
		// program, in the same transaction and before the command-line flags are applied; an EXIT there would
		// not end the run, so only statements in front of the first EXIT are moved
		max := len(c.Stmts) - 1
		for i, st := range c.Stmts {
			if strings.HasPrefix(st, "EXIT") && i < max {
				max = i
			}
		}
		if max >= 1 {
			c.Preload = fw.Range(t, "preloadN", 1, max)
		}
	}
	return c
}

const rcName = "csvqrc"

// writeCase writes the tables and, for preload cases, the csvqrc file of the current directory.
func writeCase(dir string, c litterCase) {
	_ = run.WriteFiles(dir, c.Tables)
	_ = run.WriteFiles(dir, c.Files)
	old := time.Now().Add(-time.Hour)
	for n := range c.Tables {
		_ = os.Chtimes(filepath.Join(dir, n), old, old)
	}
	for n := range c.Files {
		_ = os.Chtimes(filepath.Join(dir, n), old, old)
	}
	if c.Preload > 0 {
		_ = os.WriteFile(filepath.Join(dir, rcName), []byte(strings.Join(c.Stmts[:c.Preload], ";\n")+";\n"), 0644)
		_ = os.Chtimes(filepath.Join(dir, rcName), old, old)
	}
}

var seq int64

type fileID struct {
	ino   uint64
	mtime time.Time
	bytes string
}

func statAll(dir string) map[string]fileID {
	// the whole tree below dir: keys are slash-separated paths relative to dir
	out := map[string]fileID{}
	_ = filepath.Walk(dir, func(p string, fi os.FileInfo, err error) error {
		if err != nil || fi.IsDir() {
			return nil
		}
		rel, e := filepath.Rel(dir, p)
		if e != nil {
			return nil
		}
		b, _ := os.ReadFile(p)
		id := fileID{mtime: fi.ModTime(), bytes: string(b)}
		if st, ok := fi.Sys().(*syscall.Stat_t); ok {
			id.ino = st.Ino
		}
		out[filepath.ToSlash(rel)] = id
		return nil
	})
	return out
}

// isControl: the name (a path relative to the case directory) is a lock, read-lock or temp file of csvq.
func isControl(n string) bool {
	b := path.Base(n)
	return strings.HasPrefix(b, ".") && (strings.HasSuffix(b, ".lock") || strings.HasSuffix(b, ".rlock") || strings.HasSuffix(b, ".temp"))
}

// ctl is the control file of a table (both as paths relative to the case directory): ".NAME<suffix>" next to it.
func ctl(table string, suffix string) string {
	return path.Join(path.Dir(table), "."+path.Base(table)+suffix)
}

// outKey is the --out file as a path relative to the case directory.
func outKey(c litterCase) string {
	if c.OutRel != "" {
		return path.Clean(c.OutRel)
	}
	return "result.out"
}

// hasTxControl: the program contains an explicit COMMIT or ROLLBACK (possibly inside a block or a prepared text).
func hasTxControl(c litterCase) bool {
	for _, st := range c.Stmts {
		if strings.Contains(st, "COMMIT") || strings.Contains(st, "ROLLBACK") {
			return true
		}
	}
	return false
}

// mustBeAbsent lists the created tables that cannot have been committed by an uninterrupted run that ended with
// the given exit status: the run did not reach the automatic commit at the end of the program (a failing
// statement; EXIT, which "terminates the executing procedure without commit"), and no COMMIT stands at or after
// the statement that creates the table. Generated blocks (IF 1 = 1, WHILE that runs once, function bodies,
// prepared and sourced texts) always execute their bodies, so the textual order is the execution order.
func mustBeAbsent(c litterCase, code int) []string {
	exits := false
	for _, st := range c.Stmts {
		exits = exits || strings.Contains(st, "EXIT")
	}
	if code == 0 && !exits {
		return nil
	}
	var out []string
	for _, n := range c.Creates {
		first := -1
		for i, st := range c.Stmts {
			if first < 0 && strings.Contains(st, "CREATE TABLE") && (strings.Contains(st, "`"+path.Base(n)+"`") || strings.Contains(st, "/"+path.Base(n)+"`")) {
				first = i
			}
		}
		if first < 0 {
			continue
		}
		later := false
		for i := first; i < len(c.Stmts); i++ {
			later = later || strings.Contains(c.Stmts[i], "COMMIT")
		}
		if !later {
			out = append(out, n)
		}
	}
	return out
}

type runner struct {
	bin  string
	home string
}

// run executes the program; a watchdog hit counts only if it repeats on an
// immediate re-run (directory restored first) with a four times longer limit.
var lastRetried bool // the directory was restored for a watchdog re-run: inodes/mtimes of the first snapshot are stale

func (r runner) run(dir string, c litterCase, env []string, extraArgs ...string) run.CLIRes {
	lastRetried = false
	res := r.runOnce(dir, c, 30*time.Second, env, extraArgs...)
	if res.TimedOut {
		lastRetried = true
		fw.AddExtra("watchdog_retries", 1)
		keep := map[string][]byte{}
		for n := range statAll(dir) {
			if _, isTable := c.Tables[n]; !isTable && len(c.LockOn) > 0 && strings.HasPrefix(n, ctl(c.LockOn, "")) {
				keep[n] = nil
			}
		}
		ents, _ := os.ReadDir(dir)
		for _, e := range ents {
			_ = os.RemoveAll(filepath.Join(dir, e.Name()))
		}
		writeCase(dir, c)
		for n := range keep {
			_ = os.WriteFile(filepath.Join(dir, n), nil, 0600)
		}
		res = r.runOnce(dir, c, 120*time.Second, env, extraArgs...)
	}
	return res
}

func (r runner) runOnce(dir string, c litterCase, to time.Duration, env []string, extraArgs ...string) run.CLIRes {
	src := filepath.Join(r.home, fmt.Sprintf("prog-%d.sql", atomic.AddInt64(&seq, 1)))
	_ = os.WriteFile(src, []byte(strings.Join(c.Stmts[c.Preload:], ";\n")+";\n"), 0644)
	defer os.Remove(src)
	args := []string{"-q", "-s", src}
	if c.Out != "" {
		if c.OutRel != "" {
			args = append(args, "--out", c.OutRel)
		} else {
			args = append(args, "--out", filepath.Join(dir, "result.out"))
		}
	}
	args = append(args, c.Args...)
	args = append(args, extraArgs...)
	if c.LongName && len(extraArgs) == 0 {
		args = append(args, "--wait-timeout", "0.2")
	}
	return run.CLI(run.CLIOpt{Bin: r.bin, Dir: dir, Home: r.home, Args: args, Env: env, Timeout: to})
}

func setup(c litterCase, tag string) string {
	dir := filepath.Join(fw.WorkDir(), fmt.Sprintf("c11-%d-%s", atomic.AddInt64(&seq, 1), tag))
	_ = os.RemoveAll(dir)
	_ = os.MkdirAll(dir, 0755)
	// files are aged so that a rewrite is visible in mtime
	writeCase(dir, c)
	return dir
}

// verdict inspects the directory after a run.
func verdict(c litterCase, dir string, before map[string]fileID, committed map[string]string, what string, allowed map[string]bool) *fw.Violation {
	after := statAll(dir)
	var litter []string
	for n := range after {
		if allowed[n] {
			continue
		}
		if isControl(n) {
			litter = append(litter, n)
		}
	}
	sort.Strings(litter)
	if len(litter) > 0 {
		return fw.V("control_files_left:"+what, "%s: control files left behind: %v", what, litter)
	}
	for _, n := range c.Creates {
		if id, ok := after[n]; ok {
			want, wasCommitted := committed[n]
			if !wasCommitted || id.bytes != want {
				return fw.V("uncommitted_created_table_left:"+what, "%s: created table %s exists with %q although its creation was not committed (committed form: %q)", what, n, id.bytes, want)
			}
		}
	}
	// a created table may only stay if its transaction was committed: in a program without explicit
	// COMMIT/ROLLBACK there is exactly one (automatic) commit, so a surviving created table implies that
	// every existing table shows its committed contents too
	single := !hasTxControl(c)
	if single && before != nil {
		for _, n := range c.Creates {
			if _, ok := after[n]; !ok {
				continue
			}
			for tn := range c.Tables {
				want, okc := committed[tn]
				if a, ok := after[tn]; ok && okc && a.bytes != want && a.bytes == before[tn].bytes {
					return fw.V("created_table_kept_without_commit:"+what, "%s: created table %s was kept although the transaction was not committed (table %s still has its old contents)", what, n, tn)
				}
			}
		}
	}
	if id, ok := after[outKey(c)]; ok && len(id.bytes) == 0 && c.Out != "exists" {
		return fw.V("empty_out_file_left:"+what, "%s: empty --out file was not removed", what)
	}
	for n := range c.Tables {
		if _, ok := after[n]; !ok {
			return fw.V("table_vanished:"+what, "%s: table %s no longer exists", what, n)
		}
	}
	if c.ReadOnly {
		for n, b := range before {
			a, ok := after[n]
			if !ok || a.bytes != b.bytes || (!lastRetried && (a.ino != b.ino || !a.mtime.Equal(b.mtime))) {
				return fw.V("read_only_program_modified_file:"+what, "%s: read-only program changed %s (bytes equal: %v, inode %d->%d, mtime %v->%v)", what, n, ok && a.bytes == b.bytes, b.ino, a.ino, b.mtime, a.mtime)
			}
		}
		for n := range after {
			if _, ok := before[n]; !ok && n != outKey(c) && !allowed[n] {
				return fw.V("read_only_program_created_file:"+what, "%s: read-only program created %s", what, n)
			}
		}
	}
	return nil
}

var sigNames = []string{"INT", "TERM", "QUIT"}
var sigNums = map[string]int{"INT": 2, "TERM": 15, "QUIT": 3}
var sigVals = map[string]syscall.Signal{"INT": syscall.SIGINT, "TERM": syscall.SIGTERM, "QUIT": syscall.SIGQUIT}

// point is one line of the point log: the key "name#k" and the file the step works on.
type point struct {
	key  string
	path string
}

func (p point) name() string { return strings.SplitN(p.key, "#", 2)[0] }

// ext is the format of the file of a point when it is not CSV (fingerprints stay as they were for CSV tables).
func (p point) ext() string {
	e := strings.TrimPrefix(path.Ext(strings.TrimSuffix(strings.TrimSuffix(strings.TrimSuffix(p.path, ".lock"), ".temp"), ".rlock")), ".")
	if e == "csv" || e == "" || len(e) > 5 {
		return ""
	}
	return "|" + e
}

func readPoints(logp string) []point {
	logb, _ := os.ReadFile(logp)
	var points []point
	for _, ln := range strings.Split(strings.TrimSpace(string(logb)), "\n") {
		f := strings.SplitN(ln, "\t", 2)
		if f[0] != "" {
			pt := point{key: f[0]}
			if len(f) > 1 {
				pt.path = f[1]
			}
			points = append(points, pt)
		}
	}
	return points
}

func fatalText(stderr string) bool {
	return strings.Contains(stderr, "Fatal Error") || strings.Contains(stderr, "panic:") || strings.Contains(stderr, "goroutine ")
}

func okSignalCode(code int, sigs ...string) bool {
	for _, s := range sigs {
		if code == 128+sigNums[s] {
			return true
		}
	}
	return code == 0 || code == 8 || code == 3 || code == 64 || code == 70 || code == 1 || code == 16 || code == 4
}

func checkCase(c litterCase) (fw.Outcome, *fw.Violation) {
	o := fw.Outcome{Classes: []string{"ending=" + c.Ending, fmt.Sprintf("readonly=%v", c.ReadOnly), "out=" + c.Out}}
	if c.Preload > 0 {
		o.Classes = append(o.Classes, "preload_csvqrc")
	}
	if c.LongName {
		o.Classes = append(o.Classes, "long_table_name")
	}
	if c.AlsoSig {
		o.Classes = append(o.Classes, "also_signals_after_"+c.Ending)
	}
	if c.OutRel != "" {
		o.Classes = append(o.Classes, "out_relative")
	}
	for _, a := range c.Args {
		if strings.HasPrefix(a, "--") {
			o.Classes = append(o.Classes, "option"+a)
		}
	}
	fmts := map[string]bool{}
	for n := range c.Tables {
		if e := path.Ext(n); e != ".csv" {
			fmts[e] = true
		}
	}
	for _, n := range c.Creates {
		if e := strings.ToLower(path.Ext(n)); e != ".csv" {
			fmts["created"+e] = true
		}
	}
	for e := range fmts {
		o.Classes = append(o.Classes, "format="+e)
	}
	for _, kw := range []string{"CHDIR", "SET @@REPOSITORY", "SOURCE", "PREPARE", "EXECUTE \"", "FUNCTION", "WHILE", "IF 1 = 1", "ALTER TABLE", "REPLACE INTO", "AS SELECT", "IF NOT EXISTS"} {
		for _, st := range c.Stmts {
			if strings.Contains(st, kw) {
				o.Classes = append(o.Classes, "stmt:"+strings.TrimSuffix(kw, " \""))
				break
			}
		}
	}
	bin, err := run.Binary(fw.WorkDir(), false)
	if err != nil {
		return o, fw.Harness("%v", err)
	}
	home := filepath.Join(fw.WorkDir(), "clihome")
	_ = os.MkdirAll(home, 0755)
	r := runner{bin: bin, home: home}
	prog := strings.Join(c.Stmts, ";\n") + ";"
	if c.Preload > 0 {
		prog = fmt.Sprintf("-- the first %d statement(s) are in ./csvqrc (preload), the rest is the program\n", c.Preload) + prog
	}
	if len(c.Args) > 0 {
		prog = "-- options: " + strings.Join(c.Args, " ") + "\n" + prog
	}

	// reference run without interference: committed contents of created tables, list of points
	dir := setup(c, "ref")
	before := statAll(dir)
	logp := filepath.Join(home, fmt.Sprintf("points-%d.log", atomic.AddInt64(&seq, 1)))
	res := r.run(dir, c, []string{"VERIF_POINT_LOG=" + logp})
	points := readPoints(logp)
	_ = os.Remove(logp)
	committed := map[string]string{}
	for n, id := range statAll(dir) {
		committed[n] = id.bytes
	}
	if res.TimedOut {
		_ = os.RemoveAll(dir)
		return o, fw.V("hang", "plain run did not terminate\n%s", prog)
	}
	if v := verdict(c, dir, before, committed, c.Ending+"/plain", nil); v != nil && !strings.HasPrefix(c.Ending, "timeout_") {
		_ = os.RemoveAll(dir)
		v.Msg += "\nexit=" + fmt.Sprint(res.Code) + " stderr=" + res.Stderr + "\nprogram:\n" + prog
		return o, v
	}
	// the uninterrupted run judged without a reference: a run that did not reach a commit keeps no created table
	gone := mustBeAbsent(c, res.Code)
	for _, n := range gone {
		if id, ok := committed[n]; ok {
			_ = os.RemoveAll(dir)
			return o, fw.V("created_table_survives_uncommitted_run:"+c.Ending, "the run ended with exit status %d without a COMMIT after the creation of %s, yet the file exists (%q)\nstderr=%s\nprogram:\n%s", res.Code, n, id, res.Stderr, prog)
		}
	}
	if len(gone) > 0 {
		o.Classes = append(o.Classes, "created_then_not_committed")
	}
	_ = os.RemoveAll(dir)
	switch c.Ending {
	case "success":
		if res.Code != 0 {
			o.Classes = append(o.Classes, "success_program_failed")
		}
	case "error":
		if res.Code == 0 {
			o.Classes = append(o.Classes, "error_not_reached")
		}
	case "exitcode":
		if res.Code != 3 && res.Code != 0 {
			// an earlier statement may fail first; only EXIT 3 itself is asserted
			o.Classes = append(o.Classes, "exitcode_other")
		}
	case "commit_error":
		if res.Code == 16 && strings.Contains(res.Stderr, "failed to commit") {
			o.Classes = append(o.Classes, "commit_refused")
		} else {
			o.Classes = append(o.Classes, "commit_error_not_reached")
		}
	}
	o.Classes = append(o.Classes, fmt.Sprintf("plain_run_exit=%d", res.Code))
	evals := 1
	handlerOpen := false

	// sweep: one run per visited point of the plain run, with a signal self-delivered there
	sweep := func(tag string) *fw.Violation {
		for i, pt := range points {
			if c.SigStep > 1 && i%c.SigStep != c.SigOff%c.SigStep && !strings.HasPrefix(pt.name(), "tx.commit") {
				// the open/closed bookkeeping follows every point, visited or not
				if strings.HasSuffix(pt.name(), ".ready") || pt.name() == "load.read" {
					handlerOpen = true
				}
				if pt.name() == "tx.commit.end" || pt.name() == "tx.rollback.begin" {
					handlerOpen = false
				}
				continue
			}
			sig := sigNames[i%3]
			dir := setup(c, "sig")
			before := statAll(dir)
			res := r.run(dir, c, []string{"VERIF_SIGNAL_AT=" + pt.key + ":" + sig, "VERIF_SIGNAL_SETTLE_MS=15"})
			evals++
			what := "signal " + sig + " at " + pt.name()
			if tag != "" {
				what = tag + ", " + what
			}
			if res.TimedOut {
				_ = os.RemoveAll(dir)
				return fw.V("hang:"+what, "%s (%s): process did not terminate\n%s", what, pt.key, prog)
			}
			if res.Signaled {
				_ = os.RemoveAll(dir)
				return fw.V("killed_by_signal:"+what, "%s (%s): process died of the signal instead of cleaning up\n%s", what, pt.key, prog)
			}
			if v := verdict(c, dir, before, committed, what, nil); v != nil {
				_ = os.RemoveAll(dir)
				v.Msg += fmt.Sprintf("\npoint=%s exit=%d stderr=%s\nprogram:\n%s", pt.key, res.Code, res.Stderr, prog)
				return v
			}
			_ = os.RemoveAll(dir)
			if fatalText(res.Stderr) {
				return fw.V("fatal_on_signal:"+what, "%s (%s): stderr %s\n%s", what, pt.key, res.Stderr, prog)
			}
			if !okSignalCode(res.Code, sig) {
				return fw.V("exit_code_on_signal:"+what, "%s (%s): exit code %d\nstderr %s\n%s", what, pt.key, res.Code, res.Stderr, prog)
			}
			name := pt.name()
			if strings.HasSuffix(name, ".ready") || name == "load.read" {
				handlerOpen = true
			}
			if name == "tx.commit.end" || name == "tx.rollback.begin" {
				handlerOpen = false
			}
			atFile := strings.HasPrefix(name, "h.") || strings.HasPrefix(name, "cf.") || strings.HasPrefix(name, "lock.") || strings.HasPrefix(name, "rlock.") || strings.HasPrefix(name, "tx.commit")
			if tag == "" {
				if res.Code == 128+sigNums[sig] && (handlerOpen || atFile) {
					o.More = append(o.More, fmt.Sprintf("sig|%s|%s|ro=%v%s", sig, name, c.ReadOnly, pt.ext()))
				}
			} else if atFile || strings.HasPrefix(name, "tx.rollback") {
				// a signal on top of another ending: non-trivial at the file steps, whichever of the two decides the exit status
				o.More = append(o.More, fmt.Sprintf("%s+sig|%s|%s|ro=%v|signal_decides=%v%s", c.Ending, sig, name, c.ReadOnly, res.Code == 128+sigNums[sig], pt.ext()))
			}
		}
		return nil
	}

	switch c.Ending {
	case "timeout_lock", "timeout_rlock", "timeout_temp", "timeout_flock_ex", "timeout_flock_sh":
		dir := setup(c, "to")
		held := ctl(c.LockOn, ".lock")
		if c.Ending == "timeout_rlock" {
			held = ctl(c.LockOn, ".AbCdEfGhIjKl.rlock")
		}
		if c.Ending == "timeout_temp" {
			held = ctl(c.LockOn, ".temp")
		}
		allowed := map[string]bool{held: true}
		var res run.CLIRes
		if strings.HasPrefix(c.Ending, "timeout_flock") {
			// the competing holder has no control file (it is not a csvq, or it is a csvq between two steps) but holds
			// the advisory lock of the table file itself: csvq obtains its control files and then cannot lock the file
			held, allowed = "", nil
			fp, e := os.OpenFile(filepath.Join(dir, c.LockOn), os.O_RDWR, 0)
			if e != nil {
				_ = os.RemoveAll(dir)
				return o, fw.Harness("open for flock: %v", e)
			}
			how := syscall.LOCK_EX
			if c.Ending == "timeout_flock_sh" {
				how = syscall.LOCK_SH
			}
			if e := syscall.Flock(int(fp.Fd()), how|syscall.LOCK_NB); e != nil {
				_ = fp.Close()
				_ = os.RemoveAll(dir)
				return o, fw.Harness("flock: %v", e)
			}
			before := statAll(dir)
			lastRetried = false
			res = r.runOnce(dir, c, 120*time.Second, nil, "--wait-timeout", "0.05")
			_ = syscall.Flock(int(fp.Fd()), syscall.LOCK_UN)
			_ = fp.Close()
			evals++
			if res.TimedOut {
				_ = os.RemoveAll(dir)
				return o, fw.V("hang", "run against a table whose file is locked (flock) did not terminate\n%s", prog)
			}
			if v := verdict(c, dir, before, committed, c.Ending, nil); v != nil {
				_ = os.RemoveAll(dir)
				v.Msg += "\nexit=" + fmt.Sprint(res.Code) + " stderr=" + res.Stderr + "\nprogram:\n" + prog
				return o, v
			}
		} else {
			_ = os.WriteFile(filepath.Join(dir, held), nil, 0600)
			before := statAll(dir)
			delete(before, held)
			res = r.run(dir, c, nil, "--wait-timeout", "0.05")
			evals++
			if res.TimedOut {
				_ = os.RemoveAll(dir)
				return o, fw.V("hang", "run against a held lock did not terminate\n%s", prog)
			}
			if v := verdict(c, dir, before, committed, c.Ending, allowed); v != nil {
				_ = os.RemoveAll(dir)
				v.Msg += "\nexit=" + fmt.Sprint(res.Code) + " stderr=" + res.Stderr + "\nprogram:\n" + prog
				return o, v
			}
		}
		if strings.Contains(res.Stderr, "Fatal Error") || strings.Contains(res.Stderr, "panic:") {
			_ = os.RemoveAll(dir)
			return o, fw.V("fatal_on_lock_timeout", "stderr: %s\n%s", res.Stderr, prog)
		}
		_ = os.RemoveAll(dir)
		if res.Code == 8 {
			o.Fingerprint = fmt.Sprintf("%s|ro=%v|out=%s|n=%d", c.Ending, c.ReadOnly, c.Out, len(c.Stmts))
			if e := path.Ext(c.LockOn); e != ".csv" {
				o.Fingerprint += "|" + e
			}
		}
	case "tiny_timeout":
		// no competitor at all: the wait timeout is so short that the deadline passes somewhere inside an
		// acquisition (lock taken, file not yet opened; file opened, temp file not yet created; ...)
		for _, w := range c.TinyWait {
			dir := setup(c, "tiny")
			before := statAll(dir)
			logp := filepath.Join(home, fmt.Sprintf("points-%d.log", atomic.AddInt64(&seq, 1)))
			res := r.run(dir, c, []string{"VERIF_POINT_LOG=" + logp}, "--wait-timeout", w)
			pts := readPoints(logp)
			_ = os.Remove(logp)
			evals++
			if res.TimedOut {
				_ = os.RemoveAll(dir)
				return o, fw.V("hang", "run with --wait-timeout %s did not terminate\n%s", w, prog)
			}
			if v := verdict(c, dir, before, committed, c.Ending, nil); v != nil {
				_ = os.RemoveAll(dir)
				v.Msg += fmt.Sprintf("\n--wait-timeout %s exit=%d stderr=%s\nprogram:\n%s", w, res.Code, res.Stderr, prog)
				return o, v
			}
			_ = os.RemoveAll(dir)
			if fatalText(res.Stderr) {
				return o, fw.V("fatal_on_lock_timeout", "--wait-timeout %s: stderr: %s\n%s", w, res.Stderr, prog)
			}
			if res.Code == 8 {
				// where the deadline struck: the last acquisition step the run began
				last := "none"
				for _, pt := range pts {
					n := pt.name()
					if strings.HasPrefix(n, "h.") && !strings.HasPrefix(n, "h.close") || strings.HasPrefix(n, "lock.") || strings.HasPrefix(n, "rlock.") || strings.HasPrefix(n, "temp.") {
						last = n
					}
				}
				o.More = append(o.More, fmt.Sprintf("tiny|%s|ro=%v", last, c.ReadOnly))
			} else {
				o.Classes = append(o.Classes, "tiny_timeout_not_struck")
			}
		}
		if len(o.More) > 0 {
			o.Fingerprint = o.More[0]
		}
	case "vanish_while_waiting":
		// a competing holder has the table locked; while csvq waits for it the table file disappears (the
		// holder had created it and rolls back) and the lock is released: csvq obtains the lock, finds no
		// file, and must give the lock back
		dir := setup(c, "vanish")
		held := ctl(c.LockOn, ".lock")
		_ = os.WriteFile(filepath.Join(dir, held), nil, 0600)
		logp := filepath.Join(home, fmt.Sprintf("points-%d.log", atomic.AddInt64(&seq, 1)))
		acted := make(chan bool, 1)
		stop := make(chan struct{})
		go func() {
			deadline := time.Now().Add(25 * time.Second)
			for time.Now().Before(deadline) {
				select {
				case <-stop:
					acted <- false
					return
				default:
				}
				b, _ := os.ReadFile(logp)
				waiting := false
				for _, ln := range strings.Split(string(b), "\n") {
					if (strings.HasPrefix(ln, "lock.check#") || strings.HasPrefix(ln, "rlock.check#")) && strings.HasSuffix(ln, c.LockOn) {
						waiting = true
					}
				}
				if waiting {
					time.Sleep(20 * time.Millisecond)
					_ = os.Remove(filepath.Join(dir, c.LockOn))
					_ = os.Remove(filepath.Join(dir, held))
					acted <- true
					return
				}
				time.Sleep(5 * time.Millisecond)
			}
			_ = os.Remove(filepath.Join(dir, held))
			acted <- false
		}()
		res := r.runOnce(dir, c, 60*time.Second, []string{"VERIF_POINT_LOG=" + logp}, "--wait-timeout", "20")
		close(stop)
		did := <-acted
		_ = os.Remove(logp)
		evals++
		if res.TimedOut {
			_ = os.RemoveAll(dir)
			return o, fw.V("hang", "run whose table vanished while it waited for the lock did not terminate\n%s", prog)
		}
		_ = os.Remove(filepath.Join(dir, held)) // in case the process ended before the watcher acted
		c2 := c
		c2.Tables = map[string]string{}
		for n, b := range c.Tables {
			if n != c.LockOn {
				c2.Tables[n] = b
			}
		}
		c2.ReadOnly = false // the harness itself removed a file
		if v := verdict(c2, dir, nil, committed, c.Ending, nil); v != nil {
			_ = os.RemoveAll(dir)
			v.Msg += "\nexit=" + fmt.Sprint(res.Code) + " stderr=" + res.Stderr + "\nprogram:\n" + prog
			return o, v
		}
		if strings.Contains(res.Stderr, "Fatal Error") || strings.Contains(res.Stderr, "panic:") {
			_ = os.RemoveAll(dir)
			return o, fw.V("fatal_on_vanished_table", "stderr: %s\n%s", res.Stderr, prog)
		}
		_ = os.RemoveAll(dir)
		if did && res.Code != 0 {
			o.Fingerprint = fmt.Sprintf("%s|ro=%v|out=%s|n=%d|code=%d", c.Ending, c.ReadOnly, c.Out, len(c.Stmts), res.Code)
		} else {
			o.Classes = append(o.Classes, "vanish_not_reached")
		}
	case "signals":
		if v := sweep(""); v != nil {
			return o, v
		}
		if len(o.More) > 0 {
			o.Fingerprint = o.More[0]
		}
	case "signals2":
		// two signals: the first self-delivered at a point, the second sent from outside a drawn time after
		// that point was logged (the process rests 15 ms at the point, then cleans up: the second signal falls
		// before, into, or after the clean-up that the first one started)
		for _, s2 := range c.Seconds {
			if len(points) == 0 {
				break
			}
			pt := points[(s2.At*len(points)/1000)%len(points)]
			dir := setup(c, "sig2")
			before := statAll(dir)
			res, sent := r.runSecond(dir, c, pt.key, s2)
			evals++
			what := "second signal"
			detail := fmt.Sprintf("%s at %s, then %s from outside %d ms later", s2.First, pt.key, s2.Second, s2.DelayMs)
			if res.TimedOut {
				_ = os.RemoveAll(dir)
				return o, fw.V("hang:"+what, "%s: process did not terminate\n%s", detail, prog)
			}
			if res.Signaled {
				v := verdict(c, dir, before, committed, what, nil)
				_ = os.RemoveAll(dir)
				left := ""
				if v != nil {
					left = "; " + v.Msg
				}
				return o, fw.V("killed_by_signal:"+what, "%s: process died of signal %v instead of cleaning up%s\n%s", detail, res.Signal, left, prog)
			}
			if v := verdict(c, dir, before, committed, what, nil); v != nil {
				_ = os.RemoveAll(dir)
				v.Msg += fmt.Sprintf("\n%s exit=%d stderr=%s\nprogram:\n%s", detail, res.Code, res.Stderr, prog)
				return o, v
			}
			_ = os.RemoveAll(dir)
			if fatalText(res.Stderr) {
				return o, fw.V("fatal_on_signal:"+what, "%s: stderr %s\n%s", detail, res.Stderr, prog)
			}
			if !okSignalCode(res.Code, s2.First, s2.Second) {
				return o, fw.V("exit_code_on_signal:"+what, "%s: exit code %d\nstderr %s\n%s", detail, res.Code, res.Stderr, prog)
			}
			if sent {
				o.Classes = append(o.Classes, "second_signal_sent_to_live_process")
				if res.Code == 128+sigNums[s2.First] || res.Code == 128+sigNums[s2.Second] {
					o.More = append(o.More, fmt.Sprintf("sig2|%s|%s|%s|ro=%v", s2.First, s2.Second, pt.name(), c.ReadOnly))
				}
			} else {
				o.Classes = append(o.Classes, "second_signal_too_late")
			}
		}
		if len(o.More) > 0 {
			o.Fingerprint = o.More[0]
		}
	default:
		// success / error / exit / commit_error: the plain run above was the run; non-trivial if a handler was opened before the end
		for _, pt := range points {
			if strings.Contains(pt.key, ".ready#") {
				handlerOpen = true
			}
		}
		if c.Ending != "success" && handlerOpen && res.Code != 0 {
			o.Fingerprint = fmt.Sprintf("%s|ro=%v|out=%s|code=%d|creates=%d", c.Ending, c.ReadOnly, c.Out, res.Code, len(c.Creates))
		}
		if c.Ending == "exit" && handlerOpen {
			o.Fingerprint = fmt.Sprintf("exit|ro=%v|out=%s|creates=%d|n=%d", c.ReadOnly, c.Out, len(c.Creates), len(c.Stmts))
		}
		if c.AlsoSig {
			handlerOpen = false
			if v := sweep("after " + c.Ending); v != nil {
				return o, v
			}
			if o.Fingerprint == "" && len(o.More) > 0 {
				o.Fingerprint = o.More[0]
			}
		}
	}
	o.Evals = evals
	return o, nil
}

// runSecond runs the program with the first signal self-delivered at the point key and sends the second one from
// outside DelayMs after the line of that point appeared in the point log. sent: the signal call succeeded, i.e. the
// process had not been reaped yet.
func (r runner) runSecond(dir string, c litterCase, key string, s2 secondSig) (run.CLIRes, bool) {
	lastRetried = false
	src := filepath.Join(r.home, fmt.Sprintf("prog-%d.sql", atomic.AddInt64(&seq, 1)))
	_ = os.WriteFile(src, []byte(strings.Join(c.Stmts[c.Preload:], ";\n")+";\n"), 0644)
	defer os.Remove(src)
	logp := filepath.Join(r.home, fmt.Sprintf("points-%d.log", atomic.AddInt64(&seq, 1)))
	defer os.Remove(logp)
	args := []string{"-q", "-s", src}
	if c.Out != "" {
		if c.OutRel != "" {
			args = append(args, "--out", c.OutRel)
		} else {
			args = append(args, "--out", filepath.Join(dir, "result.out"))
		}
	}
	args = append(args, c.Args...)
	if c.LongName {
		args = append(args, "--wait-timeout", "0.2")
	}
	stop := make(chan struct{})
	sent := make(chan bool, 1)
	watching := false
	started := func(p *os.Process) {
		watching = true
		go func() {
			for {
				select {
				case <-stop:
					sent <- false
					return
				default:
				}
				b, _ := os.ReadFile(logp)
				if strings.Contains("\n"+string(b), "\n"+key+"\t") {
					time.Sleep(time.Duration(s2.DelayMs) * time.Millisecond)
					sent <- p.Signal(sigVals[s2.Second]) == nil
					return
				}
				time.Sleep(300 * time.Microsecond)
			}
		}()
	}
	res := run.CLI(run.CLIOpt{Bin: r.bin, Dir: dir, Home: r.home, Args: args, Timeout: 120 * time.Second, OnStart: started,
		Env: []string{"VERIF_POINT_LOG=" + logp, "VERIF_SIGNAL_AT=" + key + ":" + s2.First, "VERIF_SIGNAL_SETTLE_MS=15"}})
	close(stop)
	if !watching {
		return res, false
	}
	return res, <-sent
}

func TestC11Litter(t *testing.T) {
	fw.Run(t, fw.Spec[litterCase]{
		ID: "C11", Name: "litter", Quick: 320, Thorough: 4400,
		Gen: genCase, Check: checkCase,
		Rule: "generated programs (35% read-only: SELECT/JOIN/GROUP BY/cursors; else DML, CREATE TABLE, FOR UPDATE, COMMIT, ROLLBACK) x ending: success | failing statement at a drawn position | EXIT | EXIT 3 | lock timeout against a held .lock/.rlock with --wait-timeout 0.05 (or a stale .temp file) | SIGINT/SIGTERM/SIGQUIT self-delivered at EVERY verification point the plain run passes (signal kind rotates over the points), optionally with --out (empty/non-empty). Oracle after each process exit: it exited by itself; no .lock/.rlock/.temp files; a created table exists only in its committed form; an empty --out file is gone; for read-only programs every file has identical bytes, inode and mtime. evaluations = process runs; non-trivial = abnormal ending with a file handler open / a signal that terminated the run at a lib/file or commit point, distinct by (signal, point, read-only) or (ending, flags)",
		Assumptions: []string{"signal delivery 'at a moment' = the process signals itself at a hooked point and waits 15 ms so the runtime's handler has run before the next step",
			"a competing lock holder is represented by its lock file (csvq's protocol only tests for existence of these files)"},
	})
}
