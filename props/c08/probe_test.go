package c08

import (
	"context"
	"fmt"
	"os"
	"sync/atomic"
	"testing"
	"time"

	"verif/internal/fw"
	"verif/internal/run"
)

func TestMain(m *testing.M) { fw.Main(m) }

type cctx struct {
	context.Context
	n     int64
	limit int64
}

func (c *cctx) Err() error {
	k := atomic.AddInt64(&c.n, 1)
	if c.limit > 0 && k >= c.limit {
		return context.Canceled
	}
	return nil
}
func (c *cctx) Deadline() (time.Time, bool) { return time.Time{}, false }
func (c *cctx) Done() <-chan struct{}        { return nil }

func TestProbe(t *testing.T) {
	dir, _ := os.MkdirTemp("", "c08probe")
	defer os.RemoveAll(dir)
	csv := "id,v,w\n"
	for i := 1; i <= 5; i++ {
		csv += fmt.Sprintf("%d,a%d,%d\n", i, i, i*10)
	}
	run.WriteFiles(dir, map[string]string{"t1.csv": csv, "t2.csv": csv})
	cc := &cctx{Context: context.Background()}
	s, err := run.NewSess(run.Opt{Dir: dir, CPU: 1, Ctx: cc})
	if err != nil {
		t.Fatal(err)
	}
	defer s.Close()
	stmts := []string{
		"DECLARE tt VIEW (id, v, w);",
		"INSERT INTO tt VALUES (1,'a',10),(2,'b',20),(3,'c',30);",
		"COMMIT;",
		"CREATE TABLE `n1.csv` (id, v, w);",
		"INSERT INTO n1 VALUES (1,'a',10),(2,'b',20);",
		"UPDATE t1 SET v = 'F', w = 1/(id-3);",
		"UPDATE t1 SET v = 'F' WHERE 1/(id-3) > 0;",
		"DELETE FROM t1 WHERE 1/(id-3) IS NOT NULL;",
		"INSERT INTO t1 VALUES (6,'x',1),(7,'y');",
		"INSERT INTO t1 VALUES (6,'x',1),(7,'y',1/0);",
		"INSERT INTO t1 SELECT id+100, v, 1/(id-2) FROM t2;",
		"INSERT INTO t1 (id, v) SELECT id+100, v, w FROM t2;",
		"REPLACE INTO t1 (id, v, w) USING (id) VALUES (1,'F',1),(9,'F',1/0);",
		"REPLACE INTO t1 (id, v, w) USING (id) SELECT id, 'F', 1/(id-2) FROM t2;",
		"REPLACE INTO t1 (v, w) USING (id) VALUES ('F',1);",
		"ALTER TABLE t1 ADD c DEFAULT 1/(id-3) AFTER id;",
		"ALTER TABLE t1 ADD (c, v);",
		"ALTER TABLE t1 ADD c AFTER nosuch;",
		"ALTER TABLE t1 DROP (v, nosuch);",
		"ALTER TABLE t1 RENAME v TO w;",
		"ALTER TABLE t1 RENAME nosuch TO z;",
		"CREATE TABLE `n9.csv` AS SELECT id, v, 1/(id-3) AS q FROM t1;",
		"CREATE TABLE `n9.csv` (a, b) AS SELECT id, v, w FROM t1;",
		"CREATE TABLE `n9.csv` (a, a);",
		"CREATE TABLE `t1.csv` (a, b);",
		"CREATE TABLE `n1.csv` (a, b);",
		"UPDATE t1 SET nosuch = 1;",
		"UPDATE t1 SET v = nosuch;",
		"INSERT INTO t1 (id, nosuch) VALUES (1,2);",
		"DELETE FROM t1 WHERE nosuch = 1;",
		"UPDATE t1 SET t1.v = t2.v FROM t1 CROSS JOIN t2 WHERE t2.id = 1 OR (t1.id = 3 AND t2.id = 2);",
		"UPDATE t1, t2 SET t1.v = 'F', t2.v = 1/(t1.id-3) FROM t1 JOIN t2 ON t1.id = t2.id;",
		"UPDATE tt SET v = 'F', w = 1/(id-2);",
		"UPDATE n1 SET v = 'F', w = 1/(id-2);",
		"SELECT * FROM t1;",
		"SELECT * FROM tt;",
		"SELECT * FROM n1;",
	}
	for _, st := range stmts {
		atomic.StoreInt64(&cc.n, 0)
		r := s.Exec(st)
		fmt.Printf("%-90s polls=%d aff=%d err=%v [%s]\n", st, atomic.LoadInt64(&cc.n), r.Affected, r.Err, run.ErrClass(r.Err))
		for _, v := range r.Views {
			fmt.Print(v.String())
		}
	}
	ents, _ := os.ReadDir(dir)
	for _, e := range ents {
		fmt.Println("  file:", e.Name())
	}
	for _, st := range []string{"UPDATE t1 SET v = 'G';", "DELETE FROM t1 WHERE id > 2;", "INSERT INTO t1 SELECT id+10, v, w FROM t1;", "ALTER TABLE t1 ADD c DEFAULT id*2;", "ALTER TABLE t1 DROP c;", "REPLACE INTO t1 (id, v) USING (id) SELECT id, 'R' FROM t2;", "CREATE TABLE `n8.csv` AS SELECT * FROM t1;", "COMMIT;"} {
		atomic.StoreInt64(&cc.n, 0)
		r := s.Exec(st)
		fmt.Printf("%-90s polls=%d aff=%d err=%v [%s]\n", st, atomic.LoadInt64(&cc.n), r.Affected, r.Err, run.ErrClass(r.Err))
	}
	b, _ := os.ReadFile(dir + "/t1.csv")
	fmt.Println(string(b))
}
