package c08

import (
	"context"
	"fmt"
	"os"
	"path/filepath"
	"regexp"
	"runtime/debug"
	"sort"
	"strings"
	"sync"
	"sync/atomic"
	"testing"
	"time"

	"github.com/mithrandie/csvq/lib/value"
	"pgregory.net/rapid"

	"verif/internal/fw"
	"verif/internal/run"
)

func TestMain(m *testing.M) { fw.Main(m) }

// ---------------------------------------------------------------------
// C08: a data-changing statement that returns an error leaves every table as
// it was, and a later COMMIT writes none of its partial effects.
//
// One case = two tables (CSV file / temporary table / table created earlier in
// the same transaction), a prefix of successful data-changing statements and
// ONE statement engineered to fail at a chosen row (or cancelled after a chosen
// number of context polls). Everything is executed statement by statement on one
// in-process session, the way the interactive shell does it.

// A FROM-subquery over a file marks the CACHED FileInfo of that file as an
// inline table with an empty path (load_view.go:405-412 works on the *FileInfo
// shared with the cached view); every later INSERT/UPDATE/DELETE on the file
// then fails with "file  does not exist". That defect is known and open; with
// the flag set the generator never wraps a source table into a FROM-subquery.
// With the flag cleared the check reports it as from_subquery_poisons_fileinfo.
const avoidFromSubqueryPoisonsFileInfo = false

const fromSubqueryMark = ") fsq"

// kMark stands in the generated SQL for the id of the row at which the evaluation fails.
const kMark = "{K}"

// enumMaxPolls bounds the enumeration of cancellation points (statements on <=340 rows need far fewer polls).
const enumMaxPolls = 3000

const newFile = "n9.csv" // the file a failing CREATE TABLE would create

type tblT struct {
	Name string `json:"name"`          // t1 | t2
	Kind string `json:"kind"`          // file | temp | created
	N    int    `json:"n"`             // initial number of rows; the ids are 1..N
	Rot  int    `json:"rot"`           // row i carries the id ((i+Rot) mod N)+1 ...
	Desc bool   `json:"desc"`          // ... or N-((i+Rot) mod N)
	Fmt  string `json:"fmt,omitempty"` // file tables: "" (t.csv) | tsv | json | jsonl | ltsv
	Raw  string `json:"raw,omitempty"` // CSV file tables: "" canonical text | quoted (some cells enclosed) | crlf | noeol (no final line break): text a rewrite by COMMIT does not reproduce
}

type stmtT struct {
	Kind string   `json:"kind"`
	SQL  string   `json:"sql"`
	Refs []string `json:"refs"` // tables the statement mentions
}

type failT struct {
	SK      string   `json:"sk"`                // statement kind
	FK      string   `json:"fk"`                // failure kind
	SQL     string   `json:"sql"`               //
	Target  string   `json:"target,omitempty"`  // table the statement would change ("" for CREATE TABLE)
	Refs    []string `json:"refs"`              // tables the statement mentions
	Drive   string   `json:"drive,omitempty"`   // table whose rows are evaluated one by one
	Common  string   `json:"common,omitempty"`  // the evaluated rows are those of Drive whose id also exists in this table
	K       int      `json:"k,omitempty"`       // id of the row at which the evaluation fails (0: not bound to a row)
	J       int      `json:"j,omitempty"`       // index of the failing row value of a VALUES list
	M       int      `json:"m,omitempty"`       // number of row values
	Part    bool     `json:"part,omitempty"`    // not bound to a row, but fails after other items of the statement were evaluated
	Ns      []int    `json:"ns,omitempty"`      // cancellation: numbers of context polls that pass before the context is cancelled
	Errno   int      `json:"errno,omitempty"`   // error number the engineered failure has in lib/query/error_code.go
	Pre     []stmtT  `json:"pre,omitempty"`     // statements run after the prefix: variables / cursors holding values read from the tables
	Aliased bool     `json:"aliased,omitempty"` // tables are named through aliases where the statement shape has a FROM clause
	Shared  int      `json:"shared,omitempty"`  // number of values of the statement that are read from table cells (subquery, variable, cursor)
	How     string   `json:"how,omitempty"`     // row-bound failures: the expression that fails at row K (div0, case_div0, subquery_*, function_*)
	ByFile  bool     `json:"by_file,omitempty"` // the statement names its target by the file name (`t1.csv`) instead of the table name
}

type caseT struct {
	Poison    bool    `json:"poison,omitempty"` // run with value.VerifPoison: an object handed to value.Discard is overwritten at once
	Tables    []tblT  `json:"tables"`
	CPU       int     `json:"cpu"`
	Cold      bool    `json:"cold"` // file tables no statement has touched are not read before the failing statement
	Prefix    []stmtT `json:"prefix"`
	F         failT   `json:"f"`
	Ending    string  `json:"ending"`               // commit | follow_commit | rollback
	FollowSet *stmtT  `json:"follow_set,omitempty"` // a valid ALTER TABLE ... SET executed right before the COMMIT of the ending
	Enum      bool    `json:"enum,omitempty"`       // run the statement once per failure point (every row K / every poll count N) instead of once
}

func idAt(t tblT, i int) int {
	b := (i + t.Rot) % t.N
	if t.Desc {
		return t.N - b
	}
	return b + 1
}

// ---------------------------------------------------------------------
// generator

type gTbl struct {
	tblT
	ids    []int    // live ids in row order (the generator's idea; only used to aim)
	cols   []string // columns in order
	extra  []string // added columns
	next   int      // next unused id
	format string   // file-backed tables: the format COMMIT will write (CSV TSV JSON JSONL LTSV FIXED GFM ...)
}

func (g *gTbl) fileBacked() bool { return g.Kind != "temp" }

func (g *gTbl) pos(id int) int {
	for i, x := range g.ids {
		if x == id {
			return i
		}
	}
	return -1
}

func genSize(t *rapid.T, label string, weights []int) int {
	switch fw.Weighted(t, label, weights) {
	case 0:
		return fw.Range(t, label+"_small", 1, 6)
	case 1:
		if fw.Pct(t, label+"_edge", 30) {
			return fw.Range(t, label+"_edge_n", 150, 159)
		}
		return fw.Range(t, label+"_medium", 7, 149)
	}
	if fw.Pct(t, label+"_four", 35) {
		return fw.Range(t, label+"_large4", 320, 340)
	}
	return fw.Range(t, label+"_large", 160, 319)
}

func genTable(t *rapid.T, name string, weights []int) *gTbl {
	g := &gTbl{}
	g.Name = name
	g.Kind = fw.PickU(t, name+"_kind", []string{"file", "file", "temp", "temp", "created"})
	g.N = genSize(t, name+"_size", weights)
	g.Rot = fw.Range(t, name+"_rot", 0, g.N-1)
	g.Desc = fw.Pct(t, name+"_desc", 30)
	for i := 0; i < g.N; i++ {
		g.ids = append(g.ids, idAt(g.tblT, i))
	}
	g.cols = []string{"id", "v", "w"}
	g.next = g.N + 1
	g.format = "CSV"
	if g.Kind == "file" {
		g.Fmt = fw.PickU(t, name+"_fmt", []string{"", "", "", "tsv", "json", "json", "jsonl", "ltsv"})
		if g.Fmt != "" {
			g.format = strings.ToUpper(g.Fmt)
		} else {
			g.Raw = fw.PickU(t, name+"_raw", []string{"", "", "", "quoted", "quoted", "noeol", "crlf"})
		}
	}
	return g
}

func (g *gTbl) rowSQL(id int, tag string) string {
	return "(" + strings.Join(g.rowVals(id, tag), ", ") + ")"
}

func (g *gTbl) rowVals(id int, tag string) []string {
	var vs []string
	for _, c := range g.cols {
		switch c {
		case "id":
			vs = append(vs, fmt.Sprint(id))
		case "v":
			vs = append(vs, "'"+tag+"'")
		case "w":
			vs = append(vs, fmt.Sprint(id*10))
		default:
			if id%2 == 0 {
				vs = append(vs, "NULL")
			} else {
				vs = append(vs, fmt.Sprint(id+7))
			}
		}
	}
	return vs
}

func genPrefix(t *rapid.T, step int, g *gTbl) stmtT { return genPrefixOf(t, step, g, true) }

// genPrefixOf renders a valid data-changing statement on g and applies it to the generator's idea of
// the table; withSet: ALTER TABLE ... SET <attribute> may be drawn.
func genPrefixOf(t *rapid.T, step int, g *gTbl, withSet bool) stmtT {
	st := stmtT{Refs: []string{g.Name}}
	ws := []int{25, 25, 15, 10, 15, 10, 14}
	if !withSet {
		ws[6] = 0
	}
	kind := []string{"insert", "update", "delete", "replace", "add", "drop", "set_attr"}[fw.Weighted(t, "prefix_kind", ws)]
	if kind == "set_attr" && !g.fileBacked() {
		kind = "update"
	}
	if kind == "drop" && len(g.extra) == 0 {
		kind = "add"
	}
	if (kind == "delete" && len(g.ids) < 3) || (kind == "replace" && len(g.ids) == 0) {
		kind = "update"
	}
	st.Kind = kind
	switch kind {
	case "set_attr":
		st.SQL = genValidSet(t, g)
	case "insert":
		n := fw.Range(t, "ins_rows", 1, 3)
		if fw.Pct(t, "ins_partial", 35) {
			var rows []string
			for i := 0; i < n; i++ {
				rows = append(rows, fmt.Sprintf("(%d, 'p%d')", g.next, step))
				g.ids = append(g.ids, g.next)
				g.next++
			}
			st.SQL = fmt.Sprintf("INSERT INTO %s (id, v) VALUES %s;", g.Name, strings.Join(rows, ", "))
		} else {
			var rows []string
			for i := 0; i < n; i++ {
				rows = append(rows, g.rowSQL(g.next, fmt.Sprintf("p%d", step)))
				g.ids = append(g.ids, g.next)
				g.next++
			}
			st.SQL = fmt.Sprintf("INSERT INTO %s VALUES %s;", g.Name, strings.Join(rows, ", "))
		}
	case "update":
		if fw.Pct(t, "upd_all", 30) {
			st.SQL = fmt.Sprintf("UPDATE %s SET v = 'u%d';", g.Name, step)
		} else {
			m := fw.Range(t, "upd_mod", 2, 3)
			st.SQL = fmt.Sprintf("UPDATE %s SET v = 'u%d', w = w + 1 WHERE id %% %d = %d;", g.Name, step, m, fw.Range(t, "upd_rem", 0, m-1))
		}
	case "delete":
		i := fw.Range(t, "del_which", 0, len(g.ids)-1)
		st.SQL = fmt.Sprintf("DELETE FROM %s WHERE id = %d;", g.Name, g.ids[i])
		g.ids = append(g.ids[:i:i], g.ids[i+1:]...)
	case "replace":
		// one row with an existing key (several unmatched rows would be appended in map order: a known, other defect)
		id := g.ids[fw.Range(t, "rep_which", 0, len(g.ids)-1)]
		st.SQL = fmt.Sprintf("REPLACE INTO %s (id, v) USING (id) VALUES (%d, 'r%d');", g.Name, id, step)
	case "add":
		col := fmt.Sprintf("x%d", step)
		def := []string{"", " DEFAULT id * 2", " DEFAULT NULL", " DEFAULT 'd'"}[fw.Range(t, "add_default", 0, 3)]
		switch fw.Range(t, "add_pos", 0, 3) {
		case 0:
			st.SQL = fmt.Sprintf("ALTER TABLE %s ADD %s%s;", g.Name, col, def)
			g.cols = append(g.cols, col)
		case 1:
			st.SQL = fmt.Sprintf("ALTER TABLE %s ADD %s%s FIRST;", g.Name, col, def)
			g.cols = append([]string{col}, g.cols...)
		case 2:
			st.SQL = fmt.Sprintf("ALTER TABLE %s ADD %s%s AFTER v;", g.Name, col, def)
			g.cols = insertAfter(g.cols, "v", col)
		default:
			st.SQL = fmt.Sprintf("ALTER TABLE %s ADD %s%s LAST;", g.Name, col, def)
			g.cols = append(g.cols, col)
		}
		g.extra = append(g.extra, col)
	case "drop":
		i := fw.Range(t, "drop_which", 0, len(g.extra)-1)
		col := g.extra[i]
		st.SQL = fmt.Sprintf("ALTER TABLE %s DROP %s;", g.Name, col)
		g.extra = append(g.extra[:i:i], g.extra[i+1:]...)
		var cols []string
		for _, c := range g.cols {
			if c != col {
				cols = append(cols, c)
			}
		}
		g.cols = cols
	}
	return st
}

// genValidSet renders an ALTER TABLE ... SET that csvq accepts (setting the value an attribute
// already has is accepted with a notice) and tracks the format the table will be written in.
func genValidSet(t *rapid.T, g *gTbl) string {
	attr, val := "", ""
	isJSON := g.format == "JSON" || g.format == "JSONL"
	switch fw.Weighted(t, "set_attr", []int{34, 14, 10, 8, 8, 6, 6, 8, 6}) {
	case 0:
		attr = "FORMAT"
		val = fw.PickU(t, "set_format", []string{"CSV", "TSV", "JSON", "JSON", "JSONL", "JSONL", "LTSV", "GFM", "ORG", "BOX", "TEXT", "JSONH", "FIXED"})
		g.format = val
		if val == "JSONH" {
			g.format = "JSON"
		}
	case 1:
		if isJSON {
			attr, val = "ENCODING", "UTF8"
		} else {
			attr, val = "ENCODING", fw.PickU(t, "set_encoding", []string{"UTF8M", "UTF16", "UTF16LE", "UTF16BEM", "SJIS", "UTF8"})
		}
	case 2:
		attr, val = "LINE_BREAK", fw.PickU(t, "set_line_break", []string{"CRLF", "CR", "LF"})
	case 3:
		attr, val = "HEADER", fw.PickU(t, "set_bool", []string{"FALSE", "TRUE"})
	case 4:
		attr, val = "ENCLOSE_ALL", fw.PickU(t, "set_bool", []string{"TRUE", "FALSE"})
	case 5:
		attr, val = "PRETTY_PRINT", fw.PickU(t, "set_bool", []string{"TRUE", "FALSE"})
	case 6:
		attr, val = "JSON_ESCAPE", fw.PickU(t, "set_escape", []string{"HEX", "HEXALL", "BACKSLASH"})
	case 7:
		attr, val = "DELIMITER", fw.PickU(t, "set_delimiter", []string{";", "|", ",", "\\t"})
		g.format = "CSV"
		if val == "\\t" {
			g.format = "TSV"
		}
	default:
		attr, val = "DELIMITER_POSITIONS", "SPACES"
		g.format = "FIXED"
	}
	lit := "'" + val + "'"
	switch {
	case attr == "HEADER" || attr == "ENCLOSE_ALL" || attr == "PRETTY_PRINT":
		lit = val
	case attr != "DELIMITER" && fw.Pct(t, "set_as_identifier", 40):
		lit = val // FORMAT TO JSON
	}
	return fmt.Sprintf("ALTER TABLE %s SET %s TO %s;", g.Name, attr, lit)
}

func insertAfter(cols []string, after, col string) []string {
	var out []string
	for _, c := range cols {
		out = append(out, c)
		if c == after {
			out = append(out, col)
		}
	}
	return out
}

// pickRow chooses the row at which the evaluation fails: first, last or one in between.
func pickRow(t *rapid.T, ids []int) int {
	n := len(ids)
	if n == 1 {
		return ids[0]
	}
	switch fw.Weighted(t, "pos", []int{18, 27, 55}) {
	case 0:
		return ids[0]
	case 1:
		return ids[n-1]
	}
	if n == 2 {
		return ids[1]
	}
	return ids[fw.Range(t, "pos_mid", 1, n-2)]
}

func fileOf(g *gTbl) string { return fileName(g.tblT) }

// srcT is a table as the FROM item of a sub-select: an optional WITH clause, the FROM item and the
// name under which its columns are qualified.
type srcT struct{ with, from, qual string }

// source renders a table as a FROM item of a sub-select: the table itself (aliased or not), a
// FROM-subquery over it, or an inline table of a WITH clause over it.
func source(t *rapid.T, g *gTbl, aliased bool) srcT {
	if !avoidFromSubqueryPoisonsFileInfo && fw.Pct(t, "from_subquery", 30) {
		return srcT{"", fmt.Sprintf("(SELECT * FROM %s%s", g.Name, fromSubqueryMark), "fsq"}
	}
	if fw.Pct(t, "from_with", 20) {
		return srcT{fmt.Sprintf("WITH wc AS (SELECT * FROM %s) ", g.Name), "wc", "wc"}
	}
	if aliased {
		return srcT{"", g.Name + " x", "x"}
	}
	return srcT{"", g.Name, g.Name}
}

const (
	errDiv0           = 30000
	errRowLength      = 12101
	errSelectLength   = 12102
	errFieldNotExist  = 10102
	errDuplicate      = 10104
	errAmbiguous      = 12202
	errKeyNotSet      = 13901
	errTableLength    = 11401
	errFileExists     = 90182
	errNotLoaded      = 11602
	errInlineTable    = 11604
	errNotTable       = 13001
	errAttrName       = 13002
	errAttrNotAllowed = 13003
	errAttrValue      = 13004
	errTooManyRecords = 10601
	errUserTriggered  = 90650
	errFileNotExist   = 90181
	errFieldLength    = 13301
)

var failKinds = []struct {
	name string
	w    int
}{
	{"update_set_div0", 12},
	{"update_where_div0", 5},
	{"update_unknown", 4},
	{"update_multi_ambiguous", 9},
	{"update_multi_div0", 6},
	{"delete_div0", 7},
	{"delete_multi_div0", 3},
	{"delete_unknown", 2},
	{"delete_multi_bad_target", 9},
	{"update_multi_bad_target", 5},
	{"alter_set", 16},
	{"insert_values", 8},
	{"insert_values_unknown", 2},
	{"insert_select_div0", 7},
	{"insert_select_length", 3},
	{"replace_values", 6},
	{"replace_select_div0", 6},
	{"replace_key", 3},
	{"alter_add_div0", 8},
	{"alter_add_bad", 3},
	{"alter_drop_missing", 3},
	{"alter_rename_bad", 3},
	{"create_as_div0", 7},
	{"create_bad", 5},
	{"create_exists", 3},
	{"cancel", 22},
	{"missing_table", 5},
	{"join_on_div0", 6},
	{"self_join_div0", 6},
	{"create_if_not_exists", 4},
}

// sharer hands out expressions whose value is the very object a table cell holds: scalar
// subqueries over either table, variables assigned from a cell (VAR :=, SELECT INTO) and
// variables fetched from a cursor. A failing statement that had already evaluated such
// values must not release, recycle or change them.
type sharer struct {
	t    *rapid.T
	tbls []*gTbl
	pre  []stmtT
	refs map[string]bool
	n    int
	base int // first number of the names (several failing statements of one transaction declare their own)
}

func (sh *sharer) expr() string {
	sh.n++
	g := sh.tbls[fw.Range(sh.t, "shared_table", 0, len(sh.tbls)-1)]
	col := fw.PickU(sh.t, "shared_col", []string{"v", "v", "w"})
	id := g.ids[fw.Range(sh.t, "shared_row", 0, len(g.ids)-1)]
	sh.refs[g.Name] = true
	sub := fmt.Sprintf("(SELECT %s FROM %s WHERE id = %d)", col, g.Name, id)
	refs := []string{g.Name}
	switch fw.Weighted(sh.t, "shared_how", []int{40, 20, 15, 25}) {
	case 1:
		name := fmt.Sprintf("@s%d", sh.base+sh.n)
		sh.pre = append(sh.pre, stmtT{Kind: "var", SQL: fmt.Sprintf("VAR %s := %s;", name, sub), Refs: refs})
		return name
	case 2:
		name := fmt.Sprintf("@s%d", sh.base+sh.n)
		sh.pre = append(sh.pre, stmtT{Kind: "select_into", SQL: fmt.Sprintf("VAR %s; SELECT %s INTO %s FROM %s WHERE id = %d;", name, col, name, g.Name, id), Refs: refs})
		return name
	case 3:
		cur := fmt.Sprintf("c%d", sh.base+sh.n)
		a, b := fmt.Sprintf("@c%da", sh.base+sh.n), fmt.Sprintf("@c%db", sh.base+sh.n)
		sh.pre = append(sh.pre, stmtT{Kind: "cursor", SQL: fmt.Sprintf("DECLARE %s CURSOR FOR SELECT v, w FROM %s WHERE id >= %d; OPEN %s; VAR %s, %s; FETCH %s INTO %s, %s;", cur, g.Name, id, cur, a, b, cur, a, b), Refs: refs})
		if col == "w" {
			return b
		}
		return a
	}
	return sub
}

func (sh *sharer) refList() []string {
	var out []string
	for _, g := range sh.tbls {
		if sh.refs[g.Name] {
			out = append(out, g.Name)
		}
	}
	return out
}

// rowBound: the kinds whose failure is bound to a row K (or to a poll count): the ones a case can enumerate.
var rowBound = map[string]bool{"update_set_div0": true, "update_where_div0": true, "update_multi_ambiguous": true, "update_multi_div0": true,
	"delete_div0": true, "delete_multi_div0": true, "insert_select_div0": true, "replace_select_div0": true, "alter_add_div0": true,
	"create_as_div0": true, "cancel": true, "join_on_div0": true, "self_join_div0": true}

// genMode: which sub-check the failing statement is generated for.
type genMode struct {
	enum bool // row-bound shapes only
	seq  bool // one of several failing statements of a transaction: nothing that changes attributes, names carry the step
	step int
}

func genFail(t *rapid.T, T, B *gTbl, mode genMode) failT {
	enum := mode.enum
	ws := make([]int, len(failKinds))
	for i, k := range failKinds {
		ws[i] = k.w
		if enum && !rowBound[k.name] {
			ws[i] = 0
		}
		if mode.seq && k.name == "cancel" {
			ws[i] = 8 // a cancelled statement that completes ends a sequence
		}
	}
	kind := failKinds[fw.Weighted(t, "fail_kind", ws)].name
	both := []string{T.Name, B.Name}
	one := []string{T.Name}

	var common []int // ids of T that also exist in B, in T's order
	for _, id := range T.ids {
		if B.pos(id) >= 0 {
			common = append(common, id)
		}
	}
	// shapes that need something the tables do not offer fall back to the plain UPDATE
	switch {
	case kind == "update_multi_ambiguous" && (len(B.ids) < 2 || len(T.ids)*len(B.ids) > 20000):
		kind = "update_set_div0"
	case (kind == "update_multi_div0" || kind == "delete_multi_div0") && (len(common) == 0 || len(T.ids)*len(B.ids) > 20000):
		kind = "update_set_div0"
	case kind == "create_exists" && T.Kind == "temp" && B.Kind == "temp":
		kind = "create_as_div0"
	case kind == "create_if_not_exists" && T.Kind == "temp" && B.Kind == "temp":
		kind = "create_as_div0"
	case kind == "join_on_div0" && (len(B.ids) == 0 || len(T.ids)*len(B.ids) > 20000):
		kind = "update_set_div0"
	case kind == "self_join_div0" && len(T.ids)*len(T.ids) > 20000:
		kind = "update_set_div0"
	}

	// the table that supplies rows to INSERT/REPLACE ... SELECT and CREATE TABLE AS
	S := T
	if len(B.ids) > 0 && fw.Pct(t, "source_other", 50) {
		S = B
	}
	srcRefs := func() []string {
		if S == T {
			return one
		}
		return both
	}

	// how the statement names the tables: 60% of the cases give them aliases that differ from the table names
	// (a statement resolves field references through the view name of the header, which it sets to the alias)
	aliased := fw.Pct(t, "aliased", 60)
	ta, tb, fromT, fromB := T.Name, B.Name, T.Name, B.Name
	if aliased {
		ta, tb, fromT, fromB = "a", "b", T.Name+" a", B.Name+" b"
	}
	smallJoin := len(T.ids)*len(B.ids) <= 20000

	f := failT{Target: T.Name, Refs: one, Aliased: aliased}
	sh := &sharer{t: t, tbls: []*gTbl{T, B}, refs: map[string]bool{T.Name: true}, base: mode.step * 20}

	// how the evaluation fails at the row whose id is K: fx(ref) renders a numeric expression over the
	// (table-qualified) id column ref that fails exactly there and sets the error number the failure has
	var howRefs []string
	manyEvaluations := false // the expression is evaluated for every pair of a join: nothing that reads a table each time
	fx := func(ref string) string {
		O := T
		if fw.Pct(t, "how_table_other", 50) {
			O = B
		}
		hw := []int{34, 8, 8, 10, 10, 12, 10, 8}
		if manyEvaluations {
			hw = []int{34, 8, 8, 0, 0, 0, 10, 0}
		}
		how := []string{"div0", "case_div0", "subquery_dual", "subquery_table", "subquery_aggregate", "subquery_too_many", "function_error", "function_select"}[fw.Weighted(t, "how", hw)]
		if how == "subquery_too_many" && len(O.ids) < 2 {
			how = "subquery_table"
		}
		f.How = how
		f.Errno = errDiv0
		switch how {
		case "case_div0":
			return fmt.Sprintf("CASE WHEN %s = {K} THEN 1 / 0 ELSE 1 END", ref)
		case "subquery_dual":
			return fmt.Sprintf("(SELECT 1 / (%s - {K}) FROM DUAL)", ref)
		case "subquery_table":
			howRefs = append(howRefs, O.Name)
			return fmt.Sprintf("(SELECT 1 / (%s - {K}) FROM %s zz LIMIT 1)", ref, O.Name)
		case "subquery_aggregate":
			howRefs = append(howRefs, O.Name)
			return fmt.Sprintf("(SELECT COUNT(*) / (%s - {K}) FROM %s zz)", ref, O.Name)
		case "subquery_too_many":
			// one record for every row but K, all records of the other table for K
			howRefs = append(howRefs, O.Name)
			f.Errno = errTooManyRecords
			return fmt.Sprintf("(SELECT zz.id FROM %s zz WHERE %s = {K} OR zz.id = %d)", O.Name, ref, O.ids[0])
		case "function_error":
			fn := fmt.Sprintf("fe%d", mode.step)
			f.Pre = append(f.Pre, stmtT{Kind: "function", SQL: fmt.Sprintf("DECLARE %s FUNCTION (@x, @k) AS BEGIN IF @x = @k THEN TRIGGER ERROR 'row refused'; END IF; RETURN 1; END;", fn)})
			f.Errno = errUserTriggered
			return fmt.Sprintf("%s(%s, {K})", fn, ref)
		case "function_select":
			fn := fmt.Sprintf("fs%d", mode.step)
			f.Pre = append(f.Pre, stmtT{Kind: "function", SQL: fmt.Sprintf("DECLARE %s FUNCTION (@x, @k) AS BEGIN VAR @n; SELECT COUNT(*) INTO @n FROM %s; RETURN @n / (@x - @k); END;", fn, O.Name)})
			howRefs = append(howRefs, O.Name)
			return fmt.Sprintf("%s(%s, {K})", fn, ref)
		}
		return fmt.Sprintf("1 / (%s - {K})", ref)
	}
	// the target table as the statement names it: by its name or (file-backed CSV tables) by its file name
	tn := T.Name
	if T.fileBacked() && T.Fmt == "" && fw.Pct(t, "target_by_file_name", 20) {
		tn = "`" + fileOf(T) + "`"
		f.ByFile = true
	}
	switch kind {
	case "update_set_div0":
		k := pickRow(t, T.ids)
		f.SK, f.FK, f.Drive, f.K = "update", "div0", T.Name, k
		x := fx(T.Name + ".id")
		switch fw.Range(t, "shape", 0, 4) {
		case 4:
			// a direct field reference: the new cell would hold the very object another cell of the table holds
			f.SQL = fmt.Sprintf("UPDATE %s SET v = %s, w = %s;", tn, fw.PickU(t, "direct_ref", []string{"w", "id", T.Name + ".w"}), x)
			f.Shared = 1
		case 3:
			f.SQL = fmt.Sprintf("UPDATE %s SET v = %s, w = %s;", tn, sh.expr(), x)
		case 0:
			f.SQL = fmt.Sprintf("UPDATE %s SET v = 'F', w = %s;", tn, x)
		case 1:
			f.SQL = fmt.Sprintf("UPDATE %s SET w = %s, v = 'F' WHERE id > 0;", tn, x)
		default:
			f.SQL = fmt.Sprintf("UPDATE %s SET id = id + 1000, v = 'F' || (%s);", tn, x)
		}
	case "update_where_div0":
		k := pickRow(t, T.ids)
		f.SK, f.FK, f.Drive, f.K = "update", "div0_where", T.Name, k
		f.SQL = fmt.Sprintf("UPDATE %s SET v = 'F' WHERE %s IS NOT NULL;", tn, fx(T.Name+".id"))
	case "update_unknown":
		f.SK, f.FK, f.Errno = "update", "unknown_field", errFieldNotExist
		switch fw.Range(t, "shape", 0, 2) {
		case 0:
			f.SQL = fmt.Sprintf("UPDATE %s SET v = 'F', nosuch = 1;", T.Name)
			f.Part = true
		case 1:
			f.SQL = fmt.Sprintf("UPDATE %s SET v = 'F', w = nosuch;", T.Name)
			f.Part = true
		default:
			f.SQL = fmt.Sprintf("UPDATE %s SET v = 'F' WHERE nosuch = 1;", T.Name)
		}
	case "update_multi_ambiguous":
		k := pickRow(t, T.ids)
		a := B.ids[fw.Range(t, "amb_a", 0, len(B.ids)-1)]
		b := a
		for _, x := range B.ids {
			if x != a {
				b = x
				break
			}
		}
		f.SK, f.FK, f.Drive, f.K, f.Errno, f.Refs = "update_multi", "ambiguous", T.Name, k, errAmbiguous, both
		// the SET value: mostly a DIRECT field reference of the other table (Evaluate then returns the very
		// object the cached source view holds) of a string, integer or float column; sometimes an expression
		set := fmt.Sprintf("%s.v = 'F' || %s.v", ta, tb)
		if fw.Pct(t, "amb_direct", 75) {
			dst := fw.PickU(t, "amb_dst", []string{"v", "v", "w"})
			src := fw.PickU(t, "amb_src", []string{"v", "v", "w", "id", "fl", "fl"})
			if src == "fl" {
				// a float-typed column (also in a file table: the added cells are typed until COMMIT)
				f.Pre = append(f.Pre, stmtT{Kind: "add_float", SQL: fmt.Sprintf("ALTER TABLE %s ADD fl DEFAULT id * 0.5;", B.Name), Refs: []string{B.Name}})
			}
			set = fmt.Sprintf("%s.%s = %s.%s", ta, dst, tb, src)
			if fw.Pct(t, "amb_two", 35) {
				other := map[string]string{"v": "w", "w": "v"}[dst]
				set += fmt.Sprintf(", %s.%s = %s.%s", ta, other, tb, fw.PickU(t, "amb_src2", []string{"v", "w", "id"}))
			}
			f.Shared = 1
		}
		f.SQL = fmt.Sprintf("UPDATE %s SET %s FROM %s CROSS JOIN %s WHERE %s.id = %d OR (%s.id = {K} AND %s.id = %d);",
			ta, set, fromT, fromB, tb, a, ta, tb, b)
	case "update_multi_div0":
		k := pickRow(t, common)
		f.SK, f.FK, f.Drive, f.Common, f.K, f.Refs = "update_multi", "div0", T.Name, B.Name, k, both
		f.SQL = fmt.Sprintf("UPDATE %s, %s SET %s.v = 'F', %s.v = 'G', %s.w = %s FROM %s JOIN %s ON %s.id = %s.id;",
			ta, tb, ta, tb, tb, fx(ta+".id"), fromT, fromB, ta, tb)
	case "delete_div0":
		k := pickRow(t, T.ids)
		f.SK, f.FK, f.Drive, f.K = "delete", "div0_where", T.Name, k
		if aliased {
			f.SQL = fmt.Sprintf("DELETE FROM %s WHERE %s IS NOT NULL;", fromT, fx(ta+".id"))
		} else {
			f.SQL = fmt.Sprintf("DELETE FROM %s WHERE %s IS NOT NULL;", tn, fx(ta+".id"))
		}
	case "delete_multi_div0":
		k := pickRow(t, common)
		f.SK, f.FK, f.Drive, f.Common, f.K, f.Refs = "delete_multi", "div0_where", T.Name, B.Name, k, both
		f.SQL = fmt.Sprintf("DELETE %s, %s FROM %s JOIN %s ON %s.id = %s.id WHERE %s IS NOT NULL;",
			ta, tb, fromT, fromB, ta, tb, fx(tb+".id"))
	case "delete_unknown":
		f.SK, f.FK, f.Errno = "delete", "unknown_field", errFieldNotExist
		f.SQL = fmt.Sprintf("DELETE FROM %s WHERE nosuch = 1;", fromT)
	case "alter_set":
		// ALTER TABLE ... SET attribute TO value that is refused: the table's attributes (shared with the
		// cached table through its FileInfo) must stay as they are
		X := T
		if !X.fileBacked() && B.fileBacked() && fw.Pct(t, "set_other", 80) {
			X = B
		}
		f.SK, f.Target, f.Refs = "alter_set", X.Name, []string{X.Name}
		set := func(attr, lit string) { f.SQL = fmt.Sprintf("ALTER TABLE %s SET %s TO %s;", X.Name, attr, lit) }
		if !X.fileBacked() {
			f.FK, f.Errno = "set_not_a_file", errNotTable
			set(fw.PickU(t, "set_any_attr", []string{"FORMAT", "ENCODING", "HEADER"}), fw.PickU(t, "set_any_val", []string{"'JSON'", "'UTF16'", "FALSE"}))
			break
		}
		setFail := fw.Weighted(t, "set_fail", []int{34, 30, 14, 8, 14})
		if mode.seq && setFail == 0 && X.format != "JSON" && X.format != "JSONL" {
			setFail = 1 // no statement of a sequence changes an attribute (the tables are re-read by name after a COMMIT)
		}
		switch setFail {
		case 0:
			// refused combination: a JSON table takes UTF8 only (the format may come from the file, from a
			// SET FORMAT of the prefix, or from one placed right before)
			if X.format != "JSON" && X.format != "JSONL" {
				to := fw.PickU(t, "set_json", []string{"JSON", "JSONL", "JSONH"})
				f.Pre = append(f.Pre, stmtT{Kind: "set_format_json", SQL: fmt.Sprintf("ALTER TABLE %s SET FORMAT TO '%s';", X.Name, to), Refs: []string{X.Name}})
				X.format = strings.TrimSuffix(to, "H")
			}
			f.FK, f.Errno, f.Part = "set_refused_combination", errAttrValue, true
			set("ENCODING", "'"+fw.PickU(t, "set_bad_encoding", []string{"UTF16", "UTF16", "SJIS", "UTF8M", "UTF16LE", "UTF16BEM"})+"'")
		case 1:
			f.FK, f.Errno = "set_invalid_value", errAttrValue
			av := fw.PickU(t, "set_invalid", [][2]string{{"FORMAT", "'NOSUCH'"}, {"FORMAT", "''"}, {"ENCODING", "'NOSUCH'"}, {"ENCODING", "'AUTO'"},
				{"DELIMITER", "'ab'"}, {"DELIMITER", "''"}, {"DELIMITER_POSITIONS", "'abc'"}, {"DELIMITER_POSITIONS", "'[1, x]'"},
				{"LINE_BREAK", "'XX'"}, {"JSON_ESCAPE", "'XX'"}})
			set(av[0], av[1])
		case 2:
			f.FK, f.Errno = "set_value_not_allowed", errAttrNotAllowed
			av := fw.PickU(t, "set_not_allowed", [][2]string{{"HEADER", "'abc'"}, {"HEADER", "NULL"}, {"ENCLOSE_ALL", "'maybe'"}, {"PRETTY_PRINT", "NULL"},
				{"FORMAT", "NULL"}, {"ENCODING", "NULL"}, {"LINE_BREAK", "NULL"}, {"DELIMITER", "NULL"}})
			set(av[0], av[1])
		case 3:
			f.FK, f.Errno = "set_unknown_attribute", errAttrName
			set("NOSUCH", fw.PickU(t, "set_any_val", []string{"'JSON'", "1", "TRUE"}))
		default:
			f.FK, f.Errno = "set_value_fails", errDiv0
			av := fw.PickU(t, "set_eval", [][2]string{{"HEADER", "1 / 0"}, {"FORMAT", "'JS' || (1 / 0)"}, {"ENCODING", "(SELECT 1 / (id - id) FROM " + T.Name + " LIMIT 1)"}, {"PRETTY_PRINT", "1 / 0 = 1"}})
			set(av[0], av[1])
		}
	case "delete_multi_bad_target", "update_multi_bad_target":
		// a table name after DELETE / UPDATE that is not an updatable table of the statement: the names are
		// resolved one after the other, after the FROM clause was loaded (and given its aliases)
		f.SK, f.FK, f.Refs = strings.TrimSuffix(kind, "_bad_target"), "bad_target", both
		from := fmt.Sprintf("%s JOIN %s ON %s.id = %s.id", fromT, fromB, ta, tb)
		if !smallJoin {
			from = fromT
			f.Refs = one
		}
		bad, with := "nosuch", ""
		f.Errno = errNotLoaded
		switch fw.Range(t, "bad_how", 0, 3) {
		case 1:
			// the alias of a subquery
			bad, f.Errno, f.Refs = "s", errInlineTable, both
			from = fmt.Sprintf("%s JOIN (SELECT id FROM %s) s ON %s.id = s.id", fromT, B.Name, ta)
			if !smallJoin {
				from = fmt.Sprintf("%s JOIN (SELECT id FROM %s LIMIT 3) s ON %s.id = s.id", fromT, B.Name, ta)
			}
		case 2:
			// an inline table of the WITH clause
			bad, f.Errno = "c", errInlineTable
			with = "WITH c AS (SELECT 1 AS id) "
			from = fmt.Sprintf("%s JOIN c ON %s.id = c.id", fromT, ta)
			f.Refs = one
		}
		targets := ta + ", " + bad
		f.Part = true
		switch fw.Range(t, "bad_where", 0, 3) {
		case 0:
			targets, f.Part = bad+", "+ta, false
		case 1:
			if strings.Contains(from, fromB+" ON") {
				targets = ta + ", " + tb + ", " + bad
			}
		}
		if kind == "delete_multi_bad_target" {
			f.SQL = fmt.Sprintf("%sDELETE %s FROM %s;", with, targets, from)
		} else {
			f.SQL = fmt.Sprintf("%sUPDATE %s SET %s.v = 'F' FROM %s;", with, targets, ta, from)
		}
	case "insert_values", "replace_values":
		m := fw.Range(t, "values_rows", 1, 6)
		j := m - 1
		if fw.Pct(t, "values_not_last", 60) {
			j = fw.Range(t, "values_j", 0, m-1)
		}
		how := fw.Range(t, "values_how", 0, 3)
		shared := fw.Pct(t, "values_shared", 60)
		f.J, f.M = j, m
		f.FK, f.Errno = "row_length", errRowLength
		if how >= 2 {
			f.FK, f.Errno = "div0", errDiv0
		}
		f.SK = kind
		var rows []string
		for i := 0; i < m; i++ {
			id := T.next + i
			if kind == "replace_values" && i%2 == 0 {
				id = T.ids[(i/2)%len(T.ids)] // an existing key: this row value would update
			}
			if how == 3 {
				// a two-column list; the failing row value fails inside a scalar subquery
				if i == j {
					rows = append(rows, fmt.Sprintf("(%d, (SELECT 1 / (id - id) FROM %s LIMIT 1))", id, T.Name))
				} else if shared {
					rows = append(rows, fmt.Sprintf("(%d, %s)", id, sh.expr()))
				} else {
					rows = append(rows, fmt.Sprintf("(%d, 'F')", id))
				}
				continue
			}
			vals := T.rowVals(id, "F")
			if shared {
				for ci, cn := range T.cols {
					if cn != "id" && fw.Pct(t, "shared_cell", 55) {
						vals[ci] = sh.expr()
					}
				}
			}
			if i == j {
				switch how {
				case 0:
					vals = vals[:len(vals)-1]
				case 1:
					if shared {
						vals = append(vals, sh.expr())
					} else {
						vals = append(vals, "1")
					}
				default:
					vals[len(vals)-1] = "1 / 0"
				}
			}
			rows = append(rows, "("+strings.Join(vals, ", ")+")")
		}
		cols := strings.Join(T.cols, ", ")
		if how == 3 {
			cols = "id, v"
		}
		if kind == "insert_values" {
			if how != 3 && fw.Pct(t, "values_no_list", 60) {
				f.SQL = fmt.Sprintf("INSERT INTO %s VALUES %s;", T.Name, strings.Join(rows, ", "))
			} else {
				f.SQL = fmt.Sprintf("INSERT INTO %s (%s) VALUES %s;", T.Name, cols, strings.Join(rows, ", "))
			}
		} else {
			f.SQL = fmt.Sprintf("REPLACE INTO %s (%s) USING (id) VALUES %s;", T.Name, cols, strings.Join(rows, ", "))
		}
	case "insert_values_unknown":
		f.SK, f.FK, f.Errno, f.Part = "insert_values", "unknown_field", errFieldNotExist, true
		f.SQL = fmt.Sprintf("INSERT INTO %s (id, nosuch) VALUES (%d, 1), (%d, 2);", T.Name, T.next, T.next+1)
	case "insert_select_div0":
		k := pickRow(t, S.ids)
		f.SK, f.FK, f.Drive, f.K, f.Refs = "insert_select", "div0", S.Name, k, srcRefs()
		src := source(t, S, aliased)
		f.SQL = fmt.Sprintf("%sINSERT INTO %s (id, v, w) SELECT id + 5000, 'F', %s FROM %s;", src.with, tn, fx(src.qual+".id"), src.from)
	case "insert_select_length":
		f.SK, f.FK, f.Errno, f.Refs, f.Part = "insert_select", "field_length", errSelectLength, srcRefs(), true
		src := source(t, S, aliased)
		f.SQL = fmt.Sprintf("%sINSERT INTO %s (id, v) SELECT id + 5000, 'F', w FROM %s;", src.with, tn, src.from)
	case "replace_select_div0":
		k := pickRow(t, S.ids)
		f.SK, f.FK, f.Drive, f.K, f.Refs = "replace_select", "div0", S.Name, k, srcRefs()
		src := source(t, S, aliased)
		f.SQL = fmt.Sprintf("%sREPLACE INTO %s (id, v, w) USING (id) SELECT id, 'F', %s FROM %s;", src.with, tn, fx(src.qual+".id"), src.from)
	case "replace_key":
		f.SK, f.FK, f.Errno, f.Part = "replace_values", "key_not_set", errKeyNotSet, true
		f.SQL = fmt.Sprintf("REPLACE INTO %s (v, w) USING (id) VALUES ('F', 1), ('G', 2);", T.Name)
	case "alter_add_div0":
		k := pickRow(t, T.ids)
		f.SK, f.FK, f.Drive, f.K = "alter_add", "div0_default", T.Name, k
		pos := []string{"", " FIRST", " LAST", " AFTER v", " BEFORE id"}[fw.Range(t, "add_pos", 0, 4)]
		x := fx(T.Name + ".id")
		if fw.Pct(t, "add_two", 40) {
			// the first default: a literal, a direct field reference (the new cell holds the object of another cell) or a value read from a table
			d8 := "'F'"
			switch fw.Range(t, "add_default_first", 0, 3) {
			case 1:
				d8, f.Shared = fw.PickU(t, "direct_ref", []string{"v", "w", T.Name + ".v"}), 1
			case 2:
				d8 = sh.expr()
			}
			f.SQL = fmt.Sprintf("ALTER TABLE %s ADD (c8 DEFAULT %s, c9 DEFAULT %s)%s;", tn, d8, x, pos)
		} else {
			f.SQL = fmt.Sprintf("ALTER TABLE %s ADD c9 DEFAULT %s%s;", tn, x, pos)
		}
	case "alter_add_bad":
		f.SK = "alter_add"
		if fw.Pct(t, "shape", 50) {
			f.FK, f.Errno = "duplicate_column", errDuplicate
			f.SQL = fmt.Sprintf("ALTER TABLE %s ADD (c9 DEFAULT 'F', v);", T.Name)
		} else {
			f.FK, f.Errno = "missing_column", errFieldNotExist
			f.SQL = fmt.Sprintf("ALTER TABLE %s ADD c9 DEFAULT 'F' AFTER nosuch;", T.Name)
		}
	case "alter_drop_missing":
		f.SK, f.FK, f.Errno, f.Part = "alter_drop", "missing_column", errFieldNotExist, true
		f.SQL = fmt.Sprintf("ALTER TABLE %s DROP (v, nosuch);", T.Name)
	case "alter_rename_bad":
		f.SK = "alter_rename"
		if fw.Pct(t, "shape", 50) {
			f.FK, f.Errno = "duplicate_column", errDuplicate
			f.SQL = fmt.Sprintf("ALTER TABLE %s RENAME v TO w;", T.Name)
		} else {
			f.FK, f.Errno = "missing_column", errFieldNotExist
			f.SQL = fmt.Sprintf("ALTER TABLE %s RENAME nosuch TO z9;", T.Name)
		}
	case "create_as_div0":
		k := pickRow(t, S.ids)
		f.SK, f.FK, f.Target, f.Drive, f.K, f.Refs = "create_as", "div0", "", S.Name, k, []string{S.Name}
		cols := ""
		if fw.Pct(t, "create_cols", 40) {
			cols = " (a, b, c)"
		}
		src := source(t, S, aliased)
		f.SQL = fmt.Sprintf("CREATE TABLE `%s`%s AS %sSELECT id, v, %s AS q FROM %s;", newFile, cols, src.with, fx(src.qual+".id"), src.from)
	case "create_bad":
		f.Target, f.Refs = "", nil
		switch fw.Range(t, "shape", 0, 3) {
		case 3:
			// the column list matches the query in length but names a column twice: found after the query was evaluated
			f.SK, f.FK, f.Errno, f.Refs, f.Part = "create_as", "duplicate_column", errDuplicate, []string{S.Name}, true
			src := source(t, S, aliased)
			if fw.Pct(t, "dup3", 50) {
				f.SQL = fmt.Sprintf("CREATE TABLE `%s` (a, b, a) AS %sSELECT id, v, w FROM %s;", newFile, src.with, src.from)
			} else {
				f.SQL = fmt.Sprintf("CREATE TABLE `%s` (a, a) AS %sSELECT id, v FROM %s;", newFile, src.with, src.from)
			}
		case 0:
			f.SK, f.FK, f.Errno, f.Refs, f.Part = "create_as", "field_length", errTableLength, []string{S.Name}, true
			src := source(t, S, aliased)
			f.SQL = fmt.Sprintf("CREATE TABLE `%s` (a, b) AS %sSELECT id, v, w FROM %s;", newFile, src.with, src.from)
		case 1:
			f.SK, f.FK, f.Errno = "create", "duplicate_column", errDuplicate
			f.SQL = fmt.Sprintf("CREATE TABLE `%s` (a, b, a);", newFile)
		default:
			f.SK, f.FK, f.Errno, f.Refs = "create_as", "unknown_field", errFieldNotExist, []string{S.Name}
			f.SQL = fmt.Sprintf("CREATE TABLE `%s` AS SELECT id, nosuch FROM %s;", newFile, S.Name)
		}
	case "create_exists":
		E := T
		if E.Kind == "temp" {
			E = B
		}
		f.Target, f.Refs = "", nil
		f.SK, f.FK, f.Errno = "create", "file_exists", errFileExists
		if fw.Pct(t, "shape", 50) {
			f.SQL = fmt.Sprintf("CREATE TABLE `%s` (a, b);", fileOf(E))
		} else {
			f.SK, f.Refs = "create_as", []string{S.Name}
			f.SQL = fmt.Sprintf("CREATE TABLE `%s` AS SELECT id, 'F' AS v FROM %s;", fileOf(E), S.Name)
		}
	case "missing_table":
		// a later item of the FROM clause (or the source of the sub-select) names a file that does not exist:
		// the statement fails while loading, after the tables before it were loaded (for update) and cached
		f.FK, f.Errno, f.Part = "missing_table", errFileNotExist, true
		switch fw.Range(t, "shape", 0, 5) {
		case 0:
			f.SK = "update"
			f.SQL = fmt.Sprintf("UPDATE %s SET %s.v = 'F' FROM %s JOIN nosuch m ON %s.id = m.id;", ta, ta, fromT, ta)
		case 1:
			f.SK, f.Refs = "update_multi", both
			f.SQL = fmt.Sprintf("UPDATE %s, %s SET %s.v = 'F', %s.v = 'G' FROM %s JOIN %s ON %s.id = %s.id JOIN nosuch m ON %s.id = m.id;", ta, tb, ta, tb, fromT, fromB, ta, tb, ta)
			if !smallJoin {
				f.SK, f.Refs = "update", one
				f.SQL = fmt.Sprintf("UPDATE %s SET %s.v = 'F' FROM %s CROSS JOIN nosuch m;", ta, ta, fromT)
			}
		case 2:
			f.SK = "delete"
			f.SQL = fmt.Sprintf("DELETE %s FROM %s JOIN nosuch m ON %s.id = m.id;", ta, fromT, ta)
		case 3:
			f.SK, f.Part = "delete", false
			f.SQL = fmt.Sprintf("DELETE %s FROM nosuch m JOIN %s ON %s.id = m.id;", ta, fromT, ta)
		case 4:
			f.SK = "insert_select"
			f.SQL = fmt.Sprintf("INSERT INTO %s (id, v, w) SELECT id + 5000, 'F', w FROM nosuch;", tn)
		default:
			f.SK = "replace_select"
			f.SQL = fmt.Sprintf("REPLACE INTO %s (id, v) USING (id) SELECT m.id, 'F' FROM %s CROSS JOIN nosuch m;", tn, fromB)
			f.Refs = both
		}
	case "join_on_div0":
		// the join condition fails at row K of the target while the FROM clause is being loaded
		k := pickRow(t, T.ids)
		f.FK, f.Drive, f.K, f.Refs = "div0_join_on", T.Name, k, both
		manyEvaluations = len(T.ids)*len(B.ids) > 600
		on := fmt.Sprintf("%s IS NOT NULL AND %s.id = %s.id", fx(ta+".id"), ta, tb)
		switch fw.Range(t, "shape", 0, 2) {
		case 0:
			f.SK = "update"
			f.SQL = fmt.Sprintf("UPDATE %s SET %s.v = 'F' FROM %s JOIN %s ON %s;", ta, ta, fromT, fromB, on)
		case 1:
			f.SK = "update_multi"
			f.SQL = fmt.Sprintf("UPDATE %s, %s SET %s.v = 'F', %s.v = 'G' FROM %s LEFT JOIN %s ON %s;", ta, tb, ta, tb, fromT, fromB, on)
		default:
			f.SK = "delete_multi"
			f.SQL = fmt.Sprintf("DELETE %s, %s FROM %s JOIN %s ON %s;", ta, tb, fromT, fromB, on)
		}
	case "self_join_div0":
		// the target joined with itself: the same file (or temporary table) is held under two names
		k := pickRow(t, T.ids)
		f.FK, f.Drive, f.K = "div0_self_join", T.Name, k
		switch fw.Range(t, "shape", 0, 2) {
		case 0:
			f.SK = "update"
			f.SQL = fmt.Sprintf("UPDATE p SET p.v = 'F', p.w = %s FROM %s p JOIN %s q ON p.id = q.id;", fx("q.id"), T.Name, T.Name)
		case 1:
			f.SK = "update_multi"
			f.SQL = fmt.Sprintf("UPDATE p, q SET p.v = 'F', q.w = %s FROM %s p JOIN %s q ON p.id = q.id;", fx("p.id"), T.Name, T.Name)
		default:
			f.SK = "delete_multi"
			f.SQL = fmt.Sprintf("DELETE p, q FROM %s p JOIN %s q ON p.id = q.id WHERE %s IS NOT NULL;", T.Name, T.Name, fx("q.id"))
		}
	case "create_if_not_exists":
		// IF NOT EXISTS over a table that exists (on disk or created in this transaction) with other columns
		E := T
		if E.Kind == "temp" {
			E = B
		}
		f.Target, f.Refs = "", []string{E.Name}
		f.SK, f.FK, f.Errno = "create", "if_not_exists_mismatch", errFieldLength
		switch fw.Range(t, "shape", 0, 2) {
		case 0:
			f.SQL = fmt.Sprintf("CREATE TABLE IF NOT EXISTS `%s` (a);", fileOf(E))
		case 1:
			f.Errno = errFieldNotExist
			f.SQL = fmt.Sprintf("CREATE TABLE IF NOT EXISTS `%s` (%s, nosuch);", fileOf(E), strings.Join(E.cols[:len(E.cols)-1], ", "))
		default:
			f.SK, f.Refs = "create_as", []string{E.Name, S.Name}
			f.SQL = fmt.Sprintf("CREATE TABLE IF NOT EXISTS `%s` (a) AS SELECT id FROM %s;", fileOf(E), S.Name)
		}
	case "cancel":
		f.FK = "cancel"
		switch fw.Range(t, "cancel_stmt", 0, 11) {
		case 10, 11:
			// several targets: every cancellation point must come before the first target is stored
			if len(common) > 0 && smallJoin {
				f.SK, f.Refs = "delete_multi", both
				where := fmt.Sprintf(" WHERE %s.id %% 2 = 0", ta)
				if fw.Pct(t, "cancel_delete_all", 40) {
					where = ""
				}
				f.SQL = fmt.Sprintf("DELETE %s, %s FROM %s JOIN %s ON %s.id = %s.id%s;", ta, tb, fromT, fromB, ta, tb, where)
			} else {
				f.SK, f.SQL = "delete", fmt.Sprintf("DELETE FROM %s WHERE %s.id > 0;", fromT, ta)
			}
		case 0:
			f.SK, f.SQL = "update", fmt.Sprintf("UPDATE %s SET v = 'F';", T.Name)
		case 1:
			f.SK, f.SQL = "update", fmt.Sprintf("UPDATE %s SET v = 'F', w = id * 3 WHERE id %% 3 <> 1;", T.Name)
		case 2:
			f.SK, f.SQL = "delete", fmt.Sprintf("DELETE FROM %s WHERE %s.id %% 2 = 0;", fromT, ta)
		case 3:
			f.SK, f.Refs = "insert_select", srcRefs()
			src := source(t, S, aliased)
			f.SQL = fmt.Sprintf("%sINSERT INTO %s (id, v, w) SELECT id + 5000, 'F', w FROM %s;", src.with, tn, src.from)
		case 4:
			f.SK, f.Refs = "replace_select", srcRefs()
			src := source(t, S, aliased)
			f.SQL = fmt.Sprintf("%sREPLACE INTO %s (id, v) USING (id) SELECT id, 'F' FROM %s;", src.with, tn, src.from)
		case 5:
			f.SK, f.SQL = "alter_add", fmt.Sprintf("ALTER TABLE %s ADD c9 DEFAULT id * 2 AFTER id;", T.Name)
		case 6:
			f.SK, f.SQL = "alter_drop", fmt.Sprintf("ALTER TABLE %s DROP w;", T.Name)
		case 7:
			f.SK, f.Target, f.Refs = "create_as", "", []string{S.Name}
			f.SQL = fmt.Sprintf("CREATE TABLE `%s` AS SELECT id, v, w * 2 AS q FROM %s WHERE id > 0;", newFile, S.Name)
		case 8:
			if len(common) > 0 && len(T.ids)*len(B.ids) <= 20000 {
				f.SK, f.Refs = "update_multi", both
				f.SQL = fmt.Sprintf("UPDATE %s, %s SET %s.v = 'F', %s.v = 'G' FROM %s JOIN %s ON %s.id = %s.id;",
					ta, tb, ta, tb, fromT, fromB, ta, tb)
			} else {
				f.SK, f.SQL = "update", fmt.Sprintf("UPDATE %s SET v = 'F' WHERE id > 0;", T.Name)
			}
		default:
			var rows []string
			for i := 0; i < 5; i++ {
				rows = append(rows, T.rowSQL(T.next+i, "F"))
			}
			f.SK, f.SQL = "insert_values", fmt.Sprintf("INSERT INTO %s VALUES %s;", T.Name, strings.Join(rows, ", "))
		}
		seen := map[int]bool{}
		for i := 0; i < 7; i++ {
			var n int
			switch fw.Weighted(t, "cancel_n_class", []int{60, 28, 12}) {
			case 0:
				n = fw.Range(t, "cancel_n", 0, 9)
			case 1:
				n = fw.Range(t, "cancel_n", 10, 40)
			default:
				n = fw.Range(t, "cancel_n", 41, 400)
			}
			if !seen[n] {
				seen[n] = true
				f.Ns = append(f.Ns, n)
			}
		}
		sort.Ints(f.Ns)
	}
	if sh.n > 0 {
		f.Pre, f.Shared = append(f.Pre, sh.pre...), f.Shared+sh.n
		if len(f.Refs) < 2 {
			f.Refs = sh.refList()
		}
	}
	for _, n := range howRefs {
		if len(f.Refs) < 2 && (len(f.Refs) == 0 || f.Refs[0] != n) {
			f.Refs = append(append([]string(nil), f.Refs...), n)
		}
	}
	return f
}

func genCase(t *rapid.T) caseT { return genCaseOf(t, false) }

func genEnumCase(t *rapid.T) caseT { return genCaseOf(t, true) }

func genCaseOf(t *rapid.T, enum bool) caseT {
	w1 := []int{40, 33, 27}
	if enum {
		w1 = []int{50, 32, 18}
	}
	T := genTable(t, "t1", w1)
	B := genTable(t, "t2", []int{72, 14, 14})
	c := caseT{Enum: enum}
	large := T.N >= 160 || B.N >= 160
	if large && fw.Pct(t, "cpu_large", 85) {
		c.CPU = fw.PickU(t, "cpu", []int{2, 4, 4})
	} else {
		c.CPU = fw.PickU(t, "cpu", []int{1, 1, 2, 4})
	}
	c.Cold = fw.Pct(t, "cold", 50)
	c.Poison = fw.Pct(t, "poison", 35)
	c.Tables = []tblT{T.tblT, B.tblT}
	np := fw.Weighted(t, "prefix_len", []int{30, 20, 20, 16, 14})
	for i := 0; i < np; i++ {
		g := T
		if fw.Pct(t, "prefix_other", 30) {
			g = B
		}
		c.Prefix = append(c.Prefix, genPrefix(t, i, g))
	}
	c.F = genFail(t, T, B, genMode{enum: enum})
	if enum {
		c.F.Ns = nil
	}
	c.Ending = []string{"commit", "follow_commit", "rollback"}[fw.Weighted(t, "ending", []int{28, 57, 15})]
	// a valid SET right before COMMIT: what COMMIT then writes depends on every attribute of the table
	var fileBacked []*gTbl
	for _, g := range []*gTbl{T, B} {
		if g.fileBacked() {
			fileBacked = append(fileBacked, g)
		}
	}
	if len(fileBacked) > 0 && c.Ending != "rollback" {
		pct := 20
		if c.F.SK == "alter_set" {
			pct = 85
		}
		if fw.Pct(t, "follow_set", pct) {
			g := fileBacked[fw.Range(t, "follow_set_table", 0, len(fileBacked)-1)]
			if c.F.SK == "alter_set" && c.F.FK != "set_not_a_file" && fw.Pct(t, "follow_set_same", 85) {
				for _, x := range fileBacked {
					if x.Name == c.F.Target {
						g = x
					}
				}
			}
			var sql string
			if fw.Pct(t, "follow_set_format", 70) {
				var others []string
				for _, x := range []string{"CSV", "TSV", "JSON", "JSONL", "LTSV", "GFM"} {
					if x != g.format {
						others = append(others, x)
					}
				}
				sql = fmt.Sprintf("ALTER TABLE %s SET FORMAT TO '%s';", g.Name, fw.PickU(t, "follow_format", others))
			} else {
				sql = genValidSet(t, g)
			}
			c.FollowSet = &stmtT{Kind: "follow_set", SQL: sql, Refs: []string{g.Name}}
		}
	}
	return c
}

// ---------------------------------------------------------------------
// a context that is cancelled after a chosen number of polls

type pollCtx struct {
	mu        sync.Mutex
	armed     bool
	left      int
	cancelled bool
	polls     int
}

func newPollCtx() *pollCtx { return &pollCtx{} }

func (c *pollCtx) Deadline() (time.Time, bool)       { return time.Time{}, false }
func (c *pollCtx) Value(key interface{}) interface{} { return nil }

// Done never fires: csvq's evaluation notices a cancellation by polling Err(); the only
// selects on Done() are the waits for a file lock, which a single session never enters.
// (A channel closed at the moment of cancellation cannot be combined with Reset: the
// goroutine context.WithTimeout starts for a foreign parent reads Err() after Done() and
// panics when the context is live again by then.)
func (c *pollCtx) Done() <-chan struct{} { return nil }

func (c *pollCtx) Err() error {
	c.mu.Lock()
	defer c.mu.Unlock()
	c.polls++
	if c.armed && !c.cancelled {
		if c.left <= 0 {
			c.cancelled = true
		} else {
			c.left--
		}
	}
	if c.cancelled {
		return context.Canceled
	}
	return nil
}

// Arm: the next n polls see a live context, every later one a cancelled context.
func (c *pollCtx) Arm(n int) {
	c.mu.Lock()
	c.armed, c.left, c.polls = true, n, 0
	c.mu.Unlock()
}

// Reset makes the context live again and returns the number of polls since Arm.
func (c *pollCtx) Reset() (polls int, cancelled bool) {
	c.mu.Lock()
	defer c.mu.Unlock()
	polls, cancelled = c.polls, c.cancelled
	c.armed, c.cancelled = false, false
	return
}

// ---------------------------------------------------------------------
// snapshots

// snapT is the observable content of a table: column names and cells as
// text, with NULL kept apart from every text.
type snapT struct {
	Cols  []string
	Rows  [][]string
	Kinds [][]string // value type of every cell as the session returned it (nil: not known, e.g. a modelled table)
}

const nullCell = "\x00NULL"

func snapOf(tbl run.Tbl) snapT {
	s := snapT{Cols: tbl.Header}
	for _, r := range tbl.Rows {
		row := make([]string, len(r))
		kinds := make([]string, len(r))
		for i, v := range r {
			kinds[i] = v.K
			if v.IsNull() {
				row[i] = nullCell
			} else {
				row[i] = v.S
			}
		}
		s.Rows = append(s.Rows, row)
		s.Kinds = append(s.Kinds, kinds)
	}
	if s.Kinds == nil {
		s.Kinds = [][]string{}
	}
	return s
}

// untyped drops the value types: the snapshot then stands for a modelled content.
func (s snapT) untyped() snapT {
	s.Kinds = nil
	return s
}

func initialSnap(t tblT) snapT {
	s := snapT{Cols: []string{"id", "v", "w"}}
	for i := 0; i < t.N; i++ {
		id := idAt(t, i)
		s.Rows = append(s.Rows, []string{fmt.Sprint(id), fmt.Sprintf("a%d", id), fmt.Sprint(id * 10)})
	}
	return s
}

func showRow(r []string) string {
	var ss []string
	for _, c := range r {
		if c == nullCell {
			ss = append(ss, "NULL")
		} else {
			ss = append(ss, fmt.Sprintf("%q", c))
		}
	}
	return "(" + strings.Join(ss, ",") + ")"
}

// diffSnap describes the first difference ("" if equal).
func diffSnap(a, b snapT) string {
	if strings.Join(a.Cols, "\x01") != strings.Join(b.Cols, "\x01") {
		return fmt.Sprintf("columns %v -> %v", a.Cols, b.Cols)
	}
	n := len(a.Rows)
	if len(b.Rows) < n {
		n = len(b.Rows)
	}
	changed := 0
	first := ""
	for i := 0; i < n; i++ {
		if strings.Join(a.Rows[i], "\x01") != strings.Join(b.Rows[i], "\x01") {
			changed++
			if first == "" {
				first = fmt.Sprintf("row %d: %s -> %s", i, showRow(a.Rows[i]), showRow(b.Rows[i]))
			}
		}
	}
	if len(a.Rows) != len(b.Rows) {
		extra := ""
		if len(b.Rows) > len(a.Rows) {
			extra = "; first additional row " + showRow(b.Rows[len(a.Rows)])
		}
		return fmt.Sprintf("%d rows -> %d rows, %d of the common rows differ%s %s", len(a.Rows), len(b.Rows), changed, extra, first)
	}
	if changed > 0 {
		return fmt.Sprintf("%d of %d rows differ; %s", changed, len(a.Rows), first)
	}
	if a.Kinds != nil && b.Kinds != nil {
		// same text: within one session the cells must also still hold values of the same type
		for i := range a.Rows {
			if strings.Join(a.Kinds[i], "") != strings.Join(b.Kinds[i], "") {
				return fmt.Sprintf("row %d %s: the value types of the cells were %v, are now %v (same text)", i, showRow(a.Rows[i]), a.Kinds[i], b.Kinds[i])
			}
		}
	}
	return ""
}

// fileName is the file behind a file-backed table.
func fileName(t tblT) string {
	if t.Kind == "file" && t.Fmt != "" {
		return t.Name + "." + t.Fmt
	}
	return t.Name + ".csv"
}

// contentOf renders the initial file of a file table in its format; every value is text.
func contentOf(t tblT) string {
	var b strings.Builder
	switch t.Fmt {
	case "":
		return csvOf(t)
	case "tsv":
		b.WriteString("id\tv\tw\n")
	case "json":
		b.WriteString("[")
	}
	for i := 0; i < t.N; i++ {
		id := idAt(t, i)
		switch t.Fmt {
		case "tsv":
			fmt.Fprintf(&b, "%d\ta%d\t%d\n", id, id, id*10)
		case "ltsv":
			fmt.Fprintf(&b, "id:%d\tv:a%d\tw:%d\n", id, id, id*10)
		case "jsonl":
			fmt.Fprintf(&b, "{\"id\":\"%d\",\"v\":\"a%d\",\"w\":\"%d\"}\n", id, id, id*10)
		case "json":
			if i > 0 {
				b.WriteString(",")
			}
			fmt.Fprintf(&b, "{\"id\":\"%d\",\"v\":\"a%d\",\"w\":\"%d\"}", id, id, id*10)
		}
	}
	if t.Fmt == "json" {
		b.WriteString("]\n")
	}
	return b.String()
}

// attrsOf lists the attributes of every table the transaction has cached (what SHOW FIELDS reports
// and what COMMIT writes by), read from the FileInfo of the cached views.
func attrsOf(s *run.Sess) map[string]string {
	out := map[string]string{}
	for _, k := range s.Tx.CachedViews.Keys() {
		v, ok := s.Tx.CachedViews.Load(k)
		if !ok || v.FileInfo == nil {
			continue
		}
		fi := v.FileInfo
		out[filepath.Base(fi.Path)] = fmt.Sprintf("format=%v delimiter=%q positions=%v single_line=%v json_query=%q encoding=%v line_break=%q no_header=%v enclose_all=%v json_escape=%v pretty_print=%v",
			fi.Format, fi.Delimiter, fi.DelimiterPositions, fi.SingleLine, fi.JsonQuery, fi.Encoding, fi.LineBreak, fi.NoHeader, fi.EncloseAll, fi.JsonEscape, fi.PrettyPrint)
	}
	return out
}

func csvOf(t tblT) string {
	var b strings.Builder
	eol := "\n"
	if t.Raw == "crlf" {
		eol = "\r\n"
	}
	b.WriteString("id,v,w" + eol)
	for i := 0; i < t.N; i++ {
		id := idAt(t, i)
		switch {
		case t.Raw == "quoted" && i%2 == 0:
			fmt.Fprintf(&b, "%d,\"a%d\",%d%s", id, id, id*10, eol)
		case t.Raw == "noeol" && i == t.N-1:
			fmt.Fprintf(&b, "%d,a%d,%d", id, id, id*10)
		default:
			fmt.Fprintf(&b, "%d,a%d,%d%s", id, id, id*10, eol)
		}
	}
	return b.String()
}

func valuesOf(t tblT) string {
	var rows []string
	for i := 0; i < t.N; i++ {
		id := idAt(t, i)
		rows = append(rows, fmt.Sprintf("(%d,'a%d',%d)", id, id, id*10))
	}
	return strings.Join(rows, ",")
}

// plainFiles are the files of the directory that are not lock / temp files of a transaction.
func plainFiles(dir string) map[string]string {
	out := map[string]string{}
	for name, content := range run.Snapshot(dir) {
		base := filepath.Base(name)
		if strings.HasPrefix(base, ".") && (strings.HasSuffix(base, ".lock") || strings.HasSuffix(base, ".rlock") || strings.HasSuffix(base, ".temp")) {
			continue
		}
		out[name] = content
	}
	return out
}

// ---------------------------------------------------------------------
// execution

var caseSeq int64

type hung struct{ stmt string }

type csvqPanic struct{ msg string }

func (p csvqPanic) Error() string { return p.msg }

type env struct {
	s     *run.Sess
	limit time.Duration
	trace []string
}

// exec runs one statement; a call that does not return within the (very
// generous) limit unwinds the case with a hung panic that checkCase handles.
func (e *env) exec(sql string) run.Res {
	ch := make(chan run.Res, 1)
	go func() {
		defer func() {
			if p := recover(); p != nil {
				ch <- run.Res{Err: csvqPanic{fmt.Sprintf("%v\n%s", p, debug.Stack())}}
			}
		}()
		ch <- e.s.Exec(sql)
	}()
	var r run.Res
	select {
	case r = <-ch:
	case <-time.After(e.limit):
		panic(hung{sql})
	}
	if p, ok := r.Err.(csvqPanic); ok {
		panic("csvq panicked in " + sql + ": " + p.msg) // reported by the framework under the signature "panic"
	}
	line := sql
	if len(line) > 300 {
		line = line[:300] + "..."
	}
	if r.Err != nil {
		line += "   -> " + run.ErrClass(r.Err) + " " + r.Err.Error()
	}
	e.trace = append(e.trace, line)
	return r
}

func (e *env) tail() string {
	t := e.trace
	if len(t) > 14 {
		t = t[len(t)-14:]
	}
	return "\n    " + strings.Join(t, "\n    ")
}

func (e *env) read(name string) (snapT, error) {
	r := e.exec("SELECT * FROM " + name + ";")
	if r.Err != nil {
		return snapT{}, r.Err
	}
	if len(r.Views) != 1 {
		return snapT{}, fmt.Errorf("SELECT * FROM %s gave %d results", name, len(r.Views))
	}
	return snapOf(r.Views[0]), nil
}

// ---------------------------------------------------------------------
// what is observed around a failed statement

// sessH bundles one session over one directory with the tables of the case.
type sessH struct {
	e      *env
	s      *run.Sess
	dir    string
	tables []tblT
}

// stateT is what a failed statement must leave alone besides the table contents: the attributes of
// the cached tables, the plain files of the directory and what the transaction holds for COMMIT.
type stateT struct {
	attrs map[string]string
	files map[string]string
	unc   string
}

const uncommittedQuery = "SELECT @#UNCOMMITTED AS uncommitted, @#CREATED AS created, @#UPDATED AS updated, @#UPDATED_VIEWS AS updated_views;"

// uncommitted reads the runtime information on the pending changes of the transaction (what a COMMIT would write).
func (h *sessH) uncommitted() (string, error) {
	r := h.e.exec(uncommittedQuery)
	if r.Err != nil {
		return "", r.Err
	}
	if len(r.Views) != 1 || len(r.Views[0].Rows) != 1 {
		return "", fmt.Errorf("%s gave no single row", uncommittedQuery)
	}
	var ss []string
	for i, v := range r.Views[0].Rows[0] {
		ss = append(ss, r.Views[0].Header[i]+"="+v.S)
	}
	return strings.Join(ss, " "), nil
}

func (h *sessH) state() (stateT, error) {
	unc, err := h.uncommitted()
	if err != nil {
		return stateT{}, err
	}
	return stateT{attrs: attrsOf(h.s), files: plainFiles(h.dir), unc: unc}, nil
}

// compare compares every table with the wanted state.
func (h *sessH) compare(sigBase, target, what string, want map[string]snapT) *fw.Violation {
	e := h.e
	for _, t := range h.tables {
		w, ok := want[t.Name]
		if !ok {
			continue
		}
		got, err := e.read(t.Name)
		if err != nil {
			return fw.V(sigBase+"_table_unreadable", "%s: SELECT * FROM %s (%s table) fails: %v%s", what, t.Name, t.Kind, err, e.tail())
		}
		if d := diffSnap(w, got); d != "" {
			role := "other"
			if t.Name == target {
				role = "target"
			}
			return fw.V(fmt.Sprintf("%s_changed_%s_%s_table", sigBase, role, t.Kind), "%s: %s (%s table, %d rows) is not what it was before the statement: %s%s", what, t.Name, t.Kind, len(w.Rows), d, e.tail())
		}
		// the columns still belong to the table under its own name: table-qualified references resolve
		if len(w.Cols) > 0 {
			var qs []string
			for _, cn := range w.Cols {
				qs = append(qs, t.Name+"."+cn)
			}
			st := fmt.Sprintf("SELECT %s FROM %s;", strings.Join(qs, ", "), t.Name)
			r := e.exec(st)
			if r.Err != nil {
				return fw.V(fmt.Sprintf("%s_then_qualified_select_fails_%s_table", sigBase, t.Kind), "%s: %s fails: %v (SELECT * FROM %s works)%s", what, st, r.Err, t.Name, e.tail())
			}
			if len(r.Views) != 1 {
				return fw.Harness("%s gave %d results", st, len(r.Views))
			}
			if d := diffSnap(w, snapOf(r.Views[0])); d != "" {
				return fw.V(fmt.Sprintf("%s_qualified_select_differs_%s_table", sigBase, t.Kind), "%s: %s is not the table as it was before the statement: %s%s", what, st, d, e.tail())
			}
		}
	}
	return nil
}

// compareState: attributes of the cached tables, plain files and pending changes are those from before.
func (h *sessH) compareState(sigBase, what string, before stateT, isCreate, noNewControlFile bool) *fw.Violation {
	e := h.e
	after := attrsOf(h.s)
	for _, name := range fw.SortedKeys(before.attrs) {
		if a, ok := after[name]; ok && a != before.attrs[name] {
			return fw.V(sigBase+"_changed_table_attributes", "%s: attributes of %s were {%s}, are now {%s}%s", what, name, before.attrs[name], a, e.tail())
		}
	}
	if d := run.DiffSnap(before.files, plainFiles(h.dir)); d != "" {
		sig := sigBase + "_changed_files"
		if isCreate {
			sig = sigBase + "_left_or_removed_file"
		}
		return fw.V(sig, "%s: files of the directory before -> after: %s%s", what, d, e.tail())
	}
	if noNewControlFile {
		for _, cf := range run.ControlFiles(h.dir) {
			if strings.Contains(cf, newFile) {
				return fw.V(sigBase+"_left_lock", "%s: control file %s of the table that was not created remains%s", what, cf, e.tail())
			}
		}
	}
	// what a COMMIT would write: the failed statement has registered nothing and withdrawn nothing
	unc, err := h.uncommitted()
	if err != nil {
		return fw.V(sigBase+"_then_select_fails", "%s after the failed statement: %v%s", uncommittedQuery, err, e.tail())
	}
	if unc != before.unc {
		return fw.V(sigBase+"_changed_uncommitted_state", "%s: the runtime information on pending changes was {%s}, is now {%s}%s", what, before.unc, unc, e.tail())
	}
	return nil
}

// churn: data-neutral statements that allocate many values of every pooled type, so that an
// object the failed statement wrongly handed back to the pool is overwritten before the tables are read
func (h *sessH) churn(sigBase string) *fw.Violation {
	e := h.e
	stmts := []string{"SELECT 'zz1', 'zz2', 'zz3', 'zz4', 'zz5', 'zz6', 987001, 987002, 987003, 987004, 987005, 98.5, 97.5, 96.5 FROM DUAL;"}
	for _, t := range h.tables {
		stmts = append(stmts, fmt.Sprintf("SELECT v || '~zz', w || '~yy', id + 987000, id * 1.5 FROM %s LIMIT 8;", t.Name))
	}
	stmts = append(stmts, "SELECT 'zy1' || 'zy2', 'zy3', 986001 + 1, 986002, 95.5 FROM DUAL;")
	for _, st := range stmts {
		if r := e.exec(st); r.Err != nil {
			return fw.V(sigBase+"_then_select_fails", "%s after the failed statement: %v%s", st, r.Err, e.tail())
		}
	}
	return nil
}

func sizeClass(n int) string {
	switch {
	case n == 0:
		return "0"
	case n == 1:
		return "1"
	case n <= 6:
		return "2-6"
	case n < 160:
		return "7-159"
	case n < 320:
		return "160-319"
	}
	return "320+"
}

func nClass(n int) string {
	switch {
	case n <= 1:
		return fmt.Sprintf("n%d", n)
	case n <= 3:
		return "n2-3"
	case n <= 7:
		return "n4-7"
	case n <= 15:
		return "n8-15"
	case n <= 40:
		return "n16-40"
	}
	return "n41+"
}

// enumPositions: every row of a table of up to 24 rows; for larger tables the rows around the
// start, the 16-row polling boundary, the worker boundaries, the quartiles and the end.
func enumPositions(n, workers int) []int {
	set := map[int]bool{}
	add := func(i int) {
		if 0 <= i && i < n {
			set[i] = true
		}
	}
	if n <= 24 {
		for i := 0; i < n; i++ {
			add(i)
		}
	} else {
		for _, i := range []int{0, 1, 2, 15, 16, 17, n / 4, n / 2, 3 * n / 4, n - 3, n - 2, n - 1} {
			add(i)
		}
		for w := 1; w < workers; w++ {
			b := w * (n / workers)
			add(b - 1)
			add(b)
			add(b + 1)
		}
	}
	var out []int
	for i := range set {
		out = append(out, i)
	}
	sort.Ints(out)
	return out
}

func checkCase(c caseT) (o fw.Outcome, v *fw.Violation) {
	for _, limit := range []time.Duration{2 * time.Minute, 8 * time.Minute} {
		var h *hung
		func() {
			defer func() {
				if p := recover(); p != nil {
					if hp, ok := p.(hung); ok {
						h = &hp
						return
					}
					panic(p)
				}
			}()
			o, v = checkOnce(c, limit)
		}()
		if h == nil {
			if v != nil && v.Sig != "HARNESS" && strings.Contains(c.F.SQL, fromSubqueryMark) {
				// whatever is observed after a FROM-subquery over a file (DML on it fails, COMMIT does not
				// write its pending changes, a created table is never written) has the one known root cause
				v.Msg = v.Sig + ": " + v.Msg
				v.Sig = "from_subquery_poisons_fileinfo"
			}
			return o, v
		}
		if limit > 2*time.Minute {
			return fw.Outcome{}, fw.V("statement_does_not_return", "%s did not return within %v, also on an isolated second run", h.stmt, limit)
		}
		fw.AddExtra("watchdog_retries", 1)
	}
	return o, v
}

func checkOnce(c caseT, limit time.Duration) (fw.Outcome, *fw.Violation) {
	o := fw.Outcome{}
	class := func(s string) { o.Classes = append(o.Classes, s) }
	if len(c.Tables) != 2 {
		return o, fw.Harness("a case has two tables")
	}
	byName := map[string]tblT{}
	for _, t := range c.Tables {
		if t.N < 1 {
			return o, fw.Harness("table %s without rows", t.Name)
		}
		byName[t.Name] = t
	}

	dir := filepath.Join(fw.WorkDir(), fmt.Sprintf("c08-%d", atomic.AddInt64(&caseSeq, 1)))
	if err := os.MkdirAll(dir, 0755); err != nil {
		return o, fw.Harness("%v", err)
	}
	defer os.RemoveAll(dir)
	files := map[string]string{}
	for _, t := range c.Tables {
		if t.Kind == "file" {
			files[fileName(t)] = contentOf(t)
		}
	}
	if err := run.WriteFiles(dir, files); err != nil {
		return o, fw.Harness("%v", err)
	}
	if c.Poison {
		// verif build: value.Discard overwrites the object with a sentinel instead of pooling it, so
		// a discarded object a table still points to shows at once (cases run one after the other)
		defer func(old bool) { value.VerifPoison = old }(value.VerifPoison)
		value.VerifPoison = true
		class("poison_mode")
	}
	pc := newPollCtx()
	s, err := run.NewSess(run.Opt{Dir: dir, CPU: c.CPU, Ctx: pc})
	if err != nil {
		return o, fw.Harness("%v", err)
	}
	defer s.Close()
	e := &env{s: s, limit: limit}

	// ---- set-up: temporary tables (committed: they have a restore point), then tables created in this transaction
	var setup []string
	for _, t := range c.Tables {
		if t.Kind == "temp" {
			setup = append(setup, fmt.Sprintf("DECLARE %s VIEW (id, v, w);", t.Name), fmt.Sprintf("INSERT INTO %s VALUES %s;", t.Name, valuesOf(t)))
		}
	}
	setup = append(setup, "COMMIT;")
	for _, t := range c.Tables {
		if t.Kind == "created" {
			setup = append(setup, fmt.Sprintf("CREATE TABLE `%s.csv` (id, v, w);", t.Name), fmt.Sprintf("INSERT INTO %s VALUES %s;", t.Name, valuesOf(t)))
		}
	}
	// chain: every state-changing statement of the case except the failing one; the same chain is executed
	// once more in a fresh directory at the end (a failed statement is a no-op: both directories are equal)
	var chain []string
	attrsChanged := map[string]bool{}
	noteSet := func(p stmtT) {
		if strings.Contains(p.SQL, " SET ") && strings.HasPrefix(p.SQL, "ALTER TABLE") {
			for _, n := range p.Refs {
				attrsChanged[n] = true
			}
		}
	}
	for _, t := range c.Tables {
		if t.Kind == "file" && t.Fmt != "" {
			class("file_format:" + t.Fmt)
		}
	}
	chain = append(chain, setup...)
	for _, st := range setup {
		if r := e.exec(st); r.Err != nil {
			return o, fw.Harness("set-up statement failed: %v%s", r.Err, e.tail())
		}
	}
	// the state a ROLLBACK returns to (file tables: what is on disk; temporary tables: the committed set-up)
	committed := map[string]snapT{}
	for _, t := range c.Tables {
		if t.Kind != "created" {
			committed[t.Name] = initialSnap(t)
		}
	}

	// ---- prefix: successful data-changing statements
	touched := map[string]bool{}
	for _, p := range c.Prefix {
		chain = append(chain, p.SQL)
		noteSet(p)
		r := e.exec(p.SQL)
		if r.Err != nil {
			return o, fw.Harness("prefix statement failed: %v%s", r.Err, e.tail())
		}
		for _, n := range p.Refs {
			touched[n] = true
		}
		class("prefix:" + p.Kind)
	}

	// variables and cursors that hold values read from the tables
	for _, p := range c.F.Pre {
		chain = append(chain, p.SQL)
		noteSet(p)
		if r := e.exec(p.SQL); r.Err != nil {
			return o, fw.Harness("statement preparing a variable failed: %v%s", r.Err, e.tail())
		}
		for _, n := range p.Refs {
			touched[n] = true
		}
		class("shared_via:" + p.Kind)
	}
	if c.F.Shared > 0 {
		class("shared_values")
	}

	// ---- before
	before := map[string]snapT{}
	cold := map[string]bool{}
	for _, t := range c.Tables {
		if c.Cold && t.Kind == "file" && !touched[t.Name] {
			// nothing has loaded the file in this session: its content is what the case wrote
			before[t.Name] = initialSnap(t)
			cold[t.Name] = true
			continue
		}
		sn, err := e.read(t.Name)
		if err != nil {
			return o, fw.Harness("reading %s before the statement failed: %v%s", t.Name, err, e.tail())
		}
		before[t.Name] = sn
	}
	f := c.F
	kindOf := func(name string) string {
		if t, ok := byName[name]; ok {
			return t.Kind
		}
		return "none"
	}
	mainTbl := f.Target
	if mainTbl == "" {
		mainTbl = f.Drive
	}
	if mainTbl == "" && len(f.Refs) > 0 {
		mainTbl = f.Refs[0]
	}
	tkind := kindOf(mainTbl)
	state := "clean"
	if touched[mainTbl] {
		state = "dirty"
	} else if cold[mainTbl] {
		state = "cold"
	}
	class("stmt:" + f.SK + "/" + f.FK)
	if f.How != "" {
		class("how:" + f.How)
	}
	if f.ByFile {
		class("target_by_file_name")
	}
	for _, t := range c.Tables {
		if t.Raw != "" {
			class("file_text:" + t.Raw)
		}
	}
	if f.SK == "alter_set" {
		fw.AddExtra("cases:alter_set/"+f.FK, 1)
	}
	class("table:" + tkind)
	class("state:" + state)
	class("ending:" + c.Ending)
	if f.Aliased {
		class("aliased")
	}
	class("size:" + sizeClass(len(before[mainTbl].Rows)))

	// the rows the statement evaluates one by one, in order (ids)
	var driveIDs []string
	if f.Drive != "" {
		idCol := func(sn snapT) int {
			for i, cn := range sn.Cols {
				if cn == "id" {
					return i
				}
			}
			return -1
		}
		d := before[f.Drive]
		ic := idCol(d)
		inCommon := map[string]bool{}
		if f.Common != "" {
			cs := before[f.Common]
			if cc := idCol(cs); cc >= 0 {
				for _, r := range cs.Rows {
					inCommon[r[cc]] = true
				}
			}
		}
		if ic >= 0 {
			for _, r := range d.Rows {
				if f.Common == "" || inCommon[r[ic]] {
					driveIDs = append(driveIDs, r[ic])
				}
			}
		}
	}
	driveN := len(before[mainTbl].Rows)
	if f.Drive != "" {
		driveN = len(driveIDs)
	}
	workers := 1
	if c.CPU > 1 && driveN >= 160 {
		workers = driveN / 80
		if workers > c.CPU {
			workers = c.CPU
		}
	}
	if workers > 1 {
		class(fmt.Sprintf("workers:%d", workers))
	}
	// rowClass: position class of the failing row and whether rows were evaluated before it
	rowClass := func(k string) (string, bool) {
		p := -1
		for i, id := range driveIDs {
			if id == k {
				p = i
				break
			}
		}
		switch {
		case p < 0:
			return "absent", false
		case driveN == 1:
			return "only", false
		case p == 0:
			return "first", false
		case p == driveN-1:
			return "last", true
		case workers > 1 && p >= driveN/workers:
			return "later_worker", true
		}
		return "middle", true
	}

	sigBase := "failed_" + f.SK + "_" + f.FK

	h := &sessH{e: e, s: s, dir: dir, tables: c.Tables}
	stBefore, err := h.state()
	if err != nil {
		return o, fw.Harness("reading the runtime information before the statement failed: %v%s", err, e.tail())
	}
	compare := func(what string, want map[string]snapT) *fw.Violation {
		return h.compare(sigBase, f.Target, what, want)
	}
	compareFiles := func(what string) *fw.Violation {
		return h.compareState(sigBase, what, stBefore, strings.HasPrefix(f.SK, "create"), strings.HasPrefix(f.SK, "create") && f.FK != "file_exists" && f.FK != "if_not_exists_mismatch")
	}
	churn := func() *fw.Violation { return h.churn(sigBase) }

	// ---- the failing statement (enumerating cases: once per failure point, on the same session)
	evals := 0
	fingerprint := func(pos string) {
		fp := strings.Join([]string{f.SK, f.FK, pos, tkind, sizeClass(driveN), state}, "/")
		if f.Shared > 0 {
			fp += "/shared"
		}
		if f.How != "" && f.How != "div0" {
			fp += "/" + f.How
		}
		o.More = append(o.More, fp)
		o.Fingerprint = fp
	}
	if f.FK == "cancel" {
		ns := f.Ns
		if c.Enum {
			ns = nil
			for n := 0; n <= enumMaxPolls; n++ {
				ns = append(ns, n)
			}
		}
		completed := false
		for _, n := range ns {
			pc.Arm(n)
			r := e.exec(f.SQL)
			polls, _ := pc.Reset()
			e.trace[len(e.trace)-1] += fmt.Sprintf("   [context cancelled after %d polls; %d polls made]", n, polls)
			if r.ParseErr {
				return o, fw.Harness("the statement does not parse: %v: %s", r.Err, f.SQL)
			}
			if r.Err == nil {
				// the statement needed no more than n polls: it has completed (and changed the tables)
				class("cancel:completed_in_" + nClass(polls))
				completed = true
				break
			}
			evals++
			what := fmt.Sprintf("after %s was cancelled at poll %d (%v)", f.SQL, n, r.Err)
			if v := churn(); v != nil {
				return o, v
			}
			if v := compare(what, before); v != nil {
				return o, v
			}
			if v := compareFiles(what); v != nil {
				return o, v
			}
			class("cancel:" + nClass(n))
			if n > 1 {
				fingerprint(nClass(n))
			}
		}
		if c.Enum && completed {
			fw.AddExtra("cancel_points:"+f.SK, int64(evals))
			fw.AddExtra("cancel_enumerations:"+f.SK, 1)
		}
		if evals == 0 {
			fw.AddExtra("unexpected_success:cancel", 1)
			return fw.Outcome{Discard: true}, nil
		}
		if completed {
			o.Evals = evals
			return o, nil
		}
	} else {
		type attempt struct {
			sql, pos   string
			nontrivial bool
		}
		var attempts []attempt
		switch {
		case f.K != 0 && c.Enum:
			for _, i := range enumPositions(driveN, workers) {
				pos, nt := rowClass(driveIDs[i])
				attempts = append(attempts, attempt{strings.ReplaceAll(f.SQL, kMark, driveIDs[i]), pos, nt})
			}
			if len(attempts) == 0 {
				fw.AddExtra("enumerate_without_rows", 1)
				return fw.Outcome{Discard: true}, nil
			}
		case f.K != 0:
			pos, nt := rowClass(fmt.Sprint(f.K))
			attempts = []attempt{{strings.ReplaceAll(f.SQL, kMark, fmt.Sprint(f.K)), pos, nt}}
		case f.M > 0 && f.J == 0:
			attempts = []attempt{{f.SQL, "value_first", false}}
		case f.M > 0 && f.J == f.M-1:
			attempts = []attempt{{f.SQL, "value_last", true}}
		case f.M > 0:
			attempts = []attempt{{f.SQL, "value_middle", true}}
		case f.Part:
			attempts = []attempt{{f.SQL, "later_item", true}}
		default:
			attempts = []attempt{{f.SQL, "none", false}}
		}
		for _, a := range attempts {
			r := e.exec(a.sql)
			if r.ParseErr {
				return o, fw.Harness("the statement does not parse: %v: %s", r.Err, a.sql)
			}
			if r.Err == nil {
				fw.AddExtra("unexpected_success:"+f.SK+"/"+f.FK, 1)
				return fw.Outcome{Discard: true}, nil
			}
			evals++
			class("pos:" + a.pos)
			what := fmt.Sprintf("after the failed %s (%v)", a.sql, r.Err)
			if v := churn(); v != nil {
				return o, v
			}
			if v := compare(what, before); v != nil {
				return o, v
			}
			if v := compareFiles(what); v != nil {
				return o, v
			}
			if got := errNumber(r.Err); got != f.Errno {
				// it failed, but not the way it was engineered to: the property still applies, the position does not count
				fw.AddExtra(fmt.Sprintf("other_error:%s/%s:%d", f.SK, f.FK, got), 1)
				class("other_error")
			} else if a.nontrivial {
				fingerprint(a.pos)
			}
		}
	}
	o.Evals = evals

	// ---- ending
	want := map[string]snapT{}
	for k, sn := range before {
		want[k] = sn.untyped() // from here on the contents are modelled and re-read from files
	}
	switch c.Ending {
	case "rollback":
		if r := e.exec("ROLLBACK;"); r.Err != nil {
			return o, fw.V(sigBase+"_then_rollback_fails", "ROLLBACK after the failed statement: %v%s", r.Err, e.tail())
		}
		if v := compare("after the failed statement and ROLLBACK", committed); v != nil {
			v.Sig += "_after_rollback"
			return o, v
		}
		now := plainFiles(dir)
		for name, content := range files {
			if now[name] != content {
				return o, fw.V(sigBase+"_file_changed_after_rollback", "%s differs from its initial content after the failed statement and ROLLBACK%s", name, e.tail())
			}
		}
		if _, ok := now[newFile]; ok {
			return o, fw.V(sigBase+"_left_or_removed_file", "%s exists after the failed CREATE TABLE and ROLLBACK%s", newFile, e.tail())
		}
		return o, nil
	case "follow_commit":
		// the session is still usable: a valid statement on the same table succeeds and does what it says
		ft := f.Target
		if ft == "" {
			ft = c.Tables[0].Name
		}
		st := fmt.Sprintf("INSERT INTO %s (id, v) VALUES (-7, 'post');", ft)
		chain = append(chain, st)
		r := e.exec(st)
		if r.Err != nil {
			return o, fw.V(sigBase+"_then_valid_statement_fails", "%s after the failed statement: %v%s", st, r.Err, e.tail())
		}
		w := want[ft]
		row := make([]string, len(w.Cols))
		for i, cn := range w.Cols {
			switch cn {
			case "id":
				row[i] = "-7"
			case "v":
				row[i] = "post"
			default:
				row[i] = nullCell
			}
		}
		w.Rows = append(append([][]string(nil), w.Rows...), row)
		want[ft] = w
		// UPDATE and DELETE of single rows of BOTH tables, plain and table-qualified, with the documented
		// effect and number of affected records
		for ti, t := range c.Tables {
			w := want[t.Name]
			idc, vc := -1, -1
			for i, cn := range w.Cols {
				switch cn {
				case "id":
					idc = i
				case "v":
					vc = i
				}
			}
			if idc < 0 || vc < 0 || len(w.Rows) == 0 {
				continue
			}
			q1, q2 := t.Name+".", ""
			if ti == 1 {
				q1, q2 = "", t.Name+"."
			}
			x, y := w.Rows[0][idc], w.Rows[len(w.Rows)-1][idc]
			if !intText.MatchString(x) || !intText.MatchString(y) {
				fw.AddExtra("follow_up_skipped:id_not_integer", 1)
				continue
			}
			rows := make([][]string, 0, len(w.Rows))
			n := 0
			for _, r := range w.Rows {
				r = append([]string(nil), r...)
				if r[idc] == x {
					r[vc] = "upd"
					n++
				}
				rows = append(rows, r)
			}
			st := fmt.Sprintf("UPDATE %s SET %sv = 'upd' WHERE %sid = %s;", t.Name, q1, q1, x)
			chain = append(chain, st)
			r := e.exec(st)
			if r.Err != nil {
				return o, fw.V(sigBase+"_then_valid_update_fails", "%s after the failed statement: %v%s", st, r.Err, e.tail())
			}
			if r.Affected != n {
				return o, fw.V(sigBase+"_then_update_affects_wrong_count", "%s after the failed statement updated %d records, the table holds %d with that id%s", st, r.Affected, n, e.tail())
			}
			class("follow_up:update")
			if y != x {
				var kept [][]string
				n = 0
				for _, r := range rows {
					if r[idc] == y {
						n++
					} else {
						kept = append(kept, r)
					}
				}
				rows = kept
				st = fmt.Sprintf("DELETE FROM %s WHERE %sid = %s;", t.Name, q2, y)
				chain = append(chain, st)
				r = e.exec(st)
				if r.Err != nil {
					return o, fw.V(sigBase+"_then_valid_delete_fails", "%s after the failed statement: %v%s", st, r.Err, e.tail())
				}
				if r.Affected != n {
					return o, fw.V(sigBase+"_then_delete_affects_wrong_count", "%s after the failed statement deleted %d records, the table holds %d with that id%s", st, r.Affected, n, e.tail())
				}
				class("follow_up:delete")
			}
			w.Rows = rows
			want[t.Name] = w
		}
		if v := compare("after the failed statement, "+st+" and an UPDATE and a DELETE on both tables", want); v != nil {
			v.Sig += "_after_follow_up"
			return o, v
		}
	}
	if c.FollowSet != nil {
		// a valid SET: what COMMIT writes now depends on every attribute the table has
		chain = append(chain, c.FollowSet.SQL)
		noteSet(*c.FollowSet)
		if r := e.exec(c.FollowSet.SQL); r.Err != nil {
			return o, fw.V(sigBase+"_then_valid_set_fails", "%s after the failed statement: %v%s", c.FollowSet.SQL, r.Err, e.tail())
		}
		class("follow_set")
	}
	chain = append(chain, "COMMIT;")
	if r := e.exec("COMMIT;"); r.Err != nil {
		if strings.Contains(r.Err.Error(), "data encode error") {
			// the table the successful statements of the case built cannot be spelled in its format (FORMAT set to FIXED and
			// an added column that is empty in every record has no width): csvq refuses the commit for a reason that has
			// nothing to do with the failed statement (that refusal is C02's subject) - out of this check's domain
			class("commit_refused_unspellable_table")
			o.Discard = true
			return o, nil
		}
		return o, fw.V(sigBase+"_then_commit_fails", "COMMIT after the failed statement: %v%s", r.Err, e.tail())
	}
	// a table whose attributes a SET statement changed no longer reads back by its file name; those
	// are covered by the comparison with the run without the failed statement below
	wantPost := map[string]snapT{}
	for _, t := range c.Tables {
		if t.Kind == "temp" || !attrsChanged[t.Name] {
			wantPost[t.Name] = want[t.Name]
		}
	}
	// temporary tables in the same session, files through a fresh session
	if v := compare("after the failed statement and COMMIT (same session)", wantPost); v != nil {
		v.Sig += "_after_commit"
		return o, v
	}
	s.Close()
	now := plainFiles(dir)
	var wantFiles []string
	for _, t := range c.Tables {
		if t.Kind != "temp" {
			wantFiles = append(wantFiles, fileName(t))
		}
	}
	sort.Strings(wantFiles)
	gotFiles := fw.SortedKeys(now)
	if strings.Join(wantFiles, " ") != strings.Join(gotFiles, " ") {
		sig := sigBase + "_commit_wrote_other_files"
		if _, ok := now[newFile]; ok {
			sig = sigBase + "_left_or_removed_file"
		}
		return o, fw.V(sig, "after the failed statement and COMMIT the directory holds %v, expected %v%s", gotFiles, wantFiles, e.tail())
	}
	s2, err := run.NewSess(run.Opt{Dir: dir, CPU: 1})
	if err != nil {
		return o, fw.Harness("%v", err)
	}
	defer s2.Close()
	e2 := &env{s: s2, limit: limit}
	for _, t := range c.Tables {
		if t.Kind == "temp" || attrsChanged[t.Name] {
			continue
		}
		fn := fileName(t)
		got, err := e2.read(t.Name)
		if err != nil {
			return o, fw.V(sigBase+"_committed_file_unreadable", "a fresh session cannot read %s after the failed statement and COMMIT: %v\n%s%s", fn, err, now[fn], e.tail())
		}
		if d := diffSnap(want[t.Name], got); d != "" {
			role := "other"
			if t.Name == f.Target {
				role = "target"
			}
			return o, fw.V(fmt.Sprintf("%s_committed_%s_%s_table", sigBase, role, t.Kind), "%s as written by COMMIT is not the table as it was before the failed statement: %s%s", fn, d, e.tail())
		}
		if t.Raw != "" && !touched[t.Name] && c.Ending == "commit" && (c.FollowSet == nil || c.FollowSet.Refs[0] != t.Name) {
			// no successful statement has named this table: COMMIT has nothing to write for it, its text
			// (which a rewrite would not reproduce) is the one the case wrote
			if now[fn] != files[fn] {
				return o, fw.V(sigBase+"_commit_rewrote_untouched_file", "%s was named by the failed statement only, yet COMMIT rewrote it: %q -> %q%s", fn, clipS(files[fn]), clipS(now[fn]), e.tail())
			}
			class("untouched_file_bytes_checked")
		}
		if strings.HasSuffix(fn, ".csv") && t.Raw != "" {
			fw.AddExtra("bytes_not_checked:non_canonical_initial_text", 1)
		} else if strings.HasSuffix(fn, ".csv") {
			// the bytes: header line and one line per record; every cell here is NULL (empty) or a word
			// that needs no quoting, so the CSV text is determined
			if wantBytes, ok := csvBytes(want[t.Name]); ok {
				if got := now[fn]; got != wantBytes {
					return o, fw.V(fmt.Sprintf("%s_committed_bytes_%s_table", sigBase, t.Kind), "%s after the failed statement and COMMIT holds %q, expected %q%s", fn, clipS(got), clipS(wantBytes), e.tail())
				}
				class("committed_bytes_checked")
			} else {
				fw.AddExtra("bytes_not_checked:cell_needs_quoting", 1)
			}
		}
	}

	// ---- the same chain without the failed statement, in a fresh directory: the committed files are the same
	dir2 := dir + "-twin"
	if err := os.MkdirAll(dir2, 0755); err != nil {
		return o, fw.Harness("%v", err)
	}
	defer os.RemoveAll(dir2)
	if err := run.WriteFiles(dir2, files); err != nil {
		return o, fw.Harness("%v", err)
	}
	s3, err := run.NewSess(run.Opt{Dir: dir2, CPU: c.CPU})
	if err != nil {
		return o, fw.Harness("%v", err)
	}
	defer s3.Close()
	e3 := &env{s: s3, limit: limit}
	for _, st := range chain {
		if r := e3.exec(st); r.Err != nil {
			return o, fw.V(sigBase+"_chain_fails_without_it", "the statements of the case without the failed one, in a fresh directory: %s fails (%v) although it succeeded after the failed statement%s\n  without:%s", st, r.Err, e.tail(), e3.tail())
		}
	}
	s3.Close()
	if d := run.DiffSnap(plainFiles(dir2), now); d != "" {
		return o, fw.V(sigBase+"_commit_differs_from_run_without_it", "committed files without -> with the failed statement: %s%s", d, e.tail())
	}
	class("differential_no_op_checked")
	return o, nil
}

var intText = regexp.MustCompile(`^-?[0-9]+$`)
var plainWord = regexp.MustCompile(`^[A-Za-z0-9_.~!-]+$`)

// csvBytes renders a table whose cells are NULL or plain words.
func csvBytes(sn snapT) (string, bool) {
	var b strings.Builder
	b.WriteString(strings.Join(sn.Cols, ",") + "\n")
	for _, r := range sn.Rows {
		for i, c := range r {
			if i > 0 {
				b.WriteByte(',')
			}
			if c == nullCell {
				continue
			}
			if !plainWord.MatchString(c) {
				return "", false
			}
			b.WriteString(c)
		}
		b.WriteByte('\n')
	}
	return b.String(), true
}

func clipS(s string) string {
	if len(s) > 400 {
		return s[:400] + "..."
	}
	return s
}

func TestC08EnumerateFailurePoints(t *testing.T) {
	fw.Run(t, fw.Spec[caseT]{
		ID: "C08", Name: "enumerate_failure_points", Quick: 1200, Thorough: 24000,
		Gen: genEnumCase, Check: checkCase,
		Rule: "same tables, prefix and endings as failed_statement, but the row-bound statement shapes only, and the statement is executed once per failure point on the same session (a failed statement changes nothing, so the next point starts from the same state): K = the id of every row the statement evaluates (tables up to 24 rows; larger tables: rows 0-2, 15-17 around the 16-row polling boundary, both sides of every worker boundary, the quartiles, the last three), or cancellation after N = 0, 1, 2, ... polls until the statement completes. After every execution both tables and the plain files are compared with the state before the first one; the ending (COMMIT / further INSERT + COMMIT / ROLLBACK and re-read by a fresh session) follows the last K. Evaluations = executions of the failing statement; non-trivial and distinct as in failed_statement, one fingerprint per failure point. Round 5: the eight ways of failing at row K, the join-condition and self-join shapes, the non-canonical CSV texts and the oracles on pending changes and value types of failed_statement apply here as well",
		Assumptions: []string{
			"as failed_statement",
			"a cancellation enumeration ends with the first N at which the statement completes; its tables have changed then and no ending is checked",
		},
	})
}

func errNumber(err error) int {
	type numbered interface{ Number() int }
	if e, ok := err.(numbered); ok {
		return e.Number()
	}
	return -1
}

func TestC08FailedStatement(t *testing.T) {
	fw.Run(t, fw.Spec[caseT]{
		ID: "C08", Name: "failed_statement", Quick: 4000, Thorough: 80000,
		Gen: genCase, Check: checkCase,
		Rule: "two tables t1/t2 (file in CSV, TSV, JSON, JSONL or LTSV format, temporary table or table created in the same transaction; 1-340 rows, ~25% of the cases with >=160 rows and cpu 2/4 so that worker goroutines evaluate), a prefix of 0-4 successful INSERT/UPDATE/DELETE/REPLACE/ALTER ADD/DROP/SET <attribute> statements, then ONE statement engineered to fail: UPDATE/DELETE/INSERT..SELECT/REPLACE..SELECT/ALTER ADD DEFAULT/CREATE TABLE AS dividing by (id-K) with K the first/middle/last id, multi-table UPDATE that becomes ambiguous at row K, VALUES lists whose j-th row has the wrong length or fails, unknown fields, missing/duplicate columns, REPLACE key not set, CREATE TABLE over an existing file, a multi-table DELETE/UPDATE whose list of target names holds a name that is not an updatable table of the statement (unknown name, subquery alias, WITH table; before or after valid names), a refused ALTER TABLE ... SET (non-UTF8 ENCODING of a JSON/JSONL table, invalid FORMAT/ENCODING/DELIMITER/DELIMITER_POSITIONS/LINE_BREAK/JSON_ESCAPE value, NULL or non-boolean for HEADER/ENCLOSE_ALL/PRETTY_PRINT, unknown attribute, value expression that fails, temporary table), or a valid statement (single-target UPDATE/DELETE/INSERT/REPLACE/ALTER/CREATE TABLE AS, two-target UPDATE a, b and DELETE a, b over a join) whose context is cancelled after N polls (several N per case). In 60% of the cases the statement names its tables through aliases (t1 a, t2 b, source x) that differ from the table names. Executed statement by statement on one in-process session; oracle: after data-neutral filler SELECTs, SELECT * AND the table-qualified SELECT t.c1, t.c2, ... of both tables and the plain files of the directory are the same before and after; then COMMIT - in 57% of the cases after a further INSERT and, on BOTH tables, an UPDATE and a DELETE of one row (plain and table-qualified names) whose affected counts and effects must match a row model - and a fresh session reads the modelled content from the files, whose bytes must be the modelled CSV text; or ROLLBACK returns to the initial content. After every failed execution the attributes (format, delimiter, positions, encoding, line break, header, enclose-all, JSON escape, pretty print) of every cached table are those from before. Differential no-op oracle for every failure kind: all state-changing statements of the case except the failed one (set-up, prefix, follow-ups, optionally a valid ALTER TABLE ... SET right before COMMIT, COMMIT) are executed again in a fresh directory and both directories must hold the same bytes. Round 5: (a) the row-bound failure is produced in one of eight ways (how:*): 1/(id-K), CASE WHEN id = K THEN 1/0, a correlated scalar subquery over DUAL / over either table (also the target itself) / with an aggregate, a scalar subquery that returns one record for every row but K and all records of a table for K (error 'subquery returns too many records'), a user-defined function that TRIGGERs an ERROR for K, a user-defined function that SELECTs from a table and divides; (b) further statement shapes: a FROM clause / sub-select source naming a file that does not exist after (or before) the tables to update were loaded (missing_table), a join condition that fails at row K of the target (div0_join_on; INNER and LEFT JOIN, one or two targets), the target joined with itself under two names with one or two targets (div0_self_join), CREATE TABLE IF NOT EXISTS over an existing file-backed table (on disk, changed or created in the transaction) whose columns differ (if_not_exists_mismatch, with and without AS SELECT), sub-select sources given as inline tables of a WITH clause, the target named by its file name (`t1.csv`) in 20% of the CSV-backed cases, SET values / first DEFAULT of ALTER ADD that are direct field references or values read from tables; (c) a third of the CSV files are written in a text a rewrite would not reproduce (some cells quoted, CRLF, no final line break): a file table that only the failed statement has named must hold exactly the bytes the case wrote after COMMIT (untouched_file_bytes_checked; signature *_commit_rewrote_untouched_file), and the differential comparison then also sees a table that COMMIT wrote although nothing changed it; (d) after every failed execution the runtime information on pending changes (SELECT @#UNCOMMITTED, @#CREATED, @#UPDATED, @#UPDATED_VIEWS) is what it was before (signature *_changed_uncommitted_state); (e) within the session the cells also keep their value types (string/integer/float/...), not only their text. Non-trivial = the failure strikes after >=1 row / row value / statement item was evaluated (K not first, j>0, N>1); distinct by (statement kind, failure kind, position class, table kind, size class, clean/dirty/cold, shared values, way of failing)",
		Assumptions: []string{
			"tables are compared by column names, row order, cell text and NULL-ness; the value types of the cells are compared only between two reads of the same session with no COMMIT/ROLLBACK and no modelled change in between (a CSV round trip turns every value into text)",
			"@#LOADED_TABLES is not part of the compared runtime information: a failed statement may have loaded (and keeps cached, for update: locked) the tables it named",
			"float division by zero is no error in csvq: a row-bound failure over a JSON table whose ids were written as numbers by an earlier COMMIT may not fail (counted as unexpected_success and discarded)",
			"tables whose attributes a SET statement changed are not re-read by name after COMMIT (the file no longer has the format of its extension); they are covered by the differential comparison",
			"follow-up statements address single rows by id (ids are unique integers); the committed bytes are compared only when every cell is NULL or a word that needs no quoting (measured otherwise as bytes_not_checked:*)",
			"lock and temp files of tables the failed statement loaded for update may appear: they belong to the open transaction, not to the statement's effects; litter after the transaction is C11's subject",
			"the error must be returned, its class is not constrained: a statement that fails differently from the engineered failure is still checked but does not count as non-trivial (measured as other_error:*)",
			"a cancelled statement that completes because it needs fewer polls than N ends the case (measured as cancel:completed_*), a case whose statement never fails is discarded (unexpected_success:*)",
			"ROLLBACK ending: file tables and committed temporary tables must read as initially; tables created in the rolled-back transaction are not examined",
			"FROM-subqueries over a source table are generated unless avoidFromSubqueryPoisonsFileInfo is set; whatever fails after one is reported under the signature from_subquery_poisons_fileinfo (defect repaired in /repo b1128aa)",
			"the ambiguous multi-table UPDATE mostly sets DIRECT field references of the other table (string, integer and - through an added column - float typed), ambiguity at the first/middle/last target record; 60% of the VALUES lists (and one UPDATE shape) contain values that are the very objects table cells hold: scalar subqueries over the target or the other table, variables assigned from a cell (VAR :=, SELECT INTO), variables fetched from a cursor; after every failed execution data-neutral SELECTs over DUAL and both tables allocate strings, integers and floats (so a value object wrongly recycled by the failed statement is overwritten) before BOTH tables are read; 35% of the cases run with value.VerifPoison (verif build) where a discarded object shows a sentinel at once",
		},
	})
}

// ---------------------------------------------------------------------
// failure_sequence: several failing statements of different kinds in one transaction

type stepT struct {
	Op string `json:"op"`           // ok | fail | commit
	St *stmtT `json:"st,omitempty"` // ok: a valid data-changing statement
	F  *failT `json:"f,omitempty"`  // fail: a statement engineered to fail
}

type seqCaseT struct {
	Poison bool    `json:"poison,omitempty"`
	Tables []tblT  `json:"tables"`
	CPU    int     `json:"cpu"`
	Cold   bool    `json:"cold"` // a table whose content is known (no successful statement has named it since it was read) is not re-read before a failing statement
	Steps  []stepT `json:"steps"`
	Retry  int     `json:"retry,omitempty"` // 1-based index of a failing row-bound step whose corrected form (K := 0, an id no row has) is executed after the last step; 0: none
	Ending string  `json:"ending"`          // commit | rollback
}

func genSeqCase(t *rapid.T) seqCaseT {
	T := genTable(t, "t1", []int{52, 36, 12})
	B := genTable(t, "t2", []int{70, 22, 8})
	c := seqCaseT{Tables: []tblT{T.tblT, B.tblT}}
	if (T.N >= 160 || B.N >= 160) && fw.Pct(t, "cpu_large", 85) {
		c.CPU = fw.PickU(t, "cpu", []int{2, 4, 4})
	} else {
		c.CPU = fw.PickU(t, "cpu", []int{1, 1, 2, 4})
	}
	c.Cold = fw.Pct(t, "cold", 50)
	c.Poison = fw.Pct(t, "poison", 35)
	n := fw.Range(t, "steps", 4, 9)
	fails := 0
	addFail := func(i int) {
		X, Y := T, B
		if fw.Pct(t, "fail_on_other", 40) {
			X, Y = B, T
		}
		f := genFail(t, X, Y, genMode{seq: true, step: i})
		// statements that prepare the failing one and succeed: they change the tables for good
		var pre []stmtT
		for _, p := range f.Pre {
			if p.Kind == "add_float" {
				g := T
				if p.Refs[0] == B.Name {
					g = B
				}
				has := false
				for _, cn := range g.cols {
					has = has || cn == "fl"
				}
				if has {
					continue
				}
				g.cols = append(g.cols, "fl")
				g.extra = append(g.extra, "fl")
			}
			pre = append(pre, p)
		}
		f.Pre = pre
		c.Steps = append(c.Steps, stepT{Op: "fail", F: &f})
		fails++
	}
	for i := 0; i < n; i++ {
		op := fw.Weighted(t, "step_op", []int{42, 45, 13})
		if i >= n-2 && fails < 2 {
			op = 1
		}
		switch op {
		case 0:
			g := T
			if fw.Pct(t, "ok_on_other", 40) {
				g = B
			}
			st := genPrefixOf(t, i, g, false)
			c.Steps = append(c.Steps, stepT{Op: "ok", St: &st})
		case 1:
			addFail(i)
		default:
			c.Steps = append(c.Steps, stepT{Op: "commit"})
		}
	}
	// the user corrects the last failing statement that was bound to a row and runs it again
	if fw.Pct(t, "retry", 60) {
		for i := len(c.Steps) - 1; i >= 0; i-- {
			if f := c.Steps[i].F; f != nil && retryable(f) {
				c.Retry = i + 1
				break
			}
		}
	}
	c.Ending = []string{"commit", "rollback"}[fw.Weighted(t, "ending", []int{70, 30})]
	return c
}

// retryable: the statement fails at the row with id K only, so with K := 0 it is a valid statement. Two targets
// over a self-join are left out: both copies of the one table are stored, which of them stays is not determined.
func retryable(f *failT) bool {
	if f.FK == "div0_join_on" && f.SK == "update_multi" {
		return false // LEFT JOIN: the rows without a partner make the update of the second table ambiguous
	}
	return f.K != 0 && f.FK != "cancel" && strings.Contains(f.SQL, kMark) && !(f.FK == "div0_self_join" && strings.HasSuffix(f.SK, "_multi"))
}

func checkSeqCase(c seqCaseT) (o fw.Outcome, v *fw.Violation) {
	for _, limit := range []time.Duration{2 * time.Minute, 8 * time.Minute} {
		var h *hung
		func() {
			defer func() {
				if p := recover(); p != nil {
					if hp, ok := p.(hung); ok {
						h = &hp
						return
					}
					panic(p)
				}
			}()
			o, v = checkSeqOnce(c, limit)
		}()
		if h == nil {
			if v != nil && v.Sig != "HARNESS" {
				for _, st := range c.Steps {
					if st.F != nil && strings.Contains(st.F.SQL, fromSubqueryMark) && strings.Contains(v.Msg, "does not exist") {
						v.Msg = v.Sig + ": " + v.Msg
						v.Sig = "from_subquery_poisons_fileinfo"
						break
					}
				}
			}
			return o, v
		}
		if limit > 2*time.Minute {
			return fw.Outcome{}, fw.V("statement_does_not_return", "%s did not return within %v, also on an isolated second run", h.stmt, limit)
		}
		fw.AddExtra("watchdog_retries", 1)
	}
	return o, v
}

// setupStatements: temporary tables (committed: they have a restore point), then tables created in this transaction.
func setupStatements(tables []tblT) []string {
	var setup []string
	for _, t := range tables {
		if t.Kind == "temp" {
			setup = append(setup, fmt.Sprintf("DECLARE %s VIEW (id, v, w);", t.Name), fmt.Sprintf("INSERT INTO %s VALUES %s;", t.Name, valuesOf(t)))
		}
	}
	setup = append(setup, "COMMIT;")
	for _, t := range tables {
		if t.Kind == "created" {
			setup = append(setup, fmt.Sprintf("CREATE TABLE `%s.csv` (id, v, w);", t.Name), fmt.Sprintf("INSERT INTO %s VALUES %s;", t.Name, valuesOf(t)))
		}
	}
	return setup
}

// readAll reads every table; a table that cannot be read is noted with the class of its error.
func (h *sessH) readAll() (map[string]snapT, map[string]string) {
	snaps, errs := map[string]snapT{}, map[string]string{}
	for _, t := range h.tables {
		sn, err := h.e.read(t.Name)
		if err != nil {
			errs[t.Name] = run.ErrClass(err)
			continue
		}
		snaps[t.Name] = sn
	}
	return snaps, errs
}

func checkSeqOnce(c seqCaseT, limit time.Duration) (fw.Outcome, *fw.Violation) {
	o := fw.Outcome{}
	class := func(s string) { o.Classes = append(o.Classes, s) }
	if len(c.Tables) != 2 {
		return o, fw.Harness("a case has two tables")
	}
	for _, t := range c.Tables {
		if t.N < 1 {
			return o, fw.Harness("table %s without rows", t.Name)
		}
	}
	dir := filepath.Join(fw.WorkDir(), fmt.Sprintf("c08s-%d", atomic.AddInt64(&caseSeq, 1)))
	if err := os.MkdirAll(dir, 0755); err != nil {
		return o, fw.Harness("%v", err)
	}
	defer os.RemoveAll(dir)
	files := map[string]string{}
	for _, t := range c.Tables {
		if t.Kind == "file" {
			files[fileName(t)] = contentOf(t)
			if t.Fmt != "" {
				class("file_format:" + t.Fmt)
			}
			if t.Raw != "" {
				class("file_text:" + t.Raw)
			}
		}
		class("table:" + t.Kind)
	}
	if err := run.WriteFiles(dir, files); err != nil {
		return o, fw.Harness("%v", err)
	}
	if c.Poison {
		defer func(old bool) { value.VerifPoison = old }(value.VerifPoison)
		value.VerifPoison = true
		class("poison_mode")
	}
	pc := newPollCtx()
	s, err := run.NewSess(run.Opt{Dir: dir, CPU: c.CPU, Ctx: pc})
	if err != nil {
		return o, fw.Harness("%v", err)
	}
	defer s.Close()
	e := &env{s: s, limit: limit}
	h := &sessH{e: e, s: s, dir: dir, tables: c.Tables}

	// chain: every statement that succeeded, with the number of records it reported as affected
	type linkT struct {
		sql      string
		affected int
	}
	var chain []linkT
	// runTwin executes the chain in a fresh directory and returns its session (nil and the failing statement if one fails)
	var dir2 string
	twinN := 0
	runTwin := func(upTo int) (*sessH, string, error, *fw.Violation) {
		twinN++
		dir2 = fmt.Sprintf("%s-twin%d", dir, twinN)
		if err := os.MkdirAll(dir2, 0755); err != nil {
			return nil, "", nil, fw.Harness("%v", err)
		}
		if err := run.WriteFiles(dir2, files); err != nil {
			return nil, "", nil, fw.Harness("%v", err)
		}
		s3, err := run.NewSess(run.Opt{Dir: dir2, CPU: c.CPU})
		if err != nil {
			return nil, "", nil, fw.Harness("%v", err)
		}
		h3 := &sessH{e: &env{s: s3, limit: limit}, s: s3, dir: dir2, tables: c.Tables}
		for i := 0; i < upTo; i++ {
			r := h3.e.exec(chain[i].sql)
			if r.Err != nil {
				return h3, chain[i].sql, r.Err, nil
			}
			if r.Affected != chain[i].affected {
				return h3, "", nil, fw.V("seq_affected_count_differs_after_failed_statements", "%s reported %d affected records in the transaction with the failed statements and %d in the same transaction without them%s\n  without:%s", chain[i].sql, chain[i].affected, r.Affected, e.tail(), h3.e.tail())
			}
		}
		return h3, "", nil, nil
	}
	defer func() {
		for i := 1; i <= twinN; i++ {
			os.RemoveAll(fmt.Sprintf("%s-twin%d", dir, i))
		}
	}()

	lastFail := "none"
	failsDone := 0
	// okExec runs a statement that must succeed; after a failed statement a failure is a violation unless
	// the same statements without the failed ones fail in the same way (then the generator is wrong)
	okExec := func(sql, what string) *fw.Violation {
		r := e.exec(sql)
		if r.Err == nil {
			chain = append(chain, linkT{sql, r.Affected})
			return nil
		}
		if failsDone == 0 {
			return fw.Harness("%s failed: %v%s", what, r.Err, e.tail())
		}
		chain = append(chain, linkT{sql, 0})
		h3, at, terr, v := runTwin(len(chain))
		if h3 != nil {
			defer h3.s.Close()
		}
		if v != nil {
			return v
		}
		if terr != nil && at == sql {
			return fw.Harness("%s failed also without the failed statements: %v%s", what, terr, e.tail())
		}
		return fw.V("seq_valid_statement_fails_after_failed_"+lastFail, "%s fails (%v) after failed statements, and succeeds in the same transaction without them%s", sql, r.Err, e.tail())
	}

	for _, st := range setupStatements(c.Tables) {
		if v := okExec(st, "set-up statement"); v != nil {
			return o, v
		}
	}
	// known: contents that need no re-reading (no successful statement has named the table since)
	known := map[string]snapT{}
	for _, t := range c.Tables {
		known[t.Name] = initialSnap(t)
	}
	var path []string
	evals := 0
	okSince := false // a successful statement or COMMIT since the last failed statement
	mixed := false   // >= 2 failed statements with something successful between them
	for si, step := range c.Steps {
		switch step.Op {
		case "ok":
			if step.St == nil {
				return o, fw.Harness("step %d without statement", si)
			}
			if v := okExec(step.St.SQL, "valid statement"); v != nil {
				return o, v
			}
			for _, n := range step.St.Refs {
				delete(known, n)
			}
			path = append(path, "ok:"+step.St.Kind)
			class("ok:" + step.St.Kind)
			okSince = true
		case "commit":
			if v := okExec("COMMIT;", "COMMIT"); v != nil {
				if v.Sig != "HARNESS" {
					v.Sig = "failed_" + lastFail + "_then_commit_fails"
				}
				return o, v
			}
			for _, t := range c.Tables {
				if sn, ok := known[t.Name]; ok && t.Kind != "temp" {
					known[t.Name] = sn.untyped() // the file is read again: its values are text from now on
				}
			}
			path = append(path, "commit")
			class("mid_commit")
			okSince = true
		case "fail":
			f := step.F
			if f == nil {
				return o, fw.Harness("step %d without statement", si)
			}
			for _, p := range f.Pre {
				if v := okExec(p.SQL, "statement preparing a failing one"); v != nil {
					return o, v
				}
				if p.Kind == "add_float" {
					for _, n := range p.Refs {
						delete(known, n)
					}
				}
			}
			before := map[string]snapT{}
			for _, t := range c.Tables {
				if sn, ok := known[t.Name]; ok && c.Cold {
					before[t.Name] = sn
					continue
				}
				sn, err := e.read(t.Name)
				if err != nil {
					if failsDone == 0 {
						return o, fw.Harness("reading %s before the statement failed: %v%s", t.Name, err, e.tail())
					}
					return o, fw.V("failed_"+lastFail+"_table_unreadable", "SELECT * FROM %s fails before step %d: %v%s", t.Name, si, err, e.tail())
				}
				before[t.Name], known[t.Name] = sn, sn
			}
			stBefore, err := h.state()
			if err != nil {
				return o, fw.Harness("reading the runtime information failed: %v%s", err, e.tail())
			}
			sigBase := "failed_" + f.SK + "_" + f.FK
			isCreate := strings.HasPrefix(f.SK, "create")
			after := func(what string) *fw.Violation {
				if v := h.churn(sigBase); v != nil {
					return v
				}
				if v := h.compare(sigBase, f.Target, what, before); v != nil {
					return v
				}
				return h.compareState(sigBase, what, stBefore, isCreate, isCreate && f.FK != "file_exists" && f.FK != "if_not_exists_mismatch")
			}
			class("stmt:" + f.SK + "/" + f.FK)
			if f.How != "" {
				class("how:" + f.How)
			}
			done := 0
			if f.FK == "cancel" {
				for _, n := range f.Ns {
					pc.Arm(n)
					r := e.exec(f.SQL)
					polls, _ := pc.Reset()
					e.trace[len(e.trace)-1] += fmt.Sprintf("   [context cancelled after %d polls; %d polls made]", n, polls)
					if r.ParseErr {
						return o, fw.Harness("the statement does not parse: %v: %s", r.Err, f.SQL)
					}
					if r.Err == nil {
						// the statement has completed and changed the tables in a way the generator has not planned: the case ends here
						class("ended_by_completed_cancel")
						o.Evals = evals
						if evals == 0 {
							return fw.Outcome{Discard: true}, nil
						}
						return o, nil
					}
					done++
					if v := after(fmt.Sprintf("step %d: after %s was cancelled at poll %d (%v)", si, f.SQL, n, r.Err)); v != nil {
						return o, v
					}
				}
			} else {
				sql := strings.ReplaceAll(f.SQL, kMark, fmt.Sprint(f.K))
				r := e.exec(sql)
				if r.ParseErr {
					return o, fw.Harness("the statement does not parse: %v: %s", r.Err, sql)
				}
				if r.Err == nil {
					fw.AddExtra("unexpected_success:"+f.SK+"/"+f.FK+"/"+f.How, 1)
					return fw.Outcome{Discard: true}, nil
				}
				done++
				if v := after(fmt.Sprintf("step %d: after the failed %s (%v)", si, sql, r.Err)); v != nil {
					return o, v
				}
				if got := errNumber(r.Err); got != f.Errno {
					fw.AddExtra(fmt.Sprintf("other_error:%s/%s:%d", f.SK, f.FK, got), 1)
					class("other_error")
				}
			}
			if done > 0 {
				if failsDone > 0 && okSince {
					mixed = true
				}
				failsDone++
				evals += done
				okSince = false
				lastFail = f.SK + "_" + f.FK
				path = append(path, "fail:"+f.SK+"/"+f.FK)
			}
		default:
			return o, fw.Harness("unknown step %q", step.Op)
		}
	}
	o.Evals = evals
	if failsDone == 0 {
		return fw.Outcome{Discard: true}, nil
	}
	class(fmt.Sprintf("failed_statements:%d", failsDone))
	if c.Retry > 0 {
		if c.Retry > len(c.Steps) || c.Steps[c.Retry-1].F == nil || !retryable(c.Steps[c.Retry-1].F) {
			return o, fw.Harness("retry of step %d, which is not a row-bound failing statement", c.Retry)
		}
		f := c.Steps[c.Retry-1].F
		sql := strings.ReplaceAll(f.SQL, kMark, "0")
		if v := okExec(sql, "corrected statement"); v != nil {
			if v.Sig == "HARNESS" {
				// it is not valid for a reason of its own: no subject of the property
				fw.AddExtra("corrected_statement_fails_also_without_failed_statements:"+f.SK+"/"+f.FK, 1)
				return fw.Outcome{Discard: true}, nil
			}
			v.Sig = "seq_corrected_" + f.SK + "_fails_after_it_failed"
			return o, v
		}
		path = append(path, "retry:"+f.SK+"/"+f.FK)
		class("retry:" + f.SK)
	}

	// ---- the transaction as the session sees it at its end, the ending, and what is on disk afterwards
	final, finalErrs := h.readAll()
	endStmt := "COMMIT;"
	if c.Ending == "rollback" {
		endStmt = "ROLLBACK;"
	}
	class("ending:" + c.Ending)
	if r := e.exec(endStmt); r.Err != nil {
		// a violation unless the transaction without the failed statements ends the same way (e.g. COMMIT refuses
		// an LTSV table a corrected DELETE has left without records: 'data empty')
		h3, at, terr, v := runTwin(len(chain))
		if h3 != nil {
			defer h3.s.Close()
		}
		if v != nil {
			return o, v
		}
		if terr != nil {
			return o, fw.Harness("%s fails in the run without the failed statements: %v", at, terr)
		}
		if r3 := h3.e.exec(endStmt); r3.Err != nil && run.ErrClass(r3.Err) == run.ErrClass(r.Err) {
			fw.AddExtra("ending_fails_also_without_failed_statements:"+run.ErrClass(r.Err), 1)
			return fw.Outcome{Discard: true}, nil
		}
		return o, fw.V("failed_"+lastFail+"_then_"+c.Ending+"_fails", "%s after the failed statements: %v (it succeeds in the same transaction without them)%s", endStmt, r.Err, e.tail())
	}
	post, postErrs := h.readAll()
	s.Close()
	now := plainFiles(dir)

	h3, at, terr, v := runTwin(len(chain))
	if h3 != nil {
		defer h3.s.Close()
	}
	if v != nil {
		return o, v
	}
	if terr != nil {
		return o, fw.V("seq_chain_fails_without_failed_statements", "the statements of the case without the failed ones, in a fresh directory: %s fails (%v) although it succeeded among the failed statements%s\n  without:%s", at, terr, e.tail(), h3.e.tail())
	}
	cmp := func(what string, got map[string]snapT, gotErrs map[string]string, want map[string]snapT, wantErrs map[string]string) *fw.Violation {
		for _, t := range c.Tables {
			if gotErrs[t.Name] != wantErrs[t.Name] {
				return fw.V("seq_table_readable_differs_from_run_without_failed_statements", "%s: SELECT * FROM %s gives error %q with the failed statements and %q without them%s\n  without:%s", what, t.Name, gotErrs[t.Name], wantErrs[t.Name], e.tail(), h3.e.tail())
			}
			if _, ok := wantErrs[t.Name]; ok {
				continue
			}
			if d := diffSnap(want[t.Name], got[t.Name]); d != "" {
				return fw.V(fmt.Sprintf("seq_%s_table_differs_from_run_without_failed_statements", t.Kind), "%s: %s (%s table) without -> with the failed statements: %s%s\n  without:%s", what, t.Name, t.Kind, d, e.tail(), h3.e.tail())
			}
		}
		return nil
	}
	twinFinal, twinFinalErrs := h3.readAll()
	if v := cmp("at the end of the transaction", final, finalErrs, twinFinal, twinFinalErrs); v != nil {
		return o, v
	}
	if r := h3.e.exec(endStmt); r.Err != nil {
		return o, fw.Harness("%s fails in the run without the failed statements: %v%s", endStmt, r.Err, h3.e.tail())
	}
	twinPost, twinPostErrs := h3.readAll()
	if v := cmp("after "+endStmt, post, postErrs, twinPost, twinPostErrs); v != nil {
		return o, v
	}
	h3.s.Close()
	if d := run.DiffSnap(plainFiles(dir2), now); d != "" {
		return o, fw.V("seq_files_differ_from_run_without_failed_statements", "files after %s without -> with the failed statements: %s%s", endStmt, d, e.tail())
	}
	class("differential_no_op_checked")
	if failsDone >= 2 {
		fp := strings.Join(path, ">") + "|" + c.Ending + "|" + c.Tables[0].Kind + "," + c.Tables[1].Kind
		if mixed {
			class("failures_with_successes_between")
		}
		o.Fingerprint = fp
	}
	return o, nil
}

func TestC08FailureSequence(t *testing.T) {
	fw.Run(t, fw.Spec[seqCaseT]{
		ID: "C08", Name: "failure_sequence", Quick: 1400, Thorough: 30000,
		Gen: genSeqCase, Check: checkSeqCase,
		Rule: "fault sequences: the two tables of failed_statement and ONE transaction of 4-9 steps drawn from {valid INSERT/UPDATE/DELETE/REPLACE/ALTER ADD/DROP on either table, a statement engineered to fail (every kind of failed_statement except those that change a table attribute; on either table as target; with its own variables, cursors and functions), COMMIT in the middle}, at least two failing statements, ending COMMIT or ROLLBACK. Around EVERY failing statement: both tables (text, NULL-ness and value types; SELECT * and table-qualified SELECT), attributes of the cached tables, plain files and the runtime information on pending changes (@#UNCOMMITTED, @#CREATED, @#UPDATED, @#UPDATED_VIEWS) are the same before and after (filler SELECTs in between). A valid statement that fails after a failed one is a violation unless it also fails in the run without the failed statements. At the end a twin session executes only the statements that succeeded (fresh directory): every statement reports the same number of affected records, both tables read the same (text and value types) before and after the ending statement, and both directories hold the same bytes. Evaluations = executions of failing statements; non-trivial = at least two failing statements were executed; distinct by the sequence of step kinds (ok:<kind> / fail:<statement>/<failure> / commit), the ending and the table kinds",
		Assumptions: []string{
			"as failed_statement for the single failing statement",
			"no step changes a table attribute (ALTER TABLE ... SET): after a COMMIT in the middle the tables are read again by name",
			"a cancelled statement that completes (needs fewer polls than N) ends the case there: its effect is not in the generator's model (measured as ended_by_completed_cancel); a case whose failing statement unexpectedly succeeds is discarded",
			"with cold = true a table is not re-read before a failing statement while its content is known (read before, no successful statement has named it since), so that failing statements also meet tables the session has not loaded (at the start, after a COMMIT)",
		},
	})
}
