//go:build verif

package c16

import (
	"fmt"
	"os"
	"path/filepath"
	"strconv"
	"strings"
	"sync/atomic"
	"testing"

	"pgregory.net/rapid"

	"verif/internal/fw"
	"verif/internal/run"
	"verif/internal/val"
)

// ---------------------------------------------------------------------
// cursor_eval_once: "OPEN evaluates the cursor's query once". The queries of
// this check have a side effect that every evaluation leaves behind: variable
// substitutions (@cnt := @cnt + 1, @w := @w + id * 2) in the select list, in
// WHERE or in a scalar subquery. The counters are read after every statement:
// DECLARE, FETCH, the status expressions, WHILE IN, SHOW CURSORS, CLOSE and
// data changes leave them alone, a successful OPEN moves them exactly as one
// plain evaluation of the query does (run right before from the same start
// values), and the rows the cursor delivers carry the stamps of that one
// evaluation.

type oop struct {
	K     string `json:"k"`               // fetch status while openagain reopen dml setlim show
	Pos   string `json:"pos,omitempty"`   // fetch
	N     int    `json:"n,omitempty"`     // fetch offset; setlim value
	What  string `json:"what,omitempty"`  // status: count range open; dml: insert update delete delall
	Break int    `json:"break,omitempty"` // while: BREAK after this many iterations (0: never)
	ID    int    `json:"id,omitempty"`    // dml target
	Then  string `json:"then,omitempty"`  // reopen: what happens between CLOSE and OPEN: "" dml setlim
}

type onceCase struct {
	Table string `json:"table"` // file | temp
	N     int    `json:"n"`     // rows: id 1..N, v = 'a<id>'
	Query int    `json:"query"`
	Prep  bool   `json:"prep"`
	Lim   int    `json:"lim"`
	Base  int    `json:"base"` // start value of the counters before the first OPEN (every further OPEN starts 1000 higher)
	Ops   []oop  `json:"ops"`
}

type onceQ struct {
	name string
	text string // {L}: @lim, or the placeholder of the prepared form
}

var onceQueries = []onceQ{
	{"select_list", "SELECT id, @cnt := @cnt + 1 FROM t WHERE id > {L} ORDER BY id"},
	{"select_list_scan", "SELECT id, @cnt := @cnt + 1 FROM t"},
	{"where", "SELECT id, v FROM t WHERE (@cnt := @cnt + 1) > 0 AND id > {L} ORDER BY id"},
	{"two_counters", "SELECT id, @cnt := @cnt + 1, @w := @w + id * 2 FROM t WHERE id > {L}"},
	{"no_table", "SELECT @cnt := @cnt + 1, @w := @w + 5"},
	{"scalar_subquery", "SELECT id, (SELECT @cnt := @cnt + 1) FROM t ORDER BY id"},
	{"desc_limit", "SELECT id, @cnt := @cnt + 1 FROM t ORDER BY id DESC LIMIT 3"},
	{"self_join", "SELECT a.id, @cnt := @cnt + 1 FROM t a JOIN t b ON a.id = b.id WHERE a.id > {L}"},
	{"union_all", "SELECT id, @cnt := @cnt + 1 FROM t WHERE id <= 2 UNION ALL SELECT id, @w := @w + 1 FROM t WHERE id > {L}"},
}

func genOnce(t *rapid.T) onceCase {
	c := onceCase{Table: []string{"file", "temp"}[uni(t, "table", 0, 1)]}
	c.N, _ = strconv.Atoi(weighted(t, "nrows", []wt{{"0", 5}, {"1", 10}, {"2", 15}, {"3", 20}, {"4", 15}, {"6", 15}, {"9", 10}, {"12", 10}}))
	c.Query = uni(t, "query", 0, len(onceQueries)-1)
	c.Prep = chance(t, "prep", 30)
	c.Lim = uni(t, "lim", 0, 2)
	c.Base = []int{0, 7, 100}[uni(t, "base", 0, 2)]
	nops := uni(t, "nops", 2, 10)
	for i := 0; i < nops; i++ {
		o := oop{K: weighted(t, "kind", []wt{{"fetch", 38}, {"status", 14}, {"while", 12}, {"openagain", 7}, {"reopen", 10}, {"dml", 12}, {"setlim", 3}, {"show", 4}})}
		switch o.K {
		case "fetch":
			o.Pos = weighted(t, "pos", []wt{{"NEXT", 24}, {"", 6}, {"PRIOR", 16}, {"FIRST", 10}, {"LAST", 10}, {"ABSOLUTE", 18}, {"RELATIVE", 16}})
			switch o.Pos {
			case "ABSOLUTE":
				o.N = uni(t, "abs", -1, c.N+1)
			case "RELATIVE":
				o.N = uni(t, "rel", -3, 3)
			}
		case "status":
			o.What = weighted(t, "status", []wt{{"count", 40}, {"range", 40}, {"open", 20}})
		case "while":
			if chance(t, "from", 60) {
				c.Ops = append(c.Ops, oop{K: "fetch", Pos: "ABSOLUTE", N: uni(t, "fromn", -1, max(c.N-2, 0))})
			}
			if chance(t, "break", 40) {
				o.Break = uni(t, "breakat", 1, 3)
			}
		case "reopen":
			o.Then = weighted(t, "then", []wt{{"", 40}, {"dml", 40}, {"setlim", 20}})
			o.N = uni(t, "relim", 0, 3)
			o.ID = uni(t, "reid", 1, max(c.N, 1))
		case "dml":
			o.What = weighted(t, "dml", []wt{{"insert", 35}, {"update", 30}, {"delete", 25}, {"delall", 10}})
			o.ID = uni(t, "id", 1, max(c.N, 1))
		case "setlim":
			o.N = uni(t, "limv", 0, 3)
		}
		c.Ops = append(c.Ops, o)
	}
	return c
}

// parsePrintedK reads the output of k PRINT statements per iteration (see parsePrinted).
func parsePrintedK(out string, k int) ([][]val.Val, error) {
	out = strings.TrimRight(out, "\n")
	if out == "" {
		return nil, nil
	}
	lines := strings.Split(out, "\n")
	if len(lines)%k != 0 {
		return nil, fmt.Errorf("%d printed lines, not a multiple of %d: %q", len(lines), k, out)
	}
	var rows [][]val.Val
	for i := 0; i < len(lines); i += k {
		var rw []val.Val
		for _, l := range lines[i : i+k] {
			switch {
			case l == "NULL":
				rw = append(rw, val.Null)
			case len(l) >= 2 && l[0] == '\'' && l[len(l)-1] == '\'':
				rw = append(rw, val.Str(l[1:len(l)-1]))
			default:
				if _, err := strconv.ParseFloat(l, 64); err != nil {
					return nil, fmt.Errorf("unexpected printed line %q", l)
				}
				rw = append(rw, val.Val{K: "#", S: l})
			}
		}
		rows = append(rows, rw)
	}
	return rows, nil
}

func checkOnce(c onceCase) (fw.Outcome, *fw.Violation) {
	if c.Query < 0 || c.Query >= len(onceQueries) || c.N < 0 || c.N > 500 {
		return fw.Outcome{Discard: true}, nil
	}
	q := onceQueries[c.Query]
	o := fw.Outcome{Classes: []string{"table:" + c.Table, "query:" + q.name, "rows_in_table:" + sizeClass(c.N)}}
	class := func(s string) { o.Classes = append(o.Classes, s) }

	dir := filepath.Join(fw.WorkDir(), fmt.Sprintf("c16o-%d", atomic.AddInt64(&caseSeq, 1)))
	if err := os.MkdirAll(dir, 0755); err != nil {
		panic(err)
	}
	defer os.RemoveAll(dir)
	if c.Table == "file" {
		var b strings.Builder
		b.WriteString("id,v\n")
		for id := 1; id <= c.N; id++ {
			fmt.Fprintf(&b, "%d,a%d\n", id, id)
		}
		if err := run.WriteFiles(dir, map[string]string{"t.csv": b.String()}); err != nil {
			panic(err)
		}
	}
	s, err := run.NewSess(run.Opt{Dir: dir, CPU: 1, CaptureOut: true})
	if err != nil {
		panic(err)
	}
	defer s.Close()
	e := &env{s: s}

	var setup []string
	if c.Table == "temp" {
		setup = append(setup, "DECLARE t VIEW (id, v);")
		for id := 1; id <= c.N; id++ {
			setup = append(setup, fmt.Sprintf("INSERT INTO t VALUES (%d, 'a%d');", id, id))
		}
		setup = append(setup, "COMMIT;")
	}
	base := c.Base
	setup = append(setup, fmt.Sprintf("VAR @cnt := %d, @w := %d, @n := 0, @lim := %d, %s;", base, base, c.Lim, varList("v", 3)))
	hasParam := strings.Contains(q.text, "{L}")
	if c.Prep {
		setup = append(setup, fmt.Sprintf("PREPARE ps FROM %s;", sqlText(strings.ReplaceAll(q.text, "{L}", "?"))))
	}
	for _, st := range setup {
		if r := e.exec(st); r.Err != nil {
			return o, fw.Harness("set-up statement failed: %s: %v", st, r.Err)
		}
	}
	refStmt, openStmt, declStmt := strings.ReplaceAll(q.text, "{L}", "@lim")+";", "OPEN c;", "DECLARE c CURSOR FOR "+strings.ReplaceAll(q.text, "{L}", "@lim")+";"
	if c.Prep {
		refStmt, declStmt = "EXECUTE ps;", "DECLARE c CURSOR FOR ps;"
		if hasParam {
			refStmt, openStmt = "EXECUTE ps USING @lim;", "OPEN c USING @lim;"
		}
		class("declare:prepared")
	} else {
		class("declare:query")
	}

	// the counters
	readCnt := func() (cnt, *fw.Violation) {
		r := e.exec("SELECT @cnt, @w;")
		if r.Err != nil || len(r.Views) != 1 || len(r.Views[0].Rows) != 1 {
			return cnt{}, fw.Harness("reading the counters: %v%s", r.Err, e.tail())
		}
		rw := r.Views[0].Rows[0]
		return cnt{rw[0].String(), rw[1].String()}, nil
	}
	setCnt := func(b int) *fw.Violation {
		if r := e.exec(fmt.Sprintf("@cnt := %d; @w := %d;", b, b)); r.Err != nil {
			return fw.Harness("%v%s", r.Err, e.tail())
		}
		return nil
	}
	exp := cnt{"I:" + strconv.Itoa(base), "I:" + strconv.Itoa(base)}
	// untouched: the statement just executed must not have evaluated the cursor's query
	untouched := func(what, stmt string) *fw.Violation {
		got, v := readCnt()
		if v != nil {
			return v
		}
		if got != exp {
			return fw.V(what+"_evaluated_query", "%s changed the counters of the cursor's query from (@cnt %s, @w %s) to (@cnt %s, @w %s): the query was evaluated by a statement other than OPEN%s", stmt, exp.c, exp.w, got.c, got.w, e.tail())
		}
		return nil
	}

	if r := e.exec(declStmt); r.Err != nil {
		return o, fw.V("once_declare_error", "%s failed: %v%s", declStmt, r.Err, e.tail())
	}
	if v := untouched("declare", declStmt); v != nil {
		return o, v
	}

	var snap [][]val.Val
	ncols, p, fetched := 0, -1, false
	effect := false // an evaluation of the query is visible in the counters
	var toks []string
	tok := func(s string) { toks = append(toks, s) }
	ln := func() int { return len(snap) }
	inRange := func(x int) bool { return 0 <= x && x < len(snap) }
	nextID := c.N + 1

	// open: the reference evaluation and the OPEN start from the same counter values
	open := func() (bool, *fw.Violation) {
		base += 1000
		if v := setCnt(base); v != nil {
			return false, v
		}
		rr := e.exec(refStmt)
		if rr.Err != nil || len(rr.Views) != 1 {
			fw.AddExtra("out_of_domain:once_reference_failed", 1)
			return false, nil
		}
		after, v := readCnt()
		if v != nil {
			return false, v
		}
		if v := setCnt(base); v != nil {
			return false, v
		}
		if r := e.exec(openStmt); r.Err != nil {
			return false, fw.V("once_open_error", "%s failed (%s %v) although the cursor's query evaluates%s", openStmt, run.ErrClass(r.Err), r.Err, e.tail())
		}
		got, v := readCnt()
		if v != nil {
			return false, v
		}
		start := "I:" + strconv.Itoa(base)
		if got != after {
			times := ""
			if d := after.cInt() - base; d != 0 && (got.cInt()-base)%d == 0 {
				times = fmt.Sprintf(" (@cnt moved %d times as far)", (got.cInt()-base)/d)
			}
			return false, fw.V("open_evaluations", "%s moved the counters from %s to (@cnt %s, @w %s); one evaluation of the cursor's query (%s, right before, from the same start) moves them to (@cnt %s, @w %s)%s%s",
				openStmt, start, got.c, got.w, refStmt, after.c, after.w, times, e.tail())
		}
		exp = got
		if after.c != start || after.w != start {
			effect = true
			class("open:evaluation_visible")
		} else {
			class("open:evaluation_not_visible")
		}
		snap = rr.Views[0].Rows
		ncols = len(rr.Views[0].Header)
		if ncols < 1 || ncols > 3 {
			return false, fw.Harness("unexpected number of columns %d%s", ncols, e.tail())
		}
		p, fetched = -1, false
		class("open:rows:" + sizeClass(ln()))
		return true, nil
	}
	fetchAt := func(pos string, n int, sigPrefix string) (bool, *fw.Violation) {
		ps := pos
		if pos == "ABSOLUTE" || pos == "RELATIVE" {
			ps = pos + " " + strconv.Itoa(n)
		}
		if ps != "" {
			ps += " "
		}
		stmt := fmt.Sprintf("FETCH %sc INTO %s;", ps, varList("v", ncols))
		r := e.exec(resetVars("v", ncols) + stmt + " SELECT " + varList("v", ncols) + ";")
		if r.Err != nil {
			return false, fw.V("once_fetch_error", "%s on an open cursor failed: %s %v%s", stmt, run.ErrClass(r.Err), r.Err, e.tail())
		}
		if len(r.Views) != 1 || len(r.Views[0].Rows) != 1 {
			return false, fw.Harness("unexpected shape reading the variables%s", e.tail())
		}
		obs := r.Views[0].Rows[0]
		x := move(p, pos, n, ln())
		desc := fmt.Sprintf("%s with the pointer at %d over the %d rows of the evaluation at OPEN -> position %d; variables now %s", stmt, p, ln(), x, rowStr(obs))
		p, fetched = x, true
		if v := untouched(sigPrefix+"fetch", stmt); v != nil {
			return false, v
		}
		if !inRange(x) {
			if !allSentinel(obs) && !allNull(obs) {
				return false, fw.V("once_fetch_out_of_range_delivered_data", "%s; no record exists there%s", desc, e.tail())
			}
			return false, nil
		}
		if !rowEq(snap[x], obs) {
			return false, fw.V("once_fetch_not_the_row_of_the_open_evaluation", "%s; the evaluation at OPEN produced %s there%s", desc, rowStr(snap[x]), e.tail())
		}
		return true, nil
	}
	finish := func() (fw.Outcome, *fw.Violation) {
		if effect && len(toks) > 0 {
			o.Fingerprint = fmt.Sprintf("%s|%s|prep=%v|n%d|lim%d|%s", c.Table, q.name, c.Prep, c.N, c.Lim, strings.Join(toks, ""))
		}
		return o, nil
	}

	ok, v := open()
	if v != nil {
		return o, v
	}
	if !ok {
		return fw.Outcome{Discard: true}, nil
	}

	for _, op := range c.Ops {
		switch op.K {
		case "fetch":
			in, v := fetchAt(op.Pos, op.N, "")
			if v != nil {
				return o, v
			}
			class("fetch:" + posName(op.Pos))
			if in {
				class("fetch:in")
				tok("F" + posName(op.Pos)[:1] + "i")
			} else {
				class("fetch:out")
				tok("F" + posName(op.Pos)[:1] + "o")
			}

		case "status":
			var stmt, want string
			switch op.What {
			case "count":
				stmt, want = "SELECT CURSOR c COUNT;", "I:"+strconv.Itoa(ln())
			case "open":
				stmt, want = "SELECT CURSOR c IS OPEN;", "T:TRUE"
			default:
				stmt, want = "SELECT CURSOR c IS IN RANGE;", "T:FALSE"
				if !fetched {
					want = "T:UNKNOWN"
				} else if inRange(p) {
					want = "T:TRUE"
				}
			}
			r := e.exec(stmt)
			if r.Err != nil || len(r.Views) != 1 || len(r.Views[0].Rows) != 1 {
				return o, fw.V("once_status_error", "%s on the open cursor failed: %v%s", stmt, r.Err, e.tail())
			}
			if got := r.Views[0].Rows[0][0].String(); got != want {
				return o, fw.V("once_status", "%s gave %s, expected %s (pointer %d of %d rows, fetched %v)%s", stmt, got, want, p, ln(), fetched, e.tail())
			}
			if v := untouched("status_"+op.What, stmt); v != nil {
				return o, v
			}
			class("status:" + op.What)
			tok("S" + op.What[:1])

		case "show":
			e.s.Out.Reset()
			r := e.exec("SHOW CURSORS;")
			if r.Err != nil {
				return o, fw.V("show_cursors_error", "SHOW CURSORS failed: %v%s", r.Err, e.tail())
			}
			listed, perr := parseShowCursors(e.s.Out.String())
			if perr != nil {
				return o, fw.Harness("SHOW CURSORS: %v: %q%s", perr, e.s.Out.String(), e.tail())
			}
			if ent, ok := listed["C"]; !ok || !ent.open || ent.rows != ln() {
				return o, fw.V("show_cursors_rows", "SHOW CURSORS does not list the open cursor c with its %d rows: %q%s", ln(), e.s.Out.String(), e.tail())
			}
			if v := untouched("show_cursors", "SHOW CURSORS;"); v != nil {
				return o, v
			}
			class("show")
			tok("Z")

		case "while":
			brk := ""
			if op.Break > 0 {
				brk = fmt.Sprintf(" @n := @n + 1; IF @n >= %d THEN BREAK; END IF;", op.Break)
			}
			var prints []string
			for i := 1; i <= ncols; i++ {
				prints = append(prints, fmt.Sprintf("PRINT @v%d;", i))
			}
			stmt := fmt.Sprintf("WHILE %s IN c DO %s%s END WHILE;", varList("v", ncols), strings.Join(prints, " "), brk)
			if r := e.exec("@n := 0;"); r.Err != nil {
				return o, fw.Harness("%v%s", r.Err, e.tail())
			}
			e.s.Out.Reset()
			r := e.exec(stmt)
			got, perr := parsePrintedK(e.s.Out.String(), ncols)
			e.trace[len(e.trace)-1] += fmt.Sprintf("   printed %q", e.s.Out.String())
			if perr != nil {
				return o, fw.Harness("%v%s", perr, e.tail())
			}
			if r.Err != nil {
				return o, fw.V("once_while_error", "%s on an open cursor failed: %s %v%s", stmt, run.ErrClass(r.Err), r.Err, e.tail())
			}
			var want [][]val.Val
			if p+1 <= ln() {
				want = snap[p+1:]
			}
			broke := false
			if op.Break > 0 && len(want) >= op.Break {
				want, broke = want[:op.Break], true
			}
			same := len(want) == len(got)
			for i := 0; same && i < len(want); i++ {
				same = printedEq(want[i], got[i])
			}
			if !same {
				var gs, ws []string
				for _, g := range got {
					gs = append(gs, rowStr(g))
				}
				for _, w := range want {
					ws = append(ws, rowStr(w))
				}
				return o, fw.V("once_while_in_visits", "%s with the pointer at %d visited [%s]; the evaluation at OPEN produced [%s] after the pointer (BREAK after %d)%s", stmt, p, strings.Join(gs, " "), strings.Join(ws, " "), op.Break, e.tail())
			}
			if v := untouched("while_in", stmt); v != nil {
				return o, v
			}
			if len(got) > 0 {
				fetched = true
			}
			if broke {
				p += op.Break
				class("while:break")
			} else {
				// past the last record, or (control-flow.md read literally) on it: IS IN RANGE decides, then re-position
				r := e.exec("SELECT CURSOR c IS IN RANGE;")
				if r.Err != nil || len(r.Views) != 1 || len(r.Views[0].Rows) != 1 {
					return o, fw.V("once_status_error", "IS IN RANGE on the open cursor failed: %v%s", r.Err, e.tail())
				}
				if _, v := fetchAt("ABSOLUTE", ln(), "after_while_"); v != nil {
					return o, v
				}
				class("while:complete")
			}
			tok("W")

		case "openagain":
			r := e.exec(openStmt)
			if r.Err == nil || errNum(r.Err) != errOpen {
				return o, fw.V("once_open_open", "%s of the open cursor: %v, expected error %d%s", openStmt, r.Err, errOpen, e.tail())
			}
			// whether the refused OPEN has evaluated the query is not constrained: the counters are taken as they are
			got, v := readCnt()
			if v != nil {
				return o, v
			}
			if got != exp {
				class("open_of_open:query_evaluated")
				exp = got
			} else {
				class("open_of_open:query_not_evaluated")
			}
			tok("O!")

		case "reopen":
			if r := e.exec("CLOSE c;"); r.Err != nil {
				return o, fw.V("once_close_error", "CLOSE of the open cursor failed: %v%s", r.Err, e.tail())
			}
			if v := untouched("close", "CLOSE c;"); v != nil {
				return o, v
			}
			switch op.Then {
			case "dml":
				e.exec(fmt.Sprintf("UPDATE t SET v = v || '+' WHERE id = %d; INSERT INTO t VALUES (%d, 'n%d');", op.ID, nextID, nextID))
				nextID++
			case "setlim":
				e.exec(fmt.Sprintf("@lim := %d;", op.N))
			}
			ok, v := open()
			if v != nil {
				return o, v
			}
			if !ok {
				return finish()
			}
			class("reopen")
			tok("C" + "O")

		case "dml":
			var sql string
			switch op.What {
			case "insert":
				sql = fmt.Sprintf("INSERT INTO t VALUES (%d, 'i%d');", nextID, nextID)
				nextID++
			case "update":
				sql = fmt.Sprintf("UPDATE t SET v = v || '!' WHERE id = %d;", op.ID)
			case "delete":
				sql = fmt.Sprintf("DELETE FROM t WHERE id = %d;", op.ID)
			default:
				sql = "DELETE FROM t;"
			}
			if r := e.exec(sql); r.Err != nil {
				return o, fw.Harness("%s: %v%s", sql, r.Err, e.tail())
			}
			if v := untouched("data_change", sql); v != nil {
				return o, v
			}
			class("dml:" + op.What)
			tok("M")

		case "setlim":
			if r := e.exec(fmt.Sprintf("@lim := %d;", op.N)); r.Err != nil {
				return o, fw.Harness("%v%s", r.Err, e.tail())
			}
			tok("V")
		}
	}

	// the rows of the one evaluation are all still there, by position; then CLOSE
	for i := 0; i <= ln(); i++ {
		if _, v := fetchAt("ABSOLUTE", i, "sweep_"); v != nil {
			if !strings.HasPrefix(v.Sig, "sweep_") {
				v.Sig = "sweep_" + v.Sig
			}
			return o, v
		}
	}
	if r := e.exec("CLOSE c;"); r.Err != nil {
		return o, fw.V("once_close_error", "CLOSE of the open cursor failed: %v%s", r.Err, e.tail())
	}
	if v := untouched("close", "CLOSE c;"); v != nil {
		return o, v
	}
	return finish()
}

// cnt: the two counters as read from the session ("I:<n>")
type cnt struct{ c, w string }

func (x cnt) cInt() int {
	n, _ := strconv.Atoi(strings.TrimPrefix(x.c, "I:"))
	return n
}

func TestC16CursorEvalOnce(t *testing.T) {
	fw.Run(t, fw.Spec[onceCase]{
		ID: "C16", Name: "cursor_eval_once", Quick: 2000, Thorough: 50000,
		Gen: genOnce, Check: checkOnce,
		Rule: "a table t(id, v) of 0-12 rows (CSV file or temporary table, CPU 1) and one cursor over one of 9 queries whose evaluation leaves a trace in two counter variables (variable substitutions @cnt := @cnt + 1 / @w := @w + id * 2 in the select list, in WHERE, in a scalar subquery, under ORDER BY/LIMIT, in a self-join, in both branches of UNION ALL, without a table), declared for the query or (30%) for a prepared statement with a placeholder; DECLARE, OPEN, then 2-11 operations: FETCH in all positions, COUNT / IS IN RANGE / IS OPEN, WHILE IN with and without BREAK, SHOW CURSORS, OPEN of the open cursor, INSERT/UPDATE/DELETE on t, assignments to the variable the query reads, CLOSE + (data change | variable change) + OPEN; at the end FETCH ABSOLUTE 0..len and CLOSE. Oracle: the counters are read after every statement; before every OPEN they are set to a fresh start value, the cursor's query is evaluated as a plain statement (EXECUTE of the prepared statement), the counters are noted and set back, then OPEN must move them to exactly the noted values (= one evaluation) and every later statement up to and including CLOSE must leave them there; every FETCH / WHILE IN delivers the rows of the reference evaluation, whose cells carry the stamps of that one evaluation (a second evaluation would deliver higher stamps). Non-trivial = the evaluation is visible in the counters (the query evaluated at least one substitution) and at least one operation follows the OPEN; distinct by table kind, query, declaration form, size, variable value and operation/outcome sequence",
		Assumptions: []string{
			"a variable substitution in a query is evaluated whenever the clause holding it is evaluated (variable.md); two evaluations of the same query from the same variable values on the same table at CPU 1 leave the same counter values and the same rows",
			"whether an OPEN that is refused because the cursor is open has evaluated the query is not constrained: the counters are taken as found (class open_of_open:*)",
			"variables after an out-of-range fetch: unchanged or NULL",
			"after a WHILE IN that ran to the end the pointer is re-positioned past the end by FETCH ABSOLUTE len (it may be on the last record by the literal reading of control-flow.md)",
		},
	})
}
