//go:build verif

package c16

import (
	"fmt"
	"math"
	"os"
	"path/filepath"
	"regexp"
	"strconv"
	"strings"
	"sync/atomic"
	"testing"

	"github.com/mithrandie/csvq/lib/query"
	"github.com/mithrandie/csvq/lib/value"
	"pgregory.net/rapid"

	"verif/internal/fw"
	"verif/internal/run"
	"verif/internal/val"
)

// Every value handed to value.Discard is overwritten with a poison value and kept out of the pool
// (hook of the verif build): a value object that is discarded while a cursor snapshot (or a variable)
// still refers to it shows up deterministically instead of only when the pool happens to reuse it.
func TestMain(m *testing.M) {
	value.VerifPoison = true
	fw.Main(m)
}

// ---------------------------------------------------------------------
// The case: an initial table and a whole history of statements, generated
// up front. Every statement is executed on ONE in-process session next to a
// model of the cursors written from docs/_posts/2006-01-02-cursor.md.

// Error numbers of lib/query/error_code.go.
const (
	errRedeclared  = 11001
	errUndeclared  = 11002
	errClosed      = 11003
	errOpen        = 11004
	errFetchLength = 11007
	errFetchPos    = 11008
)

// Cursor queries; all have two result columns.
var queries = []string{
	"SELECT id, v FROM t",
	"SELECT id, v FROM t ORDER BY id",
	"SELECT id, v FROM t ORDER BY id DESC",
	"SELECT id, v FROM t WHERE id > @lim ORDER BY id",
	"SELECT v, id FROM t ORDER BY id LIMIT 3",
	"SELECT a.id, b.v FROM t a JOIN t b ON a.id = b.id ORDER BY a.id",
	fromSubquery,
	"SELECT id, v FROM t WHERE id % 2 = 0",
	// 8-11: queries whose evaluation fails for some table states (the OPEN must then fail and leave the cursor closed)
	"SELECT id, 100 / (id - @lim) FROM t ORDER BY id",                       // division by zero in the select list when some id = @lim
	"SELECT id, v FROM t WHERE 100 / (id - @lim) > 0 ORDER BY id",           // ... in WHERE
	"SELECT id, (SELECT s.v FROM t s WHERE s.id > @lim) FROM t ORDER BY id", // scalar subquery with too many records
	"SELECT id, v FROM u ORDER BY id",                                       // table u exists only after "mku" (and not after its rollback / disposal)
	// 12-13: integer- and float-typed result columns also over the CSV file
	"SELECT id, id * 10 FROM t ORDER BY id",
	"SELECT INTEGER(id), FLOAT(id) / 4 FROM t ORDER BY id",
}

const (
	qDivSelect = 8
	qDivWhere  = 9
	qSubquery  = 10
	qTableU    = 11
	pInto      = 2
)

// A FROM-subquery over a file marks the CACHED FileInfo of t as an inline table
// with an empty path (load_view.go:405-412 works on the shared *FileInfo), after
// which every INSERT/UPDATE/DELETE on t fails with "file  does not exist". That
// is a defect outside this property (the history could no longer change t), so
// the generator uses the equivalent common table expression instead.
const avoidFromSubqueryPoisonsFileInfo = false

var fromSubquery = func() string {
	if avoidFromSubqueryPoisonsFileInfo {
		return "WITH s AS (SELECT id, v FROM t) SELECT id, v FROM s"
	}
	return "SELECT id, v FROM (SELECT id, v FROM t) s"
}()

// Prepared statements (one placeholder each), prepared as s0, s1 at set-up.
var prepared = []string{
	"SELECT id, v FROM t WHERE id >= ? ORDER BY id",
	"SELECT v, id FROM t WHERE id <> ?",
	// SELECT ... INTO is accepted in a prepared statement: at most one record may match
	"SELECT id, v INTO @p, @q FROM t WHERE id <= ? ORDER BY id",
}

// the same without the INTO clause: the rows the cursor holds when the OPEN succeeds
const intoRows = "SELECT id, v FROM t WHERE id <= ? ORDER BY id"

const sentinel = "#s"

// offsets of FETCH ABSOLUTE/RELATIVE near the ends of the 64-bit (and 32-bit) integer range
var hugeOffsets = []int{math.MaxInt64, math.MaxInt64 - 1, -math.MaxInt64, -math.MaxInt64 + 1, 1 << 62, -(1 << 62), 1 << 31, 1<<32 + 1, -(1 << 31) - 1, math.MaxInt64 - 5}

func isHuge(n int) bool { return n > 1<<30 || n < -(1<<30) }

// float literals beyond the 64-bit integer range (the first: 2^63 exactly, the smallest such value)
var hugeFloats = []string{"9223372036854775808.0", "1e19", "1e30", "9.3e18", "1.5e300", "-9223372036854775809.0", "-1e19", "-1e30", "-9.3e18", "-1.5e300"}

// spell renders a cursor name: identifiers are case-insensitive and may be enclosed in grave accents.
func spell(cur string, sp int) string {
	switch sp {
	case 1:
		return strings.ToUpper(cur)
	case 2:
		return "`" + cur + "`"
	case 3:
		return "`" + strings.ToUpper(cur) + "`"
	}
	return cur
}

type row struct {
	ID int    `json:"id"`
	V  string `json:"v"`
}

type opT struct {
	K         string `json:"k"`                    // declare open fetch loopfetch close dispose while shadowloop status show checkheld dml alter mku rmu alloc dispvar commit rollback setvar
	Cur       string `json:"cur,omitempty"`        // c1 | c2
	Q         int    `json:"q,omitempty"`          // declare: index into queries / prepared
	Prep      bool   `json:"prep,omitempty"`       // declare: cursor for prepared statement s<Q>
	Using     int    `json:"using,omitempty"`      // open: replace value
	UsingMode string `json:"using_mode,omitempty"` // open of a prepared-statement cursor: "" one value, "none" no USING, "two" two values
	Off       string `json:"off,omitempty"`        // fetch ABSOLUTE/RELATIVE: offset given as "" literal N, a/b (variable filled by an earlier fetch), k (@k), kexpr (@k - 1), litexpr (N + 0)
	Reps      int    `json:"reps,omitempty"`       // loopfetch: iterations of the same FETCH statement
	Act       string `json:"act,omitempty"`        // while: what the body does to the loop cursor: "" dispose close reopen
	At        int    `json:"at,omitempty"`         // while/shadowloop: in which iteration
	Via       string `json:"via,omitempty"`        // while: "direct" (unconditionally in the body) or "if" (inside a nested IF)
	RefAfter  bool   `json:"ref_after,omitempty"`  // open: the reference SELECT runs right after OPEN instead of right before
	Pos       string `json:"pos,omitempty"`        // fetch: "" NEXT PRIOR FIRST LAST ABSOLUTE RELATIVE
	N         int    `json:"n,omitempty"`          // fetch: number; setvar: value
	NVars     int    `json:"nvars,omitempty"`      // fetch: number of INTO variables (2 = matching)
	DeclVar   bool   `json:"decl_var,omitempty"`   // while: WHILE VAR ...
	Inner     bool   `json:"inner,omitempty"`      // while: the body declares and opens a cursor of its own (local to each iteration)
	Break     int    `json:"break,omitempty"`      // while: BREAK after this many iterations (0: never)
	Body      string `json:"body,omitempty"`       // while: DML in the loop body: "" updall delall ins
	What      string `json:"what,omitempty"`       // status: open range count; dml: insert update updall updid delete delall; alter: drop add ren renback; mku: file temp; alloc: inc mix sel str strsel print; dispvar: a b both o
	Print     bool   `json:"print,omitempty"`      // status: PRINT instead of SELECT
	ID        int    `json:"id,omitempty"`         // dml
	Tag       int    `json:"tag,omitempty"`        // dml
	Sp        int    `json:"sp,omitempty"`         // spelling of the cursor name in this statement: 0 c1, 1 C1, 2 `c1`, 3 `C1` (character case of identifiers is insensitive)
	Into      string `json:"into,omitempty"`       // fetch: "" INTO @a, @b; "h" INTO @ha, @hb (holder variables that only such fetches assign; "checkheld" reads them back later)
	FOff      string `json:"foff,omitempty"`       // fetch ABSOLUTE/RELATIVE: the offset is this float literal whose magnitude exceeds the integer range (N holds the saturated integer)
}

type histCase struct {
	Table string `json:"table"` // file | temp
	Rows  []row  `json:"rows"`
	Lim   int    `json:"lim"`
	Ops   []opT  `json:"ops"`
}

// ---------------------------------------------------------------------
// generator

type wt struct {
	k string
	w int
}

// uni draws lo..hi (nearly) uniformly. rapid's integer generators are heavily
// biased towards small values (P(IntRange(0,99) < 5) is about 1/3), which would
// distort the operation mix; single bits are fair, and they still shrink towards lo.
func uni(t *rapid.T, label string, lo, hi int) int {
	x := 0
	for i := 0; i < 11; i++ {
		x <<= 1
		if rapid.Bool().Draw(t, label) {
			x |= 1
		}
	}
	return lo + x%(hi-lo+1)
}

func chance(t *rapid.T, label string, pct int) bool { return uni(t, label, 0, 99) >= 100-pct }

func weighted(t *rapid.T, label string, ws []wt) string {
	total := 0
	for _, w := range ws {
		total += w.w
	}
	x := uni(t, label, 0, total-1)
	for _, w := range ws {
		if x < w.w {
			return w.k
		}
		x -= w.w
	}
	return ws[len(ws)-1].k
}

type gcur struct {
	declared, open, prep bool
	q                    int
	ln, ptr              int // rough idea of the snapshot length and the pointer, only to aim fetches
}

// risky: the OPEN of this cursor can fail depending on the table state.
func (g *gcur) risky() bool {
	if g.prep {
		return g.q == pInto
	}
	return g.q >= qDivSelect && g.q <= qTableU
}

func genFetch(t *rapid.T, cur string, g *gcur) opT {
	o := opT{K: "fetch", Cur: cur, NVars: 2}
	if g.open && g.ln > 0 && chance(t, "aimed", 45) {
		// aim at a record that (by the generator's rough idea of length and pointer) exists
		target := uni(t, "target", 0, g.ln-1)
		how := weighted(t, "how", []wt{{"RELATIVE", 45}, {"ABSOLUTE", 35}, {"step", 20}})
		switch {
		case how == "step" && target == g.ptr+1:
			o.Pos = []string{"NEXT", ""}[uni(t, "implicit", 0, 1)]
		case how == "step" && target == g.ptr-1:
			o.Pos = "PRIOR"
		case how == "step" && target == 0:
			o.Pos = "FIRST"
		case how == "step" && target == g.ln-1:
			o.Pos = "LAST"
		case how == "ABSOLUTE":
			o.Pos, o.N = "ABSOLUTE", target
		default:
			o.Pos, o.N = "RELATIVE", target-g.ptr
		}
	} else {
		o.Pos = weighted(t, "pos", []wt{{"NEXT", 20}, {"", 6}, {"PRIOR", 18}, {"FIRST", 8}, {"LAST", 10}, {"ABSOLUTE", 16}, {"RELATIVE", 22}})
		switch o.Pos {
		case "ABSOLUTE":
			o.N = uni(t, "abs", -3, 9)
		case "RELATIVE":
			if chance(t, "smallrel", 60) {
				o.N = uni(t, "rel", -2, 2)
			} else {
				o.N = uni(t, "rel", -9, 9)
			}
		}
		if (o.Pos == "ABSOLUTE" || o.Pos == "RELATIVE") && chance(t, "huge", 9) {
			// offsets near the ends of the integer range: the addressed position does not exist, the pointer
			// goes beyond that end of the view (a sum with the pointer must not wrap around)
			o.N = hugeOffsets[uni(t, "hugen", 0, len(hugeOffsets)-1)]
			if chance(t, "hugefloat", 40) {
				// the same written as a float literal beyond the integer range: refused, or beyond that end of the view
				o.FOff = hugeFloats[uni(t, "hugef", 0, len(hugeFloats)-1)]
				o.N = math.MaxInt64
				if o.FOff[0] == '-' {
					o.N = -math.MaxInt64
				}
			}
			return o
		}
	}
	if chance(t, "hold", 12) {
		o.Into = "h"
	}
	if o.Pos == "ABSOLUTE" || o.Pos == "RELATIVE" {
		// the offset as a literal, a variable (also one filled by an earlier FETCH) or a small expression
		o.Off = weighted(t, "off", []wt{{"", 60}, {"a", 15}, {"b", 5}, {"k", 9}, {"kexpr", 5}, {"litexpr", 6}})
	}
	switch x := uni(t, "nvars", 0, 99); {
	case x < 3:
		o.NVars = 1
	case x < 5:
		o.NVars = 3
	}
	return o
}

func genLoopFetch(t *rapid.T, cur string, g *gcur) opT {
	o := opT{K: "loopfetch", Cur: cur, Reps: uni(t, "reps", 2, 4)}
	if chance(t, "loopabs", 60) {
		o.Pos = "ABSOLUTE"
		if g.ln > 0 && chance(t, "loopaimed", 85) {
			o.N = uni(t, "looptarget", 0, g.ln-1)
		} else {
			o.N = uni(t, "loopabsn", -2, 8)
		}
	} else {
		o.Pos = "RELATIVE"
		o.N = []int{1, 1, -1, 2, 0, -2}[uni(t, "looprel", 0, 5)]
	}
	return o
}

func genWhile(t *rapid.T, cur string) opT {
	o := opT{K: "while", Cur: cur}
	o.DeclVar = chance(t, "declvar", 30)
	if chance(t, "break", 40) {
		o.Break = uni(t, "breakAt", 1, 4)
	}
	o.Body = weighted(t, "body", []wt{{"", 55}, {"updall", 20}, {"delall", 10}, {"ins", 15}})
	o.Inner = o.Body == "" && chance(t, "innerCursor", 30)
	if act := weighted(t, "act", []wt{{"", 55}, {"dispose", 18}, {"close", 12}, {"reopen", 15}}); act != "" {
		// the body disposes / closes / closes and reopens the loop cursor in some iteration
		o.Act, o.Break, o.Body, o.Inner = act, 0, "", false
		o.At = []int{1, 1, 1, 1, 2, 2, 3}[uni(t, "at", 0, 6)]
		o.Via = "if"
		if act != "reopen" && chance(t, "direct", 35) {
			o.Via = "direct"
		}
	}
	return o
}

func genStatus(t *rapid.T, cur string, whats []wt) opT {
	return opT{K: "status", Cur: cur, What: weighted(t, "what", whats), Print: chance(t, "print", 30)}
}

func genCase(t *rapid.T) histCase {
	c := histCase{Table: []string{"file", "temp"}[uni(t, "table", 0, 1)]}
	n, _ := strconv.Atoi(weighted(t, "nrows", []wt{{"0", 7}, {"1", 9}, {"2", 14}, {"3", 17}, {"4", 18}, {"5", 17}, {"6", 18}}))
	ids := rapid.Permutation(seq(1, n)).Draw(t, "order")
	for _, id := range ids {
		c.Rows = append(c.Rows, row{ID: id, V: fmt.Sprintf("a%d", id)})
	}
	c.Lim = uni(t, "lim", 0, 3)
	nops := uni(t, "nops", 4, 25)
	curs := map[string]*gcur{"c1": {}, "c2": {}}
	live := append([]int(nil), ids...)
	nextID := n + 1
	altered := false

	// apply keeps the generator's rough idea of the state in step with an operation
	apply := func(o opT) {
		g := curs[o.Cur]
		switch o.K {
		case "declare":
			if !g.declared {
				*g = gcur{declared: true, prep: o.Prep, q: o.Q}
			}
		case "open":
			if g.declared && !g.open {
				g.open, g.ln, g.ptr = true, len(live), -1
			}
		case "fetch":
			if g.open && o.NVars == 2 && (o.Off == "" || o.Off == "litexpr") {
				g.ptr = move(g.ptr, o.Pos, o.N, g.ln)
			}
		case "loopfetch":
			if g.open {
				for i := 0; i < o.Reps; i++ {
					g.ptr = move(g.ptr, o.Pos, o.N, g.ln)
				}
			}
		case "close":
			g.open = false
		case "dispose":
			*g = gcur{}
		case "while":
			if g.open && o.Act == "dispose" {
				*g = gcur{}
			} else if g.open && o.Act == "close" {
				g.open = false
			} else if g.open {
				if o.Break > 0 {
					g.ptr = min(g.ptr+o.Break, g.ln)
				} else {
					g.ptr = g.ln
				}
			}
		case "dml":
			if o.What == "delall" {
				live = nil
			}
		case "alter":
			altered = o.What == "drop" || o.What == "ren"
		}
	}
	genDML := func(step int) opT {
		o := opT{K: "dml", Tag: step}
		o.What = weighted(t, "dml", []wt{{"insert", 25}, {"update", 25}, {"updall", 12}, {"updid", 10}, {"delete", 22}, {"delall", 6}})
		switch o.What {
		case "insert":
			o.ID = nextID
			live = append(live, nextID)
			nextID++
		case "update", "updid", "delete":
			if len(live) > 0 && chance(t, "hit", 90) {
				i := uni(t, "which", 0, len(live)-1)
				o.ID = live[i]
				if o.What == "delete" {
					live = append(live[:i:i], live[i+1:]...)
				} else if o.What == "updid" {
					live[i] += 100
				}
			} else {
				o.ID = uni(t, "anyid", 1, 9)
			}
		}
		return o
	}
	genOpen := func(name string, g *gcur) opT {
		o := opT{K: "open", Cur: name, RefAfter: chance(t, "refafter", 50)}
		if g.prep {
			if g.q == pInto {
				o.Using = []int{0, 1, 1, 2, 3, 6}[uni(t, "usinginto", 0, 5)]
			} else {
				o.Using = uni(t, "using", 0, 5)
			}
			o.UsingMode = weighted(t, "usingmode", []wt{{"", 86}, {"none", 7}, {"two", 7}})
		}
		return o
	}

	// every statement spells the cursor name on its own: as declared, in the other case, enclosed in grave accents
	respell := func(o opT) opT {
		if o.Cur != "" && chance(t, "respell", 30) {
			o.Sp = uni(t, "spelling", 1, 3)
		}
		return o
	}
	var pending []opT
	for step := 0; len(c.Ops) < nops || (len(pending) > 0 && len(c.Ops) < nops+6); step++ {
		if len(pending) > 0 {
			o := pending[0]
			pending = pending[1:]
			if o.K == "dml" && o.What == "" {
				o = genDML(step)
			}
			apply(o)
			c.Ops = append(c.Ops, respell(o))
			continue
		}
		name := "c1"
		if chance(t, "second", 18) {
			name = "c2"
		}
		g := curs[name]
		var kind string
		switch {
		case !g.declared:
			kind = weighted(t, "k_undeclared", []wt{{"declare", 72}, {"open", 5}, {"fetch", 5}, {"close", 3}, {"dispose", 3}, {"status", 6}, {"while", 3}, {"dml", 2}, {"loopfetch", 1}, {"shadowloop", 3}, {"show", 3}, {"checkheld", 1}})
		case !g.open:
			kind = weighted(t, "k_closed", []wt{{"open", 55}, {"fetch", 6}, {"status", 9}, {"while", 3}, {"dispose", 4}, {"close", 3}, {"declare", 2}, {"dml", 7}, {"setvar", 4}, {"commit", 1}, {"rollback", 1}, {"alter", 2}, {"mku", 1}, {"rmu", 1}, {"loopfetch", 1}, {"shadowloop", 3}, {"show", 4}, {"checkheld", 2}})
		default:
			kind = weighted(t, "k_open", []wt{{"fetch", 40}, {"dml", 15}, {"status", 9}, {"while", 8}, {"close", 5}, {"open", 3}, {"commit", 2}, {"rollback", 3}, {"dispose", 2}, {"declare", 1}, {"setvar", 2}, {"alloc", 6}, {"loopfetch", 4}, {"alter", 1}, {"mku", 1}, {"shadowloop", 3}, {"dispvar", 3}, {"show", 4}, {"checkheld", 2}})
		}
		var o opT
		switch kind {
		case "declare":
			o = opT{K: "declare", Cur: name}
			if chance(t, "prep", 22) {
				o.Prep = true
				o.Q, _ = strconv.Atoi(weighted(t, "pq", []wt{{"0", 32}, {"1", 23}, {"2", 45}}))
			} else {
				ws := make([]wt, len(queries))
				for i := range ws {
					ws[i] = wt{strconv.Itoa(i), 8}
				}
				o.Q, _ = strconv.Atoi(weighted(t, "q", ws))
			}
		case "open":
			wasClosed := g.declared && !g.open
			o = genOpen(name, g)
			if wasClosed {
				pct := 8
				if g.risky() || o.UsingMode != "" || altered {
					pct = 70
				}
				if chance(t, "burst", pct) {
					// an OPEN that may fail is followed by probes of the cursor state, possibly a repair of
					// whatever made the query fail, and another OPEN
					pending = append(pending, opT{K: "status", Cur: name, What: "open", Print: chance(t, "bprint", 30)})
					switch weighted(t, "probe", []wt{{"fetch", 35}, {"count", 25}, {"range", 20}, {"while", 20}}) {
					case "fetch":
						pending = append(pending, opT{K: "fetch", Cur: name, Pos: "NEXT", NVars: 2})
					case "count":
						pending = append(pending, opT{K: "status", Cur: name, What: "count"})
					case "range":
						pending = append(pending, opT{K: "status", Cur: name, What: "range"})
					default:
						pending = append(pending, opT{K: "while", Cur: name})
					}
					if chance(t, "repair", 65) {
						switch {
						case altered:
							pending = append(pending, []opT{{K: "alter", What: "add"}, {K: "alter", What: "renback"}, {K: "rollback"}}[uni(t, "fixcol", 0, 2)])
						case !g.prep && g.q == qTableU:
							pending = append(pending, opT{K: "mku", What: []string{"file", "temp"}[uni(t, "ukind", 0, 1)]})
						case !g.prep && g.q >= qDivSelect && g.q <= qSubquery:
							pending = append(pending, opT{K: "setvar", N: []int{0, 6, 7}[uni(t, "fixlim", 0, 2)]})
						default:
							pending = append(pending, opT{K: "dml"}) // drawn when it is its turn
						}
					}
					again := genOpen(name, g)
					again.UsingMode = ""
					pending = append(pending, again)
				}
			}
		case "fetch":
			o = genFetch(t, name, g)
			if g.open && o.NVars == 2 && o.Into == "h" && chance(t, "holdburst", 70) {
				// the holder variables now (probably) hold a row of the snapshot: the cursor goes on, is closed, disposed or
				// opened anew, the table changes, values are created - then the variables are read back
				switch weighted(t, "holdthen", []wt{{"close", 25}, {"dispose", 15}, {"reopen", 20}, {"move", 15}, {"dml", 10}, {"closealloc", 15}}) {
				case "close":
					pending = append(pending, opT{K: "close", Cur: name})
				case "dispose":
					pending = append(pending, opT{K: "dispose", Cur: name})
				case "reopen":
					pending = append(pending, opT{K: "close", Cur: name}, opT{K: "dml"}, genOpen(name, g))
				case "move":
					pending = append(pending, opT{K: "fetch", Cur: name, NVars: 2, Pos: []string{"NEXT", "PRIOR", "LAST", "FIRST"}[uni(t, "holdmove", 0, 3)]})
				case "dml":
					pending = append(pending, opT{K: "dml"})
				default:
					pending = append(pending, opT{K: "close", Cur: name}, opT{K: "alloc", What: "str"}, opT{K: "alloc", What: []string{"strsel", "print", "mix", "sel"}[uni(t, "holdalloc", 0, 3)]})
				}
				pending = append(pending, opT{K: "checkheld"})
			} else if g.open && o.NVars == 2 && o.Into == "" && chance(t, "dispburst", 10) {
				// the variables now (probably) hold the value objects of a snapshot row: dispose them, create
				// values of the same types and read the same row again
				pending = append(pending, opT{K: "dispvar", What: weighted(t, "dispwhat", []wt{{"both", 40}, {"a", 20}, {"b", 20}, {"o", 20}})},
					opT{K: "alloc", What: "str"}, opT{K: "alloc", What: []string{"strsel", "print", "mix"}[uni(t, "alloc2", 0, 2)]})
				again := opT{K: "fetch", Cur: name, NVars: 2}
				switch weighted(t, "reread", []wt{{"rel0", 40}, {"first", 20}, {"priornext", 20}, {"abs", 20}}) {
				case "rel0":
					again.Pos = "RELATIVE"
				case "first":
					again.Pos = "FIRST"
				case "priornext":
					pending = append(pending, opT{K: "fetch", Cur: name, NVars: 2, Pos: "PRIOR"})
					again.Pos = "NEXT"
				default:
					again.Pos, again.N = "ABSOLUTE", max(move(g.ptr, o.Pos, o.N, g.ln), 0)
				}
				pending = append(pending, again)
			}
		case "shadowloop":
			o = opT{K: "shadowloop", Cur: name, At: uni(t, "shadowat", 1, 4), Q: []int{0, 1, 2, 3, 4, 5, 6, 7, 12, 13}[uni(t, "shadowq", 0, 9)]}
		case "dispvar":
			o = opT{K: "dispvar", What: weighted(t, "dispwhat", []wt{{"both", 40}, {"a", 20}, {"b", 20}, {"o", 20}})}
		case "show", "checkheld":
			o = opT{K: kind}
		case "loopfetch":
			o = genLoopFetch(t, name, g)
		case "close":
			o = opT{K: "close", Cur: name}
		case "dispose":
			o = opT{K: "dispose", Cur: name}
		case "status":
			switch {
			case !g.declared:
				o = genStatus(t, name, []wt{{"open", 1}, {"range", 1}, {"count", 1}})
			case !g.open:
				o = genStatus(t, name, []wt{{"open", 2}, {"range", 3}, {"count", 3}})
			default:
				o = genStatus(t, name, []wt{{"open", 1}, {"range", 6}, {"count", 2}})
			}
		case "while":
			o = genWhile(t, name)
		case "dml":
			o = genDML(step)
		case "alter":
			o = opT{K: "alter", What: weighted(t, "alter", []wt{{"drop", 30}, {"ren", 30}, {"add", 20}, {"renback", 20}})}
		case "mku":
			o = opT{K: "mku", What: []string{"file", "temp"}[uni(t, "ukind", 0, 1)]}
		case "rmu":
			o = opT{K: "rmu"}
		case "alloc":
			o = opT{K: "alloc", What: weighted(t, "alloc", []wt{{"inc", 25}, {"mix", 20}, {"sel", 20}, {"str", 15}, {"strsel", 10}, {"print", 10}})}
		case "commit", "rollback":
			o = opT{K: kind}
		case "setvar":
			o = opT{K: "setvar", N: uni(t, "limv", 0, 6)}
		}
		apply(o)
		c.Ops = append(c.Ops, respell(o))
	}
	return c
}

func seq(a, b int) []int {
	var out []int
	for i := a; i <= b; i++ {
		out = append(out, i)
	}
	return out
}

// ---------------------------------------------------------------------
// model

const (
	fNo    = 0
	fYes   = 1
	fMaybe = 2
)

type curM struct {
	declared    bool
	open        bool
	decl        opT
	snap        [][]val.Val
	ptrs        []int // admissible pointer positions (normally one)
	fetched     int
	dml         int // data changes on t since OPEN
	failedOpens int // OPENs that failed with their query since the last successful one
	lastOpen    opT // the OPEN that produced the snapshot
	life        int // number of the successful OPEN that produced the snapshot
}

func (m *curM) ln() int { return len(m.snap) }

func (m *curM) inRange(p int) bool { return 0 <= p && p < len(m.snap) }

func uniq(xs []int) []int {
	var out []int
	for _, x := range xs {
		dup := false
		for _, y := range out {
			if x == y {
				dup = true
			}
		}
		if !dup {
			out = append(out, x)
		}
	}
	return out
}

// move is the documented pointer arithmetic; positions outside the view are
// "before the first" (-1) and "after the last" (len).
func move(p int, pos string, n, ln int) int {
	switch pos {
	case "ABSOLUTE":
		p = n
	case "RELATIVE":
		switch {
		case n > 0 && p > math.MaxInt-n:
			p = math.MaxInt
		case n < 0 && p < math.MinInt-n:
			p = math.MinInt
		default:
			p += n
		}
	case "FIRST":
		p = 0
	case "LAST":
		p = ln - 1
	case "PRIOR":
		p--
	default:
		p++
	}
	if p < 0 {
		p = -1
	}
	if p > ln {
		p = ln
	}
	return p
}

func rowEq(a, b []val.Val) bool {
	if len(a) != len(b) {
		return false
	}
	for i := range a {
		if a[i] != b[i] {
			return false
		}
	}
	return true
}

func isMarker(obs []val.Val) bool {
	if len(obs) != 2 {
		return false
	}
	if obs[0].IsNull() && obs[1].IsNull() {
		return true
	}
	return obs[0] == val.Str(sentinel) && obs[1] == val.Str(sentinel)
}

func rowStr(r []val.Val) string {
	var ss []string
	for _, v := range r {
		ss = append(ss, v.String())
	}
	return "(" + strings.Join(ss, ",") + ")"
}

func errNum(err error) int {
	if err == nil {
		return 0
	}
	if e, ok := err.(query.Error); ok {
		return e.Number()
	}
	return -1
}

// ---------------------------------------------------------------------
// execution

var caseSeq int64

type env struct {
	s     *run.Sess
	trace []string
}

func (e *env) exec(sql string) run.Res {
	r := e.s.Exec(sql)
	line := sql
	if r.Err != nil {
		line += "   -> " + run.ErrClass(r.Err) + " " + r.Err.Error()
	} else {
		for _, v := range r.Views {
			for _, rw := range v.Rows {
				line += "   -> " + rowStr(rw)
			}
		}
	}
	e.trace = append(e.trace, line)
	return r
}

func (e *env) tail() string {
	t := e.trace
	if len(t) > 16 {
		t = t[len(t)-16:]
	}
	return "\n    " + strings.Join(t, "\n    ")
}

// intoVars: the two variables a FETCH of the history fills ("" @a, @b; "h" the holder variables @ha, @hb).
func intoVars(into string) (string, string) {
	if into == "h" {
		return "@ha", "@hb"
	}
	return "@a", "@b"
}

func (e *env) readVars(into string) ([]val.Val, error) {
	va, vb := intoVars(into)
	r := e.exec("SELECT " + va + ", " + vb + ";")
	if r.Err != nil {
		return nil, r.Err
	}
	if len(r.Views) != 1 || len(r.Views[0].Rows) != 1 {
		return nil, fmt.Errorf("unexpected shape of SELECT %s, %s", va, vb)
	}
	return r.Views[0].Rows[0], nil
}

// parsePrinted reads the output of "PRINT x; PRINT y;" per iteration: strings
// are printed quoted, integers bare, null as NULL.
func parsePrinted(out string) ([][]val.Val, error) {
	out = strings.TrimRight(out, "\n")
	if out == "" {
		return nil, nil
	}
	lines := strings.Split(out, "\n")
	if len(lines)%2 != 0 {
		return nil, fmt.Errorf("odd number of printed lines: %q", out)
	}
	var rows [][]val.Val
	for i := 0; i < len(lines); i += 2 {
		var rw []val.Val
		for _, l := range lines[i : i+2] {
			switch {
			case l == "NULL":
				rw = append(rw, val.Null)
			case len(l) >= 2 && l[0] == '\'' && l[len(l)-1] == '\'':
				rw = append(rw, val.Str(l[1:len(l)-1]))
			default:
				if _, err := strconv.ParseFloat(l, 64); err != nil {
					return nil, fmt.Errorf("unexpected printed line %q", l)
				}
				rw = append(rw, val.Val{K: "#", S: l}) // a bare number: an integer, or a float (1.0 prints as 1)
			}
		}
		rows = append(rows, rw)
	}
	return rows, nil
}

// printedEq compares a snapshot row with a printed one (kind "#": integer or float of that text).
func printedEq(want, got []val.Val) bool {
	if len(want) != len(got) {
		return false
	}
	for i := range want {
		w, g := want[i], got[i]
		switch {
		case g.K == "#" && w.K == "I":
			if w.S != g.S {
				return false
			}
		case g.K == "#" && w.K == "F":
			if strconv.FormatFloat(w.AsFloat(), 'f', -1, 64) != g.S {
				return false
			}
		case w != g:
			return false
		}
	}
	return true
}

func dmlSQL(o opT) string {
	switch o.What {
	case "insert":
		return fmt.Sprintf("INSERT INTO t (id, v) VALUES (%d, 'i%d');", o.ID, o.Tag)
	case "update":
		return fmt.Sprintf("UPDATE t SET v = 'u%d' WHERE id = %d;", o.Tag, o.ID)
	case "updall":
		return fmt.Sprintf("UPDATE t SET v = 'w%d';", o.Tag)
	case "updid":
		return fmt.Sprintf("UPDATE t SET id = id + 100 WHERE id = %d;", o.ID)
	case "delete":
		return fmt.Sprintf("DELETE FROM t WHERE id = %d;", o.ID)
	}
	return "DELETE FROM t;"
}

// fetchSQL renders a FETCH; operand is the text of the ABSOLUTE/RELATIVE offset ("" = the literal N).
func fetchSQL(o opT, operand string) string {
	va, vb := intoVars(o.Into)
	vars := []string{va, vb, "@n"}[:o.NVars]
	pos := o.Pos
	switch o.Pos {
	case "ABSOLUTE", "RELATIVE":
		if operand == "" {
			operand = strconv.Itoa(o.N)
		}
		pos = o.Pos + " " + operand
	}
	if pos != "" {
		pos += " "
	}
	return fmt.Sprintf("FETCH %s%s INTO %s;", pos, spell(o.Cur, o.Sp), strings.Join(vars, ", "))
}

func posName(p string) string {
	if p == "" {
		return "NEXT"
	}
	return p
}

// what SHOW CURSORS says about one cursor
type showEnt struct {
	open bool
	rows int
	ptr  string // UNKNOWN | Out of Range | the position
}

var showOpenRe = regexp.MustCompile(`Status: Open\s+Number of Rows: ([0-9,]+)\s+Pointer: (UNKNOWN|Out of Range|-?[0-9,]+)\s*$`)

// parseShowCursors reads the list printed by SHOW CURSORS: per cursor a line with the name (one leading space)
// followed by "Status: Closed" or "Status: Open    Number of Rows: n    Pointer: p"; keys are upper-cased names.
func parseShowCursors(out string) (map[string]showEnt, error) {
	res := map[string]showEnt{}
	if strings.Contains(out, "No cursor is declared") {
		return res, nil
	}
	cur, pending := "", false
	for _, l := range strings.Split(out, "\n") {
		switch {
		case len(l) > 1 && l[0] == ' ' && l[1] != ' ':
			if pending {
				return nil, fmt.Errorf("no status line for %s", cur)
			}
			cur = strings.ToUpper(strings.TrimSpace(l))
			if _, dup := res[cur]; dup {
				return nil, fmt.Errorf("%s is listed twice", cur)
			}
			pending = true
		case pending && strings.Contains(l, "Status: Closed"):
			res[cur] = showEnt{}
			pending = false
		case pending && strings.Contains(l, "Status: Open"):
			mm := showOpenRe.FindStringSubmatch(l)
			if mm == nil {
				return nil, fmt.Errorf("status line %q", l)
			}
			n, err := strconv.Atoi(strings.ReplaceAll(mm[1], ",", ""))
			if err != nil {
				return nil, err
			}
			res[cur] = showEnt{open: true, rows: n, ptr: mm[2]}
			pending = false
		}
	}
	if pending {
		return nil, fmt.Errorf("no status line for %s", cur)
	}
	if len(res) == 0 {
		return nil, fmt.Errorf("no cursor found in the list")
	}
	return res, nil
}

func checkHist(c histCase) (fw.Outcome, *fw.Violation) {
	o := fw.Outcome{Classes: []string{"table:" + c.Table}}
	class := func(s string) { o.Classes = append(o.Classes, s) }

	dir := filepath.Join(fw.WorkDir(), fmt.Sprintf("c16-%d", atomic.AddInt64(&caseSeq, 1)))
	if err := os.MkdirAll(dir, 0755); err != nil {
		panic(err)
	}
	defer os.RemoveAll(dir)
	if c.Table == "file" {
		var b strings.Builder
		b.WriteString("id,v\n")
		for _, r := range c.Rows {
			fmt.Fprintf(&b, "%d,%s\n", r.ID, r.V)
		}
		if err := run.WriteFiles(dir, map[string]string{"t.csv": b.String()}); err != nil {
			panic(err)
		}
	}
	s, err := run.NewSess(run.Opt{Dir: dir, CaptureOut: true})
	if err != nil {
		panic(err)
	}
	defer s.Close()
	e := &env{s: s}

	// set-up
	var setup []string
	if c.Table == "temp" {
		setup = append(setup, "DECLARE t VIEW (id, v);")
		for _, r := range c.Rows {
			setup = append(setup, fmt.Sprintf("INSERT INTO t VALUES (%d, '%s');", r.ID, r.V))
		}
		setup = append(setup, "COMMIT;")
	}
	setup = append(setup, fmt.Sprintf("VAR @a, @b, @ha, @hb, @n, @k := 0, @o, @p, @q, @s, @lim := %d;", c.Lim))
	for i, p := range prepared {
		setup = append(setup, fmt.Sprintf("PREPARE s%d FROM %s;", i, val.QuoteSQL(p)))
	}
	for _, st := range setup {
		if r := e.exec(st); r.Err != nil {
			return o, fw.Harness("set-up statement failed: %s: %v", st, r.Err)
		}
	}

	curs := map[string]*curM{"c1": {}, "c2": {}}
	var toks []string
	tok := func(s string) {
		if len(toks) == 0 || toks[len(toks)-1] != s {
			toks = append(toks, s)
		}
	}
	nontrivDML, nontrivExc, nontrivHeld := false, false, false
	lifeSeq := 0
	dirty := false
	dataChanged := func() {
		for _, m := range curs {
			if m.open {
				m.dml++
			}
		}
	}
	outOfDomain := func(why string) (fw.Outcome, *fw.Violation) {
		fw.AddExtra("out_of_domain:"+why, 1)
		return fw.Outcome{Discard: true}, nil
	}
	// expectErr: the statement must fail with the documented error number.
	expectErr := func(r run.Res, stmt string, want int, sig string) *fw.Violation {
		if r.Err == nil {
			return fw.V(sig+"_no_error", "%s succeeded; an error (%d) is documented%s", stmt, want, e.tail())
		}
		if got := errNum(r.Err); got != want {
			return fw.V(sig+"_error_class", "%s: error %s (%v), expected error number %d%s", stmt, run.ErrClass(r.Err), r.Err, want, e.tail())
		}
		return nil
	}
	// the holder variables @ha, @hb: what they were last seen to hold, which cursor filled them and in which of its
	// lives (a cursor's life ends with CLOSE / DISPOSE)
	held := []val.Val{val.Null, val.Null}
	heldCur, heldLife := "", 0
	readVars := func(into string) ([]val.Val, error) {
		obs, err := e.readVars(into)
		if err == nil && into == "h" {
			held = obs
		}
		return obs, err
	}
	// after a statement that must not deliver data: the variables still hold the sentinel (or NULL)
	noData := func(stmt, sig, into string) *fw.Violation {
		obs, err := readVars(into)
		if err != nil {
			return fw.Harness("%v%s", err, e.tail())
		}
		if !isMarker(obs) {
			return fw.V(sig+"_delivered_data", "%s put %s into the variables%s", stmt, rowStr(obs), e.tail())
		}
		return nil
	}
	// openTexts: the OPEN statement, the reference statement (the cursor's own query as a plain statement:
	// the query text, or EXECUTE of the prepared statement with the same replace values) and, for the
	// SELECT ... INTO statement (which returns no result when executed), the query that lists its rows.
	openTexts := func(m *curM, op opT) (stmt, ref, rows, kind string) {
		if !m.decl.Prep {
			kind = map[int]string{qDivSelect: "division", qDivWhere: "division", qSubquery: "subquery", qTableU: "table"}[m.decl.Q]
			if kind == "" {
				kind = "column"
			}
			return fmt.Sprintf("OPEN %s;", spell(op.Cur, op.Sp)), queries[m.decl.Q] + ";", "", kind
		}
		using := fmt.Sprintf(" USING %d", op.Using)
		kind = "column"
		switch op.UsingMode {
		case "none":
			using, kind = "", "using"
		case "two":
			using, kind = fmt.Sprintf(" USING %d, %d", op.Using, op.Using+1), "using"
		}
		if m.decl.Q == pInto {
			rows = strings.Replace(intoRows, "?", strconv.Itoa(op.Using), 1) + ";"
			if kind != "using" {
				kind = "into"
			}
		}
		return fmt.Sprintf("OPEN %s%s;", spell(op.Cur, op.Sp), using), fmt.Sprintf("EXECUTE s%d%s;", m.decl.Q, using), rows, kind
	}
	setSentinel := func(into string) *fw.Violation {
		va, vb := intoVars(into)
		if r := e.exec(fmt.Sprintf("%s := '%s'; %s := '%s';", va, sentinel, vb, sentinel)); r.Err != nil {
			return fw.Harness("%v%s", r.Err, e.tail())
		}
		if into == "h" {
			held, heldCur = []val.Val{val.Str(sentinel), val.Str(sentinel)}, ""
		}
		return nil
	}
	// resolveOffset prepares the operand of FETCH ABSOLUTE/RELATIVE. For a variable or expression the value
	// is read from the session first: "ok" (an integer, n), "bad" (not a number: the FETCH must fail) or
	// "skip" (a float: the conversion is not documented, the operation is left out).
	resolveOffset := func(op opT) (operand string, n int, kind string, v *fw.Violation) {
		if (op.Pos == "ABSOLUTE" || op.Pos == "RELATIVE") && op.FOff != "" {
			return op.FOff, op.N, "ok", nil
		}
		if (op.Pos != "ABSOLUTE" && op.Pos != "RELATIVE") || op.Off == "" {
			return "", op.N, "ok", nil
		}
		switch op.Off {
		case "a", "b":
			// @o shares the value object with @a/@b (which a FETCH may have bound to a cell of a snapshot)
			if r := e.exec("@o := @" + op.Off + ";"); r.Err != nil {
				return "", 0, "", fw.Harness("%v%s", r.Err, e.tail())
			}
			operand = "@o"
		case "k":
			operand = "@k"
		case "kexpr":
			operand = "(@k - 1)"
		default:
			operand = fmt.Sprintf("(%d + 0)", op.N)
		}
		r := e.exec("SELECT " + operand + ";")
		if r.Err != nil || len(r.Views) != 1 || len(r.Views[0].Rows) != 1 {
			return "", 0, "", fw.Harness("offset operand %s: %v%s", operand, r.Err, e.tail())
		}
		x := r.Views[0].Rows[0][0]
		switch x.K {
		case "I":
			return operand, int(x.AsInt()), "ok", nil
		case "S":
			t := strings.TrimSpace(x.S)
			if i, err := strconv.ParseInt(t, 10, 32); err == nil {
				return operand, int(i), "ok", nil
			}
			if _, err := strconv.ParseFloat(t, 64); err == nil {
				return operand, 0, "skip", nil
			}
			return operand, 0, "bad", nil
		case "N":
			return operand, 0, "bad", nil
		}
		return operand, 0, "skip", nil
	}
	// fetchChecked runs a two-variable FETCH on an open cursor and narrows the pointer set.
	refused := false // set by fetchChecked: the FETCH was refused with "not an integer value" (admitted for float offsets only)
	fetchChecked := func(m *curM, op opT, operand string) (bool, *fw.Violation) {
		refused = false
		if v := setSentinel(op.Into); v != nil {
			return false, v
		}
		stmt := fetchSQL(op, operand)
		r := e.exec(stmt)
		if r.Err != nil && op.FOff != "" && errNum(r.Err) == errFetchPos {
			refused = true
			return false, noData(stmt, "fetch_refused_offset", op.Into)
		}
		if r.Err != nil {
			return false, fw.V("fetch_open_cursor_error", "%s on an open cursor failed: %s %v%s", stmt, run.ErrClass(r.Err), r.Err, e.tail())
		}
		obs, err := readVars(op.Into)
		if err != nil {
			return false, fw.Harness("%v%s", err, e.tail())
		}
		var cands, keep []int
		for _, p := range m.ptrs {
			cands = append(cands, move(p, op.Pos, op.N, m.ln()))
		}
		cands = uniq(cands)
		allIn, allOut := true, true
		for _, p := range cands {
			if m.inRange(p) {
				allOut = false
				if rowEq(m.snap[p], obs) {
					keep = append(keep, p)
				}
			} else {
				allIn = false
				if isMarker(obs) {
					keep = append(keep, p)
				}
			}
		}
		if len(keep) == 0 {
			desc := fmt.Sprintf("%s with pointer in %v over a snapshot of %d rows -> position %v; variables now %s", stmt, m.ptrs, m.ln(), cands, rowStr(obs))
			switch {
			case allOut:
				return false, fw.V("fetch_out_of_range_delivered_data", "%s; no record exists there%s", desc, e.tail())
			case allIn && isMarker(obs):
				return false, fw.V("fetch_in_range_no_data", "%s; expected %s%s", desc, rowStr(m.snap[cands[0]]), e.tail())
			case allIn:
				for i, rw := range m.snap {
					if rowEq(rw, obs) {
						return false, fw.V("fetch_wrong_position", "%s = snapshot row %d; expected %s%s", desc, i, rowStr(m.snap[cands[0]]), e.tail())
					}
				}
				return false, fw.V("fetch_not_snapshot_row", "%s is not the snapshot row %s (snapshot taken at OPEN, %d data changes since)%s", desc, rowStr(m.snap[cands[0]]), m.dml, e.tail())
			}
			return false, fw.V("fetch_inconsistent", "%s%s", desc, e.tail())
		}
		m.ptrs = keep
		m.fetched = fYes
		return m.inRange(keep[0]), nil
	}

	// checkHeld: the holder variables still hold what the last FETCH into them delivered, whatever happened to the
	// cursor, the table and the value pool since
	checkHeld := func(when string) *fw.Violation {
		want, from := held, heldCur
		r := e.exec("SELECT @ha, @hb;")
		if r.Err != nil || len(r.Views) != 1 || len(r.Views[0].Rows) != 1 {
			return fw.Harness("reading the holder variables: %v%s", r.Err, e.tail())
		}
		if got := r.Views[0].Rows[0]; !rowEq(want, got) {
			return fw.V("fetched_values_lost", "@ha, @hb hold %s %s; the last FETCH ... INTO @ha, @hb (cursor %q) left %s in them and nothing has assigned them since%s", rowStr(got), when, from, rowStr(want), e.tail())
		}
		if from != "" {
			if hm := curs[from]; !hm.declared || !hm.open || hm.life != heldLife {
				nontrivHeld = true
				class("held:read_after_cursor_closed")
			} else {
				class("held:read_cursor_open")
			}
		}
		return nil
	}

	for _, op := range c.Ops {
		m := curs[op.Cur]
		cn := spell(op.Cur, op.Sp) // the cursor name as this statement spells it
		switch op.K {
		case "declare":
			var stmt string
			if op.Prep {
				stmt = fmt.Sprintf("DECLARE %s CURSOR FOR s%d;", cn, op.Q)
			} else {
				stmt = fmt.Sprintf("DECLARE %s CURSOR FOR %s;", cn, queries[op.Q])
			}
			r := e.exec(stmt)
			if m.declared {
				// Redeclaration is not part of the property: an error leaves the model unchanged,
				// anything else puts the case outside the domain.
				if r.Err == nil || errNum(r.Err) != errRedeclared {
					return outOfDomain("redeclare_without_documented_error")
				}
				class("err:redeclared")
				tok("D!")
				continue
			}
			if r.Err != nil {
				return o, fw.V("declare_error", "%s failed: %v%s", stmt, r.Err, e.tail())
			}
			*m = curM{declared: true, decl: op}
			if op.Prep {
				class(fmt.Sprintf("declare:prepared%d", op.Q))
			} else {
				if op.Q < qDivSelect {
					class("declare:q0-7")
				} else {
					class(fmt.Sprintf("declare:q%d", op.Q))
				}
			}
			tok("D")

		case "open":
			stmt, ref, rowsStmt, failKind := fmt.Sprintf("OPEN %s;", cn), "", "", ""
			if m.declared {
				stmt, ref, rowsStmt, failKind = openTexts(m, op)
			}
			switch {
			case !m.declared:
				if v := expectErr(e.exec(stmt), stmt, errUndeclared, "open_undeclared"); v != nil {
					return o, v
				}
				class("err:undeclared:other")
				tok("O?")
			case m.open:
				if v := expectErr(e.exec(stmt), stmt, errOpen, "open_open"); v != nil {
					return o, v
				}
				class("err:open_of_open")
				tok("O!")
			default:
				var rr run.Res
				runRef := func() {
					rr = e.exec(ref)
					if rr.Err == nil && rowsStmt != "" {
						rr = e.exec(rowsStmt)
					}
				}
				if !op.RefAfter {
					runRef()
				}
				r := e.exec(stmt)
				if op.RefAfter {
					runRef()
				}
				switch {
				case r.Err != nil && rr.Err == nil:
					return o, fw.V("open_error", "%s of a declared, closed cursor failed (%s %v) although its query evaluates%s", stmt, run.ErrClass(r.Err), r.Err, e.tail())
				case r.Err == nil && rr.Err != nil:
					return o, fw.V("open_succeeded_query_fails", "%s succeeded although the cursor's query fails (%s: %v)%s", stmt, ref, rr.Err, e.tail())
				}
				if r.Err != nil {
					// the OPEN failed with its query: the cursor is still closed (the following operations go on
					// probing that: FETCH/COUNT/IS IN RANGE must raise "closed", a later OPEN must work)
					pr := e.exec("SELECT CURSOR " + cn + " IS OPEN;")
					if pr.Err != nil || len(pr.Views) != 1 || len(pr.Views[0].Rows) != 1 {
						return o, fw.V("status_open_error", "IS OPEN after a failed OPEN: %v%s", pr.Err, e.tail())
					}
					if g := pr.Views[0].Rows[0][0].S; g != "FALSE" {
						return o, fw.V("failed_open_leaves_cursor_open", "%s failed (%v) and CURSOR %s IS OPEN is %s afterwards%s", stmt, r.Err, op.Cur, g, e.tail())
					}
					m.failedOpens++
					class("open:failed:" + failKind)
					tok("Of")
					continue
				}
				if len(rr.Views) != 1 {
					return outOfDomain("reference_select_shape")
				}
				if m.failedOpens > 0 {
					class("open:after_failed_open")
					m.failedOpens = 0
				}
				m.open = true
				m.lastOpen = op
				lifeSeq++
				m.life = lifeSeq
				m.snap = rr.Views[0].Rows
				m.ptrs = []int{-1}
				m.fetched = fNo
				m.dml = 0
				for _, rw := range m.snap {
					if len(rw) != 2 || isMarker(rw) {
						return outOfDomain("reference_row_shape")
					}
				}
				class("open:len" + []string{"0", "1-6", "1-6", "1-6", "1-6", "1-6", "1-6"}[min(m.ln(), 6)])
				tok("O")
			}

		case "fetch":
			operand, n, offKind, v := resolveOffset(op)
			if v != nil {
				return o, v
			}
			if offKind == "skip" {
				class("fetch:float_offset_left_out")
				continue
			}
			op.N = n
			stmt := fetchSQL(op, operand)
			if op.Off != "" {
				class("fetch:offset_" + map[string]string{"a": "fetched_variable", "b": "fetched_variable", "k": "variable", "kexpr": "expression", "litexpr": "expression"}[op.Off])
			}
			if offKind == "bad" {
				// the offset is not a number (a string fetched earlier, NULL, the sentinel): documented as an
				// integer, so the FETCH must fail, whatever the state of the cursor, and deliver nothing
				if v := setSentinel(op.Into); v != nil {
					return o, v
				}
				r := e.exec(stmt)
				switch {
				case r.Err == nil && m.declared && m.open:
					return outOfDomain("non_numeric_fetch_offset_accepted")
				case r.Err == nil:
					return o, fw.V("fetch_not_open_no_error", "%s succeeded on a cursor that is not open%s", stmt, e.tail())
				}
				if en := errNum(r.Err); en != errFetchPos && !(en == errUndeclared && !m.declared) && !(en == errClosed && m.declared && !m.open) {
					return o, fw.V("fetch_bad_offset_error_class", "%s: %s %v%s", stmt, run.ErrClass(r.Err), r.Err, e.tail())
				}
				if v := noData(stmt, "fetch_bad_offset", op.Into); v != nil {
					return o, v
				}
				class("fetch:bad_offset")
				tok("F~")
				continue
			}
			if !m.declared || !m.open {
				want, sig, cl := errUndeclared, "fetch_undeclared", "err:undeclared:fetch"
				if m.declared {
					want, sig, cl = errClosed, "fetch_closed", "err:closed:fetch"
				}
				if v := setSentinel(op.Into); v != nil {
					return o, v
				}
				r := e.exec(stmt)
				if op.FOff != "" && r.Err != nil && errNum(r.Err) == errFetchPos {
					class("fetch:huge_float_offset:refused") // as good as the undeclared / closed error
				} else if v := expectErr(r, stmt, want, sig); v != nil {
					return o, v
				}
				if v := noData(stmt, sig, op.Into); v != nil {
					return o, v
				}
				class(cl)
				tok("F?")
				continue
			}
			if op.NVars != 2 {
				// wrong number of variables: documented as an error when a record is addressed; whether the
				// pointer has moved by then is not documented, both are admitted.
				if v := setSentinel(op.Into); v != nil {
					return o, v
				}
				r := e.exec(stmt)
				var cands []int
				allIn := true
				for _, p := range m.ptrs {
					q := move(p, op.Pos, op.N, m.ln())
					cands = append(cands, q)
					if !m.inRange(q) {
						allIn = false
					}
				}
				if allIn {
					if v := expectErr(r, stmt, errFetchLength, "fetch_length"); v != nil {
						return o, v
					}
				} else if r.Err != nil && errNum(r.Err) != errFetchLength {
					return o, fw.V("fetch_length_error_class", "%s: %s %v%s", stmt, run.ErrClass(r.Err), r.Err, e.tail())
				}
				if v := noData(stmt, "fetch_length", op.Into); v != nil {
					return o, v
				}
				m.ptrs = uniq(append(append([]int(nil), m.ptrs...), cands...))
				if m.fetched == fNo {
					m.fetched = fMaybe
				}
				class("fetch:varcount_mismatch")
				tok("F#")
				continue
			}
			wasOut := m.fetched != fNo
			for _, p := range m.ptrs {
				if m.inRange(p) {
					wasOut = false
				}
			}
			in, v := fetchChecked(m, op, operand)
			if v != nil {
				return o, v
			}
			if refused {
				// a float offset beyond the integer range refused as "not an integer value": nothing delivered, nothing moved
				class("fetch:huge_float_offset:refused")
				tok("F~")
				continue
			}
			if op.FOff != "" {
				class("fetch:huge_float_offset:beyond_the_end")
			}
			if op.Into == "h" {
				heldCur = ""
				if in {
					heldCur, heldLife = op.Cur, m.life
					class("hold:row")
				}
			}
			res := "out"
			if in {
				res = "in"
				if m.dml > 0 {
					nontrivDML = true
					class("nontrivial:dml_between_open_and_fetch")
				}
			}
			rel := op.Pos == "" || op.Pos == "NEXT" || op.Pos == "PRIOR" || op.Pos == "RELATIVE"
			if wasOut && rel {
				nontrivExc = true
				class("nontrivial:excursion_then_relative")
			}
			class("fetch:" + posName(op.Pos))
			class("fetch:" + res)
			if (op.Pos == "ABSOLUTE" || op.Pos == "RELATIVE") && isHuge(op.N) {
				class("fetch:huge_offset:" + op.Pos)
			}
			tok("F" + posName(op.Pos)[:1] + res[:1])

		case "loopfetch":
			// the same FETCH statement text executed Reps times by a WHILE loop, integer arithmetic in between
			if v := setSentinel(""); v != nil {
				return o, v
			}
			if r := e.exec("@n := 0;"); r.Err != nil {
				return o, fw.Harness("%v%s", r.Err, e.tail())
			}
			stmt := fmt.Sprintf("WHILE @n < %d DO %s PRINT @a; PRINT @b; @n := @n + 1; @k := (@k + 7) %% 5; END WHILE;",
				op.Reps, fetchSQL(opT{Cur: op.Cur, Sp: op.Sp, Pos: op.Pos, N: op.N, NVars: 2}, ""))
			e.s.Out.Reset()
			r := e.exec(stmt)
			got, perr := parsePrinted(e.s.Out.String())
			e.trace[len(e.trace)-1] += fmt.Sprintf("   printed %q", e.s.Out.String())
			if perr != nil {
				return o, fw.Harness("%v%s", perr, e.tail())
			}
			if !m.declared || !m.open {
				want, sig, cl := errUndeclared, "loop_fetch_undeclared", "err:undeclared:fetch"
				if m.declared {
					want, sig, cl = errClosed, "loop_fetch_closed", "err:closed:fetch"
				}
				if v := expectErr(r, stmt, want, sig); v != nil {
					return o, v
				}
				if len(got) > 0 {
					return o, fw.V(sig+"_delivered_data", "%s went on after the failing FETCH%s", stmt, e.tail())
				}
				class(cl)
				tok("L?")
				continue
			}
			if r.Err != nil {
				return o, fw.V("loop_fetch_error", "%s on an open cursor failed: %s %v%s", stmt, run.ErrClass(r.Err), r.Err, e.tail())
			}
			if len(got) != op.Reps {
				return o, fw.V("loop_fetch_rows", "%s printed %d rows, expected %d%s", stmt, len(got), op.Reps, e.tail())
			}
			{
				var keep []int
				anyIn := false
				for _, p0 := range m.ptrs {
					p, ok := p0, true
					prev := []val.Val{val.Str(sentinel), val.Str(sentinel)}
					for i := 0; ok && i < op.Reps; i++ {
						p = move(p, op.Pos, op.N, m.ln())
						if m.inRange(p) {
							ok = printedEq(m.snap[p], got[i])
						} else {
							// nothing is delivered: the variables keep what they had, or become NULL
							ok = rowEq(prev, got[i]) || (got[i][0].IsNull() && got[i][1].IsNull())
						}
						prev = got[i]
					}
					if ok {
						keep = append(keep, p)
						anyIn = anyIn || m.inRange(p)
					}
				}
				if len(keep) == 0 {
					var gs []string
					for _, g := range got {
						gs = append(gs, rowStr(g))
					}
					return o, fw.V("loop_fetch_rows", "%s with pointer in %v over a snapshot of %d rows delivered [%s]: not the rows at the positions addressed by the same FETCH executed %d times%s",
						stmt, m.ptrs, m.ln(), strings.Join(gs, " "), op.Reps, e.tail())
				}
				m.ptrs = uniq(keep)
				m.fetched = fYes
				if anyIn && m.dml > 0 {
					nontrivDML = true
				}
			}
			class("loopfetch")
			tok("L")

		case "close":
			stmt := fmt.Sprintf("CLOSE %s;", cn)
			r := e.exec(stmt)
			switch {
			case !m.declared:
				if v := expectErr(r, stmt, errUndeclared, "close_undeclared"); v != nil {
					return o, v
				}
				class("err:undeclared:other")
				tok("C?")
			case m.open:
				if r.Err != nil {
					return o, fw.V("close_error", "%s of an open cursor failed: %v%s", stmt, r.Err, e.tail())
				}
				m.open, m.snap, m.ptrs = false, nil, nil
				class("close")
				tok("C")
			default:
				// closing a closed cursor: not documented, error or no error; it stays closed
				class("close")
				tok("C!")
			}

		case "dispose":
			stmt := fmt.Sprintf("DISPOSE CURSOR %s;", cn)
			r := e.exec(stmt)
			switch {
			case !m.declared:
				if v := expectErr(r, stmt, errUndeclared, "dispose_undeclared"); v != nil {
					return o, v
				}
				class("err:undeclared:other")
				tok("X?")
			case r.Err != nil:
				if !m.open {
					return o, fw.V("dispose_error", "%s of a declared, closed cursor failed: %v%s", stmt, r.Err, e.tail())
				}
				// refusing to dispose an open cursor would be admissible: nothing changes
				class("dispose:open_refused")
			default:
				class("dispose")
				*m = curM{}
				tok("X")
			}

		case "while":
			va, vb := "@a", "@b"
			decl := ""
			if op.DeclVar {
				va, vb, decl = "@wa", "@wb", "VAR "
			}
			body := ""
			switch op.Body {
			case "updall":
				body = " UPDATE t SET v = v || '!';"
			case "delall":
				body = " DELETE FROM t;"
			case "ins":
				body = " INSERT INTO t (id, v) VALUES (999, 'loop');"
			}
			if op.Inner && op.Body == "" {
				// a cursor (and a variable) declared at the top level of the body lives for one iteration: the next iteration
				// declares it again, and after the loop the name is undeclared
				body = " DECLARE zc CURSOR FOR SELECT 7 AS z; OPEN zc; VAR @zv; FETCH zc INTO @zv;"
				class("while:body_declares_cursor")
			}
			brk := ""
			if op.Break > 0 {
				brk = fmt.Sprintf(" @n := @n + 1; IF @n >= %d THEN BREAK; END IF;", op.Break)
			}
			// the body may dispose, close or close-and-reopen the very cursor the loop runs over: every
			// iteration fetches from whatever the cursor name refers to at that moment
			var newSnap [][]val.Val
			var reopenErr error
			at := op.At
			if op.Via == "direct" {
				at = 1
			}
			if op.Act != "" {
				if m.open && len(m.ptrs) > 1 {
					class("left_out:pointer_open")
					continue
				}
				action := "DISPOSE CURSOR " + cn + ";"
				switch op.Act {
				case "close":
					action = "CLOSE " + cn + ";"
				case "reopen":
					action = "CLOSE " + cn + "; OPEN " + cn + ";"
					if m.declared && m.open {
						ostmt, ref, rowsStmt, _ := openTexts(m, m.lastOpen)
						action = "CLOSE " + cn + "; " + ostmt
						// no statement of the loop changes a table: the result the re-OPEN will see
						rr := e.exec(ref)
						if rr.Err == nil && rowsStmt != "" {
							rr = e.exec(rowsStmt)
						}
						if rr.Err != nil {
							reopenErr = rr.Err
						} else if len(rr.Views) != 1 {
							return outOfDomain("reference_select_shape")
						} else {
							newSnap = rr.Views[0].Rows
						}
					}
				}
				if op.Via == "direct" {
					brk = " " + action
				} else {
					brk = fmt.Sprintf(" @n := @n + 1; IF @n == %d THEN %s END IF;", op.At, action)
				}
			}
			// (results of a SELECT inside a loop are not stored by child processors: the loop prints)
			stmt := fmt.Sprintf("WHILE %s%s, %s IN %s DO PRINT %s; PRINT %s;%s%s END WHILE;", decl, va, vb, cn, va, vb, body, brk)
			if r := e.exec("@n := 0;"); r.Err != nil {
				return o, fw.Harness("%v%s", r.Err, e.tail())
			}
			e.s.Out.Reset()
			r := e.exec(stmt)
			got, perr := parsePrinted(e.s.Out.String())
			e.trace[len(e.trace)-1] += fmt.Sprintf("   printed %q", e.s.Out.String())
			if perr != nil {
				return o, fw.Harness("%v%s", perr, e.tail())
			}
			if !m.declared {
				if v := expectErr(r, stmt, errUndeclared, "while_undeclared"); v != nil {
					return o, v
				}
				if len(got) > 0 {
					return o, fw.V("while_undeclared_delivered_data", "%s executed its body%s", stmt, e.tail())
				}
				class("err:undeclared:other")
				tok("W?")
				continue
			}
			if !m.open {
				if v := expectErr(r, stmt, errClosed, "while_closed"); v != nil {
					return o, v
				}
				if len(got) > 0 {
					return o, fw.V("while_closed_delivered_data", "%s executed its body%s", stmt, e.tail())
				}
				class("err:closed:while")
				tok("W?")
				continue
			}
			if op.Act != "" {
				p := m.ptrs[0]
				var remaining [][]val.Val
				if p+1 <= m.ln() {
					remaining = m.snap[p+1:]
				}
				triggered := len(remaining) >= at
				want := remaining
				wantErr := 0 // -1: some error
				if triggered {
					want = remaining[:at]
					switch {
					case op.Act == "dispose":
						wantErr = errUndeclared
					case op.Act == "close":
						wantErr = errClosed
					case reopenErr != nil:
						wantErr = -1
					default:
						want = append(append([][]val.Val(nil), want...), newSnap...)
					}
				}
				ok := len(want) == len(got)
				for i := 0; ok && i < len(want); i++ {
					ok = printedEq(want[i], got[i])
				}
				if !ok {
					var gs, ws []string
					for _, g := range got {
						gs = append(gs, rowStr(g))
					}
					for _, w := range want {
						ws = append(ws, rowStr(w))
					}
					return o, fw.V("while_in_cursor_changed_in_body", "%s with pointer at %d visited [%s]; expected [%s] (the body does %q to the cursor in iteration %d; error: %v)%s",
						stmt, p, strings.Join(gs, " "), strings.Join(ws, " "), op.Act, at, r.Err, e.tail())
				}
				switch {
				case wantErr == 0 && r.Err != nil:
					return o, fw.V("while_error", "%s on an open cursor failed: %s %v%s", stmt, run.ErrClass(r.Err), r.Err, e.tail())
				case wantErr != 0 && r.Err == nil:
					return o, fw.V("while_in_cursor_changed_in_body_no_error", "%s ended without an error although its body did %q to the cursor in iteration %d and rows were left%s", stmt, op.Act, at, e.tail())
				case wantErr > 0 && errNum(r.Err) != wantErr:
					return o, fw.V("while_in_cursor_changed_in_body_error_class", "%s: %s %v, expected error number %d%s", stmt, run.ErrClass(r.Err), r.Err, wantErr, e.tail())
				}
				if len(got) > 0 && m.dml > 0 {
					nontrivDML = true
				}
				switch {
				case !triggered:
					last := max(p, m.ln()-1)
					m.ptrs = uniq([]int{last, m.ln()})
					if len(got) > 0 {
						m.fetched = fYes
					} else if m.fetched == fNo {
						m.fetched = fMaybe
					}
					class("while:act_not_reached")
				case op.Act == "dispose":
					*m = curM{}
					class("while:dispose_in_body")
				case op.Act == "close" || reopenErr != nil:
					m.open, m.snap, m.ptrs = false, nil, nil
					if op.Act == "close" {
						class("while:close_in_body")
					} else {
						class("while:reopen_in_body_failed")
					}
				default:
					lifeSeq++
					m.life = lifeSeq
					m.snap = newSnap
					m.dml = 0
					m.ptrs = uniq([]int{len(newSnap) - 1, len(newSnap)})
					m.fetched = fYes
					class("while:reopen_in_body")
				}
				tok("W" + op.Act[:1])
				continue
			}
			bodyFailed := false
			if r.Err != nil && op.Body != "" && errNum(r.Err)/1000 != 11 {
				// the DML in the body failed (e.g. its column was dropped): the loop stopped inside an iteration
				bodyFailed = true
				class("while:body_dml_failed")
			} else if r.Err != nil {
				return o, fw.V("while_error", "%s on an open cursor failed: %s %v%s", stmt, run.ErrClass(r.Err), r.Err, e.tail())
			}
			var keepEnds []int
			matched := false
			broke := false
			for _, p := range m.ptrs {
				var remaining [][]val.Val
				if p+1 <= m.ln() {
					remaining = m.snap[p+1:]
				}
				want := remaining
				var ends []int
				if bodyFailed {
					if len(got) == 0 || len(got) > len(remaining) {
						continue
					}
					want = remaining[:len(got)]
					ends = []int{p + len(got)}
				} else if op.Break > 0 && len(remaining) >= op.Break {
					want = remaining[:op.Break]
					ends = []int{p + op.Break}
				} else {
					// the loop ended because no further record exists: the pointer is past the last
					// record (FETCH NEXT semantics) or, read literally from the WHILE IN text, on it
					last := m.ln() - 1
					if p > last {
						last = p
					}
					ends = []int{last, m.ln()}
				}
				ok := len(want) == len(got)
				for i := 0; ok && i < len(want); i++ {
					ok = printedEq(want[i], got[i])
				}
				if ok {
					matched = true
					keepEnds = append(keepEnds, ends...)
					broke = len(ends) == 1
				}
			}
			if !matched {
				var gs []string
				for _, g := range got {
					gs = append(gs, rowStr(g))
				}
				var ws []string
				p := m.ptrs[0]
				if p+1 <= m.ln() {
					for _, w := range m.snap[p+1:] {
						ws = append(ws, rowStr(w))
					}
				}
				sig := "while_in_visits"
				if m.dml > 0 || op.Body != "" {
					sig = "while_in_visits_after_dml"
				}
				return o, fw.V(sig, "%s with pointer in %v visited [%s]; the snapshot rows after the pointer are [%s] (BREAK after %d)%s",
					stmt, m.ptrs, strings.Join(gs, " "), strings.Join(ws, " "), op.Break, e.tail())
			}
			m.ptrs = uniq(keepEnds)
			if len(got) > 0 {
				m.fetched = fYes
				if m.dml > 0 {
					nontrivDML = true
					class("nontrivial:dml_between_open_and_while")
				}
			} else if m.fetched == fNo {
				m.fetched = fMaybe
			}
			if op.Body != "" && len(got) > 0 {
				dirty = true
				dataChanged()
			}
			switch {
			case len(got) == 0:
				class("while:no_rows")
				tok("W0")
			case broke:
				class("while:break")
				tok("Wb")
			default:
				class("while:complete")
				tok("W")
			}
			if op.Body != "" {
				class("while:body_dml")
			}

		case "status":
			var exprs []string
			switch op.What {
			case "open":
				exprs = []string{"CURSOR " + cn + " IS OPEN", "CURSOR " + cn + " IS NOT OPEN"}
			case "range":
				exprs = []string{"CURSOR " + cn + " IS IN RANGE", "CURSOR " + cn + " IS NOT IN RANGE"}
			default:
				exprs = []string{"CURSOR " + cn + " COUNT"}
			}
			var got []string
			var firstErr error
			var stmt string
			if op.Print {
				for _, x := range exprs {
					stmt = "PRINT " + x + ";"
					e.s.Out.Reset()
					r := e.exec(stmt)
					if r.Err != nil {
						firstErr = r.Err
						break
					}
					got = append(got, strings.TrimSpace(e.s.Out.String()))
				}
			} else {
				stmt = "SELECT " + strings.Join(exprs, ", ") + ";"
				r := e.exec(stmt)
				if r.Err != nil {
					firstErr = r.Err
				} else if len(r.Views) == 1 && len(r.Views[0].Rows) == 1 {
					for _, v := range r.Views[0].Rows[0] {
						got = append(got, v.S)
					}
				}
			}
			wantErr := 0
			switch {
			case !m.declared:
				wantErr = errUndeclared
			case !m.open && op.What != "open":
				wantErr = errClosed
			}
			if wantErr != 0 {
				if v := expectErr(run.Res{Err: firstErr}, stmt, wantErr, "status_"+op.What+map[int]string{errUndeclared: "_undeclared", errClosed: "_closed"}[wantErr]); v != nil {
					return o, v
				}
				class(map[int]string{errUndeclared: "err:undeclared:", errClosed: "err:closed:"}[wantErr] + "status")
				tok("S?")
				continue
			}
			if firstErr != nil {
				return o, fw.V("status_"+op.What+"_error", "%s failed: %s %v%s", stmt, run.ErrClass(firstErr), firstErr, e.tail())
			}
			if len(got) != len(exprs) {
				return o, fw.Harness("%s: unexpected result %v%s", stmt, got, e.tail())
			}
			not := map[string]string{"TRUE": "FALSE", "FALSE": "TRUE", "UNKNOWN": "UNKNOWN"}
			switch op.What {
			case "open":
				want := "FALSE"
				if m.open {
					want = "TRUE"
				}
				if got[0] != want || got[1] != not[want] {
					return o, fw.V("status_is_open", "%s gave %v; the cursor is open=%v%s", stmt, got, m.open, e.tail())
				}
				class("status:open")
			case "count":
				if got[0] != strconv.Itoa(m.ln()) {
					return o, fw.V("status_count", "%s gave %s; the view retrieved at OPEN has %d rows (%d data changes since)%s", stmt, got[0], m.ln(), m.dml, e.tail())
				}
				class("status:count")
			case "range":
				if got[1] != not[got[0]] || not[got[0]] == "" {
					return o, fw.V("status_in_range_negation", "%s gave %v%s", stmt, got, e.tail())
				}
				// admissible answers
				adm := map[string]bool{}
				if m.fetched != fYes {
					adm["UNKNOWN"] = true
				}
				if m.fetched != fNo {
					for _, p := range m.ptrs {
						if m.inRange(p) {
							adm["TRUE"] = true
						} else {
							adm["FALSE"] = true
						}
					}
				}
				if !adm[got[0]] {
					return o, fw.V("status_in_range", "%s gave %s; pointer in %v, %d rows, fetched=%s%s", stmt, got[0], m.ptrs, m.ln(), []string{"no", "yes", "maybe"}[m.fetched], e.tail())
				}
				// narrow the model with the observation
				switch got[0] {
				case "UNKNOWN":
					m.fetched = fNo
				default:
					m.fetched = fYes
					var keep []int
					for _, p := range m.ptrs {
						if m.inRange(p) == (got[0] == "TRUE") {
							keep = append(keep, p)
						}
					}
					m.ptrs = keep
				}
				class("status:range:" + got[0])
			}
			tok("S" + op.What[:1])

		case "dml":
			r := e.exec(dmlSQL(op))
			if r.Err != nil {
				// e.g. after a column was dropped: not this property's business, nothing changed
				class("dml:error")
				tok("m")
				continue
			}
			if r.Affected > 0 {
				dirty = true
				dataChanged()
				class("dml:changed")
				tok("M")
			} else {
				class("dml:noop")
				tok("m")
			}

		case "shadowloop":
			// an inner cursor of the same name, declared in a nested block, is looped over and disposed by
			// the loop body: from the next iteration on the name refers to the outer cursor (if any)
			if m.open && len(m.ptrs) > 1 {
				class("left_out:pointer_open")
				continue
			}
			rr := e.exec(queries[op.Q] + ";")
			if rr.Err == nil && len(rr.Views) != 1 {
				return outOfDomain("reference_select_shape")
			}
			if r := e.exec("@n := 0;"); r.Err != nil {
				return o, fw.Harness("%v%s", r.Err, e.tail())
			}
			stmt := fmt.Sprintf("IF TRUE THEN DECLARE %s CURSOR FOR %s; OPEN %s; WHILE @a, @b IN %s DO PRINT @a; PRINT @b; @n := @n + 1; IF @n == %d THEN DISPOSE CURSOR %s; END IF; END WHILE; END IF;",
				cn, queries[op.Q], op.Cur, cn, op.At, op.Cur)
			e.s.Out.Reset()
			r := e.exec(stmt)
			got, perr := parsePrinted(e.s.Out.String())
			e.trace[len(e.trace)-1] += fmt.Sprintf("   printed %q", e.s.Out.String())
			if perr != nil {
				return o, fw.Harness("%v%s", perr, e.tail())
			}
			{
				var want [][]val.Val
				wantErr := 0
				outerRows := 0
				cl := "shadow:inner_exhausted"
				switch {
				case rr.Err != nil:
					wantErr = -1
					cl = "shadow:inner_open_failed"
				case len(rr.Views[0].Rows) < op.At:
					want = rr.Views[0].Rows
				default:
					want = append(want, rr.Views[0].Rows[:op.At]...)
					switch {
					case !m.declared:
						wantErr = errUndeclared
						cl = "shadow:then_undeclared"
					case !m.open:
						wantErr = errClosed
						cl = "shadow:then_outer_closed"
					default:
						p := m.ptrs[0]
						if p+1 <= m.ln() {
							want = append(want, m.snap[p+1:]...)
							outerRows = len(m.snap[p+1:])
						}
						cl = "shadow:then_outer_open"
					}
				}
				ok := len(want) == len(got)
				for i := 0; ok && i < len(want); i++ {
					ok = printedEq(want[i], got[i])
				}
				if !ok {
					var gs, ws []string
					for _, g := range got {
						gs = append(gs, rowStr(g))
					}
					for _, w := range want {
						ws = append(ws, rowStr(w))
					}
					return o, fw.V("while_in_shadowing_cursor_disposed", "%s visited [%s]; expected [%s] (inner cursor disposed in iteration %d, outer cursor declared=%v open=%v pointer %v; error: %v)%s",
						stmt, strings.Join(gs, " "), strings.Join(ws, " "), op.At, m.declared, m.open, m.ptrs, r.Err, e.tail())
				}
				switch {
				case wantErr == 0 && r.Err != nil:
					return o, fw.V("shadow_loop_error", "%s failed: %s %v%s", stmt, run.ErrClass(r.Err), r.Err, e.tail())
				case wantErr != 0 && r.Err == nil:
					return o, fw.V("while_in_shadowing_cursor_disposed_no_error", "%s ended without an error; after the inner cursor is disposed the name refers to a cursor that is declared=%v open=%v%s", stmt, m.declared, m.open, e.tail())
				case wantErr > 0 && errNum(r.Err) != wantErr:
					return o, fw.V("while_in_shadowing_cursor_disposed_error_class", "%s: %s %v, expected error number %d%s", stmt, run.ErrClass(r.Err), r.Err, wantErr, e.tail())
				}
				if cl == "shadow:then_outer_open" {
					p := m.ptrs[0]
					m.ptrs = uniq([]int{max(p, m.ln()-1), m.ln()})
					if outerRows > 0 {
						m.fetched = fYes
						if m.dml > 0 {
							nontrivDML = true
						}
					} else if m.fetched == fNo {
						m.fetched = fMaybe
					}
				}
				class(cl)
				tok("H")
			}

		case "checkheld":
			if v := checkHeld("now"); v != nil {
				return o, v
			}
			tok("K")

		case "show":
			// SHOW CURSORS lists every declared cursor with its status, the number of rows and the pointer
			e.s.Out.Reset()
			r := e.exec("SHOW CURSORS;")
			out := e.s.Out.String()
			e.trace[len(e.trace)-1] += fmt.Sprintf("   printed %q", out)
			if r.Err != nil {
				return o, fw.V("show_cursors_error", "SHOW CURSORS failed: %v%s", r.Err, e.tail())
			}
			listed, perr := parseShowCursors(out)
			if perr != nil {
				return o, fw.Harness("SHOW CURSORS: %v: %q%s", perr, out, e.tail())
			}
			for name := range listed {
				if name != "C1" && name != "C2" {
					return o, fw.V("show_cursors_lists_undeclared", "SHOW CURSORS lists a cursor %s that is not declared in this scope%s", name, e.tail())
				}
			}
			for _, name := range []string{"c1", "c2"} {
				cm := curs[name]
				ent, ok := listed[strings.ToUpper(name)]
				switch {
				case !cm.declared && ok:
					return o, fw.V("show_cursors_lists_undeclared", "SHOW CURSORS lists %s, which is not declared (never declared, or disposed)%s", name, e.tail())
				case cm.declared && !ok:
					return o, fw.V("show_cursors_missing", "SHOW CURSORS does not list the declared cursor %s%s", name, e.tail())
				case !cm.declared:
					class("show:undeclared")
				case !cm.open:
					if ent.open {
						return o, fw.V("show_cursors_status", "SHOW CURSORS lists the closed cursor %s as open (%d rows, pointer %s)%s", name, ent.rows, ent.ptr, e.tail())
					}
					class("show:closed")
				default:
					if !ent.open {
						return o, fw.V("show_cursors_status", "SHOW CURSORS lists the open cursor %s as closed%s", name, e.tail())
					}
					if ent.rows != cm.ln() {
						return o, fw.V("show_cursors_rows", "SHOW CURSORS: %s has %d rows; the view retrieved at OPEN has %d (%d data changes since)%s", name, ent.rows, cm.ln(), cm.dml, e.tail())
					}
					var keep []int
					switch ent.ptr {
					case "UNKNOWN":
						if cm.fetched != fYes {
							keep = cm.ptrs
							cm.fetched = fNo
						}
					case "Out of Range":
						if cm.fetched != fNo {
							for _, p := range cm.ptrs {
								if !cm.inRange(p) {
									keep = append(keep, p)
								}
							}
						}
					default:
						k, err := strconv.Atoi(strings.ReplaceAll(ent.ptr, ",", ""))
						if err != nil {
							return o, fw.Harness("SHOW CURSORS: pointer %q%s", ent.ptr, e.tail())
						}
						if cm.fetched != fNo {
							for _, p := range cm.ptrs {
								if p == k && cm.inRange(p) {
									keep = append(keep, p)
								}
							}
						}
					}
					if len(keep) == 0 {
						return o, fw.V("show_cursors_pointer", "SHOW CURSORS: pointer of %s is %s; the model has the pointer in %v over %d rows, fetched=%s%s", name, ent.ptr, cm.ptrs, cm.ln(), []string{"no", "yes", "maybe"}[cm.fetched], e.tail())
					}
					if ent.ptr != "UNKNOWN" {
						cm.fetched = fYes
					}
					cm.ptrs = keep
					switch ent.ptr {
					case "UNKNOWN", "Out of Range":
						class("show:open:" + ent.ptr)
					default:
						class("show:open:position")
					}
				}
			}
			tok("Z")

		case "dispvar":
			// DISPOSE of a variable that a FETCH may have bound to the value objects of a snapshot row
			var sqls []string
			switch op.What {
			case "a", "b":
				sqls = []string{"DISPOSE @" + op.What + ";", "VAR @" + op.What + ";"}
			case "o":
				sqls = []string{"@o := @a;", "DISPOSE @o;", "VAR @o;"}
			default:
				sqls = []string{"DISPOSE @a;", "DISPOSE @b;", "VAR @a, @b;"}
			}
			for _, q := range sqls {
				if r := e.exec(q); r.Err != nil {
					return o, fw.Harness("%s: %v%s", q, r.Err, e.tail())
				}
			}
			class("dispose_variable")
			tok("P")

		case "alter":
			sql := map[string]string{"drop": "ALTER TABLE t DROP v;", "add": "ALTER TABLE t ADD v DEFAULT 'z';", "ren": "ALTER TABLE t RENAME v TO w;", "renback": "ALTER TABLE t RENAME w TO v;"}[op.What]
			if r := e.exec(sql); r.Err != nil {
				class("dml:error")
			} else {
				dirty = true
				dataChanged()
				class("alter:ok")
				tok("A")
			}

		case "mku":
			first := "CREATE TABLE `u.csv` (id, v);"
			if op.What == "temp" {
				first = "DECLARE u VIEW (id, v);"
			}
			if r := e.exec(first); r.Err != nil {
				class("table_u:other")
			} else {
				e.exec("INSERT INTO u VALUES (1, 'u1'), (2, 'u2');")
				class("table_u:created")
				tok("U")
			}

		case "rmu":
			if r := e.exec("DISPOSE VIEW u;"); r.Err == nil {
				class("table_u:other")
				tok("u")
			}

		case "alloc":
			// statements that allocate integer values between the fetches
			sql := map[string]string{"inc": "@k := @k + 1;", "mix": "@k := (@k * 3 + 1) % 7;", "sel": "SELECT 7 + 8, 9 * 2, 0 - 3, @k + 100;",
				"str":    "@s := 'p' || 'q' || STRING(@k); @s := UPPER(@s) || LOWER('XY') || 'a1';",
				"strsel": "SELECT 'a' || 'b', UPPER('xyz'), LOWER('QW') || '1', 'a' || STRING(1 + 2), 2.5 * 2, 10 + @k;",
				"print":  "PRINT 'v' || STRING(@k + 1) || TRIM('  u3  ');"}[op.What]
			if r := e.exec(sql); r.Err != nil {
				return o, fw.Harness("%v%s", r.Err, e.tail())
			}
			class("alloc")
			tok("I")

		case "commit":
			if r := e.exec("COMMIT;"); r.Err != nil {
				return outOfDomain("commit_error")
			}
			class("commit")
			dirty = false
			tok("T")

		case "rollback":
			if r := e.exec("ROLLBACK;"); r.Err != nil {
				return outOfDomain("rollback_error")
			}
			if dirty {
				dataChanged()
			}
			class("rollback")
			dirty = false
			tok("R")

		case "setvar":
			if r := e.exec(fmt.Sprintf("@lim := %d;", op.N)); r.Err != nil {
				return o, fw.Harness("%v%s", r.Err, e.tail())
			}
			tok("V")
		}
	}

	// final sweep: every cursor still open must deliver its whole snapshot by position
	for _, name := range []string{"c1", "c2"} {
		m := curs[name]
		if !m.declared || !m.open {
			continue
		}
		r := e.exec("SELECT CURSOR " + name + " COUNT;")
		if r.Err != nil || len(r.Views) != 1 || len(r.Views[0].Rows) != 1 {
			return o, fw.V("status_count_error", "final COUNT failed: %v%s", r.Err, e.tail())
		}
		if g := r.Views[0].Rows[0][0].S; g != strconv.Itoa(m.ln()) {
			return o, fw.V("status_count", "final COUNT of %s gave %s; the view retrieved at OPEN has %d rows (%d data changes since)%s", name, g, m.ln(), m.dml, e.tail())
		}
		for i := 0; i <= m.ln(); i++ {
			in, v := fetchChecked(m, opT{K: "fetch", Cur: name, Pos: "ABSOLUTE", N: i, NVars: 2}, "")
			if v != nil {
				v.Sig = "sweep_" + v.Sig
				return o, v
			}
			if in && m.dml > 0 {
				nontrivDML = true
			}
		}
	}

	if heldCur != "" {
		if v := checkHeld("at the end of the history"); v != nil {
			return o, v
		}
	}

	if nontrivDML || nontrivExc || nontrivHeld {
		o.Fingerprint = strings.Join(toks, "")
	}
	return o, nil
}

func TestC16CursorHistory(t *testing.T) {
	fw.Run(t, fw.Spec[histCase]{
		ID: "C16", Name: "cursor_history", Quick: 24000, Thorough: 400000,
		Gen: genCase, Check: checkHist,
		Rule: "a table t (CSV file with text cells or temporary table with integer ids, 0-6 rows) and a history of 4-31 operations on two cursors generated up front: DECLARE (14 queries incl. ORDER BY, LIMIT, variable, self-join, FROM-subquery, computed integer/float columns, and four that fail for some table states: division by zero in the select list / in WHERE, scalar subquery with too many records, a table u that may not exist; 3 prepared statements incl. SELECT ... INTO), OPEN [USING none/one/two values], FETCH in all six positions with offsets -9..9 (9% of the undirected ABSOLUTE/RELATIVE fetches: literals around +-2^31, +-2^62 and +-(2^63-1)) given as literal, variable (also one filled by an earlier FETCH) or expression, the same FETCH statement repeated inside a WHILE loop with integer arithmetic in between, CLOSE, DISPOSE, WHILE IN (VAR, BREAK, DML in the body; bodies that DISPOSE, CLOSE or CLOSE+re-OPEN the loop cursor in some iteration, directly or in a nested IF: every iteration fetches from what the name refers to then; an inner cursor of the same name declared in a nested block, looped over and disposed in the body, after which the name means the outer cursor), DISPOSE of the variables a FETCH filled followed by value-creating expressions (concatenation, string functions, arithmetic in SET/PRINT/SELECT) and re-reads of the same row, IS [NOT] OPEN / IS [NOT] IN RANGE / COUNT via SELECT or PRINT, SHOW CURSORS (every declared cursor and no other is listed; Closed, or Open with the number of rows of the snapshot and the pointer: UNKNOWN before the first fetch, Out of Range, or exactly the position of the model), FETCH into holder variables that nothing else assigns, read back after the cursor was moved, closed, disposed or opened anew, after data changes and value-creating statements and at the end of the history (they must still hold the fetched row), every statement spelling the cursor name on its own (30%: other character case and/or enclosed in grave accents: identifiers are case-insensitive), 40% of the huge offsets written as float literals beyond the 64-bit integer range (+-2^63, +-9.3e18, +-1e19, +-1e30, +-1.5e300: refused as not an integer, or the pointer goes beyond the end the sign points to), INSERT/UPDATE/DELETE/COMMIT/ROLLBACK and ALTER TABLE DROP/ADD/RENAME on t, creation/disposal of u, integer-allocating statements; executed statement by statement on one session next to a model {declared, open, snapshot, pointer set, fetched}. OPEN must fail exactly when the cursor's own query (run as a statement, resp. EXECUTE of the prepared statement with the same values, immediately before or after) fails; after a failed OPEN the cursor is closed (IS OPEN FALSE, then whatever the history does next: FETCH/COUNT/IS IN RANGE raise 11003, a later OPEN snapshots the current table); after a successful one the snapshot is that reference result with value types; every cursor still open at the end is re-listed by FETCH ABSOLUTE 0..len and compared with it. Non-trivial = a data change between OPEN and a later in-range fetch, or a relative fetch after the pointer left the view, or a fetched row read back from the holder variables after its cursor was closed, disposed or opened anew; distinct by the compressed operation/outcome sequence; round 7: in 30% of the WHILE IN loops without a data-changing body the body declares, opens and fetches from a cursor of its own (and declares a variable): they live for one iteration, so every further iteration declares them again without an error",
		Assumptions: []string{
			"variables after an out-of-range fetch: NULL (manual) and unchanged (implementation) are both admitted, record data is not",
			"after a WHILE IN that ran to the end the pointer may be on the last record (literal reading of control-flow.md) or past it (FETCH NEXT semantics); the model keeps both until an observation decides",
			"a FETCH with the wrong number of variables must fail when it addresses a record; whether the pointer moved is left open",
			"a position beyond either end of the view leaves the pointer just beyond that end (before the first / after the last record), also when pointer + RELATIVE offset exceeds the 64-bit integer range (the model adds with saturation)",
			"CLOSE of a closed cursor, DISPOSE of an open cursor and redeclaration are not constrained by the property (redeclaration without the error 11001 discards the case)",
			"a FETCH offset that is not a number (NULL, non-numeric text) must raise an error (11008, or the undeclared/closed error) and deliver nothing; accepted silently on an open cursor it discards the case; float-valued offsets are left out (conversion not documented)",
			"statements on t or u that fail for a reason outside the property (DML after a column was dropped, CREATE of an existing file) are no-ops of the history; a DML failing inside a WHILE IN body ends the loop inside that iteration with the pointer on the record just visited",
			"an OPEN and the plain execution of the cursor's query right before/after it succeed or fail together; the error class of a failed OPEN is not constrained",
			"value.VerifPoison (verif build) is switched on: every value handed to value.Discard is overwritten with a poison value, so a premature Discard of a value a snapshot still refers to is seen at the next read instead of depending on pool reuse",
			"WHILE IN loops whose body changes the loop cursor, and shadowing loops, are left out while the model does not know the pointer exactly (right after a completed WHILE IN)",
			"the row order of an unordered SELECT over one small table at CPU 1 is the same in two consecutive evaluations",
			"SHOW CURSORS prints per cursor a line with its name followed by 'Status: Closed' or 'Status: Open  Number of Rows: n  Pointer: UNKNOWN | Out of Range | p' where p counts like FETCH ABSOLUTE (0 = first record); the layout is not documented, an output the check cannot read is a harness error (inconclusive), not a violation",
			"a variable keeps the value a FETCH stored in it until it is assigned again, whatever happens to the cursor afterwards",
			"the offset of FETCH ABSOLUTE/RELATIVE is documented as an integer and the conversion float -> integer as NULL, csvq truncates floats: for a float beyond the integer range both the refusal (11008, nothing delivered, pointer unchanged) and a position beyond the end of the view the sign points to are accepted; floats inside the integer range stay left out",
		},
	})
}
