package c16

import (
	"fmt"
	"os"
	"path/filepath"
	"strconv"
	"strings"
	"sync/atomic"
	"testing"

	"github.com/mithrandie/csvq/lib/query"
	"pgregory.net/rapid"

	"verif/internal/fw"
	"verif/internal/run"
	"verif/internal/val"
)

func TestMain(m *testing.M) { fw.Main(m) }

// ---------------------------------------------------------------------
// The case: an initial table and a whole history of statements, generated
// up front. Every statement is executed on ONE in-process session next to a
// model of the cursors written from docs/_posts/2006-01-02-cursor.md.

// Error numbers of lib/query/error_code.go.
const (
	errRedeclared  = 11001
	errUndeclared  = 11002
	errClosed      = 11003
	errOpen        = 11004
	errFetchLength = 11007
)

// Cursor queries; all have two result columns.
var queries = []string{
	"SELECT id, v FROM t",
	"SELECT id, v FROM t ORDER BY id",
	"SELECT id, v FROM t ORDER BY id DESC",
	"SELECT id, v FROM t WHERE id > @lim ORDER BY id",
	"SELECT v, id FROM t ORDER BY id LIMIT 3",
	"SELECT a.id, b.v FROM t a JOIN t b ON a.id = b.id ORDER BY a.id",
	fromSubquery,
	"SELECT id, v FROM t WHERE id % 2 = 0",
}

// A FROM-subquery over a file marks the CACHED FileInfo of t as an inline table
// with an empty path (load_view.go:405-412 works on the shared *FileInfo), after
// which every INSERT/UPDATE/DELETE on t fails with "file  does not exist". That
// is a defect outside this property (the history could no longer change t), so
// the generator uses the equivalent common table expression instead.
const avoidFromSubqueryPoisonsFileInfo = false

var fromSubquery = func() string {
	if avoidFromSubqueryPoisonsFileInfo {
		return "WITH s AS (SELECT id, v FROM t) SELECT id, v FROM s"
	}
	return "SELECT id, v FROM (SELECT id, v FROM t) s"
}()

// Prepared statements (one placeholder each), prepared as s0, s1 at set-up.
var prepared = []string{
	"SELECT id, v FROM t WHERE id >= ? ORDER BY id",
	"SELECT v, id FROM t WHERE id <> ?",
}

const sentinel = "#s"

type row struct {
	ID int    `json:"id"`
	V  string `json:"v"`
}

type opT struct {
	K        string `json:"k"`                   // declare open fetch close dispose while status dml commit rollback setvar
	Cur      string `json:"cur,omitempty"`       // c1 | c2
	Q        int    `json:"q,omitempty"`         // declare: index into queries / prepared
	Prep     bool   `json:"prep,omitempty"`      // declare: cursor for prepared statement s<Q>
	Using    int    `json:"using,omitempty"`     // open: replace value
	RefAfter bool   `json:"ref_after,omitempty"` // open: the reference SELECT runs right after OPEN instead of right before
	Pos      string `json:"pos,omitempty"`       // fetch: "" NEXT PRIOR FIRST LAST ABSOLUTE RELATIVE
	N        int    `json:"n,omitempty"`         // fetch: number; setvar: value
	NVars    int    `json:"nvars,omitempty"`     // fetch: number of INTO variables (2 = matching)
	DeclVar  bool   `json:"decl_var,omitempty"`  // while: WHILE VAR ...
	Break    int    `json:"break,omitempty"`     // while: BREAK after this many iterations (0: never)
	Body     string `json:"body,omitempty"`      // while: DML in the loop body: "" updall delall ins
	What     string `json:"what,omitempty"`      // status: open range count; dml: insert update updall updid delete delall
	Print    bool   `json:"print,omitempty"`     // status: PRINT instead of SELECT
	ID       int    `json:"id,omitempty"`        // dml
	Tag      int    `json:"tag,omitempty"`       // dml
}

type histCase struct {
	Table string `json:"table"` // file | temp
	Rows  []row  `json:"rows"`
	Lim   int    `json:"lim"`
	Ops   []opT  `json:"ops"`
}

// ---------------------------------------------------------------------
// generator

type wt struct {
	k string
	w int
}

// uni draws lo..hi (nearly) uniformly. rapid's integer generators are heavily
// biased towards small values (P(IntRange(0,99) < 5) is about 1/3), which would
// distort the operation mix; single bits are fair, and they still shrink towards lo.
func uni(t *rapid.T, label string, lo, hi int) int {
	x := 0
	for i := 0; i < 11; i++ {
		x <<= 1
		if rapid.Bool().Draw(t, label) {
			x |= 1
		}
	}
	return lo + x%(hi-lo+1)
}

func chance(t *rapid.T, label string, pct int) bool { return uni(t, label, 0, 99) >= 100-pct }

func weighted(t *rapid.T, label string, ws []wt) string {
	total := 0
	for _, w := range ws {
		total += w.w
	}
	x := uni(t, label, 0, total-1)
	for _, w := range ws {
		if x < w.w {
			return w.k
		}
		x -= w.w
	}
	return ws[len(ws)-1].k
}

type gcur struct {
	declared, open, prep bool
	q                    int
	ln, ptr              int // rough idea of the snapshot length and the pointer, only to aim fetches
}

func genFetch(t *rapid.T, cur string, g *gcur) opT {
	o := opT{K: "fetch", Cur: cur, NVars: 2}
	if g.open && g.ln > 0 && chance(t, "aimed", 45) {
		// aim at a record that (by the generator's rough idea of length and pointer) exists
		target := uni(t, "target", 0, g.ln-1)
		how := weighted(t, "how", []wt{{"RELATIVE", 45}, {"ABSOLUTE", 35}, {"step", 20}})
		switch {
		case how == "step" && target == g.ptr+1:
			o.Pos = []string{"NEXT", ""}[uni(t, "implicit", 0, 1)]
		case how == "step" && target == g.ptr-1:
			o.Pos = "PRIOR"
		case how == "step" && target == 0:
			o.Pos = "FIRST"
		case how == "step" && target == g.ln-1:
			o.Pos = "LAST"
		case how == "ABSOLUTE":
			o.Pos, o.N = "ABSOLUTE", target
		default:
			o.Pos, o.N = "RELATIVE", target-g.ptr
		}
	} else {
		o.Pos = weighted(t, "pos", []wt{{"NEXT", 20}, {"", 6}, {"PRIOR", 18}, {"FIRST", 8}, {"LAST", 10}, {"ABSOLUTE", 16}, {"RELATIVE", 22}})
		switch o.Pos {
		case "ABSOLUTE":
			o.N = uni(t, "abs", -3, 9)
		case "RELATIVE":
			if chance(t, "smallrel", 60) {
				o.N = uni(t, "rel", -2, 2)
			} else {
				o.N = uni(t, "rel", -9, 9)
			}
		}
	}
	switch x := uni(t, "nvars", 0, 99); {
	case x < 3:
		o.NVars = 1
	case x < 5:
		o.NVars = 3
	}
	if g.open && o.NVars == 2 {
		g.ptr = move(g.ptr, o.Pos, o.N, g.ln)
	}
	return o
}

func genWhile(t *rapid.T, cur string) opT {
	o := opT{K: "while", Cur: cur}
	o.DeclVar = chance(t, "declvar", 30)
	if chance(t, "break", 40) {
		o.Break = uni(t, "breakAt", 1, 4)
	}
	o.Body = weighted(t, "body", []wt{{"", 55}, {"updall", 20}, {"delall", 10}, {"ins", 15}})
	return o
}

func genStatus(t *rapid.T, cur string, whats []wt) opT {
	return opT{K: "status", Cur: cur, What: weighted(t, "what", whats), Print: chance(t, "print", 30)}
}

func genCase(t *rapid.T) histCase {
	c := histCase{Table: []string{"file", "temp"}[uni(t, "table", 0, 1)]}
	n, _ := strconv.Atoi(weighted(t, "nrows", []wt{{"0", 7}, {"1", 9}, {"2", 14}, {"3", 17}, {"4", 18}, {"5", 17}, {"6", 18}}))
	ids := rapid.Permutation(seq(1, n)).Draw(t, "order")
	for _, id := range ids {
		c.Rows = append(c.Rows, row{ID: id, V: fmt.Sprintf("a%d", id)})
	}
	c.Lim = uni(t, "lim", 0, 3)
	nops := uni(t, "nops", 4, 25)
	curs := map[string]*gcur{"c1": {}, "c2": {}}
	live := append([]int(nil), ids...)
	nextID := n + 1
	for step := 0; step < nops; step++ {
		name := "c1"
		if chance(t, "second", 18) {
			name = "c2"
		}
		g := curs[name]
		var kind string
		switch {
		case !g.declared:
			kind = weighted(t, "k_undeclared", []wt{{"declare", 72}, {"open", 5}, {"fetch", 5}, {"close", 3}, {"dispose", 3}, {"status", 6}, {"while", 3}, {"dml", 3}})
		case !g.open:
			kind = weighted(t, "k_closed", []wt{{"open", 58}, {"fetch", 6}, {"status", 9}, {"while", 3}, {"dispose", 4}, {"close", 3}, {"declare", 2}, {"dml", 9}, {"setvar", 4}, {"commit", 1}, {"rollback", 1}})
		default:
			kind = weighted(t, "k_open", []wt{{"fetch", 45}, {"dml", 19}, {"status", 10}, {"while", 7}, {"close", 5}, {"open", 3}, {"commit", 3}, {"rollback", 3}, {"dispose", 2}, {"declare", 1}, {"setvar", 2}})
		}
		var o opT
		switch kind {
		case "declare":
			o = opT{K: "declare", Cur: name}
			if chance(t, "prep", 20) {
				o.Prep = true
				o.Q = uni(t, "pq", 0, len(prepared)-1)
			} else {
				o.Q = uni(t, "q", 0, len(queries)-1)
			}
			if !g.declared {
				g.declared, g.open, g.prep, g.q = true, false, o.Prep, o.Q
			}
		case "open":
			o = opT{K: "open", Cur: name, RefAfter: chance(t, "refafter", 50)}
			if g.prep {
				o.Using = uni(t, "using", 0, 5)
			}
			if g.declared && !g.open {
				g.open, g.ln, g.ptr = true, len(live), -1
			}
		case "fetch":
			o = genFetch(t, name, g)
		case "close":
			o = opT{K: "close", Cur: name}
			g.open = false
		case "dispose":
			o = opT{K: "dispose", Cur: name}
			*g = gcur{}
		case "status":
			switch {
			case !g.declared:
				o = genStatus(t, name, []wt{{"open", 1}, {"range", 1}, {"count", 1}})
			case !g.open:
				o = genStatus(t, name, []wt{{"open", 2}, {"range", 3}, {"count", 3}})
			default:
				o = genStatus(t, name, []wt{{"open", 1}, {"range", 6}, {"count", 2}})
			}
		case "while":
			o = genWhile(t, name)
			if g.open {
				g.ptr = g.ln
				if o.Break > 0 {
					g.ptr = min(g.ptr+o.Break, g.ln)
				}
			}
		case "dml":
			o = opT{K: "dml", Tag: step}
			o.What = weighted(t, "dml", []wt{{"insert", 25}, {"update", 25}, {"updall", 12}, {"updid", 10}, {"delete", 22}, {"delall", 6}})
			switch o.What {
			case "insert":
				o.ID = nextID
				live = append(live, nextID)
				nextID++
			case "update", "updid", "delete":
				if len(live) > 0 && chance(t, "hit", 90) {
					i := uni(t, "which", 0, len(live)-1)
					o.ID = live[i]
					if o.What == "delete" {
						live = append(live[:i:i], live[i+1:]...)
					} else if o.What == "updid" {
						live[i] += 100
					}
				} else {
					o.ID = uni(t, "anyid", 1, 9)
				}
			case "delall":
				live = nil
			}
		case "commit", "rollback":
			o = opT{K: kind}
		case "setvar":
			o = opT{K: "setvar", N: uni(t, "limv", 0, 4)}
		}
		c.Ops = append(c.Ops, o)
	}
	return c
}

func seq(a, b int) []int {
	var out []int
	for i := a; i <= b; i++ {
		out = append(out, i)
	}
	return out
}

// ---------------------------------------------------------------------
// model

const (
	fNo    = 0
	fYes   = 1
	fMaybe = 2
)

type curM struct {
	declared bool
	open     bool
	decl     opT
	snap     [][]val.Val
	ptrs     []int // admissible pointer positions (normally one)
	fetched  int
	dml      int // data changes on t since OPEN
}

func (m *curM) ln() int { return len(m.snap) }

func (m *curM) inRange(p int) bool { return 0 <= p && p < len(m.snap) }

func uniq(xs []int) []int {
	var out []int
	for _, x := range xs {
		dup := false
		for _, y := range out {
			if x == y {
				dup = true
			}
		}
		if !dup {
			out = append(out, x)
		}
	}
	return out
}

// move is the documented pointer arithmetic; positions outside the view are
// "before the first" (-1) and "after the last" (len).
func move(p int, pos string, n, ln int) int {
	switch pos {
	case "ABSOLUTE":
		p = n
	case "RELATIVE":
		p += n
	case "FIRST":
		p = 0
	case "LAST":
		p = ln - 1
	case "PRIOR":
		p--
	default:
		p++
	}
	if p < 0 {
		p = -1
	}
	if p > ln {
		p = ln
	}
	return p
}

func rowEq(a, b []val.Val) bool {
	if len(a) != len(b) {
		return false
	}
	for i := range a {
		if a[i] != b[i] {
			return false
		}
	}
	return true
}

func isMarker(obs []val.Val) bool {
	if len(obs) != 2 {
		return false
	}
	if obs[0].IsNull() && obs[1].IsNull() {
		return true
	}
	return obs[0] == val.Str(sentinel) && obs[1] == val.Str(sentinel)
}

func rowStr(r []val.Val) string {
	var ss []string
	for _, v := range r {
		ss = append(ss, v.String())
	}
	return "(" + strings.Join(ss, ",") + ")"
}

func errNum(err error) int {
	if err == nil {
		return 0
	}
	if e, ok := err.(query.Error); ok {
		return e.Number()
	}
	return -1
}

// ---------------------------------------------------------------------
// execution

var caseSeq int64

type env struct {
	s     *run.Sess
	trace []string
}

func (e *env) exec(sql string) run.Res {
	r := e.s.Exec(sql)
	line := sql
	if r.Err != nil {
		line += "   -> " + run.ErrClass(r.Err) + " " + r.Err.Error()
	} else {
		for _, v := range r.Views {
			for _, rw := range v.Rows {
				line += "   -> " + rowStr(rw)
			}
		}
	}
	e.trace = append(e.trace, line)
	return r
}

func (e *env) tail() string {
	t := e.trace
	if len(t) > 16 {
		t = t[len(t)-16:]
	}
	return "\n    " + strings.Join(t, "\n    ")
}

func (e *env) readVars() ([]val.Val, error) {
	r := e.exec("SELECT @a, @b;")
	if r.Err != nil {
		return nil, r.Err
	}
	if len(r.Views) != 1 || len(r.Views[0].Rows) != 1 {
		return nil, fmt.Errorf("unexpected shape of SELECT @a, @b")
	}
	return r.Views[0].Rows[0], nil
}

// parsePrinted reads the output of "PRINT x; PRINT y;" per iteration: strings
// are printed quoted, integers bare, null as NULL.
func parsePrinted(out string) ([][]val.Val, error) {
	out = strings.TrimRight(out, "\n")
	if out == "" {
		return nil, nil
	}
	lines := strings.Split(out, "\n")
	if len(lines)%2 != 0 {
		return nil, fmt.Errorf("odd number of printed lines: %q", out)
	}
	var rows [][]val.Val
	for i := 0; i < len(lines); i += 2 {
		var rw []val.Val
		for _, l := range lines[i : i+2] {
			switch {
			case l == "NULL":
				rw = append(rw, val.Null)
			case len(l) >= 2 && l[0] == '\'' && l[len(l)-1] == '\'':
				rw = append(rw, val.Str(l[1:len(l)-1]))
			default:
				if _, err := strconv.ParseInt(l, 10, 64); err != nil {
					return nil, fmt.Errorf("unexpected printed line %q", l)
				}
				rw = append(rw, val.Val{K: "I", S: l})
			}
		}
		rows = append(rows, rw)
	}
	return rows, nil
}

func dmlSQL(o opT) string {
	switch o.What {
	case "insert":
		return fmt.Sprintf("INSERT INTO t (id, v) VALUES (%d, 'i%d');", o.ID, o.Tag)
	case "update":
		return fmt.Sprintf("UPDATE t SET v = 'u%d' WHERE id = %d;", o.Tag, o.ID)
	case "updall":
		return fmt.Sprintf("UPDATE t SET v = 'w%d';", o.Tag)
	case "updid":
		return fmt.Sprintf("UPDATE t SET id = id + 100 WHERE id = %d;", o.ID)
	case "delete":
		return fmt.Sprintf("DELETE FROM t WHERE id = %d;", o.ID)
	}
	return "DELETE FROM t;"
}

func fetchSQL(o opT) string {
	vars := []string{"@a", "@b", "@n"}[:o.NVars]
	pos := o.Pos
	switch o.Pos {
	case "ABSOLUTE", "RELATIVE":
		pos = fmt.Sprintf("%s %d", o.Pos, o.N)
	}
	if pos != "" {
		pos += " "
	}
	return fmt.Sprintf("FETCH %s%s INTO %s;", pos, o.Cur, strings.Join(vars, ", "))
}

func posName(p string) string {
	if p == "" {
		return "IMPLICIT"
	}
	return p
}

func checkHist(c histCase) (fw.Outcome, *fw.Violation) {
	o := fw.Outcome{Classes: []string{"table:" + c.Table}}
	class := func(s string) { o.Classes = append(o.Classes, s) }

	dir := filepath.Join(fw.WorkDir(), fmt.Sprintf("c16-%d", atomic.AddInt64(&caseSeq, 1)))
	if err := os.MkdirAll(dir, 0755); err != nil {
		panic(err)
	}
	defer os.RemoveAll(dir)
	if c.Table == "file" {
		var b strings.Builder
		b.WriteString("id,v\n")
		for _, r := range c.Rows {
			fmt.Fprintf(&b, "%d,%s\n", r.ID, r.V)
		}
		if err := run.WriteFiles(dir, map[string]string{"t.csv": b.String()}); err != nil {
			panic(err)
		}
	}
	s, err := run.NewSess(run.Opt{Dir: dir, CaptureOut: true})
	if err != nil {
		panic(err)
	}
	defer s.Close()
	e := &env{s: s}

	// set-up
	var setup []string
	if c.Table == "temp" {
		setup = append(setup, "DECLARE t VIEW (id, v);")
		for _, r := range c.Rows {
			setup = append(setup, fmt.Sprintf("INSERT INTO t VALUES (%d, '%s');", r.ID, r.V))
		}
		setup = append(setup, "COMMIT;")
	}
	setup = append(setup, fmt.Sprintf("VAR @a, @b, @n, @lim := %d;", c.Lim))
	for i, p := range prepared {
		setup = append(setup, fmt.Sprintf("PREPARE s%d FROM %s;", i, val.QuoteSQL(p)))
	}
	for _, st := range setup {
		if r := e.exec(st); r.Err != nil {
			return o, fw.V("harness_setup", "set-up statement failed: %s: %v", st, r.Err)
		}
	}

	curs := map[string]*curM{"c1": {}, "c2": {}}
	var toks []string
	tok := func(s string) {
		if len(toks) == 0 || toks[len(toks)-1] != s {
			toks = append(toks, s)
		}
	}
	nontrivDML, nontrivExc := false, false
	dirty := false
	dataChanged := func() {
		for _, m := range curs {
			if m.open {
				m.dml++
			}
		}
	}
	outOfDomain := func(why string) (fw.Outcome, *fw.Violation) {
		fw.AddExtra("out_of_domain:"+why, 1)
		return fw.Outcome{Discard: true}, nil
	}
	// expectErr: the statement must fail with the documented error number.
	expectErr := func(r run.Res, stmt string, want int, sig string) *fw.Violation {
		if r.Err == nil {
			return fw.V(sig+"_no_error", "%s succeeded; an error (%d) is documented%s", stmt, want, e.tail())
		}
		if got := errNum(r.Err); got != want {
			return fw.V(sig+"_error_class", "%s: error %s (%v), expected error number %d%s", stmt, run.ErrClass(r.Err), r.Err, want, e.tail())
		}
		return nil
	}
	// after a statement that must not deliver data: the variables still hold the sentinel (or NULL)
	noData := func(stmt, sig string) *fw.Violation {
		obs, err := e.readVars()
		if err != nil {
			return fw.V("harness_readvars", "%v%s", err, e.tail())
		}
		if !isMarker(obs) {
			return fw.V(sig+"_delivered_data", "%s put %s into the variables%s", stmt, rowStr(obs), e.tail())
		}
		return nil
	}
	refQuery := func(m *curM, op opT) string {
		if m.decl.Prep {
			return strings.Replace(prepared[m.decl.Q], "?", strconv.Itoa(op.Using), 1) + ";"
		}
		return queries[m.decl.Q] + ";"
	}
	// fetchChecked runs a two-variable FETCH on an open cursor and narrows the pointer set.
	fetchChecked := func(m *curM, op opT) (bool, *fw.Violation) {
		if r := e.exec(fmt.Sprintf("@a := '%s'; @b := '%s';", sentinel, sentinel)); r.Err != nil {
			return false, fw.V("harness_sentinel", "%v%s", r.Err, e.tail())
		}
		stmt := fetchSQL(op)
		r := e.exec(stmt)
		if r.Err != nil {
			return false, fw.V("fetch_open_cursor_error", "%s on an open cursor failed: %s %v%s", stmt, run.ErrClass(r.Err), r.Err, e.tail())
		}
		obs, err := e.readVars()
		if err != nil {
			return false, fw.V("harness_readvars", "%v%s", err, e.tail())
		}
		var cands, keep []int
		for _, p := range m.ptrs {
			cands = append(cands, move(p, op.Pos, op.N, m.ln()))
		}
		cands = uniq(cands)
		allIn, allOut := true, true
		for _, p := range cands {
			if m.inRange(p) {
				allOut = false
				if rowEq(m.snap[p], obs) {
					keep = append(keep, p)
				}
			} else {
				allIn = false
				if isMarker(obs) {
					keep = append(keep, p)
				}
			}
		}
		if len(keep) == 0 {
			desc := fmt.Sprintf("%s with pointer in %v over a snapshot of %d rows -> position %v; variables now %s", stmt, m.ptrs, m.ln(), cands, rowStr(obs))
			switch {
			case allOut:
				return false, fw.V("fetch_out_of_range_delivered_data", "%s; no record exists there%s", desc, e.tail())
			case allIn && isMarker(obs):
				return false, fw.V("fetch_in_range_no_data", "%s; expected %s%s", desc, rowStr(m.snap[cands[0]]), e.tail())
			case allIn:
				for i, rw := range m.snap {
					if rowEq(rw, obs) {
						return false, fw.V("fetch_wrong_position", "%s = snapshot row %d; expected %s%s", desc, i, rowStr(m.snap[cands[0]]), e.tail())
					}
				}
				return false, fw.V("fetch_not_snapshot_row", "%s is not the snapshot row %s (snapshot taken at OPEN, %d data changes since)%s", desc, rowStr(m.snap[cands[0]]), m.dml, e.tail())
			}
			return false, fw.V("fetch_inconsistent", "%s%s", desc, e.tail())
		}
		m.ptrs = keep
		m.fetched = fYes
		return m.inRange(keep[0]), nil
	}

	for _, op := range c.Ops {
		m := curs[op.Cur]
		switch op.K {
		case "declare":
			var stmt string
			if op.Prep {
				stmt = fmt.Sprintf("DECLARE %s CURSOR FOR s%d;", op.Cur, op.Q)
			} else {
				stmt = fmt.Sprintf("DECLARE %s CURSOR FOR %s;", op.Cur, queries[op.Q])
			}
			r := e.exec(stmt)
			if m.declared {
				// Redeclaration is not part of the property: an error leaves the model unchanged,
				// anything else puts the case outside the domain.
				if r.Err == nil || errNum(r.Err) != errRedeclared {
					return outOfDomain("redeclare_without_documented_error")
				}
				class("err:redeclared")
				tok("D!")
				continue
			}
			if r.Err != nil {
				return o, fw.V("declare_error", "%s failed: %v%s", stmt, r.Err, e.tail())
			}
			*m = curM{declared: true, decl: op}
			if op.Prep {
				class("declare:prepared")
			} else {
				class(fmt.Sprintf("declare:q%d", op.Q))
			}
			tok("D")

		case "open":
			stmt := fmt.Sprintf("OPEN %s;", op.Cur)
			if m.declared && m.decl.Prep {
				stmt = fmt.Sprintf("OPEN %s USING %d;", op.Cur, op.Using)
			}
			switch {
			case !m.declared:
				if v := expectErr(e.exec(stmt), stmt, errUndeclared, "open_undeclared"); v != nil {
					return o, v
				}
				class("err:undeclared:open")
				tok("O?")
			case m.open:
				if v := expectErr(e.exec(stmt), stmt, errOpen, "open_open"); v != nil {
					return o, v
				}
				class("err:open_of_open")
				tok("O!")
			default:
				ref := refQuery(m, op)
				var rr run.Res
				if !op.RefAfter {
					rr = e.exec(ref)
				}
				if r := e.exec(stmt); r.Err != nil {
					return o, fw.V("open_error", "%s of a declared, closed cursor failed: %s %v%s", stmt, run.ErrClass(r.Err), r.Err, e.tail())
				}
				if op.RefAfter {
					rr = e.exec(ref)
				}
				if rr.Err != nil || len(rr.Views) != 1 {
					return outOfDomain("reference_select_failed")
				}
				m.open = true
				m.snap = rr.Views[0].Rows
				m.ptrs = []int{-1}
				m.fetched = fNo
				m.dml = 0
				for _, rw := range m.snap {
					if len(rw) != 2 || isMarker(rw) {
						return outOfDomain("reference_row_shape")
					}
				}
				class("open:len" + []string{"0", "1", "2-6", "2-6", "2-6", "2-6", "2-6"}[min(m.ln(), 6)])
				tok("O")
			}

		case "fetch":
			stmt := fetchSQL(op)
			if !m.declared || !m.open {
				want, sig, cl := errUndeclared, "fetch_undeclared", "err:undeclared:fetch"
				if m.declared {
					want, sig, cl = errClosed, "fetch_closed", "err:closed:fetch"
				}
				if r := e.exec(fmt.Sprintf("@a := '%s'; @b := '%s';", sentinel, sentinel)); r.Err != nil {
					return o, fw.V("harness_sentinel", "%v%s", r.Err, e.tail())
				}
				if v := expectErr(e.exec(stmt), stmt, want, sig); v != nil {
					return o, v
				}
				if v := noData(stmt, sig); v != nil {
					return o, v
				}
				class(cl)
				tok("F?")
				continue
			}
			if op.NVars != 2 {
				// wrong number of variables: documented as an error when a record is addressed; whether the
				// pointer has moved by then is not documented, both are admitted.
				if r := e.exec(fmt.Sprintf("@a := '%s'; @b := '%s';", sentinel, sentinel)); r.Err != nil {
					return o, fw.V("harness_sentinel", "%v%s", r.Err, e.tail())
				}
				r := e.exec(stmt)
				var cands []int
				allIn := true
				for _, p := range m.ptrs {
					q := move(p, op.Pos, op.N, m.ln())
					cands = append(cands, q)
					if !m.inRange(q) {
						allIn = false
					}
				}
				if allIn {
					if v := expectErr(r, stmt, errFetchLength, "fetch_length"); v != nil {
						return o, v
					}
				} else if r.Err != nil && errNum(r.Err) != errFetchLength {
					return o, fw.V("fetch_length_error_class", "%s: %s %v%s", stmt, run.ErrClass(r.Err), r.Err, e.tail())
				}
				if v := noData(stmt, "fetch_length"); v != nil {
					return o, v
				}
				m.ptrs = uniq(append(append([]int(nil), m.ptrs...), cands...))
				if m.fetched == fNo {
					m.fetched = fMaybe
				}
				class("fetch:varcount_mismatch")
				tok("F#")
				continue
			}
			wasOut := m.fetched != fNo
			for _, p := range m.ptrs {
				if m.inRange(p) {
					wasOut = false
				}
			}
			in, v := fetchChecked(m, op)
			if v != nil {
				return o, v
			}
			res := "out"
			if in {
				res = "in"
				if m.dml > 0 {
					nontrivDML = true
					class("nontrivial:dml_between_open_and_fetch")
				}
			}
			rel := op.Pos == "" || op.Pos == "NEXT" || op.Pos == "PRIOR" || op.Pos == "RELATIVE"
			if wasOut && rel {
				nontrivExc = true
				class("nontrivial:excursion_then_relative:" + res)
			}
			class("fetch:" + posName(op.Pos) + ":" + res)
			tok("F" + posName(op.Pos)[:1] + res[:1])

		case "close":
			stmt := fmt.Sprintf("CLOSE %s;", op.Cur)
			r := e.exec(stmt)
			switch {
			case !m.declared:
				if v := expectErr(r, stmt, errUndeclared, "close_undeclared"); v != nil {
					return o, v
				}
				class("err:undeclared:close")
				tok("C?")
			case m.open:
				if r.Err != nil {
					return o, fw.V("close_error", "%s of an open cursor failed: %v%s", stmt, r.Err, e.tail())
				}
				m.open, m.snap, m.ptrs = false, nil, nil
				class("close:open")
				tok("C")
			default:
				// closing a closed cursor: not documented, error or no error; it stays closed
				class("close:closed")
				tok("C!")
			}

		case "dispose":
			stmt := fmt.Sprintf("DISPOSE CURSOR %s;", op.Cur)
			r := e.exec(stmt)
			switch {
			case !m.declared:
				if v := expectErr(r, stmt, errUndeclared, "dispose_undeclared"); v != nil {
					return o, v
				}
				class("err:undeclared:dispose")
				tok("X?")
			case r.Err != nil:
				if !m.open {
					return o, fw.V("dispose_error", "%s of a declared, closed cursor failed: %v%s", stmt, r.Err, e.tail())
				}
				// refusing to dispose an open cursor would be admissible: nothing changes
				class("dispose:open_refused")
			default:
				if m.open {
					class("dispose:open")
				} else {
					class("dispose:closed")
				}
				*m = curM{}
				tok("X")
			}

		case "while":
			va, vb := "@a", "@b"
			decl := ""
			if op.DeclVar {
				va, vb, decl = "@wa", "@wb", "VAR "
			}
			body := ""
			switch op.Body {
			case "updall":
				body = " UPDATE t SET v = v || '!';"
			case "delall":
				body = " DELETE FROM t;"
			case "ins":
				body = " INSERT INTO t (id, v) VALUES (999, 'loop');"
			}
			brk := ""
			if op.Break > 0 {
				brk = fmt.Sprintf(" @n := @n + 1; IF @n >= %d THEN BREAK; END IF;", op.Break)
			}
			// (results of a SELECT inside a loop are not stored by child processors: the loop prints)
			stmt := fmt.Sprintf("WHILE %s%s, %s IN %s DO PRINT %s; PRINT %s;%s%s END WHILE;", decl, va, vb, op.Cur, va, vb, body, brk)
			if r := e.exec("@n := 0;"); r.Err != nil {
				return o, fw.V("harness_sentinel", "%v%s", r.Err, e.tail())
			}
			e.s.Out.Reset()
			r := e.exec(stmt)
			got, perr := parsePrinted(e.s.Out.String())
			e.trace[len(e.trace)-1] += fmt.Sprintf("   printed %q", e.s.Out.String())
			if perr != nil {
				return o, fw.V("harness_while_shape", "%v%s", perr, e.tail())
			}
			if !m.declared {
				if v := expectErr(r, stmt, errUndeclared, "while_undeclared"); v != nil {
					return o, v
				}
				if len(got) > 0 {
					return o, fw.V("while_undeclared_delivered_data", "%s executed its body%s", stmt, e.tail())
				}
				class("err:undeclared:while")
				tok("W?")
				continue
			}
			if !m.open {
				if v := expectErr(r, stmt, errClosed, "while_closed"); v != nil {
					return o, v
				}
				if len(got) > 0 {
					return o, fw.V("while_closed_delivered_data", "%s executed its body%s", stmt, e.tail())
				}
				class("err:closed:while")
				tok("W?")
				continue
			}
			if r.Err != nil && op.Body != "" && errNum(r.Err)/1000 != 11 {
				return outOfDomain("while_body_dml_error")
			}
			if r.Err != nil {
				return o, fw.V("while_error", "%s on an open cursor failed: %s %v%s", stmt, run.ErrClass(r.Err), r.Err, e.tail())
			}
			var keepEnds []int
			matched := false
			broke := false
			for _, p := range m.ptrs {
				var remaining [][]val.Val
				if p+1 <= m.ln() {
					remaining = m.snap[p+1:]
				}
				want := remaining
				var ends []int
				if op.Break > 0 && len(remaining) >= op.Break {
					want = remaining[:op.Break]
					ends = []int{p + op.Break}
				} else {
					// the loop ended because no further record exists: the pointer is past the last
					// record (FETCH NEXT semantics) or, read literally from the WHILE IN text, on it
					last := m.ln() - 1
					if p > last {
						last = p
					}
					ends = []int{last, m.ln()}
				}
				ok := len(want) == len(got)
				for i := 0; ok && i < len(want); i++ {
					ok = rowEq(want[i], got[i])
				}
				if ok {
					matched = true
					keepEnds = append(keepEnds, ends...)
					broke = len(ends) == 1
				}
			}
			if !matched {
				var gs []string
				for _, g := range got {
					gs = append(gs, rowStr(g))
				}
				var ws []string
				p := m.ptrs[0]
				if p+1 <= m.ln() {
					for _, w := range m.snap[p+1:] {
						ws = append(ws, rowStr(w))
					}
				}
				sig := "while_in_visits"
				if m.dml > 0 || op.Body != "" {
					sig = "while_in_visits_after_dml"
				}
				return o, fw.V(sig, "%s with pointer in %v visited [%s]; the snapshot rows after the pointer are [%s] (BREAK after %d)%s",
					stmt, m.ptrs, strings.Join(gs, " "), strings.Join(ws, " "), op.Break, e.tail())
			}
			m.ptrs = uniq(keepEnds)
			if len(got) > 0 {
				m.fetched = fYes
				if m.dml > 0 {
					nontrivDML = true
					class("nontrivial:dml_between_open_and_while")
				}
			} else if m.fetched == fNo {
				m.fetched = fMaybe
			}
			if op.Body != "" && len(got) > 0 {
				dirty = true
				dataChanged()
			}
			switch {
			case len(got) == 0:
				class("while:no_rows")
				tok("W0")
			case broke:
				class("while:break")
				tok("Wb")
			default:
				class("while:complete")
				tok("W")
			}
			if op.Body != "" {
				class("while:body_" + op.Body)
			}

		case "status":
			var exprs []string
			switch op.What {
			case "open":
				exprs = []string{"CURSOR " + op.Cur + " IS OPEN", "CURSOR " + op.Cur + " IS NOT OPEN"}
			case "range":
				exprs = []string{"CURSOR " + op.Cur + " IS IN RANGE", "CURSOR " + op.Cur + " IS NOT IN RANGE"}
			default:
				exprs = []string{"CURSOR " + op.Cur + " COUNT"}
			}
			var got []string
			var firstErr error
			var stmt string
			if op.Print {
				for _, x := range exprs {
					stmt = "PRINT " + x + ";"
					e.s.Out.Reset()
					r := e.exec(stmt)
					if r.Err != nil {
						firstErr = r.Err
						break
					}
					got = append(got, strings.TrimSpace(e.s.Out.String()))
				}
			} else {
				stmt = "SELECT " + strings.Join(exprs, ", ") + ";"
				r := e.exec(stmt)
				if r.Err != nil {
					firstErr = r.Err
				} else if len(r.Views) == 1 && len(r.Views[0].Rows) == 1 {
					for _, v := range r.Views[0].Rows[0] {
						got = append(got, v.S)
					}
				}
			}
			wantErr := 0
			switch {
			case !m.declared:
				wantErr = errUndeclared
			case !m.open && op.What != "open":
				wantErr = errClosed
			}
			if wantErr != 0 {
				if v := expectErr(run.Res{Err: firstErr}, stmt, wantErr, "status_"+op.What+map[int]string{errUndeclared: "_undeclared", errClosed: "_closed"}[wantErr]); v != nil {
					return o, v
				}
				class(map[int]string{errUndeclared: "err:undeclared:", errClosed: "err:closed:"}[wantErr] + "status_" + op.What)
				tok("S?")
				continue
			}
			if firstErr != nil {
				return o, fw.V("status_"+op.What+"_error", "%s failed: %s %v%s", stmt, run.ErrClass(firstErr), firstErr, e.tail())
			}
			if len(got) != len(exprs) {
				return o, fw.V("harness_status_shape", "%s: unexpected result %v%s", stmt, got, e.tail())
			}
			not := map[string]string{"TRUE": "FALSE", "FALSE": "TRUE", "UNKNOWN": "UNKNOWN"}
			switch op.What {
			case "open":
				want := "FALSE"
				if m.open {
					want = "TRUE"
				}
				if got[0] != want || got[1] != not[want] {
					return o, fw.V("status_is_open", "%s gave %v; the cursor is open=%v%s", stmt, got, m.open, e.tail())
				}
				class("status:open:" + want)
			case "count":
				if got[0] != strconv.Itoa(m.ln()) {
					return o, fw.V("status_count", "%s gave %s; the view retrieved at OPEN has %d rows (%d data changes since)%s", stmt, got[0], m.ln(), m.dml, e.tail())
				}
				class("status:count")
			case "range":
				if got[1] != not[got[0]] || not[got[0]] == "" {
					return o, fw.V("status_in_range_negation", "%s gave %v%s", stmt, got, e.tail())
				}
				// admissible answers
				adm := map[string]bool{}
				if m.fetched != fYes {
					adm["UNKNOWN"] = true
				}
				if m.fetched != fNo {
					for _, p := range m.ptrs {
						if m.inRange(p) {
							adm["TRUE"] = true
						} else {
							adm["FALSE"] = true
						}
					}
				}
				if !adm[got[0]] {
					return o, fw.V("status_in_range", "%s gave %s; pointer in %v, %d rows, fetched=%s%s", stmt, got[0], m.ptrs, m.ln(), []string{"no", "yes", "maybe"}[m.fetched], e.tail())
				}
				// narrow the model with the observation
				switch got[0] {
				case "UNKNOWN":
					m.fetched = fNo
				default:
					m.fetched = fYes
					var keep []int
					for _, p := range m.ptrs {
						if m.inRange(p) == (got[0] == "TRUE") {
							keep = append(keep, p)
						}
					}
					m.ptrs = keep
				}
				class("status:range:" + got[0])
			}
			tok("S" + op.What[:1])

		case "dml":
			r := e.exec(dmlSQL(op))
			if r.Err != nil {
				return outOfDomain("dml_error")
			}
			if r.Affected > 0 {
				dirty = true
				dataChanged()
				class("dml:" + op.What)
				tok("M")
			} else {
				class("dml:noop")
				tok("m")
			}

		case "commit":
			if r := e.exec("COMMIT;"); r.Err != nil {
				return outOfDomain("commit_error")
			}
			if dirty {
				class("commit:dirty")
			} else {
				class("commit:clean")
			}
			dirty = false
			tok("T")

		case "rollback":
			if r := e.exec("ROLLBACK;"); r.Err != nil {
				return outOfDomain("rollback_error")
			}
			if dirty {
				dataChanged()
				class("rollback:dirty")
			} else {
				class("rollback:clean")
			}
			dirty = false
			tok("R")

		case "setvar":
			if r := e.exec(fmt.Sprintf("@lim := %d;", op.N)); r.Err != nil {
				return o, fw.V("harness_setvar", "%v%s", r.Err, e.tail())
			}
			tok("V")
		}
	}

	// final sweep: every cursor still open must deliver its whole snapshot by position
	for _, name := range []string{"c1", "c2"} {
		m := curs[name]
		if !m.declared || !m.open {
			continue
		}
		r := e.exec("SELECT CURSOR " + name + " COUNT;")
		if r.Err != nil || len(r.Views) != 1 || len(r.Views[0].Rows) != 1 {
			return o, fw.V("status_count_error", "final COUNT failed: %v%s", r.Err, e.tail())
		}
		if g := r.Views[0].Rows[0][0].S; g != strconv.Itoa(m.ln()) {
			return o, fw.V("status_count", "final COUNT of %s gave %s; the view retrieved at OPEN has %d rows (%d data changes since)%s", name, g, m.ln(), m.dml, e.tail())
		}
		for i := 0; i <= m.ln(); i++ {
			in, v := fetchChecked(m, opT{K: "fetch", Cur: name, Pos: "ABSOLUTE", N: i, NVars: 2})
			if v != nil {
				v.Sig = "sweep_" + v.Sig
				return o, v
			}
			if in && m.dml > 0 {
				nontrivDML = true
			}
		}
		class("final_sweep")
	}

	if nontrivDML || nontrivExc {
		o.Fingerprint = strings.Join(toks, "")
	}
	return o, nil
}

func TestC16CursorHistory(t *testing.T) {
	fw.Run(t, fw.Spec[histCase]{
		ID: "C16", Name: "cursor_history", Quick: 30000, Thorough: 600000,
		Gen: genCase, Check: checkHist,
		Rule: "a table t (CSV file or temporary table, 0-6 rows) and a history of 4-25 operations on two cursors generated up front: DECLARE (8 queries incl. ORDER BY, LIMIT, variable, self-join, common table expression; 2 prepared statements), OPEN [USING], FETCH in all six positions with offsets -9..9, CLOSE, DISPOSE, WHILE IN (VAR, BREAK, DML in the body), IS [NOT] OPEN / IS [NOT] IN RANGE / COUNT via SELECT or PRINT, INSERT/UPDATE/DELETE/COMMIT/ROLLBACK on t; executed statement by statement on one session next to a model {declared, open, snapshot, pointer set, fetched}; the snapshot is the result of the cursor's own query run as a SELECT immediately before or after OPEN; every cursor still open at the end is swept by FETCH ABSOLUTE 0..len. Non-trivial = a data change between OPEN and a later in-range fetch, or a relative fetch after the pointer left the view; distinct by the compressed operation/outcome sequence",
		Assumptions: []string{
			"variables after an out-of-range fetch: NULL (manual) and unchanged (implementation) are both admitted, record data is not",
			"after a WHILE IN that ran to the end the pointer may be on the last record (literal reading of control-flow.md) or past it (FETCH NEXT semantics); the model keeps both until an observation decides",
			"a FETCH with the wrong number of variables must fail when it addresses a record; whether the pointer moved is left open",
			"CLOSE of a closed cursor, DISPOSE of an open cursor and redeclaration are not constrained by the property (redeclaration without the error 11001 discards the case)",
			"FROM-subqueries over t are replaced by a common table expression (avoidFromSubqueryPoisonsFileInfo): after a FROM-subquery over a file every later INSERT/UPDATE/DELETE on that file fails, a defect outside this property; DML that fails for a non-cursor reason discards the case (measured as out_of_domain:*)",
			"the row order of an unordered SELECT over one small table at CPU 1 is the same in two consecutive evaluations",
		},
	})
}
