//go:build verif

package c16

import (
	"fmt"
	"os"
	"path/filepath"
	"sort"
	"strconv"
	"strings"
	"sync/atomic"
	"testing"

	"pgregory.net/rapid"

	"verif/internal/fw"
	"verif/internal/run"
	"verif/internal/val"
)

// ---------------------------------------------------------------------
// cursor_shapes: the snapshot and positioning rules over the shapes the
// history check leaves out: results of 1-6 columns with typed cells (integer,
// float, ternary, datetime, NULL, strings with quotes), 0-400 rows evaluated
// with 1-4 CPUs (>= 160 rows: several goroutines), tables in CSV / TSV / JSON
// / LTSV files or a temporary table, query forms (wildcard, DISTINCT, GROUP
// BY, UNION ALL, analytic functions, joins, inline subquery, LIMIT/OFFSET,
// scalar subquery, no table), more kinds of data changes (multi-row INSERT,
// INSERT ... SELECT, REPLACE, ALTER, DISPOSE VIEW, changes of the joined
// table), WHILE IN bodies with CONTINUE, with a FETCH on the loop cursor and
// with a nested loop over the same cursor, cursor status read by a multi-row
// (parallel) SELECT, and a cursor declared for a prepared statement that is
// disposed / prepared anew with another text between CLOSE and OPEN.

type sop struct {
	K     string `json:"k"`               // fetch dml while status reopen commit rollback setlim
	Pos   string `json:"pos,omitempty"`   // fetch
	N     int    `json:"n,omitempty"`     // fetch offset; setlim value
	What  string `json:"what,omitempty"`  // dml kind; status: count range par; reopen: "" other gone nonselect multi
	ID    int    `json:"id,omitempty"`    // dml target id
	Mode  string `json:"mode,omitempty"`  // while: plain cont bodyfetch nested fail
	Rel   int    `json:"rel,omitempty"`   // while bodyfetch: RELATIVE offset
	Break int    `json:"break,omitempty"` // while: BREAK after this many iterations (fail: the failing iteration)
	Q     int    `json:"q,omitempty"`     // reopen other: the new query
}

type shapeCase struct {
	Format string      `json:"format"` // csv tsv json ltsv temp
	CPU    int         `json:"cpu"`
	N      int         `json:"n"`
	Order  string      `json:"order"` // asc desc rot: order of the ids in the table
	Tmpl   [][3]string `json:"tmpl"`  // g, s, x cells; the row with id i uses Tmpl[i % len]
	Lim    int         `json:"lim"`
	Query  int         `json:"query"`
	Prep   bool        `json:"prep"` // DECLARE c CURSOR FOR ps (prepared from the query with a placeholder)
	Ops    []sop       `json:"ops"`
}

type shapeQ struct {
	name    string
	text    string // {L}: @lim, or the placeholder of the prepared form
	ordered bool   // ORDER BY a unique key: the row order is defined
	stable  bool   // unordered, but two evaluations at CPU 1 list the rows in the same (table) order
}

const shapeDay = "ADD_DAY(DATETIME('2020-01-01 00:00:00'), INTEGER(id))"

var shapeQueries = []shapeQ{
	{"star", "SELECT * FROM t", false, true},
	{"one_col", "SELECT s FROM t WHERE INTEGER(id) > {L}", false, true},
	{"three_desc", "SELECT id, x, s FROM t ORDER BY INTEGER(id) DESC", true, false},
	{"distinct", "SELECT DISTINCT g, x FROM t", false, false},
	{"group", "SELECT g, COUNT(*), MAX(INTEGER(id)) FROM t WHERE INTEGER(id) > {L} GROUP BY g", false, false},
	{"union_all", "SELECT id, s FROM t WHERE INTEGER(id) <= 2 UNION ALL SELECT id, x FROM t WHERE INTEGER(id) > {L}", false, false},
	{"analytic", "SELECT id, ROW_NUMBER() OVER (PARTITION BY g ORDER BY INTEGER(id)), COUNT(*) OVER (PARTITION BY g) FROM t", false, false},
	{"join", "SELECT t.id, u.name, t.s FROM t JOIN u ON t.g = u.g WHERE INTEGER(t.id) > {L}", false, false},
	{"left_join", "SELECT t.id, u.name FROM t LEFT JOIN u ON t.g = u.g ORDER BY INTEGER(t.id)", true, false},
	{"limit_offset", "SELECT id, s FROM t ORDER BY INTEGER(id) LIMIT 5 OFFSET {L}", true, false},
	{"typed", "SELECT INTEGER(id), INTEGER(id) % 2 = 0, FLOAT(id) / 4, " + shapeDay + " FROM t ORDER BY INTEGER(id)", true, false},
	{"inline", "SELECT q.id, q.s FROM (SELECT id, s FROM t WHERE INTEGER(id) % 2 = 1) q", false, true},
	{"no_table", "SELECT 1, 'one', 2.5, NULL, TRUE", true, false},
	{"no_rows", "SELECT id, s FROM t WHERE FALSE", true, false},
	{"scalar_subquery", "SELECT id, (SELECT COUNT(*) FROM t) FROM t ORDER BY INTEGER(id)", true, false},
	{"nullable_col", "SELECT g FROM t", false, true},
	{"six_cols", "SELECT id, g, s, x, INTEGER(id) * 2, s || 'z' FROM t ORDER BY INTEGER(id)", true, false},
}

var shapeG = []string{"", "0", "1", "2"}
var shapeS = []string{"a", "it's", "say \"hi\"", "", "ümlaut é", " sp ", "NULL", "x,y", "a:b"}
var shapeX = []string{"10", "-3", "2.5", "1e3", "007", "", "abc", "0.1"}

const maxShapeVars = 6

func genShape(t *rapid.T) shapeCase {
	c := shapeCase{}
	c.Format = weighted(t, "format", []wt{{"csv", 24}, {"tsv", 16}, {"json", 20}, {"ltsv", 16}, {"temp", 24}})
	switch weighted(t, "size", []wt{{"small", 62}, {"medium", 16}, {"large", 22}}) {
	case "small":
		c.N = uni(t, "n", 0, 12)
		c.CPU = []int{1, 1, 2}[uni(t, "cpu", 0, 2)]
	case "medium":
		c.N = uni(t, "n", 13, 159)
		c.CPU = []int{1, 2, 4}[uni(t, "cpu", 0, 2)]
	default:
		c.N = uni(t, "n", 160, 400) // >= 2 x 80 records: the evaluation is split over goroutines when CPU > 1
		c.CPU = []int{1, 2, 4, 4}[uni(t, "cpu", 0, 3)]
	}
	c.Order = []string{"asc", "desc", "rot"}[uni(t, "order", 0, 2)]
	for i, k := 0, uni(t, "ntmpl", 1, 7); i < k; i++ {
		c.Tmpl = append(c.Tmpl, [3]string{
			shapeG[uni(t, "g", 0, len(shapeG)-1)], shapeS[uni(t, "s", 0, len(shapeS)-1)], shapeX[uni(t, "x", 0, len(shapeX)-1)]})
	}
	c.Lim = uni(t, "lim", 0, 3)
	c.Query = uni(t, "query", 0, len(shapeQueries)-1)
	c.Prep = chance(t, "prep", 30)

	nops := uni(t, "nops", 3, 12)
	for i := 0; i < nops; i++ {
		kind := weighted(t, "kind", []wt{{"fetch", 34}, {"dml", 30}, {"while", 12}, {"status", 8}, {"reopen", 8}, {"commit", 2}, {"rollback", 4}, {"setlim", 2}})
		o := sop{K: kind}
		switch kind {
		case "fetch":
			o.Pos = weighted(t, "pos", []wt{{"NEXT", 14}, {"", 4}, {"PRIOR", 18}, {"FIRST", 8}, {"LAST", 10}, {"ABSOLUTE", 22}, {"RELATIVE", 24}})
			switch o.Pos {
			case "ABSOLUTE":
				switch weighted(t, "absk", []wt{{"in", 60}, {"edge", 30}, {"huge", 10}}) {
				case "in":
					o.N = uni(t, "abs", 0, max(c.N-1, 0))
				case "edge":
					o.N = []int{-1, -2, c.N, c.N + 1, c.N - 1, 0}[uni(t, "absedge", 0, 5)]
				default:
					o.N = hugeOffsets[uni(t, "abshuge", 0, len(hugeOffsets)-1)]
				}
			case "RELATIVE":
				switch weighted(t, "relk", []wt{{"small", 60}, {"far", 28}, {"huge", 12}}) {
				case "small":
					o.N = uni(t, "rel", -3, 3)
				case "far":
					o.N = uni(t, "relfar", -c.N-1, c.N+1)
				default:
					o.N = hugeOffsets[uni(t, "relhuge", 0, len(hugeOffsets)-1)]
				}
			}
		case "dml":
			o.What = weighted(t, "dml", []wt{{"insert", 12}, {"insert_multi", 10}, {"insert_select", 8}, {"update", 12}, {"update_all", 10}, {"update_g", 6},
				{"delete", 10}, {"delete_half", 6}, {"delete_all", 4}, {"replace", 8}, {"alter_add", 3}, {"alter_drop", 2}, {"alter_rename", 2}, {"u_update", 3}, {"u_delete", 2}, {"drop_table", 2}})
			o.ID = uni(t, "id", 1, max(c.N, 1)+2)
		case "while":
			if chance(t, "whilefrom", 85) {
				// the listing after OPEN leaves the pointer past the end: go back first
				from := sop{K: "fetch", Pos: "ABSOLUTE", N: uni(t, "from", -1, max(c.N-1, 0))}
				if chance(t, "fromstart", 40) {
					from.N = uni(t, "fromn", -1, 2)
				}
				c.Ops = append(c.Ops, from)
			}
			o.Mode = weighted(t, "mode", []wt{{"plain", 20}, {"cont", 27}, {"bodyfetch", 27}, {"nested", 13}, {"fail", 13}})
			if chance(t, "break", 35) || o.Mode == "fail" {
				o.Break = uni(t, "breakat", 1, 5) // fail: the iteration in which a statement of the body fails
			}
			if o.Mode == "bodyfetch" {
				o.Rel = []int{0, 1, 1, 2, -1, 3}[uni(t, "bodyrel", 0, 5)]
				if o.Rel < 0 && o.Break == 0 {
					o.Break = uni(t, "breakat", 2, 5) // FETCH RELATIVE -1 + NEXT would visit the same record for ever
				}
			}
		case "status":
			o.What = weighted(t, "status", []wt{{"count", 30}, {"range", 35}, {"par", 35}})
		case "reopen":
			if c.Prep {
				o.What = weighted(t, "reprep", []wt{{"", 30}, {"other", 25}, {"gone", 15}, {"nonselect", 15}, {"multi", 15}})
			}
			if o.What == "other" {
				o.Q = uni(t, "otherq", 0, len(shapeQueries)-1)
			}
		case "setlim":
			o.N = uni(t, "limv", 0, 4)
		}
		c.Ops = append(c.Ops, o)
	}
	return c
}

// ---- table files ----

func shapeIDs(c shapeCase) []int {
	ids := seq(1, c.N)
	switch c.Order {
	case "desc":
		for i, j := 0, len(ids)-1; i < j; i, j = i+1, j-1 {
			ids[i], ids[j] = ids[j], ids[i]
		}
	case "rot":
		k := len(ids) / 3
		ids = append(append([]int(nil), ids[k:]...), ids[:k]...)
	}
	return ids
}

func (c shapeCase) cells(id int) [3]string {
	if len(c.Tmpl) == 0 {
		return [3]string{"", "a", "1"}
	}
	return c.Tmpl[id%len(c.Tmpl)]
}

func csvField(s string, sep string) string {
	if s == "" {
		return ""
	}
	return `"` + strings.ReplaceAll(s, `"`, `""`) + `"`
}

func jsonStr(s string) string { return strconv.Quote(s) }

func isNumText(s string) bool {
	if s == "" || strings.HasPrefix(s, "0") && len(s) > 1 && !strings.HasPrefix(s, "0.") {
		return false
	}
	_, err := strconv.ParseFloat(s, 64)
	return err == nil && !strings.ContainsAny(s, "eE")
}

func shapeTableText(c shapeCase) (name, text string) {
	ids := shapeIDs(c)
	var b strings.Builder
	switch c.Format {
	case "csv", "tsv":
		sep := ","
		if c.Format == "tsv" {
			sep = "\t"
		}
		b.WriteString(strings.Join([]string{"id", "g", "s", "x"}, sep) + "\n")
		for _, id := range ids {
			cl := c.cells(id)
			b.WriteString(strings.Join([]string{strconv.Itoa(id), csvField(cl[0], sep), csvField(cl[1], sep), csvField(cl[2], sep)}, sep) + "\n")
		}
	case "json":
		b.WriteString("[")
		for i, id := range ids {
			cl := c.cells(id)
			if i > 0 {
				b.WriteString(",")
			}
			g, x := "null", jsonStr(cl[2])
			if cl[0] != "" {
				g = cl[0]
			}
			if isNumText(cl[2]) {
				x = cl[2]
			} else if cl[2] == "" {
				x = "null"
			}
			fmt.Fprintf(&b, "\n{\"id\":%d,\"g\":%s,\"s\":%s,\"x\":%s}", id, g, jsonStr(cl[1]), x)
		}
		b.WriteString("\n]\n")
	case "ltsv":
		if len(ids) == 0 {
			return "t.ltsv", ""
		}
		for _, id := range ids {
			cl := c.cells(id)
			fmt.Fprintf(&b, "id:%d\tg:%s\ts:%s\tx:%s\n", id, cl[0], cl[1], cl[2])
		}
	}
	return "t." + c.Format, b.String()
}

func sqlText(s string) string { return val.QuoteSQL(s) }

func shapeTempSetup(c shapeCase) []string {
	out := []string{"DECLARE t VIEW (id, g, s, x);"}
	ids := shapeIDs(c)
	for i := 0; i < len(ids); i += 50 {
		var vs []string
		for _, id := range ids[i:min(i+50, len(ids))] {
			cl := c.cells(id)
			g, x := "NULL", sqlText(cl[2])
			if cl[0] != "" {
				g = cl[0]
			}
			if isNumText(cl[2]) {
				x = cl[2]
			} else if cl[2] == "" {
				x = "NULL"
			}
			vs = append(vs, fmt.Sprintf("(%d, %s, %s, %s)", id, g, sqlText(cl[1]), x))
		}
		out = append(out, "INSERT INTO t VALUES "+strings.Join(vs, ", ")+";")
	}
	return append(out, "COMMIT;")
}

// ---- the check ----

func allNull(r []val.Val) bool {
	for _, v := range r {
		if !v.IsNull() {
			return false
		}
	}
	return true
}

func allSentinel(r []val.Val) bool {
	for _, v := range r {
		if v != val.Str(sentinel) {
			return false
		}
	}
	return true
}

func rowKey(r []val.Val) string {
	var b strings.Builder
	for _, v := range r {
		b.WriteString(v.K)
		b.WriteString(strconv.Quote(v.S))
		b.WriteByte('|')
	}
	return b.String()
}

func sameMultiset(a, b [][]val.Val) bool {
	if len(a) != len(b) {
		return false
	}
	ka, kb := make([]string, len(a)), make([]string, len(b))
	for i := range a {
		ka[i], kb[i] = rowKey(a[i]), rowKey(b[i])
	}
	sort.Strings(ka)
	sort.Strings(kb)
	for i := range ka {
		if ka[i] != kb[i] {
			return false
		}
	}
	return true
}

func varList(prefix string, k int) string {
	var vs []string
	for i := 1; i <= k; i++ {
		vs = append(vs, fmt.Sprintf("@%s%d", prefix, i))
	}
	return strings.Join(vs, ", ")
}

func resetVars(prefix string, k int) string {
	var b strings.Builder
	for i := 1; i <= k; i++ {
		fmt.Fprintf(&b, "@%s%d := '%s'; ", prefix, i, sentinel)
	}
	return b.String()
}

func sizeClass(n int) string {
	switch {
	case n == 0:
		return "0"
	case n <= 12:
		return "1-12"
	case n < 160:
		return "13-159"
	}
	return "160+"
}

func checkShape(c shapeCase) (fw.Outcome, *fw.Violation) {
	if c.Query < 0 || c.Query >= len(shapeQueries) || c.N < 0 || c.N > 2000 {
		return fw.Outcome{Discard: true}, nil
	}
	o := fw.Outcome{Classes: []string{"format:" + c.Format, "cpu:" + strconv.Itoa(c.CPU), "rows_in_table:" + sizeClass(c.N)}}
	class := func(s string) { o.Classes = append(o.Classes, s) }

	dir := filepath.Join(fw.WorkDir(), fmt.Sprintf("c16s-%d", atomic.AddInt64(&caseSeq, 1)))
	if err := os.MkdirAll(dir, 0755); err != nil {
		panic(err)
	}
	defer os.RemoveAll(dir)
	files := map[string]string{"u.csv": "g,name\n0,zero\n1,one\n2,two\n"}
	if c.Format != "temp" {
		name, text := shapeTableText(c)
		files[name] = text
	}
	if err := run.WriteFiles(dir, files); err != nil {
		panic(err)
	}
	s, err := run.NewSess(run.Opt{Dir: dir, CPU: c.CPU})
	if err != nil {
		panic(err)
	}
	defer s.Close()
	e := &env{s: s}

	var setup []string
	if c.Format == "temp" {
		setup = shapeTempSetup(c)
	}
	setup = append(setup, fmt.Sprintf("VAR @n := 0, @lim := %d, %s, %s;", c.Lim, varList("v", maxShapeVars), varList("w", maxShapeVars)))
	for _, st := range setup {
		if r := e.exec(st); r.Err != nil {
			return o, fw.Harness("set-up statement failed: %s: %v", clipText(st), r.Err)
		}
	}
	if c.Format == "ltsv" && c.N == 0 {
		// an empty LTSV file has no columns: nothing to query
		return fw.Outcome{Discard: true}, nil
	}

	// the query text as the cursor's query / as the reference statement
	qtext := func(q int, placeholder bool) string {
		if placeholder {
			return strings.ReplaceAll(shapeQueries[q].text, "{L}", "?")
		}
		return strings.ReplaceAll(shapeQueries[q].text, "{L}", "@lim")
	}
	curQ := c.Query
	hasParam := func(q int) bool { return strings.Contains(shapeQueries[q].text, "{L}") }
	prepare := func(q int) string {
		return fmt.Sprintf("PREPARE ps FROM %s;", sqlText(qtext(q, true)))
	}
	openStmt := func() string {
		if c.Prep && hasParam(curQ) {
			return "OPEN c USING @lim;"
		}
		return "OPEN c;"
	}
	refStmt := func() string {
		if c.Prep {
			if hasParam(curQ) {
				return "EXECUTE ps USING @lim;"
			}
			return "EXECUTE ps;"
		}
		return qtext(curQ, false) + ";"
	}
	if c.Prep {
		class("declare:prepared")
		if r := e.exec(prepare(curQ)); r.Err != nil {
			return o, fw.Harness("%v%s", r.Err, e.tail())
		}
		if r := e.exec("DECLARE c CURSOR FOR ps;"); r.Err != nil {
			return o, fw.V("shape_declare_error", "DECLARE c CURSOR FOR ps failed: %v%s", r.Err, e.tail())
		}
	} else {
		class("declare:query")
		st := "DECLARE c CURSOR FOR " + qtext(curQ, false) + ";"
		if r := e.exec(st); r.Err != nil {
			return o, fw.V("shape_declare_error", "%s failed: %v%s", st, r.Err, e.tail())
		}
	}

	var snap [][]val.Val
	ncols, p, dmlSince := 0, -1, 0
	nextID := c.N + 1
	nontrivial := false
	var toks []string
	tok := func(s string) { toks = append(toks, s) }
	ln := func() int { return len(snap) }
	inRange := func(q int) bool { return 0 <= q && q < len(snap) }

	// fetchObs runs one FETCH (variables reset to the sentinel first) and returns what the variables hold afterwards.
	fetchObs := func(pos string, n int) ([]val.Val, string, *fw.Violation) {
		ps := pos
		if pos == "ABSOLUTE" || pos == "RELATIVE" {
			ps = pos + " " + strconv.Itoa(n)
		}
		if ps != "" {
			ps += " "
		}
		stmt := fmt.Sprintf("FETCH %sc INTO %s;", ps, varList("v", ncols))
		r := e.exec(resetVars("v", ncols) + stmt + " SELECT " + varList("v", ncols) + ";")
		if r.Err != nil {
			return nil, stmt, fw.V("shape_fetch_open_cursor_error", "%s on an open cursor failed: %s %v%s", stmt, run.ErrClass(r.Err), r.Err, e.tail())
		}
		if len(r.Views) != 1 || len(r.Views[0].Rows) != 1 {
			return nil, stmt, fw.Harness("unexpected shape reading the variables%s", e.tail())
		}
		return r.Views[0].Rows[0], stmt, nil
	}
	// fetchAt: a FETCH with the model's pointer known: the addressed row of the snapshot or nothing.
	fetchAt := func(pos string, n int) (bool, *fw.Violation) {
		obs, stmt, v := fetchObs(pos, n)
		if v != nil {
			return false, v
		}
		q := move(p, pos, n, ln())
		desc := fmt.Sprintf("%s with the pointer at %d over a snapshot of %d rows x %d columns -> position %d; variables now %s", stmt, p, ln(), ncols, q, rowStr(obs))
		p = q
		if !inRange(q) {
			if !allSentinel(obs) && !allNull(obs) {
				return false, fw.V("shape_fetch_out_of_range_delivered_data", "%s; no record exists there%s", desc, e.tail())
			}
			return false, nil
		}
		if rowEq(snap[q], obs) {
			return true, nil
		}
		if allSentinel(obs) || allNull(obs) {
			return false, fw.V("shape_fetch_in_range_no_data", "%s; expected %s%s", desc, rowStr(snap[q]), e.tail())
		}
		for i, rw := range snap {
			if rowEq(rw, obs) {
				return false, fw.V("shape_fetch_wrong_position", "%s = snapshot row %d; expected %s%s", desc, i, rowStr(snap[q]), e.tail())
			}
		}
		return false, fw.V("shape_fetch_not_snapshot_row", "%s is not the snapshot row %s (%d data changes since OPEN)%s", desc, rowStr(snap[q]), dmlSince, e.tail())
	}
	count := func() (int, *fw.Violation) {
		r := e.exec("SELECT CURSOR c COUNT;")
		if r.Err != nil || len(r.Views) != 1 || len(r.Views[0].Rows) != 1 {
			return 0, fw.V("shape_count_error", "COUNT of the open cursor failed: %v%s", r.Err, e.tail())
		}
		return int(r.Views[0].Rows[0][0].AsInt()), nil
	}
	// sweep lists the cursor by FETCH ABSOLUTE 0..len-1 and checks position len; first: the listing defines the snapshot
	sweep := func(first bool, ref [][]val.Val, exact bool) *fw.Violation {
		cnt, v := count()
		if v != nil {
			return v
		}
		if first {
			if cnt != len(ref) {
				return fw.V("shape_count", "COUNT is %d right after OPEN; the cursor's query returns %d rows%s", cnt, len(ref), e.tail())
			}
			snap = nil
			for i := 0; i < cnt; i++ {
				obs, stmt, v := fetchObs("ABSOLUTE", i)
				if v != nil {
					return v
				}
				if allSentinel(obs) {
					return fw.V("shape_fetch_in_range_no_data", "%s delivered nothing although COUNT is %d%s", stmt, cnt, e.tail())
				}
				snap = append(snap, obs)
			}
			ok := sameMultiset(snap, ref)
			if ok && exact {
				for i := range snap {
					ok = ok && rowEq(snap[i], ref[i])
				}
			}
			if !ok {
				return fw.V("shape_open_not_query_result", "the rows listed by FETCH ABSOLUTE 0..%d right after OPEN are not the result of the cursor's query evaluated right before (exact order required: %v); first rows: cursor %s, query %s%s",
					cnt-1, exact, firstRows(snap), firstRows(ref), e.tail())
			}
		} else {
			if cnt != ln() {
				return fw.V("shape_count", "final COUNT is %d; the view retrieved at OPEN has %d rows (%d data changes since)%s", cnt, ln(), dmlSince, e.tail())
			}
			for i := 0; i < cnt; i++ {
				in, v := fetchAt("ABSOLUTE", i)
				if v != nil {
					v.Sig = "sweep_" + v.Sig
					return v
				}
				if in && dmlSince > 0 {
					nontrivial = true
				}
			}
		}
		if _, v := fetchAt("ABSOLUTE", cnt); v != nil {
			return v
		}
		p = cnt
		return nil
	}
	// open: reference evaluation, OPEN, listing. ok=false: the OPEN failed together with its query (or, tooWide, the
	// result has more columns than the check has variables: the case is discarded).
	tooWide := false
	open := func() (bool, *fw.Violation) {
		rr := e.exec(refStmt())
		ost := openStmt()
		r := e.exec(ost)
		switch {
		case r.Err != nil && rr.Err == nil:
			return false, fw.V("shape_open_error", "%s failed (%s %v) although the cursor's query evaluates%s", ost, run.ErrClass(r.Err), r.Err, e.tail())
		case r.Err == nil && rr.Err != nil:
			return false, fw.V("shape_open_succeeded_query_fails", "%s succeeded although the cursor's query fails (%v)%s", ost, rr.Err, e.tail())
		case r.Err != nil:
			return false, nil
		}
		if len(rr.Views) != 1 {
			return false, fw.Harness("reference statement gave %d results%s", len(rr.Views), e.tail())
		}
		ncols = len(rr.Views[0].Header)
		if ncols < 1 || ncols > maxShapeVars {
			fw.AddExtra("out_of_domain:shape_columns", 1)
			tooWide = true
			return false, nil
		}
		q := shapeQueries[curQ]
		exact := q.ordered || (q.stable && c.CPU == 1)
		dmlSince = 0
		if v := sweep(true, rr.Views[0].Rows, exact); v != nil {
			return false, v
		}
		if exact {
			class("open:order_checked")
		} else {
			class("open:multiset_checked")
		}
		class("open:cols" + strconv.Itoa(ncols))
		class("open:rows:" + sizeClass(ln()))
		for _, rw := range snap {
			for _, x := range rw {
				class("cell:" + x.K)
			}
			if len(snap) > 12 {
				break
			}
		}
		return true, nil
	}
	// closedChecks: after a failed OPEN the cursor is closed: status and fetch say so, nothing is delivered
	closedChecks := func(why string) *fw.Violation {
		r := e.exec("SELECT CURSOR c IS OPEN;")
		if r.Err != nil || len(r.Views) != 1 || len(r.Views[0].Rows) != 1 || r.Views[0].Rows[0][0].S != "FALSE" {
			return fw.V("shape_failed_open_leaves_cursor_open", "after the failed OPEN (%s) CURSOR c IS OPEN is not FALSE (%v)%s", why, r.Err, e.tail())
		}
		k := max(ncols, 1)
		r = e.exec(resetVars("v", k) + fmt.Sprintf("FETCH c INTO %s;", varList("v", k)))
		if r.Err == nil || errNum(r.Err) != errClosed {
			return fw.V("shape_fetch_closed_no_error", "FETCH after the failed OPEN (%s): %v, expected error %d%s", why, r.Err, errClosed, e.tail())
		}
		r = e.exec("SELECT " + varList("v", k) + ";")
		if r.Err != nil || len(r.Views) != 1 || !allSentinel(r.Views[0].Rows[0]) {
			return fw.V("shape_fetch_closed_delivered_data", "FETCH on the closed cursor changed the variables%s", e.tail())
		}
		if r := e.exec("SELECT CURSOR c COUNT;"); r.Err == nil || errNum(r.Err) != errClosed {
			return fw.V("shape_count_closed_no_error", "COUNT after the failed OPEN (%s): %v, expected error %d%s", why, r.Err, errClosed, e.tail())
		}
		return nil
	}
	finish := func() (fw.Outcome, *fw.Violation) {
		if nontrivial {
			o.Fingerprint = fmt.Sprintf("%s|cpu%d|%s|%s|prep=%v|%s", c.Format, c.CPU, sizeClass(c.N), shapeQueries[c.Query].name, c.Prep, strings.Join(toks, ""))
		}
		return o, nil
	}

	class("query:" + shapeQueries[curQ].name)
	ok, v := open()
	if v != nil {
		return o, v
	}
	if tooWide {
		return fw.Outcome{Discard: true}, nil
	}
	if !ok {
		class("open:failed_with_query")
		return finish()
	}

	for oi, op := range c.Ops {
		switch op.K {
		case "fetch":
			in, v := fetchAt(op.Pos, op.N)
			if v != nil {
				return o, v
			}
			if in && dmlSince > 0 {
				nontrivial = true
				class("nontrivial:dml_between_open_and_fetch")
			}
			class("fetch:" + posName(op.Pos))
			if (op.Pos == "ABSOLUTE" || op.Pos == "RELATIVE") && isHuge(op.N) {
				class("fetch:huge_offset:" + op.Pos)
			}
			if in {
				class("fetch:in")
				tok("F" + posName(op.Pos)[:1] + "i")
			} else {
				class("fetch:out")
				tok("F" + posName(op.Pos)[:1] + "o")
			}

		case "dml":
			var sql string
			tag := oi + 1
			switch op.What {
			case "insert":
				sql = fmt.Sprintf("INSERT INTO t (id, g, s, x) VALUES (%d, 1, 'i%d', 5);", nextID, tag)
				nextID++
			case "insert_multi":
				sql = fmt.Sprintf("INSERT INTO t (id, g, s, x) VALUES (%d, 0, 'm%d', 1), (%d, NULL, 'm%d', 2.5), (%d, 2, '', NULL);", nextID, tag, nextID+1, tag, nextID+2)
				nextID += 3
			case "insert_select":
				sql = fmt.Sprintf("INSERT INTO t (id, g, s, x) SELECT INTEGER(id) + %d, g, s, x FROM t WHERE INTEGER(id) <= 3;", tag*100000)
			case "update":
				sql = fmt.Sprintf("UPDATE t SET s = 'u%d' WHERE INTEGER(id) = %d;", tag, op.ID)
			case "update_all":
				sql = "UPDATE t SET s = s || '!', x = 77;"
			case "update_g":
				sql = "UPDATE t SET g = 2 WHERE INTEGER(id) % 2 = 0;"
			case "delete":
				sql = fmt.Sprintf("DELETE FROM t WHERE INTEGER(id) = %d;", op.ID)
			case "delete_half":
				sql = "DELETE FROM t WHERE INTEGER(id) % 2 = 1;"
			case "delete_all":
				sql = "DELETE FROM t;"
			case "replace":
				sql = fmt.Sprintf("REPLACE INTO t (id, g, s, x) USING (id) VALUES (%d, 0, 'r%d', 1);", op.ID, tag)
			case "alter_add":
				sql = "ALTER TABLE t ADD z DEFAULT 1 FIRST;"
			case "alter_drop":
				sql = "ALTER TABLE t DROP x;"
			case "alter_rename":
				sql = "ALTER TABLE t RENAME s TO s2;"
			case "u_update":
				sql = "UPDATE u SET name = 'N' || name;"
			case "u_delete":
				sql = "DELETE FROM u WHERE g = 1;"
			case "drop_table":
				if c.Format != "temp" {
					continue
				}
				sql = "DISPOSE VIEW t;"
			default:
				continue
			}
			r := e.exec(sql)
			switch {
			case r.Err != nil:
				// e.g. after a column was dropped or the table disposed: nothing changed, not this property's business
				class("dml:error")
				tok("m")
			case r.Affected > 0 || op.What == "drop_table" || strings.HasPrefix(op.What, "alter"):
				dmlSince++
				class("dml:" + op.What)
				tok("M")
			default:
				class("dml:noop")
				tok("m")
			}

		case "commit", "rollback":
			if r := e.exec(strings.ToUpper(op.K) + ";"); r.Err != nil {
				fw.AddExtra("out_of_domain:"+op.K+"_error", 1)
				return fw.Outcome{Discard: true}, nil
			}
			if op.K == "rollback" {
				dmlSince++
			}
			class(op.K)
			tok(strings.ToUpper(op.K[:1]))

		case "setlim":
			if r := e.exec(fmt.Sprintf("@lim := %d;", op.N)); r.Err != nil {
				return o, fw.Harness("%v%s", r.Err, e.tail())
			}
			tok("V")

		case "status":
			switch op.What {
			case "count":
				cnt, v := count()
				if v != nil {
					return o, v
				}
				if cnt != ln() {
					return o, fw.V("shape_count", "COUNT is %d; the view retrieved at OPEN has %d rows (%d data changes since)%s", cnt, ln(), dmlSince, e.tail())
				}
				class("status:count")
			case "range":
				r := e.exec("SELECT CURSOR c IS IN RANGE, CURSOR c IS NOT IN RANGE;")
				if r.Err != nil || len(r.Views) != 1 || len(r.Views[0].Rows) != 1 {
					return o, fw.V("shape_status_error", "IS IN RANGE on the open cursor failed: %v%s", r.Err, e.tail())
				}
				want := []string{"FALSE", "TRUE"}
				if inRange(p) {
					want = []string{"TRUE", "FALSE"}
				}
				if g := r.Views[0].Rows[0]; g[0].S != want[0] || g[1].S != want[1] {
					return o, fw.V("shape_status_in_range", "IS [NOT] IN RANGE gave %s; the pointer is at %d of %d rows%s", rowStr(g), p, ln(), e.tail())
				}
				class("status:range")
			default:
				// the status expressions evaluated once per row of t (by several goroutines when t is large and CPU > 1)
				r := e.exec("SELECT CURSOR c COUNT, CURSOR c IS IN RANGE, CURSOR c IS OPEN FROM t;")
				if r.Err != nil || len(r.Views) != 1 {
					class("status:par_no_table")
					continue
				}
				want := []val.Val{val.Int(int64(ln())), {K: "T", S: "FALSE"}, {K: "T", S: "TRUE"}}
				if inRange(p) {
					want[1].S = "TRUE"
				}
				for _, g := range r.Views[0].Rows {
					if !rowEq(g, want) {
						return o, fw.V("shape_status_per_row", "COUNT, IS IN RANGE, IS OPEN evaluated per row of t gave %s; expected %s (pointer at %d of %d rows)%s", rowStr(g), rowStr(want), p, ln(), e.tail())
					}
				}
				class("status:per_row:" + sizeClass(len(r.Views[0].Rows)))
			}
			tok("S")

		case "reopen":
			if r := e.exec("CLOSE c;"); r.Err != nil {
				return o, fw.V("shape_close_error", "CLOSE of the open cursor failed: %v%s", r.Err, e.tail())
			}
			if c.Prep && op.What != "" {
				var before run.Res
				bad := ""
				switch op.What {
				case "other":
					if op.Q < 0 || op.Q >= len(shapeQueries) {
						continue
					}
					curQ = op.Q
					e.exec("DISPOSE PREPARE ps;")
					if r := e.exec(prepare(curQ)); r.Err != nil {
						return o, fw.Harness("%v%s", r.Err, e.tail())
					}
					class("reprepare:other_query")
				case "gone":
					e.exec("DISPOSE PREPARE ps;")
					bad = "the prepared statement was disposed"
				case "nonselect":
					e.exec("DISPOSE PREPARE ps;")
					before = e.exec("SELECT COUNT(*) FROM u;")
					if r := e.exec("PREPARE ps FROM 'DELETE FROM u';"); r.Err != nil {
						return o, fw.Harness("%v%s", r.Err, e.tail())
					}
					bad = "the prepared statement is a DELETE"
				case "multi":
					e.exec("DISPOSE PREPARE ps;")
					if r := e.exec("PREPARE ps FROM 'SELECT 1, 2; SELECT 3, 4;';"); r.Err != nil {
						return o, fw.Harness("%v%s", r.Err, e.tail())
					}
					bad = "the prepared statement holds two queries"
				}
				if bad != "" {
					// there is no single query to evaluate: the OPEN fails, the cursor stays closed, nothing is executed
					if r := e.exec("OPEN c;"); r.Err == nil {
						return o, fw.V("shape_open_invalid_statement_succeeded", "OPEN c succeeded although %s%s", bad, e.tail())
					}
					if v := closedChecks(bad); v != nil {
						return o, v
					}
					if op.What == "nonselect" && before.Err == nil {
						after := e.exec("SELECT COUNT(*) FROM u;")
						if after.Err != nil || len(after.Views) != 1 || len(before.Views) != 1 || !rowEq(after.Views[0].Rows[0], before.Views[0].Rows[0]) {
							return o, fw.V("shape_open_executed_non_query", "the failed OPEN executed the DELETE statement: u had %v rows, now %v%s", before.Views, after.Views, e.tail())
						}
					}
					class("reprepare:" + op.What)
					e.exec("DISPOSE PREPARE ps;")
					if r := e.exec(prepare(curQ)); r.Err != nil {
						return o, fw.Harness("%v%s", r.Err, e.tail())
					}
				}
			}
			ok, v := open()
			if v != nil {
				return o, v
			}
			if tooWide {
				return fw.Outcome{Discard: true}, nil
			}
			if !ok {
				if v := closedChecks("its query fails"); v != nil {
					return o, v
				}
				class("reopen:failed_with_query")
				return finish()
			}
			class("reopen")
			tok("O")

		case "while":
			k := ncols
			brk := op.Break
			if op.Mode == "bodyfetch" && op.Rel < 0 && brk == 0 {
				brk = 3
			}
			failAt := 0
			if op.Mode == "fail" {
				failAt, brk = max(brk, 1), 0
			}
			nulls := func(n int) string { return strings.Repeat(", NULL", n) }
			logL := fmt.Sprintf("INSERT INTO log VALUES (@n, 'L', NULL, %s%s);", varList("v", k), nulls(maxShapeVars-k))
			brkSQL := " IF @n >= 2000 THEN BREAK; END IF;"
			if brk > 0 {
				brkSQL = fmt.Sprintf(" IF @n >= %d THEN BREAK; END IF;", brk)
			}
			var body string
			switch op.Mode {
			case "cont":
				body = logL + brkSQL + " IF @n % 2 = 0 THEN CONTINUE; END IF; INSERT INTO log VALUES (@n, 'A', NULL" + nulls(maxShapeVars) + ");"
			case "bodyfetch":
				body = logL + " " + resetVars("w", k) + fmt.Sprintf("FETCH RELATIVE %d c INTO %s; INSERT INTO log VALUES (@n, 'B', CURSOR c IS IN RANGE, %s%s);", op.Rel, varList("w", k), varList("w", k), nulls(maxShapeVars-k)) + brkSQL
			case "fail":
				// a statement of the body fails in iteration failAt: the loop ends there with that error
				body = logL + fmt.Sprintf(" IF @n >= %d THEN INSERT INTO no_such_table VALUES (1); END IF;", failAt) + brkSQL
			case "nested":
				body = logL + fmt.Sprintf(" WHILE %s IN c DO INSERT INTO log VALUES (@n, 'B', NULL, %s%s); END WHILE;", varList("w", k), varList("w", k), nulls(maxShapeVars-k)) + brkSQL
			default:
				body = logL + brkSQL
			}
			stmt := fmt.Sprintf("WHILE %s IN c DO @n := @n + 1; %s END WHILE;", varList("v", k), body)
			if r := e.exec("@n := 0; DECLARE log VIEW (n, tag, rng" + func() string {
				s := ""
				for i := 1; i <= maxShapeVars; i++ {
					s += fmt.Sprintf(", c%d", i)
				}
				return s
			}() + ");"); r.Err != nil {
				return o, fw.Harness("%v%s", r.Err, e.tail())
			}
			r := e.exec(stmt)
			lr := e.exec("SELECT * FROM log;")
			e.exec("DISPOSE VIEW log;")
			if lr.Err != nil || len(lr.Views) != 1 {
				return o, fw.Harness("reading the loop log: %v%s", lr.Err, e.tail())
			}
			// the model of the loop: every iteration is a FETCH NEXT; the loop ends when that delivers nothing
			type ent struct {
				tag string
				pos int // snapshot row, -1: nothing delivered, -2: no row expected in the entry
			}
			var want []ent
			q, iter, broke, failed := p, 0, false, false
			for iter < 2000 {
				q = move(q, "NEXT", 0, ln())
				if !inRange(q) {
					break
				}
				iter++
				want = append(want, ent{"L", q})
				if failAt > 0 && iter >= failAt {
					broke, failed = true, true
					break
				}
				stop := brk > 0 && iter >= brk
				switch op.Mode {
				case "cont":
					if !stop && iter%2 == 1 {
						want = append(want, ent{"A", -2})
					}
				case "bodyfetch":
					q = move(q, "RELATIVE", op.Rel, ln())
					if inRange(q) {
						want = append(want, ent{"B", q})
					} else {
						want = append(want, ent{"B", -1})
					}
				case "nested":
					for {
						q = move(q, "NEXT", 0, ln())
						if !inRange(q) {
							break
						}
						want = append(want, ent{"B", q})
					}
				}
				if stop {
					broke = true
					break
				}
			}
			switch {
			case r.Err != nil && !failed:
				return o, fw.V("shape_while_error", "%s on an open cursor failed: %s %v%s", stmt, run.ErrClass(r.Err), r.Err, e.tail())
			case r.Err == nil && failed:
				return o, fw.V("shape_while_body_error_lost", "%s ended without an error although the INSERT into a table that does not exist was reached in iteration %d%s", stmt, failAt, e.tail())
			case failed && errNum(r.Err)/1000 == 11:
				return o, fw.V("shape_while_error", "%s: the failing statement of the body was reported as a cursor error: %s %v%s", stmt, run.ErrClass(r.Err), r.Err, e.tail())
			}
			got := lr.Views[0].Rows
			bad := len(got) != len(want)
			for i := 0; !bad && i < len(want); i++ {
				g, w := got[i], want[i]
				if g[1] != val.Str(w.tag) {
					bad = true
					break
				}
				cells := g[3 : 3+k]
				switch {
				case w.pos >= 0:
					bad = !rowEq(cells, snap[w.pos]) || (w.tag == "B" && op.Mode == "bodyfetch" && g[2] != val.Val{K: "T", S: "TRUE"})
				case w.pos == -1:
					bad = !(allSentinel(cells) || allNull(cells)) || g[2] != val.Val{K: "T", S: "FALSE"}
				}
			}
			if bad {
				var gs, ws []string
				for i, g := range got {
					if i >= 12 {
						gs = append(gs, "...")
						break
					}
					gs = append(gs, g[1].S+g[2].String()+rowStr(g[3:3+k]))
				}
				for i, w := range want {
					if i >= 12 {
						ws = append(ws, "...")
						break
					}
					switch {
					case w.pos >= 0:
						ws = append(ws, w.tag+rowStr(snap[w.pos]))
					case w.pos == -1:
						ws = append(ws, w.tag+"(nothing, IS IN RANGE FALSE)")
					default:
						ws = append(ws, w.tag)
					}
				}
				sig := "shape_while_in_visits"
				if op.Mode != "plain" && op.Mode != "" {
					sig += "_" + op.Mode
				}
				return o, fw.V(sig, "%s with the pointer at %d over %d rows logged %d entries [%s]; expected %d [%s] (BREAK after %d; %d data changes since OPEN)%s",
					stmt, p, ln(), len(got), strings.Join(gs, " "), len(want), strings.Join(ws, " "), brk, dmlSince, e.tail())
			}
			if len(want) > 0 && dmlSince > 0 {
				nontrivial = true
				class("nontrivial:dml_between_open_and_while")
			}
			p = q
			if !broke {
				// the loop ended because no further record exists: past the last record (FETCH NEXT semantics) or, reading
				// control-flow.md literally, on it; IS IN RANGE decides, a TRUE is followed by a re-positioning
				r := e.exec("SELECT CURSOR c IS IN RANGE;")
				if r.Err != nil || len(r.Views) != 1 || len(r.Views[0].Rows) != 1 {
					return o, fw.V("shape_status_error", "IS IN RANGE on the open cursor failed: %v%s", r.Err, e.tail())
				}
				if r.Views[0].Rows[0][0].S != "FALSE" {
					class("while:pointer_not_past_the_end")
					if _, v := fetchAt("ABSOLUTE", ln()); v != nil {
						return o, v
					}
				}
				p = ln()
			}
			class("while:" + op.Mode)
			switch {
			case failed:
				class("while:ended_by_error")
			case broke:
				class("while:break")
			}
			tok("W" + op.Mode[:1])
		}
	}

	// every row of the snapshot is still there, by position
	if v := sweep(false, nil, false); v != nil {
		return o, v
	}
	return finish()
}

func firstRows(rows [][]val.Val) string {
	var ss []string
	for i, r := range rows {
		if i >= 6 {
			ss = append(ss, "...")
			break
		}
		ss = append(ss, rowStr(r))
	}
	return "[" + strings.Join(ss, " ") + "]"
}

func clipText(s string) string {
	if len(s) > 300 {
		return s[:300] + "..."
	}
	return s
}

func TestC16CursorShapes(t *testing.T) {
	fw.Run(t, fw.Spec[shapeCase]{
		ID: "C16", Name: "cursor_shapes", Quick: 3000, Thorough: 40000,
		Gen: genShape, Check: checkShape,
		Rule: "a table t(id, g, s, x) of 0-400 rows (62% 0-12, 16% 13-159, 22% 160-400 = at least two goroutine chunks) built from 1-7 drawn row templates (NULL/empty cells, strings with quotes, commas, non-ASCII, numeric and non-numeric text) stored as CSV, TSV, JSON, LTSV file or temporary table, a joined table u, CPU 1/2/4; one cursor over one of 17 query forms (wildcard, one column, six columns, typed cells: integer/float/ternary/datetime/NULL, DISTINCT, GROUP BY, UNION ALL, analytic functions, JOIN, LEFT JOIN, inline subquery, LIMIT/OFFSET, scalar subquery, no table, no rows), declared for the query or (30%) for a prepared statement with a placeholder; right after OPEN the cursor is listed by FETCH ABSOLUTE 0..COUNT-1 and must equal the query evaluated as a statement right before (in order when the query orders by a unique key or is a plain scan at CPU 1, as a multiset otherwise); then 3-12 operations: FETCH in all positions incl. offsets around +-2^31, +-2^62, +-(2^63-1), data changes (single/multi-row INSERT, INSERT SELECT, UPDATE, DELETE, REPLACE, ALTER ADD/DROP/RENAME, DISPOSE VIEW t, changes of u, COMMIT, ROLLBACK), WHILE IN with CONTINUE / with FETCH RELATIVE n on the loop cursor in the body / with a nested WHILE IN over the same cursor / with a statement of the body that fails in iteration k, after which the pointer is on the record of that iteration (visited rows logged with their types in a temporary table), COUNT and IS IN RANGE also evaluated once per row of t, CLOSE + OPEN (for a prepared cursor after the statement was prepared anew with another query, disposed, or replaced by a DELETE or by two queries: then the OPEN must fail, leave the cursor closed and execute nothing); every FETCH must deliver exactly the listed row at the addressed position; at the end the cursor is listed again. Non-trivial = a data change between OPEN and a later in-range fetch or loop visit; distinct by format, CPU, size class, query and operation/outcome sequence",
		Assumptions: []string{
			"the listing right after OPEN defines the snapshot; it is compared with the reference evaluation in order only where the order is defined (ORDER BY a unique key) or the query is a plain scan/filter/inline subquery at CPU 1, as a multiset otherwise",
			"variables after an out-of-range fetch: unchanged or NULL; a result row that is all NULL is accepted where nothing is expected (1-column query over a nullable column)",
			"a WHILE IN body is entered once per successful FETCH NEXT; a FETCH inside the body moves the same pointer (the documented meaning of FETCH); after a loop that ran to the end IS IN RANGE decides whether the pointer is past the end; if not the check re-positions it",
			"an OPEN and the plain execution of the cursor's query right before succeed or fail together; after a failed OPEN the case ends with the closed-cursor checks",
			"OPEN of a cursor whose prepared statement does not exist, is not a query or holds two statements must fail (any error) and execute nothing: a cursor is a pointer into the view of one select query",
			"data-changing statements that fail (column dropped, table disposed) are no-ops of the history",
		},
	})
}
