//go:build verif

package c16

import (
	"fmt"
	"os"
	"path/filepath"
	"sort"
	"strconv"
	"strings"
	"sync/atomic"
	"testing"

	"pgregory.net/rapid"

	"verif/internal/fw"
	"verif/internal/run"
)

// ---------------------------------------------------------------------
// pseudo_cursor: the list of grouped values a user-defined aggregate function
// receives is walked through a pseudo cursor (user-defined-function.md: FETCH,
// WHILE IN and the cursor status expressions work against it). The function
// body is a generated walk; its result is a trace of what every step saw and
// ends with a listing of the whole list. The positioning rules are the ones of
// a cursor that has just been opened: pointer before the first value, IS IN
// RANGE UNKNOWN until the first fetch, COUNT = number of values, IS OPEN TRUE;
// every invocation (group / partition / concurrent partition) has its own.

type pstep struct {
	K     string `json:"k"`               // fetch range count open while tryopen
	Pos   string `json:"pos,omitempty"`   // fetch
	N     int    `json:"n,omitempty"`     // fetch offset
	Break int    `json:"break,omitempty"` // while: BREAK after this many iterations (0: never)
}

type pseudoCase struct {
	N         int     `json:"n"`          // rows of t: id 1..N, g = id % NG, v = 'v<id>' (NULL when id % NullEvery == 0)
	NG        int     `json:"ng"`         // number of groups
	NullEvery int     `json:"null_every"` // 0: no NULLs
	Mode      string  `json:"mode"`       // all group analytic distinct
	CPU       int     `json:"cpu"`
	Steps     []pstep `json:"steps"`
}

func genPseudo(t *rapid.T) pseudoCase {
	c := pseudoCase{}
	c.Mode = weighted(t, "mode", []wt{{"all", 20}, {"group", 35}, {"analytic", 30}, {"distinct", 15}})
	if chance(t, "large", 8) {
		c.N = uni(t, "n", 160, 360)
		c.CPU = []int{2, 4}[uni(t, "cpu", 0, 1)]
	} else {
		c.N = uni(t, "n", 0, 14)
		c.CPU = []int{1, 1, 2}[uni(t, "cpu", 0, 2)]
	}
	c.NG = uni(t, "ng", 1, 4)
	if c.Mode == "distinct" {
		c.NG = uni(t, "ngd", 2, 5) // here: v = 'd<id % NG>', duplicates to remove
	}
	if chance(t, "nulls", 35) {
		c.NullEvery = uni(t, "nullevery", 2, 5)
	}
	nsteps := uni(t, "nsteps", 1, 9)
	for i := 0; i < nsteps; i++ {
		st := pstep{K: weighted(t, "step", []wt{{"fetch", 58}, {"range", 14}, {"count", 6}, {"open", 4}, {"while", 18}})}
		switch st.K {
		case "fetch":
			st.Pos = weighted(t, "pos", []wt{{"NEXT", 22}, {"", 6}, {"PRIOR", 18}, {"FIRST", 8}, {"LAST", 10}, {"ABSOLUTE", 16}, {"RELATIVE", 20}})
			switch st.Pos {
			case "ABSOLUTE":
				st.N = uni(t, "abs", -2, 6)
			case "RELATIVE":
				st.N = uni(t, "rel", -4, 4)
			}
			if (st.Pos == "ABSOLUTE" || st.Pos == "RELATIVE") && chance(t, "huge", 6) {
				st.N = hugeOffsets[uni(t, "hugen", 0, len(hugeOffsets)-1)]
			}
		case "while":
			if chance(t, "break", 50) {
				st.Break = uni(t, "breakat", 1, 3)
			}
		}
		c.Steps = append(c.Steps, st)
	}
	if chance(t, "tryopen", 6) {
		c.Steps = append(c.Steps, pstep{K: "tryopen"})
	}
	return c
}

func (c pseudoCase) value(id int) string { // "~": NULL
	if c.NullEvery > 0 && id%c.NullEvery == 0 {
		return "~"
	}
	if c.Mode == "distinct" {
		return "d" + strconv.Itoa(id%max(c.NG, 1))
	}
	return "v" + strconv.Itoa(id)
}

func pseudoBody(steps []pstep) string {
	var b strings.Builder
	b.WriteString("VAR @x, @n, @r := ''; ")
	for _, st := range steps {
		switch st.K {
		case "fetch":
			pos := st.Pos
			if pos == "ABSOLUTE" || pos == "RELATIVE" {
				pos += " " + strconv.Itoa(st.N)
			}
			if pos != "" {
				pos += " "
			}
			fmt.Fprintf(&b, "@x := '#'; FETCH %scur INTO @x; @r := @r || 'f' || IFNULL(@x, '~') || ';'; ", pos)
		case "range":
			b.WriteString("@r := @r || 'r' || STRING(CURSOR cur IS IN RANGE) || STRING(CURSOR cur IS NOT IN RANGE) || ';'; ")
		case "count":
			b.WriteString("@r := @r || 'c' || STRING(CURSOR cur COUNT) || ';'; ")
		case "open":
			b.WriteString("@r := @r || 'o' || STRING(CURSOR cur IS OPEN) || ';'; ")
		case "while":
			brk := "IF @n >= 5000 THEN BREAK; END IF;"
			if st.Break > 0 {
				brk = fmt.Sprintf("IF @n >= %d THEN BREAK; END IF;", st.Break)
			}
			fmt.Fprintf(&b, "@n := 0; WHILE @x IN cur DO @r := @r || 'w' || IFNULL(@x, '~') || ';'; @n := @n + 1; %s END WHILE; @r := @r || 'e' || STRING(CURSOR cur IS IN RANGE) || ';'; ", brk)
		case "tryopen":
			b.WriteString("OPEN cur; @r := @r || 'O;'; ")
		}
	}
	// the listing: from before the first value to the end
	b.WriteString("FETCH ABSOLUTE -1 cur INTO @x; @r := @r || '|'; WHILE @x IN cur DO @r := @r || IFNULL(@x, '~') || ','; END WHILE; RETURN @r;")
	return b.String()
}

// walkPseudo interprets the trace tokens next to the model over the listed values.
func walkPseudo(steps []pstep, trace string) (string, bool) {
	parts := strings.SplitN(trace, "|", 2)
	if len(parts) != 2 {
		return "no listing in the result", false
	}
	var list []string
	if parts[1] != "" {
		list = strings.Split(strings.TrimSuffix(parts[1], ","), ",")
	}
	toks := strings.Split(strings.TrimSuffix(parts[0], ";"), ";")
	if parts[0] == "" {
		toks = nil
	}
	ln := len(list)
	p, fetched := -1, false
	ti := 0
	next := func() (string, bool) {
		if ti >= len(toks) {
			return "", false
		}
		ti++
		return toks[ti-1], true
	}
	inR := func(q int) bool { return 0 <= q && q < ln }
	rng := func() string {
		switch {
		case !fetched:
			return "UNKNOWN"
		case inR(p):
			return "TRUE"
		}
		return "FALSE"
	}
	not := map[string]string{"TRUE": "FALSE", "FALSE": "TRUE", "UNKNOWN": "UNKNOWN"}
	for si, st := range steps {
		where := fmt.Sprintf("step %d (%s %s %d)", si, st.K, st.Pos, st.N)
		switch st.K {
		case "fetch":
			tk, ok := next()
			if !ok || !strings.HasPrefix(tk, "f") {
				return where + ": token " + tk, false
			}
			p = move(p, st.Pos, st.N, ln)
			fetched = true
			got := tk[1:]
			if inR(p) {
				if got != list[p] {
					return fmt.Sprintf("%s: fetched %q, position %d of the list holds %q", where, got, p, list[p]), false
				}
			} else if got != "#" && got != "~" {
				return fmt.Sprintf("%s: fetched %q at position %d outside the list of %d values", where, got, p, ln), false
			}
		case "range":
			tk, ok := next()
			if want := "r" + rng() + not[rng()]; !ok || tk != want {
				return fmt.Sprintf("%s: IS [NOT] IN RANGE token %q, expected %q (pointer %d of %d, fetched %v)", where, tk, want, p, ln, fetched), false
			}
		case "count":
			tk, ok := next()
			if want := "c" + strconv.Itoa(ln); !ok || tk != want {
				return fmt.Sprintf("%s: COUNT token %q, expected %q", where, tk, want), false
			}
		case "open":
			tk, ok := next()
			if !ok || tk != "oTRUE" {
				return fmt.Sprintf("%s: IS OPEN token %q", where, tk), false
			}
		case "while":
			iter, broke := 0, false
			for {
				q := move(p, "NEXT", 0, ln)
				if !inR(q) {
					break
				}
				tk, ok := next()
				if !ok || tk != "w"+list[q] {
					return fmt.Sprintf("%s: iteration %d saw %q, position %d of the list holds %q", where, iter+1, tk, q, list[q]), false
				}
				p, fetched = q, true
				iter++
				if st.Break > 0 && iter >= st.Break {
					broke = true
					break
				}
			}
			tk, ok := next()
			if !ok || !strings.HasPrefix(tk, "e") {
				return fmt.Sprintf("%s: after %d iterations token %q (a value beyond the end of the list, or a value visited twice)", where, iter, tk), false
			}
			switch {
			case broke:
				if tk != "eTRUE" {
					return fmt.Sprintf("%s: IS IN RANGE after BREAK in iteration %d is %q", where, iter, tk), false
				}
			case tk == "eFALSE":
				p, fetched = ln, true
			case tk == "eTRUE" && ln > 0:
				p, fetched = ln-1, true // the literal reading of control-flow.md: the pointer stays on the last value
			case tk == "eUNKNOWN" && !fetched && ln == 0:
			default:
				return fmt.Sprintf("%s: IS IN RANGE after the loop is %q (pointer was %d of %d)", where, tk, p, ln), false
			}
		case "tryopen":
			return where + ": OPEN of the pseudo cursor (which IS OPEN) did not fail", false
		}
	}
	if ti != len(toks) {
		return fmt.Sprintf("%d tokens left over: %v", len(toks)-ti, toks[ti:]), false
	}
	return "", true
}

func checkPseudo(c pseudoCase) (fw.Outcome, *fw.Violation) {
	if c.N < 0 || c.N > 2000 || c.NG < 1 {
		return fw.Outcome{Discard: true}, nil
	}
	o := fw.Outcome{Classes: []string{"mode:" + c.Mode, "cpu:" + strconv.Itoa(c.CPU), "rows:" + sizeClass(c.N)}}
	class := func(s string) { o.Classes = append(o.Classes, s) }
	dir := filepath.Join(fw.WorkDir(), fmt.Sprintf("c16p-%d", atomic.AddInt64(&caseSeq, 1)))
	if err := os.MkdirAll(dir, 0755); err != nil {
		panic(err)
	}
	defer os.RemoveAll(dir)
	var b strings.Builder
	b.WriteString("id,g,v\n")
	groups := map[string][]string{}
	for id := 1; id <= c.N; id++ {
		g, v := strconv.Itoa(id%c.NG), c.value(id)
		cell := v
		if v == "~" {
			cell = ""
		}
		fmt.Fprintf(&b, "%d,%s,%s\n", id, g, cell)
		key := g
		if c.Mode == "all" || c.Mode == "distinct" {
			key = ""
		}
		groups[key] = append(groups[key], v)
	}
	if c.N == 0 && (c.Mode == "all" || c.Mode == "distinct") {
		groups[""] = nil
	}
	if c.Mode == "distinct" {
		seen, out := map[string]bool{}, []string(nil)
		for _, v := range groups[""] {
			if !seen[v] {
				seen[v] = true
				out = append(out, v)
			}
		}
		groups[""] = out
	}
	if err := run.WriteFiles(dir, map[string]string{"t.csv": b.String()}); err != nil {
		panic(err)
	}
	s, err := run.NewSess(run.Opt{Dir: dir, CPU: c.CPU})
	if err != nil {
		panic(err)
	}
	defer s.Close()
	e := &env{s: s}
	decl := "DECLARE pw AGGREGATE (cur) AS BEGIN " + pseudoBody(c.Steps) + " END;"
	if r := e.exec(decl); r.Err != nil {
		return o, fw.Harness("%v%s", r.Err, e.tail())
	}
	var q string
	switch c.Mode {
	case "all":
		q = "SELECT '', pw(v) FROM t;"
	case "distinct":
		q = "SELECT '', pw(DISTINCT v) FROM t;"
	case "group":
		q = "SELECT g, pw(v) FROM t GROUP BY g;"
	default:
		q = "SELECT g, pw(v) OVER (PARTITION BY g) FROM t;"
	}
	r := e.exec(q)
	tryOpen := len(c.Steps) > 0 && c.Steps[len(c.Steps)-1].K == "tryopen"
	if tryOpen && c.N == 0 {
		class("open_of_pseudo_cursor:empty_table_not_asserted")
		return o, nil
	}
	if tryOpen {
		// the pseudo cursor IS OPEN: an OPEN of it is an error, the query cannot have a result
		if r.Err == nil {
			return o, fw.V("pseudo_cursor_open_no_error", "%s succeeded although the function body OPENs its pseudo cursor%s", q, e.tail())
		}
		class("open_of_pseudo_cursor:error")
		return o, nil
	}
	if r.Err != nil {
		return o, fw.V("pseudo_cursor_error", "%s failed: %s %v%s", q, run.ErrClass(r.Err), r.Err, e.tail())
	}
	if len(r.Views) != 1 {
		return o, fw.Harness("no result%s", e.tail())
	}
	perGroup := map[string]int{}
	for _, rw := range r.Views[0].Rows {
		g, trace := rw[0].S, rw[1].S
		want, ok := groups[g]
		if !ok {
			return o, fw.V("pseudo_cursor_group", "%s returned a row for group %q, which does not exist%s", q, g, e.tail())
		}
		perGroup[g]++
		// the listing holds exactly the values of the group
		parts := strings.SplitN(trace, "|", 2)
		var list []string
		if len(parts) == 2 && parts[1] != "" {
			list = strings.Split(strings.TrimSuffix(parts[1], ","), ",")
		}
		// (whether NULLs belong to the grouped values is not this property's business: at most as many as the group has)
		a, na := withoutNulls(want)
		bb, nb := withoutNulls(list)
		sort.Strings(a)
		sort.Strings(bb)
		if len(parts) != 2 || strings.Join(a, ",") != strings.Join(bb, ",") || nb > na {
			return o, fw.V("pseudo_cursor_listing", "group %q: WHILE IN from before the first value listed %d values %v; the group has %d: %v (trace %q)%s", g, len(list), clipList(list), len(want), clipList(want), clipText(trace), e.tail())
		}
		if msg, ok := walkPseudo(c.Steps, trace); !ok {
			return o, fw.V("pseudo_cursor_walk", "group %q with %d values: %s; trace %q; function body: %s%s", g, len(list), msg, clipText(trace), pseudoBody(c.Steps), e.tail())
		}
	}
	for g, vs := range groups {
		wantRows := 1
		if c.Mode == "analytic" {
			wantRows = len(vs)
		}
		if perGroup[g] != wantRows {
			return o, fw.V("pseudo_cursor_group", "%s returned %d rows for group %q, expected %d%s", q, perGroup[g], g, wantRows, e.tail())
		}
		class("values_per_invocation:" + sizeClass(len(vs)))
	}
	for _, st := range c.Steps {
		class("step:" + st.K)
		if st.K == "fetch" {
			class("fetch:" + posName(st.Pos))
		}
	}
	var fp []string
	for _, st := range c.Steps {
		fp = append(fp, st.K[:1]+st.Pos+strconv.Itoa(st.N)+"b"+strconv.Itoa(st.Break))
	}
	// non-trivial: the walk leaves the list at either end and comes back, or mixes loops and positioned fetches
	if len(c.Steps) >= 2 && c.N > 0 {
		o.Fingerprint = fmt.Sprintf("%s|%d|%d|%d|%s", c.Mode, c.N, c.NG, c.NullEvery, strings.Join(fp, ","))
	}
	return o, nil
}

func withoutNulls(l []string) (out []string, nulls int) {
	for _, v := range l {
		if v == "~" {
			nulls++
		} else {
			out = append(out, v)
		}
	}
	return out, nulls
}

func clipList(l []string) []string {
	if len(l) > 12 {
		return append(append([]string(nil), l[:12]...), "...")
	}
	return l
}

func TestC16PseudoCursor(t *testing.T) {
	fw.Run(t, fw.Spec[pseudoCase]{
		ID: "C16", Name: "pseudo_cursor", Quick: 2600, Thorough: 40000,
		Gen: genPseudo, Check: checkPseudo,
		Rule: "a user-defined aggregate function whose body is a generated walk of 1-9 steps over its pseudo cursor (FETCH in all six positions with offsets -4..6 and around +-2^31/2^62/2^63, IS [NOT] IN RANGE, COUNT, IS OPEN, WHILE IN with and without BREAK followed by IS IN RANGE) and which returns the trace of what every step saw plus a final listing (FETCH ABSOLUTE -1, WHILE IN to the end); called as aggregate over the whole table, per GROUP BY group, over DISTINCT values and as analytic function per partition (8%: 160-360 rows at CPU 2/4, partitions evaluated concurrently), groups of 0..360 values with NULLs. Oracle: the listing is the multiset of the group's values; the trace is what a cursor just opened over that listing delivers (pointer before the first value, UNKNOWN until the first fetch, clamping at both ends, every loop iteration the next value exactly once); 6%: the body ends with OPEN cur, which must make the query fail. Non-trivial = at least two steps over a non-empty table; distinct by mode, sizes and step sequence",
		Assumptions: []string{
			"the order of the values inside a group is taken from the function's own final listing (only its multiset is compared with the table), so no assumption about the order of grouped values is made",
			"the variable after an out-of-range fetch holds its old value or NULL",
			"after a WHILE IN that ran to the end IS IN RANGE FALSE (past the end) and TRUE (on the last value, literal reading of control-flow.md) are both admitted and decide the model's pointer",
			"CLOSE and DISPOSE of a pseudo cursor are not generated (not covered by the property statement); OPEN of it must fail because the cursor is open",
			"with OPEN cur as last step and an empty table without GROUP BY the function may or may not be invoked: only non-empty group sets are asserted",
		},
	})
}
