package c20

import (
	"fmt"
	"os"
	"path/filepath"
	"strconv"
	"strings"
	"sync/atomic"
	"testing"

	"pgregory.net/rapid"

	"verif/internal/fw"
	"verif/internal/run"
)

// ---------------------------------------------------------------------
// created_tables: the remaining data-changing statements of the manual's list ("INSERT, UPDATE, DELETE, CREATE and
// ALTER TABLE queries use exclusive locks"; "created files and updated files are locked"): CREATE TABLE [.. AS SELECT]
// and ALTER TABLE .. SET <attribute>. A table created by transaction A exists for A at once (its records are the
// transaction's own changes), is locked for every other process until A ends, comes into being at COMMIT and vanishes
// at ROLLBACK; CREATE TABLE .. AS SELECT reads its source the way every read of the transaction does (from A's cached
// copy, not from the file another process has committed to meanwhile); ALTER TABLE .. SET is an update access (reload
// of a copy loaded by a plain SELECT, exclusive lock until the end of the transaction) that leaves the records alone.

type ddlStep struct {
	K    string `json:"k"`              // create | sel | sfu | ins | upd | attr | commit | rollback | b
	T    int    `json:"t,omitempty"`    // 0: t1 (exists from the start), 1: t3 (to be created)
	As   bool   `json:"as,omitempty"`   // create: AS SELECT id, v FROM t1
	BK   string `json:"bk,omitempty"`   // b: upd | ins | create
	ID   int    `json:"id,omitempty"`   // ins: new id; upd: addressed id
	Attr int    `json:"attr,omitempty"` // attr: 0 ENCLOSE_ALL TO TRUE, 1 LINE_BREAK TO CRLF, 2 ENCLOSE_ALL TO FALSE, 3 LINE_BREAK TO LF
	Form int    `json:"form,omitempty"` // 0 `file name`, 1 bare name (not for CREATE), 2 absolute path
}

type ddlCase struct {
	Rows  int       `json:"rows"` // 1-3 records of t1
	Steps []ddlStep `json:"steps"`
}

var ddlNames = []string{"t1", "t3"}

func ddlRef(dir string, t, form int) string {
	switch form {
	case 1:
		return ddlNames[t]
	case 2:
		return "`" + filepath.Join(dir, ddlNames[t]+".csv") + "`"
	}
	return "`" + ddlNames[t] + ".csv`"
}

var ddlAttrs = []string{"ENCLOSE_ALL TO TRUE", "LINE_BREAK TO CRLF", "ENCLOSE_ALL TO FALSE", "LINE_BREAK TO LF"}

type ddlModel struct {
	m       *model
	exists  [2]bool // the file exists for other processes (committed)
	created [2]bool // created by A in its current transaction (not yet committed)
}

func newDDLModel(c ddlCase) *ddlModel {
	var rows []rowT
	for k := 1; k <= c.Rows; k++ {
		rows = append(rows, rowT{ID: k, V: fmt.Sprintf("i%d", k)})
	}
	d := &ddlModel{m: newModel([][]rowT{rows, nil})}
	d.exists[0] = true
	return d
}

// present: the table exists as far as transaction A can tell
func (d *ddlModel) present(t int) bool { return d.exists[t] || d.created[t] }

func (d *ddlModel) end(commit bool) (wrote bool) {
	for t := 0; t < 2; t++ {
		if d.created[t] {
			if commit {
				d.exists[t] = true
				d.m.C[t].dirty = true
			} else {
				d.m.C[t] = nil
			}
			d.created[t] = false
		}
	}
	if commit {
		return d.m.commit()
	}
	return d.m.rollback()
}

func genDDL(t *rapid.T) ddlCase {
	c := ddlCase{Rows: fw.Range(t, "rows", 1, 3)}
	d := newDDLModel(c)
	nextID := 100
	n := fw.Range(t, "nsteps", 4, 14)
	follow := false // B has just committed to t1, which A has cached
	for i := 0; i < n; i++ {
		var s ddlStep
		kind := ""
		switch {
		case follow && !d.present(1) && fw.Pct(t, "follow_create", 75):
			kind = "create"
		case follow && fw.Pct(t, "follow_read", 50):
			kind = []string{"sel", "attr", "sel"}[fw.Uniform(t, "follow_kind", 3)]
		default:
			kind = []string{"create", "sel", "sfu", "ins", "upd", "attr", "commit", "rollback", "b"}[fw.Weighted(t, "kind", []int{14, 26, 4, 8, 6, 10, 6, 7, 19})]
		}
		wasFollow := follow
		follow = false
		s.K = kind
		s.T = fw.Uniform(t, "table", 2)
		if wasFollow && (kind == "sel" || kind == "attr") {
			s.T = 0
		}
		s.Form = fw.Uniform(t, "form", 3)
		switch kind {
		case "create":
			s.T = 1
			s.As = fw.Pct(t, "as_select", 65)
			if s.Form == 1 {
				s.Form = 0
			}
			if d.present(1) {
				break // must fail: the table exists
			}
			var rows []mrow
			if s.As {
				src, _ := d.m.plainRead(0)
				rows = clone(src)
			}
			d.m.C[1] = &cacheT{rows: rows, fu: true, dirty: true}
			d.created[1] = true
		case "sel":
			if d.present(s.T) {
				d.m.plainRead(s.T)
			}
		case "sfu", "attr":
			s.Attr = fw.Uniform(t, "attr", len(ddlAttrs))
			if d.present(s.T) {
				d.m.updAccess(s.T)
			}
		case "ins", "upd":
			if !d.present(s.T) {
				s.ID = 1
				break
			}
			d.m.updAccess(s.T)
			cch := d.m.C[s.T]
			if kind == "upd" && len(cch.rows) == 0 {
				s.K, kind = "ins", "ins"
			}
			if kind == "ins" {
				s.ID = nextID
				nextID++
			} else {
				s.ID = idOf(cch.rows[fw.Uniform(t, "a_id", len(cch.rows))])
			}
			cch.rows, cch.dirty = edit(cch.rows, kind, s.ID, "x", false), true
		case "commit", "rollback":
			d.end(kind == "commit")
		case "b":
			s.BK = []string{"upd", "ins", "create"}[fw.Weighted(t, "bk", []int{45, 35, 20})]
			if s.BK == "create" {
				s.T = 1
			} else if fw.Pct(t, "b_on_t1", 60) {
				s.T = 0
			}
			if s.Form == 1 && s.BK == "create" {
				s.Form = 0
			}
			switch {
			case s.BK == "create":
				if !d.present(1) {
					d.exists[1] = true
					d.m.F[1] = nil
				}
			case !d.present(s.T) || d.created[s.T] || d.m.held(s.T):
				s.ID = 1
			default:
				if s.BK == "upd" && len(d.m.F[s.T]) == 0 {
					s.BK = "ins"
				}
				if s.BK == "ins" {
					s.ID = nextID
					nextID++
				} else {
					s.ID = idOf(d.m.F[s.T][fw.Uniform(t, "b_id", len(d.m.F[s.T]))])
				}
				d.m.F[s.T] = edit(d.m.F[s.T], s.BK, s.ID, "y", false)
				follow = s.T == 0 && d.m.C[0] != nil
			}
		}
		c.Steps = append(c.Steps, s)
	}
	return c
}

func checkDDL(c ddlCase) (fw.Outcome, *fw.Violation) {
	o := fw.Outcome{}
	if c.Rows < 1 || c.Rows > 50 {
		o.Discard = true
		return o, nil
	}
	class := func(s string) { o.Classes = append(o.Classes, s) }
	dir := filepath.Join(fw.WorkDir(), fmt.Sprintf("c20d-%d", atomic.AddInt64(&caseSeq, 1)))
	_ = os.RemoveAll(dir)
	defer os.RemoveAll(dir)
	d := newDDLModel(c)
	var init []rowT
	for k := 1; k <= c.Rows; k++ {
		init = append(init, rowT{ID: k, V: fmt.Sprintf("i%d", k)})
	}
	if err := run.WriteFiles(dir, map[string]string{"t1.csv": fileText("", init)}); err != nil {
		return o, fw.Harness("write table: %v", err)
	}
	a, err := run.NewSess(run.Opt{Dir: dir})
	if err != nil {
		return o, fw.Harness("session: %v", err)
	}
	defer a.Close()
	var trace []string
	tail := func() string { return "\n    " + strings.Join(trace, "\n    ") }
	execA := func(sql string) run.Res {
		r := a.Exec(sql)
		line := "A: " + sql
		if r.Err != nil {
			line += "   -> " + run.ErrClass(r.Err) + " " + r.Err.Error()
		} else if len(r.Views) == 1 {
			if rows, ok := observed(r.Views[0]); ok {
				line += "   -> " + render(rows)
			}
		}
		trace = append(trace, line)
		return r
	}
	onDisk := func(t int) bool {
		_, err := os.Stat(filepath.Join(dir, ddlNames[t]+".csv"))
		return err == nil
	}
	notExist := func(err error) bool { return err != nil && strings.Contains(err.Error(), "does not exist") }
	var toks []string
	tok := func(s string) {
		if len(toks) == 0 || toks[len(toks)-1] != s {
			toks = append(toks, s)
		}
	}
	nontrivial := false
	readInTxn, bSinceRead := [2]bool{}, [2]bool{}
	compare := func(t int, r run.Res, want []mrow, rule, stmt string) *fw.Violation {
		if r.Err != nil {
			return fw.V("a_read_error", "%s failed in transaction A: %s %v%s", stmt, run.ErrClass(r.Err), r.Err, tail())
		}
		if len(r.Views) != 1 {
			return fw.V("a_read_shape", "%s returned %d results%s", stmt, len(r.Views), tail())
		}
		rows, ok := observed(r.Views[0])
		if !ok || !sameRows(rows, want) {
			what := "ddl_read:" + rule
			if d.created[t] {
				what = "created_table_read"
			}
			return fw.V(what, "%s in transaction A returned %s; expected %s (model rule %s; created in this transaction: %v; file now %s)%s", stmt, render(rows), render(want), rule, d.created[t], render(d.m.F[t]), tail())
		}
		return nil
	}
	for i, s := range c.Steps {
		if s.T < 0 || s.T > 1 || s.Form < 0 || s.Form > 2 || s.Attr < 0 || s.Attr >= len(ddlAttrs) {
			o.Discard = true
			return o, nil
		}
		atag, btag := fmt.Sprintf("a%d", i), fmt.Sprintf("b%d", i)
		tn := strconv.Itoa(s.T)
		switch s.K {
		case "create":
			if s.T != 1 || s.Form == 1 {
				o.Discard = true
				return o, nil
			}
			stmt := "CREATE TABLE " + ddlRef(dir, 1, s.Form) + " (id, v)"
			if s.As {
				stmt += " AS SELECT id, v FROM t1"
			}
			stmt += ";"
			if d.present(1) {
				r := execA(stmt)
				if r.Err == nil || !strings.Contains(r.Err.Error(), "already exists") {
					return o, fw.V("create_of_existing_table", "%s in transaction A: %v; the table exists (committed: %v, created in this transaction: %v), the statement must fail with 'already exists'%s", stmt, r.Err, d.exists[1], d.created[1], tail())
				}
				class("A.create:refused_table_exists")
				tok("cX")
				break
			}
			var rows []mrow
			srule := "-"
			if s.As {
				var src []mrow
				src, srule = d.m.plainRead(0)
				rows = clone(src)
			}
			if r := execA(stmt); r.Err != nil {
				return o, fw.V("a_create_error", "%s failed in transaction A (the table does not exist, nobody holds anything): %s %v%s", stmt, run.ErrClass(r.Err), r.Err, tail())
			}
			d.m.C[1] = &cacheT{rows: rows, fu: true, dirty: true}
			d.created[1] = true
			class("A.create:source_rule:" + srule)
			if s.As {
				if readInTxn[0] && bSinceRead[0] {
					nontrivial = true
					class("nontrivial:B_commit_between_two_A_reads")
					class("create_as_select_from_cached_table_after_foreign_commit:" + srule)
				}
				readInTxn[0], bSinceRead[0] = true, false
			}
			// the new table is read back at once: its records are the transaction's own change
			back := "SELECT * FROM " + ddlRef(dir, 1, 0) + ";"
			if v := compare(1, execA(back), rows, "Hd", back); v != nil {
				return o, v
			}
			tok("c" + srule)
		case "sel", "sfu":
			stmt := "SELECT * FROM " + ddlRef(dir, s.T, s.Form)
			if s.K == "sfu" {
				stmt += " FOR UPDATE"
			}
			stmt += ";"
			if !d.present(s.T) {
				if r := execA(stmt); !notExist(r.Err) {
					return o, fw.V("read_of_missing_table", "%s in transaction A: %v; the table does not exist (never created, or its creation was rolled back): 'does not exist' is expected%s", stmt, r.Err, tail())
				}
				class("A." + s.K + ":table_missing")
				tok("sX" + tn)
				break
			}
			var want []mrow
			var rule string
			if s.K == "sfu" {
				rule = d.m.updAccess(s.T)
				want = d.m.C[s.T].rows
			} else {
				want, rule = d.m.plainRead(s.T)
			}
			if v := compare(s.T, execA(stmt), want, rule, stmt); v != nil {
				return o, v
			}
			class("A." + s.K + ":" + rule)
			if d.created[s.T] {
				class("A." + s.K + ":table_created_in_this_transaction")
			}
			if readInTxn[s.T] && bSinceRead[s.T] {
				nontrivial = true
				class("nontrivial:B_commit_between_two_A_reads")
			}
			readInTxn[s.T], bSinceRead[s.T] = true, false
			tok(s.K[:2] + rule + tn)
		case "ins", "upd", "attr":
			var stmt string
			if s.K == "attr" {
				stmt = "ALTER TABLE " + ddlRef(dir, s.T, s.Form) + " SET " + ddlAttrs[s.Attr] + ";"
			} else {
				stmt = changeSQL(ddlRef(dir, s.T, s.Form), s.K, s.ID, atag, false)
			}
			if !d.present(s.T) {
				if r := execA(stmt); !notExist(r.Err) {
					return o, fw.V("change_of_missing_table", "%s in transaction A: %v; the table does not exist: 'does not exist' is expected%s", stmt, r.Err, tail())
				}
				class("A." + s.K + ":table_missing")
				tok("dX" + tn)
				break
			}
			rule := d.m.updAccess(s.T)
			cch := d.m.C[s.T]
			if s.K == "upd" && countID(cch.rows, s.ID) == 0 {
				o.Discard = true
				return o, nil
			}
			if r := execA(stmt); r.Err != nil {
				return o, fw.V("a_change_error:"+s.K, "%s failed in transaction A (nobody else holds anything): %s %v%s", stmt, run.ErrClass(r.Err), r.Err, tail())
			}
			if s.K != "attr" {
				cch.rows = edit(cch.rows, s.K, s.ID, atag, false)
			}
			cch.dirty = true
			class("A." + s.K + ":" + rule)
			// read back: the records after ALTER TABLE .. SET are the ones before
			back := "SELECT * FROM " + ddlRef(dir, s.T, 0) + ";"
			brule := "Hd"
			if s.K == "attr" {
				brule = "after_set_attribute:" + rule
			}
			if v := compare(s.T, execA(back), cch.rows, brule, back); v != nil {
				return o, v
			}
			if s.K == "attr" && readInTxn[s.T] && bSinceRead[s.T] {
				nontrivial = true
				class("nontrivial:B_commit_between_two_A_reads")
			}
			readInTxn[s.T], bSinceRead[s.T] = true, false
			tok(s.K[:1] + rule + tn)
		case "commit", "rollback":
			hadCreated := d.created[1]
			d.end(s.K == "commit")
			if r := execA(strings.ToUpper(s.K) + ";"); r.Err != nil {
				return o, fw.V("a_"+s.K+"_error", "%s failed in transaction A: %v%s", strings.ToUpper(s.K), r.Err, tail())
			}
			if onDisk(1) != d.exists[1] {
				return o, fw.V("created_file_after_"+s.K, "after %s of transaction A (which had created t3.csv: %v) the file t3.csv exists: %v, expected %v%s", strings.ToUpper(s.K), hadCreated, onDisk(1), d.exists[1], tail())
			}
			readInTxn, bSinceRead = [2]bool{}, [2]bool{}
			class(fmt.Sprintf("A.%s:had_created_table=%v", s.K, hadCreated))
			tok(strings.ToUpper(s.K[:1]))
		case "b":
			var sql string
			switch s.BK {
			case "create":
				if s.T != 1 || s.Form == 1 {
					o.Discard = true
					return o, nil
				}
				sql = "CREATE TABLE " + ddlRef(dir, 1, s.Form) + " (id, v); COMMIT;"
			case "upd", "ins":
				sql = changeSQL(ddlRef(dir, s.T, s.Form), s.BK, s.ID, btag, false) + " COMMIT;"
			default:
				o.Discard = true
				return o, nil
			}
			expect := "ok"
			switch {
			case s.BK == "create" && d.present(1):
				expect = "exists"
			case s.BK == "create":
			case !d.present(s.T):
				expect = "missing"
			case d.created[s.T] || d.m.held(s.T):
				expect = "locked"
			case s.BK == "upd" && countID(d.m.F[s.T], s.ID) == 0:
				o.Discard = true
				return o, nil
			}
			out := runB(histCase{}, dir, sql, bWait, 0)
			if out.class == "harness" {
				return o, fw.Harness("B: %s", out.msg)
			}
			if expect == "ok" && strings.HasPrefix(out.class, "E8/") {
				fw.AddExtra("b_success_retries", 1)
				out = runB(histCase{}, dir, sql, bWaitRetry, 0)
			}
			if expect == "locked" && out.class != lockTO && strings.HasPrefix(out.class, "E8/") {
				fw.AddExtra("b_timeout_retries", 1)
				out = runB(histCase{}, dir, sql, 2e9, 0)
			}
			line := "B: " + sql
			if out.class != "" {
				line += "   -> " + out.class + " " + out.msg
			} else {
				line += "   -> committed"
			}
			trace = append(trace, line)
			got := "other:" + out.class
			switch {
			case out.class == "":
				got = "ok"
			case out.class == lockTO:
				got = "locked"
			case strings.Contains(out.msg, "does not exist"):
				got = "missing"
			case strings.Contains(out.msg, "already exists"):
				got = "exists"
			}
			if got != expect {
				sig := "b_outcome:" + s.BK + ":expected_" + expect + ":got_" + strings.SplitN(got, ":", 2)[0]
				if expect == "locked" && got == "ok" {
					sig = "b_committed_while_held_for_update"
				}
				return o, fw.V(sig, "process B (%s) ended with %q %s; expected %q: %s exists for other processes: %v, created by A and not yet committed: %v, held by A for update: %v%s", sql, got, out.msg, expect, ddlNames[s.T]+".csv", d.exists[s.T], d.created[s.T], d.m.held(s.T), tail())
			}
			class("B." + s.BK + ":" + expect)
			if expect == "locked" && d.created[s.T] {
				class("B.blocked_on_table_created_by_A")
				fw.AddExtra("b_lock_timeouts", 1)
			}
			if expect == "ok" {
				if s.BK == "create" {
					d.exists[1], d.m.F[1] = true, nil
				} else {
					d.m.F[s.T] = edit(d.m.F[s.T], s.BK, s.ID, btag, false)
				}
				if readInTxn[s.T] {
					bSinceRead[s.T] = true
				}
			}
			tok("b" + s.BK[:1] + expect[:1] + tn)
		default:
			o.Discard = true
			return o, nil
		}
	}
	a.Close()
	d.end(false)
	if onDisk(1) != d.exists[1] {
		return o, fw.V("created_file_after_end", "after transaction A ended without COMMIT the file t3.csv exists: %v, expected %v%s", onDisk(1), d.exists[1], tail())
	}
	for t := 0; t < 2; t++ {
		if !d.exists[t] {
			continue
		}
		fin, err := run.NewSess(run.Opt{Dir: dir})
		if err != nil {
			return o, fw.Harness("session: %v", err)
		}
		tb, err := fin.Query("SELECT id, v FROM " + ddlNames[t] + ";")
		fin.Close()
		if err != nil {
			return o, fw.V("final_read_error", "after the history %s.csv cannot be read: %v%s", ddlNames[t], err, tail())
		}
		if rows, ok := observed(tb); !ok || !sameRows(rows, d.m.F[t]) {
			return o, fw.V("final_file_differs", "after the history %s.csv holds %s, expected %s%s", ddlNames[t], render(rows), render(d.m.F[t]), tail())
		}
	}
	if left := run.ControlFiles(dir); len(left) > 0 {
		return o, fw.V("control_files_left", "after the history the directory still holds %v%s", left, tail())
	}
	if nontrivial {
		o.Fingerprint = strings.Join(toks, "")
	}
	return o, nil
}

func TestC20CreatedTables(t *testing.T) {
	fw.Run(t, fw.Spec[ddlCase]{
		ID: "C20", Name: "created_tables", Quick: 600, Thorough: 10000,
		Gen: genDDL, Check: checkDDL,
		Rule: "one CSV table t1 (id, v; 1-3 records) and a table t3.csv that does not exist at the start; a history of 4-14 steps: transaction A (one in-process session) does CREATE TABLE `t3.csv` (id, v) [AS SELECT id, v FROM t1] (read back at once), SELECT *, SELECT * FOR UPDATE, INSERT, UPDATE, ALTER TABLE .. SET ENCLOSE_ALL / LINE_BREAK (each change read back at once), COMMIT, ROLLBACK on either table (spelled as file name / bare name / absolute path); between A's statements other processes B (fresh sessions, 50 ms lock wait) UPDATE / INSERT one record of either table or CREATE TABLE t3.csv, COMMIT and end. Model: the cache rules of check history per table plus existence: a table A has created exists for A at once with the records of the creating query as the transaction's own change (the source t1 is read by the rules of a plain SELECT: from A's cached copy when there is one, whatever another process has committed to t1 meanwhile), it is locked for every other process until A ends (B: lock wait timeout), exists for the others after COMMIT and is gone after ROLLBACK (file checked on disk); CREATE of an existing table fails with 'already exists' and changes nothing; statements on the missing table fail with 'does not exist' (for A and for B) and leave no trace; ALTER TABLE .. SET is an update access (reloads a copy loaded by a plain SELECT, holds the table) after which the records are the ones before. Every read is compared with the model as a sequence of rows; every B outcome (committed / lock wait timeout / does not exist / already exists) is predicted; at the end the files read by a new session equal the model and no lock or temporary file is left. Non-trivial = a successful B commit between two A reads of the same table inside one A transaction (CREATE .. AS SELECT and the read-back after ALTER TABLE .. SET count as reads); distinct by the compressed sequence of (step kind, rule, table)",
		Assumptions: []string{
			"other processes act between A's statements (statement-level interleaving)",
			"cells are plain text (no NULL cells: how ENCLOSE_ALL writes NULL belongs to C02)",
			"B's lock wait (50 ms) is semantic: A holds its locks for as long as B waits; a B that times out where the model says it must commit is retried once with 30 s",
			"CREATE TABLE names the file with its extension (a bare name creates a file without extension)",
		},
	})
}
