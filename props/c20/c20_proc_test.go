package c20

import (
	"bytes"
	"encoding/json"
	"fmt"
	"os"
	"path/filepath"
	"sort"
	"strconv"
	"strings"
	"sync/atomic"
	"testing"
	"time"

	"pgregory.net/rapid"

	"verif/internal/fw"
	"verif/internal/run"
)

// ---------------------------------------------------------------------
// procedure_process: transaction A is ONE real csvq process that executes a procedure (csvq -s a.sql); the other
// processes B are started by A itself between its statements as external commands ($ sh b<i>.sh;), each of them a
// csvq process that changes one table, COMMITs and ends. What is observed is what the property names: the outputs
// of the successive SELECTs of one procedural transaction while other processes commit, and at the end the files
// after the automatic commit of the normally ended procedure.

func genCaseAProc(t *rapid.T) histCase { return genHist(t, genOpt{aproc: true}) }

type procExpect struct {
	step    int
	stmt    string
	cols    []string
	want    []string
	ordered bool
	rule    string
}

type procB struct {
	step     int
	t        int
	sql      string
	mustFail bool
}

func jsonCell(v interface{}) string {
	switch x := v.(type) {
	case nil:
		return nullKey
	case string:
		return x
	case json.Number:
		return x.String()
	case bool:
		return strconv.FormatBool(x)
	}
	return fmt.Sprintf("%v", v)
}

func checkProc(c histCase) (fw.Outcome, *fw.Violation) {
	nt := len(c.Tables)
	o := fw.Outcome{Classes: []string{fmt.Sprintf("tables=%d", nt)}}
	if nt < 1 || nt > 2 || c.Fmt != "" || c.Pad != 0 {
		o.Discard = true
		return o, nil
	}
	class := func(s string) { o.Classes = append(o.Classes, s) }
	bin, err := csvqBinary()
	if err != nil {
		return o, fw.Harness("%v", err)
	}
	dir := filepath.Join(fw.WorkDir(), fmt.Sprintf("c20p-%d", atomic.AddInt64(&caseSeq, 1)))
	_ = os.RemoveAll(dir)
	if err := os.MkdirAll(filepath.Join(dir, "sub"), 0755); err != nil {
		return o, fw.Harness("mkdir: %v", err)
	}
	defer os.RemoveAll(dir)
	files := map[string]string{}
	for t, rows := range c.Tables {
		files[tableName(t)+".csv"] = fileText("", rows)
	}

	// --- the model walks the history first: it does not depend on what csvq does
	m := newModelCase(c)
	var script strings.Builder
	var expects []procExpect
	var bs []procB
	var toks []string
	tok := func(s string) {
		if len(toks) == 0 || toks[len(toks)-1] != s {
			toks = append(toks, s)
		}
	}
	nontrivial := false
	readInTxn := make([]bool, nt)
	bSinceRead := make([]bool, nt)
	noteRead := func(t int) {
		if readInTxn[t] && bSinceRead[t] {
			nontrivial = true
			class("nontrivial:B_commit_between_two_A_reads")
		}
		readInTxn[t], bSinceRead[t] = true, false
	}
	seqRows := func(rows []mrow) []string {
		var out []string
		for _, x := range rows {
			out = append(out, key(x.id, cellKey(x)))
		}
		return out
	}
	for i, s := range c.Steps {
		if s.T < 0 || s.T >= nt || (s.K == "insfrom" && (s.Src < 0 || s.Src >= nt || s.Src == s.T)) {
			o.Discard = true
			return o, nil
		}
		tn := strconv.Itoa(s.T + 1)
		atag, btag := fmt.Sprintf("a%d", i), fmt.Sprintf("b%d", i)
		var stmt string
		switch s.K {
		case "sel":
			if s.Form%10 >= 5 {
				o.Discard = true
				return o, nil
			}
			stmt = readSQL("", dir, s.T, s.Form, false)
			want, rule := m.plainRead(s.T)
			expects = append(expects, procExpect{i, stmt, []string{"id", "v"}, seqRows(want), true, rule})
			class("A.select:" + rule)
			noteRead(s.T)
			tok("s" + rule + tn)
		case "sfu":
			if s.Form%10 >= 5 {
				o.Discard = true
				return o, nil
			}
			stmt = readSQL("", dir, s.T, dmlForm(s.Form, 0), true)
			rule := m.updAccess(s.T)
			if rule == "H" && m.C[s.T].dirty {
				rule = "Hd"
			}
			expects = append(expects, procExpect{i, stmt, []string{"id", "v"}, seqRows(m.C[s.T].rows), true, rule})
			class("A.select_for_update:" + rule)
			noteRead(s.T)
			tok("f" + rule + tn)
		case "msel":
			if nt != 2 || (s.J == "notin" && s.FU) {
				o.Discard = true
				return o, nil
			}
			l, r := s.T, 1-s.T
			stmt = mselSQL(s.J, tableRef("", dir, l, dmlForm(s.Form, 0)), tableRef("", dir, r, dmlForm(s.Form, 1)))
			if stmt == "" || !needsBoth(s.J, m.rowsAfter(l, s.FU), m.rowsAfter(r, s.FU)) {
				o.Discard = true
				return o, nil
			}
			rules := make([]string, 2)
			for k, tb := range []int{l, r} {
				if s.FU {
					rules[k] = m.updAccess(tb)
					if rules[k] == "H" && m.C[tb].dirty {
						rules[k] = "Hd"
					}
				} else {
					_, rules[k] = m.plainRead(tb)
				}
			}
			mode := "plain"
			if s.FU {
				stmt += " FOR UPDATE"
				mode = "for_update"
			}
			stmt += ";"
			want, ordered := multiExpected(s.J, m.C[l].rows, m.C[r].rows)
			cols := []string{"aid", "av", "bid", "bv"}
			if s.J == "union" || s.J == "notin" {
				cols = []string{"id", "v"}
			}
			expects = append(expects, procExpect{i, stmt, cols, want, ordered, rules[0] + "/" + rules[1]})
			class("A.multi_select:" + s.J + ":" + mode)
			noteRead(l)
			noteRead(r)
			tok("m" + s.J[:2] + rules[0] + rules[1] + tn)
		case "ins", "upd", "del":
			rule := m.updAccess(s.T)
			stmt = changeSQL(tableRef("", dir, s.T, dmlForm(s.Form, 0)), s.K, s.ID, atag, s.Null)
			m.C[s.T].rows = edit(m.C[s.T].rows, s.K, s.ID, atag, s.Null)
			m.C[s.T].dirty = true
			class("A." + s.K + ":" + rule)
			tok("d" + rule + tn)
		case "insfrom":
			stmt = fmt.Sprintf("INSERT INTO %s (id, v) SELECT id, v FROM %s;", tableRef("", dir, s.T, dmlForm(s.Form, 0)), tableName(s.Src))
			rule := m.updAccess(s.T)
			src, srule := m.plainRead(s.Src)
			m.C[s.T].rows = append(m.C[s.T].rows, src...)
			m.C[s.T].dirty = true
			class("A.insert_select:" + rule)
			tok("i" + rule + srule + tn)
		case "upd2":
			if nt != 2 {
				o.Discard = true
				return o, nil
			}
			l, r := s.T, 1-s.T
			rl, rr := m.updAccess(l), m.updAccess(r)
			n1, n2 := countID(m.C[l].rows, s.ID), countID(m.C[r].rows, s.ID2)
			if n1 > 1 || n2 > 1 || len(m.C[l].rows) == 0 || len(m.C[r].rows) == 0 {
				o.Discard = true
				return o, nil
			}
			stmt = fmt.Sprintf("UPDATE a, b SET a.v = '%s', b.v = '%s' FROM %s a, %s b WHERE a.id = %d AND b.id = %d;", atag, atag, tableRef("", dir, l, dmlForm(s.Form, 0)), tableRef("", dir, r, dmlForm(s.Form, 1)), s.ID, s.ID2)
			if n1 == 1 && n2 == 1 {
				m.C[l].rows = edit(m.C[l].rows, "upd", s.ID, atag, false)
				m.C[r].rows = edit(m.C[r].rows, "upd", s.ID2, atag, false)
				m.C[l].dirty, m.C[r].dirty = true, true
			}
			class("A.update_two_tables:" + rl + "/" + rr)
			tok("u" + rl + rr + tn)
		case "commit", "rollback":
			stmt = strings.ToUpper(s.K) + ";"
			var flag bool
			if s.K == "commit" {
				flag = m.commit()
			} else {
				flag = m.rollback()
			}
			for t := 0; t < nt; t++ {
				readInTxn[t], bSinceRead[t] = false, false
			}
			class(fmt.Sprintf("A.%s:changes=%v", s.K, flag))
			tok(strings.ToUpper(s.K[:1]))
		case "b":
			mustFail := m.held(s.T)
			bs = append(bs, procB{i, s.T, changeSQL(tableRef("", dir, s.T, dmlForm(s.Form, 0)), s.BK, s.ID, btag, s.Null) + " COMMIT;", mustFail})
			if mustFail {
				class("B.blocked:" + s.BK)
				tok("bX" + tn)
			} else {
				if m.C[s.T] != nil {
					class("B.commit:table_cached_read_only_by_A")
				} else {
					class("B.commit:table_not_loaded_by_A")
				}
				m.F[s.T] = edit(m.F[s.T], s.BK, s.ID, btag, s.Null)
				if readInTxn[s.T] {
					bSinceRead[s.T] = true
				}
				tok("b" + tn)
			}
			fmt.Fprintf(&script, "$ sh b%d.sh;\n", i)
			continue
		default:
			// a long-lived second transaction and the further forms are not part of this check
			o.Discard = true
			return o, nil
		}
		isRead := s.K == "sel" || s.K == "sfu" || s.K == "msel"
		if isRead {
			fmt.Fprintf(&script, "PRINT '@@%d';\n", i)
		}
		switch s.Wrap {
		case "if":
			fmt.Fprintf(&script, "IF TRUE THEN\n  %s\nEND IF;\n", stmt)
			class("A.wrapped_in:if")
		case "while":
			fmt.Fprintf(&script, "VAR @w%d := 0;\nWHILE @w%d < 1 DO\n  %s\n  @w%d := 1;\nEND WHILE;\n", i, i, stmt, i)
			class("A.wrapped_in:while")
		default:
			script.WriteString(stmt + "\n")
		}
	}
	script.WriteString("PRINT '@@end';\n")
	// the procedure ends normally: "commit all the changes automatically"
	if m.commit() {
		class("A.end:automatic_commit_writes")
	} else {
		class("A.end:nothing_to_write")
	}

	// --- files: tables, A's procedure, one shell script per B step
	files["a.sql"] = script.String()
	for _, b := range bs {
		files[fmt.Sprintf("b%d.sql", b.step)] = b.sql + "\n"
		var sh strings.Builder
		fmt.Fprintf(&sh, "#!/bin/sh\nn=%d\nrunb() {\n  '%s' --wait-timeout \"$1\" -q -s b$n.sql > b$n.out 2>&1\n  echo $? > b$n.rc\n}\n", b.step, bin)
		sh.WriteString("cat t*.csv > b$n.before\nrunb 0.05\n")
		if b.mustFail {
			// the 50 ms were over before the first attempt to take the lock (context done): judge a longer wait
			sh.WriteString("if [ \"$(cat b$n.rc)\" = 8 ] && ! grep -q 'lock wait timeout period exceeded' b$n.out; then echo 1 > b$n.retry; runb 2; fi\n")
		} else {
			// nobody holds the table: a timeout can only come from a busy machine; judge a patient attempt
			sh.WriteString("if [ \"$(cat b$n.rc)\" = 8 ]; then echo 1 > b$n.retry; runb 30; fi\n")
		}
		sh.WriteString("cat t*.csv > b$n.after\nexit 0\n")
		files[fmt.Sprintf("b%d.sh", b.step)] = sh.String()
	}
	if err := run.WriteFiles(dir, files); err != nil {
		return o, fw.Harness("write files: %v", err)
	}
	home := filepath.Join(fw.WorkDir(), "clihome")
	_ = os.MkdirAll(home, 0755)
	res := run.CLI(run.CLIOpt{Bin: bin, Dir: dir, Home: home, Timeout: 10 * time.Minute,
		Args: []string{"--wait-timeout", "30", "-q", "-f", "JSONL", "-s", "a.sql"}})
	tail := func() string {
		return "\n  procedure of A:\n    " + strings.ReplaceAll(strings.TrimSpace(script.String()), "\n", "\n    ") +
			"\n  stdout of A:\n    " + strings.ReplaceAll(strings.TrimSpace(res.Stdout), "\n", "\n    ")
	}
	if res.TimedOut {
		return o, fw.V("a_process_hang", "process A did not end%s", tail())
	}
	if res.Code != 0 {
		return o, fw.V(fmt.Sprintf("a_process_failed:exit%d", res.Code), "process A ended with exit code %d: %s%s", res.Code, strings.TrimSpace(res.Stderr), tail())
	}

	// --- A's outputs, section by section
	sections := map[string][]string{}
	cur := ""
	for _, line := range strings.Split(res.Stdout, "\n") {
		line = strings.TrimRight(line, "\r")
		if strings.HasPrefix(line, "'@@") && strings.HasSuffix(line, "'") {
			cur = line[3 : len(line)-1]
			sections[cur] = []string{}
			continue
		}
		if strings.TrimSpace(line) == "" {
			continue
		}
		sections[cur] = append(sections[cur], line)
	}
	if _, ok := sections["end"]; !ok {
		return o, fw.V("a_process_output_incomplete", "process A ended with exit code 0 without reaching the end of its procedure%s", tail())
	}
	for _, e := range expects {
		lines, ok := sections[strconv.Itoa(e.step)]
		if !ok {
			return o, fw.V("a_process_output_incomplete", "no output section for step %d (%s)%s", e.step, e.stmt, tail())
		}
		var got []string
		for _, line := range lines {
			dec := json.NewDecoder(bytes.NewReader([]byte(line)))
			dec.UseNumber()
			var obj map[string]interface{}
			if err := dec.Decode(&obj); err != nil || len(obj) != len(e.cols) {
				return o, fw.V("a_read_shape", "%s printed %q; expected one JSON object with the members %v per record%s", e.stmt, line, e.cols, tail())
			}
			cells := make([]string, len(e.cols))
			for k, cn := range e.cols {
				v, ok := obj[cn]
				if !ok {
					return o, fw.V("a_read_shape", "%s printed %q; expected one JSON object with the members %v per record%s", e.stmt, line, e.cols, tail())
				}
				cells[k] = jsonCell(v)
			}
			got = append(got, key(cells...))
		}
		want := append([]string{}, e.want...)
		if !e.ordered {
			sort.Strings(got)
			sort.Strings(want)
		}
		if strings.Join(got, "\n") != strings.Join(want, "\n") {
			return o, fw.V("process_read:"+e.rule, "step %d: %s in the procedure of process A printed %s; expected %s (model rule %s)%s", e.step, e.stmt, showKeys(got), showKeys(want), e.rule, tail())
		}
	}

	// --- the B processes
	readF := func(name string) string {
		b, err := os.ReadFile(filepath.Join(dir, name))
		if err != nil {
			return "<" + err.Error() + ">"
		}
		return string(b)
	}
	for _, b := range bs {
		rc := strings.TrimSpace(readF(fmt.Sprintf("b%d.rc", b.step)))
		out := strings.TrimSpace(readF(fmt.Sprintf("b%d.out", b.step)))
		if _, err := os.Stat(filepath.Join(dir, fmt.Sprintf("b%d.retry", b.step))); err == nil {
			fw.AddExtra("b_retries", 1)
		}
		if b.mustFail {
			fw.AddExtra("b_lock_timeouts", 1)
			switch {
			case rc == "0":
				return o, fw.V("b_committed_while_held_for_update", "step %d: process B (%s) committed to %s while process A holds it for update%s", b.step, b.sql, tableName(b.t), tail())
			case rc != "8" || !strings.Contains(out, "lock wait timeout period exceeded"):
				return o, fw.V("b_blocked_wrong_error:exit"+rc, "step %d: process B (%s) ended with exit code %s %q; the lock wait timeout error (exit code 8) is expected while A holds %s%s", b.step, b.sql, rc, out, tableName(b.t), tail())
			}
			if before, after := readF(fmt.Sprintf("b%d.before", b.step)), readF(fmt.Sprintf("b%d.after", b.step)); before != after {
				return o, fw.V("b_failed_but_file_changed", "step %d: process B timed out on the lock but the files changed: %q -> %q%s", b.step, before, after, tail())
			}
			continue
		}
		if rc != "0" {
			return o, fw.V("b_failed_without_holder:exit"+rc, "step %d: process B (%s) ended with exit code %s %q although A does not hold %s for update%s", b.step, b.sql, rc, out, tableName(b.t), tail())
		}
	}

	// --- the end: the files are the model's files
	fin, err := run.NewSess(run.Opt{Dir: dir})
	if err != nil {
		return o, fw.Harness("session: %v", err)
	}
	defer fin.Close()
	for t := 0; t < nt; t++ {
		stmt := fmt.Sprintf("SELECT id, v FROM %s;", tableName(t))
		tb, err := fin.Query(stmt)
		if err != nil {
			return o, fw.V("final_read_error", "after process A ended %s fails in a new process: %v (file %q)%s", stmt, err, readF(tableName(t)+".csv"), tail())
		}
		rows, ok := observed(tb)
		if !ok || !sameRows(rows, m.F[t]) {
			return o, fw.V("final_file_differs", "after process A ended (automatic commit) %s holds %s, expected %s%s", tableName(t), render(rows), render(m.F[t]), tail())
		}
	}
	if left := run.ControlFiles(dir); len(left) > 0 {
		return o, fw.V("control_files_left", "after process A ended the directory still holds %v%s", left, tail())
	}
	if nontrivial {
		o.Fingerprint = strings.Join(toks, "")
	}
	return o, nil
}

func TestC20ProcedureProcess(t *testing.T) {
	fw.Run(t, fw.Spec[histCase]{
		ID: "C20", Name: "procedure_process", Quick: 160, Thorough: 3200,
		Gen: genCaseAProc, Check: checkProc,
		Rule: "the histories of check history without the long-lived second transaction and without no_header spellings, executed the way the property is observed: transaction A is ONE real csvq process running a procedure (csvq -q -f JSONL -s a.sql; a third of its statements inside IF .. END IF or WHILE .. END WHILE), the other processes B are csvq processes that A's procedure starts between its statements as external commands ($ sh b<i>.sh; -> csvq --wait-timeout 0.05 -q -s b<i>.sql; exit code and file bytes before/after recorded). The same model predicts, before anything runs, the records every SELECT of the procedure prints (parsed from A's standard output, sections separated by PRINT markers), the exit code of every B (0 iff A does not hold the table, else 8 with the lock wait timeout message and byte-identical files) and the files after the automatic commit of the normally ended procedure (read by a new session; no lock or temporary files left). Non-trivial and distinct as in history",
		Assumptions: append(append([]string{}, assumptions...),
			"process A must end with exit code 0: no statement of the generated procedures can fail (nobody holds a table for longer than one B process lives)",
			"a B that times out where the model says it must commit is retried by its shell script with --wait-timeout 30 (busy machine); a context-done message instead of the lock wait timeout message is retried with 2 s"),
	})
}
