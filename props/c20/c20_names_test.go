package c20

import (
	"fmt"
	"os"
	"path/filepath"
	"strconv"
	"strings"
	"sync/atomic"
	"testing"

	"pgregory.net/rapid"

	"verif/internal/fw"
	"verif/internal/run"
)

// ---------------------------------------------------------------------
// table_names: two tables whose file names are close to each other. "Character case is insensitive except file
// paths, and whether file paths are case-insensitive or not depends on your file system" (statement.md): on the
// case-sensitive file system the checks run on, ta.csv and Ta.csv are two tables, and what the transaction has
// loaded of one of them says nothing about the other.

type nameStep struct {
	K  string `json:"k"`            // sel | sfu | upd | ins | commit | rollback | b
	T  int    `json:"t"`            // table index
	ID int    `json:"id,omitempty"` // upd / b: addressed id; ins: new id
}

type nameCase struct {
	Names [2]string  `json:"names"` // file names without the extension
	Rows  [2]int     `json:"rows"`  // 1-3 records each; ids 1.. in the first, 101.. in the second table
	Steps []nameStep `json:"steps"`
}

var nameBases = []string{"ta", "Ta", "tA", "TA", "tb", "Tb", "ta2", "t_a"}

func caseTwins(c nameCase) bool {
	return c.Names[0] != c.Names[1] && strings.EqualFold(c.Names[0], c.Names[1])
}

func nameTables(c nameCase) [][]rowT {
	out := make([][]rowT, 2)
	for t := 0; t < 2; t++ {
		for k := 1; k <= c.Rows[t]; k++ {
			id := 100*t + k
			out[t] = append(out[t], rowT{ID: id, V: fmt.Sprintf("i%d", id)})
		}
	}
	return out
}

func genNames(t *rapid.T) nameCase {
	c := nameCase{}
	c.Names[0] = nameBases[fw.Uniform(t, "name0", len(nameBases))]
	for {
		c.Names[1] = nameBases[fw.Uniform(t, "name1", len(nameBases))]
		if c.Names[1] != c.Names[0] {
			break
		}
	}
	c.Rows = [2]int{fw.Range(t, "rows0", 1, 3), fw.Range(t, "rows1", 1, 3)}
	m := newModel(nameTables(c))
	next := [2]int{c.Rows[0] + 1, 100 + c.Rows[1] + 1}
	n := fw.Range(t, "nsteps", 3, 12)
	last := -1
	for i := 0; i < n; i++ {
		s := nameStep{T: fw.Uniform(t, "table", 2)}
		if last >= 0 && fw.Pct(t, "other_table", 60) {
			s.T = 1 - last // the interesting order: the other table right after this one
		}
		s.K = []string{"sel", "sfu", "upd", "ins", "commit", "rollback", "b"}[fw.Weighted(t, "kind", []int{34, 8, 16, 8, 6, 5, 23})]
		switch s.K {
		case "sel":
			m.plainRead(s.T)
		case "sfu":
			m.updAccess(s.T)
		case "upd":
			m.updAccess(s.T)
			rows := m.C[s.T].rows
			s.ID = idOf(rows[fw.Uniform(t, "id", len(rows))])
			m.C[s.T].rows, m.C[s.T].dirty = edit(rows, "upd", s.ID, "x", false), true
		case "ins":
			m.updAccess(s.T)
			s.ID = next[s.T]
			next[s.T]++
			m.C[s.T].rows, m.C[s.T].dirty = edit(m.C[s.T].rows, "ins", s.ID, "x", false), true
		case "commit":
			m.commit()
		case "rollback":
			m.rollback()
		case "b":
			rows := m.F[s.T]
			s.ID = idOf(rows[fw.Uniform(t, "id", len(rows))])
			if !m.held(s.T) {
				m.F[s.T] = edit(rows, "upd", s.ID, "y", false)
			}
		}
		if s.K != "commit" && s.K != "rollback" {
			last = s.T
		}
		c.Steps = append(c.Steps, s)
	}
	return c
}

func checkNames(c nameCase) (fw.Outcome, *fw.Violation) {
	o := fw.Outcome{}
	for t := 0; t < 2; t++ {
		ok := false
		for _, b := range nameBases {
			ok = ok || b == c.Names[t]
		}
		if !ok || c.Rows[t] < 1 || c.Rows[t] > 50 {
			o.Discard = true
			return o, nil
		}
	}
	if c.Names[0] == c.Names[1] {
		o.Discard = true
		return o, nil
	}
	class := func(s string) { o.Classes = append(o.Classes, s) }
	twins := caseTwins(c)
	if twins {
		class("names:differ_only_in_letter_case")
	} else {
		class("names:differ_otherwise")
	}
	dir := filepath.Join(fw.WorkDir(), fmt.Sprintf("c20n-%d", atomic.AddInt64(&caseSeq, 1)))
	_ = os.RemoveAll(dir)
	if err := os.MkdirAll(dir, 0755); err != nil {
		return o, fw.Harness("mkdir: %v", err)
	}
	defer os.RemoveAll(dir)
	tables := nameTables(c)
	files := map[string]string{}
	for t := 0; t < 2; t++ {
		files[c.Names[t]+".csv"] = fileText("", tables[t])
	}
	if err := run.WriteFiles(dir, files); err != nil {
		return o, fw.Harness("write tables: %v", err)
	}
	if ents, err := os.ReadDir(dir); err != nil || len(ents) != 2 {
		// a file system that does not tell the two names apart: not the subject
		o.Discard = true
		return o, nil
	}
	ref := func(t int) string { return "`" + c.Names[t] + ".csv`" }
	a, err := run.NewSess(run.Opt{Dir: dir})
	if err != nil {
		return o, fw.Harness("session: %v", err)
	}
	defer a.Close()
	m := newModel(tables)
	var trace []string
	tail := func() string { return "\n    " + strings.Join(trace, "\n    ") }
	// read executes SELECT * on table t and compares it with the model
	read := func(t int, forUpdate bool) *fw.Violation {
		stmt := "SELECT * FROM " + ref(t)
		var want []mrow
		var rule string
		if forUpdate {
			stmt += " FOR UPDATE"
			rule = m.updAccess(t)
			if rule == "H" && m.C[t].dirty {
				rule = "Hd"
			}
			want = m.C[t].rows
		} else {
			want, rule = m.plainRead(t)
		}
		stmt += ";"
		r := a.Exec(stmt)
		if r.Err != nil {
			trace = append(trace, "A: "+stmt+"   -> "+run.ErrClass(r.Err)+" "+r.Err.Error())
			return fw.V("a_read_error", "%s failed in transaction A: %s %v%s", stmt, run.ErrClass(r.Err), r.Err, tail())
		}
		if len(r.Views) != 1 {
			return fw.V("a_read_shape", "%s returned %d results%s", stmt, len(r.Views), tail())
		}
		rows, ok := observed(r.Views[0])
		trace = append(trace, "A: "+stmt+"   -> "+render(rows))
		if !ok {
			return fw.V("a_read_shape", "%s returned an unexpected shape: %s%s", stmt, r.Views[0].String(), tail())
		}
		if sameRows(rows, want) {
			class("A.read:" + rule)
			return nil
		}
		// records of the other table: ids 1.. belong to the first, 101.. to the second table
		foreign := false
		for _, rw := range rows {
			if id := idOf(rw); id >= 0 && (id > 100) != (t == 1) {
				foreign = true
			}
		}
		if twins && foreign {
			return fw.V("case_twin_tables_share_cache", "%s in transaction A returned %s: records of %s, the table whose name differs only in letter case; expected %s (model rule %s; file paths are case-sensitive on this file system)%s", stmt, render(rows), ref(1-t), render(want), rule, tail())
		}
		return fw.V("table_names_read:"+rule, "%s in transaction A returned %s; expected %s (model rule %s)%s", stmt, render(rows), render(want), rule, tail())
	}
	used := [2]bool{}
	both := false
	for i, s := range c.Steps {
		if s.T < 0 || s.T > 1 {
			o.Discard = true
			return o, nil
		}
		tag := fmt.Sprintf("a%d", i)
		switch s.K {
		case "sel", "sfu":
			if v := read(s.T, s.K == "sfu"); v != nil {
				return o, v
			}
		case "upd", "ins":
			m.updAccess(s.T)
			stmt := changeSQL(ref(s.T), s.K, s.ID, tag, false)
			r := a.Exec(stmt)
			if r.Err != nil {
				trace = append(trace, "A: "+stmt+"   -> "+run.ErrClass(r.Err)+" "+r.Err.Error())
				return o, fw.V("a_change_error", "%s failed in transaction A: %s %v%s", stmt, run.ErrClass(r.Err), r.Err, tail())
			}
			trace = append(trace, "A: "+stmt)
			m.C[s.T].rows, m.C[s.T].dirty = edit(m.C[s.T].rows, s.K, s.ID, tag, false), true
			class("A." + s.K)
			// the change is read back at once (part of the step), so that a change applied to another table shows here
			if v := read(s.T, false); v != nil {
				return o, v
			}
		case "commit", "rollback":
			if s.K == "commit" {
				m.commit()
			} else {
				m.rollback()
			}
			if r := a.Exec(strings.ToUpper(s.K) + ";"); r.Err != nil {
				return o, fw.V("a_"+s.K+"_error", "%s failed in transaction A: %v%s", strings.ToUpper(s.K), r.Err, tail())
			}
			trace = append(trace, "A: "+strings.ToUpper(s.K)+";")
			used = [2]bool{}
			class("A." + s.K)
			continue
		case "b":
			sql := changeSQL(ref(s.T), "upd", s.ID, fmt.Sprintf("b%d", i), false) + " COMMIT;"
			mustFail := m.held(s.T)
			out := runB(histCase{}, dir, sql, bWait, 0)
			if out.class == "harness" {
				return o, fw.Harness("B: %s", out.msg)
			}
			if !mustFail && strings.HasPrefix(out.class, "E8/") {
				fw.AddExtra("b_success_retries", 1)
				out = runB(histCase{}, dir, sql, bWaitRetry, 0)
			}
			trace = append(trace, "B: "+sql+"   -> "+out.class+" "+out.msg)
			switch {
			case mustFail && out.class == "":
				return o, fw.V("b_committed_while_held_for_update", "another process committed to %s while transaction A holds it for update%s", ref(s.T), tail())
			case mustFail && !strings.HasPrefix(out.class, "E8/"):
				return o, fw.V("b_blocked_wrong_error:"+out.class, "process B failed with %s %s; a lock wait timeout is expected%s", out.class, out.msg, tail())
			case mustFail:
				class("B.blocked")
			case out.class != "":
				return o, fw.V("b_failed_without_holder:"+out.class, "process B failed with %s %s although transaction A does not hold %s for update (it holds %v)%s", out.class, out.msg, ref(s.T), m.held(1-s.T), tail())
			default:
				m.F[s.T] = edit(m.F[s.T], "upd", s.ID, fmt.Sprintf("b%d", i), false)
				class("B.commit")
			}
			continue
		default:
			o.Discard = true
			return o, nil
		}
		used[s.T] = true
		if used[0] && used[1] {
			both = true
		}
	}
	a.Close()
	m.rollback()
	for t := 0; t < 2; t++ {
		// one new session per table: the final reader must not depend on what is being checked
		fin, err := run.NewSess(run.Opt{Dir: dir})
		if err != nil {
			return o, fw.Harness("session: %v", err)
		}
		tb, err := fin.Query("SELECT id, v FROM " + ref(t) + ";")
		fin.Close()
		if err != nil {
			return o, fw.V("final_read_error", "after the history %s cannot be read: %v%s", ref(t), err, tail())
		}
		if rows, ok := observed(tb); !ok || !sameRows(rows, m.F[t]) {
			return o, fw.V("final_file_differs", "after the history %s holds %s, expected %s%s", ref(t), render(rows), render(m.F[t]), tail())
		}
	}
	if both {
		class("nontrivial:both_tables_accessed_in_one_transaction")
		var b strings.Builder
		for _, s := range c.Steps {
			b.WriteString(s.K[:1] + strconv.Itoa(s.T))
		}
		o.Fingerprint = fmt.Sprintf("%v:%s", twins, b.String())
	}
	return o, nil
}

func TestC20TableNames(t *testing.T) {
	fw.Run(t, fw.Spec[nameCase]{
		ID: "C20", Name: "table_names", Quick: 320, Thorough: 6400,
		Gen: genNames, Check: checkNames,
		Rule: "two CSV tables (id, v; 1-3 records; ids 1.. and 101..) whose file names are drawn from ta, Ta, tA, TA, tb, Tb, ta2, t_a (so that about a third of the pairs differ only in letter case) and a history of 3-12 steps of transaction A (SELECT *, SELECT * FOR UPDATE, UPDATE and INSERT each read back at once, COMMIT, ROLLBACK; the table spelled by its file name; the other table right after this one in 60% of the steps) and commits of other processes; the two tables are independent in the model (cache rules of check history per table). Non-trivial = both tables accessed inside one transaction of A",
		Assumptions: []string{
			"the scratch directory is on a file system that keeps the two names apart (otherwise the case is discarded): there the manual makes file paths case-sensitive (statement.md, 'Character case is insensitive except file paths, and whether file paths are case-insensitive or not depends on your file system')",
			"pairs that differ only in letter case currently end in the known finding case_twin_tables_share_cache (counted as excluded_known); the other pairs are the control group",
		},
	})
}
