package c20

import (
	"fmt"
	"os"
	"path/filepath"
	"strconv"
	"strings"
	"sync/atomic"
	"testing"

	"pgregory.net/rapid"

	"verif/internal/fw"
	"verif/internal/run"
)

// ---------------------------------------------------------------------
// settings: what a table NAME denotes and how a file is READ depend on session settings that a transaction can change
// between two of its statements: the repository ("You can use absolute path or relative path from the directory
// specified by the --repository option", SET @@REPOSITORY) and the import options (--without-null / @@WITHOUT_NULL,
// the without_null argument of the table object). The cache of the transaction is keyed by the FILE, and a loaded
// table keeps the way it was loaded first ("A format specified function effects the first loading in a transaction.
// After the second loading, the specifications in the format specified function are ignored"; "The table attributes
// that were determined when loading will be used to updating"). Two directories hold tables of the SAME names with
// different records; transaction A switches between them and names the tables by every documented notation.

type setStep struct {
	K    string `json:"k"`              // sel | sfu | upd | ins | del | commit | rollback | b | repo | wn
	D    int    `json:"d,omitempty"`    // repo: the new repository; b and the notations that carry a directory: the directory of the table
	T    int    `json:"t,omitempty"`    // table index inside the directory
	Form int    `json:"form,omitempty"` // notation of the table (see setRef); repo: notation of the directory
	ID   int    `json:"id,omitempty"`
	Null bool   `json:"null,omitempty"` // ins / upd: the value is NULL
	On   bool   `json:"on,omitempty"`   // wn: new value of @@WITHOUT_NULL; notation 8: the without_null argument
}

type setCase struct {
	NT    int       `json:"nt"`   // tables per directory (1-2), named t1, t2 in both directories
	Rows  [][]rowT  `json:"rows"` // records of the files, index = directory*NT + table
	Steps []setStep `json:"steps"`
}

// notations of a table. 0-4 and 8 are relative to the current repository, 5-7 carry the directory themselves.
const (
	sfName     = 0 // t1
	sfFile     = 1 // `t1.csv`
	sfFileFn   = 2 // FILE::('t1.csv')
	sfUrlDot   = 3 // file:./t1.csv
	sfUrl      = 4 // file:t1.csv
	sfUrlAbs   = 5 // file:///<root>/d<k>/t1.csv
	sfAbs      = 6 // `<root>/d<k>/t1.csv`
	sfCross    = 7 // `../d<k>/t1.csv`
	sfTableObj = 8 // CSV(',', `t1.csv`, 'UTF8', FALSE, <without_null>)   (SELECT only)
	sfCount    = 9
)

func setDirName(d int) string { return fmt.Sprintf("d%d", d+1) }

func setRef(root string, s setStep) string {
	file := tableName(s.T) + ".csv"
	abs := filepath.Join(root, setDirName(s.D), file)
	switch s.Form {
	case sfFile:
		return "`" + file + "`"
	case sfFileFn:
		return "FILE::('" + file + "')"
	case sfUrlDot:
		return "file:./" + file + " "
	case sfUrl:
		return "file:" + file + " "
	case sfUrlAbs:
		return "file://" + abs + " "
	case sfAbs:
		return "`" + abs + "`"
	case sfCross:
		return "`../" + setDirName(s.D) + "/" + file + "`"
	case sfTableObj:
		return fmt.Sprintf("CSV(',', `%s`, 'UTF8', FALSE, %s)", file, strings.ToUpper(strconv.FormatBool(s.On)))
	}
	return tableName(s.T)
}

func setCarriesDir(form int) bool { return form == sfUrlAbs || form == sfAbs || form == sfCross }

// notation of a directory in SET @@REPOSITORY
func setRepoSpelling(root string, d, form int) string {
	p := filepath.Join(root, setDirName(d))
	switch form {
	case 1:
		return p + "/"
	case 2:
		return filepath.Join(root, setDirName(1-d)) + "/../" + setDirName(d)
	}
	return p
}

type setCache struct {
	rows  []mrow
	fu    bool
	dirty bool
	wn    bool // first loaded with without_null: empty fields are empty strings, not NULL
}

type setModel struct {
	F    [][]mrow
	C    []*setCache
	repo int
	wn   bool // @@WITHOUT_NULL
}

func newSetModel(c setCase) *setModel {
	m := &setModel{}
	for _, rows := range c.Rows {
		var f []mrow
		for _, r := range rows {
			if r.Null {
				r.V = ""
			}
			f = append(f, mrow{id: strconv.Itoa(r.ID), v: r.V, null: r.Null})
		}
		m.F = append(m.F, f)
		m.C = append(m.C, nil)
	}
	return m
}

// view: the file as loaded with / without the import option without_null
func (m *setModel) view(f int, wn bool) []mrow {
	out := clone(m.F[f])
	if wn {
		for i := range out {
			if out[i].null {
				out[i].null, out[i].v = false, ""
			}
		}
	}
	return out
}

func (m *setModel) plainRead(f int, wn bool) ([]mrow, string) {
	c := m.C[f]
	switch {
	case c == nil:
		m.C[f] = &setCache{rows: m.view(f, wn), wn: wn}
		return m.C[f].rows, "L"
	case c.fu && c.dirty:
		return c.rows, "Hd"
	case c.fu:
		return c.rows, "H"
	case sameRows(c.rows, m.view(f, c.wn)):
		return c.rows, "C"
	}
	return c.rows, "S"
}

func (m *setModel) updAccess(f int, wn bool) string {
	c := m.C[f]
	switch {
	case c == nil:
		m.C[f] = &setCache{rows: m.view(f, wn), fu: true, wn: wn}
		return "U"
	case !c.fu:
		// the reload re-reads the file the way it was loaded first
		changed := !sameRows(c.rows, m.view(f, c.wn))
		m.C[f] = &setCache{rows: m.view(f, c.wn), fu: true, wn: c.wn}
		if changed {
			return "Rx"
		}
		return "R"
	}
	if c.dirty {
		return "Hd"
	}
	return "H"
}

// end of A's transaction; a CSV file does not tell an empty string from NULL: what is written as an empty field is
// NULL for the next reader (C02 / C05)
func (m *setModel) end(commit bool) (wrote bool) {
	for f, c := range m.C {
		if c != nil && commit && c.fu && c.dirty {
			rows := clone(c.rows)
			for i := range rows {
				if rows[i].v == "" {
					rows[i].null = true
				}
			}
			m.F[f] = rows
			wrote = true
		}
		m.C[f] = nil
	}
	return wrote
}

func (m *setModel) held(f int) bool { return m.C[f] != nil && m.C[f].fu }

func genSettings(t *rapid.T) setCase {
	c := setCase{NT: fw.Range(t, "tables_per_dir", 1, 2)}
	nextID := 1
	for f := 0; f < 2*c.NT; f++ {
		n := fw.Range(t, "nrows", 1, 3)
		var rows []rowT
		for k := 0; k < n; k++ {
			r := rowT{ID: nextID, V: fmt.Sprintf("i%d", nextID)}
			if fw.Pct(t, "nullcell", 30) {
				r.V, r.Null = "", true
			}
			nextID++
			rows = append(rows, r)
		}
		c.Rows = append(c.Rows, rows)
	}
	m := newSetModel(c)
	n := fw.Range(t, "nsteps", 4, 18)
	follow := -1 // a file A has read in this transaction and B has just committed to
	readInTxn := make([]bool, 2*c.NT)
	switched := false // a setting was changed by the previous step
	for i := 0; i < n; i++ {
		var s setStep
		kind := ""
		if switched && fw.Pct(t, "after_switch", 70) {
			kind = []string{"sel", "sel", "sel", "upd", "sfu", "ins"}[fw.Uniform(t, "after_switch_kind", 6)]
		} else if follow >= 0 && fw.Pct(t, "follow", 55) {
			kind = []string{"sel", "sel", "repo", "wn", "upd", "sfu"}[fw.Uniform(t, "follow_kind", 6)]
		} else {
			kind = []string{"sel", "sfu", "upd", "ins", "del", "commit", "rollback", "b", "repo", "wn"}[fw.Weighted(t, "kind", []int{30, 5, 9, 5, 3, 5, 4, 18, 14, 7})]
		}
		switched = false
		s.K = kind
		switch kind {
		case "repo":
			s.D = 1 - m.repo
			if fw.Pct(t, "same_repo", 10) {
				s.D = m.repo
			}
			s.Form = fw.Uniform(t, "repo_form", 3)
			m.repo = s.D
			switched = true
		case "wn":
			s.On = !m.wn
			m.wn = s.On
			switched = true
		case "commit", "rollback":
			m.end(kind == "commit")
			readInTxn = make([]bool, 2*c.NT)
			follow = -1
		case "b":
			s.D, s.T = fw.Uniform(t, "b_dir", 2), fw.Uniform(t, "b_table", c.NT)
			if follow < 0 {
				// prefer a file A has cached read-only
				for f := range m.C {
					if m.C[f] != nil && !m.C[f].fu && fw.Pct(t, "b_cached", 50) {
						s.D, s.T = f/c.NT, f%c.NT
					}
				}
			}
			f := s.D*c.NT + s.T
			rows := m.F[f]
			s.ID = idOf(rows[fw.Uniform(t, "b_id", len(rows))])
			s.Null = fw.Pct(t, "b_null", 25)
			if !m.held(f) {
				m.F[f] = edit(m.F[f], "upd", s.ID, "y", s.Null)
				if readInTxn[f] {
					follow = f
				}
			}
		default:
			s.T = fw.Uniform(t, "table", c.NT)
			s.D = m.repo
			forms := sfCount
			if kind != "sel" {
				forms = sfCount - 1
			}
			s.Form = fw.Uniform(t, "form", forms)
			if setCarriesDir(s.Form) {
				s.D = fw.Uniform(t, "dir", 2)
			}
			if follow >= 0 && fw.Pct(t, "follow_table", 75) {
				// reach the file B has just committed to: by a notation that carries the directory when it is in the other one
				s.D, s.T = follow/c.NT, follow%c.NT
				if s.D != m.repo {
					s.Form = []int{sfUrlAbs, sfAbs, sfCross}[fw.Uniform(t, "follow_form", 3)]
				} else if setCarriesDir(s.Form) && fw.Pct(t, "follow_plain_form", 50) {
					s.Form = fw.Uniform(t, "form_rel", 5)
				}
			}
			if s.Form == sfTableObj {
				s.On = fw.Pct(t, "arg_without_null", 50)
			}
			f := s.D*c.NT + s.T
			wn := m.wn
			if s.Form == sfTableObj {
				wn = s.On
			}
			switch kind {
			case "sel":
				m.plainRead(f, wn)
			default:
				m.updAccess(f, wn)
				cch := m.C[f]
				switch kind {
				case "ins":
					s.ID = nextID
					nextID++
					s.Null = fw.Pct(t, "nullval", 25)
				case "upd", "del":
					s.ID = idOf(cch.rows[fw.Uniform(t, "a_id", len(cch.rows))])
					s.Null = kind == "upd" && fw.Pct(t, "nullval", 25)
					if kind == "del" && len(cch.rows) < 2 {
						s.K, kind = "upd", "upd"
					}
				}
				if kind != "sfu" {
					cch.rows, cch.dirty = edit(cch.rows, kind, s.ID, "x", s.Null), true
				}
			}
			readInTxn[f] = true
			follow = -1
		}
		c.Steps = append(c.Steps, s)
	}
	return c
}

func checkSettings(c setCase) (fw.Outcome, *fw.Violation) {
	o := fw.Outcome{}
	if c.NT < 1 || c.NT > 2 || len(c.Rows) != 2*c.NT {
		o.Discard = true
		return o, nil
	}
	for _, rows := range c.Rows {
		if len(rows) < 1 || len(rows) > 50 {
			o.Discard = true
			return o, nil
		}
	}
	class := func(s string) { o.Classes = append(o.Classes, s) }
	root := filepath.Join(fw.WorkDir(), fmt.Sprintf("c20g-%d", atomic.AddInt64(&caseSeq, 1)))
	_ = os.RemoveAll(root)
	defer os.RemoveAll(root)
	files := map[string]string{}
	for f, rows := range c.Rows {
		files[filepath.Join(setDirName(f/c.NT), tableName(f%c.NT)+".csv")] = fileText("", rows)
	}
	if err := run.WriteFiles(root, files); err != nil {
		return o, fw.Harness("write tables: %v", err)
	}
	dirOf := func(d int) string { return filepath.Join(root, setDirName(d)) }
	a, err := run.NewSess(run.Opt{Dir: dirOf(0)})
	if err != nil {
		return o, fw.Harness("session: %v", err)
	}
	defer a.Close()
	m := newSetModel(c)
	fileName := func(f int) string { return setDirName(f/c.NT) + "/" + tableName(f%c.NT) + ".csv" }
	var trace []string
	tail := func() string {
		tr := trace
		if len(tr) > 24 {
			tr = tr[len(tr)-24:]
		}
		return "\n    " + strings.Join(tr, "\n    ")
	}
	execA := func(sql string) run.Res {
		r := a.Exec(sql)
		line := "A: " + sql
		if r.Err != nil {
			line += "   -> " + run.ErrClass(r.Err) + " " + r.Err.Error()
		} else if len(r.Views) == 1 {
			if rows, ok := observed(r.Views[0]); ok {
				line += "   -> " + render(rows)
			}
		}
		trace = append(trace, line)
		return r
	}
	ruleText := map[string]string{
		"L": "first load in this transaction: the current file", "C": "cached copy (the file has not changed since)",
		"S": "cached copy although another process committed meanwhile", "H": "copy held for update",
		"Hd": "copy held for update plus the transaction's own changes", "U": "loaded for update: the current file",
		"R": "reloaded by the first update access after a plain SELECT (file unchanged)", "Rx": "reloaded by the first update access after a plain SELECT: the current file",
	}
	var toks []string
	tok := func(s string) {
		if len(toks) == 0 || toks[len(toks)-1] != s {
			toks = append(toks, s)
		}
	}
	nf := 2 * c.NT
	readInTxn := make([]bool, nf)
	bSinceRead := make([]bool, nf)
	repoAtLoad := make([]int, nf) // the repository under which A loaded the file in this transaction (-1: not loaded)
	wnAtLoad := make([]bool, nf)  // @@WITHOUT_NULL at that time
	for f := range repoAtLoad {
		repoAtLoad[f] = -1
	}
	reloaded := make([]bool, nf) // the last update access of A reloaded the file (rule R / Rx)
	nontrivial := false
	// compare judges one SELECT * of A against the model
	compare := func(f int, r run.Res, want []mrow, rule, stmt string, wnAsked bool) *fw.Violation {
		if r.Err != nil {
			return fw.V("a_read_error", "%s failed in transaction A (repository %s): %s %v%s", stmt, setDirName(m.repo), run.ErrClass(r.Err), r.Err, tail())
		}
		if len(r.Views) != 1 {
			return fw.V("a_read_shape", "%s returned %d results%s", stmt, len(r.Views), tail())
		}
		rows, ok := observed(r.Views[0])
		if !ok {
			return fw.V("a_read_shape", "%s returned an unexpected shape: %s%s", stmt, r.Views[0].String(), tail())
		}
		if sameRows(rows, want) {
			return nil
		}
		// which file do the returned records belong to? (ids are unique over all files)
		other := -1
		for _, rw := range rows {
			for g := range m.F {
				if g != f && countID(m.F[g], idOf(rw)) > 0 && countID(want, idOf(rw)) == 0 {
					other = g
				}
			}
		}
		cch := m.C[f]
		sameButNull := len(rows) == len(want)
		if sameButNull {
			for i := range rows {
				if rows[i].id != want[i].id || rows[i].v != want[i].v {
					sameButNull = false
				}
			}
		}
		switch {
		case other >= 0:
			return fw.V("table_name_resolved_to_another_directory:"+rule, "%s in transaction A (repository %s) returned %s: records of %s; the statement names %s, expected %s = %s%s", stmt, setDirName(m.repo), render(rows), fileName(other), fileName(f), render(want), ruleText[rule], tail())
		case sameButNull && reloaded[f] && cch != nil && cch.wn != wnAsked:
			return fw.V("null_reading_changed_by_reload_for_update", "%s in transaction A returned %s; expected %s: %s was first loaded in this transaction by a plain SELECT with without_null=%v, nobody changed the file since, and the reload by the first update access (under without_null=%v) must read it the way it was loaded first ('After the second loading, the specifications in the format specified function are ignored', command.md): records that neither this transaction nor another process changed turned from NULL to '' or back%s", stmt, render(rows), render(want), fileName(f), cch.wn, wnAsked, tail())
		case sameButNull && rule != "L" && rule != "U":
			return fw.V("null_reading_changed_in_transaction:"+rule, "%s in transaction A returned %s; expected %s = %s: %s was first loaded in this transaction with without_null=%v (this statement: without_null=%v), nobody changed the file since, and a table keeps the way it was loaded first (command.md, Determination of file format)%s", stmt, render(rows), render(want), ruleText[rule], fileName(f), cch.wn, wnAsked, tail())
		case sameButNull:
			return fw.V("without_null_not_applied", "%s in transaction A returned %s; expected %s (first load, without_null=%v)%s", stmt, render(rows), render(want), wnAsked, tail())
		}
		sig := map[string]string{
			"L": "first_read_not_current_file", "C": "cached_read_changed", "S": "cached_read_not_stable_after_foreign_commit",
			"H": "held_read_changed", "Hd": "held_read_not_snapshot_plus_own_changes", "U": "for_update_load_not_current_file",
			"R": "reload_for_update_wrong", "Rx": "no_reload_on_first_update_access",
		}[rule]
		return fw.V("settings:"+sig, "%s in transaction A (repository %s) returned %s; expected %s = %s (file %s now %s)%s", stmt, setDirName(m.repo), render(rows), render(want), ruleText[rule], fileName(f), render(m.F[f]), tail())
	}
	noteAccess := func(f int, rule string, s setStep, wn bool) {
		if rule == "L" || rule == "U" {
			repoAtLoad[f], wnAtLoad[f] = m.repo, m.wn
			return
		}
		if repoAtLoad[f] >= 0 && repoAtLoad[f] != m.repo {
			class("loaded_table_reached_after_repository_switch:" + rule)
			if !setCarriesDir(s.Form) {
				class("loaded_table_reached_by_relative_name_after_switching_back")
			}
		}
		if m.C[f] != nil && m.C[f].wn != wn {
			class("loaded_table_reached_under_other_without_null:" + rule)
		}
	}
	for i, s := range c.Steps {
		if s.T < 0 || s.T >= c.NT || s.D < 0 || s.D > 1 || s.Form < 0 || s.Form >= sfCount {
			o.Discard = true
			return o, nil
		}
		atag, btag := fmt.Sprintf("a%d", i), fmt.Sprintf("b%d", i)
		switch s.K {
		case "repo":
			if s.Form > 2 {
				o.Discard = true
				return o, nil
			}
			stmt := "SET @@REPOSITORY TO '" + setRepoSpelling(root, s.D, s.Form) + "';"
			if r := execA(stmt); r.Err != nil {
				return o, fw.V("a_set_error", "%s failed: %v%s", stmt, r.Err, tail())
			}
			if s.D != m.repo {
				class("A.repository_switched")
			}
			m.repo = s.D
			tok("g" + strconv.Itoa(s.D))
		case "wn":
			stmt := "SET @@WITHOUT_NULL TO " + strings.ToUpper(strconv.FormatBool(s.On)) + ";"
			if r := execA(stmt); r.Err != nil {
				return o, fw.V("a_set_error", "%s failed: %v%s", stmt, r.Err, tail())
			}
			m.wn = s.On
			tok("n" + strconv.FormatBool(s.On)[:1])
		case "sel", "sfu", "upd", "ins", "del":
			if s.Form == sfTableObj && s.K != "sel" {
				o.Discard = true
				return o, nil
			}
			d := m.repo
			if setCarriesDir(s.Form) {
				d = s.D
			}
			s.D = d
			f := d*c.NT + s.T
			wn := m.wn
			if s.Form == sfTableObj {
				wn = s.On
			}
			ref := setRef(root, s)
			class("A.notation:" + []string{"name", "file_name", "FILE::()", "file:./p", "file:p", "file://abs", "abs", "../d/p", "CSV(..without_null)"}[s.Form])
			switch s.K {
			case "sel", "sfu":
				stmt := "SELECT * FROM " + ref
				var want []mrow
				var rule string
				if s.K == "sfu" {
					stmt += " FOR UPDATE"
					rule = m.updAccess(f, wn)
					reloaded[f] = rule == "R" || rule == "Rx"
					want = m.C[f].rows
				} else {
					want, rule = m.plainRead(f, wn)
				}
				stmt += ";"
				if v := compare(f, execA(stmt), want, rule, stmt, wn); v != nil {
					return o, v
				}
				class("A." + s.K + ":" + rule)
				noteAccess(f, rule, s, wn)
				if readInTxn[f] && bSinceRead[f] {
					nontrivial = true
					class("nontrivial:B_commit_between_two_A_reads")
				}
				readInTxn[f], bSinceRead[f] = true, false
				tok(s.K[:2] + rule + strconv.Itoa(f))
			default:
				rule := m.updAccess(f, wn)
				reloaded[f] = rule == "R" || rule == "Rx"
				cch := m.C[f]
				if s.K == "del" && len(edit(cch.rows, "del", s.ID, "", false)) == 0 {
					o.Discard = true
					return o, nil
				}
				stmt := changeSQL(ref, s.K, s.ID, atag, s.Null)
				if r := execA(stmt); r.Err != nil {
					return o, fw.V("a_change_error", "%s failed in transaction A (repository %s; nobody else holds anything): %s %v%s", stmt, setDirName(m.repo), run.ErrClass(r.Err), r.Err, tail())
				}
				cch.rows, cch.dirty = edit(cch.rows, s.K, s.ID, atag, s.Null), true
				class("A." + s.K + ":" + rule)
				noteAccess(f, rule, s, wn)
				tok("d" + rule + strconv.Itoa(f))
				// the change and the untouched records are read back at once through the absolute path
				back := setStep{T: s.T, D: d, Form: sfAbs}
				bstmt := "SELECT * FROM " + setRef(root, back) + ";"
				if v := compare(f, execA(bstmt), cch.rows, "Hd", bstmt, wn); v != nil {
					return o, v
				}
			}
		case "commit", "rollback":
			wrote := m.end(s.K == "commit")
			if r := execA(strings.ToUpper(s.K) + ";"); r.Err != nil {
				return o, fw.V("a_"+s.K+"_error", "%s failed in transaction A: %v%s", strings.ToUpper(s.K), r.Err, tail())
			}
			for f := 0; f < nf; f++ {
				readInTxn[f], bSinceRead[f], repoAtLoad[f], reloaded[f] = false, false, -1, false
			}
			class(fmt.Sprintf("A.%s:writes=%v", s.K, wrote))
			tok(strings.ToUpper(s.K[:1]))
		case "b":
			f := s.D*c.NT + s.T
			if countID(m.F[f], s.ID) == 0 && !m.held(f) {
				o.Discard = true
				return o, nil
			}
			sql := changeSQL(tableName(s.T), "upd", s.ID, btag, s.Null) + " COMMIT;"
			mustFail := m.held(f)
			out := runB(histCase{}, dirOf(s.D), sql, bWait, 0)
			if out.class == "harness" {
				return o, fw.Harness("B: %s", out.msg)
			}
			if !mustFail && strings.HasPrefix(out.class, "E8/") {
				fw.AddExtra("b_success_retries", 1)
				out = runB(histCase{}, dirOf(s.D), sql, bWaitRetry, 0)
			}
			if mustFail && out.class != lockTO && strings.HasPrefix(out.class, "E8/") {
				fw.AddExtra("b_timeout_retries", 1)
				out = runB(histCase{}, dirOf(s.D), sql, 2e9, 0)
			}
			line := "B (in " + setDirName(s.D) + "): " + sql
			if out.class != "" {
				line += "   -> " + out.class + " " + out.msg
			} else {
				line += "   -> committed"
			}
			trace = append(trace, line)
			switch {
			case mustFail && out.class == "":
				return o, fw.V("b_committed_while_held_for_update", "another process committed to %s while transaction A holds it for update%s", fileName(f), tail())
			case mustFail && out.class != lockTO:
				return o, fw.V("b_blocked_wrong_error:"+out.class, "process B failed with %s %s; the lock wait timeout error is expected while A holds %s%s", out.class, out.msg, fileName(f), tail())
			case mustFail:
				fw.AddExtra("b_lock_timeouts", 1)
				class("B.blocked")
				tok("bX" + strconv.Itoa(f))
			case out.class != "":
				return o, fw.V("b_failed_without_holder:"+out.class, "process B failed with %s %s although transaction A does not hold %s for update%s", out.class, out.msg, fileName(f), tail())
			default:
				m.F[f] = edit(m.F[f], "upd", s.ID, btag, s.Null)
				if m.C[f] != nil {
					class("B.commit:table_cached_read_only_by_A")
				} else {
					class("B.commit:table_not_loaded_by_A")
				}
				if readInTxn[f] {
					bSinceRead[f] = true
				}
				tok("b" + strconv.Itoa(f))
			}
		default:
			o.Discard = true
			return o, nil
		}
	}
	a.Close()
	m.end(false)
	for f := 0; f < nf; f++ {
		fin, err := run.NewSess(run.Opt{Dir: dirOf(f / c.NT)})
		if err != nil {
			return o, fw.Harness("session: %v", err)
		}
		tb, err := fin.Query("SELECT id, v FROM " + tableName(f%c.NT) + ";")
		fin.Close()
		if err != nil {
			return o, fw.V("final_read_error", "after the history %s cannot be read: %v%s", fileName(f), err, tail())
		}
		if rows, ok := observed(tb); !ok || !sameRows(rows, m.F[f]) {
			return o, fw.V("final_file_differs", "after the history %s holds %s, expected %s%s", fileName(f), render(rows), render(m.F[f]), tail())
		}
	}
	if nontrivial {
		o.Fingerprint = strings.Join(toks, "")
	}
	return o, nil
}

func TestC20Settings(t *testing.T) {
	fw.Run(t, fw.Spec[setCase]{
		ID: "C20", Name: "settings", Quick: 1000, Thorough: 16000,
		Gen: genSettings, Check: checkSettings,
		Rule: "two directories d1, d2 that hold CSV tables of the SAME names (t1[, t2]; 1-3 records, 30% NULL cells, ids unique over all files) and a history of 4-18 steps: transaction A (one in-process session) does SELECT *, SELECT * FOR UPDATE, UPDATE, INSERT, DELETE (each change read back at once through the absolute path), COMMIT, ROLLBACK and, between them, changes the session settings that decide what a table name denotes and how a file is read: SET @@REPOSITORY TO the other directory (spelled as path, path/, <other>/../<dir>) and SET @@WITHOUT_NULL; every statement draws the notation of its table anew: name, `file name`, FILE::('file'), file:./file, file:file, file://<absolute>, `absolute path`, `../d<k>/file` (the last three reach either directory from either repository), CSV(',', `file`, 'UTF8', FALSE, without_null) for SELECTs; other processes B (fresh sessions whose repository is the table's directory, 50 ms lock wait) UPDATE one record (25% to NULL) and COMMIT. Model keyed by the FILE (directory, name) with the cache rules of check history; a relative notation denotes the file in the repository of the moment ('relative path from the directory specified by the --repository option'), whatever was loaded under the same name before the switch; a loaded table is reached again from the other repository by the notations that carry the directory, and after switching back by its bare name; a table keeps the reading of empty fields (NULL or empty string) of its first load in the transaction, also when the first update access reloads it under another @@WITHOUT_NULL / another table-object argument ('After the second loading, the specifications in the format specified function are ignored'). Every read is compared as a sequence of (id, text, NULL-ness); B commits iff A does not hold that file; at the end every file read by a new session equals the model (an empty string written to CSV reads back as NULL). Non-trivial = a successful B commit between two A reads of the same file inside one A transaction; distinct by the compressed sequence of (step kind, rule, file, setting switches)",
		Assumptions: []string{
			"other processes act between A's statements (statement-level interleaving)",
			"@@REPOSITORY is set to absolute paths (a relative one is resolved against the working directory of the process at the time of SET, which an in-process session shares with the harness); CHDIR is not used for the same reason",
			"of the import options only without_null is varied here (no_header: check history); both are given by session flag and by table-object argument",
			"B's lock wait (50 ms) is semantic: A holds its locks for as long as B waits; a B that times out where the model says it must commit is retried once with 30 s",
			"a DELETE never removes the last record; ids are unique over all four files so that records of the wrong directory are recognised",
		},
	})
}
