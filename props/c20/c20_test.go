package c20

import (
	"fmt"
	"os"
	"os/exec"
	"os/user"
	"path/filepath"
	"sort"
	"strconv"
	"strings"
	"sync"
	"sync/atomic"
	"testing"
	"time"

	"pgregory.net/rapid"

	"verif/internal/fw"
	"verif/internal/run"
)

func TestMain(m *testing.M) { fw.Main(m) }

// ---------------------------------------------------------------------
// The case: 1-2 CSV tables (id, v) and a history of <= 20 steps generated up
// front. Transaction A is ONE in-process session that lives for the whole
// history; every "b" step is another csvq "process" B: a fresh session (own
// Session + Transaction + Processor, or a real csvq process) on the same
// directory that changes one table, COMMITs through the real file layer and
// ends before A's next statement.

type rowT struct {
	ID   int    `json:"id"`
	V    string `json:"v,omitempty"`
	Null bool   `json:"null,omitempty"`
}

type stepT struct {
	K    string `json:"k"`              // sel | sfu | msel | wsel | ins | upd | del | repl | upd2 | insfrom | insself | updsub | delsub | commit | rollback | b | hold | release
	T    int    `json:"t"`              // table index (0: t1, 1: t2)
	Src  int    `json:"src,omitempty"`  // insfrom: source table
	Form int    `json:"form,omitempty"` // spelling of the table reference (see tableRef)
	ID   int    `json:"id,omitempty"`   // ins: new id; upd/del: addressed id
	Null bool   `json:"null,omitempty"` // ins/upd: the value is NULL
	BK   string `json:"bk,omitempty"`   // b: upd | ins | del | updall; hold: sfu | upd | ins; release: commit | rollback
	J    string `json:"j,omitempty"`    // msel: comma | cross | inner | full | union | notin (T is the first table, the other one the second)
	FU   bool   `json:"fu,omitempty"`   // msel: FOR UPDATE
	ID2  int    `json:"id2,omitempty"`  // upd2: id addressed in the second table
	W    string `json:"w,omitempty"`    // wsel: subq | cte | tview | agg | udf | self (how the single table is reached)
	Neg  bool   `json:"neg,omitempty"`  // updsub / delsub: NOT IN instead of IN
	Wrap string `json:"wrap,omitempty"` // procedure_process: the statement stands inside IF .. END IF / WHILE .. END WHILE
}

type histCase struct {
	Tables [][]rowT `json:"tables"`
	Steps  []stepT  `json:"steps"`
	BProc  bool     `json:"b_proc,omitempty"` // B runs as real csvq processes
	Fmt    string   `json:"fmt,omitempty"`    // file format of the tables: "" (csv) | tsv | ltsv | json | jsonl
	CPU    int      `json:"cpu,omitempty"`    // A's @@CPU (0: 1)
	Pad    int      `json:"pad,omitempty"`    // further rows (1000*(table+1)+k, 'p<k>') at the end of every table: sizes beyond the goroutine split
}

// ---------------------------------------------------------------------
// model, written from docs/_posts/2006-01-02-transaction.md ("File Locking")
// and the property statement.

type mrow struct {
	id   string
	v    string
	null bool
}

type cacheT struct {
	rows  []mrow
	fu    bool // held for update (exclusive lock until the end of the transaction)
	nh    bool // first loaded with the import attribute no_header: columns c1, c2 and the header line is the first record
	dirty bool // own changes applied
}

type model struct {
	F  [][]mrow  // contents of the files
	C  []*cacheT // A's cache per table
	H2 []*cacheT // the copies a long-lived other transaction B2 holds for update (nil: not held by B2)
}

// padRows: the rows a case with Pad > 0 has at the end of table t.
func padRows(t, pad int) []rowT {
	var out []rowT
	for k := 0; k < pad; k++ {
		out = append(out, rowT{ID: 1000*(t+1) + k, V: fmt.Sprintf("p%d", k)})
	}
	return out
}

func newModelCase(c histCase) *model {
	tables := make([][]rowT, len(c.Tables))
	for t, rows := range c.Tables {
		tables[t] = append(append([]rowT{}, rows...), padRows(t, c.Pad)...)
	}
	return newModel(tables)
}

func newModel(tables [][]rowT) *model {
	m := &model{}
	for _, t := range tables {
		var rows []mrow
		for _, r := range t {
			if r.Null {
				r.V = ""
			}
			rows = append(rows, mrow{id: strconv.Itoa(r.ID), v: r.V, null: r.Null})
		}
		m.F = append(m.F, rows)
		m.C = append(m.C, nil)
		m.H2 = append(m.H2, nil)
	}
	return m
}

func clone(rows []mrow) []mrow { return append([]mrow(nil), rows...) }

func sameRows(a, b []mrow) bool {
	if len(a) != len(b) {
		return false
	}
	for i := range a {
		if a[i] != b[i] {
			return false
		}
	}
	return true
}

// plainRead: a SELECT without FOR UPDATE. "Once you load files, that data is
// cached until the termination of the transaction".
//
//	L  loaded from the file        C  cache, equal to the file
//	S  cache, file changed since   H  held copy      Hd held copy with own changes
func (m *model) plainRead(t int) ([]mrow, string) { return m.plainReadNH(t, false) }

var hdrRow = mrow{id: "id", v: "v"}

// view: the file as a table under the import attributes of its first load in the transaction ("A format specified
// function effects the first loading in a transaction. After the second loading, the specifications in the format
// specified function are ignored"; "The table attributes that were determined when loading will be used to updating").
func (m *model) view(t int, nh bool) []mrow {
	if nh {
		return append([]mrow{hdrRow}, m.F[t]...)
	}
	return clone(m.F[t])
}

// plainReadNH: nh = the statement asks for no_header; it only matters when the statement loads the table.
func (m *model) plainReadNH(t int, nh bool) ([]mrow, string) {
	c := m.C[t]
	switch {
	case c == nil:
		m.C[t] = &cacheT{rows: m.view(t, nh), nh: nh}
		return m.C[t].rows, "L"
	case c.fu && c.dirty:
		return c.rows, "Hd"
	case c.fu:
		return c.rows, "H"
	case sameRows(c.rows, m.view(t, c.nh)):
		return c.rows, "C"
	}
	return c.rows, "S"
}

// updAccess: a data-changing statement or SELECT ... FOR UPDATE reaches t.
// "when trying to update a file that has been loaded by a SELECT query, the
// file will be reloaded"; exclusive locks remain until the end of the transaction.
//
//	U  loaded for update   R  reloaded (file unchanged)   Rx reloaded (file changed meanwhile)   H  already held
func (m *model) updAccess(t int) string { return m.updAccessNH(t, false) }

func (m *model) updAccessNH(t int, nh bool) string {
	c := m.C[t]
	switch {
	case c == nil:
		m.C[t] = &cacheT{rows: m.view(t, nh), fu: true, nh: nh}
		return "U"
	case !c.fu:
		// the reload keeps the attributes of the first load
		changed := !sameRows(c.rows, m.view(t, c.nh))
		m.C[t] = &cacheT{rows: m.view(t, c.nh), fu: true, nh: c.nh}
		if changed {
			return "Rx"
		}
		return "R"
	}
	return "H"
}

func (m *model) held(t int) bool { return m.C[t] != nil && m.C[t].fu }

// blocked: A's access would have to go to the file (nothing cached, or an update access to a copy that is not
// held) while another transaction holds the table's exclusive lock: "exclusive locks remain until the termination
// of the transaction", readers use shared locks. The statement must fail with the lock wait timeout error and,
// by the property, leave what A has loaded as it was.
func (m *model) blocked(t int, fu bool) bool {
	return m.H2[t] != nil && (m.C[t] == nil || (fu && !m.C[t].fu))
}

func (m *model) b2Alive() bool {
	for _, h := range m.H2 {
		if h != nil {
			return true
		}
	}
	return false
}

// b2Release ends B2: COMMIT writes its changed tables.
func (m *model) b2Release(commit bool) (written []int) {
	for t, h := range m.H2 {
		if h != nil && commit && h.dirty {
			m.F[t] = clone(h.rows)
			written = append(written, t)
		}
		m.H2[t] = nil
	}
	return written
}

type acc struct {
	t  int
	fu bool
}

// accesses lists the tables a statement of A reaches and whether it needs them for update.
func accesses(s stepT) []acc {
	switch s.K {
	case "sel":
		return []acc{{s.T, false}}
	case "sfu", "ins", "upd", "del":
		return []acc{{s.T, true}}
	case "msel":
		return []acc{{s.T, s.FU}, {1 - s.T, s.FU}}
	case "upd2":
		return []acc{{s.T, true}, {1 - s.T, true}}
	case "insfrom":
		return []acc{{s.T, true}, {s.Src, false}}
	case "wsel":
		return []acc{{s.T, s.FU}}
	case "repl", "insself":
		return []acc{{s.T, true}}
	case "updsub", "delsub":
		return []acc{{s.T, true}, {1 - s.T, false}}
	}
	return nil
}

func (m *model) anyBlocked(s stepT) bool {
	for _, a := range accesses(s) {
		if a.t >= 0 && a.t < len(m.C) && m.blocked(a.t, a.fu) {
			return true
		}
	}
	return false
}

func (m *model) anyForeign(s stepT) bool {
	for _, a := range accesses(s) {
		if a.t >= 0 && a.t < len(m.C) && m.H2[a.t] != nil {
			return true
		}
	}
	return false
}

func (m *model) commit() (wrote bool) {
	for t, c := range m.C {
		if c != nil && c.fu && c.dirty {
			// a table loaded with no_header is written without a header line: its first record is the old header line
			rows := c.rows
			if c.nh && len(rows) > 0 && rows[0] == hdrRow {
				rows = rows[1:]
			}
			m.F[t] = clone(rows)
			wrote = true
		}
		m.C[t] = nil
	}
	return wrote
}

func (m *model) rollback() (dirty bool) {
	for t, c := range m.C {
		if c != nil && c.dirty {
			dirty = true
		}
		m.C[t] = nil
	}
	return dirty
}

func idOf(r mrow) int {
	n, err := strconv.Atoi(r.id)
	if err != nil {
		return -1 // the header line as a record
	}
	return n
}

func (m *model) nhCached(t int) bool { return m.C[t] != nil && m.C[t].nh }

// edit applies one simple change: ins appends a row, upd/del address the rows with the id, updall all rows.
func edit(rows []mrow, kind string, id int, v string, null bool) []mrow {
	if null {
		v = ""
	}
	out := make([]mrow, 0, len(rows)+1)
	switch kind {
	case "ins":
		out = append(out, rows...)
		out = append(out, mrow{id: strconv.Itoa(id), v: v, null: null})
	case "upd", "updall":
		for _, r := range rows {
			if kind == "updall" || (id >= 0 && idOf(r) == id) {
				r.v, r.null = v, null
			}
			out = append(out, r)
		}
	case "del":
		for _, r := range rows {
			if id < 0 || idOf(r) != id {
				out = append(out, r)
			}
		}
	}
	return out
}

const nullKey = "\x00NULL"

func key(cells ...string) string { return strings.Join(cells, "\x1f") }

func cellKey(r mrow) string {
	if r.null {
		return nullKey
	}
	return r.v
}

// multiExpected is the result of a two-table read over l and r (select-query.md: cross join / comma list =
// every combination; inner join = the combinations satisfying the condition; full outer join additionally keeps
// the unmatched rows of both sides with NULLs; UNION ALL = all rows of both; NOT IN subquery = a filter on l).
// The rows are rendered as strings; ordered tells whether the sequence (and not only the multiset) is fixed.
func multiExpected(j string, l, r []mrow) (rows []string, ordered bool) {
	switch j {
	case "comma", "cross":
		for _, a := range l {
			for _, b := range r {
				rows = append(rows, key(a.id, cellKey(a), b.id, cellKey(b)))
			}
		}
	case "inner", "full":
		matchedR := make([]bool, len(r))
		for _, a := range l {
			matched := false
			for k, b := range r {
				if idOf(a) == idOf(b) {
					rows = append(rows, key(a.id, cellKey(a), b.id, cellKey(b)))
					matched, matchedR[k] = true, true
				}
			}
			if !matched && j == "full" {
				rows = append(rows, key(a.id, cellKey(a), nullKey, nullKey))
			}
		}
		if j == "full" {
			for k, b := range r {
				if !matchedR[k] {
					rows = append(rows, key(nullKey, nullKey, b.id, cellKey(b)))
				}
			}
		}
	case "union":
		for _, a := range l {
			rows = append(rows, key(a.id, cellKey(a)))
		}
		for _, b := range r {
			rows = append(rows, key(b.id, cellKey(b)))
		}
	case "notin":
		for _, a := range l {
			in := false
			for _, b := range r {
				if idOf(a) == idOf(b) {
					in = true
				}
			}
			if !in {
				rows = append(rows, key(a.id, cellKey(a)))
			}
		}
		return rows, true
	}
	sort.Strings(rows)
	return rows, false
}

// mselSQL is the two-table read without its FOR UPDATE / semicolon ending ("" for an unknown form).
func mselSQL(j, lref, rref string) string {
	const cols = "SELECT a.id AS aid, a.v AS av, b.id AS bid, b.v AS bv"
	switch j {
	case "comma":
		return fmt.Sprintf(cols+" FROM %s a, %s b", lref, rref)
	case "cross":
		return fmt.Sprintf(cols+" FROM %s a CROSS JOIN %s b", lref, rref)
	case "inner":
		return fmt.Sprintf(cols+" FROM %s a JOIN %s b ON a.id = b.id", lref, rref)
	case "full":
		return fmt.Sprintf(cols+" FROM %s a FULL OUTER JOIN %s b ON a.id = b.id", lref, rref)
	case "union":
		return fmt.Sprintf("SELECT id, v FROM %s UNION ALL SELECT id, v FROM %s", lref, rref)
	case "notin":
		return fmt.Sprintf("SELECT id, v FROM %s WHERE id NOT IN (SELECT id FROM %s)", lref, rref)
	}
	return ""
}

// rowsAfter: what the table's copy will be after a plain (fu false) or for-update access.
func (m *model) rowsAfter(t int, fu bool) []mrow {
	if m.C[t] != nil && (m.C[t].fu || !fu) {
		return m.C[t].rows
	}
	return m.F[t]
}

// needsBoth: the forms whose result cannot be produced without loading both tables. A cross / inner join with an
// empty side, or a subquery in the WHERE clause of an empty table, could be answered without looking at the other
// table; whether that table counts as loaded is then not determined by the manual, so these shapes are left out.
func needsBoth(j string, l, r []mrow) bool {
	switch j {
	case "comma", "cross", "inner":
		return len(l) > 0 && len(r) > 0
	case "notin":
		return len(l) > 0
	}
	return true
}

// showKeys renders multi-table result rows for messages.
func showKeys(rows []string) string {
	out := make([]string, len(rows))
	for i, r := range rows {
		out[i] = "(" + strings.ReplaceAll(strings.ReplaceAll(r, nullKey, "NULL"), "\x1f", ",") + ")"
	}
	return "[" + strings.Join(out, " ") + "]"
}

func countID(rows []mrow, id int) int {
	n := 0
	for _, r := range rows {
		if idOf(r) == id {
			n++
		}
	}
	return n
}

// ---------------------------------------------------------------------
// generator (steered by the same pure model so that the interesting rules are frequent)

var kinds = []string{"sel", "sfu", "dml", "insfrom", "commit", "rollback", "b", "msel", "upd2", "hold", "release", "wsel", "repl", "insself", "updsub", "delsub"}

// how a wrapped read reaches its single table: FROM-subquery, common table expression, temporary view declared from
// the table, aggregate over the table, user-defined function that reads the table, self join of two spellings
var wrapForms = []string{"subq", "cte", "tview", "agg", "udf", "self", "cursor", "prep", "exec", "var", "exists"}

var formatsAll = []string{"", "tsv", "ltsv", "json", "jsonl"}

// genOpt selects the generator variant.
type genOpt struct {
	bproc    bool // B steps run as real processes
	aimShape bool // make "A's update access to a table it has cached read-only while B2 holds it" frequent
	aproc    bool // transaction A will run as one csvq process: no long-lived second transaction, no no_header spellings, statements wrapped in control flow
	forms    bool // further statement forms (wrapped reads, REPLACE, DML with subqueries, INSERT..SELECT from the target), file formats, tables beyond the goroutine split
}

// subsetEdit: UPDATE/DELETE ... WHERE id [NOT] IN (SELECT id FROM other)
func subsetEdit(rows, other []mrow, del, neg bool, v string) []mrow {
	ids := map[int]bool{}
	for _, r := range other {
		ids[idOf(r)] = true
	}
	out := make([]mrow, 0, len(rows))
	for _, r := range rows {
		hit := ids[idOf(r)] != neg
		switch {
		case hit && del:
			continue
		case hit:
			r.v, r.null = v, false
		}
		out = append(out, r)
	}
	return out
}

// A failed update access (lock wait timeout because another transaction holds the table) to a table A has cached
// from a plain SELECT drops A's cached copy (cacheViewFromFile disposes the cached view before it tries to take the
// lock), so A's next plain read re-reads the file. The main histories keep away from exactly that shape so that the
// search goes on; the check "failed_update_access" generates it on purpose.
const avoidFailedUpdateAccessOnCachedTable = false

var sfuForms = []int{0, 1, 2, 5}

var joinForms = []string{"comma", "cross", "inner", "full", "union", "notin"}

func genCase(t *rapid.T) histCase { return genHist(t, genOpt{}) }

func genCaseProc(t *rapid.T) histCase { return genHist(t, genOpt{bproc: true}) }

func genCaseFailedUpdate(t *rapid.T) histCase { return genHist(t, genOpt{aimShape: true}) }

func genCaseForms(t *rapid.T) histCase { return genHist(t, genOpt{forms: true}) }

func genHist(t *rapid.T, opt genOpt) histCase {
	bproc, aimShape := opt.bproc, opt.aimShape
	c := histCase{BProc: bproc}
	minRows := 0
	if opt.forms {
		c.Fmt = formatsAll[fw.Uniform(t, "format", len(formatsAll))]
		if fw.Pct(t, "big", 10) {
			c.Pad = fw.Range(t, "pad", 165, 400)
			c.CPU = fw.Range(t, "cpu", 2, 4)
		}
		if headerless(c.Fmt) && c.Pad == 0 {
			minRows = 1
		}
	}
	// a table of a format without header line must keep a record
	wouldEmpty := func(rows []mrow) bool { return headerless(c.Fmt) && len(rows) == 0 }
	nt := 1
	if fw.Pct(t, "two_tables", 50) {
		nt = 2
	}
	nextID := 1
	for i := 0; i < nt; i++ {
		n := fw.Range(t, "nrows", minRows, 4)
		rows := []rowT{}
		for k := 0; k < n; k++ {
			r := rowT{ID: nextID, V: fmt.Sprintf("i%d", nextID)}
			if fw.Pct(t, "nullcell", 12) {
				r.V, r.Null = "", true
			}
			nextID++
			rows = append(rows, r)
		}
		c.Tables = append(c.Tables, rows)
	}
	m := newModelCase(c)
	readInTxn := make([]bool, nt)
	aim := func(label string, rows ...[]mrow) int {
		var ids []int
		for _, rs := range rows {
			for _, r := range rs {
				if idOf(r) >= 0 {
					ids = append(ids, idOf(r))
				}
			}
		}
		if len(ids) > 0 && fw.Pct(t, label+"_hit", 88) {
			return ids[fw.Uniform(t, label, len(ids))]
		}
		return fw.Range(t, label+"_any", 1, 30)
	}
	// every statement spells its tables anew: half of them through one of the redundant spellings of the path
	respell := func(s *stepT) {
		switch s.K {
		case "commit", "rollback", "release":
			return
		case "b", "hold":
			s.Form = fw.Uniform(t, "other_form", 3)
		}
		if fw.Pct(t, "respell", 50) {
			s.Form = s.Form%10 + 10*fw.Range(t, "spelling", 1, spellings-1)
		}
	}
	endFollow := -1 // the table whose transaction end was generated on purpose right after a foreign commit
	nsteps := fw.Range(t, "nsteps", 4, 20)
	follow := -1 // a table A has read in this transaction and B has just committed to
	probe := -1  // the second table of a multi-table SELECT FOR UPDATE that has just run
	for i := 0; i < nsteps; i++ {
		var s stepT
		allHeld, someHeld := true, false
		for k := 0; k < nt; k++ {
			if m.held(k) || m.H2[k] != nil {
				someHeld = true
			} else {
				allHeld = false
			}
		}
		shapeT := -1 // a table A has cached from a plain SELECT and B2 holds
		for k := 0; k < nt; k++ {
			if m.H2[k] != nil && m.C[k] != nil && !m.C[k].fu {
				shapeT = k
			}
		}
		avoidShape := avoidFailedUpdateAccessOnCachedTable && !aimShape
		attrT := -1 // a table A has cached from a plain SELECT with no_header, nobody else holding it
		for k := 0; k < nt; k++ {
			if m.nhCached(k) && !m.C[k].fu && m.H2[k] == nil {
				attrT = k
			}
		}
		kind := ""
		if attrT >= 0 && fw.Pct(t, "attr_upgrade", 45) {
			// the first data-changing access re-reads the file: with the attributes of the first load?
			kind = []string{"dml", "dml", "sfu"}[fw.Uniform(t, "attr_kind", 3)]
			s.T = attrT
		} else if shapeT >= 0 && !avoidShape && ((aimShape && fw.Pct(t, "shape", 70)) || (!aimShape && fw.Pct(t, "shape", 30))) {
			kind = []string{"dml", "dml", "sfu"}[fw.Uniform(t, "shape_kind", 3)]
			s.T = shapeT
		} else if probe >= 0 && fw.Pct(t, "probe", 40) {
			// does the second table of the multi-table FOR UPDATE keep other processes out? does A then change the held copy?
			kind = []string{"b", "b", "dml"}[fw.Uniform(t, "probe_kind", 3)]
			s.T = probe
		} else if follow >= 0 && !m.held(follow) && !m.b2Alive() && fw.Pct(t, "follow_end", 12) {
			// A only read the table, another process committed to it: A ends its transaction, the next read must show the current file
			kind = []string{"rollback", "rollback", "commit"}[fw.Uniform(t, "follow_end_kind", 3)]
			endFollow = follow
		} else if endFollow >= 0 {
			kind = []string{"sel", "sel", "sfu", "dml"}[fw.Uniform(t, "after_end_kind", 4)]
			s.T = endFollow
			endFollow = -1
		} else if follow >= 0 && fw.Pct(t, "follow", 55) {
			kind = []string{"sel", "sel", "sel", "sfu", "dml", "msel"}[fw.Uniform(t, "follow_kind", 6)]
			if kind == "msel" && nt < 2 {
				kind = "sel"
			}
			s.T = follow
			if kind == "msel" && fw.Pct(t, "follow_second", 50) {
				s.T = 1 - follow
			}
			if opt.forms && kind == "sel" && fw.Pct(t, "follow_wrapped", 45) {
				kind = "wsel"
			}
			if opt.forms && nt == 2 && kind == "dml" && fw.Pct(t, "follow_subquery", 50) {
				// the table B has just committed to is the subquery's table
				kind = []string{"updsub", "delsub"}[fw.Uniform(t, "follow_sub_kind", 2)]
				s.T = 1 - follow
			}
		} else {
			wb := 32
			if allHeld {
				wb = 6
			}
			wins := 0
			if nt == 2 {
				wins = 5
			}
			wms, wu2 := 0, 0
			if nt == 2 {
				wms, wu2 = 14, 3
			}
			whold, wrel := 6, 0
			if aimShape {
				whold = 16
			}
			if opt.aproc {
				whold = 0
			}
			if m.b2Alive() {
				whold, wrel = 2, 14
			}
			wws, wrp, wis, wsub := 0, 0, 0, 0
			if opt.forms {
				wws, wrp, wis = 22, 6, 3
				if nt == 2 {
					wsub = 5
				}
			}
			kind = kinds[fw.Weighted(t, "kind", []int{30, 6, 15, wins, 6, 5, wb, wms, wu2, whold, wrel, wws, wrp, wis, wsub, wsub})]
			s.T = fw.Uniform(t, "table", nt)
			if kind == "b" && nt == 2 && someHeld && !allHeld && fw.Pct(t, "b_free_table", 75) {
				if m.held(s.T) || m.H2[s.T] != nil {
					s.T = 1 - s.T
				}
			}
			if kind == "hold" && nt == 2 && fw.Pct(t, "hold_cached", 60) {
				// prefer a table A has cached from a plain SELECT
				for k := 0; k < nt; k++ {
					if m.C[k] != nil && !m.C[k].fu {
						s.T = k
					}
				}
			}
		}
		prevFollow := follow
		follow, probe = -1, -1
		// keep the expected lock wait timeouts (50 ms each) at a moderate share
		if kind == "hold" && m.held(s.T) && fw.Pct(t, "hold_free", 85) {
			if nt == 2 && !m.held(1-s.T) {
				s.T = 1 - s.T
			} else {
				kind = "sel"
			}
		}
		if (kind == "sel" || kind == "sfu" || kind == "dml") && m.C[s.T] == nil && m.H2[s.T] != nil && fw.Pct(t, "skip_blocked", 65) {
			if nt == 2 && m.H2[1-s.T] == nil {
				s.T = 1 - s.T
			} else {
				kind = "release"
			}
		}
		// while another transaction B2 holds tables, A's multi-table statements are left out (a statement that gets one
		// table and fails on the other has no determined effect on the first)
		if (kind == "msel" || kind == "upd2" || kind == "insfrom") && m.b2Alive() {
			kind = "sel"
		}
		// tables loaded with no_header have other column names: the two-table statements keep away from them
		if (kind == "msel" || kind == "upd2" || kind == "insfrom") && (m.nhCached(0) || m.nhCached(1)) {
			kind = "sel"
		}
		// the further forms: the same two restrictions
		switch kind {
		case "wsel", "updsub", "delsub":
			if m.b2Alive() || m.nhCached(0) || (nt == 2 && m.nhCached(1)) {
				kind = "sel"
			}
		case "repl", "insself":
			if m.b2Alive() || m.nhCached(s.T) {
				kind = "dml"
			}
		}
		if c.Pad > 0 && kind == "insfrom" {
			kind = "sel" // keeps the big tables from doubling
		}
		if kind == "sel" || kind == "sfu" || kind == "dml" {
			fu := kind != "sel"
			if fu && avoidShape && m.blocked(s.T, true) && m.C[s.T] != nil {
				kind, fu = "sel", false
			}
			if m.blocked(s.T, fu) {
				// A's statement must fail with the lock wait timeout; nothing changes
				switch kind {
				case "sel":
					s.K, s.Form = "sel", fw.Uniform(t, "form", 7)
				case "sfu":
					s.K, s.Form = "sfu", sfuForms[fw.Uniform(t, "form", len(sfuForms))]
				default:
					s.K = []string{"ins", "upd", "del"}[fw.Weighted(t, "dml", []int{35, 45, 20})]
					s.Form = fw.Uniform(t, "form", 3)
					if s.K == "ins" {
						s.ID = nextID
						nextID++
					} else {
						s.ID = aim("a_id", m.rowsAfter(s.T, false))
					}
				}
				if fu && m.C[s.T] != nil {
					follow = s.T // does A still see its snapshot?
				} else {
					follow = prevFollow
				}
				respell(&s)
				c.Steps = append(c.Steps, s)
				continue
			}
		}
		switch kind {
		case "hold":
			s.K = "hold"
			s.BK = []string{"sfu", "upd", "ins"}[fw.Weighted(t, "hold_kind", []int{30, 45, 25})]
			cur := m.F[s.T]
			if m.H2[s.T] != nil {
				cur = m.H2[s.T].rows
			}
			switch s.BK {
			case "ins":
				s.ID = nextID
				nextID++
			case "upd":
				s.ID = aim("h_id", cur)
			}
			if !m.held(s.T) {
				if m.H2[s.T] == nil {
					m.H2[s.T] = &cacheT{rows: clone(m.F[s.T]), fu: true}
				}
				if s.BK != "sfu" {
					m.H2[s.T].rows = edit(m.H2[s.T].rows, s.BK, s.ID, "z", false)
					m.H2[s.T].dirty = true
				}
			}
		case "release":
			s = stepT{K: "release", BK: []string{"commit", "rollback"}[fw.Weighted(t, "release_kind", []int{65, 35})]}
			for _, k := range m.b2Release(s.BK == "commit") {
				if readInTxn[k] {
					follow = k
				}
			}
		case "msel":
			s.K = "msel"
			s.J = joinForms[fw.Weighted(t, "join", []int{20, 15, 15, 20, 15, 15})]
			if c.Pad > 0 && (s.J == "comma" || s.J == "cross") {
				s.J = "inner" // every combination of two big tables is only big
			}
			s.FU = s.J != "notin" && fw.Pct(t, "msel_for_update", 40)
			if !needsBoth(s.J, m.rowsAfter(s.T, s.FU), m.rowsAfter(1-s.T, s.FU)) {
				s.J = []string{"full", "union"}[fw.Uniform(t, "join_both", 2)]
			}
			s.Form = fw.Uniform(t, "form", 3)
			for _, k := range []int{s.T, 1 - s.T} {
				if s.FU {
					m.updAccess(k)
				} else {
					m.plainRead(k)
				}
				readInTxn[k] = true
			}
			if s.FU {
				probe = 1 - s.T
			}
		case "upd2":
			rowsAfter := func(k int) []mrow { return m.rowsAfter(k, true) }
			s.ID = aim("a_id", rowsAfter(s.T))
			s.ID2 = aim("a_id2", rowsAfter(1-s.T))
			n1, n2 := countID(rowsAfter(s.T), s.ID), countID(rowsAfter(1-s.T), s.ID2)
			if n1 > 1 || n2 > 1 || len(rowsAfter(s.T)) == 0 || len(rowsAfter(1-s.T)) == 0 {
				// a record joined to several partners would be assigned twice (an error in csvq): outside this property;
				// an empty side: see needsBoth
				s = stepT{K: "sfu", T: s.T}
				m.updAccess(s.T)
				readInTxn[s.T] = true
				break
			}
			s.K = "upd2"
			s.Form = fw.Uniform(t, "form", 3)
			m.updAccess(s.T)
			m.updAccess(1 - s.T)
			if n1 == 1 && n2 == 1 {
				m.C[s.T].rows = edit(m.C[s.T].rows, "upd", s.ID, "x", false)
				m.C[1-s.T].rows = edit(m.C[1-s.T].rows, "upd", s.ID2, "x", false)
				m.C[s.T].dirty, m.C[1-s.T].dirty = true, true
			}
		case "sel":
			s.K = "sel"
			s.Form = fw.Uniform(t, "form", 7)
			if opt.aproc && s.Form >= 5 {
				s.Form -= 5
			}
			m.plainReadNH(s.T, asksNH(c.Fmt, s.Form))
			readInTxn[s.T] = true
		case "sfu":
			s.K = "sfu"
			s.Form = sfuForms[fw.Uniform(t, "form", len(sfuForms))]
			if opt.aproc && s.Form%10 == 5 {
				s.Form = 0
			}
			m.updAccessNH(s.T, asksNH(c.Fmt, s.Form) && s.Form%10 == 5)
			readInTxn[s.T] = true
		case "dml":
			s.K = []string{"ins", "upd", "del"}[fw.Weighted(t, "dml", []int{35, 45, 20})]
			s.Form = fw.Uniform(t, "form", 3)
			s.Null = s.K != "del" && fw.Pct(t, "nullval", 10)
			m.updAccess(s.T)
			if s.K == "ins" {
				s.ID = nextID
				nextID++
			} else {
				s.ID = aim("a_id", m.C[s.T].rows)
			}
			if s.K == "del" && wouldEmpty(edit(m.C[s.T].rows, s.K, s.ID, "x", s.Null)) {
				s.K = "upd"
			}
			m.C[s.T].rows = edit(m.C[s.T].rows, s.K, s.ID, "x", s.Null)
			m.C[s.T].dirty = true
		case "wsel":
			s.K = "wsel"
			s.W = wrapForms[fw.Weighted(t, "wrap", []int{14, 10, 10, 10, 10, 14, 8, 6, 6, 6, 6})]
			s.Form = fw.Uniform(t, "form", 3)
			s.FU = s.W == "self" && fw.Pct(t, "wsel_for_update", 40)
			if s.FU {
				m.updAccess(s.T)
			} else {
				m.plainRead(s.T)
			}
			readInTxn[s.T] = true
		case "repl":
			s.K = "repl"
			s.Form = fw.Uniform(t, "form", 3)
			m.updAccess(s.T)
			if fw.Pct(t, "repl_new", 35) {
				s.ID = nextID
				nextID++
			} else {
				s.ID = aim("a_id", m.C[s.T].rows)
			}
			switch countID(m.C[s.T].rows, s.ID) {
			case 0:
				m.C[s.T].rows = edit(m.C[s.T].rows, "ins", s.ID, "x", false)
			case 1:
				m.C[s.T].rows = edit(m.C[s.T].rows, "upd", s.ID, "x", false)
			default:
				// a key that several records carry: which of them REPLACE addresses belongs to C05
				s.K = "upd"
				m.C[s.T].rows = edit(m.C[s.T].rows, "upd", s.ID, "x", false)
			}
			m.C[s.T].dirty = true
		case "insself":
			m.updAccess(s.T)
			if len(m.C[s.T].rows) > 500 {
				s = stepT{K: "sfu", T: s.T}
				readInTxn[s.T] = true
				break
			}
			s.K = "insself"
			s.Form = fw.Uniform(t, "form", 3)
			m.C[s.T].rows = append(clone(m.C[s.T].rows), m.C[s.T].rows...)
			m.C[s.T].dirty = true
		case "updsub", "delsub":
			m.updAccess(s.T)
			if len(m.C[s.T].rows) == 0 {
				// the WHERE clause is evaluated for no record: whether the other table counts as loaded is open (see needsBoth)
				s = stepT{K: "sfu", T: s.T}
				readInTxn[s.T] = true
				break
			}
			s.K = kind
			s.Form = fw.Uniform(t, "form", 3)
			s.Neg = fw.Pct(t, "sub_not_in", 50)
			other, _ := m.plainRead(1 - s.T)
			if s.K == "delsub" && wouldEmpty(subsetEdit(m.C[s.T].rows, other, true, s.Neg, "x")) {
				s.K = "updsub"
			}
			m.C[s.T].rows = subsetEdit(m.C[s.T].rows, other, s.K == "delsub", s.Neg, "x")
			m.C[s.T].dirty = true
			readInTxn[1-s.T] = true
		case "insfrom":
			s.K = "insfrom"
			s.Src = 1 - s.T
			m.updAccess(s.T)
			src, _ := m.plainRead(s.Src)
			m.C[s.T].rows = append(m.C[s.T].rows, src...)
			m.C[s.T].dirty = true
		case "commit":
			s = stepT{K: "commit"}
			m.commit()
			readInTxn = make([]bool, nt)
		case "rollback":
			s = stepT{K: "rollback"}
			m.rollback()
			readInTxn = make([]bool, nt)
		case "b":
			s.K = "b"
			s.BK = []string{"upd", "ins", "del", "updall"}[fw.Weighted(t, "bk", []int{45, 30, 15, 10})]
			s.Null = (s.BK == "upd" || s.BK == "ins") && fw.Pct(t, "b_nullval", 8)
			switch s.BK {
			case "ins":
				s.ID = nextID
				nextID++
			case "upd", "del":
				s.ID = aim("b_id", m.F[s.T])
			}
			if s.BK == "del" && wouldEmpty(edit(m.F[s.T], s.BK, s.ID, "y", s.Null)) {
				s.BK = "upd"
			}
			if !m.held(s.T) && m.H2[s.T] == nil {
				m.F[s.T] = edit(m.F[s.T], s.BK, s.ID, "y", s.Null)
				if readInTxn[s.T] {
					follow = s.T
				}
			}
		}
		if opt.aproc && s.K != "b" && fw.Pct(t, "wrap", 35) {
			s.Wrap = []string{"if", "while"}[fw.Uniform(t, "wrap_kind", 2)]
		}
		respell(&s)
		c.Steps = append(c.Steps, s)
	}
	return c
}

// ---------------------------------------------------------------------
// execution

var caseSeq int64

const (
	bWait      = 50 * time.Millisecond // B's lock wait: B is expected to time out exactly when A holds the table
	bWaitRetry = 30 * time.Second      // second attempt when the model says B must succeed
	lockTO     = "E8/90082"            // ReturnCodeContextDone / ErrorFileLockTimeout
)

func tableName(t int) string { return fmt.Sprintf("t%d", t+1) }

// ext is the file extension of the case's table format ("" = csv).
func ext(fm string) string {
	if fm == "" {
		return "csv"
	}
	return fm
}

// headerless: formats whose files carry the column names only inside the records; a table without records has no
// columns there, so such tables never become empty in a case.
func headerless(fm string) bool { return fm == "ltsv" || fm == "json" || fm == "jsonl" }

// asksNH: the spelling asks for the import attribute no_header (only varied on CSV files).
func asksNH(fm string, form int) bool { return fm == "" && form%10 >= 5 }

// A step's Form is <spelling>*10 + <base form>. Base forms: 0 bare name, 1 file name, 2 absolute path; SELECT only:
// 3 bare name with an alias, 4 format specified function, 5 the same with no_header, 6 bare name under SET @@NO_HEADER.
// Spellings of the path inside any of them (the same FILE each time, so the same entry of the transaction's cache):
// 0 as the base form says, 1 ./p, 2 sub/../p, 3 <dir>/p, 4 <dir>//p, 5 <dir>/./p, 6 <dir>/sub/../p, where p carries the
// extension in the base forms 1, 2, 4, 5 and not in 0, 3, 6 (the case directory holds an empty directory sub).
const spellings = 7

func pathSpelling(dir, p string, sp int) string {
	switch sp {
	case 1:
		return "./" + p
	case 2:
		return "sub/../" + p
	case 3:
		return dir + "/" + p
	case 4:
		return dir + "//" + p
	case 5:
		return dir + "/./" + p
	case 6:
		return dir + "/sub/../" + p
	}
	return p
}

// dmlForm: the data-changing statements use the base forms 0-2 (shift picks another one for a second table), keeping the spelling.
// A second table of the same statement (shift 1) also gets another spelling.
func dmlForm(form, shift int) int {
	return (form%10+shift)%3 + (form/10+3*shift)%spellings*10
}

func tableRef(fm, dir string, t, form int) string {
	sp := form / 10 % spellings
	form %= 10
	file := tableName(t) + "." + ext(fm)
	if fm != "" && form >= 5 {
		form -= 2 // 5 -> 3 (alias), 6 -> 4 (format specified function): no_header is a dimension of the CSV cases
	}
	name := tableName(t)
	if sp > 0 {
		name = "`" + pathSpelling(dir, tableName(t), sp) + "`"
	}
	fileRef := "`" + pathSpelling(dir, file, sp) + "`"
	switch form {
	case 1:
		return fileRef
	case 2:
		if sp == 0 {
			return "`" + filepath.Join(dir, file) + "`"
		}
		return fileRef
	case 3:
		return name + " x"
	case 4:
		switch fm {
		case "tsv":
			return "CSV('\\t', " + fileRef + ")"
		case "ltsv":
			return "LTSV(" + fileRef + ")"
		case "json":
			return "JSON('', " + fileRef + ")"
		case "jsonl":
			return "JSONL('', " + fileRef + ")"
		}
		return "CSV(',', " + fileRef + ")"
	case 5:
		return "CSV(',', " + fileRef + ", 'UTF8', TRUE)" // no_header
	}
	return name
}

func render(rows []mrow) string {
	var b strings.Builder
	b.WriteString("[")
	for i, r := range rows {
		if i > 0 {
			b.WriteString(" ")
		}
		if r.null {
			fmt.Fprintf(&b, "(%s,NULL)", r.id)
		} else {
			fmt.Fprintf(&b, "(%s,%q)", r.id, r.v)
		}
	}
	b.WriteString("]")
	return b.String()
}

// observed converts a result of "SELECT id, v": text + NULL-ness of every cell.
func observed(tb run.Tbl) ([]mrow, bool) {
	var out []mrow
	for _, r := range tb.Rows {
		if len(r) != 2 || r[0].IsNull() {
			return nil, false
		}
		out = append(out, mrow{id: r[0].S, v: r[1].S, null: r[1].IsNull()})
		if r[1].IsNull() {
			out[len(out)-1].v = ""
		}
	}
	return out, true
}

func sqlVal(tag string, null bool) string {
	if null {
		return "NULL"
	}
	return "'" + tag + "'"
}

func changeSQL(ref, kind string, id int, tag string, null bool) string {
	return changeSQLCols(ref, kind, id, tag, null, false)
}

// colNames: a table loaded with no_header has the automatic column names.
func colNames(nh bool) (string, string) {
	if nh {
		return "c1", "c2"
	}
	return "id", "v"
}

func changeSQLCols(ref, kind string, id int, tag string, null, nh bool) string {
	cid, cv := colNames(nh)
	switch kind {
	case "ins":
		return fmt.Sprintf("INSERT INTO %s (%s, %s) VALUES (%d, %s);", ref, cid, cv, id, sqlVal(tag, null))
	case "upd":
		return fmt.Sprintf("UPDATE %s SET %s = %s WHERE %s = %d;", ref, cv, sqlVal(tag, null), cid, id)
	case "updall":
		return fmt.Sprintf("UPDATE %s SET %s = %s;", ref, cv, sqlVal(tag, null))
	}
	return fmt.Sprintf("DELETE FROM %s WHERE %s = %d;", ref, cid, id)
}

// readSQL is A's single-table read; form 6 asks for no_header through the session flag (set back right after).
// sfuForm: SELECT FOR UPDATE spells the table as name, file name, absolute path or table object with no_header.
func sfuForm(form int) int {
	if form%10 == 5 {
		return form
	}
	return dmlForm(form, 0)
}

func readSQL(fm, dir string, t, form int, forUpdate bool) string {
	sql := "SELECT * FROM " + tableRef(fm, dir, t, form)
	if forUpdate {
		sql += " FOR UPDATE"
	}
	sql += ";"
	if form%10 == 6 && fm == "" {
		sql = "SET @@NO_HEADER TO TRUE; " + sql + " SET @@NO_HEADER TO FALSE;"
	}
	return sql
}

func fileText(fm string, rows []rowT) string {
	var b strings.Builder
	switch fm {
	case "tsv":
		b.WriteString("id\tv\n")
		for _, r := range rows {
			fmt.Fprintf(&b, "%d\t%s\n", r.ID, r.V)
		}
	case "ltsv":
		for _, r := range rows {
			fmt.Fprintf(&b, "id:%d\tv:%s\n", r.ID, r.V)
		}
	case "json", "jsonl":
		if fm == "json" {
			b.WriteString("[")
		}
		for i, r := range rows {
			v := strconv.Quote(r.V)
			if r.Null || r.V == "" {
				v = "null"
			}
			if fm == "json" && i > 0 {
				b.WriteString(",")
			}
			fmt.Fprintf(&b, "{\"id\":%d,\"v\":%s}", r.ID, v)
			if fm == "jsonl" {
				b.WriteString("\n")
			}
		}
		if fm == "json" {
			b.WriteString("]")
		}
	default:
		b.WriteString("id,v\n")
		for _, r := range rows {
			fmt.Fprintf(&b, "%d,%s\n", r.ID, r.V)
		}
	}
	return b.String()
}

type bOutcome struct {
	class string // "" success, otherwise error class
	msg   string
	hang  bool
}

// runB is one other process: change + COMMIT on its own session (or a real csvq process), then it ends.
func runB(c histCase, dir, sql string, wait, procLimit time.Duration) bOutcome {
	if !c.BProc {
		s, err := run.NewSess(run.Opt{Dir: dir, WaitTimeout: wait})
		if err != nil {
			return bOutcome{class: "harness", msg: err.Error()}
		}
		defer s.Close()
		r := s.Exec(sql)
		if r.Err != nil {
			return bOutcome{class: run.ErrClass(r.Err), msg: r.Err.Error()}
		}
		return bOutcome{}
	}
	bin, err := csvqBinary()
	if err != nil {
		return bOutcome{class: "harness", msg: err.Error()}
	}
	home := filepath.Join(fw.WorkDir(), "clihome")
	_ = os.MkdirAll(home, 0755)
	res := run.CLI(run.CLIOpt{Bin: bin, Dir: dir, Home: home, Timeout: procLimit + wait,
		Args: []string{"--wait-timeout", strconv.FormatFloat(wait.Seconds(), 'f', -1, 64), "-q", sql}})
	switch {
	case res.TimedOut:
		return bOutcome{class: "hang", hang: true, msg: "process did not end"}
	case res.Code == 0:
		return bOutcome{}
	case res.Code == 8 && strings.Contains(res.Stderr, "lock wait timeout period exceeded"):
		return bOutcome{class: lockTO, msg: strings.TrimSpace(res.Stderr)}
	case res.Code == 8:
		return bOutcome{class: "E8/other", msg: strings.TrimSpace(res.Stderr)}
	}
	return bOutcome{class: fmt.Sprintf("exit%d", res.Code), msg: strings.TrimSpace(res.Stderr)}
}

var (
	binOnce sync.Once
	binPath string
	binErr  error
)

// csvqBinary returns the csvq binary built from the tree under test with -tags verif: the driver's
// (VERIF_CSVQ_BIN) when it provides one, otherwise one build shared by all shards of this run. fw.Main
// has replaced HOME by a private directory, so the build gets the real home back (module and build cache).
func csvqBinary() (string, error) {
	binOnce.Do(func() {
		if p := os.Getenv("VERIF_CSVQ_BIN"); p != "" {
			binPath = p
			return
		}
		shared := os.Getenv("VERIF_WORK")
		if shared == "" {
			shared = fw.WorkDir()
		}
		final := filepath.Join(shared, "c20-csvq")
		failed := final + ".failed"
		exists := func(p string) bool { _, err := os.Stat(p); return err == nil }
		binPath = final
		if exists(final) {
			return
		}
		lf, err := os.OpenFile(final+".building", os.O_CREATE|os.O_EXCL|os.O_WRONLY, 0644)
		if err != nil {
			// another shard builds it
			for i := 0; i < 9000; i++ {
				if exists(final) {
					return
				}
				if exists(failed) {
					b, _ := os.ReadFile(failed)
					binErr = fmt.Errorf("build csvq (other shard): %s", b)
					return
				}
				time.Sleep(100 * time.Millisecond)
			}
			binErr = fmt.Errorf("build csvq: the shard building %s did not finish", final)
			return
		}
		_ = lf.Close()
		var env []string
		for _, kv := range os.Environ() {
			if strings.HasPrefix(kv, "HOME=") || strings.HasPrefix(kv, "XDG_CONFIG_HOME=") {
				continue
			}
			env = append(env, kv)
		}
		home := "/root"
		if u, err := user.Current(); err == nil && u.HomeDir != "" {
			home = u.HomeDir
		}
		env = append(env, "HOME="+home, "GOFLAGS=-mod=mod", "GOPROXY=off", "GOSUMDB=off", "GOTOOLCHAIN=local")
		tmp := final + ".tmp"
		cmd := exec.Command("go", "build", "-tags", "verif", "-o", tmp, ".")
		cmd.Dir = run.RepoDir()
		cmd.Env = env
		out, err := cmd.CombinedOutput()
		if err == nil {
			err = os.Rename(tmp, final)
		}
		if err != nil {
			binErr = fmt.Errorf("build csvq: %v: %s", err, out)
			_ = os.WriteFile(failed, []byte(binErr.Error()), 0644)
		}
	})
	return binPath, binErr
}

func readFiles(fm, dir string, n int) []string {
	out := make([]string, n)
	for t := 0; t < n; t++ {
		b, err := os.ReadFile(filepath.Join(dir, tableName(t)+"."+ext(fm)))
		if err != nil {
			out[t] = "<" + err.Error() + ">"
		} else {
			out[t] = string(b)
		}
	}
	return out
}

// checkHist: a process B that does not end within the watchdog limit only counts when the whole case,
// re-run at once from scratch with a four times longer limit, shows it again.
func checkHist(c histCase) (fw.Outcome, *fw.Violation) {
	o, v := checkHistLimit(c, 120*time.Second)
	if v != nil && v.Sig == "b_process_hang" {
		fw.AddExtra("watchdog_retries", 1)
		return checkHistLimit(c, 480*time.Second)
	}
	return o, v
}

func checkHistLimit(c histCase, procLimit time.Duration) (fw.Outcome, *fw.Violation) {
	nt := len(c.Tables)
	o := fw.Outcome{Classes: []string{fmt.Sprintf("tables=%d", nt)}}
	if nt < 1 || nt > 2 {
		o.Discard = true
		return o, nil
	}
	class := func(s string) { o.Classes = append(o.Classes, s) }

	dir := filepath.Join(fw.WorkDir(), fmt.Sprintf("c20-%d", atomic.AddInt64(&caseSeq, 1)))
	_ = os.RemoveAll(dir)
	if err := os.MkdirAll(filepath.Join(dir, "sub"), 0755); err != nil { // sub: for the spellings sub/../<table>
		return o, fw.Harness("mkdir: %v", err)
	}
	defer os.RemoveAll(dir)
	files := map[string]string{}
	for t, rows := range c.Tables {
		files[tableName(t)+"."+ext(c.Fmt)] = fileText(c.Fmt, append(append([]rowT{}, rows...), padRows(t, c.Pad)...))
	}
	if err := run.WriteFiles(dir, files); err != nil {
		return o, fw.Harness("write tables: %v", err)
	}

	a, err := run.NewSess(run.Opt{Dir: dir, CPU: c.CPU})
	if err != nil {
		return o, fw.Harness("session: %v", err)
	}
	defer a.Close()

	m := newModelCase(c)
	var trace []string
	tail := func() string {
		tr := trace
		if len(tr) > 24 {
			tr = tr[len(tr)-24:]
		}
		return "\n    " + strings.Join(tr, "\n    ")
	}
	var toks []string
	tok := func(s string) {
		if len(toks) == 0 || toks[len(toks)-1] != s {
			toks = append(toks, s)
		}
	}
	// B2: the long-lived other transaction (always an in-process session)
	var b2 *run.Sess
	defer func() {
		if b2 != nil {
			b2.Close()
		}
	}()
	// While B2 holds a table the statement reaches, A waits 50 ms for locks: B2 keeps its locks for as long as A
	// waits, so A either needs no lock (and succeeds at once) or times out whatever the limit is. A lock wait
	// timeout where the model expects success is judged on a second attempt with 2 s.
	foreign := false
	setWaitA := func(d time.Duration) { a.Tx.UpdateWaitTimeout(d.Seconds(), time.Millisecond) }
	execA := func(sql string) run.Res {
		if foreign {
			setWaitA(bWait)
		}
		r := a.Exec(sql)
		if foreign {
			if r.Err != nil && strings.HasPrefix(run.ErrClass(r.Err), "E8/") {
				fw.AddExtra("a_success_retries", 1)
				trace = append(trace, "A: "+sql+"   -> "+run.ErrClass(r.Err)+" "+r.Err.Error()+" (first attempt, 50 ms)")
				setWaitA(2 * time.Second)
				r = a.Exec(sql)
			}
			setWaitA(30 * time.Second)
		}
		line := "A: " + sql
		if r.Err != nil {
			line += "   -> " + run.ErrClass(r.Err) + " " + r.Err.Error()
		} else if len(r.Views) == 1 {
			if rows, ok := observed(r.Views[0]); ok {
				line += "   -> " + render(rows)
			} else {
				line += "   -> " + r.Views[0].String()
			}
		}
		trace = append(trace, line)
		return r
	}
	// after a statement that sets @@NO_HEADER for one read the flag is put back even when the read failed
	resetFlag := func(form int) {
		if form%10 == 6 {
			_ = a.Exec("SET @@NO_HEADER TO FALSE;")
		}
	}
	// the rule that explains the expected rows, for messages and signatures
	ruleText := map[string]string{
		"L":  "first load in this transaction: the current file",
		"C":  "cached copy (the file has not changed since)",
		"S":  "cached copy although another process committed meanwhile",
		"H":  "copy held for update",
		"Hd": "copy held for update plus the transaction's own changes",
		"U":  "loaded for update: the current file",
		"R":  "reloaded by the first update access after a plain SELECT (file unchanged)",
		"Rx": "reloaded by the first update access after a plain SELECT: the current file",
	}

	// a table of a format without header line must keep a record (an empty file has no columns)
	emptyHL := func(rows []mrow) bool { return headerless(c.Fmt) && len(rows) == 0 }
	for t := 0; t < nt; t++ {
		if emptyHL(m.F[t]) {
			o.Discard = true
			return o, nil
		}
	}
	if c.Fmt != "" {
		class("format=" + c.Fmt)
	}
	if c.Pad > 0 {
		class(fmt.Sprintf("big_tables:cpu=%d", c.CPU))
	}
	lastSp := make([]int, nt) // the spelling of A's last access to the table
	for t := range lastSp {
		lastSp[t] = -1
	}
	nontrivial := false
	readInTxn := make([]bool, nt)  // A has read the table in its current transaction
	bSinceRead := make([]bool, nt) // ... and a B commit to it succeeded afterwards
	prevSet := make([]bool, nt)    // A had the table cached in an earlier transaction and has not accessed it since
	prev := make([][]mrow, nt)     // ... that cached copy
	prevRO := make([]bool, nt)     // ... which A had only read (never held for update), and the transaction ended by ROLLBACK
	bUnloaded := make([]bool, nt)  // B committed to the table while A had it not loaded (but another one loaded)
	failedUpd := make([]bool, nt)  // an update access of A to its read-only cached copy timed out in this transaction
	noteRead := func(t int) {
		if readInTxn[t] && bSinceRead[t] {
			nontrivial = true
			class("nontrivial:B_commit_between_two_A_reads")
		}
		readInTxn[t], bSinceRead[t] = true, false
	}
	// classes of the attribute dimension: how a table loaded with no_header is accessed afterwards
	attrClass := func(what string, t int, asks bool, rule string) {
		nh := m.C[t] != nil && m.C[t].nh
		switch {
		case nh && (rule == "L" || rule == "U"):
			class("attr:loaded_with_no_header:" + what)
		case nh && (rule == "R" || rule == "Rx"):
			class("attr:no_header_table_reloaded_by_first_update_access:" + rule)
		case nh && !asks:
			class("attr:no_header_table_accessed_with_default_attributes:" + what)
		case !nh && asks:
			class("attr:header_table_accessed_with_no_header_ignored")
		}
	}
	compare := func(t int, got run.Res, want []mrow, rule, stmt string) *fw.Violation {
		if got.Err != nil {
			if failedUpd[t] && (rule == "C" || rule == "S") {
				return fw.V("cache_dropped_by_failed_update_access", "%s failed in transaction A (%s %v) although A has %s loaded: after A's update access to it timed out the table must still be served from A's copy %s%s", stmt, run.ErrClass(got.Err), got.Err, tableName(t), render(want), tail())
			}
			return fw.V("a_read_error", "%s failed in transaction A: %s %v%s", stmt, run.ErrClass(got.Err), got.Err, tail())
		}
		if len(got.Views) != 1 {
			return fw.V("a_read_shape", "%s returned %d results%s", stmt, len(got.Views), tail())
		}
		rows, ok := observed(got.Views[0])
		nh := m.C[t] != nil && m.C[t].nh
		c1, c2 := colNames(nh)
		namesOK := len(got.Views[0].Header) == 2 && got.Views[0].Header[0] == c1 && got.Views[0].Header[1] == c2
		if !namesOK || (nh && (!ok || !sameRows(rows, want))) {
			if rule != "L" && rule != "U" {
				return fw.V("table_shape_changed_in_transaction", "%s in transaction A returned columns %v rows %s; the table was first loaded in this transaction with no_header=%v: expected columns [%s %s] rows %s = %s%s", stmt, got.Views[0].Header, render(rows), nh, c1, c2, render(want), ruleText[rule], tail())
			}
			if !namesOK {
				return fw.V("load_attributes_not_applied", "%s in transaction A returned columns %v; expected [%s %s] (first load, no_header=%v)%s", stmt, got.Views[0].Header, c1, c2, nh, tail())
			}
		}
		if !ok {
			return fw.V("a_read_shape", "%s returned an unexpected shape: %s%s", stmt, got.Views[0].String(), tail())
		}
		if sameRows(rows, want) {
			return nil
		}
		sig := map[string]string{
			"L":  "first_read_not_current_file",
			"C":  "cached_read_changed",
			"S":  "cached_read_not_stable_after_foreign_commit",
			"H":  "held_read_changed",
			"Hd": "held_read_not_snapshot_plus_own_changes",
			"U":  "for_update_load_not_current_file",
			"R":  "reload_for_update_wrong",
			"Rx": "no_reload_on_first_update_access",
		}[rule]
		if prevSet[t] && (rule == "L" || rule == "U") {
			sig = "read_after_commit_or_rollback_not_current_file"
		}
		if failedUpd[t] && (rule == "C" || rule == "S") {
			sig = "cache_dropped_by_failed_update_access"
		}
		return fw.V(sig, "%s in transaction A returned %s; expected %s = %s (file now %s)%s", stmt, render(rows), render(want), ruleText[rule], render(m.F[t]), tail())
	}

	for i, s := range c.Steps {
		if s.T < 0 || s.T >= nt || (s.K == "insfrom" && (s.Src < 0 || s.Src >= nt || s.Src == s.T)) {
			o.Discard = true
			return o, nil
		}
		tn := strconv.Itoa(s.T + 1)
		atag, btag := fmt.Sprintf("a%d", i), fmt.Sprintf("b%d", i)
		foreign = m.anyForeign(s)
		if sp := s.Form / 10 % spellings; sp > 0 && s.K != "commit" && s.K != "rollback" && s.K != "release" {
			who := "A"
			if s.K == "b" || s.K == "hold" {
				who = "B"
			}
			class(who + ".spelling:" + []string{"", "./p", "sub/../p", "<dir>/p", "<dir>//p", "<dir>/./p", "<dir>/sub/../p"}[sp])
			// the same table under two different spellings within one transaction of A
			if who == "A" {
				for _, a := range accesses(s) {
					if a.t >= 0 && a.t < nt {
						if lastSp[a.t] >= 0 && lastSp[a.t] != sp && m.C[a.t] != nil {
							class("A.cached_table_reached_by_another_spelling")
						}
					}
				}
			}
		}
		if s.K != "b" && s.K != "hold" && s.K != "release" {
			for _, a := range accesses(s) {
				if a.t >= 0 && a.t < nt {
					lastSp[a.t] = s.Form / 10 % spellings
				}
			}
		}
		if (s.K == "msel" || s.K == "upd2" || s.K == "insfrom" || s.K == "wsel" || s.K == "repl" || s.K == "insself" || s.K == "updsub" || s.K == "delsub") && (m.nhCached(0) || (nt == 2 && m.nhCached(1))) {
			// a table loaded with no_header has other column names: not a shape of the two-table statements
			o.Discard = true
			return o, nil
		}
		if m.anyBlocked(s) {
			// another transaction holds a table this statement has to fetch from the file
			var stmt string
			switch s.K {
			case "sel":
				stmt = readSQL(c.Fmt, dir, s.T, s.Form, false)
			case "sfu":
				stmt = readSQL(c.Fmt, dir, s.T, sfuForm(s.Form), true)
			case "ins", "upd", "del":
				stmt = changeSQLCols(tableRef(c.Fmt, dir, s.T, dmlForm(s.Form, 0)), s.K, s.ID, atag, s.Null, m.nhCached(s.T))
			default:
				// a multi-table statement that gets one table and fails on the other: effect on the first not determined
				o.Discard = true
				return o, nil
			}
			setWaitA(bWait)
			r := a.Exec(stmt)
			cls := run.ErrClass(r.Err)
			if r.Err != nil && cls != lockTO && strings.HasPrefix(cls, "E8/") {
				fw.AddExtra("a_timeout_retries", 1)
				setWaitA(2 * time.Second)
				r = a.Exec(stmt)
				cls = run.ErrClass(r.Err)
			}
			setWaitA(30 * time.Second)
			if s.K == "sel" {
				resetFlag(s.Form)
			}
			if r.Err == nil {
				trace = append(trace, "A: "+stmt+"   -> succeeded")
				return o, fw.V("a_access_while_other_transaction_holds_table", "%s succeeded in transaction A while another transaction holds %s for update%s", stmt, tableName(s.T), tail())
			}
			trace = append(trace, "A: "+stmt+"   -> "+cls+" "+r.Err.Error())
			if cls != lockTO {
				return o, fw.V("a_blocked_wrong_error:"+cls, "%s failed with %s %v; the lock wait timeout error (%s) is expected while another transaction holds %s%s", stmt, cls, r.Err, lockTO, tableName(s.T), tail())
			}
			fw.AddExtra("a_lock_timeouts", 1)
			state := "nothing_cached"
			if m.C[s.T] != nil {
				state = "cached_read_only"
				if s.K != "sel" {
					failedUpd[s.T] = true
				}
			}
			kindName := s.K
			if s.K == "ins" || s.K == "upd" || s.K == "del" {
				kindName = "change"
			}
			class("A.blocked:" + kindName + ":" + state)
			tok("x" + s.K[:1] + state[:1] + tn)
			continue
		}
		switch s.K {
		case "sel":
			stmt := readSQL(c.Fmt, dir, s.T, s.Form, false)
			want, rule := m.plainReadNH(s.T, asksNH(c.Fmt, s.Form))
			r := execA(stmt)
			resetFlag(s.Form)
			if v := compare(s.T, r, want, rule, stmt); v != nil {
				return o, v
			}
			class("A.select:" + rule)
			attrClass("select", s.T, asksNH(c.Fmt, s.Form), rule)
			if rule == "L" && prevSet[s.T] && !sameRows(prev[s.T], want) {
				class("A.select:after_end_sees_current_file_not_old_cache")
				if prevRO[s.T] {
					class("A.select:after_rollback_of_only_read_table_sees_current_file")
				}
			}
			if rule == "L" && bUnloaded[s.T] {
				class("two_table:B_commit_to_unloaded_table_then_A_reads_it")
			}
			prevSet[s.T], bUnloaded[s.T] = false, false
			noteRead(s.T)
			tok("s" + rule + tn)

		case "sfu":
			stmt := readSQL(c.Fmt, dir, s.T, sfuForm(s.Form), true)
			rule := m.updAccessNH(s.T, asksNH(c.Fmt, s.Form) && s.Form%10 == 5)
			if rule == "H" && m.C[s.T].dirty {
				rule = "Hd"
			}
			want := m.C[s.T].rows
			r := execA(stmt)
			if v := compare(s.T, r, want, rule, stmt); v != nil {
				return o, v
			}
			class("A.select_for_update:" + rule)
			attrClass("select_for_update", s.T, asksNH(c.Fmt, s.Form) && s.Form%10 == 5, rule)
			failedUpd[s.T] = false
			if rule == "U" && prevSet[s.T] && !sameRows(prev[s.T], want) {
				class("A.select_for_update:after_end_sees_current_file_not_old_cache")
			}
			prevSet[s.T], bUnloaded[s.T] = false, false
			noteRead(s.T)
			tok("f" + rule + tn)

		case "msel":
			if nt != 2 || (s.J == "notin" && s.FU) {
				o.Discard = true
				return o, nil
			}
			l, r := s.T, 1-s.T
			lref, rref := tableRef(c.Fmt, dir, l, dmlForm(s.Form, 0)), tableRef(c.Fmt, dir, r, dmlForm(s.Form, 1))
			stmt := mselSQL(s.J, lref, rref)
			if stmt == "" {
				o.Discard = true
				return o, nil
			}
			if !needsBoth(s.J, m.rowsAfter(l, s.FU), m.rowsAfter(r, s.FU)) {
				o.Discard = true
				return o, nil
			}
			rules := make([]string, 2)
			for k, tb := range []int{l, r} {
				if s.FU {
					// FOR UPDATE takes the exclusive lock on every table the query loads
					rules[k] = m.updAccess(tb)
					if rules[k] == "H" && m.C[tb].dirty {
						rules[k] = "Hd"
					}
				} else {
					_, rules[k] = m.plainRead(tb)
				}
			}
			if s.FU {
				stmt += " FOR UPDATE"
			}
			stmt += ";"
			want, ordered := multiExpected(s.J, m.C[l].rows, m.C[r].rows)
			res := execA(stmt)
			mode := "plain"
			if s.FU {
				mode = "for_update"
			}
			if res.Err != nil {
				return o, fw.V("a_read_error", "%s failed in transaction A: %s %v%s", stmt, run.ErrClass(res.Err), res.Err, tail())
			}
			if len(res.Views) != 1 {
				return o, fw.V("a_read_shape", "%s returned %d results%s", stmt, len(res.Views), tail())
			}
			var got []string
			for _, rw := range res.Views[0].Rows {
				cells := make([]string, len(rw))
				for k, cv := range rw {
					cells[k] = cv.S
					if cv.IsNull() {
						cells[k] = nullKey
					}
				}
				got = append(got, key(cells...))
			}
			if !ordered {
				sort.Strings(got)
			}
			if strings.Join(got, "\n") != strings.Join(want, "\n") {
				sig := "multi_table_read:" + mode + ":" + rules[0] + "/" + rules[1]
				for k, tb := range []int{l, r} {
					if failedUpd[tb] && (rules[k] == "C" || rules[k] == "S") {
						sig = "cache_dropped_by_failed_update_access"
					}
				}
				return o, fw.V(sig, "%s in transaction A returned %s; expected %s from %s = %s (%s) and %s = %s (%s); files now %s, %s%s",
					stmt, showKeys(got), showKeys(want), tableName(l), render(m.C[l].rows), ruleText[rules[0]], tableName(r), render(m.C[r].rows), ruleText[rules[1]], render(m.F[l]), render(m.F[r]), tail())
			}
			class("A.multi_select:" + s.J + ":" + mode)
			class("A.multi_select:" + mode + ":second_table:" + rules[1])
			for _, tb := range []int{l, r} {
				prevSet[tb], bUnloaded[tb] = false, false
				noteRead(tb)
			}
			tok("m" + s.J[:2] + rules[0] + rules[1] + tn)

		case "upd2":
			if nt != 2 {
				o.Discard = true
				return o, nil
			}
			l, r := s.T, 1-s.T
			rl, rr := m.updAccess(l), m.updAccess(r)
			n1, n2 := countID(m.C[l].rows, s.ID), countID(m.C[r].rows, s.ID2)
			if n1 > 1 || n2 > 1 || len(m.C[l].rows) == 0 || len(m.C[r].rows) == 0 {
				// a record joined to several partners is assigned twice, which csvq refuses: outside this property;
				// an empty side: see needsBoth
				o.Discard = true
				return o, nil
			}
			stmt := fmt.Sprintf("UPDATE a, b SET a.v = '%s', b.v = '%s' FROM %s a, %s b WHERE a.id = %d AND b.id = %d;", atag, atag, tableRef(c.Fmt, dir, l, dmlForm(s.Form, 0)), tableRef(c.Fmt, dir, r, dmlForm(s.Form, 1)), s.ID, s.ID2)
			res := execA(stmt)
			if res.Err != nil {
				return o, fw.V("a_change_error", "%s failed in transaction A (no other process holds anything): %s %v%s", stmt, run.ErrClass(res.Err), res.Err, tail())
			}
			if n1 == 1 && n2 == 1 {
				m.C[l].rows = edit(m.C[l].rows, "upd", s.ID, atag, false)
				m.C[r].rows = edit(m.C[r].rows, "upd", s.ID2, atag, false)
				m.C[l].dirty, m.C[r].dirty = true, true
			}
			class("A.update_two_tables:first:" + rl)
			class("A.update_two_tables:second:" + rr)
			for _, tb := range []int{l, r} {
				prevSet[tb], bUnloaded[tb] = false, false
			}
			tok("u" + rl + rr + tn)

		case "wsel":
			if s.FU && s.W != "self" {
				o.Discard = true
				return o, nil
			}
			ref, ref2 := tableRef(c.Fmt, dir, s.T, dmlForm(s.Form, 0)), tableRef(c.Fmt, dir, s.T, dmlForm(s.Form, 1))
			const agg = "LISTAGG(id || '=' || COALESCE(v, '~'), ';')"
			var stmt string
			switch s.W {
			case "subq":
				stmt = "SELECT id, v FROM (SELECT * FROM " + ref + ") s;"
			case "cte":
				stmt = "WITH c AS (SELECT id, v FROM " + ref + ") SELECT id, v FROM c;"
			case "tview":
				stmt = fmt.Sprintf("DECLARE tv%d VIEW AS SELECT id, v FROM %s; SELECT id, v FROM tv%d;", i, ref, i)
			case "agg":
				stmt = "SELECT " + agg + " AS r FROM " + ref + ";"
			case "udf":
				stmt = fmt.Sprintf("DECLARE fn%d FUNCTION () AS BEGIN RETURN (SELECT %s FROM %s); END; SELECT fn%d() AS r;", i, agg, ref, i)
			case "self":
				stmt = "SELECT a.id, a.v FROM " + ref + " a JOIN " + ref2 + " b ON a.id = b.id"
				if s.FU {
					stmt += " FOR UPDATE"
				}
				stmt += ";"
			case "cursor":
				// the table is read when the cursor is opened; the records are fetched into a temporary table
				stmt = fmt.Sprintf("DECLARE cu%d CURSOR FOR SELECT id, v FROM %s; DECLARE cv%d VIEW (id, v); VAR @ci%d, @cw%d; OPEN cu%d; WHILE @ci%d, @cw%d IN cu%d DO INSERT INTO cv%d VALUES (@ci%d, @cw%d); END WHILE; CLOSE cu%d; SELECT id, v FROM cv%d;", i, ref, i, i, i, i, i, i, i, i, i, i, i, i)
			case "prep":
				stmt = fmt.Sprintf("PREPARE ps%d FROM 'SELECT id, v FROM %s WHERE id > ?'; EXECUTE ps%d USING -1;", i, ref, i)
			case "exec":
				stmt = "EXECUTE 'SELECT id, v FROM " + ref + ";';"
			case "var":
				stmt = fmt.Sprintf("VAR @wv%d := (SELECT %s FROM %s); SELECT @wv%d AS r;", i, agg, ref, i)
			case "exists":
				// a correlated subquery over another spelling of the same table, evaluated per record
				stmt = "SELECT a.id, a.v FROM " + ref + " a WHERE EXISTS (SELECT 1 FROM " + ref2 + " b WHERE b.id = a.id);"
			default:
				o.Discard = true
				return o, nil
			}
			var rule string
			var rows []mrow
			if s.FU {
				rule = m.updAccess(s.T)
				if rule == "H" && m.C[s.T].dirty {
					rule = "Hd"
				}
				rows = m.C[s.T].rows
			} else {
				rows, rule = m.plainRead(s.T)
			}
			// expected rows as strings; the aggregate and the join are compared as multisets
			var want []string
			ordered := true
			switch s.W {
			case "self":
				for _, x := range rows {
					for _, y := range rows {
						if idOf(x) == idOf(y) {
							want = append(want, key(x.id, cellKey(x)))
						}
					}
				}
				ordered = false
			default:
				for _, x := range rows {
					want = append(want, key(x.id, cellKey(x)))
				}
				ordered = s.W != "agg" && s.W != "udf" && s.W != "var"
			}
			res := execA(stmt)
			if res.Err != nil {
				return o, fw.V("a_read_error", "%s failed in transaction A: %s %v%s", stmt, run.ErrClass(res.Err), res.Err, tail())
			}
			if len(res.Views) != 1 {
				return o, fw.V("a_read_shape", "%s returned %d results%s", stmt, len(res.Views), tail())
			}
			var got []string
			if s.W == "agg" || s.W == "udf" || s.W == "var" {
				vw := res.Views[0]
				if len(vw.Rows) != 1 || len(vw.Rows[0]) != 1 {
					return o, fw.V("a_read_shape", "%s returned an unexpected shape: %s%s", stmt, vw.String(), tail())
				}
				if cell := vw.Rows[0][0]; !cell.IsNull() && cell.S != "" {
					for _, part := range strings.Split(cell.S, ";") {
						kv := strings.SplitN(part, "=", 2)
						if len(kv) != 2 {
							return o, fw.V("a_read_shape", "%s returned an unexpected list: %q%s", stmt, cell.S, tail())
						}
						if kv[1] == "~" {
							kv[1] = nullKey
						}
						got = append(got, key(kv[0], kv[1]))
					}
				}
			} else {
				for _, rw := range res.Views[0].Rows {
					cells := make([]string, len(rw))
					for k, cv := range rw {
						cells[k] = cv.S
						if cv.IsNull() {
							cells[k] = nullKey
						}
					}
					got = append(got, key(cells...))
				}
			}
			if !ordered {
				sort.Strings(got)
				sort.Strings(want)
			}
			if strings.Join(got, "\n") != strings.Join(want, "\n") {
				return o, fw.V("wrapped_read:"+s.W+":"+rule, "%s in transaction A returned %s; expected %s from %s = %s (%s); file now %s%s",
					stmt, showKeys(got), showKeys(want), tableName(s.T), render(rows), ruleText[rule], render(m.F[s.T]), tail())
			}
			mode := "plain"
			if s.FU {
				mode = "for_update"
			}
			class("A.wrapped_select:" + s.W + ":" + mode)
			class("A.wrapped_select:" + mode + ":" + rule)
			if s.FU {
				failedUpd[s.T] = false
			}
			prevSet[s.T], bUnloaded[s.T] = false, false
			noteRead(s.T)
			tok("w" + s.W[:3] + rule + tn)

		case "repl":
			rule := m.updAccess(s.T)
			n := countID(m.C[s.T].rows, s.ID)
			if n > 1 {
				// a key that several records carry: which of them REPLACE addresses belongs to C05
				o.Discard = true
				return o, nil
			}
			stmt := fmt.Sprintf("REPLACE INTO %s (id, v) USING (id) VALUES (%d, '%s');", tableRef(c.Fmt, dir, s.T, dmlForm(s.Form, 0)), s.ID, atag)
			r := execA(stmt)
			if r.Err != nil {
				return o, fw.V("a_change_error", "%s failed in transaction A (no other process holds anything): %s %v%s", stmt, run.ErrClass(r.Err), r.Err, tail())
			}
			cch := m.C[s.T]
			if n == 1 {
				cch.rows = edit(cch.rows, "upd", s.ID, atag, false)
				class("A.replace:matched:" + rule)
			} else {
				cch.rows = edit(cch.rows, "ins", s.ID, atag, false)
				class("A.replace:unmatched:" + rule)
			}
			cch.dirty = true
			failedUpd[s.T] = false
			prevSet[s.T], bUnloaded[s.T] = false, false
			tok("p" + rule + tn)

		case "insself":
			rule := m.updAccess(s.T)
			stmt := fmt.Sprintf("INSERT INTO %s (id, v) SELECT id, v FROM %s;", tableRef(c.Fmt, dir, s.T, dmlForm(s.Form, 0)), tableName(s.T))
			r := execA(stmt)
			if r.Err != nil {
				return o, fw.V("a_change_error", "%s failed in transaction A (no other process holds anything): %s %v%s", stmt, run.ErrClass(r.Err), r.Err, tail())
			}
			cch := m.C[s.T]
			cch.rows = append(clone(cch.rows), cch.rows...)
			cch.dirty = true
			class("A.insert_select_from_target:" + rule)
			failedUpd[s.T] = false
			prevSet[s.T], bUnloaded[s.T] = false, false
			tok("q" + rule + tn)

		case "updsub", "delsub":
			if nt != 2 {
				o.Discard = true
				return o, nil
			}
			other := 1 - s.T
			rule := m.updAccess(s.T)
			if len(m.C[s.T].rows) == 0 {
				// the WHERE clause is evaluated for no record: whether the other table counts as loaded is open
				o.Discard = true
				return o, nil
			}
			src, srule := m.plainRead(other)
			next := subsetEdit(m.C[s.T].rows, src, s.K == "delsub", s.Neg, atag)
			if emptyHL(next) {
				o.Discard = true
				return o, nil
			}
			op := "IN"
			if s.Neg {
				op = "NOT IN"
			}
			var stmt string
			if s.K == "updsub" {
				stmt = fmt.Sprintf("UPDATE %s SET v = '%s' WHERE id %s (SELECT id FROM %s);", tableRef(c.Fmt, dir, s.T, dmlForm(s.Form, 0)), atag, op, tableRef(c.Fmt, dir, other, dmlForm(s.Form, 1)))
			} else {
				stmt = fmt.Sprintf("DELETE FROM %s WHERE id %s (SELECT id FROM %s);", tableRef(c.Fmt, dir, s.T, dmlForm(s.Form, 0)), op, tableRef(c.Fmt, dir, other, dmlForm(s.Form, 1)))
			}
			r := execA(stmt)
			if r.Err != nil {
				return o, fw.V("a_change_error", "%s failed in transaction A (no other process holds anything): %s %v%s", stmt, run.ErrClass(r.Err), r.Err, tail())
			}
			m.C[s.T].rows = next
			m.C[s.T].dirty = true
			class("A." + s.K + ":" + rule)
			class("A." + s.K + ":subquery_table:" + srule)
			failedUpd[s.T] = false
			for _, tb := range []int{s.T, other} {
				prevSet[tb], bUnloaded[tb] = false, false
			}
			tok("y" + s.K[:1] + rule + srule + tn)

		case "ins", "upd", "del":
			rule := m.updAccess(s.T)
			if s.K == "del" && emptyHL(edit(m.C[s.T].rows, s.K, s.ID, atag, s.Null)) {
				o.Discard = true
				return o, nil
			}
			stmt := changeSQLCols(tableRef(c.Fmt, dir, s.T, dmlForm(s.Form, 0)), s.K, s.ID, atag, s.Null, m.C[s.T].nh)
			r := execA(stmt)
			if r.Err != nil && m.C[s.T].nh && rule != "U" {
				return o, fw.V("table_shape_changed_in_transaction", "%s failed in transaction A: %s %v; the table was first loaded in this transaction with no_header (columns c1, c2) and its shape must not change (%s)%s", stmt, run.ErrClass(r.Err), r.Err, ruleText[rule], tail())
			}
			if r.Err != nil {
				return o, fw.V("a_change_error", "%s failed in transaction A (no other process holds anything): %s %v%s", stmt, run.ErrClass(r.Err), r.Err, tail())
			}
			cch := m.C[s.T]
			cch.rows = edit(cch.rows, s.K, s.ID, atag, s.Null)
			cch.dirty = true
			class("A." + s.K + ":" + rule)
			attrClass("change", s.T, false, rule)
			failedUpd[s.T] = false
			prevSet[s.T], bUnloaded[s.T] = false, false
			tok("d" + rule + tn)

		case "insfrom":
			stmt := fmt.Sprintf("INSERT INTO %s (id, v) SELECT id, v FROM %s;", tableRef(c.Fmt, dir, s.T, dmlForm(s.Form, 0)), tableName(s.Src))
			rule := m.updAccess(s.T)
			src, srule := m.plainRead(s.Src)
			r := execA(stmt)
			if r.Err != nil {
				return o, fw.V("a_change_error", "%s failed in transaction A (no other process holds anything): %s %v%s", stmt, run.ErrClass(r.Err), r.Err, tail())
			}
			cch := m.C[s.T]
			cch.rows = append(cch.rows, src...)
			cch.dirty = true
			class("A.insert_select:" + rule)
			class("A.insert_select:source:" + srule)
			prevSet[s.T], bUnloaded[s.T] = false, false
			prevSet[s.Src], bUnloaded[s.Src] = false, false
			tok("i" + rule + srule + tn)

		case "commit", "rollback":
			for t := 0; t < nt; t++ {
				if m.C[t] != nil {
					prevSet[t], prev[t] = true, clone(m.C[t].rows)
					prevRO[t] = s.K == "rollback" && !m.C[t].fu
				}
				readInTxn[t], bSinceRead[t], bUnloaded[t], failedUpd[t] = false, false, false, false
			}
			foreign = false
			before := readFiles(c.Fmt, dir, nt)
			var flag bool
			if s.K == "commit" {
				flag = m.commit()
			} else {
				flag = m.rollback()
			}
			r := execA(strings.ToUpper(s.K) + ";")
			if r.Err != nil {
				return o, fw.V("a_"+s.K+"_error", "%s failed in transaction A: %s %v%s", strings.ToUpper(s.K), run.ErrClass(r.Err), r.Err, tail())
			}
			if s.K == "rollback" {
				if after := readFiles(c.Fmt, dir, nt); strings.Join(after, "\x00") != strings.Join(before, "\x00") {
					return o, fw.V("rollback_changed_file", "ROLLBACK changed a file: %q -> %q%s", before, after, tail())
				}
			}
			switch {
			case s.K == "commit" && flag:
				class("A.commit:writes")
				tok("Tw")
			case s.K == "commit":
				class("A.commit:nothing_to_write")
				tok("T")
			case flag:
				class("A.rollback:discards_changes")
				tok("Kd")
			default:
				class("A.rollback:clean")
				tok("K")
			}

		case "b":
			sql := changeSQL(tableRef(c.Fmt, dir, s.T, dmlForm(s.Form, 0)), s.BK, s.ID, btag, s.Null) + " COMMIT;"
			before := readFiles(c.Fmt, dir, nt)
			mustFail := m.held(s.T) || m.H2[s.T] != nil
			if !mustFail && emptyHL(edit(m.F[s.T], s.BK, s.ID, btag, s.Null)) {
				o.Discard = true
				return o, nil
			}
			holder := "transaction A holds"
			if m.H2[s.T] != nil {
				holder = "another transaction holds"
			}
			out := runB(c, dir, sql, bWait, procLimit)
			retried := false
			if out.class == "harness" {
				return o, fw.Harness("B: %s", out.msg)
			}
			if !mustFail && strings.HasPrefix(out.class, "E8/") {
				// nobody holds the table: a timeout can only come from a busy machine; judge a patient attempt
				fw.AddExtra("b_success_retries", 1)
				retried = true
				out = runB(c, dir, sql, bWaitRetry, procLimit)
			}
			if mustFail && out.class != lockTO && strings.HasPrefix(out.class, "E8/") {
				// the 50 ms were over before the first attempt to take the lock (context done): judge a longer wait
				fw.AddExtra("b_timeout_retries", 1)
				retried = true
				out = runB(c, dir, sql, 2*time.Second, procLimit)
			}
			line := "B: " + sql
			if out.class != "" {
				line += "   -> " + out.class + " " + out.msg
			} else {
				line += "   -> committed"
			}
			if retried {
				line += " (second attempt)"
			}
			trace = append(trace, line)
			if out.hang {
				return o, fw.V("b_process_hang", "process B did not end within %v%s", procLimit, tail())
			}
			after := readFiles(c.Fmt, dir, nt)
			if mustFail {
				fw.AddExtra("b_lock_timeouts", 1)
				if out.class == "" {
					return o, fw.V("b_committed_while_held_for_update", "another process changed and committed %s while %s it for update%s", tableName(s.T), holder, tail())
				}
				if out.class != lockTO {
					return o, fw.V("b_blocked_wrong_error:"+out.class, "process B failed with %s %s; the lock wait timeout error (%s) is expected while A holds %s for update%s", out.class, out.msg, lockTO, tableName(s.T), tail())
				}
				if strings.Join(after, "\x00") != strings.Join(before, "\x00") {
					return o, fw.V("b_failed_but_file_changed", "process B timed out on the lock but the files changed: %q -> %q%s", before, after, tail())
				}
				class("B.blocked:" + s.BK)
				tok("bX" + tn)
				break
			}
			if out.class != "" {
				sig := "b_failed_without_holder:" + out.class
				return o, fw.V(sig, "process B failed with %s %s although nobody holds %s for update%s", out.class, out.msg, tableName(s.T), tail())
			}
			m.F[s.T] = edit(m.F[s.T], s.BK, s.ID, btag, s.Null)
			switch {
			case m.C[s.T] != nil:
				class("B.commit:table_cached_read_only_by_A")
			case nt == 2 && m.C[1-s.T] != nil:
				class("B.commit:table_not_loaded_by_A_other_loaded")
				bUnloaded[s.T] = true
			default:
				class("B.commit:A_has_nothing_loaded")
			}
			if readInTxn[s.T] {
				bSinceRead[s.T] = true
			}
			tok("b" + tn)

		case "hold":
			htag := fmt.Sprintf("h%d", i)
			var sql string
			switch s.BK {
			case "sfu":
				sql = fmt.Sprintf("SELECT id, v FROM %s FOR UPDATE;", tableRef(c.Fmt, dir, s.T, dmlForm(s.Form, 0)))
			case "upd", "ins":
				sql = changeSQL(tableRef(c.Fmt, dir, s.T, dmlForm(s.Form, 0)), s.BK, s.ID, htag, false)
			default:
				o.Discard = true
				return o, nil
			}
			created := false
			if b2 == nil {
				var err error
				if b2, err = run.NewSess(run.Opt{Dir: dir, WaitTimeout: bWait}); err != nil {
					b2 = nil
					return o, fw.Harness("session: %v", err)
				}
				created = true
			}
			mustFail := m.held(s.T)
			r := b2.Exec(sql)
			cls := run.ErrClass(r.Err)
			if r.Err != nil && strings.HasPrefix(cls, "E8/") && (!mustFail || cls != lockTO) {
				// nobody holds the table / the 50 ms were over before the first attempt: judge a patient attempt
				fw.AddExtra("b_success_retries", 1)
				wait := bWaitRetry
				if mustFail {
					wait = 2 * time.Second
				}
				b2.Tx.UpdateWaitTimeout(wait.Seconds(), time.Millisecond)
				r = b2.Exec(sql)
				cls = run.ErrClass(r.Err)
				b2.Tx.UpdateWaitTimeout(bWait.Seconds(), time.Millisecond)
			}
			line := "B2: " + sql
			if r.Err != nil {
				line += "   -> " + cls + " " + r.Err.Error()
			} else {
				line += "   -> ok, transaction stays open"
			}
			trace = append(trace, line)
			if mustFail {
				fw.AddExtra("b_lock_timeouts", 1)
				if r.Err == nil {
					return o, fw.V("b_access_while_held_for_update", "another transaction obtained %s for update while transaction A holds it for update%s", tableName(s.T), tail())
				}
				if cls != lockTO {
					return o, fw.V("b_blocked_wrong_error:"+cls, "transaction B2 failed with %s %v; the lock wait timeout error (%s) is expected while A holds %s for update%s", cls, r.Err, lockTO, tableName(s.T), tail())
				}
				if created {
					b2.Close()
					b2 = nil
				}
				class("B2.blocked:" + s.BK)
				tok("hX" + tn)
				break
			}
			if r.Err != nil {
				return o, fw.V("b_failed_without_holder:"+cls, "transaction B2 failed with %s %v although transaction A does not hold %s for update%s", cls, r.Err, tableName(s.T), tail())
			}
			if m.H2[s.T] == nil {
				m.H2[s.T] = &cacheT{rows: clone(m.F[s.T]), fu: true}
			}
			if s.BK != "sfu" {
				m.H2[s.T].rows = edit(m.H2[s.T].rows, s.BK, s.ID, htag, false)
				m.H2[s.T].dirty = true
			}
			if m.C[s.T] != nil {
				class("B2.hold:table_cached_read_only_by_A")
			} else {
				class("B2.hold:table_not_loaded_by_A")
			}
			tok("h" + tn)

		case "release":
			if b2 == nil {
				class("B2.release:nothing_open")
				break
			}
			commit := s.BK != "rollback"
			sql := "ROLLBACK;"
			if commit {
				sql = "COMMIT;"
			}
			r := b2.Exec(sql)
			if r.Err != nil {
				trace = append(trace, "B2: "+sql+"   -> "+run.ErrClass(r.Err)+" "+r.Err.Error())
				return o, fw.V("b_release_error", "%s of transaction B2 failed: %v%s", sql, r.Err, tail())
			}
			trace = append(trace, "B2: "+sql+"   -> ok, transaction ended")
			b2.Close()
			b2 = nil
			written := m.b2Release(commit)
			for _, t := range written {
				if readInTxn[t] {
					bSinceRead[t] = true
				}
			}
			switch {
			case len(written) > 0:
				class("B2.release:commit_writes")
				tok("rW")
			case commit:
				class("B2.release:commit_nothing_to_write")
				tok("rC")
			default:
				class("B2.release:rollback")
				tok("rR")
			}

		default:
			o.Discard = true
			return o, nil
		}
	}

	// the end: B2 and A end without COMMIT (pending changes are discarded); the files are the model's files
	if b2 != nil {
		b2.Close()
		b2 = nil
	}
	m.b2Release(false)
	// the end: A ends without COMMIT (its pending changes are discarded); the files are the model's files
	a.Close()
	m.rollback()
	fin, err := run.NewSess(run.Opt{Dir: dir})
	if err != nil {
		return o, fw.Harness("session: %v", err)
	}
	defer fin.Close()
	for t := 0; t < nt; t++ {
		stmt := fmt.Sprintf("SELECT id, v FROM %s;", tableName(t))
		tb, err := fin.Query(stmt)
		if err != nil {
			return o, fw.V("final_read_error", "after the history %s fails in a new process: %v (file %q)%s", stmt, err, readFiles(c.Fmt, dir, nt)[t], tail())
		}
		rows, ok := observed(tb)
		if !ok || !sameRows(rows, m.F[t]) {
			return o, fw.V("final_file_differs", "after the history %s holds %s, expected %s%s", tableName(t), render(rows), render(m.F[t]), tail())
		}
	}
	if nontrivial {
		o.Fingerprint = strings.Join(toks, "")
	}
	return o, nil
}

const ruleDoc = "1-2 CSV tables (id, v; 0-4 rows, NULL cells) and a history of 4-20 steps generated up front: transaction A (one in-process session for the whole history) does SELECT (table spelled as name / file name / absolute path / aliased / CSV() table function; also with the import attribute no_header, through CSV(',', file, 'UTF8', TRUE) or SET @@NO_HEADER around the statement; every statement of A and of the other processes draws its spelling anew, half of them through a redundant spelling of the path - ./p, sub/../p, <dir>/p, <dir>//p, <dir>/./p, <dir>/sub/../p, with or without the extension, two tables of one statement through different spellings - while the model is keyed by the file), SELECT FOR UPDATE, two-table reads (comma list, CROSS / inner / FULL OUTER JOIN, UNION ALL, NOT IN subquery over the other table; the join and set forms also FOR UPDATE, which holds every table of the query), INSERT, UPDATE, DELETE, UPDATE a, b .. FROM over both tables, INSERT..SELECT from the other table, COMMIT, ROLLBACK; between A's statements other processes B (each a fresh Session+Transaction+Processor on the same directory, 50 ms lock wait) UPDATE/INSERT/DELETE one table, COMMIT through the real file layer and end. Model per table: file contents F and A's cache (none | snapshot, for-update flag, own changes): plain SELECT loads F if nothing is cached, else returns the cache; the first data-changing / FOR UPDATE access to a copy loaded by a plain SELECT reloads F (the documented exception) and holds the table; later reads = snapshot + own changes; COMMIT writes changed tables and empties the cache, ROLLBACK empties it - also for tables the transaction had only read: after a foreign commit to a table A has read, A ends its transaction (ROLLBACK twice as often as COMMIT) in an eighth of the cases and reads the table next, which must show the current file (class after_rollback_of_only_read_table_sees_current_file). A table keeps the import attributes of its first load in the transaction (loaded with no_header: columns c1, c2, the header line is the first record, also after the reload by the first update access and whatever attributes later statements ask for; written back without a header line at COMMIT). Every A read (SELECT *: column names and rows) is compared with the model as a sequence of rows (text + NULL-ness; two-table joins and unions as a multiset); B must commit iff A does not hold the table for update, else fail with the lock-timeout error 90082 leaving the files byte-identical; at the end the files (read by a new session) equal F. Non-trivial = a successful B commit between two A reads of the same table inside one A transaction; distinct by the compressed sequence of (step kind, model rule, table)"

var assumptions = []string{
	"other processes act between A's statements (statement-level interleaving); interleavings inside one statement's file-system steps belong to C09",
	"B's lock wait (50 ms) is semantic: A holds its locks for as long as B waits. When the model says B must succeed and B times out it is retried once with 30 s; a context-done error instead of the lock-timeout error (50 ms over before the first attempt) is retried with 2 s",
	"cells are plain text or NULL (empty CSV field); ids are decimal so that WHERE id = n addresses the rows the model addresses",
	"SELECT ... FOR UPDATE holds every table its FROM clause (or the operands of its set operator) loads; FOR UPDATE is not combined with subqueries (whether the subquery's table is locked is not documented)",
	"a cross / inner join with an empty side and a WHERE-subquery over an empty outer table are not generated: they can be answered without loading the other table, and whether it then counts as loaded is not documented",
	"UPDATE a, b ... FROM addresses at most one record per table (a record joined to several partners is an error in csvq); such cases are not generated",
	"import attributes: only no_header is varied (table object argument and session flag); the other attributes (delimiter, encoding, without_null, JSON query, fixed-width positions) go through the same FileInfo that the reload reuses. Two-table statements are not generated on tables loaded with no_header (other column names)",
	"fixed-width files whose delimiter positions were auto-detected at the first load and which another process rewrites with other widths before the reload: the manual only says that the attributes determined when loading are used afterwards, so no expectation is asserted (not generated)",
	"INSERT appends, UPDATE/DELETE keep the order of the remaining rows (C05's subject) - used only to predict the table after a change",
	"all spellings of a path name the same file (the case directory holds an empty directory sub for sub/..); spellings that differ in the letter case of the name are the subject of check table_names",
}

func TestC20History(t *testing.T) {
	fw.Run(t, fw.Spec[histCase]{
		ID: "C20", Name: "history", Quick: 4000, Thorough: 80000,
		Gen: genCase, Check: checkHist, Rule: ruleDoc, Assumptions: assumptions,
	})
}

func TestC20HistoryProcesses(t *testing.T) {
	fw.Run(t, fw.Spec[histCase]{
		ID: "C20", Name: "history_processes", Quick: 96, Thorough: 1920,
		Gen: genCaseProc, Check: checkHist,
		Rule:        "the same histories with every B step executed by a real csvq process (csvq --wait-timeout 0.05 -q '<change>; COMMIT;' in the table directory): exit 0 iff A does not hold the table, otherwise exit code 8 with the lock wait timeout message and unchanged files",
		Assumptions: assumptions,
	})
}

func TestC20FailedUpdateAccess(t *testing.T) {
	fw.Run(t, fw.Spec[histCase]{
		ID: "C20", Name: "failed_update_access", Quick: 320, Thorough: 6400,
		Gen: genCaseFailedUpdate, Check: checkHist,
		Rule:        "the same histories aimed at one shape: A has a table cached from a plain SELECT, a long-lived other transaction B2 holds it for update (SELECT FOR UPDATE / UPDATE / INSERT, later COMMIT or ROLLBACK), A's data-changing or FOR UPDATE access to it fails with the lock wait timeout; afterwards A's plain reads must still return A's snapshot (while B2 holds the table and after B2 committed)",
		Assumptions: assumptions,
	})
}

const formsRule = "the same histories and model with (a) further statement forms of transaction A: single-table reads that reach the table through a FROM-subquery, a common table expression, DECLARE .. VIEW AS SELECT, an aggregate (LISTAGG over all rows), a user-defined function whose body reads the table, a self join of two spellings of the table (also FOR UPDATE), a cursor (DECLARE .. CURSOR, OPEN, WHILE .. IN cursor fetching every record into a temporary table), a prepared statement (PREPARE .. FROM, EXECUTE .. USING), EXECUTE of a statement text, a scalar subquery assigned to a variable, a correlated EXISTS subquery over another spelling of the same table (evaluated per record, on several goroutines for the big tables); REPLACE .. USING (id); INSERT .. SELECT from the target table itself; UPDATE / DELETE .. WHERE id [NOT] IN (SELECT id FROM the other table) (the target is held for update, the subquery's table is a plain read); (b) the tables as CSV, TSV, LTSV, JSON or JSON Lines files (spelled as name / file name / absolute path / aliased / CSV(), LTSV(), JSON(), JSONL() table functions); (c) in a tenth of the cases 165-400 further rows per table and @@CPU 2-4 for A, so that loading, copying out of the cache and the DML statements run on several goroutines. Wrapped reads are compared as a sequence (subquery, CTE, view), as a multiset (aggregate, function, join). Non-trivial and distinct as in history"

var formsAssumptions = append(append([]string{}, assumptions...),
	"tables of the formats without a header line (LTSV, JSON, JSON Lines) never become empty: an empty file has no columns there; DELETEs that would remove the last record are generated as UPDATEs (replayed cases that do it are discarded)",
	"REPLACE addresses a key that at most one record carries (several: C05's subject); the wrapped reads and the subquery forms keep away from tables loaded with no_header and from the time another transaction holds a table",
	"UPDATE / DELETE with a subquery in WHERE on an empty target evaluate the subquery for no record: not generated (whether the subquery's table counts as loaded is not documented)",
	"big tables: comma / CROSS joins and INSERT..SELECT from the other table are left out (only the size grows)",
)

func TestC20HistoryForms(t *testing.T) {
	fw.Run(t, fw.Spec[histCase]{
		ID: "C20", Name: "history_forms", Quick: 1200, Thorough: 24000,
		Gen: genCaseForms, Check: checkHist, Rule: formsRule, Assumptions: formsAssumptions,
	})
}
