package c20

import (
	"fmt"
	"os"
	"path/filepath"
	"strconv"
	"strings"
	"sync/atomic"
	"testing"
	"time"

	"pgregory.net/rapid"

	"verif/internal/fw"
	"verif/internal/run"
)

// ---------------------------------------------------------------------
// schema: the data-changing statements that change the STRUCTURE of a table (ALTER TABLE .. ADD / DROP / RENAME:
// "INSERT, UPDATE, DELETE, CREATE and ALTER TABLE queries use exclusive locks"), issued by transaction A and by the
// other processes. The table of the model is a list of column names plus rows of cells; the cache rules are the
// ones of the check history.

type schStep struct {
	K    string `json:"k"`             // sel | sfu | add | drop | ren | upd | ins | commit | rollback | b
	BK   string `json:"bk,omitempty"`  // b: add | drop | ren | upd | ins
	Col  string `json:"col,omitempty"` // add: new column; drop / ren / upd: addressed column
	New  string `json:"new,omitempty"` // ren: new name
	Pos  string `json:"pos,omitempty"` // add: "" | first | last | after | before
	Ref  string `json:"ref,omitempty"` // add after / before: the column referred to
	Def  bool   `json:"def,omitempty"` // add: DEFAULT '<tag>' (otherwise the new cells are NULL)
	ID   int    `json:"id,omitempty"`  // upd: addressed key; ins: new key
	Form int    `json:"form,omitempty"`
}

type schCase struct {
	Rows  int       `json:"rows"` // 1-4 records (k, c1)
	Steps []schStep `json:"steps"`
}

type sTable struct {
	cols []string
	rows [][]string // cells as text, nullKey for NULL
}

func (t sTable) clone() sTable {
	out := sTable{cols: append([]string{}, t.cols...)}
	for _, r := range t.rows {
		out.rows = append(out.rows, append([]string{}, r...))
	}
	return out
}

func (t sTable) col(name string) int {
	for i, c := range t.cols {
		if strings.EqualFold(c, name) {
			return i
		}
	}
	return -1
}

func (t sTable) String() string {
	var b strings.Builder
	b.WriteString("(" + strings.Join(t.cols, ",") + ")[")
	for i, r := range t.rows {
		if i > 0 {
			b.WriteString(" ")
		}
		b.WriteString("(" + strings.ReplaceAll(strings.Join(r, ","), nullKey, "NULL") + ")")
	}
	return b.String() + "]"
}

func (t sTable) equal(u sTable) bool { return t.String() == u.String() }

// schApply: one change (kind = K of A's step or BK of a B step) on a table; ok false: the statement does not fit
// the table (unknown / duplicate column), which the generator avoids and the check discards.
func schApply(t sTable, kind string, s schStep, tag string) (sTable, bool) {
	t = t.clone()
	switch kind {
	case "add":
		if t.col(s.Col) >= 0 {
			return t, false
		}
		pos := len(t.cols)
		switch s.Pos {
		case "first":
			pos = 0
		case "after", "before":
			k := t.col(s.Ref)
			if k < 0 {
				return t, false
			}
			pos = k
			if s.Pos == "after" {
				pos = k + 1
			}
		}
		cell := nullKey
		if s.Def {
			cell = tag
		}
		t.cols = append(t.cols[:pos], append([]string{s.Col}, t.cols[pos:]...)...)
		for i, r := range t.rows {
			t.rows[i] = append(r[:pos], append([]string{cell}, r[pos:]...)...)
		}
	case "drop":
		k := t.col(s.Col)
		if k < 0 || strings.EqualFold(s.Col, "k") {
			return t, false
		}
		t.cols = append(t.cols[:k], t.cols[k+1:]...)
		for i, r := range t.rows {
			t.rows[i] = append(r[:k], r[k+1:]...)
		}
	case "ren":
		k := t.col(s.Col)
		if k < 0 || strings.EqualFold(s.Col, "k") || t.col(s.New) >= 0 {
			return t, false
		}
		t.cols[k] = s.New
	case "upd":
		k := t.col(s.Col)
		if k < 0 || strings.EqualFold(s.Col, "k") {
			return t, false
		}
		kc := t.col("k")
		for i, r := range t.rows {
			if r[kc] == strconv.Itoa(s.ID) {
				t.rows[i][k] = tag
			}
		}
	case "ins":
		row := make([]string, len(t.cols))
		for i := range row {
			row[i] = tag
		}
		row[t.col("k")] = strconv.Itoa(s.ID)
		t.rows = append(t.rows, row)
	default:
		return t, false
	}
	return t, true
}

func schSQL(ref, kind string, s schStep, tag string, t sTable) string {
	switch kind {
	case "add":
		sql := "ALTER TABLE " + ref + " ADD " + s.Col
		if s.Def {
			sql += " DEFAULT '" + tag + "'"
		}
		switch s.Pos {
		case "first":
			sql += " FIRST"
		case "last":
			sql += " LAST"
		case "after":
			sql += " AFTER " + s.Ref
		case "before":
			sql += " BEFORE " + s.Ref
		}
		return sql + ";"
	case "drop":
		return "ALTER TABLE " + ref + " DROP " + s.Col + ";"
	case "ren":
		return "ALTER TABLE " + ref + " RENAME " + s.Col + " TO " + s.New + ";"
	case "upd":
		return fmt.Sprintf("UPDATE %s SET %s = '%s' WHERE k = %d;", ref, s.Col, tag, s.ID)
	}
	// ins: the value list follows the columns of the table as the statement finds it
	vals := make([]string, len(t.cols))
	for i, c := range t.cols {
		vals[i] = "'" + tag + "'"
		if strings.EqualFold(c, "k") {
			vals[i] = strconv.Itoa(s.ID)
		}
	}
	return fmt.Sprintf("INSERT INTO %s VALUES (%s);", ref, strings.Join(vals, ", "))
}

type sModel struct {
	F     sTable
	C     *sTable
	fu    bool
	dirty bool
}

func schInitial(n int) sTable {
	t := sTable{cols: []string{"k", "c1"}}
	for i := 1; i <= n; i++ {
		t.rows = append(t.rows, []string{strconv.Itoa(i), fmt.Sprintf("i%d", i)})
	}
	return t
}

func (m *sModel) plainRead() (sTable, string) {
	switch {
	case m.C == nil:
		c := m.F.clone()
		m.C, m.fu, m.dirty = &c, false, false
		return c, "L"
	case m.fu && m.dirty:
		return *m.C, "Hd"
	case m.fu:
		return *m.C, "H"
	case m.C.equal(m.F):
		return *m.C, "C"
	}
	return *m.C, "S"
}

func (m *sModel) updAccess() string {
	switch {
	case m.C == nil:
		c := m.F.clone()
		m.C, m.fu, m.dirty = &c, true, false
		return "U"
	case !m.fu:
		changed := !m.C.equal(m.F)
		c := m.F.clone()
		m.C, m.fu, m.dirty = &c, true, false
		if changed {
			return "Rx"
		}
		return "R"
	}
	return "H"
}

func (m *sModel) end(commit bool) (flag bool) {
	flag = m.C != nil && m.dirty
	if commit && flag && m.fu {
		m.F = m.C.clone()
	}
	m.C, m.fu, m.dirty = nil, false, false
	return flag
}

func schFile(t sTable) string {
	var b strings.Builder
	b.WriteString(strings.Join(t.cols, ",") + "\n")
	for _, r := range t.rows {
		b.WriteString(strings.ReplaceAll(strings.Join(r, ","), nullKey, "") + "\n")
	}
	return b.String()
}

var schKinds = []string{"sel", "sfu", "add", "drop", "ren", "upd", "ins", "commit", "rollback", "b"}

func genSchema(t *rapid.T) schCase {
	c := schCase{Rows: fw.Range(t, "rows", 1, 4)}
	m := &sModel{F: schInitial(c.Rows)}
	nextID := c.Rows + 1
	nsteps := fw.Range(t, "nsteps", 4, 16)
	readInTxn, follow := false, false
	// fill draws the parameters of one change so that it fits the table tb (the table as the statement will find it)
	fill := func(kind string, i int, tb sTable) (schStep, string) {
		s := schStep{}
		var others []string // columns other than the key
		for _, cn := range tb.cols {
			if cn != "k" {
				others = append(others, cn)
			}
		}
		if (kind == "drop" || kind == "ren" || kind == "upd") && len(others) == 0 {
			kind = "add"
		}
		switch kind {
		case "add":
			s.Col = fmt.Sprintf("n%d", i)
			s.Def = fw.Pct(t, "default", 60)
			s.Pos = []string{"", "first", "last", "after", "before"}[fw.Uniform(t, "pos", 5)]
			if s.Pos == "after" || s.Pos == "before" {
				s.Ref = tb.cols[fw.Uniform(t, "ref", len(tb.cols))]
			}
		case "drop":
			s.Col = others[fw.Uniform(t, "col", len(others))]
		case "ren":
			s.Col = others[fw.Uniform(t, "col", len(others))]
			s.New = fmt.Sprintf("r%d", i)
		case "upd":
			s.Col = others[fw.Uniform(t, "col", len(others))]
			if len(tb.rows) > 0 && fw.Pct(t, "id_hit", 90) {
				s.ID, _ = strconv.Atoi(tb.rows[fw.Uniform(t, "id", len(tb.rows))][tb.col("k")])
			} else {
				s.ID = fw.Range(t, "id_any", 1, 30)
			}
		case "ins":
			s.ID = nextID
			nextID++
		}
		return s, kind
	}
	for i := 0; i < nsteps; i++ {
		var kind string
		if follow && fw.Pct(t, "follow", 60) {
			kind = []string{"sel", "sel", "sel", "sfu", "add", "upd", "ren"}[fw.Uniform(t, "follow_kind", 7)]
		} else {
			wb := 30
			if m.C != nil && m.fu {
				wb = 7
			}
			kind = schKinds[fw.Weighted(t, "kind", []int{30, 6, 10, 6, 6, 9, 5, 6, 5, wb})]
		}
		follow = false
		var s schStep
		switch kind {
		case "sel":
			s = schStep{K: "sel", Form: fw.Uniform(t, "form", 4)}
			m.plainRead()
			readInTxn = true
		case "sfu":
			s = schStep{K: "sfu", Form: fw.Uniform(t, "form", 3)}
			m.updAccess()
			readInTxn = true
		case "commit", "rollback":
			s = schStep{K: kind}
			m.end(kind == "commit")
			readInTxn = false
		case "b":
			bk := []string{"add", "drop", "ren", "upd", "ins"}[fw.Weighted(t, "bk", []int{30, 15, 20, 20, 15})]
			s, bk = fill(bk, i, m.F)
			s.K, s.BK = "b", bk
			if !(m.C != nil && m.fu) {
				m.F, _ = schApply(m.F, bk, s, "y")
				follow = readInTxn
			}
		default:
			m.updAccess()
			s, kind = fill(kind, i, *m.C)
			s.K = kind
			s.Form = fw.Uniform(t, "form", 3)
			nc, _ := schApply(*m.C, kind, s, "x")
			m.C, m.dirty = &nc, true
		}
		if s.K != "commit" && s.K != "rollback" {
			if s.K == "b" {
				s.Form = fw.Uniform(t, "other_form", 3)
			}
			if fw.Pct(t, "respell", 50) {
				s.Form += 10 * fw.Range(t, "spelling", 1, spellings-1)
			}
		}
		c.Steps = append(c.Steps, s)
	}
	return c
}

func schObserved(tb run.Tbl) sTable {
	t := sTable{cols: append([]string{}, tb.Header...)}
	for _, r := range tb.Rows {
		row := make([]string, len(r))
		for i, cv := range r {
			row[i] = cv.S
			if cv.IsNull() {
				row[i] = nullKey
			}
		}
		t.rows = append(t.rows, row)
	}
	return t
}

func checkSchema(c schCase) (fw.Outcome, *fw.Violation) {
	o := fw.Outcome{}
	if c.Rows < 1 || c.Rows > 50 {
		o.Discard = true
		return o, nil
	}
	class := func(s string) { o.Classes = append(o.Classes, s) }
	dir := filepath.Join(fw.WorkDir(), fmt.Sprintf("c20s-%d", atomic.AddInt64(&caseSeq, 1)))
	_ = os.RemoveAll(dir)
	if err := os.MkdirAll(filepath.Join(dir, "sub"), 0755); err != nil {
		return o, fw.Harness("mkdir: %v", err)
	}
	defer os.RemoveAll(dir)
	m := &sModel{F: schInitial(c.Rows)}
	if err := run.WriteFiles(dir, map[string]string{"t1.csv": schFile(m.F)}); err != nil {
		return o, fw.Harness("write table: %v", err)
	}
	a, err := run.NewSess(run.Opt{Dir: dir})
	if err != nil {
		return o, fw.Harness("session: %v", err)
	}
	defer a.Close()
	var trace []string
	tail := func() string { return "\n    " + strings.Join(trace, "\n    ") }
	execA := func(sql string) run.Res {
		r := a.Exec(sql)
		line := "A: " + sql
		if r.Err != nil {
			line += "   -> " + run.ErrClass(r.Err) + " " + r.Err.Error()
		} else if len(r.Views) == 1 {
			line += "   -> " + schObserved(r.Views[0]).String()
		}
		trace = append(trace, line)
		return r
	}
	fileNow := func() string {
		b, _ := os.ReadFile(filepath.Join(dir, "t1.csv"))
		return string(b)
	}
	var toks []string
	tok := func(s string) {
		if len(toks) == 0 || toks[len(toks)-1] != s {
			toks = append(toks, s)
		}
	}
	nontrivial := false
	readInTxn, bSinceRead, bAltered := false, false, false
	ruleText := map[string]string{
		"L": "first load in this transaction: the current file", "C": "cached copy (the file has not changed since)",
		"S": "cached copy although another process committed meanwhile", "H": "copy held for update",
		"Hd": "copy held for update plus the transaction's own changes", "U": "loaded for update: the current file",
		"R": "reloaded by the first update access after a plain SELECT (file unchanged)", "Rx": "reloaded by the first update access after a plain SELECT: the current file",
	}
	compare := func(r run.Res, want sTable, rule, stmt string) *fw.Violation {
		if r.Err != nil {
			return fw.V("a_read_error", "%s failed in transaction A: %s %v%s", stmt, run.ErrClass(r.Err), r.Err, tail())
		}
		if len(r.Views) != 1 {
			return fw.V("a_read_shape", "%s returned %d results%s", stmt, len(r.Views), tail())
		}
		if got := schObserved(r.Views[0]); !got.equal(want) {
			return fw.V("schema_read:"+rule, "%s in transaction A returned %s; expected %s = %s (file now %s)%s", stmt, got, want, ruleText[rule], m.F, tail())
		}
		return nil
	}
	for i, s := range c.Steps {
		atag, btag := fmt.Sprintf("a%d", i), fmt.Sprintf("b%d", i)
		switch s.K {
		case "sel", "sfu":
			form := s.Form%10%4 + s.Form/10*10 // base form + spelling of the path (see tableRef)
			if s.K == "sfu" {
				form = dmlForm(s.Form, 0)
			}
			stmt := "SELECT * FROM " + tableRef("", dir, 0, form)
			var want sTable
			var rule string
			if s.K == "sfu" {
				stmt += " FOR UPDATE"
				rule = m.updAccess()
				if rule == "H" && m.dirty {
					rule = "Hd"
				}
				want = *m.C
			} else {
				want, rule = m.plainRead()
			}
			stmt += ";"
			if v := compare(execA(stmt), want, rule, stmt); v != nil {
				return o, v
			}
			class("A." + s.K + ":" + rule)
			if readInTxn && bSinceRead {
				nontrivial = true
				class("nontrivial:B_commit_between_two_A_reads")
				if bAltered {
					class("nontrivial:B_changed_the_columns_between_two_A_reads:" + rule)
				}
			}
			readInTxn, bSinceRead, bAltered = true, false, false
			tok(s.K[:2] + rule)
		case "add", "drop", "ren", "upd", "ins":
			rule := m.updAccess()
			next, ok := schApply(*m.C, s.K, s, atag)
			if !ok {
				o.Discard = true
				return o, nil
			}
			stmt := schSQL(tableRef("", dir, 0, dmlForm(s.Form, 0)), s.K, s, atag, *m.C)
			if r := execA(stmt); r.Err != nil {
				return o, fw.V("a_change_error:"+s.K+":"+rule, "%s failed in transaction A (nobody else holds the table; the table as A must see it is %s = %s): %s %v%s", stmt, *m.C, ruleText[rule], run.ErrClass(r.Err), r.Err, tail())
			}
			m.C, m.dirty = &next, true
			class("A." + s.K + ":" + rule)
			tok(s.K[:2] + rule)
		case "commit", "rollback":
			before := fileNow()
			flag := m.end(s.K == "commit")
			if r := execA(strings.ToUpper(s.K) + ";"); r.Err != nil {
				return o, fw.V("a_"+s.K+"_error", "%s failed in transaction A: %v%s", strings.ToUpper(s.K), r.Err, tail())
			}
			if s.K == "rollback" && fileNow() != before {
				return o, fw.V("rollback_changed_file", "ROLLBACK changed the file: %q -> %q%s", before, fileNow(), tail())
			}
			readInTxn, bSinceRead, bAltered = false, false, false
			class(fmt.Sprintf("A.%s:changes=%v", s.K, flag))
			tok(strings.ToUpper(s.K[:1]))
		case "b":
			mustFail := m.C != nil && m.fu
			next, ok := schApply(m.F, s.BK, s, btag)
			if !ok {
				o.Discard = true
				return o, nil
			}
			sql := schSQL(tableRef("", dir, 0, dmlForm(s.Form, 0)), s.BK, s, btag, m.F) + " COMMIT;"
			before := fileNow()
			out := runB(histCase{}, dir, sql, bWait, 0)
			if out.class == "harness" {
				return o, fw.Harness("B: %s", out.msg)
			}
			if !mustFail && strings.HasPrefix(out.class, "E8/") {
				fw.AddExtra("b_success_retries", 1)
				out = runB(histCase{}, dir, sql, bWaitRetry, 0)
			}
			if mustFail && out.class != lockTO && strings.HasPrefix(out.class, "E8/") {
				fw.AddExtra("b_timeout_retries", 1)
				out = runB(histCase{}, dir, sql, 2*time.Second, 0)
			}
			line := "B: " + sql
			if out.class != "" {
				line += "   -> " + out.class + " " + out.msg
			} else {
				line += "   -> committed"
			}
			trace = append(trace, line)
			if mustFail {
				fw.AddExtra("b_lock_timeouts", 1)
				if out.class == "" {
					return o, fw.V("b_committed_while_held_for_update", "another process changed and committed t1 while transaction A holds it for update%s", tail())
				}
				if out.class != lockTO {
					return o, fw.V("b_blocked_wrong_error:"+out.class, "process B failed with %s %s; the lock wait timeout error (%s) is expected while A holds t1 for update%s", out.class, out.msg, lockTO, tail())
				}
				if fileNow() != before {
					return o, fw.V("b_failed_but_file_changed", "process B timed out on the lock but the file changed: %q -> %q%s", before, fileNow(), tail())
				}
				class("B.blocked:" + s.BK)
				tok("bX")
				break
			}
			if out.class != "" {
				return o, fw.V("b_failed_without_holder:"+out.class, "process B failed with %s %s although nobody holds t1 for update%s", out.class, out.msg, tail())
			}
			m.F = next
			if m.C != nil {
				class("B.commit:" + s.BK + ":table_cached_read_only_by_A")
			} else {
				class("B.commit:" + s.BK + ":table_not_loaded_by_A")
			}
			if readInTxn {
				bSinceRead = true
				if s.BK == "add" || s.BK == "drop" || s.BK == "ren" {
					bAltered = true
				}
			}
			tok("b" + s.BK[:1])
		default:
			o.Discard = true
			return o, nil
		}
	}
	a.Close()
	m.end(false)
	fin, err := run.NewSess(run.Opt{Dir: dir})
	if err != nil {
		return o, fw.Harness("session: %v", err)
	}
	defer fin.Close()
	tb, err := fin.Query("SELECT * FROM t1;")
	if err != nil {
		return o, fw.V("final_read_error", "after the history SELECT * FROM t1 fails in a new process: %v (file %q)%s", err, fileNow(), tail())
	}
	if got := schObserved(tb); !got.equal(m.F) {
		return o, fw.V("final_file_differs", "after the history t1 holds %s, expected %s%s", got, m.F, tail())
	}
	if nontrivial {
		o.Fingerprint = strings.Join(toks, "")
	}
	return o, nil
}

func TestC20Schema(t *testing.T) {
	fw.Run(t, fw.Spec[schCase]{
		ID: "C20", Name: "schema", Quick: 1000, Thorough: 20000,
		Gen: genSchema, Check: checkSchema,
		Rule: "one CSV table (k, c1; 1-4 records) and a history of 4-16 steps: transaction A (one in-process session) does SELECT *, SELECT * FOR UPDATE, ALTER TABLE .. ADD col [DEFAULT 'x'] [FIRST | LAST | AFTER c | BEFORE c], ALTER TABLE .. DROP col, ALTER TABLE .. RENAME col TO new, UPDATE of one column, INSERT with a value per column, COMMIT, ROLLBACK (table spelled as name / file name / absolute path / aliased, in half of the statements of A and B through a redundant spelling of the path: ./p, sub/../p, <dir>/p, <dir>//p, <dir>/./p, <dir>/sub/../p); between A's statements other processes B (fresh sessions, 50 ms lock wait) do one of the same ALTER TABLE / UPDATE / INSERT statements, COMMIT and end. Model: the table is a list of column names plus rows of cells (text / NULL); file F and A's cache with the rules of check history (plain SELECT: cache or F; first data-changing access - ALTER TABLE included - to a copy loaded by a plain SELECT reloads F, so A then sees the columns another process has committed meanwhile; afterwards snapshot + own changes; COMMIT writes, ROLLBACK discards). Every SELECT * of A is compared with the model: column names in order and all cells; A's statements are spelled for the columns the model says A sees, so a stale or prematurely refreshed structure also shows as a failing statement; B commits iff A does not hold the table, else lock wait timeout and byte-identical file; at the end SELECT * in a new session equals F. Non-trivial = a successful B commit between two A reads inside one A transaction; distinct by the compressed sequence of (step kind, model rule)",
		Assumptions: []string{
			"other processes act between A's statements (statement-level interleaving)",
			"the key column k is never dropped, renamed or updated; new column names are unique per history (n<step>, r<step>), so a statement never fails for a duplicate or unknown column when csvq sees the table the model says it sees",
			"B's lock wait (50 ms) is semantic: A holds its locks for as long as B waits; a B that times out where the model says it must commit is retried once with 30 s",
			"cells are plain text or NULL (a column added without DEFAULT holds NULL, an empty CSV field)",
		},
	})
}
