package c14

// Generator of C14 programs: a signature table for the built-in functions
// (names are enumerated at run time from csvq's exported maps; the table only
// says which kinds of argument make a call meaningful), a typed expression
// generator over literals, variables, table cells, cursor values, function
// parameters and placeholders, statement templates for every clause, and the
// repetition wrappers (twice, WHILE, function, prepared statement, many rows).

import (
	"fmt"
	"sort"
	"strings"

	"github.com/mithrandie/csvq/lib/option"
	"github.com/mithrandie/csvq/lib/query"
	"pgregory.net/rapid"

	"verif/internal/fw"
)

// ---------------------------------------------------------------------
// Genuine defect found by this check (signature from_subquery_poisons_fileinfo,
// fixed in /repo by "a subquery in FROM no longer rewrites the cached table's
// file information"): a FROM-subquery marked the FileInfo it shared with the
// cached table as an inline table without a path (lib/query/load_view.go,
// parser.Subquery branch of loadView), after which DML on the file failed with
// "file  does not exist", INSERT into a temporary table failed with "inline
// table cannot be updated" and UPDATE/DELETE on a temporary table were silently
// lost. Setting the flag to true keeps FROM-subqueries on the sacrificial
// temporary table ts, which no probe and no DML looks at.
const avoidKnownFromSubqueryOverFile = false

// ---------------------------------------------------------------------
// signature table. "ret:required|optional"
//   n number   k small count   s string   d datetime   b boolean   a any
//   R regular expression   G regexp flags   M datetime format   E encoding
//   P pad type   Z time zone   Q json query   J json text   B/O/H binary,
//   octal, hexadecimal digits   X e-notation   6 base64 text   8 hex text
//   S short separator   L separated list   g sign (-1,0,1)
//   T string that is never NULL (csvq raises an error otherwise)   p non-empty ASCII pad string
// A trailing '*' repeats the last optional argument.
var sigTable = map[string]string{
	"COALESCE": "a:a|aa", "IF": "a:baa", "IFNULL": "a:aa", "NULLIF": "a:aa",
	"CEIL": "n:n|k", "FLOOR": "n:n|k", "ROUND": "n:n|k",
	"ABS": "n:n", "ACOS": "n:n", "ACOSH": "n:n", "ASIN": "n:n", "ASINH": "n:n", "ATAN": "n:n", "ATAN2": "n:nn", "ATANH": "n:n",
	"CBRT": "n:n", "COS": "n:n", "COSH": "n:n", "EXP": "n:n", "EXP2": "n:n", "EXPM1": "n:n", "IS_INF": "b:n|g", "IS_NAN": "b:n",
	"LOG": "n:n", "LOG10": "n:n", "LOG1P": "n:n", "LOG2": "n:n", "LOGB": "n:n", "POW": "n:nn", "SIN": "n:n", "SINH": "n:n",
	"SQRT": "n:n", "TAN": "n:n", "TANH": "n:n",
	"BIN_TO_DEC": "n:B", "OCT_TO_DEC": "n:O", "HEX_TO_DEC": "n:H", "ENOTATION_TO_DEC": "n:X",
	"BIN": "s:n", "OCT": "s:n", "HEX": "s:n", "ENOTATION": "s:n", "NUMBER_FORMAT": "s:n|kSSS",
	"TRIM": "s:s|s", "LTRIM": "s:s|s", "RTRIM": "s:s|s", "UPPER": "s:s", "LOWER": "s:s",
	"BASE64_ENCODE": "s:s", "BASE64_DECODE": "s:6", "HEX_ENCODE": "s:s", "HEX_DECODE": "s:8",
	"LEN": "n:s", "BYTE_LEN": "n:s|E", "WIDTH": "n:s", "LPAD": "s:skp|PE", "RPAD": "s:skp|PE",
	"SUBSTRING": "s:sk|k", "SUBSTR": "s:sk|k", "INSTR": "n:ss", "LIST_ELEM": "s:LSk", "REPLACE": "s:sss",
	"REGEXP_MATCH": "b:sR|G", "REGEXP_FIND": "s:sR|G", "REGEXP_FIND_SUBMATCHES": "s:sR|G", "REGEXP_FIND_ALL": "s:sR|G",
	"REGEXP_REPLACE": "s:sRT|G", "TITLE_CASE": "s:T", "FORMAT": "s:", "JSON_VALUE": "s:QJ", "JSON_OBJECT": "s:",
	"MD5": "s:s", "SHA1": "s:s", "SHA256": "s:s", "SHA512": "s:s",
	"MD5_HMAC": "s:ss", "SHA1_HMAC": "s:ss", "SHA256_HMAC": "s:ss", "SHA512_HMAC": "s:ss",
	"DATETIME_FORMAT": "s:dM", "YEAR": "n:d", "MONTH": "n:d", "DAY": "n:d", "HOUR": "n:d", "MINUTE": "n:d", "SECOND": "n:d",
	"MILLISECOND": "n:d", "MICROSECOND": "n:d", "NANOSECOND": "n:d", "WEEKDAY": "n:d", "UNIX_TIME": "n:d", "UNIX_NANO_TIME": "n:d",
	"DAY_OF_YEAR": "n:d", "WEEK_OF_YEAR": "n:d",
	"ADD_YEAR": "d:dk", "ADD_MONTH": "d:dk", "ADD_DAY": "d:dk", "ADD_HOUR": "d:dk", "ADD_MINUTE": "d:dk", "ADD_SECOND": "d:dk",
	"ADD_MILLI": "d:dk", "ADD_MICRO": "d:dk", "ADD_NANO": "d:dk",
	"TRUNC_MONTH": "d:d", "TRUNC_DAY": "d:d", "TRUNC_TIME": "d:d", "TRUNC_HOUR": "d:d", "TRUNC_MINUTE": "d:d", "TRUNC_SECOND": "d:d",
	"TRUNC_MILLI": "d:d", "TRUNC_MICRO": "d:d", "TRUNC_NANO": "d:d",
	"DATE_DIFF": "n:dd", "TIME_DIFF": "n:dd", "TIME_NANO_DIFF": "n:dd", "UTC": "d:d",
	"MILLI_TO_DATETIME": "d:n", "NANO_TO_DATETIME": "d:n",
	"STRING": "s:a", "INTEGER": "n:a", "FLOAT": "n:a", "BOOLEAN": "b:a", "TERNARY": "b:a", "DATETIME": "d:a|Z",
}

// nondeterministic or environment-reading functions are never generated.
var excludedFunctions = map[string]bool{"RAND": true, "NOW": true, "CALL": true}

var (
	allFns   []string            // every generated scalar function name
	fnsByRet = map[byte][]string{} // by return kind; 'a'-returning functions are listed under every kind
	aggFns   []string
	anaFns   []string
)

func init() {
	for name := range query.Functions {
		if !excludedFunctions[name] {
			allFns = append(allFns, name)
		}
	}
	allFns = append(allFns, "JSON_OBJECT") // dispatched by name in evalFunction, not through the map
	sort.Strings(allFns)
	for _, name := range allFns {
		r := retOf(name)
		if r == 'a' {
			for _, k := range []byte("nsdb") {
				fnsByRet[k] = append(fnsByRet[k], name)
			}
		} else {
			fnsByRet[r] = append(fnsByRet[r], name)
		}
	}
	for name := range query.AggregateFunctions {
		aggFns = append(aggFns, name)
	}
	aggFns = append(aggFns, "LISTAGG", "JSON_AGG")
	sort.Strings(aggFns)
	for name := range query.AnalyticFunctions {
		anaFns = append(anaFns, name)
	}
	sort.Strings(anaFns)
}

func sigOf(name string) (ret byte, req, opt string) {
	s, ok := sigTable[name]
	if !ok {
		return 's', "a", "" // a function this table does not know: one argument of any kind
	}
	i := strings.IndexByte(s, ':')
	ret = s[0]
	rest := s[i+1:]
	if j := strings.IndexByte(rest, '|'); j >= 0 {
		return ret, rest[:j], rest[j+1:]
	}
	return ret, rest, ""
}

func retOf(name string) byte { r, _, _ := sigOf(name); return r }

// ---------------------------------------------------------------------
// value pools (none contains a poison sentinel or a run of sevens)

var (
	poolInt   = []string{"1", "-3", "10", "42", "-50", "7", "100", "0", "2147483648", "12"}
	poolFloat = []string{"1.5", "-0.25", "2.25", "100.0", "3e2", "0.1", "-7.5", "0.001", "6.0"}
	poolStr   = []string{"abc", "Def", " pad ", "a,b,c", "日本語", "x'y", "12", "-4.5", "true", "Hello World", "été", "", "a\\b", "xyzzy abc"}
	poolDt    = []string{"2012-02-03 04:05:06", "2020-12-31", "2012-02-03T04:05:06.123456789Z", "1999-01-01 00:00:00.5", "2016-02-29 23:59:59", "2012-02-03 04:05:06 -08:00"}
	poolJson  = []string{`{"a":1,"b":[1,2,"x"]}`, `[1,2,3]`, `{"a":{"c":"d"},"b":[]}`, `{"a":"v","b":[10,20]}`}
	poolBool  = []string{"true", "false", "1", "0", "TRUE"}
	poolRe    = []string{`[a-c]+`, `^(\w)(\w*)`, `\d+`, `(?P<x>[A-Z])`, `l+o`, `\s`, `.`}
	poolLike  = []string{"a%", "%b%", "_e%", "%", "D__", "%日%"}
	poolFmt   = []string{"%Y-%m-%d", "%H:%i:%s.%f", "%a %b %e %y", "%Y%m%d%H%i%s", "%c/%d %h %p", "%N %Z"}
	poolQuery = []string{"a", "b[1]", "a.c", "b", "b[]", "[0]"}
	poolSep   = []string{",", " ", "-", "::", "b"}
)

const colList = "id, g, i, f, s, d, k, j, b"

// operands of the row-count clauses: literals, expressions, and bare (or merely parenthesised) variables, whose own
// object is what the clause receives. @vl is 1..5 (integer), @vpc 40 (integer), @vf2 37.5 (float).
var (
	rowCounts  = []string{"3", "5", "(1 + 2)", "@vk + 1", "@vl", "@vl", "(@vl)", "(3)"}
	rowOffsets = []string{"1", "2", "@vk", "@vk", "(@vk)", "@vl", "(1)"}
)

var colNames = strings.Split(colList, ", ")

// genBase draws p distinct-looking row tuples (without id): g i f s d k j b; nil = NULL.
func genBase(t *rapid.T, p int) [][]*string {
	str := func(s string) *string { return &s }
	rows := make([][]*string, p)
	for r := range rows {
		cell := func(label string, pool []string, nullPct int) *string {
			if fw.Pct(t, label+"null", nullPct) {
				return nil
			}
			return str(fw.PickU(t, label, pool))
		}
		rows[r] = []*string{
			str(fmt.Sprint(r % 3)),
			cell("i", poolInt, 12),
			cell("f", poolFloat, 12),
			cell("s", poolStr, 12),
			cell("d", poolDt, 12),
			str(fmt.Sprint(fw.Uniform(t, "k", 6))),
			cell("j", poolJson, 20),
			cell("b", poolBool, 12),
		}
	}
	return rows
}

func quote(s string) string { return "'" + option.EscapeString(s) + "'" }

// ---------------------------------------------------------------------
// expression generator

type gx struct {
	t      *rapid.T
	cols   bool   // column references allowed
	qual   string // qualifier of the column references
	quals  []string
	pN     []string // function parameters / loop variables usable as number, string, datetime, count
	pS     []string
	pD     []string
	pK     []string
	prep   bool // placeholders allowed
	using  []string
	nph    int
	subq   bool   // subqueries allowed
	noVars bool
	budget int
	uses   map[string]bool
	leaves map[string]bool

	fromSubq bool // a FROM-subquery was generated
	wn       bool   // the case's without_null attribute of the companion files
	pos      string // delimiter positions of the fixed-length companion file
	narrow   bool   // only the columns of the fixed-length file (id g i f k b) exist
	natural  bool   // arguments are bare variables / fetched values / cells that already have the documented type
}

func newGx(t *rapid.T, uses, leaves map[string]bool) *gx {
	return &gx{t: t, budget: 10, uses: uses, leaves: leaves}
}

func (g *gx) pct(label string, p int) bool { return fw.Pct(g.t, label, p) }
func (g *gx) pick(label string, xs []string) string { return fw.PickU(g.t, label, xs) }

func (g *gx) col(name string) string {
	q := g.qual
	if len(g.quals) > 0 {
		q = g.pick("qual", g.quals)
	}
	return q + name
}

func (g *gx) literal(ty byte) string {
	switch ty {
	case 'n':
		if g.pct("litFloat", 40) {
			return g.pick("litF", poolFloat)
		}
		return g.pick("litI", poolInt)
	case 's':
		return quote(g.pick("litS", poolStr))
	case 'd':
		return quote(g.pick("litD", poolDt))
	case 'b':
		return g.pick("litB", []string{"TRUE", "FALSE", "TRUE", "FALSE", "UNKNOWN"})
	case 'k':
		return fmt.Sprint(fw.Uniform(g.t, "litK", 7))
	}
	return "NULL"
}

// leaf returns a literal, variable, table cell, cursor value, parameter or placeholder of the kind.
func (g *gx) leaf(ty byte) string {
	type src struct {
		kind string
		w    int
		txt  []string
	}
	var vars, curs, cells, params []string
	switch ty {
	case 'n':
		vars, curs, cells, params = []string{"@vi", "@vf"}, []string{"@ci", "@cf"}, []string{"i", "f"}, g.pN
	case 's':
		vars, curs, cells, params = []string{"@vs"}, []string{"@cs"}, []string{"s", "s", "s", "j"}, g.pS
	case 'd':
		vars, curs, cells, params = []string{"@vd"}, []string{"@cd"}, []string{"d"}, g.pD
	case 'b':
		vars, cells = []string{"@vb"}, []string{"b"}
	case 'k':
		vars, curs, cells, params = []string{"@vk"}, []string{"@ck"}, []string{"k"}, g.pK
	}
	if g.narrow && (ty == 's' || ty == 'd') {
		cells = nil
	}
	srcs := []src{{"lit", 25, nil}}
	if g.natural {
		srcs = nil // only values that are OWNED by something that is read again: variables, fetched values, cells
	}
	if !g.noVars {
		srcs = append(srcs, src{"var", 20, vars})
		if len(curs) > 0 {
			srcs = append(srcs, src{"cursor", 15, curs})
		}
	}
	if g.cols && len(cells) > 0 {
		srcs = append(srcs, src{"cell", 45, cells})
	}
	if len(params) > 0 {
		srcs = append(srcs, src{"param", 45, params})
	}
	if g.prep && !g.natural {
		srcs = append(srcs, src{"placeholder", 30, nil})
	}
	if len(srcs) == 0 {
		srcs = []src{{"lit", 25, nil}}
	}
	ws := make([]int, len(srcs))
	for i, s := range srcs {
		ws[i] = s.w
	}
	s := srcs[fw.Weighted(g.t, "leafSrc", ws)]
	g.leaves[s.kind] = true
	// an atom in parentheses (or under a unary plus) evaluates to the very object the variable, cell or literal
	// owns, while the syntax node above it is not an atom any more
	wrap := func(x string) string {
		switch fw.Weighted(g.t, "leafWrap", []int{80, 14, 3, 3}) {
		case 1:
			g.leaves["parenthesised"] = true
			return "(" + x + ")"
		case 2:
			g.leaves["parenthesised"] = true
			return "((" + x + "))"
		case 3:
			if ty == 'n' || ty == 'k' {
				g.leaves["unary_plus_atom"] = true
				return "(+ " + x + ")"
			}
		}
		return x
	}
	switch s.kind {
	case "lit":
		return wrap(g.literal(ty))
	case "cell":
		return wrap(g.col(g.pick("cell", s.txt)))
	case "placeholder":
		var v string
		if g.pct("phVar", 40) && len(vars) > 0 {
			v = g.pick("phv", vars)
		} else {
			v = g.literal(ty)
		}
		if g.pct("phNamed", 30) {
			g.nph++
			name := fmt.Sprintf("ph%d", g.nph)
			g.using = append(g.using, v+" AS "+name)
			return ":" + name
		}
		// a positional placeholder takes the value at its own ordinal among ALL placeholders of the statement
		// (named ones included): the values are listed in the order in which the placeholders appear in the text
		g.using = append(g.using, v)
		return "?"
	}
	return wrap(g.pick(s.kind, s.txt))
}

func (g *gx) special(ty byte) string {
	switch ty {
	case 'R':
		return quote(g.pick("re", poolRe))
	case 'G':
		return quote(g.pick("reflag", []string{"i", "m", "s", "U", "im"}))
	case 'M':
		return quote(g.pick("dfmt", poolFmt))
	case 'E':
		return quote(g.pick("enc", []string{"UTF8", "SJIS", "UTF16", "UTF8M"}))
	case 'P':
		return quote(g.pick("padtype", []string{"LEN", "BYTE", "WIDTH"}))
	case 'Z':
		return quote(g.pick("tz", []string{"UTC", "Local"}))
	case 'Q':
		return quote(g.pick("jq", poolQuery))
	case 'J':
		if g.cols && !g.narrow && g.pct("jcell", 50) {
			g.leaves["cell"] = true
			return g.col("j")
		}
		return quote(g.pick("js", poolJson))
	case 'B':
		return quote(g.pick("bin", []string{"1010", "0b11", "1", "2"}))
	case 'O':
		return quote(g.pick("oct", []string{"17", "0o7", "0", "9"}))
	case 'H':
		return quote(g.pick("hex", []string{"ff", "0x1A", "7e", "g"}))
	case 'X':
		return quote(g.pick("eno", []string{"1.5e2", "-3e-1", "2E10", "e"}))
	case '6':
		return quote(g.pick("b64", []string{"YWJj", "5pel5pys6Kqe", "!!", ""}))
	case '8':
		return quote(g.pick("hexs", []string{"616263", "e697a5", "zz", ""}))
	case 'S':
		return quote(g.pick("sep", poolSep))
	case 'L':
		if g.pct("listleaf", 50) {
			return g.leaf('s')
		}
		return quote(g.pick("list", []string{"a,b,c", "x y z", "1-2-3", "p::q"}))
	case 'g':
		return g.pick("sign", []string{"-1", "0", "1"})
	case 'p':
		return quote(g.pick("pad", []string{"*", "ab", "0", " ", "xyz"}))
	case 'T':
		switch fw.Uniform(g.t, "nonNull", 3) {
		case 0:
			g.leaves["lit"] = true
			return g.literal('s')
		case 1:
			if !g.noVars {
				g.leaves["var"] = true
				return "@vs"
			}
		}
		return "COALESCE(" + g.expr('s', 2) + ", " + g.literal('s') + ")"
	}
	return "NULL"
}

func (g *gx) expr(ty byte, d int) string {
	switch ty {
	case 'k':
		return g.leaf('k')
	case 'n', 's', 'd', 'b':
	case 'a':
		if !g.natural && g.pct("anyNull", 8) {
			if g.noVars || g.pct("nullLit", 50) {
				g.leaves["lit"] = true
				return "NULL"
			}
			g.leaves["var"] = true
			return "@vn"
		}
		ty = "nsdb"[fw.Uniform(g.t, "anyTy", 4)]
	default:
		return g.special(ty)
	}
	if g.natural || d <= 0 || g.budget <= 0 || g.pct("leaf", 30) {
		return g.leaf(ty)
	}
	g.budget--
	ws := []int{50, 30, 10, 10}
	if g.subq {
		ws = []int{40, 25, 10, 25}
	}
	switch fw.Weighted(g.t, "form", ws) {
	case 0:
		return g.call(g.pick("fn", fnsByRet[ty]), d, ty)
	case 1:
		return g.operator(ty, d)
	case 2:
		return g.caseExpr(ty, d)
	}
	if g.subq {
		return g.subquery(ty, d)
	}
	return g.operator(ty, d)
}

// arg generates an argument of a signature letter; with a small probability a kind other than the documented one.
func (g *gx) arg(c byte, d int, want byte) string {
	switch c {
	case 'n', 's', 'd', 'b':
		if !g.natural && g.pct("offType", 12) {
			c = 'a'
		}
	case 'a':
		if want != 0 && (g.natural || !g.pct("anyFree", 25)) {
			c = want
		}
	}
	return g.expr(c, d-1)
}

// (no precision on %s: FORMAT('%.2s', 'a') panics with "slice bounds out of range" when the string is shorter
// than the precision, string_formatter.go - an evaluator panic, which is property C19's subject)
var fmtSpecs = []struct {
	f string
	a string
}{
	{"%s-%d", "sn"}, {"%q|%08.3f", "sn"}, {"%T %T", "aa"}, {"%-6s|%+d|%x", "snn"}, {"%i %e", "sn"}, {"%5s%%", "s"}, {"%b %o %X %E", "nnnn"}, {"%s", "d"},
}

func (g *gx) call(name string, d int, want byte) string {
	g.uses[name] = true
	switch name {
	case "FORMAT":
		sp := fmtSpecs[fw.Uniform(g.t, "fmtspec", len(fmtSpecs))]
		parts := []string{quote(sp.f)}
		for i := 0; i < len(sp.a); i++ {
			parts = append(parts, g.arg(sp.a[i], d, 0))
		}
		return "FORMAT(" + strings.Join(parts, ", ") + ")"
	case "JSON_OBJECT":
		n := 1 + fw.Uniform(g.t, "jo", 3)
		parts := make([]string, n)
		for i := range parts {
			parts[i] = fmt.Sprintf("%s AS o%d", g.expr('a', d-1), i)
		}
		return "JSON_OBJECT(" + strings.Join(parts, ", ") + ")"
	}
	_, req, opt := sigOf(name)
	sig := req
	if opt != "" && g.pct("optArgs", 50) {
		sig += opt[:1+fw.Uniform(g.t, "nopt", len(opt))]
	}
	if name == "NUMBER_FORMAT" && len(sig) > 1 {
		sig = req + opt // documented as all-or-nothing
	}
	args := make([]string, len(sig))
	for i := 0; i < len(sig); i++ {
		args[i] = g.arg(sig[i], d, want)
	}
	if name == "IF" && want != 0 {
		args[0] = g.expr('b', d-1)
	}
	if name == "SUBSTRING" && g.pct("substrFrom", 40) {
		s := "SUBSTRING(" + args[0] + " FROM " + args[1]
		if len(args) > 2 {
			s += " FOR " + args[2]
		}
		return s + ")"
	}
	return name + "(" + strings.Join(args, ", ") + ")"
}

func (g *gx) use(op string) { g.uses["op:"+op] = true }

func (g *gx) nonZero() string {
	g.leaves["lit"] = true
	return g.pick("nz", []string{"2", "3", "-4", "7", "0.5", "2.5", "-1.25", "10"})
}

func (g *gx) operator(ty byte, d int) string {
	switch ty {
	case 'n':
		switch fw.Uniform(g.t, "arith", 7) {
		case 0:
			g.use("+")
			return "(" + g.expr('n', d-1) + " + " + g.expr('n', d-1) + ")"
		case 1:
			g.use("-")
			return "(" + g.expr('n', d-1) + " - " + g.expr('n', d-1) + ")"
		case 2:
			g.use("*")
			return "(" + g.expr('n', d-1) + " * " + g.expr('n', d-1) + ")"
		case 3:
			g.use("/")
			return "(" + g.expr('n', d-1) + " / " + g.nonZero() + ")"
		case 4:
			g.use("%")
			return "(" + g.expr('n', d-1) + " % " + g.nonZero() + ")"
		case 5:
			g.use("unary-")
			return "(- " + g.expr('n', d-1) + ")"
		}
		g.use("unary+")
		return "(+ " + g.expr('n', d-1) + ")"
	case 's':
		g.use("||")
		n := 2 + fw.Uniform(g.t, "ncat", 2)
		parts := make([]string, n)
		for i := range parts {
			parts[i] = g.expr("ssna"[fw.Uniform(g.t, "catTy", 4)], d-1)
		}
		return "(" + strings.Join(parts, " || ") + ")"
	case 'd':
		return g.call(g.pick("fn", fnsByRet['d']), d, 'd')
	}
	// boolean
	opTy := "nsd"[fw.Uniform(g.t, "cmpTy", 3)]
	x := func() string {
		if g.pct("cmpMixed", 15) {
			return g.expr('a', d-1)
		}
		return g.expr(opTy, d-1)
	}
	switch fw.Uniform(g.t, "boolop", 17) {
	case 0, 1, 14, 15, 16:
		op := g.pick("cmp", []string{"=", "==", "<", "<=", ">", ">=", "<>", "!="})
		g.use(op)
		return "(" + x() + " " + op + " " + x() + ")"
	case 2:
		g.use("IS NULL")
		return "(" + g.expr('a', d-1) + g.pick("isnull", []string{" IS NULL", " IS NOT NULL"}) + ")"
	case 3:
		g.use("IS")
		return "(" + g.expr('b', d-1) + g.pick("ist", []string{" IS TRUE", " IS NOT FALSE", " IS UNKNOWN", " IS NOT TRUE"}) + ")"
	case 4:
		g.use("BETWEEN")
		return "(" + x() + g.pick("btw", []string{" BETWEEN ", " NOT BETWEEN "}) + x() + " AND " + x() + ")"
	case 5:
		g.use("IN")
		return "(" + x() + g.pick("in", []string{" IN ", " NOT IN "}) + "(" + x() + ", " + x() + ", " + x() + "))"
	case 6:
		g.use("LIKE")
		return "(" + g.expr('s', d-1) + g.pick("like", []string{" LIKE ", " NOT LIKE "}) + quote(g.pick("pat", poolLike)) + ")"
	case 7:
		op := g.pick("anyop", []string{"=", "<", ">=", "<>"})
		q := g.pick("anyall", []string{"ANY", "ALL"})
		g.use(q)
		return "(" + x() + " " + op + " " + q + " (" + x() + ", " + x() + "))"
	case 8:
		// (a row value comparison with = < ... is only evaluable in a WHERE clause; IN works everywhere)
		g.use("rowin")
		return "((" + g.expr('n', d-1) + ", " + g.expr('s', d-1) + ") NOT IN ((" + g.expr('n', d-1) + ", " + g.expr('s', d-1) + "), (" + g.expr('n', d-1) + ", " + g.expr('s', d-1) + ")))"
	case 9:
		g.use("rowin")
		return "((" + g.expr('n', d-1) + ", " + g.expr('s', d-1) + ") IN ((" + g.expr('n', d-1) + ", " + g.expr('s', d-1) + "), (" + g.expr('n', d-1) + ", " + g.expr('s', d-1) + ")))"
	case 10:
		g.use("NOT")
		return "(NOT " + g.expr('b', d-1) + ")"
	case 11:
		g.use("AND")
		return "(" + g.expr('b', d-1) + " AND " + g.expr('b', d-1) + ")"
	case 12:
		g.use("OR")
		return "(" + g.expr('b', d-1) + " OR " + g.expr('b', d-1) + ")"
	}
	return g.call(g.pick("fn", fnsByRet['b']), d, 'b')
}

func (g *gx) caseExpr(ty byte, d int) string {
	g.use("CASE")
	if g.pct("caseSimple", 40) {
		cty := "nsk"[fw.Uniform(g.t, "caseTy", 3)]
		return "CASE " + g.expr(cty, d-1) + " WHEN " + g.expr(cty, d-1) + " THEN " + g.expr(ty, d-1) + " WHEN " + g.expr(cty, d-1) + " THEN " + g.expr(ty, d-1) +
			g.pick("caseElse", []string{"", " ELSE " + g.leaf(ty)}) + " END"
	}
	return "CASE WHEN " + g.expr('b', d-1) + " THEN " + g.expr(ty, d-1) + " ELSE " + g.expr(ty, d-1) + " END"
}

// aggCall renders an aggregate function over an expression (inside a grouped query or as an analytic function).
func (g *gx) aggCall(name string, d int, within bool) string {
	g.uses[name] = true
	distinct := ""
	if g.pct("distinct", 25) {
		distinct = "DISTINCT "
	}
	switch name {
	case "COUNT":
		if g.pct("countStar", 40) {
			return "COUNT(" + distinct + "*)"
		}
		return "COUNT(" + distinct + g.expr('a', d) + ")"
	case "MIN", "MAX":
		return name + "(" + g.expr('a', d) + ")"
	case "LISTAGG":
		s := "LISTAGG(" + distinct + g.expr("sn"[fw.Uniform(g.t, "laTy", 2)], d)
		if g.pct("laSep", 70) {
			s += ", " + g.special('S')
		}
		s += ")"
		if within {
			s += " WITHIN GROUP (ORDER BY " + g.col("id") + g.pick("laDir", []string{"", " DESC"}) + ")"
		}
		return s
	case "JSON_AGG":
		s := "JSON_AGG(" + distinct + g.expr('a', d) + ")"
		if within {
			s += " WITHIN GROUP (ORDER BY " + g.col("id") + ")"
		}
		return s
	}
	if _, known := query.AggregateFunctions[name]; known {
		return name + "(" + distinct + g.expr('n', d) + ")"
	}
	return name + "(" + g.expr('a', d) + ")"
}

// subquery renders a subquery whose rows come from t or tt, correlated with the outer leaves.
func (g *gx) subquery(ty byte, d int) string {
	g.use("subquery")
	src := g.pick("subSrc", []string{"t", "tt"})
	// the inner expressions see the outer leaves and the inner columns qualified by x
	inner := func(c byte) string {
		sc, sq, sqs, ss := g.cols, g.qual, g.quals, g.subq
		g.cols, g.qual, g.quals, g.subq = true, "x.", nil, false
		s := g.expr(c, 1)
		g.cols, g.qual, g.quals, g.subq = sc, sq, sqs, ss
		return s
	}
	innerAgg := func(name string) string {
		sc, sq, sqs, ss := g.cols, g.qual, g.quals, g.subq
		g.cols, g.qual, g.quals, g.subq = true, "x.", nil, false
		s := g.aggCall(name, 1, true)
		g.cols, g.qual, g.quals, g.subq = sc, sq, sqs, ss
		return s
	}
	corr := func() string {
		// x.k / x.g against an outer count: the outer row decides which inner rows match
		return "x." + g.pick("corrCol", []string{"k", "g"}) + " = " + g.leaf('k')
	}
	switch ty {
	case 'b':
		switch fw.Uniform(g.t, "subB", 4) {
		case 0:
			g.use("EXISTS")
			return "EXISTS (SELECT 1 FROM " + src + " x WHERE " + corr() + " AND " + inner('b') + ")"
		case 1:
			g.use("IN subquery")
			return "(" + g.expr('n', d-1) + " IN (SELECT " + inner('n') + " FROM " + src + " x WHERE " + corr() + "))"
		case 2:
			q := g.pick("subAnyAll", []string{"ANY", "ALL"})
			g.use(q + " subquery")
			return "(" + g.expr('n', d-1) + " " + g.pick("subop", []string{"=", "<", ">="}) + " " + q + " (SELECT " + inner('n') + " FROM " + src + " x WHERE " + corr() + "))"
		}
		g.use("rowin subquery")
		return "((" + g.expr('n', d-1) + ", " + g.expr('s', d-1) + ") IN (SELECT " + inner('n') + ", " + inner('s') + " FROM " + src + " x WHERE " + corr() + "))"
	}
	if g.pct("subById", 40) {
		// at most one row: id is unique
		return "(SELECT " + inner(ty) + " FROM " + src + " x WHERE x.id = " + g.leaf('k') + " + 1)"
	}
	var agg string
	switch ty {
	case 'n':
		agg = innerAgg(g.pick("subAggN", []string{"COUNT", "SUM", "AVG", "MAX", "MIN", "MEDIAN", "STDEV", "VARP"}))
	case 's':
		agg = innerAgg(g.pick("subAggS", []string{"LISTAGG", "JSON_AGG", "MIN", "MAX"}))
	default:
		agg = innerAgg(g.pick("subAggD", []string{"MIN", "MAX"}))
	}
	return "(SELECT " + agg + " FROM " + src + " x WHERE " + corr() + ")"
}

// ---------------------------------------------------------------------
// statement templates

type stmt struct {
	sql      string
	periodic bool // output rows are (id, f(row data)): rows id and id+P must agree
}

// fields renders 1-3 select fields; about half of them are calls of a function drawn uniformly from all built-ins.
func (g *gx) fields(n int, d int) string {
	parts := make([]string, n)
	for i := range parts {
		g.budget = 8
		if g.pct("fieldFn", 55) {
			parts[i] = g.call(g.pick("anyFn", allFns), d, 0)
		} else {
			parts[i] = g.expr('a', d)
		}
	}
	return strings.Join(parts, ", ")
}

func fromSrc(g *gx, label string) string {
	if g.pct(label+"Obj", 35) {
		return g.tableObject(g.pick(label+"ObjKind", []string{"csv", "tsv", "ltsv", "json", "jsonl"}))
	}
	return g.pick(label, []string{"t", "tt"})
}

// spell renders an argument of a table object as a literal, a variable or an expression with the same value.
func (g *gx) spell(label, lit, variable, expr string) string {
	switch fw.Uniform(g.t, label, 3) {
	case 0:
		g.leaves["tblobj_literal"] = true
		return lit
	case 1:
		g.leaves["tblobj_variable"] = true
		return variable
	}
	g.leaves["tblobj_expression"] = true
	return expr
}

func boolWord(b bool) string {
	if b {
		return "TRUE"
	}
	return "FALSE"
}

// tableObject renders a format-specified table object over t.csv or one of the companion files (same rows in
// another format). The attributes always have the same meaning (UTF8, with header, the case's without_null): a file
// is loaded once per session, so that only the spelling of the arguments and their number vary.
func (g *gx) tableObject(kind string) string {
	g.uses["src:"+kind+"_object"] = true
	enc := func() string { return g.spell("encSp", "'UTF8'", "@venc", g.pick("encEx", []string{"('UT' || 'F8')", "UPPER('utf8')"})) }
	nh := func() string { return g.spell("nhSp", "FALSE", "@vnh", "(1 = 2)") }
	wn := func() string {
		if g.wn {
			return g.spell("wnSp", "TRUE", "@vwn", "(1 = 1)")
		}
		return g.spell("wnSp", "FALSE", "@vwn", "(1 = 2)")
	}
	opt := func(fs ...func() string) string {
		n := fw.Uniform(g.t, "nObjArgs", len(fs)+1)
		if g.wn {
			n = len(fs) // a without_null that is not written would mean FALSE
		}
		s := ""
		for i := 0; i < n; i++ {
			s += ", " + fs[i]()
		}
		return s
	}
	switch kind {
	case "csv":
		return "CSV(" + g.spell("dlSp", "','", "@vdl", "SUBSTR(',;', 0, 1)") + ", `t.csv`" + opt(enc, nh, wn) + ")"
	case "tsv":
		return "CSV(" + g.spell("tabSp", "'\\t'", "@vtab", "('' || '\\t')") + ", `tx.tsv`" + opt(enc, nh, wn) + ")"
	case "ltsv":
		return "LTSV(`tx.ltsv`" + opt(enc, wn) + ")"
	case "json":
		return "JSON(" + g.spell("jqSp", "''", "@vjq", "('' || '')") + ", `tx.json`)"
	case "jsonl":
		return "JSONL(" + g.spell("jqSp", "''", "@vjq", "('' || '')") + ", `tx.jsonl`)"
	}
	return "FIXED(" + g.spell("posSp", "'"+g.pos+"'", "@vpos", "('[' || '"+g.pos[1:]+"')") + ", `tx.txt`" + opt(enc, nh, wn) + ")"
}

// commands renders 1-3 statements that are not queries but take a value: SET @@flag (to the value the flag already
// has in the session), ADD / REMOVE of a datetime format that matches no data, SET of an environment variable that
// nothing else reads, ECHO / PRINT / PRINTF / EXECUTE with replace values. The value is a literal, a variable, a
// variable in parentheses or (in a prepared statement) a placeholder bound to one of them.
func (g *gx) commands() string {
	val := func(label, lit, variable string) string {
		if g.prep && g.pct(label+"Ph", 40) {
			g.leaves["placeholder"] = true
			if g.pct(label+"PhVar", 60) {
				g.using = append(g.using, variable)
			} else {
				g.using = append(g.using, lit)
			}
			return "?"
		}
		switch fw.Uniform(g.t, label+"Sp", 4) {
		case 0:
			g.leaves["lit"] = true
			return lit
		case 1:
			g.leaves["parenthesised"] = true
			return "(" + variable + ")"
		}
		g.leaves["var"] = true
		return variable
	}
	n := 1
	if !g.prep {
		n += fw.Uniform(g.t, "ncommands", 3) // (a prepared statement holds one statement here: placeholders are numbered per statement)
	}
	var out []string
	for i := 0; i < n; i++ {
		kind := g.pick("command", []string{"set_flag", "set_flag", "datetime_format", "set_env", "echo", "printf", "execute_format"})
		if g.prep && (kind == "datetime_format" || kind == "execute_format") {
			kind = "set_flag"
		}
		g.uses["cmd:"+kind] = true
		switch kind {
		case "set_flag":
			eq := g.pick("setEq", []string{" TO ", " = "})
			switch fw.Uniform(g.t, "flag", 12) {
			case 0:
				out = append(out, "SET @@LIMIT_RECURSION"+eq+val("lr", "1000", "@vlr")+";")
			case 1:
				out = append(out, "SET @@WAIT_TIMEOUT"+eq+val("wt", "30.0", "@vwt")+";")
			case 2:
				out = append(out, "SET @@CPU"+eq+val("cpu", "@vcpu + 0", "@vcpu")+";")
			case 3:
				out = append(out, "SET @@QUIET"+eq+val("q", "TRUE", "@vq")+";")
			case 4:
				out = append(out, "SET @@STATS"+eq+val("st", "FALSE", "@vfalse")+";")
			case 5:
				out = append(out, "SET @@LINE_BREAK"+eq+val("lb", "'LF'", "@vlb")+";")
			case 6:
				out = append(out, "SET @@TIMEZONE"+eq+val("tz", "'UTC'", "@vtz")+";")
			case 7:
				out = append(out, "SET @@STRICT_EQUAL"+eq+val("se", "FALSE", "@vfalse")+";")
			case 8:
				out = append(out, "SET @@DELIMITER"+eq+val("dl", "','", "@vdl")+";")
			case 9:
				out = append(out, "SET @@JSON_QUERY"+eq+val("jq", "''", "@vjq")+";")
			case 10:
				out = append(out, "SET @@ENCLOSE_ALL"+eq+val("ea", "FALSE", "@vfalse")+";")
			default:
				out = append(out, "SET @@COLOR"+eq+val("co", "FALSE", "@vfalse")+";")
			}
		case "datetime_format":
			out = append(out, "ADD "+val("df", "'%Y/%m/%d %H'", "@vdfmt")+" TO @@DATETIME_FORMAT;", "REMOVE "+val("dfr", "'%Y/%m/%d %H'", "@vdfmt")+" FROM @@DATETIME_FORMAT;")
		case "set_env":
			out = append(out, "SET @%C14_ENV TO "+val("env", "'c14 env'", g.pick("envVar", []string{"@venv", "@vs", "@cs"}))+";")
			if !g.prep {
				out = append(out, "PRINT @%C14_ENV;")
			}
		case "echo":
			out = append(out, g.pick("echoWord", []string{"ECHO ", "PRINT "})+val("echo", "'c14 echo'", g.pick("echoVar", []string{"@vs", "@cs", "@venv", "@vi", "@vd", "@vf"}))+";")
		case "printf":
			a, b := val("pfa", "'c14'", g.pick("pfaVar", []string{"@vs", "@cs", "@vd"})), val("pfb", "12", g.pick("pfbVar", []string{"@vi", "@vf", "@ci", "@vk"}))
			out = append(out, "PRINTF "+g.pick("pfFmt", []string{"'%s|%s'", "'%q|%q'", "'%-8s|%s'"})+g.pick("pfUsing", []string{" USING ", ", "})+a+", "+b+";")
		case "execute_format":
			out = append(out, "EXECUTE 'PRINT %s + 1;' USING "+val("ex", "12", g.pick("exVar", []string{"@vi", "@vk", "@vl", "@ck"}))+";")
		}
	}
	return strings.Join(out, "\n")
}

// genStmt draws a pure statement. pid is the alias given to the id column of periodic statements.
// inBlock: the statement runs inside a loop or function body.
func genStmt(g *gx, pid string, kinds []string) stmt {
	d := 2 + fw.Uniform(g.t, "depth", 2)
	nf := 1 + fw.Uniform(g.t, "nfields", 3)
	g.cols, g.qual, g.quals = false, "", nil
	kind := g.pick("stmtKind", kinds)
	g.uses["stmt:"+kind] = true
	switch kind {
	case "print":
		g.budget = 10
		g.subq = g.pct("allowSubq", 30)
		s := "PRINT " + g.expr('a', d+1) + ";"
		g.subq = false
		return stmt{sql: s}
	case "select_nofrom":
		g.subq = g.pct("allowSubq", 30)
		s := "SELECT " + g.fields(nf, d) + ";"
		g.subq = false
		return stmt{sql: s}
	case "rows":
		g.cols, g.subq = true, g.pct("allowSubq", 45)
		src := fromSrc(g, "src")
		s := "SELECT id AS " + pid + ", " + g.fields(nf, d) + " FROM " + src
		if g.pct("where", 35) {
			g.budget = 6
			s += " WHERE " + g.expr('b', 2)
		}
		if !g.pct("noOrder", 30) {
			s += " ORDER BY id"
		}
		g.subq = false
		return stmt{sql: s + ";", periodic: true}
	case "rows_fixed":
		// the fixed-length companion file carries the ASCII columns only
		g.cols, g.narrow = true, true
		src := g.tableObject("fixed")
		s := "SELECT id AS " + pid + ", " + g.fields(nf, d) + " FROM " + src
		if g.pct("where", 35) {
			g.budget = 6
			s += " WHERE " + g.expr('b', 2)
		}
		g.narrow = false
		return stmt{sql: s + " ORDER BY id;", periodic: true}
	case "nested_same":
		// the same table in the outer query and in subqueries, self-joins whose aliases come back in a subquery,
		// an inline table referenced several times
		g.cols = true
		src := fromSrc(g, "src")
		switch fw.Uniform(g.t, "nestedShape", 4) {
		case 0:
			inner := src
			if strings.Contains(src, "(") {
				inner = g.pick("nestedInner", []string{"t", "tt"})
			}
			return stmt{sql: "SELECT id AS " + pid + ", " + g.fields(1, d) + ", (SELECT COUNT(*) FROM " + inner + " WHERE g = 1) FROM " + src +
				" WHERE id IN (SELECT id FROM " + inner + " WHERE k < " + g.pick("nestedK", []string{"2", "3", "5"}) + ") ORDER BY id;", periodic: true}
		case 1:
			g.quals = []string{"a.", "b."}
			f := g.fields(nf, d)
			g.quals = nil
			return stmt{sql: "SELECT a.id AS " + pid + ", " + f + ", (SELECT MAX(a.i) FROM " + src + " a WHERE a.g = b.g) FROM " + src + " a JOIN " + src +
				" b ON a.id = b.id ORDER BY " + pid + ";", periodic: true}
		case 2:
			inner := g.fields(1, d)
			return stmt{sql: "WITH c AS (SELECT id, g, k, " + inner + " AS c1 FROM " + src + ") SELECT c.id AS " + pid + ", c.c1, c2.c1 FROM c JOIN c c2 ON c.id = c2.id" +
				" WHERE c.g IN (SELECT g FROM c WHERE k < 4) ORDER BY " + pid + ";", periodic: true}
		}
		inner := g.fields(1, d)
		return stmt{sql: "WITH c AS (WITH c AS (SELECT id, g, " + inner + " AS c1 FROM " + src + ") SELECT id, g, c1 FROM c) SELECT id AS " + pid +
			", c1, (SELECT COUNT(*) FROM c WHERE g = 0) FROM c ORDER BY id;", periodic: true}
	case "group":
		g.cols = true
		src := fromSrc(g, "src")
		n := 1 + fw.Uniform(g.t, "naggs", 3)
		aggs := make([]string, n)
		for i := range aggs {
			g.budget = 5
			aggs[i] = g.aggCall(g.pick("agg", aggFns), 2, true)
		}
		if g.pct("groupAll", 25) {
			return stmt{sql: "SELECT " + strings.Join(aggs, ", ") + " FROM " + src + ";"}
		}
		key := g.pick("gkey", []string{"g", "k"})
		s := "SELECT " + key + " AS gk, " + strings.Join(aggs, ", ") + " FROM " + src
		if g.pct("gwhere", 25) {
			g.budget = 5
			s += " WHERE " + g.expr('b', 2)
		}
		s += " GROUP BY " + key
		if g.pct("having", 35) {
			g.budget = 4
			s += " HAVING " + g.aggCall(g.pick("hagg", []string{"COUNT", "MAX", "SUM", "MIN"}), 1, true) + g.pick("hcmp", []string{" > 1", " IS NOT NULL", " < 100", " <> 3"})
		}
		return stmt{sql: s + " ORDER BY gk;"}
	case "analytic":
		g.cols = true
		src := fromSrc(g, "src")
		n := 1 + fw.Uniform(g.t, "nana", 2)
		parts := make([]string, n)
		for i := range parts {
			g.budget = 5
			parts[i] = g.analytic()
		}
		return stmt{sql: "SELECT id, " + strings.Join(parts, ", ") + " FROM " + src + " ORDER BY id;"}
	case "from_subquery":
		g.cols = true
		src := "ts"
		if !avoidKnownFromSubqueryOverFile {
			src = fromSrc(g, "src")
		}
		g.fromSubq = true
		inner := g.fields(1, d)
		g.cols, g.qual = true, "x."
		s := "SELECT x.id AS " + pid + ", x.c1, " + g.fields(1, d-1) + " FROM (SELECT " + colList + ", " + inner + " AS c1 FROM " + src + ") x"
		if g.pct("where", 30) {
			g.budget = 5
			s += " WHERE " + g.expr('b', 2)
		}
		g.qual = ""
		return stmt{sql: s + " ORDER BY x.id;", periodic: true}
	case "join":
		g.cols = true
		g.quals = []string{"a.", "b."}
		left, right := fromSrc(g, "jl"), fromSrc(g, "jr")
		jt := g.pick("jointype", []string{"JOIN", "LEFT JOIN", "JOIN", "RIGHT JOIN", "FULL JOIN"})
		var s string
		if g.pct("joinUsing", 25) {
			// USING merges the id columns; the other columns stay qualified
			s = "SELECT id AS " + pid + ", " + g.fields(nf, d) + " FROM " + left + " a JOIN " + right + " b USING (id)"
		} else {
			s = "SELECT a.id AS " + pid + ", " + g.fields(nf, d) + " FROM " + left + " a " + jt + " " + right + " b ON a.id = b.id"
		}
		g.quals = nil
		return stmt{sql: s + " ORDER BY " + pid + ";", periodic: true}
	case "union":
		g.cols = true
		f1 := g.fields(1, d)
		f2 := g.fields(1, d)
		op := g.pick("setop", []string{"UNION ALL", "UNION", "EXCEPT", "INTERSECT"})
		return stmt{sql: "SELECT INTEGER(id) AS uid, " + f1 + " AS v FROM " + fromSrc(g, "ul") + " WHERE g < 2 " + op + " SELECT INTEGER(id) + " +
			g.pick("uoff", []string{"0", "1000"}) + ", " + f2 + " FROM " + fromSrc(g, "ur") + " WHERE g > 0 ORDER BY uid, v;"}
	case "cte":
		g.cols = true
		src := fromSrc(g, "src")
		inner := g.fields(1, d)
		g.qual = "c."
		s := "WITH c AS (SELECT " + colList + ", " + inner + " AS c1 FROM " + src + ") SELECT c.id AS " + pid + ", c.c1, " + g.fields(1, d-1) + " FROM c ORDER BY c.id;"
		g.qual = ""
		return stmt{sql: s, periodic: true}
	case "command":
		// statements other than queries that take a value; every flag is set to the value it already has
		return stmt{sql: g.commands()}
	case "natural":
		// every argument already has the type the function documents and is owned by a variable, a fetched value or
		// a cell of the typed temporary table; later rows and statements create new values of that type
		g.cols, g.natural = true, true
		n := 1 + fw.Uniform(g.t, "nnatural", 3)
		parts := make([]string, n)
		for i := range parts {
			name := g.pick("naturalFn", allFns)
			if g.pct("naturalConv", 35) {
				name = g.pick("naturalConvFn", []string{"STRING", "INTEGER", "FLOAT", "BOOLEAN", "TERNARY", "DATETIME", "DATETIME", "COALESCE", "IFNULL", "NULLIF", "IF"})
			}
			want := retOf(name)
			if want == 'a' {
				want = "nsdb"[fw.Uniform(g.t, "naturalAny", 4)]
			}
			switch name {
			case "INTEGER", "FLOAT":
				want = 'n'
			}
			parts[i] = g.call(name, 2, want)
		}
		g.natural = false
		src := g.pick("naturalSrc", []string{"tt", "tt", "tt", "t"})
		return stmt{sql: "SELECT id AS " + pid + ", " + strings.Join(parts, ", ") + " FROM " + src + " ORDER BY id;", periodic: true}
	case "recursive_cte":
		// the recursive term is ONE tree evaluated once per level, each time over the rows of the level before
		// (generated in the order of the text: placeholders are numbered by position)
		g.budget = 8
		base := g.fields(1, d)
		g.cols, g.qual = true, "x."
		step := g.fields(1, d)
		g.qual = ""
		src := fromSrc(g, "src")
		setop := g.pick("recSetop", []string{"UNION ALL", "UNION ALL", "UNION"})
		levels := 3 + fw.Uniform(g.t, "recLevels", 4)
		return stmt{sql: fmt.Sprintf("WITH RECURSIVE r (n, c1, c2) AS (SELECT 1, %s, 'r' %s SELECT r.n + 1, %s, r.c2 || '/' || COALESCE(STRING(x.k), '-') FROM r JOIN %s x ON INTEGER(x.id) = r.n + 1 WHERE r.n < %d) SELECT n, c1, c2 FROM r ORDER BY n;",
			base, setop, step, src, levels)}
	case "lateral":
		// the lateral subquery is ONE tree evaluated once per row of the table on its left
		g.cols = true
		left := fromSrc(g, "ll")
		right := fromSrc(g, "lr")
		g.quals = []string{"x.", "y."}
		switch fw.Uniform(g.t, "lateralShape", 3) {
		case 0:
			f := g.fields(1, d)
			g.quals = nil
			return stmt{sql: "SELECT x.id AS " + pid + ", z.c1 FROM " + left + " x CROSS JOIN LATERAL (SELECT " + f + " AS c1 FROM " + right + " y WHERE y.id = x.id) z ORDER BY " + pid + ";", periodic: true}
		case 1:
			g.budget = 5
			agg := g.aggCall(g.pick("latAgg", []string{"COUNT", "MAX", "MIN", "SUM", "LISTAGG", "JSON_AGG"}), 2, false)
			g.quals = nil
			return stmt{sql: "SELECT x.id AS " + pid + ", z.c1, z.cnt FROM " + left + " x, LATERAL (SELECT " + agg + " AS c1, COUNT(*) AS cnt FROM " + right + " y WHERE y.g = x.g AND INTEGER(y.id) <= INTEGER(x.id)) z ORDER BY INTEGER(x.id);"}
		}
		f := g.fields(1, d)
		g.quals = nil
		return stmt{sql: "SELECT x.id AS " + pid + ", z.c1, z.yid IS NULL FROM " + left + " x LEFT JOIN LATERAL (SELECT " + f + " AS c1, y.id AS yid FROM " + right + " y WHERE y.id = x.id AND x.g < 2) z ON z.yid = x.id ORDER BY " + pid + ";", periodic: true}
	case "distinct":
		g.cols = true
		nd := 1 + fw.Uniform(g.t, "ndistinct", 2)
		var fs, names []string
		for i := 0; i < nd; i++ {
			fs = append(fs, g.fields(1, d)+fmt.Sprintf(" AS d%d", i+1))
			names = append(names, fmt.Sprintf("d%d", i+1))
		}
		s := "SELECT DISTINCT " + strings.Join(fs, ", ") + " FROM " + fromSrc(g, "src") + " ORDER BY " + strings.Join(names, ", ")
		if g.pct("distinctLimit", 40) {
			s += g.pick("distinctLimitKind", []string{" LIMIT 50 PERCENT", " LIMIT 2 WITH TIES", " FETCH FIRST 3 ROWS ONLY", " OFFSET 1 ROWS FETCH NEXT 40 PERCENT WITH TIES"})
		}
		return stmt{sql: s + ";"}
	case "orderby":
		g.cols = true
		src := fromSrc(g, "src")
		fields := g.fields(nf, d) // (generated in the order of the text: placeholders are numbered by position)
		g.budget = 5
		key := g.expr('n', 2)
		s := "SELECT id, " + fields + " FROM " + src + " ORDER BY " + key + g.pick("dir", []string{"", " DESC", " ASC NULLS LAST"}) + ", INTEGER(id)"
		if g.pct("limit", 60) {
			switch fw.Weighted(g.t, "limitForm", []int{50, 15, 20, 15}) {
			case 0:
				s += " LIMIT " + g.pick("limit", rowCounts)
				if g.pct("offset", 40) {
					s += " OFFSET " + g.pick("offset", rowOffsets)
				}
			case 1:
				g.use("LIMIT WITH TIES")
				s += " LIMIT " + g.pick("limit", rowCounts) + g.pick("rowsWord", []string{"", " ROWS"}) + " WITH TIES"
			case 2:
				g.use("LIMIT PERCENT")
				s += " LIMIT " + g.pick("percent", []string{"30", "50.5", "(20 + 5)", "@vk * 10", "100", "@vpc", "(@vpc)", "@vf2"}) + " PERCENT" + g.pick("ties", []string{"", " WITH TIES", " ONLY"})
				if g.pct("offset", 40) {
					s += " OFFSET " + g.pick("offset", rowOffsets)
				}
			default:
				g.use("FETCH FIRST")
				if g.pct("offset", 50) {
					s += " OFFSET " + g.pick("offset", rowOffsets) + g.pick("offRows", []string{"", " ROWS"})
				}
				s += " FETCH " + g.pick("fetchWord", []string{"FIRST", "NEXT"}) + " " + g.pick("fetchN", []string{"3 ROWS", "1 ROW", "(1 + 2) ROWS", "40 PERCENT", "@vl ROWS", "(@vl) ROWS", "@vpc PERCENT"}) + g.pick("ties", []string{"", " WITH TIES", " ONLY"})
			}
		}
		return stmt{sql: s + ";"}
	}
	panic("unknown statement kind " + kind)
}

func (g *gx) analytic() string {
	name := g.pick("anaFn", append(append([]string{}, anaFns...), aggFns...))
	g.uses[name+" OVER"] = true
	part := g.pick("part", []string{"", "PARTITION BY g ", "PARTITION BY k ", "PARTITION BY g, b "})
	order := "ORDER BY INTEGER(id)" + g.pick("adir", []string{"", " DESC"})
	frame := ""
	if g.pct("frame", 40) {
		frame = " " + g.pick("frame", []string{"ROWS BETWEEN 1 PRECEDING AND CURRENT ROW", "ROWS BETWEEN UNBOUNDED PRECEDING AND 1 FOLLOWING",
			"ROWS 2 PRECEDING", "ROWS BETWEEN CURRENT ROW AND UNBOUNDED FOLLOWING", "ROWS BETWEEN 1 FOLLOWING AND 2 FOLLOWING"})
	}
	ignore := ""
	switch name {
	case "ROW_NUMBER", "RANK", "DENSE_RANK", "CUME_DIST", "PERCENT_RANK":
		return name + "() OVER (" + part + order + ")"
	case "NTILE":
		return "NTILE(" + g.pick("ntile", []string{"1", "2", "3", "@vk + 1", "@vl", "(@vl)"}) + ") OVER (" + part + order + ")"
	case "FIRST_VALUE", "LAST_VALUE":
		if g.pct("ignoreNulls", 30) {
			ignore = " IGNORE NULLS"
		}
		return name + "(" + g.expr('a', 2) + ")" + ignore + " OVER (" + part + order + frame + ")"
	case "NTH_VALUE":
		if g.pct("ignoreNulls", 30) {
			ignore = " IGNORE NULLS"
		}
		return "NTH_VALUE(" + g.expr('a', 2) + ", " + g.pick("nth", []string{"1", "2", "3", "@vl", "(@vl)"}) + ")" + ignore + " OVER (" + part + order + frame + ")"
	case "LAG", "LEAD":
		if g.pct("ignoreNulls", 30) {
			ignore = " IGNORE NULLS"
		}
		ty := "nsd"[fw.Uniform(g.t, "lagTy", 3)]
		s := name + "(" + g.expr(ty, 2)
		if g.pct("lagOff", 60) {
			s += ", " + g.pick("lagoff", []string{"1", "2", "0", "@vl", "@vk", "(@vk)"})
			if g.pct("lagDef", 50) {
				s += ", " + g.leaf(ty)
			}
		}
		return s + ")" + ignore + " OVER (" + part + order + ")"
	case "LISTAGG", "JSON_AGG":
		return g.aggCall(name, 2, false) + " OVER (" + part + order + ")"
	}
	// aggregate functions used as analytic functions
	call := g.aggCall(name, 2, false)
	if strings.Contains(call, "(*)") || strings.Contains(call, "DISTINCT *") {
		return call + " OVER (" + part + ")"
	}
	if g.pct("aggOrder", 60) {
		return call + " OVER (" + part + order + frame + ")"
	}
	return call + " OVER (" + part + ")"
}

// ---------------------------------------------------------------------
// units: one pure statement (list) and the way it is repeated

type unit struct {
	Kind     string   `json:"kind"`               // twice | while | func_stmt | func_rows | prepared | uagg | cursor_loop
	Decl     string   `json:"decl,omitempty"`     // executed once, in front of the repetitions
	Body     string   `json:"body"`               // executed Reps times
	Reps     int      `json:"reps"`
	Churn    bool     `json:"churn,omitempty"`    // unrelated allocations between the repetitions
	Pid      string   `json:"pid,omitempty"`      // header label of the id column of periodic SELECTs stored at top level
	PrepName string   `json:"prep_name,omitempty"`
	PrepText string   `json:"prep_text,omitempty"`
	Inner    string   `json:"inner,omitempty"`    // name of the segment printed inside the function body
	FromSubq bool     `json:"from_subquery,omitempty"` // contains a FROM-subquery
	Fails    []string `json:"fails,omitempty"`         // failing statements executed between the repetitions
}

var topKinds = []string{"print", "select_nofrom", "rows", "rows", "group", "analytic", "from_subquery", "join", "union", "cte", "orderby", "rows_fixed", "nested_same", "nested_same",
	"recursive_cte", "recursive_cte", "lateral", "lateral", "distinct", "command", "command", "natural", "natural", "natural"}

// statements that fail, each in another phase of the evaluation; they read only
var failingStmts = []string{
	"SELECT id FROM t LIMIT 'abc';",
	"SELECT id FROM tt ORDER BY id LIMIT 'abc';",
	"SELECT id FROM t ORDER BY id LIMIT 1 OFFSET 'abc';",
	"SELECT id FROM tt LIMIT 'x' PERCENT;",
	"SELECT id FROM t x WHERE EXISTS (SELECT 1 FROM t y WHERE y.id = x.id LIMIT 'abc');",
	"SELECT id FROM (SELECT id FROM t LIMIT 'abc') x;",
	"SELECT id FROM t WHERE 1 / 0 = 1;",
	"SELECT nocol FROM t;",
	"SELECT 1 FROM notable;",
	"SELECT id, (SELECT x.id FROM t x) FROM t;",
	"SELECT id FROM t WHERE id IN (SELECT id, g FROM tt);",
	"SELECT TITLE_CASE(NULL) FROM t;",
	"SELECT REGEXP_MATCH(s, '(') FROM tt;",
	"SELECT id, NTILE(0) OVER (ORDER BY id) FROM t;",
	"SELECT SUM(i), id FROM tt;",
	"WITH c AS (SELECT nocol FROM t) SELECT * FROM c;",
	"SELECT id FROM t UNION SELECT id, g FROM tt;",
	"SELECT a.id FROM t a JOIN tt a ON a.id = a.id;",
	"SELECT COUNT(*) FROM t GROUP BY nocol;",
	"SELECT id FROM tt ORDER BY nocol;",
	"SELECT id FROM CSV(',', `t.csv`, 'NOENC');",
	"SELECT nofunc(1);",
	"EXECUTE nostmt;",
	"FETCH nocur INTO @q1;",
	"SELECT @undeclared;",
}

const fnParams = "@pa, @pb, @pc, @pe"

// fnParamList renders the parameter list of a generated function; the last parameter may carry a DEFAULT expression
// (evaluated, from the tree kept in the function, by every call that omits the argument: omit = true).
func fnParamList(g *gx) (params string, omit bool) {
	if !g.pct("paramDefault", 40) {
		return fnParams, false
	}
	g.uses["stmt:param_default"] = true
	def := g.pick("paramDefaultExpr", []string{"2", "(1 + 2)", "LEN(COALESCE(@pb, 'ab')) % 4", "INTEGER(COALESCE(@pa, 1)) % 3 + 1", "IF(@pc IS NULL, 1, 3)"})
	return "@pa, @pb, @pc, @pe DEFAULT " + def, g.pct("omitDefaulted", 70)
}

func genUnit(t *rapid.T, idx int, uses, leaves map[string]bool, wn bool, pos string) unit {
	g := newGx(t, uses, leaves)
	g.wn, g.pos = wn, pos
	u := unit{Reps: 2 + fw.Uniform(t, "reps", 2), Churn: fw.Pct(t, "churn", 40)}
	pid := fmt.Sprintf("pid%d", idx)
	name := fmt.Sprintf("u%d", idx)
	u.Kind = fw.PickU(t, "unitKind", []string{"twice", "twice", "while", "while", "func_stmt", "func_rows", "prepared", "prepared", "uagg", "cursor_loop", "func_recursive", "cursor_prepared"})
	uses["rep:"+u.Kind] = true
	switch u.Kind {
	case "twice", "while":
		n := 1 + fw.Uniform(t, "nstmts", 2)
		var parts []string
		for i := 0; i < n; i++ {
			st := genStmt(g, fmt.Sprintf("%s_%d", pid, i), topKinds)
			parts = append(parts, st.sql)
			if st.periodic && u.Kind == "twice" && u.Pid == "" {
				u.Pid = fmt.Sprintf("%s_%d", pid, i)
			}
		}
		u.Body = strings.Join(parts, "\n")
	case "func_stmt":
		// statements inside a function body; the function is called Reps times with the same arguments
		g.pN, g.pS, g.pD, g.pK = []string{"@pa"}, []string{"@pb"}, []string{"@pc"}, []string{"@pe"}
		n := 1 + fw.Uniform(t, "nstmts", 2)
		var parts []string
		for i := 0; i < n; i++ {
			parts = append(parts, genStmt(g, fmt.Sprintf("%s_%d", pid, i), topKinds).sql)
		}
		g.cols, g.qual, g.quals, g.budget = false, "", nil, 8
		ret := g.expr('a', 3)
		u.Inner = name + "f"
		params, omit := fnParamList(g)
		u.Decl = fmt.Sprintf("DECLARE f%d FUNCTION (%s) AS BEGIN\nPRINT '@@b:%s@@';\n%s\nPRINT '@@e:%s@@';\nRETURN %s;\nEND;", idx, params, u.Inner, strings.Join(parts, "\n"), u.Inner, ret)
		g.pN, g.pS, g.pD, g.pK = nil, nil, nil, nil
		if omit {
			u.Body = fmt.Sprintf("PRINT f%d(%s, %s, %s);", idx, g.leaf('n'), g.leaf('s'), g.leaf('d'))
		} else {
			u.Body = fmt.Sprintf("PRINT f%d(%s, %s, %s, %s);", idx, g.leaf('n'), g.leaf('s'), g.leaf('d'), g.leaf('k'))
		}
	case "func_rows":
		// a scalar function without output, called for every row (concurrently when CPU > 1)
		g.pN, g.pS, g.pD, g.pK = []string{"@pa"}, []string{"@pb"}, []string{"@pc"}, []string{"@pe"}
		g.noVars = fw.Pct(t, "fnNoVars", 50)
		g.budget = 8
		local := g.expr('a', 2)
		g.pN, g.pS = append(g.pN, "@lx"), append(g.pS, "@lx")
		g.budget = 6
		cond := g.expr('b', 2)
		g.budget = 8
		r1 := g.expr('a', 3)
		g.budget = 8
		r2 := g.call(g.pick("anyFn", allFns), 3, 0)
		params, omit := fnParamList(g)
		u.Decl = fmt.Sprintf("DECLARE f%d FUNCTION (%s) AS BEGIN\nVAR @lx := %s;\nIF %s THEN RETURN %s; END IF;\nRETURN %s;\nEND;", idx, params, local, cond, r1, r2)
		g.pN, g.pS, g.pD, g.pK, g.noVars = nil, nil, nil, nil, false
		g.cols = true
		g.budget = 4
		u.Pid = pid
		if omit {
			u.Body = fmt.Sprintf("SELECT id AS %s, f%d(%s, %s, %s) FROM %s ORDER BY id;", pid, idx, g.expr('n', 1), g.expr('s', 1), g.expr('d', 1), fromSrc(g, "src"))
		} else {
			u.Body = fmt.Sprintf("SELECT id AS %s, f%d(%s, %s, %s, %s) FROM %s ORDER BY id;", pid, idx, g.expr('n', 1), g.expr('s', 1), g.expr('d', 1), g.leaf('k'), fromSrc(g, "src"))
		}
	case "func_recursive":
		// nested invocations evaluate the same body tree while the outer invocations still hold their values
		g.pN, g.pS, g.pK = []string{"@pa"}, []string{"@pb"}, []string{"@pe"}
		g.noVars = fw.Pct(t, "fnNoVars", 50)
		g.budget = 6
		bottom := g.expr('a', 2)
		g.budget = 6
		down := g.expr('n', 2)
		g.pS = append(g.pS, "@lr")
		g.pN = append(g.pN, "@lr")
		g.budget = 8
		up := g.expr('a', 3)
		u.Decl = fmt.Sprintf("DECLARE f%d FUNCTION (@pa, @pb, @pe DEFAULT 2) AS BEGIN\nIF @pe IS NULL OR @pe <= 0 THEN RETURN %s; END IF;\nVAR @lr := f%d(%s, @pb || 'r', @pe - 1);\nRETURN %s;\nEND;", idx, bottom, idx, down, up)
		g.pN, g.pS, g.pK, g.noVars = nil, nil, nil, false
		g.cols = true
		g.budget = 4
		u.Pid = pid
		depth := "INTEGER(k) % 4"
		if fw.Pct(t, "recDefaultDepth", 30) {
			depth = ""
		}
		args := g.expr('n', 1) + ", " + g.expr('s', 1)
		if depth != "" {
			args += ", " + depth
		}
		u.Body = fmt.Sprintf("SELECT id AS %s, f%d(%s) FROM %s ORDER BY id;", pid, idx, args, fromSrc(g, "src"))
	case "cursor_prepared":
		// a cursor over a prepared statement: every OPEN evaluates the tree held by the prepared statement with the
		// values of its USING clause; the rows are visited in every direction
		g.prep, g.cols = true, true
		g.budget = 8
		f := g.fields(1, 2)
		src := fromSrc(g, "src")
		g.budget = 5
		cond := g.expr('b', 2)
		g.prep = false
		u.PrepName = fmt.Sprintf("p%d", idx)
		u.PrepText = "SELECT " + f + ", INTEGER(id) FROM " + src + " WHERE INTEGER(id) <= 9 OR " + cond + " ORDER BY INTEGER(id)"
		u.Decl = fmt.Sprintf("PREPARE %s FROM %s;\nDECLARE c%d CURSOR FOR %s;", u.PrepName, quote(u.PrepText), idx, u.PrepName)
		open := fmt.Sprintf("OPEN c%d", idx)
		if len(g.using) > 0 {
			open += " USING " + strings.Join(g.using, ", ")
		}
		var b strings.Builder
		// (a FETCH beyond the rows leaves the variables as they are - the manual says it sets them to NULL -, so the
		// values of the previous repetition would show through)
		b.WriteString("@x1 := NULL;\n@x2 := NULL;\n" + open + ";\n")
		for i, n := 0, 3+fw.Uniform(t, "nfetch", 5); i < n; i++ {
			pos := fw.PickU(t, "fetchPos", []string{"", "NEXT ", "NEXT ", "PRIOR ", "FIRST ", "LAST ", "ABSOLUTE 3 ", "RELATIVE -2 ", "RELATIVE 2 ", "ABSOLUTE @vk ", "ABSOLUTE (@vl) ", "RELATIVE @vl ", "RELATIVE (1) "})
			fmt.Fprintf(&b, "FETCH %sc%d INTO @x1, @x2;\nPRINT @x1; PRINT @x2;\n", pos, idx)
		}
		fmt.Fprintf(&b, "PRINT CURSOR c%d COUNT;\nCLOSE c%d;", idx, idx)
		u.Body = b.String()
	case "prepared":
		g.prep = true
		st := genStmt(g, pid, []string{"select_nofrom", "rows", "rows", "group", "analytic", "orderby", "join", "recursive_cte", "lateral", "distinct", "command", "natural"})
		g.prep = false
		if st.periodic {
			u.Pid = pid
		}
		u.PrepName = fmt.Sprintf("p%d", idx)
		u.PrepText = strings.TrimSuffix(st.sql, ";")
		u.Decl = fmt.Sprintf("PREPARE %s FROM %s;", u.PrepName, quote(u.PrepText))
		u.Body = "EXECUTE " + u.PrepName
		if len(g.using) > 0 {
			u.Body += " USING " + strings.Join(g.using, ", ")
		}
		u.Body += ";"
	case "uagg":
		// a user-defined aggregate function: the grouped values arrive through a pseudo cursor
		g.pN, g.pS, g.pD, g.pK = []string{"@x", "@pa"}, []string{"@x"}, []string{"@x"}, nil
		g.noVars = true
		g.budget = 6
		var init, step string
		if fw.Pct(t, "uaggNum", 50) {
			init, step = "0", "@acc + COALESCE("+g.expr('n', 2)+", 0.5)"
		} else {
			init, step = "''", "@acc || '|' || COALESCE(STRING("+g.expr('a', 2)+"), '-')"
		}
		u.Decl = fmt.Sprintf("DECLARE a%d AGGREGATE (lst, @pa) AS BEGIN\nVAR @acc := %s, @x;\nWHILE @x IN lst DO\n@acc := %s;\nEND WHILE;\nRETURN @acc;\nEND;", idx, init, step)
		g.pN, g.pS, g.pD, g.noVars = nil, nil, nil, false
		g.cols = true
		g.budget = 4
		arg := g.expr('a', 1)
		src := fromSrc(g, "src")
		if fw.Pct(t, "uaggAnalytic", 35) {
			uses["uagg OVER"] = true
			u.Body = fmt.Sprintf("SELECT id, a%d(%s, %s) OVER (PARTITION BY g ORDER BY INTEGER(id)) FROM %s ORDER BY id;", idx, arg, g.pick("uaggP", []string{"2", "@vi", "0.5"}), src)
		} else {
			u.Body = fmt.Sprintf("SELECT g, a%d(%s, %s) FROM %s GROUP BY g ORDER BY g;", idx, arg, g.pick("uaggP", []string{"2", "@vi", "0.5"}), src)
		}
	case "cursor_loop":
		// every row of a cursor goes through the same expression tree; the loop variables hold the cursor's cells
		g.pN, g.pS, g.pD, g.pK = []string{"@x1", "@x2"}, []string{"@x3"}, []string{"@x4"}, []string{"@x5"}
		g.budget = 8
		e1 := g.call(g.pick("anyFn", allFns), 2, 0)
		g.budget = 8
		e2 := g.expr('a', 3)
		g.pN, g.pS, g.pD, g.pK = nil, nil, nil, nil
		src := fromSrc(g, "src")
		u.Decl = fmt.Sprintf("DECLARE c%d CURSOR FOR SELECT i, f, s, d, k FROM %s WHERE INTEGER(id) <= 12 ORDER BY INTEGER(id);", idx, src)
		u.Body = fmt.Sprintf("OPEN c%d;\nWHILE @x1, @x2, @x3, @x4, @x5 IN c%d DO\nPRINT %s;\nPRINT %s;\nEND WHILE;\nCLOSE c%d;", idx, idx, e1, e2, idx)
	}
	u.FromSubq = g.fromSubq
	if u.Kind != "while" && fw.Pct(t, "fails", 45) {
		// (a WHILE loop does not survive an error; every other kind is repeated by separate top-level statements)
		uses["error_then_repeat"] = true
		for i, n := 0, 1+fw.Uniform(t, "nfails", 3); i < n; i++ {
			if fw.Pct(t, "failLimit", 35) {
				u.Fails = append(u.Fails, failingStmts[fw.Uniform(t, "failLimitIdx", 6)])
			} else {
				u.Fails = append(u.Fails, fw.PickU(t, "fail", failingStmts))
			}
		}
	}
	return u
}

// genTail draws the statements that use the cached tables after the reading section.
func genTail(t *rapid.T, wn bool, pos string) []string {
	lit := func(label string) string { return quote(fw.PickU(t, label, poolStr)) }
	n := 1 + fw.Uniform(t, "ntail", 3)
	var out, after []string
	g := newGx(t, map[string]bool{}, map[string]bool{})
	g.wn, g.pos = wn, pos
	for i := 0; i < n; i++ {
		tbl := fw.PickU(t, "tailTbl", []string{"t", "t", "tt"})
		if fw.Pct(t, "tailObj", 35) {
			// a table object as the target: the file it names is read back afterwards
			kind := fw.PickU(t, "tailObjKind", []string{"csv", "tsv", "ltsv", "json", "jsonl", "fixed"})
			tbl = g.tableObject(kind)
			file := map[string]string{"csv": "`t.csv`", "tsv": "`tx.tsv`", "ltsv": "`tx.ltsv`", "json": "`tx.json`", "jsonl": "`tx.jsonl`", "fixed": "`tx.txt`"}[kind]
			after = append(after, "SELECT * FROM "+file+";")
			if kind == "fixed" {
				if fw.Pct(t, "fixedDel", 50) {
					out = append(out, fmt.Sprintf("DELETE FROM %s WHERE g = %d;", tbl, fw.Uniform(t, "delG", 3)))
				} else {
					out = append(out, fmt.Sprintf("UPDATE %s SET i = i + 1, f = NULL WHERE k = %d;", tbl, fw.Uniform(t, "updK", 6)))
				}
				continue
			}
		}
		switch fw.Uniform(t, "tailKind", 5) {
		case 0:
			out = append(out, fmt.Sprintf("UPDATE %s SET s = %s WHERE g = %d;", tbl, lit("updS"), fw.Uniform(t, "updG", 3)))
		case 1:
			out = append(out, fmt.Sprintf("UPDATE %s SET i = i + 1, f = NULL WHERE k = %d;", tbl, fw.Uniform(t, "updK", 6)))
		case 2:
			out = append(out, fmt.Sprintf("INSERT INTO %s (%s) VALUES (%d, 1, 5, 1.5, %s, '2001-01-01', 2, NULL, TRUE);", tbl, colList, 9001+i, lit("insS")))
		case 3:
			out = append(out, fmt.Sprintf("DELETE FROM %s WHERE g = %d;", tbl, fw.Uniform(t, "delG", 3)))
		default:
			out = append(out, fmt.Sprintf("SELECT COUNT(*), MAX(INTEGER(id)), MIN(s) FROM %s;", tbl))
		}
	}
	return append(out, after...)
}
