package c14

// dml_isolation: data-changing statements alter nothing but the table they
// assign. A program interleaves the creation of objects that hold rows of a
// table (temporary views derived from a file table or from another view, open
// cursors whose rows were materialised at OPEN, variables fetched from a cursor)
// with UPDATE / INSERT / DELETE / REPLACE on ONE of the tables (the file table,
// or a derived view itself; swaps SET a = b, b = a; SET values that read the
// updated or another table). A small reference model interprets the same steps;
// after every data-changing statement every object is read back: the assigned
// table must equal the model's result of the statement, and every other object
// must be exactly what it was before (the manual: a temporary view holds the
// result of its query, "cursors ... does not detect any update operations. The
// view refered by a cursor is retrieved when the cursor is opened, and it will
// be held until the cursor is closed").

import (
	"fmt"
	"os"
	"path/filepath"
	"sort"
	"strconv"
	"strings"
	"sync/atomic"
	"testing"

	"github.com/mithrandie/csvq/lib/value"
	"pgregory.net/rapid"

	"verif/internal/fw"
	"verif/internal/run"
)

type whereSpec struct {
	Kind string `json:"kind,omitempty"` // "" (all rows) | id_eq | id_le | id_in | a_eq | n_null | n_lt
	K    int    `json:"k,omitempty"`
	K2   int    `json:"k2,omitempty"`
	S    string `json:"s,omitempty"`
}

type dmlStep struct {
	// view | cursor | fetch | update_lit | update_swap | update_copy | update_min | update_self | update_other | insert | delete | replace
	Op    string      `json:"op"`
	Tgt   string      `json:"tgt"`             // table assigned / object created / cursor fetched
	Src   string      `json:"src,omitempty"`   // view, cursor: the table read; update_other: the table the SET value reads
	Def   int         `json:"def,omitempty"`   // view: 0 SELECT *, 1 with WHERE id <= K, 2 columns a and b exchanged; cursor: 1 = descending
	Col   string      `json:"col,omitempty"`   // update_lit: a | b | n | ab
	Val   *string     `json:"val,omitempty"`   // update_lit: the literal (null = NULL)
	Where whereSpec   `json:"where,omitempty"`
	Rows  [][]*string `json:"rows,omitempty"`  // insert, replace: id a b n
	At    int         `json:"at,omitempty"`    // fetch: position (modulo the number of rows)
	Set   int         `json:"set,omitempty"`   // fetch: which variable set
}

type dmlCase struct {
	Rows   [][]*string `json:"rows"` // a b n of the rows id = 1..len
	CPU    int         `json:"cpu"`
	Steps  []dmlStep   `json:"steps"`
	Poison bool        `json:"poison,omitempty"` // the whole case runs with poisoning Discard: a discarded object that is stored or read shows the sentinel
}

var dmlWords = []string{"apple", "berry", "cedar", "delta", "ember", "fjord", "grape", "heron", "ivory", "jolly", "koala", "lemon"}

func sptr(s string) *string { return &s }

func isDML(op string) bool {
	switch op {
	case "view", "cursor", "fetch":
		return false
	}
	return true
}

func genDMLCase(t *rapid.T) dmlCase {
	c := dmlCase{CPU: 1 + fw.Uniform(t, "cpu", 2), Poison: fw.Pct(t, "poison", 40)}
	n := 3 + fw.Uniform(t, "nrows", 5)
	word := func(label string, nullPct int) *string {
		if fw.Pct(t, label+"null", nullPct) {
			return nil
		}
		return sptr(fw.PickU(t, label, dmlWords))
	}
	num := func(label string, nullPct int) *string {
		if fw.Pct(t, label+"null", nullPct) {
			return nil
		}
		return sptr(strconv.Itoa(fw.Uniform(t, label, 20)))
	}
	for i := 0; i < n; i++ {
		c.Rows = append(c.Rows, []*string{word("a", 10), word("b", 10), num("n", 15)})
	}
	tables := []string{"t"}
	var cursors []string
	nextID := 100
	where := func() whereSpec {
		switch fw.Uniform(t, "whereKind", 8) {
		case 0, 1:
			return whereSpec{}
		case 2:
			return whereSpec{Kind: "id_eq", K: 1 + fw.Uniform(t, "wk", n+1)}
		case 3:
			return whereSpec{Kind: "id_le", K: 1 + fw.Uniform(t, "wk", n)}
		case 4:
			return whereSpec{Kind: "id_in", K: 1 + fw.Uniform(t, "wk", n), K2: 1 + fw.Uniform(t, "wk2", n)}
		case 5:
			return whereSpec{Kind: "a_eq", S: fw.PickU(t, "ws", dmlWords)}
		case 6:
			return whereSpec{Kind: "n_null"}
		}
		return whereSpec{Kind: "n_lt", K: fw.Uniform(t, "wk", 20)}
	}
	newRow := func(id int) []*string {
		return []*string{sptr(strconv.Itoa(id)), word("ra", 15), word("rb", 15), num("rn", 15)}
	}
	dml := func() dmlStep {
		st := dmlStep{Tgt: fw.PickU(t, "dmlTgt", tables)}
		switch fw.Weighted(t, "dmlOp", []int{20, 18, 10, 8, 10, 10, 8, 8, 8}) {
		case 0:
			st.Op, st.Col, st.Where = "update_lit", fw.PickU(t, "col", []string{"a", "b", "n", "ab"}), where()
			if st.Col == "n" {
				st.Val = num("lit", 20)
			} else {
				st.Val = word("lit", 20)
			}
		case 1:
			st.Op, st.Where = "update_swap", where()
		case 2:
			st.Op, st.Where = "update_copy", where()
		case 3:
			st.Op, st.Where = "update_min", where()
		case 4:
			st.Op, st.Where = "update_self", where()
		case 5:
			st.Op, st.Where, st.Src = "update_other", where(), fw.PickU(t, "otherSrc", tables)
		case 6:
			st.Op = "insert"
			for k := 0; k <= fw.Uniform(t, "nins", 2); k++ {
				st.Rows = append(st.Rows, newRow(nextID))
				nextID++
			}
		case 7:
			st.Op, st.Where = "delete", where()
		default:
			st.Op = "replace"
			st.Rows = append(st.Rows, newRow(1+fw.Uniform(t, "replId", n)))
			if fw.Pct(t, "replNew", 50) {
				st.Rows = append(st.Rows, newRow(nextID))
				nextID++
			}
		}
		return st
	}
	create := func() dmlStep {
		kind := fw.Weighted(t, "createKind", []int{45, 35, 20})
		if kind == 2 && len(cursors) == 0 {
			kind = 1
		}
		switch kind {
		case 0:
			st := dmlStep{Op: "view", Tgt: fmt.Sprintf("v%d", len(tables)), Src: fw.PickU(t, "viewSrc", tables), Def: fw.Uniform(t, "viewDef", 3)}
			st.Where = whereSpec{K: 1 + fw.Uniform(t, "viewK", n)}
			tables = append(tables, st.Tgt)
			return st
		case 1:
			st := dmlStep{Op: "cursor", Tgt: fmt.Sprintf("c%d", len(cursors)+1), Src: fw.PickU(t, "curSrc", tables), Def: fw.Uniform(t, "curDef", 2)}
			cursors = append(cursors, st.Tgt)
			return st
		}
		return dmlStep{Op: "fetch", Tgt: fw.PickU(t, "fetchCur", cursors), At: fw.Uniform(t, "fetchAt", 16), Set: fw.Uniform(t, "fetchSet", 3)}
	}
	if fw.Pct(t, "preDML", 55) {
		// the file table is cached "for update" before anything is derived from it
		st := dml()
		c.Steps = append(c.Steps, st)
	}
	for i, k := 0, 2+fw.Uniform(t, "ncreate", 4); i < k; i++ {
		c.Steps = append(c.Steps, create())
	}
	for i, k := 0, 2+fw.Uniform(t, "nmore", 5); i < k; i++ {
		if fw.Pct(t, "moreDML", 70) {
			c.Steps = append(c.Steps, dml())
		} else {
			c.Steps = append(c.Steps, create())
		}
	}
	return c
}

// ---------------------------------------------------------------------
// the model

type mrow [4]*string // id a b n

func (r mrow) String() string {
	parts := make([]string, 4)
	for i, c := range r {
		if c == nil {
			parts[i] = "NULL"
		} else {
			parts[i] = *c
		}
	}
	return "(" + strings.Join(parts, ",") + ")"
}

func rowsString(rs []mrow) string {
	parts := make([]string, len(rs))
	for i, r := range rs {
		parts[i] = r.String()
	}
	return "[" + strings.Join(parts, " ") + "]"
}

func sameCell(a, b *string) bool {
	if a == nil || b == nil {
		return a == nil && b == nil
	}
	return *a == *b
}

func sameRows(a, b []mrow) bool {
	if len(a) != len(b) {
		return false
	}
	for i := range a {
		for k := 0; k < 4; k++ {
			if !sameCell(a[i][k], b[i][k]) {
				return false
			}
		}
	}
	return true
}

type dmlModel struct {
	tables   map[string][]mrow
	order    []string // creation order of the tables
	cursors  map[string][]mrow
	curOrder []string
	vars     [3]*mrow // fetched variable sets (nil: never fetched, all NULL)
}

func cloneRows(rs []mrow) []mrow { return append([]mrow(nil), rs...) }

func (w whereSpec) match(r mrow) bool {
	id, _ := strconv.Atoi(*r[0])
	switch w.Kind {
	case "":
		return true
	case "id_eq":
		return id == w.K
	case "id_le":
		return id <= w.K
	case "id_in":
		return id == w.K || id == w.K2
	case "a_eq":
		return r[1] != nil && *r[1] == w.S
	case "n_null":
		return r[3] == nil
	case "n_lt":
		if r[3] == nil {
			return false
		}
		n, _ := strconv.Atoi(*r[3])
		return n < w.K
	}
	return false
}

func (w whereSpec) sql(q string) string {
	switch w.Kind {
	case "id_eq":
		return fmt.Sprintf(" WHERE %sid = %d", q, w.K)
	case "id_le":
		return fmt.Sprintf(" WHERE %sid <= %d", q, w.K)
	case "id_in":
		return fmt.Sprintf(" WHERE %sid IN (%d, %d)", q, w.K, w.K2)
	case "a_eq":
		return fmt.Sprintf(" WHERE %sa = '%s'", q, w.S)
	case "n_null":
		return fmt.Sprintf(" WHERE %sn IS NULL", q)
	case "n_lt":
		return fmt.Sprintf(" WHERE %sn < %d", q, w.K)
	}
	return ""
}

func litSQL(v *string, numeric bool) string {
	if v == nil {
		return "NULL"
	}
	if numeric {
		return *v
	}
	return "'" + *v + "'"
}

func rowSQL(r []*string) string {
	return "(" + litSQL(r[0], true) + ", " + litSQL(r[1], false) + ", " + litSQL(r[2], false) + ", " + litSQL(r[3], true) + ")"
}

func toMrow(r []*string) mrow { return mrow{r[0], r[1], r[2], r[3]} }

// sql renders the step; ok=false: the step cannot be executed in the current model state and is skipped.
func (st dmlStep) sql(m *dmlModel) (string, bool) {
	t := st.Tgt
	switch st.Op {
	case "view":
		switch st.Def {
		case 1:
			return fmt.Sprintf("DECLARE %s VIEW AS SELECT id, a, b, n FROM %s WHERE id <= %d;", t, st.Src, st.Where.K), true
		case 2:
			return fmt.Sprintf("DECLARE %s VIEW (id, a, b, n) AS SELECT id, b, a, n FROM %s;", t, st.Src), true
		}
		return fmt.Sprintf("DECLARE %s VIEW AS SELECT * FROM %s;", t, st.Src), true
	case "cursor":
		order := ""
		if st.Def == 1 {
			order = " ORDER BY INTEGER(id) DESC"
		}
		return fmt.Sprintf("DECLARE %s CURSOR FOR SELECT id, a, b, n FROM %s%s; OPEN %s;", t, st.Src, order, t), true
	case "fetch":
		rows := m.cursors[t]
		if len(rows) == 0 {
			return "", false
		}
		return fmt.Sprintf("FETCH ABSOLUTE %d %s INTO @f%da, @f%db, @f%dc, @f%dd;", st.At%len(rows), t, st.Set, st.Set, st.Set, st.Set), true
	case "update_lit":
		var set string
		switch st.Col {
		case "n":
			set = "n = " + litSQL(st.Val, true)
		case "ab":
			set = "a = " + litSQL(st.Val, false) + ", b = " + litSQL(st.Val, false)
		default:
			set = st.Col + " = " + litSQL(st.Val, false)
		}
		return "UPDATE " + t + " SET " + set + st.Where.sql("") + ";", true
	case "update_swap":
		return "UPDATE " + t + " SET a = b, b = a" + st.Where.sql("") + ";", true
	case "update_copy":
		return "UPDATE " + t + " SET a = b, n = n + 1" + st.Where.sql("") + ";", true
	case "update_min":
		return fmt.Sprintf("UPDATE %s SET b = (SELECT MIN(x.a) FROM %s x), n = (SELECT COUNT(x.n) FROM %s x)%s;", t, t, t, st.Where.sql("")), true
	case "update_self":
		return fmt.Sprintf("UPDATE %s SET a = (SELECT x.b FROM %s x WHERE x.id = %s.id), b = a%s;", t, t, t, st.Where.sql(t+".")), true
	case "update_other":
		if st.Src == t {
			return fmt.Sprintf("UPDATE %s SET a = (SELECT x.a FROM %s x WHERE x.id = %s.id)%s;", t, st.Src, t, st.Where.sql(t+".")), true
		}
		return fmt.Sprintf("UPDATE %s SET a = (SELECT x.a FROM %s x WHERE x.id = %s.id), b = (SELECT MAX(x.b) FROM %s x)%s;", t, st.Src, t, st.Src, st.Where.sql(t+".")), true
	case "insert":
		parts := make([]string, len(st.Rows))
		for i, r := range st.Rows {
			parts[i] = rowSQL(r)
		}
		return "INSERT INTO " + t + " (id, a, b, n) VALUES " + strings.Join(parts, ", ") + ";", true
	case "delete":
		return "DELETE FROM " + t + st.Where.sql("") + ";", true
	case "replace":
		parts := make([]string, len(st.Rows))
		for i, r := range st.Rows {
			parts[i] = rowSQL(r)
		}
		return "REPLACE INTO " + t + " (id, a, b, n) USING (id) VALUES " + strings.Join(parts, ", ") + ";", true
	}
	return "", false
}

// minOf / maxOf: the extreme of the non-NULL words of a column (lower-case ASCII words: every documented string order agrees).
func extreme(rows []mrow, col int, max bool) *string {
	var best *string
	for _, r := range rows {
		if r[col] == nil {
			continue
		}
		if best == nil || (!max && *r[col] < *best) || (max && *r[col] > *best) {
			best = r[col]
		}
	}
	return best
}

func findID(rows []mrow, id string) (mrow, bool) {
	for _, r := range rows {
		if *r[0] == id {
			return r, true
		}
	}
	return mrow{}, false
}

// apply executes the step on the model. Every SET value is computed from the state before the statement.
func (m *dmlModel) apply(st dmlStep) {
	t := st.Tgt
	switch st.Op {
	case "view":
		src := m.tables[st.Src]
		var out []mrow
		for _, r := range src {
			switch st.Def {
			case 1:
				if id, _ := strconv.Atoi(*r[0]); id <= st.Where.K {
					out = append(out, r)
				}
			case 2:
				out = append(out, mrow{r[0], r[2], r[1], r[3]})
			default:
				out = append(out, r)
			}
		}
		m.tables[t] = out
		m.order = append(m.order, t)
	case "cursor":
		rows := cloneRows(m.tables[st.Src])
		if st.Def == 1 {
			sort.SliceStable(rows, func(i, j int) bool {
				a, _ := strconv.Atoi(*rows[i][0])
				b, _ := strconv.Atoi(*rows[j][0])
				return a > b
			})
		}
		m.cursors[t] = rows
		m.curOrder = append(m.curOrder, t)
	case "fetch":
		rows := m.cursors[t]
		r := rows[st.At%len(rows)]
		m.vars[st.Set] = &r
	case "insert":
		for _, r := range st.Rows {
			m.tables[t] = append(cloneRows(m.tables[t]), toMrow(r))
		}
	case "delete":
		var out []mrow
		for _, r := range m.tables[t] {
			if !st.Where.match(r) {
				out = append(out, r)
			}
		}
		m.tables[t] = out
	case "replace":
		out := cloneRows(m.tables[t])
		for _, nr := range st.Rows {
			found := false
			for i := range out {
				if *out[i][0] == *nr[0] {
					out[i], found = toMrow(nr), true
				}
			}
			if !found {
				out = append(out, toMrow(nr))
			}
		}
		m.tables[t] = out
	default: // the updates
		before := m.tables[t]
		other := m.tables[st.Src]
		out := cloneRows(before)
		cnt := 0
		for _, r := range before {
			if r[3] != nil {
				cnt++
			}
		}
		for i, r := range before {
			if !st.Where.match(r) {
				continue
			}
			switch st.Op {
			case "update_lit":
				switch st.Col {
				case "a":
					out[i][1] = st.Val
				case "b":
					out[i][2] = st.Val
				case "n":
					out[i][3] = st.Val
				case "ab":
					out[i][1], out[i][2] = st.Val, st.Val
				}
			case "update_swap":
				out[i][1], out[i][2] = r[2], r[1]
			case "update_copy":
				out[i][1] = r[2]
				if r[3] != nil {
					n, _ := strconv.Atoi(*r[3])
					out[i][3] = sptr(strconv.Itoa(n + 1))
				}
			case "update_min":
				out[i][2] = extreme(before, 1, false)
				out[i][3] = sptr(strconv.Itoa(cnt))
			case "update_self":
				out[i][1], out[i][2] = r[2], r[1]
			case "update_other":
				if o, ok := findID(other, *r[0]); ok {
					out[i][1] = o[1]
				} else {
					out[i][1] = nil
				}
				if st.Src != t {
					out[i][2] = extreme(other, 2, true)
				}
			}
		}
		m.tables[t] = out
	}
}

// ---------------------------------------------------------------------
// reading the objects back

func tblRows(t run.Tbl) []mrow {
	var out []mrow
	for _, r := range t.Rows {
		var mr mrow
		for k := 0; k < 4 && k < len(r); k++ {
			if r[k].K != "N" {
				mr[k] = sptr(r[k].S)
			}
		}
		out = append(out, mr)
	}
	return out
}

type observed struct {
	tables  map[string][]mrow
	cursors map[string][]mrow
	counts  map[string]string
	vars    [3]mrow
}

// observe reads every table, every row of every cursor and the fetched variables.
func observe(s *run.Sess, m *dmlModel) (observed, error) {
	ob := observed{tables: map[string][]mrow{}, cursors: map[string][]mrow{}, counts: map[string]string{}}
	var b strings.Builder
	for _, t := range m.order {
		b.WriteString("SELECT id, a, b, n FROM " + t + ";\n")
	}
	for _, c := range m.curOrder {
		b.WriteString("SELECT CURSOR " + c + " COUNT;\n")
		// one row more than expected would show as an extra non-NULL fetch
		for i := 0; i <= len(m.cursors[c]); i++ {
			fmt.Fprintf(&b, "FETCH ABSOLUTE %d %s INTO @q1, @q2, @q3, @q4; SELECT @q1, @q2, @q3, @q4, CURSOR %s IS IN RANGE;\n", i, c, c)
		}
	}
	for k := 0; k < 3; k++ {
		fmt.Fprintf(&b, "SELECT @f%da, @f%db, @f%dc, @f%dd;\n", k, k, k, k)
	}
	r := s.Exec(b.String())
	if r.Err != nil {
		return ob, r.Err
	}
	want := len(m.order) + 3
	for _, c := range m.curOrder {
		want += 2 + len(m.cursors[c])
	}
	if len(r.Views) != want {
		return ob, fmt.Errorf("probe returned %d results, expected %d", len(r.Views), want)
	}
	i := 0
	for _, t := range m.order {
		ob.tables[t] = tblRows(r.Views[i])
		i++
	}
	for _, c := range m.curOrder {
		ob.counts[c] = r.Views[i].Rows[0][0].S
		i++
		var rows []mrow
		for k := 0; k <= len(m.cursors[c]); k++ {
			v := r.Views[i]
			i++
			if v.Rows[0][4].S == "TRUE" || v.Rows[0][4].S == "true" {
				rows = append(rows, tblRows(v)[0])
			}
		}
		ob.cursors[c] = rows
	}
	for k := 0; k < 3; k++ {
		ob.vars[k] = tblRows(r.Views[i])[0]
		i++
	}
	return ob, nil
}

var dmlSeq int64

func checkDML(c dmlCase) (fw.Outcome, *fw.Violation) {
	o := fw.Outcome{}
	if len(c.Rows) == 0 || len(c.Steps) == 0 {
		o.Discard = true
		return o, nil
	}
	dir := filepath.Join(fw.WorkDir(), fmt.Sprintf("c14dml-%d", atomic.AddInt64(&dmlSeq, 1)))
	if err := os.MkdirAll(dir, 0755); err != nil {
		return o, fw.Harness("mkdir: %v", err)
	}
	defer os.RemoveAll(dir)
	var csv strings.Builder
	csv.WriteString("id,a,b,n\n")
	m := &dmlModel{tables: map[string][]mrow{}, cursors: map[string][]mrow{}, order: []string{"t"}}
	for i, r := range c.Rows {
		if len(r) != 3 {
			o.Discard = true
			return o, nil
		}
		id := strconv.Itoa(i + 1)
		csv.WriteString(id + "," + csvCell(r[0]) + "," + csvCell(r[1]) + "," + csvCell(r[2]) + "\n")
		m.tables["t"] = append(m.tables["t"], mrow{sptr(id), r[0], r[1], r[2]})
	}
	if err := run.WriteFiles(dir, map[string]string{"t.csv": csv.String()}); err != nil {
		return o, fw.Harness("write table: %v", err)
	}
	if c.Poison {
		// (cases run one after the other; the switch is process-wide like in the programs check)
		value.VerifPoison = true
		defer func() { value.VerifPoison = false }()
		o.Classes = append(o.Classes, "poisoning_discard")
	}
	s, err := run.NewSess(run.Opt{Dir: dir, CPU: c.CPU})
	if err != nil {
		return o, fw.Harness("session: %v", err)
	}
	defer s.Close()
	if r := s.Exec("VAR @q1, @q2, @q3, @q4, @f0a, @f0b, @f0c, @f0d, @f1a, @f1b, @f1c, @f1d, @f2a, @f2b, @f2c, @f2d;"); r.Err != nil {
		return o, fw.Harness("setup: %v", r.Err)
	}
	var log []string
	show := func() string { return "\n--- statements so far (t.csv: " + rowsString(toMrows(c.Rows)) + ") ---\n" + strings.Join(log, "\n") }
	kindOf := func(name string) string {
		switch {
		case name == "t":
			return "file_table"
		case strings.HasPrefix(name, "v"):
			return "temporary_view"
		}
		return "cursor"
	}
	var fp []string
	nontrivial := false
	for _, st := range c.Steps {
		if _, exists := m.tables[st.Tgt]; isDML(st.Op) && !exists {
			continue // (a hand-written case naming an unknown table)
		}
		sql, ok := st.sql(m)
		if !ok {
			continue
		}
		log = append(log, sql)
		o.Classes = append(o.Classes, "op:"+st.Op)
		if r := s.Exec(sql); r.Err != nil {
			if r.ParseErr {
				return o, fw.Harness("statement does not parse: %s: %v", sql, r.Err)
			}
			return o, fw.V("dml_statement_fails:"+st.Op, "%s failed: %v%s", sql, r.Err, show())
		}
		m.apply(st)
		if !isDML(st.Op) {
			fp = append(fp, st.Op+":"+kindOf(st.Src))
			continue
		}
		others := len(m.order) - 1 + len(m.curOrder)
		if others > 0 {
			nontrivial = true
		}
		fp = append(fp, st.Op+":"+kindOf(st.Tgt)+":"+st.Where.Kind)
		o.Classes = append(o.Classes, "target:"+kindOf(st.Tgt))
		ob, err := observe(s, m)
		if err != nil {
			return o, fw.V("dml_probe_fails", "reading the objects back after %s failed: %v%s", sql, err, show())
		}
		// the assigned table against the model of the statement
		if !sameRows(ob.tables[st.Tgt], m.tables[st.Tgt]) {
			return o, fw.V("dml_result_differs:"+st.Op, "after %s table %s is %s, expected %s%s", sql, st.Tgt, rowsString(ob.tables[st.Tgt]), rowsString(m.tables[st.Tgt]), show())
		}
		// everything else is what it was
		for _, t := range m.order {
			if t != st.Tgt && !sameRows(ob.tables[t], m.tables[t]) {
				return o, fw.V("dml_alters_unassigned:"+kindOf(t), "%s assigns %s only, but %s %s changed to %s, it was %s%s", sql, st.Tgt, kindOf(t), t, rowsString(ob.tables[t]), rowsString(m.tables[t]), show())
			}
		}
		for _, cu := range m.curOrder {
			if !sameRows(ob.cursors[cu], m.cursors[cu]) || ob.counts[cu] != strconv.Itoa(len(m.cursors[cu])) {
				return o, fw.V("dml_alters_unassigned:cursor", "%s assigns %s only, but the open cursor %s now delivers %s (count %s); at OPEN it held %s%s", sql, st.Tgt, cu, rowsString(ob.cursors[cu]), ob.counts[cu], rowsString(m.cursors[cu]), show())
			}
		}
		for k := 0; k < 3; k++ {
			want := mrow{}
			if m.vars[k] != nil {
				want = *m.vars[k]
			}
			if !sameRows([]mrow{ob.vars[k]}, []mrow{want}) {
				return o, fw.V("dml_alters_unassigned:variable", "%s assigns %s only, but the variables @f%da..d fetched earlier changed to %s, they were %s%s", sql, st.Tgt, k, ob.vars[k], want, show())
			}
		}
	}
	if nontrivial {
		o.Fingerprint = strings.Join(fp, ",")
	}
	return o, nil
}

func toMrows(rows [][]*string) []mrow {
	var out []mrow
	for i, r := range rows {
		if len(r) == 3 {
			out = append(out, mrow{sptr(strconv.Itoa(i + 1)), r[0], r[1], r[2]})
		}
	}
	return out
}

func TestC14DMLIsolation(t *testing.T) {
	fw.Run(t, fw.Spec[dmlCase]{
		ID: "C14", Name: "dml_isolation", Quick: 4000, Thorough: 80000,
		Gen: genDMLCase, Check: checkDML,
		Rule: "a CSV file t (3-7 rows: id, two word columns, a number column, NULLs) and a step list: optionally a first DML on t (so that t is cached for update), then 2-5 creations (temporary views DECLARE v VIEW AS SELECT */filtered/columns exchanged FROM t or another view; cursors over t or a view, opened at once, optionally ORDER BY DESC; FETCH ABSOLUTE into one of three variable sets), then 2-6 further steps (70% DML, else creations); DML on ONE table drawn from t and the views: UPDATE with literals, swap SET a = b, b = a, SET a = b, n = n + 1, SET values from scalar subqueries on the updated table (MIN, COUNT, same row by id) or on another table, multi-row INSERT, DELETE, REPLACE USING (id) with a matched and an unmatched row, each with WHERE variants; after every DML statement all tables, all rows of all open cursors (plus COUNT and one position beyond), and all fetched variables are read back and compared (text + NULL-ness) with a reference model that evaluates every SET value on the state before the statement: the assigned table must equal the model, every other object must be unchanged; 40% of the cases run entirely under poisoning Discard (a value that a DML statement stores or a probe reads after it was discarded shows the sentinel instead of the model's value); non-trivial = a DML ran while at least one other object existed; distinct by the sequence of (operation, target kind, WHERE kind)",
		Assumptions: []string{
			"word cells are distinct lower-case ASCII words and numbers small non-negative integers, so that comparison, MIN/MAX and n + 1 have one documented result; values are compared as text with NULL-ness (a CSV cell is a string, an assigned literal an integer)",
			"ids stay unique (INSERT uses fresh ids, REPLACE matches on id), so the by-id subqueries return at most one row",
			"SET values, including subqueries on the updated table, see the rows as they were before the UPDATE statement",
		},
	})
}
