// Package c14 decides property C14: evaluation never changes what it only
// reads (pooled value objects, shared syntax trees, cached tables).
//
// One generated program serves three oracles:
//
//	(a) repetition      every pure statement is executed several times (literally,
//	                    in a WHILE loop, in a function body, as a prepared statement,
//	                    for every row of a table, for every row of a cursor); all
//	                    executions print the same text, rows with equal data give
//	                    equal values, and the probes printed before and after the
//	                    expression-heavy section (variables, cursor rows, tables)
//	                    are identical; the cached tables then take the same DML
//	                    with the same result as in a run without the reading section
//	(b) poison          the same program under value.VerifPoison (Discard overwrites
//	                    the object and keeps it out of the pool) prints the same
//	                    output and never a sentinel
//	(c) tree snapshot   the program is parsed twice, one tree is executed, afterwards
//	                    it must be reflect.DeepEqual to the pristine one (also the
//	                    trees held by prepared statements)
//
// Files: c14_test.go (program assembly, oracles), gen_test.go (generator).
package c14

import (
	"context"
	"encoding/json"
	"fmt"
	"os"
	"path/filepath"
	"reflect"
	"runtime/debug"
	"sort"
	"strconv"
	"strings"
	"sync/atomic"
	"testing"
	"time"

	"github.com/mithrandie/csvq/lib/parser"
	"github.com/mithrandie/csvq/lib/value"
	"pgregory.net/rapid"

	"verif/internal/fw"
	"verif/internal/run"
)

func TestMain(m *testing.M) { fw.Main(m) }

// every case allocates a few megabytes of short-lived text; a lazier collector saves about a third of the CPU time
func init() { debug.SetGCPercent(400) }

// ---------------------------------------------------------------------
// the case

type progCase struct {
	N     int         `json:"n"`    // rows of t.csv; row k carries Base[(k-1) % len(Base)]
	CPU   int         `json:"cpu"`
	Base  [][]*string `json:"base"` // g i f s d k j b (null = NULL cell)
	WN    bool        `json:"without_null,omitempty"` // attribute with which the companion files tx.* are loaded
	Vars  []string    `json:"vars"` // initialisers of @vi @vf @vs @vd @vb @vk
	CurOn string      `json:"cursor_on"`
	CurAt int         `json:"cursor_at"`
	Units []unit      `json:"units"`
	Tail  []string    `json:"tail"`
	Uses  []string    `json:"uses"`   // functions, operators, statement and repetition kinds used
	Leafs []string    `json:"leaves"` // kinds of leaf arguments used
}

func genCase(t *rapid.T) progCase {
	c := progCase{CPU: 1}
	p := 3 + fw.Uniform(t, "period", 4)
	c.Base = genBase(t, p)
	if fw.Pct(t, "manyRows", 25) {
		c.N = 160 + fw.Uniform(t, "extraRows", 40)
		c.CPU = 4
	} else {
		c.N = 2*p + fw.Uniform(t, "extraRows", p)
		c.CPU = 1 + fw.Uniform(t, "cpu", 2)
	}
	c.Vars = []string{
		fw.PickU(t, "vi", poolInt), fw.PickU(t, "vf", poolFloat), quote(fw.PickU(t, "vs", poolStr)),
		"DATETIME(" + quote(fw.PickU(t, "vd", poolDt)) + ")", fw.PickU(t, "vb", []string{"TRUE", "FALSE"}), fmt.Sprint(fw.Uniform(t, "vk", 5)),
	}
	c.CurOn = fw.PickU(t, "curOn", []string{"t", "tt"})
	c.CurAt = fw.Uniform(t, "curAt", c.N)
	c.WN = fw.Pct(t, "withoutNull", 25)
	uses, leaves := map[string]bool{}, map[string]bool{}
	n := 1 + fw.Uniform(t, "nunits", 4)
	for i := 0; i < n; i++ {
		c.Units = append(c.Units, genUnit(t, i, uses, leaves, c.WN, c.fixedPositions()))
	}
	c.Tail = genTail(t, c.WN, c.fixedPositions())
	c.Uses = fw.SortedKeys(uses)
	c.Leafs = fw.SortedKeys(leaves)
	return c
}

// ---------------------------------------------------------------------
// program assembly

func csvCell(s *string) string {
	if s == nil {
		return ""
	}
	return `"` + strings.ReplaceAll(*s, `"`, `""`) + `"`
}

func (c progCase) csv() string {
	var b strings.Builder
	b.WriteString(strings.ReplaceAll(colList, " ", "") + "\n")
	for k := 1; k <= c.N; k++ {
		row := c.Base[(k-1)%len(c.Base)]
		fmt.Fprintf(&b, "%d", k)
		for _, cell := range row {
			b.WriteString("," + csvCell(cell))
		}
		b.WriteString("\n")
	}
	return b.String()
}

// row returns the cells of row k (1-based): id g i f s d k j b.
func (c progCase) row(k int) []*string {
	id := fmt.Sprint(k)
	return append([]*string{&id}, c.Base[(k-1)%len(c.Base)]...)
}

// the fixed-length companion file has the columns whose values are plain ASCII without spaces
var fixedCols = []int{0, 1, 2, 3, 6, 8} // id g i f k b

func (c progCase) fixedWidths() []int {
	ws := make([]int, len(fixedCols))
	for i, ci := range fixedCols {
		ws[i] = len(colNames[ci])
		if ci == 0 {
			if n := len(fmt.Sprint(c.N)); n > ws[i] {
				ws[i] = n
			}
			continue
		}
		for _, r := range c.Base {
			if r[ci-1] != nil && len(*r[ci-1]) > ws[i] {
				ws[i] = len(*r[ci-1])
			}
		}
		ws[i]++
	}
	ws[0]++
	return ws
}

// fixedPositions is the delimiter_positions argument of FIXED() for tx.txt.
func (c progCase) fixedPositions() string {
	var parts []string
	end := 0
	for _, w := range c.fixedWidths() {
		end += w
		parts = append(parts, fmt.Sprint(end))
	}
	return "[" + strings.Join(parts, ", ") + "]"
}

// files renders t.csv and the companion files with the same rows in the other formats.
func (c progCase) files() map[string]string {
	var tsv, ltsv, js, jsl, fixed strings.Builder
	tsv.WriteString(strings.ReplaceAll(colList, ", ", "\t") + "\n")
	ws := c.fixedWidths()
	for i, ci := range fixedCols {
		fmt.Fprintf(&fixed, "%-*s", ws[i], colNames[ci])
	}
	fixed.WriteString("\n")
	js.WriteString("[")
	for k := 1; k <= c.N; k++ {
		row := c.row(k)
		var obj strings.Builder
		obj.WriteString("{")
		for i, cell := range row {
			if i > 0 {
				tsv.WriteString("\t")
				ltsv.WriteString("\t")
				obj.WriteString(",")
			}
			if i == 0 {
				tsv.WriteString(*cell)
			} else {
				tsv.WriteString(csvCell(cell))
			}
			ltsv.WriteString(colNames[i] + ":")
			obj.WriteString(strconv.Quote(colNames[i]) + ":")
			if cell == nil {
				obj.WriteString("null")
			} else {
				if colNames[i] != "j" { // (the LTSV reader does not return JSON text unchanged: JSON_VALUE would fail on it)
					ltsv.WriteString(*cell)
				}
				b, _ := json.Marshal(*cell)
				obj.Write(b)
			}
		}
		obj.WriteString("}")
		tsv.WriteString("\n")
		ltsv.WriteString("\n")
		if k > 1 {
			js.WriteString(",\n")
		}
		js.WriteString(obj.String())
		jsl.WriteString(obj.String() + "\n")
		for i, ci := range fixedCols {
			v := ""
			if row[ci] != nil {
				v = *row[ci]
			}
			fmt.Fprintf(&fixed, "%-*s", ws[i], v)
		}
		fixed.WriteString("\n")
	}
	js.WriteString("]\n")
	return map[string]string{"t.csv": c.csv(), "tx.tsv": tsv.String(), "tx.ltsv": ltsv.String(), "tx.json": js.String(), "tx.jsonl": jsl.String(), "tx.txt": fixed.String()}
}

const churnStmt = "@churn := (SELECT COUNT(UPPER(s) || STRING(INTEGER(i) * 2) || STRING(FLOAT(f) / 7) || STRING(ADD_DAY(d, 1))) FROM t);"

func (c progCase) setup() string {
	v := c.Vars
	sacrificial := ""
	if avoidKnownFromSubqueryOverFile {
		sacrificial = "DECLARE ts VIEW (" + colList + ") AS SELECT " + colList + " FROM tt;\n"
	}
	return fmt.Sprintf("VAR @vi := %s, @vf := %s, @vs := %s, @vd := %s, @vb := %s, @vk := %s, @vn := NULL, @churn;\n", v[0], v[1], v[2], v[3], v[4], v[5]) +
		"VAR @ci, @cf, @cs, @cd, @ck, @q1, @q2, @q3, @q4, @q5, @x1, @x2, @x3, @x4, @x5;\n" +
		// operands of row-count clauses and values handed to commands
		"VAR @vl := @vk + 1, @vpc := 40, @vf2 := 37.5, @vlr := 1000, @vwt := 30.0, @vcpu := " + fmt.Sprint(c.CPU) + ", @vq := TRUE, @vfalse := FALSE, @vlb := 'LF', @vtz := 'UTC', @vdfmt := '%Y/%m/%d %H', @venv := 'c14 env';\n" +
		// the arguments of the table objects
		"VAR @venc := 'UTF8', @vdl := ',', @vtab := '\\t', @vnh := FALSE, @vwn := " + boolWord(c.WN) + ", @vjq := '', @vpos := '" + c.fixedPositions() + "';\n" +
		"DECLARE tt VIEW (" + colList + ") AS SELECT INTEGER(id), INTEGER(g), INTEGER(i), FLOAT(f), s, DATETIME(d), INTEGER(k), j, BOOLEAN(b) FROM t;\n" +
		sacrificial +
		"DECLARE cur CURSOR FOR SELECT i, f, s, d, k FROM " + c.CurOn + " ORDER BY INTEGER(id);\n" +
		"OPEN cur;\n" +
		fmt.Sprintf("FETCH ABSOLUTE %d cur INTO @ci, @cf, @cs, @cd, @ck;\n", c.CurAt)
}

func (c progCase) probe() string {
	var b strings.Builder
	b.WriteString("PRINT '@@b:probe@@';\n")
	for _, v := range []string{"@vi", "@vf", "@vs", "@vd", "@vb", "@vk", "@vn", "@ci", "@cf", "@cs", "@cd", "@ck", "@venc", "@vdl", "@vtab", "@vnh", "@vwn", "@vjq", "@vpos",
		"@vl", "@vpc", "@vf2", "@vlr", "@vwt", "@vcpu", "@vq", "@vfalse", "@vlb", "@vtz", "@vdfmt", "@venv"} {
		b.WriteString("PRINT " + v + ";\n")
	}
	at := []int{0, c.CurAt, c.N - 1}
	if c.N <= 20 {
		at = at[:0]
		for k := 0; k < c.N; k++ {
			at = append(at, k) // every row of the cursor
		}
	} else {
		for k := 5; k < c.N; k += 13 {
			at = append(at, k)
		}
	}
	for _, at := range at {
		fmt.Fprintf(&b, "FETCH ABSOLUTE %d cur INTO @q1, @q2, @q3, @q4, @q5;\nPRINT @q1; PRINT @q2; PRINT @q3; PRINT @q4; PRINT @q5;\n", at)
	}
	b.WriteString("PRINT CURSOR cur COUNT;\n")
	if c.N <= 40 {
		b.WriteString("SELECT * FROM t;\nSELECT * FROM tt;\n")
	} else {
		// large tables: the probes print every 7th row (a moving window would not be a repetition of the same
		// statement); the complete tables are printed once in the tail and compared with the reference run
		b.WriteString("SELECT * FROM t WHERE INTEGER(id) % 7 = 1;\nSELECT * FROM tt WHERE id % 7 = 1;\n")
	}
	b.WriteString("PRINT '@@e:probe@@';\n")
	return b.String()
}

func (c progCase) tail() string {
	return "PRINT '@@b:tail@@';\nSELECT * FROM t;\n" + strings.Join(c.Tail, "\n") + "\nSELECT * FROM t;\nSELECT * FROM tt;\nPRINT '@@e:tail@@';\n"
}

// failMark starts a line that holds one statement which has to fail; the session goes on after it.
const failMark = "/*@@must fail@@*/ "

func (u unit) text(idx int) string {
	name := fmt.Sprintf("u%d", idx)
	var b strings.Builder
	if u.Decl != "" {
		b.WriteString(u.Decl + "\n")
	}
	rep := "PRINT '@@b:" + name + "@@';\n" + u.Body + "\nPRINT '@@e:" + name + "@@';\n"
	if u.Churn {
		rep += churnStmt + "\n"
	}
	if u.Kind == "while" {
		fmt.Fprintf(&b, "VAR @k%d := 0;\nWHILE @k%d < %d DO\n%s@k%d := @k%d + 1;\nEND WHILE;\n", idx, idx, u.Reps, rep, idx, idx)
	} else {
		for r := 0; r < u.Reps; r++ {
			b.WriteString(rep)
			if r < u.Reps-1 {
				for _, f := range u.Fails {
					b.WriteString(failMark + strings.ReplaceAll(f, "\n", " ") + "\n")
				}
			}
		}
	}
	return b.String()
}

// program renders the whole program; withUnits=false leaves the reading section out (reference for the tail).
func (c progCase) program(withUnits bool) string {
	var b strings.Builder
	b.WriteString(c.setup())
	if withUnits {
		b.WriteString(c.probe())
		for i, u := range c.Units {
			b.WriteString(u.text(i))
		}
		b.WriteString(c.probe())
	}
	b.WriteString(c.tail())
	return b.String()
}

// withoutFromSubqueries drops the units that contain a FROM-subquery.
func (c progCase) withoutFromSubqueries() (progCase, bool) {
	c2 := c
	c2.Units = nil
	for _, u := range c.Units {
		if !u.FromSubq {
			c2.Units = append(c2.Units, u)
		}
	}
	return c2, len(c2.Units) != len(c.Units)
}

// ---------------------------------------------------------------------
// execution

type runOut struct {
	out      string
	err      error
	views    []run.Tbl
	discards int64
	treeDiff string // "" = the executed tree equals the pristine one
	prepDiff string
	timeout  bool
	harness  string
}

const runLimit = 120 * time.Second

type chunk struct {
	text     string
	mustFail bool
}

// chunksOf cuts a program at the lines that hold a statement which has to fail: the statement lists in between are
// executed by one Execute call each, like the statements an interactive session receives one after the other.
func chunksOf(text string) []chunk {
	var out []chunk
	var cur []string
	flush := func() {
		if len(cur) > 0 {
			out = append(out, chunk{text: strings.Join(cur, "\n") + "\n"})
			cur = nil
		}
	}
	for _, ln := range strings.Split(text, "\n") {
		if strings.HasPrefix(ln, failMark) {
			flush()
			out = append(out, chunk{text: strings.TrimPrefix(ln, failMark), mustFail: true})
		} else {
			cur = append(cur, ln)
		}
	}
	flush()
	return out
}

func parseChunks(chunks []chunk) ([][]parser.Statement, error) {
	out := make([][]parser.Statement, len(chunks))
	for i, ch := range chunks {
		stmts, _, err := parser.Parse(ch.text, "", false, false)
		if err != nil {
			return nil, fmt.Errorf("%v in:\n%s", err, clip(ch.text, 1500))
		}
		out[i] = stmts
	}
	return out, nil
}

// execProgram parses text, executes the trees chunk by chunk in a fresh session over dir and compares them afterwards
// with pristine, another parse of the same text (nil: no comparison).
func execProgram(dir string, cpu int, text string, pristine [][]parser.Statement, poison bool, prepared map[string]string) (ro runOut) {
	chunks := chunksOf(text)
	executed, err := parseChunks(chunks)
	if err != nil {
		ro.harness = "generated program does not parse: " + err.Error()
		return ro
	}
	if pristine != nil && !reflect.DeepEqual(pristine, executed) {
		ro.harness = "two parses of the same text differ: " + firstDiff(reflect.ValueOf(pristine), reflect.ValueOf(executed), "")
		return ro
	}
	ctx, cancel := context.WithTimeout(context.Background(), runLimit)
	defer cancel()
	value.VerifPoison = poison
	defer func() { value.VerifPoison = false }()
	s, err := run.NewSess(run.Opt{Dir: dir, CPU: cpu, CaptureOut: true, Ctx: ctx})
	if err != nil {
		ro.harness = "session: " + err.Error()
		return ro
	}
	defer s.Close()
	d0 := atomic.LoadInt64(&value.VerifDiscards)
	var failLog []string
	for i, ch := range chunks {
		r := s.ExecStmts(executed[i])
		ro.views = append(ro.views, r.Views...)
		if ch.mustFail {
			if r.Err == nil {
				fw.AddExtra("must_fail_statement_succeeded", 1)
				failLog = append(failLog, "<<no failure: "+ch.text+">>")
			} else {
				failLog = append(failLog, "<<failed as intended: "+errKey(r.Err)+">>")
			}
			continue
		}
		if r.Err != nil {
			ro.err = r.Err
			break
		}
	}
	ro.discards = atomic.LoadInt64(&value.VerifDiscards) - d0
	ro.out = s.Out.String() + "\n" + strings.Join(failLog, "\n")
	if ctx.Err() != nil {
		ro.timeout = true
		return ro
	}
	if pristine != nil && !reflect.DeepEqual(pristine, executed) {
		ro.treeDiff = firstDiff(reflect.ValueOf(pristine), reflect.ValueOf(executed), "")
	}
	for _, name := range fw.SortedKeys(prepared) {
		ps, ok := s.Tx.PreparedStatements.Load(name)
		if !ok {
			continue // the program ended before the PREPARE
		}
		fresh, _, perr := parser.Parse(prepared[name], name, true, false)
		if perr != nil {
			ro.harness = "prepared statement text does not parse: " + perr.Error()
			return ro
		}
		if !reflect.DeepEqual(fresh, ps.Statements) {
			ro.prepDiff = name + ": " + firstDiff(reflect.ValueOf(fresh), reflect.ValueOf(ps.Statements), "")
			break
		}
	}
	return ro
}

// firstDiff descends into the first difference of two values and returns
// "<path> (<innermost parser node>.<field>): a != b".
func firstDiff(a, b reflect.Value, path string) string {
	node := ""
	var rec func(a, b reflect.Value, path string) string
	rec = func(a, b reflect.Value, path string) string {
		if !a.IsValid() || !b.IsValid() {
			if a.IsValid() != b.IsValid() {
				return fmt.Sprintf("%s: one side is nil", path)
			}
			return ""
		}
		if a.Type() != b.Type() {
			return fmt.Sprintf("%s: %s != %s", path, a.Type(), b.Type())
		}
		switch a.Kind() {
		case reflect.Interface, reflect.Ptr:
			if a.IsNil() || b.IsNil() {
				if a.IsNil() != b.IsNil() {
					return fmt.Sprintf("%s: nil != non-nil", path)
				}
				return ""
			}
			return rec(a.Elem(), b.Elem(), path)
		case reflect.Struct:
			saved := node
			for i := 0; i < a.NumField(); i++ {
				if strings.HasSuffix(a.Type().PkgPath(), "lib/parser") && a.Type().Name() != "BaseExpr" {
					node = a.Type().Name() + "." + a.Type().Field(i).Name
				}
				if d := rec(a.Field(i), b.Field(i), path+"."+a.Type().Field(i).Name); d != "" {
					return d
				}
			}
			node = saved
			return ""
		case reflect.Slice, reflect.Array:
			if a.Len() != b.Len() {
				return fmt.Sprintf("%s: length %d != %d", path, a.Len(), b.Len())
			}
			for i := 0; i < a.Len(); i++ {
				if d := rec(a.Index(i), b.Index(i), fmt.Sprintf("%s[%d]", path, i)); d != "" {
					return d
				}
			}
			return ""
		}
		if !reflect.DeepEqual(valueOf(a), valueOf(b)) {
			return fmt.Sprintf("%s: %v != %v", path, valueOf(a), valueOf(b))
		}
		return ""
	}
	d := rec(a, b, path)
	if d == "" {
		return "values differ (no path found)"
	}
	return "[" + node + "] " + d
}

func valueOf(v reflect.Value) interface{} {
	switch v.Kind() {
	case reflect.Bool:
		return v.Bool()
	case reflect.Int, reflect.Int8, reflect.Int16, reflect.Int32, reflect.Int64:
		return v.Int()
	case reflect.Uint, reflect.Uint8, reflect.Uint16, reflect.Uint32, reflect.Uint64:
		return v.Uint()
	case reflect.Float32, reflect.Float64:
		return v.Float()
	case reflect.String:
		return v.String()
	}
	if v.CanInterface() {
		return v.Interface()
	}
	return v.String()
}

// diffNode extracts the "[Node.Field]" part of a firstDiff result for the violation signature.
func diffNode(d string) string {
	if i := strings.Index(d, "]"); strings.HasPrefix(d, "[") && i > 0 {
		return d[1:i]
	}
	return "unknown"
}

// ---------------------------------------------------------------------
// output sections

type segment struct {
	name string
	text string
}

// segments cuts the output into the parts between '@@b:X@@' and the next '@@e:X@@'.
// open lists the names whose last begin marker has no end marker (the program stopped inside).
func segments(out string) (segs []segment, open []string) {
	lines := strings.Split(out, "\n")
	type started struct {
		name string
		at   int
	}
	var stack []started
	for i, ln := range lines {
		if strings.HasPrefix(ln, "'@@b:") && strings.HasSuffix(ln, "@@'") {
			stack = append(stack, started{ln[5 : len(ln)-3], i})
		} else if strings.HasPrefix(ln, "'@@e:") && strings.HasSuffix(ln, "@@'") {
			name := ln[5 : len(ln)-3]
			for k := len(stack) - 1; k >= 0; k-- {
				if stack[k].name == name {
					segs = append(segs, segment{name, strings.Join(lines[stack[k].at+1:i], "\n")})
					stack = append(stack[:k], stack[k+1:]...)
					break
				}
			}
		}
	}
	for _, st := range stack {
		open = append(open, st.name)
	}
	return segs, open
}

func byName(segs []segment) map[string][]string {
	m := map[string][]string{}
	for _, s := range segs {
		m[s.name] = append(m[s.name], s.text)
	}
	return m
}

// errKey is the first line of an error message (a fatal error carries a stack trace that differs from run to run).
func errKey(err error) string {
	if err == nil {
		return ""
	}
	s := err.Error()
	if i := strings.IndexByte(s, '\n'); i >= 0 {
		s = s[:i]
	}
	return s
}

func clip(s string, n int) string {
	if len(s) > n {
		return s[:n] + fmt.Sprintf("…(%d bytes)", len(s))
	}
	return s
}

// firstLineDiff shows the first differing line of two texts.
func firstLineDiff(a, b string) string {
	la, lb := strings.Split(a, "\n"), strings.Split(b, "\n")
	for i := 0; i < len(la) || i < len(lb); i++ {
		var x, y string
		if i < len(la) {
			x = la[i]
		} else {
			x = "<end>"
		}
		if i < len(lb) {
			y = lb[i]
		} else {
			y = "<end>"
		}
		if x != y {
			return fmt.Sprintf("line %d: %q != %q", i+1, clip(x, 300), clip(y, 300))
		}
	}
	return "equal"
}

// the poison values as csvq prints them (the float sentinel prints as -7777777777777777 followed by zeros)
var sentinels = []string{"VERIF-POISON", "7777777777777777", "1777-07-07T07:07:07"}

// hasSentinel reports a sentinel that occurs more often in s than in base
// (a computation such as 7.0 / 9 may legitimately print a run of sevens).
func hasSentinel(s, base string) string {
	for _, x := range sentinels {
		if strings.Count(s, x) > strings.Count(base, x) {
			return x
		}
	}
	return ""
}

// ---------------------------------------------------------------------
// the check

func (c progCase) unitKind(seg string) string {
	var idx int
	if _, err := fmt.Sscanf(seg, "u%d", &idx); err == nil && idx >= 0 && idx < len(c.Units) {
		return c.Units[idx].Kind
	}
	return seg
}

var caseSeq int64


func checkProgram(c progCase) (fw.Outcome, *fw.Violation) {
	o := fw.Outcome{}
	if c.N < 1 || len(c.Base) == 0 || len(c.Vars) != 6 {
		o.Discard = true
		return o, nil
	}
	for _, u := range c.Uses {
		switch {
		case strings.HasPrefix(u, "op:"), strings.HasPrefix(u, "stmt:"), strings.HasPrefix(u, "rep:"), strings.HasPrefix(u, "src:"), strings.HasPrefix(u, "cmd:"), u == "error_then_repeat":
			o.Classes = append(o.Classes, u)
		default:
			o.Classes = append(o.Classes, "fn:"+u)
		}
	}
	for _, l := range c.Leafs {
		o.Classes = append(o.Classes, "leaf:"+l)
	}
	if c.N >= 160 && c.CPU >= 4 {
		o.Classes = append(o.Classes, "rows:>=160,cpu4")
	} else {
		o.Classes = append(o.Classes, "rows:few")
	}

	dir := filepath.Join(fw.WorkDir(), fmt.Sprintf("c14-%d", atomic.AddInt64(&caseSeq, 1)))
	if err := os.MkdirAll(dir, 0755); err != nil {
		return o, fw.Harness("mkdir: %v", err)
	}
	defer os.RemoveAll(dir)
	if err := run.WriteFiles(dir, c.files()); err != nil {
		return o, fw.Harness("write table: %v", err)
	}
	prepared := map[string]string{}
	for _, u := range c.Units {
		if u.PrepName != "" {
			prepared[u.PrepName] = u.PrepText
		}
	}
	text := c.program(true)
	show := func() string { return "\n--- program (t.csv: " + fmt.Sprint(c.N) + " rows, cpu " + fmt.Sprint(c.CPU) + ") ---\n" + clip(text, 6000) }

	pristine, perr := parseChunks(chunksOf(text))
	if perr != nil {
		return o, fw.Harness("generated program does not parse: %v%s", perr, show())
	}
	normal := execProgram(dir, c.CPU, text, pristine, false, prepared)
	if normal.harness != "" {
		return o, fw.Harness("%s%s", normal.harness, show())
	}
	if normal.timeout {
		fw.AddExtra("watchdog_retries", 1)
		o.Discard = true
		return o, nil
	}
	if s := hasSentinel(text+c.csv(), ""); s != "" {
		return o, fw.Harness("generated input contains the sentinel %q", s)
	}

	// (c) syntax-tree snapshot
	if normal.treeDiff != "" {
		return o, fw.V("tree_modified:"+diffNode(normal.treeDiff), "the executed syntax tree differs from a pristine parse of the same text: %s%s", normal.treeDiff, show())
	}
	if normal.prepDiff != "" {
		return o, fw.V("prepared_tree_modified:"+diffNode(normal.prepDiff[strings.Index(normal.prepDiff, ": ")+2:]), "the tree held by prepared statement %s differs from a pristine parse of its text%s", normal.prepDiff, show())
	}

	// (a) repetition
	segs, open := segments(normal.out)
	groups := byName(segs)
	for _, name := range fw.SortedKeys(groups) {
		texts := groups[name]
		for i := 1; i < len(texts); i++ {
			if texts[i] != texts[0] {
				sig := "repeat_differs:" + c.unitKind(strings.TrimSuffix(name, "f"))
				if name == "probe" {
					sig = "probe_differs"
				}
				return o, fw.V(sig, "section %s: execution %d printed something else than execution 1: %s%s", name, i+1, firstLineDiff(texts[0], texts[i]), show())
			}
		}
	}
	if normal.err != nil {
		// the same pure statement must not succeed first and fail later
		for _, name := range open {
			if len(groups[name]) > 0 && name != "probe" && name != "tail" {
				return o, fw.V("repeat_error:"+c.unitKind(strings.TrimSuffix(name, "f")), "section %s: execution %d failed with %v after %d successful execution(s)%s", name, len(groups[name])+1, normal.err, len(groups[name]), show())
			}
		}
	}
	// typed comparison of the stored results: repeated executions, and rows with equal data
	if v := c.checkViews(normal.views, show); v != nil {
		return o, v
	}

	// (b) poison differential
	poisoned := execProgram(dir, c.CPU, text, pristine, true, prepared)
	if poisoned.harness != "" {
		return o, fw.Harness("%s%s", poisoned.harness, show())
	}
	if poisoned.timeout {
		fw.AddExtra("watchdog_retries", 1)
		o.Discard = true
		return o, nil
	}
	if s := hasSentinel(poisoned.out+errKey(poisoned.err), normal.out+errKey(normal.err)); s != "" {
		return o, fw.V("poison_sentinel_in_output", "with poisoning Discard the output contains the sentinel %q (a discarded object was read): %s%s", s, firstLineDiff(normal.out, poisoned.out), show())
	}
	sameErr := errKey(poisoned.err) == errKey(normal.err)
	if c.CPU > 1 && run.ErrClass(poisoned.err) == run.ErrClass(normal.err) {
		sameErr = true // several rows fail in parallel: which row's message is reported first is open
	}
	if poisoned.out != normal.out || !sameErr {
		return o, fw.V("poison_output_differs", "with poisoning Discard the program prints something else: %s; errors: %v / %v%s", firstLineDiff(normal.out, poisoned.out), errKey(normal.err), errKey(poisoned.err), show())
	}
	if poisoned.treeDiff != "" {
		return o, fw.V("tree_modified:"+diffNode(poisoned.treeDiff), "poisoning run: the executed syntax tree differs from a pristine parse: %s%s", poisoned.treeDiff, show())
	}
	if poisoned.prepDiff != "" {
		return o, fw.V("prepared_tree_modified:"+diffNode(poisoned.prepDiff[strings.Index(poisoned.prepDiff, ": ")+2:]), "poisoning run: prepared statement %s%s", poisoned.prepDiff, show())
	}

	// cached tables after the reading section: same behaviour as without it
	refText := c.program(false)
	ref := execProgram(dir, c.CPU, refText, nil, false, nil)
	if ref.harness != "" {
		return o, fw.Harness("%s", ref.harness)
	}
	if ref.timeout {
		fw.AddExtra("watchdog_retries", 1)
		o.Discard = true
		return o, nil
	}
	refGroups := byName(func() []segment { s, _ := segments(ref.out); return s }())
	if ref.err != nil || len(refGroups["tail"]) != 1 {
		// the reference program consists of the setup and plain DML: it has to run
		return o, fw.Harness("reference program (without the reading section) failed: %v\n%s", ref.err, clip(refText, 3000))
	}
	midFailed := normal.err != nil && len(groups["probe"]) < 2
	if !midFailed {
		tailOK := normal.err == nil && len(groups["tail"]) == 1 && groups["tail"][0] == refGroups["tail"][0]
		if !tailOK {
			sig, what := "cached_table_differs", ""
			if normal.err != nil {
				sig, what = "dml_after_read_fails", fmt.Sprintf("fail with %q; without the reading section they succeed", normal.err.Error())
			} else {
				got := ""
				if len(groups["tail"]) == 1 {
					got = groups["tail"][0]
				}
				what = "print something else than without the reading section: " + firstLineDiff(refGroups["tail"][0], got)
			}
			// attribution: when the failure disappears with the FROM-subqueries, it is the reported defect
			if c2, removed := c.withoutFromSubqueries(); removed {
				r2 := execProgram(dir, c.CPU, c2.program(true), nil, false, nil)
				g2 := byName(func() []segment { s, _ := segments(r2.out); return s }())
				if r2.harness == "" && !r2.timeout && r2.err == nil && len(g2["tail"]) == 1 && g2["tail"][0] == refGroups["tail"][0] {
					sig = "from_subquery_poisons_fileinfo"
				}
			}
			return o, fw.V(sig, "after the reading section the statements on the cached tables %s%s", what, show())
		}
	}

	if normal.err != nil {
		o.Classes = append(o.Classes, "program_error", "program_error:"+run.ErrClass(normal.err))
		return o, nil
	}
	o.Classes = append(o.Classes, "program_ok")
	for _, u := range c.Uses {
		if !strings.Contains(u, ":") && u != "error_then_repeat" {
			fw.AddExtra("programs_using:"+u, 1) // the class histogram of the evidence keeps the most frequent labels only
		}
	}
	for _, u := range c.Units {
		if u.Churn {
			o.Classes = append(o.Classes, "churn")
			break
		}
	}
	// non-trivial: Discard ran and a statement was evaluated at least twice
	repeated := false
	for i := range c.Units {
		if len(groups[fmt.Sprintf("u%d", i)]) >= 2 {
			repeated = true
		}
	}
	if normal.discards > 0 && repeated {
		var fp []string
		for _, u := range c.Uses {
			if !strings.HasPrefix(u, "stmt:") {
				fp = append(fp, u)
			}
		}
		o.Fingerprint = strings.Join(fp, ",")
	}
	return o, nil
}

// checkViews compares the results stored for top-level SELECTs whose first
// column carries a unit's pid label: every execution gives the same typed
// table, and rows whose source data are equal (id and id+P) carry equal values.
func (c progCase) checkViews(views []run.Tbl, show func() string) *fw.Violation {
	for _, u := range c.Units {
		if u.Pid == "" {
			continue
		}
		var mine []run.Tbl
		for _, v := range views {
			if len(v.Header) > 0 && v.Header[0] == u.Pid {
				mine = append(mine, v)
			}
		}
		for i := 1; i < len(mine); i++ {
			if !reflect.DeepEqual(mine[0], mine[i]) {
				return fw.V("repeat_differs:"+u.Kind, "execution %d of the SELECT labelled %s returned other (typed) values than execution 1%s", i+1, u.Pid, show())
			}
		}
		if len(mine) == 0 {
			continue
		}
		p := len(c.Base)
		byID := map[string][]run.Val{}
		var ids []string
		for _, r := range mine[0].Rows {
			if len(r) == 0 {
				continue
			}
			if _, dup := byID[r[0].S]; !dup {
				ids = append(ids, r[0].S)
			}
			byID[r[0].S] = r
		}
		sort.Strings(ids)
		for _, id := range ids {
			var k int
			if _, err := fmt.Sscanf(id, "%d", &k); err != nil || k <= p {
				continue
			}
			a, ok := byID[fmt.Sprint(k-p)]
			b := byID[id]
			if !ok {
				return fw.V("rows_differ:"+u.Kind, "SELECT labelled %s: row id=%d is present but row id=%d, which has the same data, is not%s", u.Pid, k, k-p, show())
			}
			if !reflect.DeepEqual(a[1:], b[1:]) {
				return fw.V("rows_differ:"+u.Kind, "SELECT labelled %s: rows id=%d and id=%d have the same data but the values %v and %v%s", u.Pid, k-p, k, a[1:], b[1:], show())
			}
		}
	}
	return nil
}

func TestC14Programs(t *testing.T) {
	fw.Run(t, fw.Spec[progCase]{
		ID: "C14", Name: "programs", Quick: 4800, Thorough: 96000,
		Gen: genCase, Check: checkProgram,
		Rule: "programs over a CSV file t (3-6 distinct row tuples repeated to 6-18 rows, or to 160-199 rows with CPU 4), a typed temporary table tt derived from it, variables of every type, an open cursor and variables fetched from it; 1-4 units, each a pure statement list (PRINT, SELECT without FROM, row scans with WHERE, GROUP BY/HAVING with every aggregate incl. LISTAGG/JSON_AGG, every analytic function with partitions and frames, FROM-subqueries, joins, set operators, CTEs, recursive CTEs (the recursive term joined with a table, 3-6 levels, UNION [ALL]), LATERAL joins (CROSS JOIN / comma / LEFT JOIN LATERAL over a correlated, also aggregating, subquery), SELECT DISTINCT, ORDER BY expression with every row-count form (LIMIT n [ROWS] [WITH TIES], LIMIT p PERCENT, OFFSET, FETCH FIRST/NEXT n ROWS / p PERCENT [WITH TIES|ONLY]) whose operand is a literal, an expression or a bare / parenthesised variable, NTILE / NTH_VALUE / LAG / LEAD counts from variables, correlated scalar/EXISTS/IN/ANY/ALL subqueries, 'natural' row scans that call built-ins (conversion functions with priority) with arguments that already have the documented type and are owned by a variable, a fetched value or a cell of the typed table, and non-query commands that take a value: SET @@flag TO/= (to the value the flag already has), ADD/REMOVE @@DATETIME_FORMAT, SET @%ENV, ECHO, PRINT, PRINTF ... USING, EXECUTE format USING, with a literal, a (parenthesised) variable or a placeholder) whose fields call built-in functions drawn uniformly from query.Functions (minus RAND/NOW/CALL) and operators with literals, variables, table cells, cursor values, parameters and placeholders as arguments (20% of these atoms in parentheses, double parentheses or under a unary plus, so that the operand node is not an atom while the value is the owner's own object); each unit is repeated 2-3 times literally, in a WHILE loop, in a function body, as a scalar function or user aggregate called for every row, in a function whose last parameter has a DEFAULT expression that the calls omit, in a recursive function (depth 0-3 per row, default depth 2), as a prepared statement, as a cursor declared for a prepared statement that is opened with USING values and fetched NEXT/PRIOR/FIRST/LAST/ABSOLUTE/RELATIVE (positions also from variables) in every repetition, or row by row over a cursor, optionally with an allocation-heavy statement in between; oracles: all executions print the same text and typed rows, rows with equal data give equal values, probes (all variables incl. those handed to row-count clauses and commands, cursor rows, both tables) before/after are equal, DML on the cached tables afterwards behaves as in a run without the reading section, output under poisoning Discard is identical and sentinel-free, executed trees (incl. prepared statements) DeepEqual a pristine parse; non-trivial = Discard counter increased and a unit was executed >= 2 times; distinct by the set of functions/operators/repetition kinds",
		Assumptions: []string{
			"RAND, NOW, CALL, environment variables and runtime information are not generated (non-deterministic by documentation)",
			"GROUP BY / set operator / analytic results are given a total order (ORDER BY on a unique key) because the order of groups is documented as undefined",
			"divisors of / and % are non-zero literals; count-like arguments (pad lengths, precisions, positions) are drawn from 0..6",
			"commands set a flag only to the value it already has in the session (the flags stay in force for the rest of the session, so another value would legitimately change later output); the datetime format that is added and removed matches no data; CHDIR, SOURCE and external commands are not generated (they act on the process or the file system outside the case)",
			"a FETCH beyond the rows leaves the INTO variables unchanged (the manual says NULL): the cursor_prepared unit sets them to NULL at the start of every repetition and nothing is asserted about that difference",
			"frame offsets of analytic functions are integer tokens in the grammar, no value can be supplied there",
			"a program that stops with an error is still checked (tree snapshot, poison differential, equal output of completed repetitions) but is not counted as non-trivial",
		},
	})
}
