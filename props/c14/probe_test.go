package c14

import (
	"fmt"
	"os"
	"testing"

	"github.com/mithrandie/csvq/lib/value"
	"verif/internal/fw"
	"verif/internal/run"
)

func TestMain(m *testing.M) { fw.Main(m) }

func TestProbe(t *testing.T) {
	dir := fw.WorkDir() + "/probe"
	os.MkdirAll(dir, 0755)
	run.WriteFiles(dir, map[string]string{"t.csv": "id,i,f,s,d\n1,10,1.5,abc,2012-02-03 04:05:06\n2,-3,2.25,Def,2020-01-01\n3,,,,\n"})
	prog, _ := os.ReadFile(os.Getenv("PROBE_SQL"))
	for _, poison := range []bool{false, true} {
		value.VerifPoison = poison
		d0 := value.VerifDiscards
		s, err := run.NewSess(run.Opt{Dir: dir, CPU: 2, CaptureOut: true})
		if err != nil {
			t.Fatal(err)
		}
		r := s.Exec(string(prog))
		fmt.Printf("=== poison=%v err=%v discards=%d views=%d\n%s\n", poison, r.Err, value.VerifDiscards-d0, len(r.Views), s.Out.String())
		s.Close()
	}
	value.VerifPoison = false
}
