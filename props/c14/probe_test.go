package c14

import (
	"fmt"
	"os"
	"sort"
	"strings"
	"testing"
	"time"

	"github.com/mithrandie/csvq/lib/parser"
	"pgregory.net/rapid"

	"verif/internal/fw"
	"verif/internal/run"
)

func fwWork(t *testing.T) string {
	d := fw.WorkDir() + "/probe"
	_ = os.MkdirAll(d, 0755)
	return d
}

func writeTable(dir string, c progCase) error {
	return run.WriteFiles(dir, map[string]string{"t.csv": c.csv()})
}

func newProbeSess(dir string) (*run.Sess, error) {
	return run.NewSess(run.Opt{Dir: dir, CPU: 1, CaptureOut: true})
}

// TestDebugParse: which generated unit texts do not parse (development aid).
func TestDebugParse(t *testing.T) {
	if os.Getenv("C14_DEBUG") == "" {
		t.Skip()
	}
	seen := map[string]bool{}
	n := 0
	rapid.Check(t, func(rt *rapid.T) {
		c := genCase(rt)
		for i, u := range c.Units {
			txt := u.text(i)
			if _, _, err := parser.Parse(txt, "", false, false); err != nil {
				key := err.Error()
				if !seen[key] || n < 6 {
					seen[key] = true
					n++
					fmt.Printf("=== %v\n%s\n", err, txt)
				}
			}
		}
	})
}

// TestDebugErrors: which runtime errors the generated programs stop with (development aid).
func TestDebugErrors(t *testing.T) {
	if os.Getenv("C14_DEBUG") == "" {
		t.Skip()
	}
	counts := map[string]int{}
	example := map[string]string{}
	total := 0
	timeSum, timeN := map[string]time.Duration{}, map[string]int{}
	var slowest time.Duration
	var slowCase string
	defer func() {
		for k := range timeSum {
			fmt.Printf("time %s: n=%d avg=%v\n", k, timeN[k], timeSum[k]/time.Duration(timeN[k]))
		}
		fmt.Printf("slowest %v\n%s\n", slowest, slowCase)
	}()
	rapid.Check(t, func(rt *rapid.T) {
		c := genCase(rt)
		total++
		t0 := time.Now()
		o, v := checkProgram(c)
		el := time.Since(t0)
		tk := "few"
		if c.N >= 160 {
			tk = "many"
		}
		timeSum[tk] += el
		timeN[tk]++
		if el > slowest {
			slowest = el
			slowCase = c.program(true)
		}
		if v != nil {
			k := "VIOLATION " + v.Sig
			counts[k]++
			example[k] = v.Msg
			return
		}
		for _, cl := range o.Classes {
			if strings.HasPrefix(cl, "program_error:") {
				counts[cl]++
			}
		}
		if lastErr != "" {
			k := lastErr
			if len(k) > 90 {
				k = k[:90]
			}
			counts[k]++
			example[k] = lastErr
		}
	})
	fmt.Println("total", total)
	for k, n := range counts {
		fmt.Printf("%5d %s\n", n, k)
	}
	for k, m := range example {
		if strings.HasPrefix(k, "VIOLATION") {
			if len(m) > 7000 {
				m = m[:7000]
			}
			fmt.Printf("----- %s\n%s\n", k, m)
		}
	}
}

// TestProbeSQL executes every line of $PROBE_SQL separately in one session (development aid).
func TestProbeSQL(t *testing.T) {
	if os.Getenv("PROBE_SQL") == "" {
		t.Skip()
	}
	c := progCase{N: 8, CPU: 1, Base: [][]*string{{sp("0"), sp("10"), sp("1.5"), sp("abc"), sp("2012-02-03 04:05:06"), sp("2"), sp(`{"a":1}`), sp("true")}, {sp("1"), nil, nil, nil, nil, sp("0"), nil, nil}},
		Vars: []string{"7", "2.5", "'str'", "DATETIME('2012-02-03 04:05:06')", "TRUE", "3"}, CurOn: "t", CurAt: 0}
	dir := fwWork(t)
	_ = writeTable(dir, c)
	b, _ := os.ReadFile(os.Getenv("PROBE_SQL"))
	s, err := newProbeSess(dir)
	if err != nil {
		t.Fatal(err)
	}
	defer s.Close()
	if r := s.Exec(c.setup()); r.Err != nil {
		t.Fatal(r.Err)
	}
	for _, ln := range strings.Split(string(b), "\n") {
		if strings.TrimSpace(ln) == "" {
			continue
		}
		s.Out.Reset()
		r := s.Exec(ln)
		fmt.Printf(">>> %s\nerr=%v\n%s\n", ln, r.Err, s.Out.String())
	}
}

func sp(s string) *string { return &s }


// TestDebugCensus: how often each function / operator / leaf kind is generated (development aid).
func TestDebugCensus(t *testing.T) {
	if os.Getenv("C14_DEBUG") == "" {
		t.Skip()
	}
	counts := map[string]int{}
	rapid.Check(t, func(rt *rapid.T) {
		c := genCase(rt)
		for _, u := range c.Uses {
			counts[u]++
		}
	})
	type kv struct {
		k string
		n int
	}
	var all []kv
	for _, f := range append(append(append([]string{}, allFns...), aggFns...), anaFns...) {
		if _, ok := counts[f]; !ok {
			counts[f] = 0
		}
	}
	for k, n := range counts {
		all = append(all, kv{k, n})
	}
	sort.Slice(all, func(i, j int) bool { return all[i].n < all[j].n || all[i].n == all[j].n && all[i].k < all[j].k })
	for _, e := range all {
		fmt.Printf("%5d %s\n", e.n, e.k)
	}
}
