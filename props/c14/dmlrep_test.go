package c14

// dml_repeat: statements that ASSIGN (INSERT ... VALUES / SELECT, UPDATE with
// and without FROM, DELETE with and without FROM, REPLACE ... VALUES / SELECT,
// ALTER TABLE ADD ... DEFAULT / DROP, variable substitutions) evaluated several
// times through ONE syntax tree - the body of a WHILE loop, of a WHILE ... IN
// cursor loop, of a user-defined function called several times, or prepared
// statements executed several times with another USING value.
//
// Oracle (differential, fresh trees): the same work written so that every
// evaluation has its own freshly parsed tree (the loop unrolled with explicit
// "@it := i", one function declaration per call, one PREPARE per EXECUTE) must
// print the same text, end with the same tables and variables and commit the
// same file. The statements are deterministic, so the only thing that differs
// between the two programs is whether a tree / a pooled object is used again.
// In addition: the executed trees (also those held by the prepared statements)
// DeepEqual a pristine parse, and the program under poisoning Discard prints
// the same and no sentinel.

import (
	"fmt"
	"os"
	"path/filepath"
	"strings"
	"sync/atomic"
	"testing"

	"pgregory.net/rapid"

	"verif/internal/fw"
	"verif/internal/run"
)

type repCase struct {
	N     int         `json:"n"`
	CPU   int         `json:"cpu"`
	Base  [][]*string `json:"base"`
	Vars  []string    `json:"vars"`  // initialisers of @vi @vf @vs @vd @vb @vk
	CVars []string    `json:"cvars"` // initialisers of @ci @cf @cs @cd @ck
	Mode  string      `json:"mode"`  // while | while_in | function | prepared
	Reps  int         `json:"reps"`
	Body  []string    `json:"body"`  // statements; @it is the number of the evaluation (0, 1, ...)
	FnDef string      `json:"fn_default,omitempty"` // function mode: DEFAULT expression of a second parameter @dv, which every call omits
	Kinds []string    `json:"kinds"` // statement kinds of the body
	Uses  []string    `json:"uses"`
	Leafs []string    `json:"leaves"`
}

func (c repCase) prog() progCase {
	return progCase{N: c.N, CPU: c.CPU, Base: c.Base, Vars: c.Vars}
}

var repTargets = []string{"t", "tt", "tw"}

func genRepCase(t *rapid.T) repCase {
	c := repCase{}
	p := 3 + fw.Uniform(t, "period", 4)
	c.Base = genBase(t, p)
	if fw.Pct(t, "manyRows", 20) {
		c.N = 160 + fw.Uniform(t, "extraRows", 40)
		c.CPU = 4
	} else {
		c.N = 2*p + fw.Uniform(t, "extraRows", p)
		c.CPU = 1 + fw.Uniform(t, "cpu", 2)
	}
	c.Vars = []string{
		fw.PickU(t, "vi", poolInt), fw.PickU(t, "vf", poolFloat), quote(fw.PickU(t, "vs", poolStr)),
		"DATETIME(" + quote(fw.PickU(t, "vd", poolDt)) + ")", fw.PickU(t, "vb", []string{"TRUE", "FALSE"}), fmt.Sprint(fw.Uniform(t, "vk", 5)),
	}
	c.CVars = []string{
		fw.PickU(t, "ci", poolInt), fw.PickU(t, "cf", poolFloat), quote(fw.PickU(t, "cs", poolStr)),
		"DATETIME(" + quote(fw.PickU(t, "cd", poolDt)) + ")", fmt.Sprint(fw.Uniform(t, "ck", 6)),
	}
	c.Mode = fw.PickU(t, "mode", []string{"while", "while_in", "function", "prepared"})
	c.Reps = 2 + fw.Uniform(t, "reps", 2)
	uses, leaves := map[string]bool{}, map[string]bool{}
	g := newGx(t, uses, leaves)
	g.pos = c.prog().fixedPositions()
	sample := ""
	if c.N > 40 {
		sample = " WHERE INTEGER(id) % 7 = 1" // the complete tables are printed once at the end
	}
	params := []string{"@it"}
	if c.Mode == "function" && fw.Pct(t, "fnDefault", 60) {
		// the DEFAULT expression is a tree kept by the function and evaluated by every call that omits the argument
		g.pN, g.pK, g.budget = params, params, 5
		c.FnDef = g.expr('n', 2)
		params = []string{"@it", "@dv", "@dv"}
		uses["stmt:param_default"] = true
	}
	n := 1 + fw.Uniform(t, "nitems", 3)
	for i := 0; i < n; i++ {
		kind, stmts := genRepItem(g, sample, params)
		c.Kinds = append(c.Kinds, kind)
		c.Body = append(c.Body, stmts...)
	}
	obs := fw.PickU(t, "obsTbl", repTargets)
	c.Body = append(c.Body, "SELECT * FROM "+obs+sample+";")
	c.Uses = fw.SortedKeys(uses)
	c.Leafs = fw.SortedKeys(leaves)
	return c
}

// genRepItem draws one assigning statement (or a short group) whose expressions read @it.
func genRepItem(g *gx, sample string, params []string) (string, []string) {
	t := g.t
	g.pN, g.pK = params, params
	g.qual, g.quals, g.cols, g.subq, g.narrow = "", nil, false, false, false
	tgt := fw.PickU(t, "tgt", repTargets)
	d := 2 + fw.Uniform(t, "depth", 2)
	ex := func(ty byte) string { g.budget = 6; return g.expr(ty, d) }
	plainSrc := func(label string) string { return fw.PickU(t, label, repTargets) }
	src := func(label string) string {
		if g.pct(label+"Obj", 20) {
			return g.tableObject(g.pick(label+"ObjKind", []string{"csv", "tsv", "ltsv", "json", "jsonl"}))
		}
		return plainSrc(label)
	}
	where := func(pct int) string {
		if !g.pct("where", pct) {
			return ""
		}
		g.budget = 5
		return " WHERE " + g.expr('b', 2)
	}
	kind := fw.PickU(t, "itemKind", []string{"insert_values", "insert_select", "update", "update", "update_from", "delete", "delete_from", "replace_values", "replace_select", "alter_default", "var_subst"})
	g.uses["stmt:"+kind] = true
	switch kind {
	case "insert_values":
		g.subq = g.pct("allowSubq", 30)
		row := func(off int) string {
			return fmt.Sprintf("(%d + @it, @it %% 3, %s, %s, %s, %s, @it, NULL, %s)", off, ex('n'), ex('n'), ex('s'), ex('d'), ex('b'))
		}
		s := "INSERT INTO " + tgt + " (" + colList + ") VALUES " + row(9000)
		if g.pct("twoRows", 50) {
			s += ", " + row(9100)
		}
		return kind, []string{s + ";"}
	case "insert_select":
		g.cols = true
		s := fmt.Sprintf("INSERT INTO %s (%s) SELECT INTEGER(id) + 1000 * (@it + 1), g, %s, f, %s, %s, k, j, b FROM %s", tgt, colList, ex('n'), ex('s'), ex('d'), src("src"))
		return kind, []string{s + where(60) + ";"}
	case "update":
		g.cols, g.subq = true, g.pct("allowSubq", 35)
		sets := []string{"s = " + ex('s')}
		if g.pct("setN", 60) {
			sets = append(sets, "i = "+ex('n'))
		}
		if g.pct("setD", 35) {
			sets = append(sets, "d = "+ex('d'))
		}
		if g.pct("setB", 25) {
			sets = append(sets, "b = "+ex('b'))
		}
		if g.pct("setSwap", 30) {
			sets = append(sets, "f = k", "k = g")
		}
		return kind, []string{"UPDATE " + tgt + " SET " + strings.Join(sets, ", ") + where(65) + ";"}
	case "update_from":
		g.cols, g.quals = true, []string{"x.", "y."}
		s := "UPDATE x SET x.s = " + ex('s') + ", x.i = " + ex('n') + " FROM " + tgt + " x JOIN " + src("src") + " y ON x.id = y.id" + where(60)
		g.quals = nil
		return kind, []string{s + ";"}
	case "delete":
		g.cols = true
		g.budget = 5
		// (never all rows at once: the later evaluations would have nothing to read)
		return kind, []string{"DELETE FROM " + tgt + " WHERE INTEGER(id) % 4 = @it AND " + g.expr('b', 2) + ";"}
	case "delete_from":
		g.cols, g.quals = true, []string{"x.", "y."}
		g.budget = 5
		s := "DELETE x FROM " + tgt + " x JOIN " + src("src") + " y ON x.id = y.id WHERE y.k = @it AND " + g.expr('b', 2)
		g.quals = nil
		return kind, []string{s + ";"}
	case "replace_values":
		s := fmt.Sprintf("REPLACE INTO %s (id, s, i) USING (id) VALUES (1 + @it, %s, %s), (9500 + @it, %s, %s)", tgt, ex('s'), ex('n'), ex('s'), ex('n'))
		return kind, []string{s + ";"}
	case "replace_select":
		g.cols = true
		s := fmt.Sprintf("REPLACE INTO %s (id, s, i) USING (id) SELECT INTEGER(id), %s, %s FROM %s WHERE INTEGER(k) = @it", tgt, ex('s'), ex('n'), src("src"))
		return kind, []string{s + ";"}
	case "alter_default":
		g.cols = true
		pos := g.pick("addPos", []string{"", " FIRST", " LAST", " AFTER s", " BEFORE g"})
		def := g.fields(1, d)
		return kind, []string{
			"ALTER TABLE " + tgt + " ADD (x1 DEFAULT " + def + ")" + pos + ";",
			"SELECT id, x1 FROM " + tgt + sample + ";",
			"ALTER TABLE " + tgt + " DROP x1;",
		}
	}
	// var_subst
	g.subq = g.pct("allowSubq", 50)
	s := "@acc := @acc || '|' || COALESCE(STRING(" + ex('a') + "), '-');"
	g.subq = false
	return kind, []string{s}
}

func (c repCase) setup() string {
	v, cv := c.Vars, c.CVars
	return fmt.Sprintf("VAR @vi := %s, @vf := %s, @vs := %s, @vd := %s, @vb := %s, @vk := %s, @vn := NULL;\n", v[0], v[1], v[2], v[3], v[4], v[5]) +
		fmt.Sprintf("VAR @ci := %s, @cf := %s, @cs := %s, @cd := %s, @ck := %s, @acc := 'acc', @it := 0;\n", cv[0], cv[1], cv[2], cv[3], cv[4]) +
		"VAR @venc := 'UTF8', @vdl := ',', @vtab := '\\t', @vnh := FALSE, @vwn := FALSE, @vjq := '', @vpos := '" + c.prog().fixedPositions() + "';\n" +
		"DECLARE tt VIEW (" + colList + ") AS SELECT INTEGER(id), INTEGER(g), INTEGER(i), FLOAT(f), s, DATETIME(d), INTEGER(k), j, BOOLEAN(b) FROM t;\n" +
		"DECLARE tw VIEW (" + colList + ") AS SELECT INTEGER(id), INTEGER(g), i, f, s, d, INTEGER(k), j, b FROM t WHERE INTEGER(id) % 2 = 0;\n"
}

func (c repCase) finish() string {
	return "PRINT '@@b:final@@';\nSELECT * FROM t;\nSELECT * FROM tt;\nSELECT * FROM tw;\nPRINT @acc;\nPRINT '@@e:final@@';\nCOMMIT;\n"
}

func (c repCase) fnParams() string {
	if c.FnDef != "" {
		return "@it, @dv DEFAULT " + c.FnDef
	}
	return "@it"
}

func usesIt(s string) bool { return strings.Contains(s, "@it") }

func prepText(s string) string {
	return strings.TrimSuffix(strings.ReplaceAll(s, "@it", ":it"), ";")
}

func execPrepared(name, stmt string, i int) string {
	if usesIt(stmt) {
		return fmt.Sprintf("EXECUTE %s USING %d AS it;\n", name, i)
	}
	return "EXECUTE " + name + ";\n"
}

// repeated renders the program in which ONE tree is evaluated Reps times;
// prepared: name -> text of the prepared statements.
func (c repCase) repeated() (string, map[string]string) {
	var b strings.Builder
	prepared := map[string]string{}
	b.WriteString(c.setup())
	body := strings.Join(c.Body, "\n") + "\n"
	switch c.Mode {
	case "while":
		fmt.Fprintf(&b, "WHILE @it < %d DO\nPRINT 'evaluation';\n%s@it := @it + 1;\nEND WHILE;\n", c.Reps, body)
	case "while_in":
		// the cursor holds the numbers 0 .. Reps-1, taken from t at OPEN; the body changes t while the loop runs
		fmt.Fprintf(&b, "DECLARE itc CURSOR FOR SELECT INTEGER(id) - 1 FROM t WHERE INTEGER(id) <= %d ORDER BY INTEGER(id);\nOPEN itc;\nWHILE @it IN itc DO\nPRINT 'evaluation';\n%sEND WHILE;\nCLOSE itc;\n", c.Reps, body)
	case "function":
		fmt.Fprintf(&b, "DECLARE fr FUNCTION (%s) AS BEGIN\nPRINT 'evaluation';\n%sRETURN @it;\nEND;\n", c.fnParams(), body)
		for i := 0; i < c.Reps; i++ {
			fmt.Fprintf(&b, "PRINT fr(%d);\n", i)
		}
	case "prepared":
		for j, st := range c.Body {
			name := fmt.Sprintf("q%d", j)
			prepared[name] = prepText(st)
			fmt.Fprintf(&b, "PREPARE %s FROM %s;\n", name, quote(prepText(st)))
		}
		for i := 0; i < c.Reps; i++ {
			b.WriteString("PRINT 'evaluation';\n")
			for j, st := range c.Body {
				b.WriteString(execPrepared(fmt.Sprintf("q%d", j), st, i))
			}
		}
	}
	b.WriteString(c.finish())
	return b.String(), prepared
}

// fresh renders the same work with an own tree for every evaluation.
func (c repCase) fresh() string {
	var b strings.Builder
	b.WriteString(c.setup())
	body := strings.Join(c.Body, "\n") + "\n"
	for i := 0; i < c.Reps; i++ {
		switch c.Mode {
		case "while", "while_in":
			fmt.Fprintf(&b, "@it := %d;\nPRINT 'evaluation';\n%s", i, body)
		case "function":
			fmt.Fprintf(&b, "DECLARE fr%d FUNCTION (%s) AS BEGIN\nPRINT 'evaluation';\n%sRETURN @it;\nEND;\nPRINT fr%d(%d);\n", i, c.fnParams(), body, i, i)
		case "prepared":
			b.WriteString("PRINT 'evaluation';\n")
			for j, st := range c.Body {
				name := fmt.Sprintf("q%d_%d", j, i)
				fmt.Fprintf(&b, "PREPARE %s FROM %s;\n", name, quote(prepText(st)))
				b.WriteString(execPrepared(name, st, i))
			}
		}
	}
	b.WriteString(c.finish())
	return b.String()
}

var repSeq int64

func checkRep(c repCase) (fw.Outcome, *fw.Violation) {
	o := fw.Outcome{}
	if c.N < 1 || len(c.Base) == 0 || len(c.Vars) != 6 || len(c.CVars) != 5 || len(c.Body) == 0 || c.Reps < 1 {
		o.Discard = true
		return o, nil
	}
	switch c.Mode {
	case "while", "while_in", "function", "prepared":
	default:
		o.Discard = true
		return o, nil
	}
	o.Classes = append(o.Classes, "mode:"+c.Mode)
	for _, k := range c.Kinds {
		o.Classes = append(o.Classes, "stmt:"+k)
	}
	for _, u := range c.Uses {
		if strings.HasPrefix(u, "src:") || strings.HasPrefix(u, "op:subquery") {
			o.Classes = append(o.Classes, u)
		}
	}
	if c.N >= 160 && c.CPU >= 4 {
		o.Classes = append(o.Classes, "rows:>=160,cpu4")
	} else {
		o.Classes = append(o.Classes, "rows:few")
	}

	base := filepath.Join(fw.WorkDir(), fmt.Sprintf("c14rep-%d", atomic.AddInt64(&repSeq, 1)))
	defer os.RemoveAll(base)
	files := c.prog().files()
	dirs := map[string]string{}
	for _, name := range []string{"repeated", "fresh", "poisoned"} {
		d := filepath.Join(base, name)
		if err := os.MkdirAll(d, 0755); err != nil {
			return o, fw.Harness("mkdir: %v", err)
		}
		if err := run.WriteFiles(d, files); err != nil {
			return o, fw.Harness("write table: %v", err)
		}
		dirs[name] = d
	}
	text, prepared := c.repeated()
	freshText := c.fresh()
	show := func() string {
		return fmt.Sprintf("\n--- program (%s, t.csv: %d rows, cpu %d) ---\n%s\n--- the same work with a tree of its own for every evaluation ---\n%s", c.Mode, c.N, c.CPU, clip(text, 5000), clip(freshText, 2500))
	}
	if s := hasSentinel(text+c.prog().csv(), ""); s != "" {
		return o, fw.Harness("generated input contains the sentinel %q", s)
	}
	pristine, perr := parseChunks(chunksOf(text))
	if perr != nil {
		return o, fw.Harness("generated program does not parse: %v%s", perr, show())
	}
	rep := execProgram(dirs["repeated"], c.CPU, text, pristine, false, prepared)
	if rep.harness != "" {
		return o, fw.Harness("%s%s", rep.harness, show())
	}
	ref := execProgram(dirs["fresh"], c.CPU, freshText, nil, false, nil)
	if ref.harness != "" {
		return o, fw.Harness("%s%s", ref.harness, show())
	}
	if rep.timeout || ref.timeout {
		fw.AddExtra("watchdog_retries", 1)
		o.Discard = true
		return o, nil
	}
	if rep.treeDiff != "" {
		return o, fw.V("dml_tree_modified:"+diffNode(rep.treeDiff), "the executed syntax tree differs from a pristine parse of the same text: %s%s", rep.treeDiff, show())
	}
	if rep.prepDiff != "" {
		return o, fw.V("dml_prepared_tree_modified:"+diffNode(rep.prepDiff[strings.Index(rep.prepDiff, ": ")+2:]), "the tree held by prepared statement %s differs from a pristine parse of its text%s", rep.prepDiff, show())
	}
	// the differential: one tree evaluated Reps times against Reps fresh trees
	if (rep.err == nil) != (ref.err == nil) || run.ErrClass(rep.err) != run.ErrClass(ref.err) {
		return o, fw.V("dml_repeat_error:"+c.Mode, "one tree evaluated %d times ends with %q; with a fresh tree for every evaluation the program ends with %q%s", c.Reps, errKey(rep.err), errKey(ref.err), show())
	}
	if rep.out != ref.out {
		return o, fw.V("dml_repeat_differs:"+c.Mode, "one tree evaluated %d times prints something else than a fresh tree for every evaluation: %s%s", c.Reps, firstLineDiff(ref.out, rep.out), show())
	}
	if rep.err == nil {
		a, _ := os.ReadFile(filepath.Join(dirs["repeated"], "t.csv"))
		b, _ := os.ReadFile(filepath.Join(dirs["fresh"], "t.csv"))
		if string(a) != string(b) {
			return o, fw.V("dml_repeat_file_differs:"+c.Mode, "the committed t.csv differs: %s%s", firstLineDiff(string(b), string(a)), show())
		}
	}
	// poison differential
	poi := execProgram(dirs["poisoned"], c.CPU, text, pristine, true, prepared)
	if poi.harness != "" {
		return o, fw.Harness("%s%s", poi.harness, show())
	}
	if poi.timeout {
		fw.AddExtra("watchdog_retries", 1)
		o.Discard = true
		return o, nil
	}
	if s := hasSentinel(poi.out+errKey(poi.err), rep.out+errKey(rep.err)); s != "" {
		return o, fw.V("dml_poison_sentinel", "with poisoning Discard the output contains the sentinel %q (a discarded object was read or stored): %s%s", s, firstLineDiff(rep.out, poi.out), show())
	}
	if poi.out != rep.out || run.ErrClass(poi.err) != run.ErrClass(rep.err) {
		return o, fw.V("dml_poison_differs", "with poisoning Discard the program prints something else: %s; errors: %v / %v%s", firstLineDiff(rep.out, poi.out), errKey(rep.err), errKey(poi.err), show())
	}
	if rep.err == nil {
		a, _ := os.ReadFile(filepath.Join(dirs["repeated"], "t.csv"))
		b, _ := os.ReadFile(filepath.Join(dirs["poisoned"], "t.csv"))
		if string(a) != string(b) {
			if s := hasSentinel(string(b), string(a)); s != "" {
				return o, fw.V("dml_poison_sentinel", "with poisoning Discard the committed t.csv contains the sentinel %q%s", s, show())
			}
			return o, fw.V("dml_poison_differs", "with poisoning Discard the committed t.csv differs: %s%s", firstLineDiff(string(a), string(b)), show())
		}
	}
	if poi.treeDiff != "" {
		return o, fw.V("dml_tree_modified:"+diffNode(poi.treeDiff), "poisoning run: the executed syntax tree differs from a pristine parse: %s%s", poi.treeDiff, show())
	}
	if rep.err != nil {
		o.Classes = append(o.Classes, "program_error", "program_error:"+run.ErrClass(rep.err))
		return o, nil
	}
	o.Classes = append(o.Classes, "program_ok")
	if strings.Count(rep.out, "'evaluation'") >= 2 {
		o.Fingerprint = c.Mode + ":" + strings.Join(c.Kinds, ",") + ":" + strings.Join(c.Uses, ",")
	}
	return o, nil
}

func TestC14DMLRepeat(t *testing.T) {
	fw.Run(t, fw.Spec[repCase]{
		ID: "C14", Name: "dml_repeat", Quick: 2000, Thorough: 40000,
		Gen: genRepCase, Check: checkRep,
		Rule: "the CSV file t of the programs check (6-18 rows, or 160-199 rows with CPU 4), a typed temporary table tt and a second temporary table tw (even ids) derived from it, variables of every type; a body of 1-3 ASSIGNING statements drawn from INSERT VALUES (1-2 rows), INSERT SELECT (from t/tt/tw/a table object, also from the target itself), UPDATE (1-6 SET items incl. the swap f = k, k = g), UPDATE x ... FROM target x JOIN source y, DELETE, DELETE x FROM ... JOIN, REPLACE VALUES (a matching and a new key), REPLACE SELECT, ALTER TABLE ADD (x1 DEFAULT expression) [FIRST|LAST|AFTER|BEFORE] / SELECT / DROP, and @acc := @acc || expression, whose values, conditions and defaults are expressions of the programs generator (every built-in function, operators, CASE, subqueries, cells, variables) reading the evaluation number @it (in function mode also a second parameter @dv whose DEFAULT expression over @it every call has to evaluate), followed by one SELECT; the body is evaluated 2-3 times through ONE tree: WHILE loop, WHILE @it IN cursor over t (the body changes t meanwhile), function body called once per evaluation, prepared statements executed with USING i AS it; oracle: the program in which every evaluation has a freshly parsed tree of its own (unrolled loop with @it := i, one function declaration per call, one PREPARE per EXECUTE) prints the same text, ends with the same three tables and variable, the same error class, and commits the same t.csv; executed trees (incl. prepared statements) DeepEqual a pristine parse; output and committed file under poisoning Discard are identical and sentinel-free; non-trivial = the body ran at least twice and the program completed; distinct by (mode, statement kinds, functions/operators used)",
		Assumptions: []string{
			"the generated statements are deterministic (no RAND/NOW), so a program and its unrolled form differ only in the reuse of trees and pooled objects",
			"error messages carry line numbers and statement names that differ between the two forms: errors are compared by class (code), the text printed before the error must be equal",
			"DELETE always carries INTEGER(id) % 4 = @it so that later evaluations still find rows",
		},
	})
}
