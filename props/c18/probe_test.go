package c18

import (
	"fmt"
	"testing"

	"github.com/mithrandie/csvq/lib/parser"
)

func TestProbe(t *testing.T) {
	for _, c := range []string{"SELECT !!TRUE", "SELECT 1 !! garbage ((", "SELECT 1 => 2", "SELECT a::", "SELECT 1 FROM t WHERE a |= 3 AND )))", "!!", "SELECT 1; !! SELECT", "SELECT @ 1"} {
		stmts, _, err := parser.Parse(c, "", false, false)
		fmt.Printf("%q => %d stmts err=%v\n", c, len(stmts), err)
		for _, st := range stmts {
			fmt.Printf("   %T %+v\n", st, st)
			if q, ok := st.(parser.SelectQuery); ok {
				fmt.Printf("   %q\n", q.String())
			}
		}
		var sc parser.Scanner
		sc.Init(c, "", false, false)
		for i := 0; i < 20; i++ {
			tk, e := sc.Scan()
			fmt.Printf("   tok %d %q err=%v\n", tk.Token, tk.Literal, e)
			if tk.Token == parser.EOF {
				break
			}
		}
	}
}
