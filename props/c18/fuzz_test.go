package c18

import (
	"testing"

	"pgregory.net/rapid"
)

// fuzzOracle is the totality oracle plus the round-trip oracle for whatever
// SELECT the input contains (evaluation only for confined, deterministic
// texts). Shapes already reported (avoidKnown* constants) are tolerated so that
// the fuzzer keeps going.
func fuzzOracle(data []byte, prepared, ansi bool) (string, bool) {
	if len(data) > 1<<20 {
		return "", true
	}
	src := string(data)
	out, v := checkTotal(src, prepared, ansi)
	if v != nil {
		return v.Error(), false
	}
	if out.err != nil || len(out.stmts) == 0 {
		return "", true
	}
	if _, v := checkParsed(src, out.stmts, prepared, ansi, true); v != nil {
		return v.Error(), false
	}
	return "", true
}

// FuzzParse is the native fuzz target (thorough tier: go test -fuzz=FuzzParse).
// A plain `go test` only runs the seed corpus: the SQL code blocks of the
// manual and a sample of the grammar generator's output.
//
//	cd /verif && go test -tags verif -run '^$' -fuzz '^FuzzParse$' -fuzztime 8m ./props/c18
func FuzzParse(f *testing.F) {
	for i, blk := range docBlocks() {
		f.Add([]byte(blk), false, i%7 == 3)
		if i%5 == 0 {
			f.Add([]byte(blk), true, false)
		}
	}
	for _, tmpl := range stmtTemplates {
		f.Add([]byte(tmpl+";"), false, false)
	}
	type sample struct {
		sql        string
		prep, ansi bool
	}
	gen := rapid.Custom(func(t *rapid.T) sample {
		prep := rapid.Bool().Draw(t, "prep")
		ansi := rapid.Bool().Draw(t, "ansi")
		sql, _ := genQueryText(t, prep, ansi)
		return sample{sql, prep, ansi}
	})
	for i := 0; i < 150; i++ {
		s := gen.Example(i + 1)
		f.Add([]byte(s.sql), s.prep, s.ansi)
	}
	for _, s := range []string{"", ";", "SELECT", "SELECT 'abc", "SELECT 1 -- c", "/* open", "SELECT \x00", "SELECT \xff\xfe", "SELECT ((((1))))", "@", "@%`", "a::", "$"} {
		f.Add([]byte(s), false, false)
		f.Add([]byte(s), true, true)
	}
	f.Fuzz(func(t *testing.T, data []byte, prepared bool, ansi bool) {
		if msg, ok := fuzzOracle(data, prepared, ansi); !ok {
			t.Fatalf("%s", msg)
		}
	})
}
