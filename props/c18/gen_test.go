package c18

import (
	"os"
	"path/filepath"
	"regexp"
	"sort"
	"strings"
	"sync"

	"github.com/mithrandie/csvq/lib/parser"
	"pgregory.net/rapid"

	"verif/internal/run"
)

// =====================================================================
// grammar based generator of SELECT queries (rendered as token lists)

type col struct {
	tbl  string // qualifier usable in a field reference ("" = none)
	name string
}

type fixTable struct {
	name   string   // reference name (file name without extension)
	spells []string // spellings in a FROM clause
	cols   []string
}

var fixTables = []fixTable{
	{"t1", []string{"t1", "t1.csv"}, []string{"c1", "c2", "c3"}},
	{"t2", []string{"t2", "t2.csv"}, []string{"c1", "c4"}},
	{"my table", []string{"my table", "my table.csv"}, []string{"col 1", "a\"b", "x'y", "b`q", "日本語"}},
	{"tmp", []string{"tmp"}, []string{"a", "b"}},
	{"t6", []string{"t6", "t6.json"}, []string{"k1", "k2"}},  // JSON file (formatFixtureFiles)
	{"t4", []string{"t4", "t4.jsonl"}, []string{"k1", "k2"}}, // JSON Lines file
	{"t3", []string{"t3", "t3.ltsv"}, []string{"k1", "k2"}},  // LTSV file
}

type qg struct {
	t           *rapid.T
	ansi        bool
	prep        bool
	feats       map[string]bool
	nAlias      int
	intoPending bool // the outermost query gets an INTO clause (select_into_query)
	intoNow     bool
	noTail      bool // joinToks adds no ";" / trailing comment (the text is embedded in a larger statement)
	ctes        []fixTable
	used        map[string]bool // table reference names of the FROM clause being rendered
}

func (g *qg) feat(s string)                  { g.feats[s] = true }
func (g *qg) n(label string, lo, hi int) int { return uniform(g.t, label, lo, hi) }

// uniform draws an integer of [lo, hi] with (nearly) equal probabilities.
// rapid's own range generators favour small values and the bounds, which
// would make every "first alternative" dominate; the draw is still a rapid draw
// (replayable, and 0 shrinks to lo).
func uniform(t *rapid.T, label string, lo, hi int) int {
	u := rapid.Uint64().Draw(t, label)
	u ^= u >> 33
	u *= 0xff51afd7ed558ccd
	u ^= u >> 33
	u *= 0xc4ceb9fe1a85ec53
	u ^= u >> 33
	return lo + int(u%uint64(hi-lo+1))
}

func chance(t *rapid.T, label string, pct int) bool { return uniform(t, label, 0, 99) < pct }

func pickOf[T any](t *rapid.T, label string, xs []T) T { return xs[uniform(t, label, 0, len(xs)-1)] }
func (g *qg) chance(label string, pct int) bool        { return g.n(label, 0, 99) < pct }

// rare returns bad (a name that makes evaluation fail) with 4% probability, else one of xs.
func (g *qg) rare(bad string, xs []string) string {
	if g.n("rare", 0, 24) == 0 {
		g.feat("undefined_name")
		return bad
	}
	return g.pick("common", xs)
}

func (g *qg) pick(label string, xs []string) string {
	return xs[g.n(label, 0, len(xs)-1)]
}

// kw renders one or more keywords in random letter case.
func (g *qg) kw(words string) []string {
	var out []string
	for _, w := range strings.Fields(words) {
		switch g.n("kwcase", 0, 9) {
		case 0, 1, 2:
			w = strings.ToLower(w)
		case 3:
			b := []byte(strings.ToLower(w))
			for i := range b {
				if g.n("kwmix", 0, 1) == 1 {
					b[i] = strings.ToUpper(string(b[i]))[0]
				}
			}
			w = string(b)
		}
		out = append(out, w)
	}
	return out
}

func cat(parts ...[]string) []string {
	var out []string
	for _, p := range parts {
		out = append(out, p...)
	}
	return out
}

func one(s string) []string { return []string{s} }

var simpleIdent = regexp.MustCompile(`^[A-Za-z_][A-Za-z0-9_]*$`)

func isKeywordLike(s string) bool {
	var sc parser.Scanner
	sc.Init(s, "", false, false)
	tk, err := sc.Scan()
	return err != nil || tk.Token != parser.IDENTIFIER
}

// ident renders an identifier: bare when possible, otherwise (or sometimes
// anyway) quoted with a random spelling of every character that can be escaped.
func (g *qg) ident(name string) string {
	if simpleIdent.MatchString(name) && !isKeywordLike(name) && g.n("identbare", 0, 9) < 7 {
		return name
	}
	if keywordIdents[strings.ToUpper(name)] && g.n("kwidentbare", 0, 9) < 7 {
		// TIES, NULLS, ROWS, CSV, JSON, JSONL, FIXED, LTSV are keywords the grammar also accepts as identifiers
		g.feat("keyword_identifier_bare")
		return name
	}
	g.feat("quoted_ident")
	q := '`'
	if g.ansi && g.n("identq", 0, 1) == 1 {
		q = '"'
		g.feat("ansi_quoted_ident")
	}
	var b strings.Builder
	b.WriteRune(q)
	for _, r := range name {
		switch {
		case r == q:
			g.feat("ident_escape")
			if g.n("identesc", 0, 1) == 0 {
				b.WriteRune(q)
				b.WriteRune(q)
			} else {
				b.WriteRune('\\')
				b.WriteRune(q)
			}
		case r == '\\':
			g.feat("ident_escape")
			b.WriteString(`\\`)
		case r == '"' && q == '`' && g.n("identdq", 0, 2) == 0:
			b.WriteString(`\"`)
		case r == '\t' && g.n("identtab", 0, 1) == 0:
			b.WriteString(`\t`)
		case r == '\n' && g.n("identnl", 0, 1) == 0:
			b.WriteString(`\n`)
		default:
			b.WriteRune(r)
		}
	}
	b.WriteRune(q)
	return b.String()
}

var strPlain = []string{"abc", "x", " ", "%", "_", "a%", "100", "-1", "2012-02-03", "2012-02-03 09:18:15", "true", "日本", "é", "😀", "b", "[1,2]", "{\"k\":1}", "k", ","}
var strInert = []string{"--", "/*", "*/", ";", "?", ":p1", "@v1", "`", "$x", "::", "{", "}"}
var strEsc = []string{`\n`, `\t`, `\r`, `\a`, `\b`, `\f`, `\v`, `\\`}
var strUnknownEsc = []string{`\q`, `\%`, `\_`, `\0`, `\日`, `\ `}
var strRaw = []string{"\n", "\t", "\r\n", "\r", "\x00", "\u2028", "\u00a0", "\x7f"}

// strLit renders a string literal from source-level pieces (valid by construction).
func (g *qg) strLit() string {
	g.feat("string")
	q := "'"
	other := "\""
	if !g.ansi && g.n("strq", 0, 3) == 0 {
		q, other = "\"", "'"
		g.feat("dq_string")
	}
	var b strings.Builder
	b.WriteString(q)
	n := g.n("strn", 0, 4)
	for i := 0; i < n; i++ {
		switch g.n("strpiece", 0, 13) {
		case 0, 1, 2, 3, 4:
			b.WriteString(strings.ReplaceAll(g.pick("strplain", strPlain), q, q+q))
		case 5:
			g.feat("str_quote_escape")
			if g.n("strqq", 0, 1) == 0 {
				b.WriteString(q + q)
			} else {
				b.WriteString(`\` + q)
			}
		case 6:
			g.feat("str_other_quote")
			if g.n("stroq", 0, 1) == 0 {
				b.WriteString(other)
			} else {
				b.WriteString(`\` + other)
			}
		case 7, 8:
			g.feat("str_backslash_escape")
			b.WriteString(g.pick("stresc", strEsc))
		case 9:
			g.feat("str_unknown_escape")
			b.WriteString(g.pick("struesc", strUnknownEsc))
		case 10:
			g.feat("str_raw_control")
			b.WriteString(g.pick("strraw", strRaw))
		case 11:
			g.feat("str_inert_syntax")
			b.WriteString(g.pick("strinert", strInert))
		default:
			b.WriteString(strings.ReplaceAll(g.pick("strplain2", strPlain), q, `\`+q))
		}
	}
	b.WriteString(q)
	return b.String()
}

var intLits = []string{"0", "1", "2", "3", "10", "42", "007", "9223372036854775807", "99999999999999999999"}
var floatLits = []string{"1.5", "0.0", "1e3", "2.5E-2", "1.", "3.14", "1e+2", "0.1"}

type ectx struct {
	cols     []col
	agg      bool // aggregate functions may be used
	analytic bool // analytic functions may be used
}

func (g *qg) colRef(c col) []string {
	name := g.ident(c.name)
	if c.tbl == "" || g.n("colqual", 0, 9) < 6 {
		return one(name)
	}
	g.feat("qualified_column")
	q := g.ident(c.tbl)
	if c.tbl == "STDIN" && g.n("stdinbare", 0, 3) != 0 {
		g.feat("stdin_qualifier")
		q = g.kw("STDIN")[0] // the grammar's STDIN '.' identifier alternative
	}
	if g.n("coldotsp", 0, 9) == 0 {
		return []string{q, ".", name}
	}
	return one(q + "." + name)
}

func (g *qg) leaf(c ectx) []string {
	k := g.n("leaf", 0, 29)
	if len(c.cols) > 0 && k < 12 {
		g.feat("column")
		pickd := c.cols[g.n("colidx", 0, len(c.cols)-1)]
		for _, o := range c.cols {
			if o != pickd && strings.EqualFold(o.name, pickd.name) && pickd.tbl != "" && g.n("allowambig", 0, 19) != 0 {
				g.feat("qualified_column")
				return one(g.ident(pickd.tbl) + "." + g.ident(pickd.name))
			}
		}
		return g.colRef(pickd)
	}
	switch k % 18 {
	case 0, 1, 2:
		return one(g.pick("int", intLits))
	case 3:
		g.feat("float")
		return one(g.pick("float", floatLits))
	case 4, 5, 6:
		return one(g.strLit())
	case 7:
		g.feat("ternary_null")
		return g.kw(g.pick("tern", []string{"TRUE", "FALSE", "UNKNOWN", "NULL"}))
	case 8:
		g.feat("variable")
		return one(g.rare("@zz", []string{"@v1", "@v2", "@v3", "@v1"}))
	case 9:
		g.feat("env_var")
		return one(g.pick("env", []string{"@%C18_ENV", "@%`C18 ENV`", "@%`C18_ENV`", "@%`C18 ENV`", "@%NO_SUCH_C18"}))
	case 10:
		g.feat("flag_or_info")
		return one(g.rare(g.pick("badflag", []string{"@#UPTIME", "@@no_such"}), []string{"@@CPU", "@@ansi_quotes", "@@DELIMITER", "@#VERSION", "@#version", "@@Quiet", "@@DATETIME_FORMAT"}))
	case 11:
		g.feat("constant")
		return one(g.rare("MATH::NOPE", []string{"MATH::PI", "math::e", "Integer::Max", "FLOAT::MAX", "Math::Sqrt2"}))
	case 12:
		g.feat("cursor_status")
		cur := g.rare("nocur", []string{"cur", "cur2", "CUR", "`cur`", "cur"})
		switch g.n("curk", 0, 4) {
		case 0:
			return cat(g.kw("CURSOR"), one(cur), g.kw("IS OPEN"))
		case 1:
			return cat(g.kw("CURSOR"), one(cur), g.kw("IS NOT OPEN"))
		case 2:
			return cat(g.kw("CURSOR"), one(cur), g.kw("IS IN RANGE"))
		case 3:
			return cat(g.kw("CURSOR"), one(cur), g.kw("IS NOT IN RANGE"))
		}
		return cat(g.kw("CURSOR"), one(cur), g.kw("COUNT"))
	case 13:
		if g.prep {
			g.feat("placeholder")
			if !avoidKnownPositionalPlaceholder && g.n("posph", 0, 2) == 0 {
				g.feat("positional_placeholder")
				return one("?")
			}
			return one(g.rare(":nope", []string{":p1", ":p2", ":p3", ":p1"}))
		}
		return one(g.pick("int2", intLits))
	case 14:
		if len(c.cols) > 0 && c.cols[0].tbl != "" {
			g.feat("column_number")
			return one(g.ident(c.cols[0].tbl) + "." + g.rare("9", []string{"1", "1", "2", "01"}))
		}
		return one(g.strLit())
	case 15:
		if len(c.cols) > 0 && g.n("emptyqual", 0, 3) == 0 {
			g.feat("empty_qualifier")
			return one("``." + g.ident(c.cols[0].name))
		}
		return one(g.pick("int3", intLits))
	}
	return one(g.strLit())
}

type fnSpec struct {
	name     string
	min, max int
}

var scalarFns = []fnSpec{
	{"COALESCE", 1, 3}, {"IFNULL", 2, 2}, {"NULLIF", 2, 2}, {"ABS", 1, 1}, {"CEIL", 1, 1}, {"FLOOR", 1, 1}, {"ROUND", 1, 2}, {"POW", 2, 2},
	{"SQRT", 1, 1}, {"TRIM", 1, 2}, {"LTRIM", 1, 1}, {"UPPER", 1, 1}, {"LOWER", 1, 1}, {"LEN", 1, 1}, {"BYTE_LEN", 1, 1}, {"LPAD", 3, 3},
	{"SUBSTR", 2, 3}, {"INSTR", 2, 2}, {"STRING", 1, 1}, {"INTEGER", 1, 1}, {"FLOAT", 1, 1}, {"BOOLEAN", 1, 1}, {"TERNARY", 1, 1},
	{"DATETIME", 1, 1}, {"MD5", 1, 1}, {"BASE64_ENCODE", 1, 1}, {"HEX_ENCODE", 1, 1}, {"YEAR", 1, 1}, {"DATETIME_FORMAT", 2, 2}, {"FORMAT", 1, 3},
	{"REGEXP_MATCH", 2, 2}, {"REGEXP_REPLACE", 3, 3}, {"JSON_VALUE", 2, 2}, {"LIST_ELEM", 3, 3}, {"TITLE_CASE", 1, 1}, {"udf", 1, 2}, {"UDF", 2, 2},
}

var parseOnlyFns = []fnSpec{{"NOW", 0, 0}, {"RAND", 0, 0}, {"no_such_fn", 0, 2}}

var cmpOps = []string{"=", "<", ">", "<=", ">=", "<>", "!=", "=="}

func (g *qg) paren(x []string) []string { return cat(one("("), x, one(")")) }

func (g *qg) list(n int, f func() []string) []string {
	var out []string
	for i := 0; i < n; i++ {
		if i > 0 {
			out = append(out, ",")
		}
		out = append(out, f()...)
	}
	return out
}

func (g *qg) expr(d int, c ectx) []string {
	t, _ := g.ex(d, c)
	return t
}

// ex renders an expression and returns its binding level: 0 atom, 1
// arithmetic/concatenation/unary sign, 2 comparison family (not associative in
// csvq's grammar), 3 NOT/AND/OR. Operands of the comparison family are put in
// parentheses when they are of level >= 2 (mostly: a few are left bare, such a
// text may not parse and is then discarded).
func (g *qg) ex(d int, c ectx) ([]string, int) {
	if d <= 0 {
		return g.leaf(c), 0
	}
	inner := 0
	sub := func() []string {
		t, l := g.ex(d-1, c)
		if l > inner {
			inner = l
		}
		return t
	}
	low := func() []string {
		t, l := g.ex(d-1, c)
		if l >= 2 && g.n("lowparen", 0, 29) != 0 {
			return g.paren(t)
		}
		if l > inner {
			inner = l
		}
		return t
	}
	lv := func(own int) int { return max(own, inner) }
	noAgg := ectx{cols: c.cols}
	k := g.n("expr", 0, 41)
	switch k {
	case 0, 1, 2, 3:
		return g.leaf(c), 0
	case 4, 5:
		g.feat("parentheses")
		return g.paren(sub()), 0
	case 6:
		g.feat("unary_arith")
		op := g.pick("uop", []string{"-", "+"})
		x := low()
		if avoidKnownDoubleUnaryMinus && op == "-" && len(x) > 0 && strings.HasPrefix(x[0], "-") {
			x = g.paren(x)
		}
		return cat(one(op), x), lv(1)
	case 7:
		g.feat("unary_logic")
		if g.n("notk", 0, 2) == 0 {
			x := low()
			if avoidKnownBangBeforeOperator && len(x) > 0 && (strings.HasPrefix(x[0], "!") || strings.HasPrefix(x[0], ":")) {
				x = g.paren(x)
			}
			g.feat("bang")
			return cat(one("!"), x), lv(1)
		}
		return cat(g.kw("NOT"), sub()), 3
	case 8, 9, 10:
		g.feat("arithmetic")
		return cat(low(), one(g.pick("aop", []string{"+", "-", "*", "/", "%"})), low()), lv(1)
	case 11:
		g.feat("concat")
		return cat(low(), one("||"), low()), lv(1)
	case 12, 13, 14:
		g.feat("comparison")
		return cat(low(), one(g.pick("cop", cmpOps)), low()), 2
	case 15, 16:
		g.feat("logic")
		return cat(sub(), g.kw(g.pick("lop", []string{"AND", "OR"})), sub()), 3
	case 17:
		g.feat("is")
		neg := ""
		if g.chance("isneg", 40) {
			neg = " NOT"
		}
		return cat(low(), g.kw("IS"+neg), g.kw(g.pick("isrhs", []string{"NULL", "TRUE", "FALSE", "UNKNOWN"}))), 2
	case 18:
		g.feat("between")
		neg := ""
		if g.chance("btneg", 40) {
			neg = "NOT "
		}
		return cat(low(), g.kw(neg+"BETWEEN"), low(), g.kw("AND"), low()), 2
	case 19:
		g.feat("in")
		neg := ""
		if g.chance("inneg", 40) {
			neg = "NOT "
		}
		if g.chance("insub", 30) {
			g.feat("in_subquery")
			return cat(low(), g.kw(neg+"IN"), g.subquery(d-1, 1, true)), 2
		}
		return cat(low(), g.kw(neg+"IN"), g.paren(g.list(g.n("inn", 1, 3), g.atomArg(d-1, c)))), 2
	case 20:
		g.feat("like")
		neg := ""
		if g.chance("lkneg", 40) {
			neg = "NOT "
		}
		if g.chance("likeexpr", 20) {
			g.feat("like_pattern_expression") // grammar: value [NOT] LIKE value
			return cat(low(), g.kw(neg+"LIKE"), low()), 2
		}
		return cat(low(), g.kw(neg+"LIKE"), one(g.strLit())), 2
	case 21:
		g.feat("any_all")
		q := g.pick("anyall", []string{"ANY", "ALL"})
		if g.chance("anysub", 30) {
			return cat(low(), one(g.pick("cop2", cmpOps)), g.kw(q), g.subquery(d-1, 1, true)), 2
		}
		return cat(low(), one(g.pick("cop3", cmpOps)), g.kw(q), g.paren(g.list(g.n("anyn", 1, 3), g.atomArg(d-1, c)))), 2
	case 22:
		g.feat("exists")
		return cat(g.kw("EXISTS"), g.subquery(d-1, g.n("exn", 1, 2), true)), 2
	case 23:
		g.feat("row_value")
		rv := func() []string { return g.paren(g.list(2, g.atomArg(d-1, c))) }
		switch g.n("rvk", 0, 5) {
		case 0:
			return cat(rv(), one(g.pick("cop4", cmpOps)), rv()), 2
		case 1:
			// grammar: row_value negation IN matrix_value
			rneg := ""
			if g.chance("rvinneg", 40) {
				g.feat("row_value_not_in")
				rneg = "NOT "
			}
			if g.chance("rvinsub", 25) {
				g.feat("row_value_in_subquery")
				return cat(rv(), g.kw(rneg+"IN"), g.subquery(d-1, 2, true)), 2
			}
			return cat(rv(), g.kw(rneg+"IN"), g.paren(g.list(g.n("rvn", 1, 2), rv))), 2
		case 2:
			// grammar: row_value negation BETWEEN row_value AND row_value
			if g.chance("rvbtpos", 50) {
				g.feat("row_value_between")
				return cat(rv(), g.kw("BETWEEN"), rv(), g.kw("AND"), rv()), 2
			}
			return cat(rv(), g.kw("NOT BETWEEN"), rv(), g.kw("AND"), rv()), 2
		case 3:
			return cat(rv(), one(g.pick("cop5", cmpOps)), g.kw(g.pick("anyall2", []string{"ANY", "ALL"})), g.paren(g.list(g.n("rvn2", 1, 2), rv))), 2
		case 4:
			g.feat("json_row")
			return cat(rv(), g.kw("IN"), g.kw("JSON_ROW"), g.paren(cat(one("'[]'"), one(","), one("'[[1,2],[3,4]]'")))), 2
		}
		return cat(rv(), one("="), g.subquery(d-1, 2, false)), 2
	case 24:
		g.feat("json_row")
		pair := g.rare("'k[]'\x00'x'", []string{"'[]'\x00'[1,2,3]'", "'k[]'\x00'{\"k\":[1,\"a\"]}'", "'[]'\x00'[\"a\",null]'", "'k.l[]'\x00'{\"k\":{\"l\":[2,3]}}'"})
		jq, jt, _ := strings.Cut(pair, "\x00")
		return cat(low(), g.kw("IN"), g.kw("JSON_ROW"), g.paren(cat(one(jq), one(","), one(jt)))), 2
	case 25, 26:
		g.feat("case")
		var out []string
		out = append(out, g.kw("CASE")...)
		if g.chance("casev", 50) {
			out = append(out, sub()...)
		}
		for i, n := 0, g.n("casen", 1, 2); i < n; i++ {
			out = cat(out, g.kw("WHEN"), sub(), g.kw("THEN"), sub())
		}
		if g.chance("caseelse", 60) {
			out = cat(out, g.kw("ELSE"), sub())
		}
		return cat(out, g.kw("END")), 0
	case 27, 28, 29:
		g.feat("function")
		f := scalarFns[g.n("fn", 0, len(scalarFns)-1)]
		if g.n("pofn", 0, 39) == 0 {
			g.feat("parse_only_function")
			f = parseOnlyFns[g.n("pofnk", 0, len(parseOnlyFns)-1)]
		}
		name := f.name
		if g.chance("fnlower", 30) {
			name = strings.ToLower(name)
		}
		if !avoidKnownQuotedFunctionName && g.chance("fnquoted", 10) {
			g.feat("quoted_function_name")
			name = "`" + name + "`"
		}
		return cat(one(name), g.paren(g.list(g.n("fnargs", f.min, f.max), g.atomArg(d-1, c)))), 0
	case 30:
		g.feat("keyword_function")
		switch g.n("kwfn", 0, 5) {
		case 0:
			return cat(g.kw("SUBSTRING"), g.paren(cat(sub(), g.kw("FROM"), sub()))), 0
		case 1:
			return cat(g.kw("SUBSTRING"), g.paren(cat(sub(), g.kw("FROM"), sub(), g.kw("FOR"), sub()))), 0
		case 2:
			return cat(g.kw("SUBSTRING"), g.paren(g.list(2, g.atomArg(d-1, c)))), 0
		case 3:
			return cat(g.kw("IF"), g.paren(g.list(3, g.atomArg(d-1, c)))), 0
		case 4:
			return cat(g.kw("REPLACE"), g.paren(g.list(3, g.atomArg(d-1, c)))), 0
		}
		g.feat("json_object")
		return cat(g.kw("JSON_OBJECT"), g.paren(g.list(g.n("jon", 0, 2), func() []string {
			if g.chance("joalias", 60) {
				return cat(sub(), g.kw("AS"), one(g.alias()))
			}
			return g.leaf(ectx{cols: c.cols})
		}))), 0
	case 31:
		g.feat("scalar_subquery")
		return g.subquery(d-1, 1, false), 0
	case 32:
		g.feat("var_substitution")
		return g.paren(cat(one(g.pick("svar", []string{"@v1", "@v2", "@v3"})), one(":="), sub())), 0
	case 33, 34, 35:
		if c.agg {
			return g.aggregate(d, noAgg), 0
		}
		return cat(low(), one(g.pick("aop2", []string{"+", "-", "*"})), low()), lv(1)
	case 36, 37, 38:
		if c.analytic {
			return g.analytic(d, noAgg), 0
		}
		return cat(low(), one(g.pick("cop6", cmpOps)), low()), 2
	}
	return g.leaf(c), 0
}

// atomArg: generator of list elements (any expression; commas delimit them).
func (g *qg) atomArg(d int, c ectx) func() []string {
	return func() []string { return g.expr(d, c) }
}

var aggNames = []string{"COUNT", "SUM", "AVG", "MIN", "MAX", "MEDIAN", "STDEV", "STDEVP", "VAR", "VARP", "uagg"}

func (g *qg) orderItems(d int, c ectx) []string {
	return g.list(g.n("obn", 1, 2), func() []string {
		out := g.expr(min(d, 1), c)
		switch g.n("obdir", 0, 3) {
		case 0:
			out = cat(out, g.kw("ASC"))
		case 1:
			out = cat(out, g.kw("DESC"))
		}
		if g.chance("obnulls", 25) {
			g.feat("nulls_position")
			out = cat(out, g.kw("NULLS"), g.kw(g.pick("obnp", []string{"FIRST", "LAST"})))
		}
		return out
	})
}

func (g *qg) aggregate(d int, inner ectx) []string {
	g.feat("aggregate")
	arg := func() []string { return g.expr(min(d-1, 1), inner) }
	distinct := []string(nil)
	if g.chance("aggdist", 25) {
		g.feat("aggregate_distinct")
		distinct = g.kw("DISTINCT")
	}
	switch g.n("aggk", 0, 9) {
	case 0:
		return cat(g.kw("COUNT"), g.paren(cat(distinct, one("*"))))
	case 1:
		g.feat("list_function")
		out := cat(g.kw(g.pick("lf", []string{"LISTAGG", "JSON_AGG"})), g.paren(cat(distinct, arg())))
		return out
	case 2:
		g.feat("list_function")
		out := cat(g.kw("LISTAGG"), g.paren(cat(distinct, arg(), one(","), one(g.strLit()))))
		if g.chance("within", 60) {
			g.feat("within_group")
			out = cat(out, g.kw("WITHIN GROUP"), g.paren(cat(g.kw("ORDER BY"), g.orderItems(1, inner))))
		}
		return out
	}
	name := g.pick("aggname", aggNames)
	if g.chance("agglower", 30) {
		name = strings.ToLower(name)
	}
	return cat(one(name), g.paren(cat(distinct, arg())))
}

func (g *qg) analyticClause(inner ectx, windowing bool) []string {
	var out []string
	if g.chance("partition", 50) {
		g.feat("partition_by")
		out = cat(out, g.kw("PARTITION BY"), g.list(g.n("pbn", 1, 2), func() []string { return g.expr(0, inner) }))
	}
	ordered := g.chance("aorder", 60)
	if ordered {
		out = cat(out, g.kw("ORDER BY"), g.orderItems(0, inner))
	}
	if windowing && ordered && g.chance("frame", 50) {
		g.feat("window_frame")
		low := []string{"UNBOUNDED PRECEDING", "1 PRECEDING", "CURRENT ROW", "2 PRECEDING", "1 FOLLOWING"}
		high := []string{"UNBOUNDED FOLLOWING", "1 FOLLOWING", "CURRENT ROW", "1 PRECEDING", "3 FOLLOWING"}
		if g.chance("framebetween", 65) {
			out = cat(out, g.kw("ROWS BETWEEN"), g.kw(g.pick("flow", low)), g.kw("AND"), g.kw(g.pick("fhigh", high)))
		} else {
			out = cat(out, g.kw("ROWS"), g.kw(g.pick("fsingle", []string{"UNBOUNDED PRECEDING", "1 PRECEDING", "CURRENT ROW"})))
		}
	}
	return g.paren(out)
}

func (g *qg) analytic(d int, inner ectx) []string {
	g.feat("analytic")
	arg := func() []string { return g.expr(min(d-1, 1), inner) }
	ignore := func() []string {
		if !avoidKnownIgnoreNulls && g.chance("ignorenulls", 40) {
			g.feat("ignore_nulls")
			return g.kw("IGNORE NULLS")
		}
		return nil
	}
	switch g.n("ank", 0, 7) {
	case 0:
		return cat(g.kw(g.pick("rankfn", []string{"ROW_NUMBER", "RANK", "DENSE_RANK", "CUME_DIST", "PERCENT_RANK"})), one("("), one(")"), g.kw("OVER"), g.analyticClause(inner, false))
	case 1:
		return cat(g.kw("NTILE"), g.paren(one(g.pick("ntile", []string{"1", "2", "3"}))), g.kw("OVER"), g.analyticClause(inner, false))
	case 2:
		return cat(g.kw(g.pick("nth", []string{"FIRST_VALUE", "LAST_VALUE"})), g.paren(arg()), ignore(), g.kw("OVER"), g.analyticClause(inner, true))
	case 3:
		return cat(g.kw("NTH_VALUE"), g.paren(cat(arg(), one(","), one(g.pick("nthn", []string{"1", "2"})))), ignore(), g.kw("OVER"), g.analyticClause(inner, true))
	case 4:
		args := arg()
		if g.chance("lagn", 50) {
			args = cat(args, one(","), one(g.pick("lagoff", []string{"1", "2"})))
			if g.chance("lagd", 50) {
				args = cat(args, one(","), g.leaf(ectx{}))
			}
		}
		return cat(g.kw(g.pick("lag", []string{"LAG", "LEAD"})), g.paren(args), ignore(), g.kw("OVER"), g.analyticClause(inner, false))
	case 5:
		g.feat("list_function")
		return cat(g.kw("LISTAGG"), g.paren(cat(arg(), one(","), one(g.strLit()))), g.kw("OVER"), g.analyticClause(inner, false))
	case 6:
		distinct := []string(nil)
		if g.chance("andist", 20) {
			distinct = g.kw("DISTINCT")
		}
		return cat(g.kw("COUNT"), g.paren(cat(distinct, one("*"))), g.kw("OVER"), g.analyticClause(inner, true))
	}
	distinct := []string(nil)
	if g.chance("andist2", 20) {
		distinct = g.kw("DISTINCT")
	}
	return cat(one(g.pick("anagg", aggNames)), g.paren(cat(distinct, arg())), g.kw("OVER"), g.analyticClause(inner, true))
}

var aliasNames = []string{"k1", "k2", "x", "n", "my col", "a\"b", "it's", "x`y", "日本", "select", "from", "a\\b", "tab\there", "nl\nx", "Ü", "1st", "a.b", "c1", "rows", "ties", "NULLS", "csv", "Json", "jsonl", "fixed", "LTSV"}

func (g *qg) alias() string {
	g.nAlias++
	return g.ident(g.pick("alias", aliasNames))
}

// subquery renders "( query )". oneRow: the context accepts any number of rows.
func (g *qg) subquery(d int, ncols int, manyRows bool) []string {
	g.feat("subquery")
	q, _ := g.query(d, ncols, false, !manyRows)
	return g.paren(q)
}

// tableRef renders one table of a FROM clause and returns the columns it offers.
func (g *qg) tableRef(d int) ([]string, []col) {
	k := g.n("tbl", 0, 13)
	withAlias := func(obj []string, refName string, names []string, force bool) ([]string, []col) {
		dup := g.used != nil && g.used[strings.ToUpper(refName)] && g.n("allowdup", 0, 19) != 0
		if force || dup || g.chance("talias", 40) {
			g.feat("table_alias")
			a := g.pick("taliasname", []string{"a", "b", "x", "t", "u", "my alias", "T1", "rows", "csv", "json"})
			for i := 0; g.used != nil && g.used[strings.ToUpper(a)] && i < 5; i++ {
				a = a + "2"
			}
			refName = a
			if g.chance("tas", 50) {
				obj = cat(obj, g.kw("AS"))
			}
			obj = cat(obj, one(g.ident(a)))
		}
		if g.used != nil {
			g.used[strings.ToUpper(refName)] = true
		}
		cols := make([]col, len(names))
		for i, n := range names {
			cols[i] = col{refName, n}
		}
		return obj, cols
	}
	switch {
	case k <= 6 || d <= 0:
		all := append(append([]fixTable(nil), fixTables...), g.ctes...)
		ft := all[g.n("fixtbl", 0, len(all)-1)]
		return withAlias(one(g.ident(g.pick("tspell", ft.spells))), ft.name, ft.cols, false)
	case k == 7:
		g.feat("subquery_table")
		q, names := g.query(d-1, g.n("sqcols", 1, 3), true, false)
		return withAlias(g.paren(q), "", names, true)
	case k == 8 || (k == 12 && g.n("tobj12", 0, 1) == 0):
		g.feat("table_object")
		if g.n("tobjnew", 0, 3) != 0 {
			obj, ref, names, force := g.tableObject()
			return withAlias(obj, ref, names, force)
		}
		switch g.n("tobj", 0, 5) {
		case 0:
			return withAlias(cat(g.kw("CSV"), g.paren(cat(one("','"), one(","), one(g.ident("t1.csv"))))), "t1", []string{"c1", "c2", "c3"}, false)
		case 1:
			return withAlias(cat(g.kw("CSV"), g.paren(cat(one("','"), one(","), one(g.ident("t2")), one(","), one("'UTF8'"), one(","), g.kw("FALSE")))), "t2", []string{"c1", "c4"}, false)
		case 2:
			return withAlias(cat(g.kw("JSON_INLINE"), g.paren(cat(one("''"), one(","), one(`'[{"k1":1,"k2":"x"},{"k1":2,"k2":null}]'`)))), "", []string{"k1", "k2"}, true)
		case 3:
			return withAlias(cat(g.kw("CSV_INLINE"), g.paren(cat(one("','"), one(","), one(`'k1,k2\n1,"a b"\n2,'`)))), "", []string{"k1", "k2"}, true)
		case 4:
			return withAlias(cat(g.kw("JSON"), g.paren(cat(one("''"), one(","), one("DATA::("), one(`'[{"k1":1,"k2":"x"}]'`), one(")")))), "", []string{"k1", "k2"}, true)
		}
		return withAlias(cat(g.kw("CSV"), g.paren(cat(one("','"), one(","), one("data::("), one(`'k1,k2\n5,6\n'`), one(")")))), "", []string{"k1", "k2"}, true)
	case k == 9 && g.n("potblgate", 0, 2) != 0:
		return g.join(d)
	case k == 9:
		g.feat("parse_only_table")
		k := g.n("potbl", 0, 3)
		if avoidKnownUrlBeforePunctuation && (k == 1 || k == 3) {
			k = 2
		}
		switch k {
		case 0:
			if g.used != nil {
				g.used["STDIN"] = true
			}
			return cat(g.kw("STDIN")), []col{{"STDIN", "c1"}}
		case 1:
			return one("file:./t1.csv"), []col{{"", "c1"}}
		case 2:
			return cat(one("FILE::("), one("'t1.csv'"), one(")")), []col{{"", "c1"}}
		}
		return one("https://example.com/data.csv?x=1&y=2"), nil
	case k == 10:
		g.feat("dual")
		return g.kw("DUAL"), nil
	case k == 11:
		g.feat("parenthesized_table")
		t, cols := g.tableRef(d - 1)
		return g.paren(t), cols
	}
	return g.join(d)
}

func (g *qg) joinRight(d int) ([]string, []col, bool) {
	if d > 0 && g.chance("lateral", 15) {
		g.feat("lateral")
		q, names := g.query(d-1, g.n("latcols", 1, 2), true, false)
		a := g.pick("latalias", []string{"l", "lt", "lat x"})
		out := cat(g.kw("LATERAL"), g.paren(q))
		if g.chance("latas", 50) {
			out = cat(out, g.kw("AS"))
		}
		out = cat(out, one(g.ident(a)))
		cols := make([]col, len(names))
		for i, n := range names {
			cols[i] = col{a, n}
		}
		return out, cols, true
	}
	t, cols := g.tableRef(min(d-1, 1))
	return t, cols, false
}

func (g *qg) join(d int) ([]string, []col) {
	g.feat("join")
	left, lc := g.tableRef(min(d-1, 1))
	right, rc, lateral := g.joinRight(d)
	all := append(append([]col(nil), lc...), rc...)
	// after NATURAL / USING the common columns can only be referenced without a qualifier
	merged := func(names map[string]bool) []col {
		var out []col
		seen := map[string]bool{}
		for _, c := range all {
			if names[c.name] {
				if !seen[c.name] {
					seen[c.name] = true
					out = append(out, col{"", c.name})
				}
				continue
			}
			out = append(out, c)
		}
		return out
	}
	commonNames := map[string]bool{}
	for _, a := range lc {
		for _, b := range rc {
			if a.name == b.name {
				commonNames[a.name] = true
			}
		}
	}
	usingCol, usingCol2 := "", ""
	cond := func() []string {
		var common []string
		for _, a := range lc {
			for _, b := range rc {
				if a.name == b.name && simpleIdent.MatchString(a.name) {
					common = append(common, a.name)
				}
			}
		}
		if len(common) > 1 && common[0] != common[1] && g.chance("using2", 30) {
			g.feat("join_using")
			g.feat("join_using_two_columns")
			usingCol, usingCol2 = common[0], common[1]
			return cat(g.kw("USING"), g.paren(cat(one(g.ident(common[0])), one(","), one(g.ident(common[1])))))
		}
		if len(common) > 0 && g.chance("using", 40) {
			g.feat("join_using")
			usingCol = common[0]
			return cat(g.kw("USING"), g.paren(one(g.ident(common[0]))))
		}
		return cat(g.kw("ON"), g.expr(1, ectx{cols: all}))
	}
	switch g.n("joink", 0, 8) {
	case 0:
		g.feat("cross_join")
		return cat(left, g.kw("CROSS JOIN"), right), all
	case 1, 2:
		out := cat(left, g.kw(g.pick("inner", []string{"JOIN", "INNER JOIN"})), right, cond())
		if usingCol != "" {
			return out, merged(map[string]bool{usingCol: true, usingCol2: true})
		}
		return out, all
	case 3, 4:
		g.feat("outer_join")
		dirs := []string{"LEFT", "RIGHT", "FULL", "LEFT OUTER", "RIGHT OUTER", "FULL OUTER"}
		if lateral {
			dirs = []string{"LEFT", "LEFT OUTER"}
		}
		out := cat(left, g.kw(g.pick("outer", dirs)+" JOIN"), right, cond())
		if usingCol != "" {
			return out, merged(map[string]bool{usingCol: true, usingCol2: true})
		}
		return out, all
	case 5:
		g.feat("natural_join")
		return cat(left, g.kw(g.pick("natural", []string{"NATURAL JOIN", "NATURAL INNER JOIN"})), right), merged(commonNames)
	case 6:
		g.feat("natural_join")
		dirs := []string{"NATURAL LEFT JOIN", "NATURAL RIGHT OUTER JOIN", "NATURAL FULL JOIN", "NATURAL LEFT OUTER JOIN"}
		if lateral {
			dirs = []string{"NATURAL LEFT JOIN", "NATURAL LEFT OUTER JOIN"}
		}
		return cat(left, g.kw(g.pick("naturalouter", dirs)), right), merged(commonNames)
	}
	out := cat(left, g.kw("JOIN"), right, cond())
	if usingCol != "" {
		return out, merged(map[string]bool{usingCol: true, usingCol2: true})
	}
	return out, all
}

// subTable renders "[LATERAL] (query) [AS] alias".
func (g *qg) subTable(d int, lateralPct int) ([]string, []col) {
	var out []string
	if g.chance("sublateral", lateralPct) {
		g.feat("lateral")
		out = g.kw("LATERAL")
	} else {
		g.feat("subquery_table")
	}
	q, names := g.query(d-1, g.n("stcols", 1, 2), true, false)
	a := g.pick("stalias", []string{"l1", "l2", "s 1", "S"})
	out = cat(out, g.paren(q))
	if g.chance("stas", 50) {
		out = cat(out, g.kw("AS"))
	}
	out = cat(out, one(g.ident(a)))
	cols := make([]col, len(names))
	for i, nm := range names {
		cols[i] = col{a, nm}
	}
	return out, cols
}

// from follows csvq's grammar: FROM table [, {[LATERAL] subquery-table ,}... {table | LATERAL subquery-table}]
// (a plain table can only be the first or the last element of the list).
func (g *qg) from(d int) ([]string, []col) {
	saved := g.used
	g.used = map[string]bool{}
	defer func() { g.used = saved }()
	out := g.kw("FROM")
	t, cols := g.tableRef(d)
	out = cat(out, t)
	if !g.chance("fromcomma", 25) {
		return out, cols
	}
	g.feat("comma_tables")
	if d > 0 {
		for i, n := 0, g.n("fromsubs", 0, 3); i < n-1; i++ {
			st, sc := g.subTable(d, 40)
			out = cat(out, one(","), st)
			cols = append(cols, sc...)
		}
	}
	if d > 0 && g.chance("lastlateral", 30) {
		st, sc := g.subTable(d, 100)
		out = cat(out, one(","), st)
		cols = append(cols, sc...)
	} else {
		t2, c2 := g.tableRef(min(d, 1))
		out = cat(out, one(","), t2)
		cols = append(cols, c2...)
	}
	return out, cols
}

// entity renders SELECT ... [FROM ...] [WHERE] [GROUP BY] [HAVING]; ncols>0 fixes the number of fields; named: every field gets an alias.
func (g *qg) entity(d int, ncols int, named bool, oneRow bool) ([]string, []string, ectx) {
	into := g.intoNow
	g.intoNow = false
	var fromToks []string
	var cols []col
	hasFrom := g.chance("hasfrom", 75)
	if hasFrom {
		fromToks, cols = g.from(d)
	}
	mode := "plain"
	if hasFrom {
		mode = g.pick("emode", []string{"plain", "plain", "plain", "grouped", "allagg", "analytic"})
	}
	if oneRow && hasFrom && mode != "allagg" && g.chance("onerowagg", 50) {
		mode = "allagg"
	}
	g.feat("entity:" + mode)
	fieldCtx := ectx{cols: cols}
	distinctPlain := false
	var groupCols []col
	switch mode {
	case "grouped":
		if len(cols) == 0 {
			mode = "plain"
			break
		}
		groupCols = []col{cols[g.n("gcol", 0, len(cols)-1)]}
		fieldCtx = ectx{cols: groupCols, agg: true}
	case "allagg":
		fieldCtx = ectx{cols: cols, agg: true}
	case "analytic":
		fieldCtx = ectx{cols: cols, analytic: true}
	}
	out := g.kw("SELECT")
	if g.chance("distinct", 12) {
		g.feat("distinct")
		out = cat(out, g.kw("DISTINCT"))
		distinctPlain = mode == "plain" || mode == "analytic"
	}
	n := ncols
	if n == 0 {
		n = g.n("nfields", 1, 3)
	}
	var names []string
	for i := 0; i < n; i++ {
		if i > 0 {
			out = append(out, ",")
		}
		if ncols == 0 && mode == "plain" && hasFrom && g.chance("wildcard", 12) {
			g.feat("wildcard")
			if len(cols) > 0 && cols[0].tbl != "" && g.chance("qualwild", 40) {
				out = append(out, g.ident(cols[0].tbl)+".*")
			} else {
				out = append(out, "*")
			}
			names = append(names, "*")
			continue
		}
		var f []string
		switch mode {
		case "allagg":
			f = g.aggregate(d, ectx{cols: cols})
			if g.chance("aggwrap", 30) {
				f = cat(f, one(g.pick("aggwrapop", []string{"+", "*", "||"})), g.leaf(ectx{}))
			}
		case "grouped":
			if i == 0 || g.chance("gfieldcol", 30) {
				f = g.colRef(groupCols[0])
			} else {
				f = g.aggregate(d, ectx{cols: cols})
			}
		case "analytic":
			if g.chance("anfield", 60) {
				f = g.analytic(d, ectx{cols: cols})
			} else {
				f = g.expr(d-1, fieldCtx)
			}
		default:
			f = g.expr(d, fieldCtx)
		}
		out = append(out, f...)
		if named {
			nm := "k" + string(rune('1'+i))
			if g.chance("funnyname", 15) {
				nm = g.pick("funny", []string{"my col", "a\"b", "it's", "x`y", "日本"}) + string(rune('1'+i))
			}
			out = cat(out, g.kw("AS"), one(g.ident(nm)))
			names = append(names, nm)
		} else if g.chance("fieldalias", 30) {
			g.feat("field_alias")
			out = cat(out, g.kw("AS"), one(g.alias()))
			names = append(names, "?")
		} else {
			names = append(names, "?")
		}
	}
	if into {
		// select_into_query: SELECT fields INTO variables [FROM ...]; mostly as many variables as fields
		g.feat("into_clause")
		nv := n
		if g.n("intomismatch", 0, 9) == 0 {
			nv = g.n("intonv", 1, 3)
		}
		out = cat(out, g.kw("INTO"), g.list(nv, func() []string { return one(g.pick("intovar", []string{"@v1", "@v2", "@v3", "@V1"})) }))
	}
	out = cat(out, fromToks)
	if hasFrom && g.chance("where", 40) {
		g.feat("where")
		out = cat(out, g.kw("WHERE"), g.expr(min(d, 2), ectx{cols: cols}))
	}
	if mode == "grouped" {
		g.feat("group_by")
		out = cat(out, g.kw("GROUP BY"), g.colRef(groupCols[0]))
		if g.chance("groupby2", 25) {
			// grammar: GROUP BY values - a further key (any expression over the table's columns; not used in the fields)
			g.feat("group_by_second_key")
			out = cat(out, one(","), g.expr(1, ectx{cols: cols}))
		}
		if g.chance("having", 40) {
			g.feat("having")
			out = cat(out, g.kw("HAVING"), g.aggregate(1, ectx{cols: cols}), one(g.pick("hop", cmpOps)), g.leaf(ectx{}))
		}
	}
	return out, names, ectx{cols: fieldCtx.cols, agg: fieldCtx.agg || distinctPlain} // agg: the caller orders by position only
}

// query renders a full select query. named: fields carry known aliases (returned). oneRow: prefer a single-row result.
func (g *qg) query(d int, ncols int, named bool, oneRow bool) ([]string, []string) {
	into := g.intoPending
	g.intoPending = false
	var out []string
	savedCtes := g.ctes
	defer func() { g.ctes = savedCtes }()
	if d > 0 && g.chance("with", 12) {
		g.feat("with")
		out = g.kw("WITH")
		cteBase := g.n("ctebase", 0, 3)
		for i, n := 0, g.n("nctes", 1, 2); i < n; i++ {
			if i > 0 {
				out = append(out, ",")
			}
			name := []string{"cte1", "cte2", "my cte", "r"}[(cteBase+i)%4]
			if g.chance("recursive", 30) {
				g.feat("recursive")
				out = cat(out, g.kw("RECURSIVE"), one(g.ident(name)), g.paren(one("n")), g.kw("AS"),
					g.paren(cat(g.kw("SELECT"), one("1"), g.kw("UNION ALL SELECT"), one("n"), one("+"), one("1"), g.kw("FROM"), one(g.ident(name)), g.kw("WHERE"), one("n"), one("<"), one("3"))))
				g.ctes = append(append([]fixTable(nil), g.ctes...), fixTable{name, []string{name}, []string{"n"}})
				continue
			}
			q, names := g.query(d-1, g.n("ctecols", 1, 2), true, false)
			out = append(out, g.ident(name))
			if g.chance("ctefields", 40) {
				g.feat("cte_field_list")
				fields := make([]string, len(names))
				var ftoks []string
				for j := range names {
					fields[j] = "f" + string(rune('1'+j))
					if j > 0 {
						ftoks = append(ftoks, ",")
					}
					ftoks = append(ftoks, fields[j])
				}
				out = cat(out, g.paren(ftoks))
				names = fields
			}
			out = cat(out, g.kw("AS"), g.paren(q))
			if len(names) > 0 {
				g.ctes = append(append([]fixTable(nil), g.ctes...), fixTable{name, []string{name}, names})
			}
		}
	}
	n := ncols
	if n == 0 && d > 0 && g.chance("setop", 18) {
		n = g.n("setcols", 1, 2)
	}
	var names []string
	var octx ectx
	if n > 0 && d > 0 && g.chance("setop2", 25) {
		g.feat("set_operator")
		operand := func() []string {
			if g.chance("setsub", 25) {
				g.feat("set_operand_subquery")
				q, nm := g.query(d-1, n, named, false)
				if names == nil {
					names = nm
				}
				return g.paren(q)
			}
			e, nm, _ := g.entity(d-1, n, named, false)
			if names == nil {
				names = nm
			}
			return e
		}
		out = cat(out, operand())
		for i, k := 0, g.n("nsetops", 1, 2); i < k; i++ {
			op := g.pick("setopk", []string{"UNION", "UNION ALL", "INTERSECT", "EXCEPT", "INTERSECT ALL", "EXCEPT ALL"})
			out = cat(out, g.kw(op), operand())
		}
		oneRow = false
	} else {
		var e []string
		g.intoNow = into
		e, names, octx = g.entity(d, n, named, oneRow || into)
		out = cat(out, e)
	}
	if g.chance("orderby", 30) {
		g.feat("order_by")
		oc := ectx{cols: octx.cols}
		if octx.agg || len(oc.cols) == 0 {
			out = cat(out, g.kw("ORDER BY"), one("1"))
		} else {
			out = cat(out, g.kw("ORDER BY"), g.orderItems(1, oc))
		}
	}
	lim := g.n("limit", 0, 19)
	if oneRow && lim > 4 {
		lim = 0
	}
	num := func() []string {
		if g.chance("limexpr", 15) {
			return g.paren(cat(one("1"), one("+"), one("1")))
		}
		return one(g.pick("limn", []string{"0", "1", "2", "3", "10", "50", "1.5"}))
	}
	offset := func() []string {
		o := cat(g.kw("OFFSET"), num())
		switch g.n("offunit", 0, 3) {
		case 0:
			o = cat(o, g.kw("ROW"))
		case 1:
			o = cat(o, g.kw("ROWS"))
		}
		return o
	}
	switch lim {
	case 0, 1:
		g.feat("limit")
		if oneRow {
			out = cat(out, g.kw("LIMIT"), one("1"))
			break
		}
		out = cat(out, g.kw("LIMIT"), num())
		switch g.n("limunit", 0, 5) {
		case 0:
			g.feat("limit_percent")
			out = cat(out, g.kw("PERCENT"))
		case 1:
			out = cat(out, g.kw(g.pick("limrow", []string{"ROW", "ROWS"})))
		}
		switch g.n("limrestr", 0, 5) {
		case 0:
			g.feat("with_ties")
			out = cat(out, g.kw("WITH TIES"))
		case 1:
			out = cat(out, g.kw("ONLY"))
		}
		if g.chance("limoffset", 30) {
			g.feat("offset")
			out = cat(out, offset())
		}
	case 2:
		g.feat("offset")
		out = cat(out, offset())
	case 3, 4:
		g.feat("fetch")
		if g.chance("fetchoffset", 40) {
			out = cat(out, offset())
		}
		n := num()
		if oneRow {
			n = one("1")
		}
		out = cat(out, g.kw("FETCH"), g.kw(g.pick("fetchpos", []string{"FIRST", "NEXT"})), n, g.kw(g.pick("fetchunit", []string{"ROW", "ROWS", "ROWS", "PERCENT"})))
		switch g.n("fetchrestr", 0, 3) {
		case 0:
			out = cat(out, g.kw("WITH TIES"))
		case 1, 2:
			out = cat(out, g.kw("ONLY"))
		}
	}
	return out, names
}

var sepNoise = []string{"  ", "\n", "\t", "\r\n", " \n  ", " /* c */ ", "/**/", " -- c\n", " /* it's \"q\" `b` -- */ ", " --\n", "\n\n", " /*\n*/ "}

// joinToks assembles the text. style 0: single spaces; 1: also tight punctuation; 2: noisy white space and comments.
func (g *qg) joinToks(toks []string) string {
	style := g.n("style", 0, 3)
	var b strings.Builder
	for i, tk := range toks {
		if i > 0 {
			prev := toks[i-1]
			tight := style >= 1 && (tk == "," || tk == ")" || prev == "(" || (tk == "(" && simpleIdent.MatchString(prev)))
			switch {
			case tight && g.n("tight", 0, 9) < 8:
			case style == 2 && g.n("noisy", 0, 9) < 3:
				g.feat("noisy_separators")
				b.WriteString(g.pick("sep", sepNoise))
			default:
				b.WriteString(" ")
			}
		}
		b.WriteString(tk)
	}
	s := b.String()
	if style == 2 && !g.noTail {
		switch g.n("tail", 0, 5) {
		case 0:
			s += ";"
		case 1:
			s += " ;\n"
		case 2:
			s = "\n " + s + "\n"
		case 3:
			s += " -- end"
		}
	}
	return s
}

func genQueryToks(t *rapid.T, prep, ansi bool) ([]string, *qg) {
	g := &qg{t: t, prep: prep, ansi: ansi, feats: map[string]bool{}}
	d := g.n("depth", 1, 3)
	g.intoPending = g.chance("into", 3)
	toks, _ := g.query(d, 0, false, false)
	if g.chance("forupdate", 3) {
		g.feat("for_update")
		toks = cat(toks, g.kw("FOR UPDATE"))
	}
	return toks, g
}

func genQueryText(t *rapid.T, prep, ansi bool) (string, []string) {
	toks, g := genQueryToks(t, prep, ansi)
	sql := g.joinToks(toks)
	feats := make([]string, 0, len(g.feats))
	for f := range g.feats {
		feats = append(feats, f)
	}
	sort.Strings(feats)
	return sql, feats
}

// =====================================================================
// inputs for the totality check

var soupOnce sync.Once
var soupVocab []string

func vocab() []string {
	soupOnce.Do(func() {
		for i := parser.KeywordFrom; i <= parser.KeywordTo; i++ {
			soupVocab = append(soupVocab, parser.TokenLiteral(i))
		}
		extra := []string{
			// function-like names, identifiers
			"MIN", "SUM", "LISTAGG", "JSON_AGG", "ROW_NUMBER", "NTILE", "FIRST_VALUE", "NTH_VALUE", "LAG", "LEAD", "a", "t1", "c1", "tmp", "x1", "_", "日本", "Ünï", "٣x",
			// numbers
			"0", "1", "007", "1.5", "1e5", "1e400", "99999999999999999999", "1.", "1e", "1e+", "0x1F", "1.2.3", "12abc",
			// strings and quoted identifiers, terminated or not
			"'a'", "\"b\"", "''", "\"\"", "``", "'it''s'", "'a\\'b'", "\"a\\\"b\"", "'a\\\\'", "'abc", "\"abc", "`abc", "`x`", "`a``b`", "`a\\`b`", "'\\", "'\n'", "'", "\"", "`",
			// operators and punctuation
			"+", "-", "*", "/", "%", "=", "<", ">", "<=", ">=", "<>", "!=", "==", "||", ":=", "!", "!!", "=>", "|=", ":", "::", ".", ",", ";", "(", ")", "{", "}", "[", "]", "~", "^", "&", "|", "\\", "#", "$", "@", "@@", "@%", "@#", "- -", "--1",
			// comments
			"/*", "*/", "--", "/*/", "/**/", "/* c */", "-- c\n", "--\r", "/*\n",
			// placeholders and variables
			"?", ":name", ":1", ":p1", "?{1}", "@x", "@@flag", "@%env", "@%`quoted env`", "@%`", "@#info", "@x:=", "@ x",
			// external commands, constants, table functions, urls
			"$ls", "$echo 'a'", "${@x}", "$`", "$echo ${", "math::pi", "a::", "a::(", "data::(", "file:./x", "https://a.b/c?d=e", "a:b", "a:", "file:",
			// special characters
			"\x00", "\r", "\r\n", "\n", "\t", "\u2028", "\u0085", "\ufeff", "\u00a0", "é", "😀", "\xff", "\xc3", "\xe6\x97", "\x1b[0m", "\x7f", "\v", "\f",
		}
		soupVocab = append(soupVocab, extra...)
	})
	return soupVocab
}

// statement templates of every kind (syntax of the manual) for the damaged-input mode
var stmtTemplates = []string{
	"VAR @a := 1, @b", "DECLARE @a := 'x'", "@a := @a + 1", "DISPOSE @a", "SET @%ENVVAR = 'v'", "UNSET @%ENVVAR",
	"COMMIT", "ROLLBACK", "EXIT", "EXIT 1", "CONTINUE", "BREAK", "RETURN 1",
	"CREATE TABLE `n.csv` (c1, c2)", "CREATE TABLE IF NOT EXISTS n (c1) AS SELECT 1", "ALTER TABLE t1 ADD c9 DEFAULT 1 FIRST", "ALTER TABLE t1 ADD (c8, c9 DEFAULT 'x') AFTER c1",
	"ALTER TABLE t1 DROP (c1, c2)", "ALTER TABLE t1 RENAME c1 TO c9", "ALTER TABLE t1 SET DELIMITER TO ';'",
	"INSERT INTO t1 VALUES (1, 'a', 2), (2, 'b', 3)", "INSERT INTO t1 (c1, c2) SELECT c1, c4 FROM t2", "WITH c AS (SELECT 1) INSERT INTO t1 SELECT * FROM c",
	"UPDATE t1 SET c1 = 1, c2 = 'x' WHERE c3 IS NULL", "UPDATE a SET a.c1 = b.c1 FROM t1 a JOIN t2 b ON a.c1 = b.c1",
	"REPLACE INTO t1 (c1, c2) USING (c1) VALUES (1, 'a')", "REPLACE INTO t1 USING (c1) SELECT * FROM t2",
	"DELETE FROM t1 WHERE c1 = 1", "DELETE a FROM t1 a, t2 b WHERE a.c1 = b.c1",
	"DECLARE cur CURSOR FOR SELECT c1 FROM t1", "DECLARE cur CURSOR FOR stmt", "OPEN cur", "OPEN cur USING 1, 'a' AS n", "CLOSE cur", "DISPOSE CURSOR cur",
	"FETCH cur INTO @a, @b", "FETCH NEXT cur INTO @a", "FETCH ABSOLUTE 2 cur INTO @a", "FETCH RELATIVE -1 cur INTO @a", "FETCH LAST cur INTO @a",
	"DECLARE v VIEW (c1, c2)", "DECLARE v VIEW AS SELECT 1", "DECLARE v VIEW (a) AS SELECT 1", "DISPOSE VIEW v",
	"PREPARE stmt FROM 'SELECT :a'", "EXECUTE stmt USING 1 AS a, 'x'", "DISPOSE PREPARE stmt",
	"DECLARE f FUNCTION (@a, @b DEFAULT 1) AS BEGIN RETURN @a + @b; END", "DECLARE g AGGREGATE (l, @d DEFAULT 0) AS BEGIN RETURN 1; END", "DISPOSE FUNCTION f",
	"IF @a = 1 THEN SELECT 1; ELSEIF @a = 2 THEN SELECT 2; ELSE SELECT 3; END IF", "CASE @a WHEN 1 THEN SELECT 1; ELSE SELECT 2; END CASE", "CASE WHEN @a THEN SELECT 1; END CASE",
	"WHILE @a < 3 DO @a := @a + 1; IF @a = 2 THEN CONTINUE; END IF; BREAK; END WHILE", "WHILE @a IN cur DO PRINT @a; END WHILE", "WHILE VAR @a, @b IN cur DO PRINT @a; END WHILE",
	"ECHO 'a'", "PRINT @a", "PRINTF 'a %s', 1, 2", "PRINTF 'x' USING 1", "SOURCE `f.sql`", "EXECUTE 'SELECT %s' USING 1", "CHDIR '/tmp'", "PWD", "RELOAD CONFIG",
	"SET @@DELIMITER TO ','", "SET @@CPU = 1", "ADD 'x' TO @@DATETIME_FORMAT", "REMOVE 1 FROM @@DATETIME_FORMAT", "SHOW @@CPU", "SHOW TABLES", "SHOW FIELDS FROM t1", "SYNTAX", "SYNTAX select, 'x'",
	"TRIGGER ERROR", "TRIGGER ERROR 'msg'", "TRIGGER ERROR 3 'msg'", "$echo 'a;b' ${@a}", "SELECT 1 INTO @a", "SELECT c1, c2 INTO @a, @b FROM t1 LIMIT 1",
	"SELECT * FROM t1 FOR UPDATE", "SELECT @a := 1", "(SELECT 1) UNION (SELECT 2)",
}

var docsOnce sync.Once
var docsBlocks []string

// docBlocks returns the SQL code blocks of the manual (sorted by file, in order).
func docBlocks() []string {
	docsOnce.Do(func() {
		files, _ := filepath.Glob(filepath.Join(run.RepoDir(), "docs", "_posts", "*.md"))
		sort.Strings(files)
		for _, f := range files {
			b, err := os.ReadFile(f)
			if err != nil {
				continue
			}
			in := false
			var cur []string
			for _, line := range strings.Split(string(b), "\n") {
				tl := strings.TrimSpace(line)
				switch {
				case !in && strings.HasPrefix(tl, "```sql"):
					in, cur = true, nil
				case in && strings.HasPrefix(tl, "```"):
					in = false
					if blk := strings.TrimSpace(strings.Join(cur, "\n")); blk != "" && len(blk) < 4000 {
						docsBlocks = append(docsBlocks, blk)
					}
				case in:
					cur = append(cur, strings.TrimPrefix(line, "  "))
				}
			}
		}
	})
	return docsBlocks
}

func genTotalCase(t *rapid.T) totalCase {
	c := totalCase{Prepared: chance(t, "prepared", 40), Ansi: chance(t, "ansi", 40)}
	voc := vocab()
	soupTok := func() string { return voc[uniform(t, "soup", 0, len(voc)-1)] }
	seps := []string{" ", " ", " ", "", "\n", "\r\n", "\t", "  "}
	mode := uniform(t, "mode", 0, 99)
	switch {
	case mode < 10:
		c.Kind = "bytes"
		c.Src = rapid.SliceOfN(rapid.Byte(), 0, 120).Draw(t, "bytes")
	case mode < 35:
		c.Kind = "soup"
		var b strings.Builder
		if chance(t, "soupselect", 50) {
			b.WriteString("SELECT ")
		}
		for i, n := 0, uniform(t, "soupn", 0, 30); i < n; i++ {
			b.WriteString(soupTok())
			b.WriteString(pickOf(t, "sep", seps))
		}
		c.Src = []byte(b.String())
	case mode < 65:
		c.Kind = "damaged_query"
		toks, g := genQueryToks(t, c.Prepared, c.Ansi)
		toks = damage(t, toks, soupTok)
		c.Src = []byte(g.joinToks(toks))
		if chance(t, "truncate", 15) && len(c.Src) > 0 {
			c.Kind = "truncated_query"
			c.Src = c.Src[:uniform(t, "cut", 0, len(c.Src)-1)]
		}
	case mode < 90:
		c.Kind = "damaged_statements"
		var parts []string
		docs := docBlocks()
		for i, n := 0, uniform(t, "nstmts", 1, 4); i < n; i++ {
			if len(docs) > 0 && chance(t, "fromdocs", 35) {
				parts = append(parts, docs[uniform(t, "doc", 0, len(docs)-1)])
			} else {
				parts = append(parts, stmtTemplates[uniform(t, "tmpl", 0, len(stmtTemplates)-1)])
			}
		}
		src := strings.Join(parts, pickOf(t, "stmtsep", []string{"; ", ";\n", ";", " ;\n\n", "\n"}))
		if chance(t, "trailsemi", 70) {
			src += ";"
		}
		if chance(t, "damage", 60) {
			c.Kind = "damaged_statements/damaged"
			toks := damage(t, strings.Fields(src), soupTok)
			src = strings.Join(toks, " ")
		} else {
			c.Kind = "damaged_statements/intact"
		}
		c.Src = []byte(src)
	default:
		c.Kind = "stress"
		n := pickOf(t, "stressn", []int{20, 50, 200, 600, 1000, 2500, 5000})
		switch uniform(t, "stress", 0, 11) {
		case 0:
			c.Kind += "/parens"
			c.Prefix, c.Open, c.Mid, c.Close = "SELECT ", "(", "1", ")"
		case 1:
			c.Kind += "/subqueries"
			c.Prefix, c.Open, c.Mid, c.Close = "SELECT ", "(SELECT ", "1", ")"
		case 2:
			c.Kind += "/case"
			c.Prefix, c.Open, c.Mid, c.Close = "SELECT ", "CASE WHEN 1 THEN ", "1", " END"
		case 3:
			c.Kind += "/unclosed_parens"
			c.Prefix, c.Open, c.Mid = "SELECT ", "(", "1"
		case 4:
			c.Kind += "/unopened_parens"
			c.Prefix, c.Mid, c.Close = "SELECT ", "1", ")"
		case 5:
			c.Kind += "/comments"
			c.Prefix, c.Open, c.Mid = "SELECT ", pickOf(t, "cm", []string{"/* c */", "-- c\n", "/**/ ", "--\r\n"}), "1"
		case 6:
			c.Kind += "/long_string"
			c.Prefix, c.Open, c.Mid = "SELECT '", pickOf(t, "ls", []string{"a", "''", "\\'", "\\\\", "\n", "日本"}), pickOf(t, "lsend", []string{"'", "", "' AS x"})
			n *= 4
		case 7:
			c.Kind += "/long_identifier"
			c.Prefix, c.Open, c.Mid = "SELECT "+pickOf(t, "liq", []string{"", "`", "@", "@@", "@%", ":", "a::"}), pickOf(t, "li", []string{"a", "日", "_1"}), pickOf(t, "liend", []string{"", "`", " FROM t"})
			n *= 4
		case 8:
			c.Kind += "/long_number"
			c.Prefix, c.Open, c.Mid = "SELECT ", pickOf(t, "ln", []string{"9", "0", "1."}), pickOf(t, "lnend", []string{"", ".5", "e5", "e"})
		case 9:
			c.Kind += "/operators"
			c.Prefix, c.Open, c.Mid = "SELECT 1", pickOf(t, "lo", []string{" + 1", " - -1", " || 'a'", " AND 1", " = 1", "!", "=", "<", "- ", " NOT", "::"}), ""
		case 10:
			c.Kind += "/statements"
			c.Open = pickOf(t, "lst", []string{"SELECT 1;", ";", "COMMIT;", "IF 1 THEN ", "WHILE 1 DO ", "BEGIN ", "@a := 1;"})
		case 11:
			c.Kind += "/lists"
			c.Prefix, c.Open, c.Mid = "SELECT 1", pickOf(t, "ll", []string{", 1", ", (1, 2)", " UNION SELECT 1", ", a.b", " , 'x' AS y"}), pickOf(t, "llend", []string{"", " FROM t1", ","})
		}
		c.N = n
		if c.Open == "" && c.Close == "" {
			c.Open = " "
		}
	}
	return c
}

// damage applies a few token-level edits.
func damage(t *rapid.T, toks []string, soupTok func() string) []string {
	toks = append([]string(nil), toks...)
	for i, n := 0, uniform(t, "nedits", 0, 3); i < n; i++ {
		if len(toks) == 0 {
			toks = append(toks, soupTok())
			continue
		}
		p := uniform(t, "pos", 0, len(toks)-1)
		switch uniform(t, "edit", 0, 5) {
		case 0: // delete
			toks = append(toks[:p], toks[p+1:]...)
		case 1: // duplicate
			toks = append(toks[:p+1], toks[p:]...)
		case 2: // insert soup
			toks = append(toks[:p], append([]string{soupTok()}, toks[p:]...)...)
		case 3: // replace
			toks[p] = soupTok()
		case 4: // swap with neighbour
			if p+1 < len(toks) {
				toks[p], toks[p+1] = toks[p+1], toks[p]
			}
		case 5: // cut a token in two / drop its last byte
			if len(toks[p]) > 1 {
				toks[p] = toks[p][:len(toks[p])-1]
			}
		}
	}
	return toks
}
