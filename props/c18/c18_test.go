// Package c18 decides property C18: the parser is total (every input text
// gives a statement list or a positioned syntax error, never a panic or a
// hang) and the text csvq prints for a parsed query parses again to a tree that
// prints identically and evaluates identically.
//
// Files: c18_test.go (oracles, checks totality and roundtrip), gen_test.go and
// gen2_test.go (grammar based query generator), stmt_test.go (check statements),
// lit_test.go (check literals), derived_test.go (checks labels and show: the
// text taken from result headers, error messages and SHOW output),
// fuzz_test.go (native fuzz target FuzzParse).
package c18

import (
	"context"
	"fmt"
	"os"
	"path/filepath"
	"reflect"
	"regexp"
	"runtime"
	"strings"
	"sync"
	"testing"
	"time"

	"github.com/mithrandie/csvq/lib/option"
	"github.com/mithrandie/csvq/lib/parser"
	"github.com/mithrandie/csvq/lib/query"
	"pgregory.net/rapid"

	"verif/internal/fw"
	"verif/internal/run"
)

func TestMain(m *testing.M) { fw.Main(m) }

// ---------------------------------------------------------------------
// Genuine defects found by this check and reported. While a flag is true the
// grammar generator does not produce the shape, and the round-trip oracle that
// is embedded in the totality check and in FuzzParse (whose inputs cannot be
// steered away from a shape) counts the signature as a class instead of failing.
// Setting a flag to false makes the round-trip check produce and report the
// shape again.
const (
	avoidKnownDoubleUnaryMinus      = false // SELECT - -1       prints "--1" (a line comment)        roundtrip_reparse_fails:UnaryArithmetic
	avoidKnownBangBeforeOperator    = false // SELECT ! !a       prints "!!a"; ! :p prints "!:p"      roundtrip_string_differs:UnaryLogic / roundtrip_reparse_fails:UnaryLogic
	avoidKnownPositionalPlaceholder = true  // SELECT ?          prints "?{1}"                        roundtrip_reparse_fails:Placeholder
	avoidKnownIgnoreNulls           = true  // FIRST_VALUE(a) IGNORE NULLS OVER () prints the keywords inside the parentheses   roundtrip_reparse_fails:AnalyticFunction:ignore_nulls
	avoidKnownUrlBeforePunctuation  = true  // FROM file:./a.csv , t  prints "file:./a.csv, t": the URL token swallows ',' or ')'    roundtrip_reparse_fails:Url
	avoidKnownQuotedFunctionName    = true  // `my fn`(1)        prints MY FN(1)                      roundtrip_reparse_fails:Function:quoted_name (also AggregateFunction, ListFunction, AnalyticFunction)
)

// toleratedSigs lists the signatures of the shapes above (only consulted where
// the input is not under the generator's control).
func toleratedSig(sig string) bool {
	switch {
	case sig == "roundtrip_reparse_fails:UnaryArithmetic":
		return avoidKnownDoubleUnaryMinus
	case sig == "roundtrip_string_differs:UnaryLogic" || sig == "roundtrip_reparse_fails:UnaryLogic":
		return avoidKnownBangBeforeOperator
	case sig == "roundtrip_reparse_fails:Placeholder":
		return avoidKnownPositionalPlaceholder
	case sig == "roundtrip_reparse_fails:Url" || sig == "roundtrip_string_differs:Url":
		return avoidKnownUrlBeforePunctuation
	case sig == "roundtrip_reparse_fails:AnalyticFunction:ignore_nulls":
		return avoidKnownIgnoreNulls
	case strings.HasSuffix(sig, ":quoted_name") && strings.HasPrefix(sig, "roundtrip_"):
		return avoidKnownQuotedFunctionName
	}
	return false
}

// ---------------------------------------------------------------------
// guarded parse

type parseOut struct {
	stmts    []parser.Statement
	holders  int
	err      error
	panicked bool
	panicMsg string
}

func parseOnce(src string, prep, ansi bool) (out parseOut) {
	defer func() {
		if r := recover(); r != nil {
			buf := make([]byte, 3000)
			buf = buf[:runtime.Stack(buf, false)]
			out = parseOut{panicked: true, panicMsg: fmt.Sprintf("%v\n%s", r, buf)}
		}
	}()
	stmts, n, err := parser.Parse(src, "", prep, ansi)
	return parseOut{stmts: stmts, holders: n, err: err}
}

// parseTimeout is generous: 10 s for inputs up to 64 KiB, 10 s more per further 64 KiB.
func parseTimeout(n int) time.Duration {
	return time.Duration(10+10*(n/65536)) * time.Second
}

// parseGuarded runs the parser under a watchdog. hung is reported only when a
// second immediate attempt exceeds the limit as well.
func parseGuarded(src string, prep, ansi bool) (out parseOut, hung bool) {
	for attempt := 0; attempt < 2; attempt++ {
		ch := make(chan parseOut, 1)
		go func() { ch <- parseOnce(src, prep, ansi) }()
		timer := time.NewTimer(parseTimeout(len(src)))
		select {
		case out = <-ch:
			timer.Stop()
			return out, false
		case <-timer.C:
		}
	}
	return parseOut{}, true
}

// ---------------------------------------------------------------------
// "inside the input": the scanner counts lines from 1, a line ends at LF, CR or
// CRLF, the column is the 1-based position of a token's first character within
// its line and the end of input is reported at the last consumed character
// (column 0 on an empty line). Hence 1 <= Line <= breaks+1 and
// 0 <= Char <= len(line)+1. The line length is taken in bytes, the most
// permissive reading (a column counted in characters is never larger).

func lineLengths(src string) []int {
	var lens []int
	cur := 0
	for i := 0; i < len(src); i++ {
		switch src[i] {
		case '\r':
			if i+1 < len(src) && src[i+1] == '\n' {
				i++
			}
			lens = append(lens, cur)
			cur = 0
		case '\n':
			lens = append(lens, cur)
			cur = 0
		default:
			cur++
		}
	}
	return append(lens, cur)
}

func clipq(s string) string {
	if len(s) > 400 {
		return fmt.Sprintf("%q…(%d bytes)", s[:400], len(s))
	}
	return fmt.Sprintf("%q", s)
}

// checkTotal applies the totality oracle to one input.
func checkTotal(src string, prep, ansi bool) (parseOut, *fw.Violation) {
	out, hung := parseGuarded(src, prep, ansi)
	mode := fmt.Sprintf("prepared=%v ansi=%v", prep, ansi)
	if hung {
		return out, fw.V("parse_hang", "%s: parser did not return within %v (twice) on %s", mode, parseTimeout(len(src)), clipq(src))
	}
	if out.panicked {
		return out, fw.V("parse_panic", "%s: parser panicked on %s: %s", mode, clipq(src), out.panicMsg)
	}
	if out.err == nil {
		return out, nil
	}
	se, ok := out.err.(*parser.SyntaxError)
	if !ok {
		return out, fw.V("parse_error_type", "%s: %s gave an error of type %T (%v), not *parser.SyntaxError", mode, clipq(src), out.err, out.err)
	}
	lens := lineLengths(src)
	if se.Line < 1 || se.Line > len(lens) {
		return out, fw.V("syntax_error_line", "%s: %s: error %q at line %d, input has %d line(s)", mode, clipq(src), se.Message, se.Line, len(lens))
	}
	if se.Char < 0 || se.Char > lens[se.Line-1]+1 {
		return out, fw.V("syntax_error_char", "%s: %s: error %q at line %d char %d, that line has %d byte(s)", mode, clipq(src), se.Message, se.Line, se.Char, lens[se.Line-1])
	}
	return out, nil
}

// ---------------------------------------------------------------------
// token level observations (via csvq's own scanner, only on inputs that parsed)

func scanTokens(src string, prep, ansi bool) (toks []parser.Token) {
	defer func() { _ = recover() }()
	var sc parser.Scanner
	sc.Init(src, "", prep, ansi)
	for i := 0; i <= len(src)+1; i++ {
		tk, err := sc.Scan()
		if err != nil || tk.Token == parser.EOF {
			break
		}
		toks = append(toks, tk)
	}
	return toks
}

type tokInfo struct {
	depth     int  // deepest parenthesis nesting
	escaped   bool // a string or quoted identifier whose content needs an escape when printed
	n         int
	kindsHead string
}

func analyse(toks []parser.Token) tokInfo {
	var ti tokInfo
	d := 0
	var b strings.Builder
	for i, tk := range toks {
		switch tk.Token {
		case '(':
			d++
			if d > ti.depth {
				ti.depth = d
			}
		case ')':
			d--
		case parser.STRING:
			if option.EscapeString(tk.Literal) != tk.Literal {
				ti.escaped = true
			}
		case parser.IDENTIFIER, parser.ENVIRONMENT_VARIABLE:
			if tk.Quoted && option.EscapeIdentifier(tk.Literal) != tk.Literal {
				ti.escaped = true
			}
		}
		if i < 14 {
			fmt.Fprintf(&b, "%d,", tk.Token)
		}
	}
	ti.n = len(toks)
	ti.kindsHead = b.String()
	return ti
}

func bucket(n int) string {
	switch {
	case n < 3:
		return "0-2"
	case n < 6:
		return "3-5"
	case n < 12:
		return "6-11"
	case n < 100:
		return "12-99"
	}
	return "100+"
}

// fingerprintOf returns "" when the (parsed) input is trivial by the rule.
func fingerprintOf(ti tokInfo, prep, ansi bool) string {
	if !ti.escaped && ti.depth < 3 {
		return ""
	}
	return fmt.Sprintf("%s|e%v|d%s|%v%v", ti.kindsHead, ti.escaped, bucket(ti.depth), prep, ansi)
}

// ---------------------------------------------------------------------
// evaluation of a query text against fixed tables

var safeFunctions = map[string]bool{}

func init() {
	for _, f := range strings.Fields(`STRING INTEGER FLOAT DATETIME BOOLEAN TERNARY MD5 SHA1 SHA256 SHA512 MD5_HMAC SHA1_HMAC SHA256_HMAC SHA512_HMAC
 DATETIME_FORMAT YEAR MONTH DAY HOUR MINUTE SECOND MILLISECOND MICROSECOND NANOSECOND WEEKDAY UNIX_TIME UNIX_NANO_TIME DAY_OF_YEAR WEEK_OF_YEAR
 ADD_YEAR ADD_MONTH ADD_DAY ADD_HOUR ADD_MINUTE ADD_SECOND ADD_MILLI ADD_MICRO ADD_NANO TRUNC_MONTH TRUNC_DAY TRUNC_TIME TRUNC_HOUR TRUNC_MINUTE
 TRUNC_SECOND TRUNC_MILLI TRUNC_MICRO TRUNC_NANO DATE_DIFF TIME_DIFF TIME_NANO_DIFF UTC MILLI_TO_DATETIME NANO_TO_DATETIME COALESCE IFNULL NULLIF
 ABS ACOS ACOSH ASIN ASINH ATAN ATAN2 ATANH CBRT CEIL COS COSH EXP EXP2 EXPM1 FLOOR IS_INF IS_NAN LOG LOG10 LOG1P LOG2 LOGB POW ROUND SIN SINH SQRT
 TAN TANH BIN_TO_DEC OCT_TO_DEC HEX_TO_DEC ENOTATION_TO_DEC BIN OCT HEX ENOTATION NUMBER_FORMAT TRIM LTRIM RTRIM UPPER LOWER BASE64_ENCODE
 BASE64_DECODE HEX_ENCODE HEX_DECODE LEN BYTE_LEN WIDTH LPAD RPAD SUBSTR INSTR LIST_ELEM REGEXP_MATCH REGEXP_FIND REGEXP_FIND_SUBMATCHES
 REGEXP_FIND_ALL REGEXP_REPLACE TITLE_CASE FORMAT JSON_VALUE UDF UAGG CTE1 CTE2 R`) {
		safeFunctions[f] = true
	}
	safeFunctions["MY CTE"] = true // names of the generator's inline tables: "WITH cte1 (f1) AS ..." looks like a call
}

// evalSafe decides from the token sequence whether evaluating the text is
// confined and deterministic: no external commands, URLs, standard input or
// file-reading table functions, only deterministic functions without side
// effects, identifiers that cannot name a path outside the fixture directory.
func evalSafe(toks []parser.Token) bool {
	if len(toks) == 0 {
		return false
	}
	for i, tk := range toks {
		switch tk.Token {
		case parser.URL, parser.EXTERNAL_COMMAND, parser.Uncategorized:
			return false // (STDIN is confined: a session evaluating a text with the keyword gets the fixed standard input fixtureStdin)
		case parser.TABLE_FUNCTION:
			switch strings.ToUpper(tk.Literal) {
			case "DATA":
			case "FILE", "INLINE":
				// only FILE::('name') with a literal name that stays inside the fixture directory
				if !(i+3 < len(toks) && toks[i+1].Token == '(' && toks[i+2].Token == parser.STRING && toks[i+3].Token == ')') ||
					strings.ContainsAny(toks[i+2].Literal, "/\\") || strings.Contains(toks[i+2].Literal, "..") {
					return false
				}
			default:
				return false
			}
		case parser.RUNTIME_INFORMATION:
			if !strings.EqualFold(tk.Literal, "VERSION") {
				return false
			}
		case parser.IDENTIFIER:
			if strings.Contains(tk.Literal, "/") || strings.Contains(tk.Literal, "..") {
				return false
			}
			if i+1 < len(toks) && toks[i+1].Token == '(' && !safeFunctions[strings.ToUpper(tk.Literal)] {
				return false
			}
		}
	}
	return true
}

const fixtureSetup = "VAR @v1 := 3, @v2 := 'str', @v3;\n" +
	"SET @%C18_ENV = 'envval';\n" +
	"SET @%`C18 ENV` = 'quoted env';\n" +
	"DECLARE cur2 CURSOR FOR SELECT c1 FROM t1;\n" +
	"DECLARE udf FUNCTION (@a, @b DEFAULT 1) AS BEGIN RETURN @a + @b; END;\n" +
	"DECLARE uagg AGGREGATE (list, @d DEFAULT 0) AS BEGIN VAR @s := @d, @x; WHILE @x IN list DO IF @x IS NOT NULL THEN @s := @s + 1; END IF; END WHILE; RETURN @s; END;\n" +
	"DECLARE tmp VIEW (a, b);\n" +
	"INSERT INTO tmp VALUES (1, 'x'), (2, NULL), (NULL, 'z');\n" +
	"DECLARE cur CURSOR FOR SELECT a FROM tmp;\n" + // on the temporary table: no file access in the setup
	"OPEN cur;\n" +
	"FETCH cur INTO @v3;\n"

// fixtureStdin is the standard input of a session that evaluates a text mentioning STDIN (FROM STDIN, CSV(',', STDIN),
// STDIN.c1, STDIN.1). Texts without the keyword get no standard input: with one, csvq reads every query that has no FROM
// clause from it. One data row, so that such FROM-less parts (scalar subqueries, the variable probe) keep one row.
const fixtureStdin = "c1\n7\n"

// sessOpt returns the session options for evaluating text.
func sessOpt(ctx context.Context, text string, prep, ansi bool, capture bool) run.Opt {
	o := run.Opt{Dir: fixtureDir(), CPU: 1, Ctx: ctx, CaptureOut: capture}
	for _, tk := range scanTokens(text, prep, ansi) {
		if tk.Token == parser.STDIN {
			o.HasStdin, o.Stdin = true, fixtureStdin
			break
		}
	}
	return o
}

var fixtureFiles = map[string]string{
	"t1.csv":       "c1,c2,c3\n1,a,10\n2,b,\n3,,30\n2,b,40\n5,e,1.5\n",
	"t2.csv":       "c1,c4\n1,x\n2,y\n4,z\n,w\n",
	"my table.csv": "col 1,\"a\"\"b\",x'y,b`q,日本語\n1,dq,sq,bq,ja\n2,,s2,b2,\n",
}

var (
	fixOnce sync.Once
	fixDir  string
)

func fixtureDir() string {
	fixOnce.Do(func() {
		fixDir = filepath.Join(fw.WorkDir(), "c18fix")
		if err := os.MkdirAll(fixDir, 0755); err != nil {
			panic(err)
		}
		if err := run.WriteFiles(fixDir, fixtureFiles); err != nil {
			panic(err)
		}
		if err := run.WriteFiles(fixDir, formatFixtureFiles); err != nil {
			panic(err)
		}
	})
	return fixDir
}

func replaceValues() *query.ReplaceValues {
	name := func(s string) parser.Identifier { return parser.Identifier{Literal: s} }
	return query.NewReplaceValues([]parser.ReplaceValue{
		{Value: parser.NewIntegerValue(7)},
		{Value: parser.NewStringValue("pv"), Name: name("p1")},
		{Value: parser.NewFloatValue(2.5), Name: name("p2")},
		{Value: parser.NewNullValue(), Name: name("p3")},
		{Value: parser.NewIntegerValue(4)},
		{Value: parser.NewIntegerValue(5)},
		{Value: parser.NewIntegerValue(6)},
		{Value: parser.NewIntegerValue(8)},
	})
}

type evalRes struct {
	views   []run.Tbl
	vars    string // values of @v1, @v2, @v3 after the statement(s): the side effects of INTO and @v := ...
	errCls  string
	errMsg  string
	skipped string // non-empty: evaluation not usable (setup failure, time limit)
}

func (r evalRes) String() string {
	if r.skipped != "" {
		return "skipped: " + r.skipped
	}
	if r.errCls != "" {
		return "error " + r.errCls + " (" + r.errMsg + ") vars=" + r.vars
	}
	var b strings.Builder
	for _, v := range r.views {
		b.WriteString(clipq(v.String()))
	}
	return b.String() + " vars=" + r.vars
}

func sameEval(a, b evalRes) bool {
	if a.errCls != b.errCls || len(a.views) != len(b.views) || a.vars != b.vars {
		return false
	}
	if a.errCls != "" {
		return true
	}
	for i := range a.views {
		if !reflect.DeepEqual(a.views[i].Header, b.views[i].Header) || len(a.views[i].Rows) != len(b.views[i].Rows) {
			return false
		}
		for r := range a.views[i].Rows {
			if !reflect.DeepEqual(a.views[i].Rows[r], b.views[i].Rows[r]) {
				return false
			}
		}
	}
	return true
}

// evalText parses text afresh and executes the tree in a new session that has
// the fixture tables, variables, cursors and functions.
func evalText(text string, prep, ansi bool) (res evalRes) {
	ctx, cancel := context.WithTimeout(context.Background(), 20*time.Second)
	defer cancel()
	s, err := run.NewSess(sessOpt(ctx, text, prep, ansi, false))
	if err != nil {
		return evalRes{skipped: "session: " + err.Error()}
	}
	defer s.Close()
	defer func() {
		if r := recover(); r != nil {
			// a panic of the evaluator belongs to C19; here only "both trees behave alike" matters
			res = evalRes{errCls: "panic", errMsg: fmt.Sprint(r)}
		}
	}()
	if r := s.Exec(fixtureSetup); r.Err != nil {
		return evalRes{skipped: "fixture setup: " + r.Err.Error()}
	}
	s.Tx.Flags.AnsiQuotes = ansi
	stmts, _, perr := parser.Parse(text, "", prep, ansi)
	if perr != nil {
		return evalRes{skipped: "parse: " + perr.Error()}
	}
	if prep {
		s.Ctx = query.ContextForPreparedStatement(s.Ctx, replaceValues())
	}
	r := s.ExecStmts(stmts)
	if ctx.Err() != nil {
		return evalRes{skipped: "time limit"}
	}
	vars := probeVars(s)
	if ctx.Err() != nil {
		return evalRes{skipped: "time limit"}
	}
	if r.Err != nil {
		return evalRes{errCls: run.ErrClass(r.Err), errMsg: r.Err.Error(), vars: vars}
	}
	return evalRes{views: r.Views, vars: vars}
}

// probeVars reads the fixture variables after the evaluated text, so that what
// SELECT ... INTO and (@v := expr) leave behind is part of "evaluates identically".
func probeVars(s *run.Sess) string {
	pr := s.Exec("SELECT @v1, @v2, @v3 FROM DUAL") // (every Execute starts a new list of result views; DUAL: not the standard input)
	if pr.Err != nil || len(pr.Views) != 1 {
		return "probe failed: " + fmt.Sprint(pr.Err)
	}
	v := pr.Views[len(pr.Views)-1]
	if len(v.Rows) != 1 {
		return "probe failed: rows"
	}
	return fmt.Sprint(v.Rows[0])
}

// ---------------------------------------------------------------------
// blame: the innermost syntax-tree node whose own printed text does not
// survive print -> parse -> print. Used only to name the violation.

var valueNodes = map[string]bool{
	"PrimitiveType": true, "Placeholder": true, "Identifier": true, "FieldReference": true, "ColumnNumber": true, "Parentheses": true,
	"Subquery": true, "Function": true, "AggregateFunction": true, "ListFunction": true, "AnalyticFunction": true, "CaseExpr": true,
	"Comparison": true, "Is": true, "Between": true, "In": true, "Like": true, "Any": true, "All": true, "Exists": true, "Arithmetic": true,
	"UnaryArithmetic": true, "Logic": true, "UnaryLogic": true, "Concat": true, "Variable": true, "VariableSubstitution": true,
	"EnvironmentVariable": true, "RuntimeInformation": true, "Constant": true, "Flag": true, "CursorStatus": true, "CursorAttrebute": true,
}

var tableNodes = map[string]bool{
	"Table": true, "Join": true, "Dual": true, "Stdin": true, "Url": true, "TableFunction": true, "FormatSpecifiedFunction": true,
	"Parentheses": true, "Identifier": true,
}

func printNode(n interface{}) (s string, ok bool) {
	defer func() {
		if r := recover(); r != nil {
			ok = false
		}
	}()
	if st, is := n.(interface{ String() string }); is {
		return st.String(), true
	}
	return "", false
}

func survives(typ, s string, prep, ansi bool) bool {
	if typ == "SelectQuery" {
		o := parseOnce(s, prep, ansi)
		if o.panicked || o.err != nil || len(o.stmts) != 1 {
			return false
		}
		q, ok := o.stmts[0].(parser.SelectQuery)
		if !ok {
			return false
		}
		s2, ok := printNode(q)
		return ok && s2 == s
	}
	// a node is printed on its own, as a list element and inside parentheses: it has to survive in all three places
	if valueNodes[typ] {
		field := func(text string, nfields int) (parser.QueryExpression, bool) {
			o := parseOnce(text, prep, ansi)
			if o.panicked || o.err != nil || len(o.stmts) != 1 {
				return nil, false
			}
			q, ok := o.stmts[0].(parser.SelectQuery)
			if !ok || q.OrderByClause != nil || q.LimitClause != nil || q.WithClause != nil {
				return nil, false
			}
			se, ok := q.SelectEntity.(parser.SelectEntity)
			if !ok || se.FromClause != nil || se.WhereClause != nil || se.GroupByClause != nil || se.HavingClause != nil {
				return nil, false
			}
			sc, ok := se.SelectClause.(parser.SelectClause)
			if !ok || len(sc.Fields) != nfields {
				return nil, false
			}
			f, ok := sc.Fields[0].(parser.Field)
			if !ok || f.Alias != nil {
				return nil, false
			}
			return f.Object, true
		}
		same := func(e parser.QueryExpression) bool {
			s2, ok := printNode(e)
			return ok && s2 == s
		}
		if e, ok := field("SELECT "+s, 1); ok && same(e) {
			if e, ok := field("SELECT "+s+", 1", 2); ok && same(e) {
				if typ == "FieldReference" && strings.HasSuffix(s, "*") {
					return true // t.* is a field, not a value: it cannot stand in parentheses
				}
				if e, ok := field("SELECT ("+s+")", 1); ok {
					if p, ok := e.(parser.Parentheses); ok && same(p.Expr) {
						return true
					}
					if _, isSub := e.(parser.Subquery); isSub && typ == "SelectQuery" {
						return true
					}
				}
			}
		}
	}
	if tableNodes[typ] && strings.HasPrefix(s, "LATERAL ") {
		return true // cannot stand first in a FROM clause; its parts are tested on their own
	}
	if tableNodes[typ] {
		table := func(text string, ntables int) (parser.QueryExpression, bool) {
			o := parseOnce(text, prep, ansi)
			if o.panicked || o.err != nil || len(o.stmts) != 1 {
				return nil, false
			}
			q, ok := o.stmts[0].(parser.SelectQuery)
			if !ok {
				return nil, false
			}
			se, ok := q.SelectEntity.(parser.SelectEntity)
			if !ok || se.FromClause == nil {
				return nil, false
			}
			fc, ok := se.FromClause.(parser.FromClause)
			if !ok || len(fc.Tables) != ntables {
				return nil, false
			}
			return fc.Tables[0], true
		}
		same := func(e parser.QueryExpression) bool {
			s2, ok := printNode(e)
			return ok && s2 == s
		}
		if e, ok := table("SELECT 1 FROM "+s, 1); ok && same(e) {
			if e, ok := table("SELECT 1 FROM "+s+", c18x", 2); ok && same(e) {
				if e, ok := table("SELECT 1 FROM ("+s+")", 1); ok {
					if p, ok := e.(parser.Parentheses); ok && same(p.Expr) {
						return true
					}
					if t, ok := e.(parser.Table); ok {
						// "(subquery)" in a FROM clause is the subquery table itself, "(t)" a parenthesised table
						if p, ok := t.Object.(parser.Parentheses); ok && same(p.Expr) {
							return true
						}
						if _, isSub := t.Object.(parser.Subquery); isSub {
							return true
						}
					}
				}
			}
		}
	}
	return false
}

const parserPkg = "github.com/mithrandie/csvq/lib/parser"

// walk visits the parser nodes below x in post-order.
func walk(x interface{}, visit func(typ string, n interface{}) bool) bool {
	if x == nil {
		return false
	}
	rv := reflect.ValueOf(x)
	if rv.Kind() != reflect.Struct || rv.Type().PkgPath() != parserPkg {
		return false
	}
	name := rv.Type().Name()
	if name == "Token" || name == "BaseExpr" {
		return false
	}
	for i := 0; i < rv.NumField(); i++ {
		f := rv.Field(i)
		if !rv.Type().Field(i).IsExported() {
			continue
		}
		switch f.Kind() {
		case reflect.Interface:
			if !f.IsNil() {
				if walk(f.Elem().Interface(), visit) {
					return true
				}
			}
		case reflect.Struct:
			if walk(f.Interface(), visit) {
				return true
			}
		case reflect.Slice:
			for k := 0; k < f.Len(); k++ {
				e := f.Index(k)
				if e.Kind() == reflect.Interface {
					if e.IsNil() {
						continue
					}
					e = e.Elem()
				}
				if walk(e.Interface(), visit) {
					return true
				}
			}
		}
	}
	return visit(name, x)
}

func blame(q parser.SelectQuery, prep, ansi bool) string {
	culprit := "SelectQuery"
	budget := 400
	walk(q, func(typ string, n interface{}) bool {
		if !(valueNodes[typ] || tableNodes[typ] || typ == "SelectQuery") {
			return false
		}
		if budget--; budget < 0 {
			return true
		}
		s, ok := printNode(n)
		if !ok {
			culprit = typ
			return true
		}
		if typ == "Identifier" && s == "" {
			return false
		}
		if !survives(typ, s, prep, ansi) {
			culprit = typ + refine(n)
			return true
		}
		return false
	})
	return culprit
}

// refine separates root causes that share a node type.
func refine(n interface{}) string {
	rv := reflect.ValueOf(n)
	if f := rv.FieldByName("Name"); f.IsValid() && f.Kind() == reflect.String && rv.FieldByName("Args").IsValid() {
		if !plainName.MatchString(f.String()) {
			return ":quoted_name" // the function name was a quoted identifier; String() prints it bare and upper-cased
		}
	}
	if af, ok := n.(parser.AnalyticFunction); ok && !af.IgnoreType.IsEmpty() {
		return ":ignore_nulls"
	}
	return ""
}

var plainName = regexp.MustCompile(`^[\p{L}_][\p{L}\p{Nd}_]*$`)

// collectQueries returns the outermost SelectQuery nodes of a statement.
func collectQueries(st parser.Statement) []parser.SelectQuery {
	if q, ok := st.(parser.SelectQuery); ok {
		return []parser.SelectQuery{q}
	}
	var out []parser.SelectQuery
	var rec func(x interface{}, depth int)
	rec = func(x interface{}, depth int) {
		if x == nil || depth > 40 {
			return
		}
		rv := reflect.ValueOf(x)
		switch rv.Kind() {
		case reflect.Struct:
			if rv.Type().PkgPath() != parserPkg {
				return
			}
			if q, ok := x.(parser.SelectQuery); ok {
				if q.SelectEntity != nil { // zero value: e.g. the unused Query of DECLARE c CURSOR FOR stmt
					out = append(out, q)
				}
				return
			}
			if n := rv.Type().Name(); n == "Token" || n == "BaseExpr" {
				return
			}
			for i := 0; i < rv.NumField(); i++ {
				if rv.Type().Field(i).IsExported() {
					f := rv.Field(i)
					switch f.Kind() {
					case reflect.Interface:
						if !f.IsNil() {
							rec(f.Elem().Interface(), depth+1)
						}
					case reflect.Struct, reflect.Slice:
						rec(f.Interface(), depth+1)
					}
				}
			}
		case reflect.Slice:
			for k := 0; k < rv.Len() && k < 200; k++ {
				e := rv.Index(k)
				if e.Kind() == reflect.Interface {
					if e.IsNil() {
						continue
					}
					e = e.Elem()
				}
				if e.Kind() == reflect.Struct || e.Kind() == reflect.Slice {
					rec(e.Interface(), depth+1)
				}
			}
		}
	}
	rec(st, 0)
	return out
}

// ---------------------------------------------------------------------
// the round-trip oracle

type rtInfo struct {
	s1       string
	evalNote string
}

// roundTripPrint: q.String() parses to exactly one SELECT that prints identically.
func roundTripPrint(q parser.SelectQuery, prep, ansi bool) (string, *fw.Violation) {
	mode := fmt.Sprintf("prepared=%v ansi=%v", prep, ansi)
	s1, ok := printNode(q)
	if !ok {
		return "", fw.V("string_panic", "%s: String() of a parsed query panicked", mode)
	}
	o2, hung := parseGuarded(s1, prep, ansi)
	if hung {
		return s1, fw.V("parse_hang", "%s: parser did not return on printed query %s", mode, clipq(s1))
	}
	if o2.panicked {
		return s1, fw.V("parse_panic", "%s: parser panicked on printed query %s: %s", mode, clipq(s1), o2.panicMsg)
	}
	if o2.err != nil {
		return s1, fw.V("roundtrip_reparse_fails:"+blame(q, prep, ansi), "%s: printed query %s does not parse: %v", mode, clipq(s1), o2.err)
	}
	if len(o2.stmts) != 1 {
		return s1, fw.V("roundtrip_statement_count:"+blame(q, prep, ansi), "%s: printed query %s parses to %d statements", mode, clipq(s1), len(o2.stmts))
	}
	q2, isSel := o2.stmts[0].(parser.SelectQuery)
	if !isSel {
		return s1, fw.V("roundtrip_statement_kind:"+blame(q, prep, ansi), "%s: printed query %s parses to a %T", mode, clipq(s1), o2.stmts[0])
	}
	s2, ok := printNode(q2)
	if !ok {
		return s1, fw.V("string_panic", "%s: String() of the re-parsed query %s panicked", mode, clipq(s1))
	}
	if s2 != s1 {
		return s1, fw.V("roundtrip_string_differs:"+blame(q, prep, ansi), "%s: printed %s, re-parsed tree prints %s", mode, clipq(s1), clipq(s2))
	}
	return s1, nil
}

// roundTripEval: the original text and the printed text evaluate alike.
// Returns a class label describing the evaluation.
func roundTripEval(src, s1 string, prep, ansi bool) (string, *fw.Violation) {
	if !evalSafe(scanTokens(src, prep, ansi)) || !evalSafe(scanTokens(s1, prep, ansi)) {
		return "eval:not_evaluated", nil
	}
	a := evalText(src, prep, ansi)
	b := evalText(s1, prep, ansi)
	if a.skipped != "" || b.skipped != "" {
		return "eval:skipped", nil
	}
	if !sameEval(a, b) {
		// csvq's evaluation is not always a function of the query (e.g. several analytic functions whose ORDER BY
		// keys tie are evaluated in map order, lib/query/field_analyzer.go appendAnalyticFunctionToListIfNotExist):
		// sample both texts repeatedly and report only when the two sets of outcomes stay disjoint.
		as, bs := []evalRes{a}, []evalRes{b}
		overlap := func() bool {
			for _, x := range as {
				for _, y := range bs {
					if sameEval(x, y) {
						return true
					}
				}
			}
			return false
		}
		for i := 0; i < 16; i++ {
			a2, b2 := evalText(src, prep, ansi), evalText(s1, prep, ansi)
			if a2.skipped != "" || b2.skipped != "" {
				return "eval:skipped", nil
			}
			as, bs = append(as, a2), append(bs, b2)
			if overlap() {
				return "eval:nondeterministic", nil
			}
		}
		return "", fw.V("roundtrip_eval_differs", "prepared=%v ansi=%v: %s evaluates to %s but its printed form %s evaluates to %s (17 evaluations of each, no common outcome)", prep, ansi, clipq(src), a, clipq(s1), b)
	}
	if a.errCls != "" {
		return "eval:error", nil
	}
	return "eval:ok", nil
}

// checkParsed applies the round-trip oracle to whatever a parsed input
// contains: every SELECT (also inside other statements) must survive
// print/parse/print; an input that is a single SELECT is evaluated as well.
// tolerate: count reported shapes as a class instead of failing.
func checkParsed(src string, stmts []parser.Statement, prep, ansi bool, tolerate bool) ([]string, *fw.Violation) {
	var classes []string
	single := len(stmts) == 1
	for _, st := range stmts {
		for _, q := range collectQueries(st) {
			s1, v := roundTripPrint(q, prep, ansi)
			if v != nil {
				if tolerate && toleratedSig(v.Sig) {
					classes = append(classes, "reported_shape:"+v.Sig)
					continue
				}
				return classes, v
			}
			if _, top := st.(parser.SelectQuery); top && single {
				cl, v := roundTripEval(src, s1, prep, ansi)
				if v != nil {
					return classes, v
				}
				classes = append(classes, cl)
			} else {
				classes = append(classes, "print_roundtrip_only")
			}
		}
	}
	return classes, nil
}

// ---------------------------------------------------------------------
// check 1: totality on byte strings, token soup, damaged queries, stress shapes

type totalCase struct {
	Kind     string `json:"kind"`
	Src      []byte `json:"src,omitempty"` // base64 in the replay file; the message shows it quoted
	Prefix   string `json:"prefix,omitempty"`
	Open     string `json:"open,omitempty"` // stress shapes: Prefix + Open*N + Mid + Close*N + Suffix
	N        int    `json:"n,omitempty"`
	Mid      string `json:"mid,omitempty"`
	Close    string `json:"close,omitempty"`
	Suffix   string `json:"suffix,omitempty"`
	Prepared bool   `json:"prepared"`
	Ansi     bool   `json:"ansi"`
}

func (c totalCase) source() string {
	if c.Open == "" && c.Close == "" && c.N == 0 {
		return string(c.Src)
	}
	var b strings.Builder
	b.WriteString(c.Prefix)
	for i := 0; i < c.N; i++ {
		b.WriteString(c.Open)
	}
	b.WriteString(c.Mid)
	for i := 0; i < c.N; i++ {
		b.WriteString(c.Close)
	}
	b.WriteString(c.Suffix)
	return b.String()
}

func checkTotality(c totalCase) (fw.Outcome, *fw.Violation) {
	o := fw.Outcome{Classes: []string{"kind:" + c.Kind, fmt.Sprintf("mode:prepared=%v,ansi=%v", c.Prepared, c.Ansi)}}
	src := c.source()
	if len(src) > 4<<20 {
		o.Discard = true
		return o, nil
	}
	out, v := checkTotal(src, c.Prepared, c.Ansi)
	if v != nil {
		return o, v
	}
	if out.err != nil {
		o.Classes = append(o.Classes, "result:syntax_error", "kind:"+c.Kind+"/syntax_error")
		return o, nil
	}
	if len(out.stmts) == 0 {
		o.Classes = append(o.Classes, "result:empty_program")
		return o, nil
	}
	o.Classes = append(o.Classes, "result:parsed", "kind:"+c.Kind+"/parsed")
	if c.N <= 60 { // printing (quadratic in the depth) and evaluating the giant stress shapes adds nothing
		cls, v := checkParsed(src, out.stmts, c.Prepared, c.Ansi, true)
		o.Classes = append(o.Classes, cls...)
		if v != nil {
			return o, v
		}
	}
	ti := analyse(scanTokens(src, c.Prepared, c.Ansi))
	if ti.escaped {
		o.Classes = append(o.Classes, "has_escape")
	}
	o.Classes = append(o.Classes, "depth:"+bucket(ti.depth))
	o.Fingerprint = fingerprintOf(ti, c.Prepared, c.Ansi)
	return o, nil
}

func TestC18Totality(t *testing.T) {
	fw.Run(t, fw.Spec[totalCase]{
		ID: "C18", Name: "totality", Quick: 100000, Thorough: 2000000,
		Gen: genTotalCase, Check: checkTotality,
		Rule: "inputs: random bytes; token soup over csvq's keyword list, operators, the three quote kinds, comment openers, placeholders, variable sigils, escapes, non-ASCII, NUL, invalid UTF-8; statements of every kind from the manual and generated queries with tokens deleted/duplicated/inserted/truncated; stress shapes (nesting up to 5000, very long tokens, comment runs); all four (prepared, ansi_quotes) modes. Oracle: parser.Parse returns within a generous time limit without panic, and an error is a *SyntaxError with 1<=Line<=#lines, 0<=Char<=len(line)+1; every SELECT inside a parsed input must also print/parse/print identically. non-trivial = the input parses and has a string/quoted identifier needing an escape or parenthesis depth >= 3; distinct by the first 14 token kinds, escape flag, depth bucket and mode",
		Assumptions: []string{
			"a hang is a parse that exceeds 10 s (+10 s per 64 KiB) twice in a row",
			"the column bound uses the byte length of the line (csvq counts characters, which is never more)",
			"round-trip failures of the shapes already reported (avoidKnown* constants) are counted as class reported_shape:* in this check; the roundtrip check owns them",
		},
	})
}

// ---------------------------------------------------------------------
// check 2: print/parse/print/evaluate round trip of generated queries

type rtCase struct {
	Sql      string   `json:"sql"`
	Prepared bool     `json:"prepared"`
	Ansi     bool     `json:"ansi"`
	Feats    []string `json:"feats,omitempty"`
}

func checkRoundTrip(c rtCase) (fw.Outcome, *fw.Violation) {
	o := fw.Outcome{}
	for _, f := range c.Feats {
		o.Classes = append(o.Classes, "feat:"+f)
	}
	out, v := checkTotal(c.Sql, c.Prepared, c.Ansi)
	if v != nil {
		return o, v
	}
	if out.err != nil {
		// the generator aims at valid queries; a text that does not parse is outside "every query that parses"
		fw.AddExtra("roundtrip_generated_unparsable", 1)
		o.Discard = true
		return o, nil
	}
	if len(out.stmts) != 1 {
		o.Discard = true
		return o, nil
	}
	q, ok := out.stmts[0].(parser.SelectQuery)
	if !ok {
		o.Discard = true
		return o, nil
	}
	s1, v := roundTripPrint(q, c.Prepared, c.Ansi)
	if v != nil {
		return o, v
	}
	cl, v := roundTripEval(c.Sql, s1, c.Prepared, c.Ansi)
	if v != nil {
		return o, v
	}
	o.Classes = append(o.Classes, cl, fmt.Sprintf("mode:prepared=%v,ansi=%v", c.Prepared, c.Ansi))
	for _, f := range c.Feats {
		// how the new table kinds and the INTO clause are actually evaluated
		if strings.HasPrefix(f, "table_format:") || f == "into_clause" || f == "stdin_qualifier" {
			o.Classes = append(o.Classes, f+"/"+cl)
		}
	}
	ti := analyse(scanTokens(c.Sql, c.Prepared, c.Ansi))
	if ti.escaped {
		o.Classes = append(o.Classes, "has_escape")
	}
	o.Classes = append(o.Classes, "depth:"+bucket(ti.depth), "tokens:"+bucket(ti.n/4))
	if fp := fingerprintOf(ti, c.Prepared, c.Ansi); fp != "" {
		o.Fingerprint = fp + "|" + cl
	}
	return o, nil
}

func genRTCase(t *rapid.T) rtCase {
	prep := chance(t, "prepared", 30)
	ansi := chance(t, "ansi", 40)
	sql, feats := genQueryText(t, prep, ansi)
	return rtCase{Sql: sql, Prepared: prep, Ansi: ansi, Feats: feats}
}

func TestC18RoundTrip(t *testing.T) {
	fw.Run(t, fw.Spec[rtCase]{
		ID: "C18", Name: "roundtrip", Quick: 20000, Thorough: 400000,
		Gen: genRTCase, Check: checkRoundTrip,
		Rule: "SELECT queries rendered from a grammar (all literal kinds with every escape spelling, quoted identifiers with special characters, arithmetic/comparison/logic, CASE, BETWEEN, IN, LIKE, IS, ANY/ALL, EXISTS, row values, JSON_ROW, functions, aggregate/list/analytic functions with OVER and frames, subqueries, all join kinds, LATERAL, CTEs, set operators, ORDER BY/LIMIT/OFFSET/FETCH, cursor status, variables, flags, constants, named placeholders in prepared mode; table objects of all five file formats CSV/FIXED/LTSV/JSON/JSONL over fixture files and the three inline formats CSV_INLINE/JSON_INLINE/JSON_TABLE in every grammar alternative (with and without format element, optional encoding/no_header/without_null arguments, path as identifier, FILE::/INLINE::/DATA::/URL:: table function or STDIN); STDIN.column and STDIN.n references; the keywords the grammar accepts as identifiers (TIES NULLS ROWS CSV JSON JSONL FIXED LTSV) bare and quoted; SELECT ... INTO variables on the outermost query; row-value [NOT] IN (list or subquery) and [NOT] BETWEEN, LIKE with an expression as pattern, USING with two columns, GROUP BY with a second key expression; random keyword case, white space and comments). Oracle: s1=String() parses to one SELECT printing s1 again; the original text and s1, each parsed afresh and executed in a new session over fixed tables, give equal headers and values, leave equal values in the variables @v1-@v3 (side effects of INTO and @v := expr) or end in the same error class. non-trivial = has a string/quoted identifier needing an escape or parenthesis depth >= 3; distinct by the first 14 token kinds, escape flag, depth bucket, mode, evaluation class",
		Assumptions: []string{
			"evaluation is compared only for texts whose functions are deterministic and confined (no NOW, RAND, CALL, URL, URL::, @#UPTIME; FILE::/INLINE:: only with a literal file name inside the fixture directory); others are checked for print/parse/print only (class eval:not_evaluated)",
			"a text that mentions STDIN is evaluated in sessions whose standard input is a fixed one-row CSV text; other texts get no standard input",
			"error classes are csvq's error code/number pairs; messages and positions are not compared",
			"shapes behind avoidKnown* constants (reported defects) are not generated while the constant is true",
		},
	})
}
