package c18

// Sub-checks "labels" and "show": the three places where csvq hands the text
// it derives from the syntax tree to the user are the header line of a result
// (labels of fields without an alias), error messages that quote an expression
// and the output of SHOW CURSORS / SHOW FUNCTIONS. The round-trip check calls
// String() itself; these two checks take the text from where csvq puts it
// (result header, error message, SHOW output) and demand of THAT text what the
// property says: it parses again, the tree prints the same text, and it
// evaluates like the expression / query it was derived from.

import (
	"context"
	"fmt"
	"reflect"
	"regexp"
	"sort"
	"strings"
	"testing"
	"time"

	"github.com/mithrandie/csvq/lib/parser"
	"pgregory.net/rapid"

	"verif/internal/fw"
	"verif/internal/run"
	"verif/internal/val"
)

// ---------------------------------------------------------------------
// a derived text in expression position

// parseAsField parses "SELECT <text>" and returns the object of its only field.
func parseAsField(text string, prep, ansi bool) (parser.QueryExpression, string) {
	o := parseOnce("SELECT "+text, prep, ansi)
	if o.panicked {
		return nil, "panic: " + o.panicMsg
	}
	if o.err != nil {
		return nil, o.err.Error()
	}
	if len(o.stmts) != 1 {
		return nil, fmt.Sprintf("%d statements", len(o.stmts))
	}
	q, ok := o.stmts[0].(parser.SelectQuery)
	if !ok || q.WithClause != nil || q.OrderByClause != nil || q.LimitClause != nil || q.IsForUpdate() {
		return nil, "not a bare SELECT of one field"
	}
	se, ok := q.SelectEntity.(parser.SelectEntity)
	if !ok || se.IntoClause != nil || se.FromClause != nil || se.WhereClause != nil || se.GroupByClause != nil || se.HavingClause != nil {
		return nil, "not a bare SELECT of one field"
	}
	sc, ok := se.SelectClause.(parser.SelectClause)
	if !ok || len(sc.Fields) != 1 || !sc.Distinct.IsEmpty() {
		return nil, "not a bare SELECT of one field"
	}
	f, ok := sc.Fields[0].(parser.Field)
	if !ok || f.Alias != nil {
		return nil, "the text carries an alias"
	}
	return f.Object, ""
}

// checkDerivedExpr: text (a label or the expression quoted by a message) parses
// again as one expression whose tree prints the same text.
func checkDerivedExpr(what, text string, prep, ansi bool) *fw.Violation {
	mode := fmt.Sprintf("prepared=%v ansi=%v", prep, ansi)
	e, why := parseAsField(text, prep, ansi)
	if e == nil && what == "message_text" {
		// a message may quote a row value, which the grammar accepts only as an operand of a comparison
		if c, _ := parseAsField(text+" = "+text, prep, ansi); c != nil {
			if cmp, ok := c.(parser.Comparison); ok {
				if _, isRow := cmp.LHS.(parser.RowValue); isRow {
					e = cmp.LHS
				}
			}
		}
	}
	if e == nil {
		if strings.HasPrefix(why, "panic: ") {
			return fw.V("parse_panic", "%s: parser panicked on the %s text %s: %s", mode, what, clipq(text), why)
		}
		return fw.V(what+"_reparse_fails", "%s: the %s text %s does not parse again as an expression: %s", mode, what, clipq(text), why)
	}
	s2, ok := printNode(e)
	if !ok {
		return fw.V("string_panic", "%s: String() of the re-parsed %s text %s panicked", mode, what, clipq(text))
	}
	if s2 != text {
		return fw.V(what+"_string_differs", "%s: the %s text %s parses to a %s that prints %s", mode, what, clipq(text), typeName(e), clipq(s2))
	}
	return nil
}

// isBareNameNeedingQuotes: text is a column name, or view.column, that parses as a field reference once its parts are
// quoted as identifiers (and does not parse as it stands).
func isBareNameNeedingQuotes(text string, prep, ansi bool) bool {
	isRef := func(s string) bool {
		e, _ := parseAsField(s, prep, ansi)
		if e == nil {
			return false
		}
		switch e.(type) {
		case parser.FieldReference, parser.Identifier:
			return true
		}
		return false
	}
	if isRef(text) {
		return false
	}
	if isRef(val.QuoteIdent(text)) {
		return true
	}
	for i := 0; i < len(text); i++ {
		if text[i] == '.' && i > 0 && i < len(text)-1 {
			if isRef(val.QuoteIdent(text[:i]) + "." + val.QuoteIdent(text[i+1:])) {
				return true
			}
		}
	}
	return false
}

func typeName(x interface{}) string {
	if x == nil {
		return "nil"
	}
	return reflect.TypeOf(x).Name()
}

// ---------------------------------------------------------------------
// check "labels": header labels and quoted expressions of error messages

type lblCase struct {
	Head     string   `json:"head"`   // SELECT [DISTINCT]
	Fields   []string `json:"fields"` // source texts of the fields (none has an alias)
	Rest     string   `json:"rest"`   // FROM ... WHERE ... GROUP BY ... LIMIT ...
	Mode     string   `json:"mode"`
	Inject   string   `json:"inject,omitempty"` // the construct put in to provoke a message that quotes an expression
	Prepared bool     `json:"prepared"`
	Ansi     bool     `json:"ansi"`
	Feats    []string `json:"feats,omitempty"`
}

func (c lblCase) sql(fields []string) string {
	s := c.Head + " " + strings.Join(fields, " , ")
	if c.Rest != "" {
		s += " " + c.Rest
	}
	return s
}

var lblInjectKinds = []string{"undefined_field", "undefined_field", "undeclared_variable", "undefined_constant", "nested_aggregate", "limit_value",
	"ambiguous_field", "not_group_key", "table_object_element", "undeclared_cursor", "unknown_flag", "unspecified_placeholder"}

func genLblCase(t *rapid.T) lblCase {
	c := lblCase{Prepared: chance(t, "prepared", 20), Ansi: chance(t, "ansi", 40)}
	g := &qg{t: t, prep: c.Prepared, ansi: c.Ansi, feats: map[string]bool{}, noTail: true}
	d := g.n("depth", 1, 2)
	if g.chance("inject", 35) {
		c.Inject = g.pick("injectkind", lblInjectKinds)
		if c.Inject == "unspecified_placeholder" && !c.Prepared {
			c.Inject = "undefined_field"
		}
	}
	head := g.kw("SELECT")
	if g.chance("distinct", 10) {
		head = cat(head, g.kw("DISTINCT"))
	}
	c.Head = g.joinToks(head)

	var fromToks, restToks []string
	var cols []col
	c.Mode = "plain"
	hasFrom := g.chance("hasfrom", 80)
	t1 := []col{{"t1", "c1"}, {"t1", "c2"}, {"t1", "c3"}}
	switch c.Inject {
	case "ambiguous_field":
		hasFrom = true
		sep := g.pick("ambsep", []string{",", "CROSS JOIN", "JOIN"})
		fromToks = cat(g.kw("FROM"), one(g.ident("t1")))
		if sep == "," {
			fromToks = cat(fromToks, one(","), one(g.ident("t2")))
		} else {
			fromToks = cat(fromToks, g.kw(sep), one(g.ident("t2")))
			if sep == "JOIN" {
				fromToks = cat(fromToks, g.kw("ON"), one("t1.c1"), one("="), one("t2.c1"))
			}
		}
		cols = []col{{"t1", "c2"}, {"t2", "c4"}}
	case "not_group_key", "nested_aggregate":
		hasFrom = true
		fromToks = cat(g.kw("FROM"), one(g.ident(g.pick("gt", []string{"t1", "t1.csv"}))))
		cols = t1
		c.Mode = map[string]string{"not_group_key": "grouped", "nested_aggregate": "allagg"}[c.Inject]
	case "table_object_element":
		hasFrom = true
		var elem []string
		switch g.n("toelem", 0, 3) {
		case 0:
			elem = one(g.strLit())
		case 1:
			elem = cat(one(g.strLit()), one("||"), one(g.strLit()))
		case 2:
			elem = g.expr(1, ectx{})
		default:
			elem = one(g.pick("toelemnum", []string{"12", "1.5", "TRUE", "@v2", "NULL"}))
		}
		tf := g.pick("tofmt", []string{"CSV\x00t1", "CSV\x00t2.csv", "FIXED\x00t5.txt", "JSON\x00t6", "JSONL\x00t4.jsonl", "CSV_INLINE\x00t1.csv", "JSON_INLINE\x00t6.json"})
		kw, file, _ := strings.Cut(tf, "\x00")
		fromToks = cat(g.kw("FROM"), g.kw(kw), g.paren(cat(elem, one(","), one(g.ident(file)))), one("tx"))
		cols = []col{{"tx", "c1"}}
	default:
		if hasFrom {
			fromToks, cols = g.from(d)
			c.Mode = g.pick("lmode", []string{"plain", "plain", "plain", "plain", "allagg", "grouped", "analytic", "analytic"})
		}
	}
	if c.Mode == "grouped" && len(cols) == 0 {
		c.Mode = "plain"
	}
	var groupCols []col
	if c.Mode == "grouped" {
		groupCols = []col{cols[g.n("gcol", 0, len(cols)-1)]}
		if c.Inject == "not_group_key" {
			groupCols = []col{cols[0]}
		}
	}
	n := g.n("nfields", 1, 4)
	var fields [][]string
	for i := 0; i < n; i++ {
		var f []string
		switch c.Mode {
		case "allagg":
			f = g.aggregate(d, ectx{cols: cols})
			if g.chance("aggwrap", 40) {
				f = cat(f, one(g.pick("aggwrapop", []string{"+", "*", "||", "-"})), g.leaf(ectx{}))
			}
		case "grouped":
			if i == 0 || g.chance("gfieldcol", 30) {
				f = g.expr(1, ectx{cols: groupCols})
			} else {
				f = g.aggregate(d, ectx{cols: cols})
			}
		case "analytic":
			if g.chance("anfield", 60) {
				f = g.analytic(d, ectx{cols: cols})
			} else {
				f = g.expr(d-1, ectx{cols: cols, analytic: true})
			}
		default:
			f = g.expr(d, ectx{cols: cols})
		}
		fields = append(fields, f)
	}
	op := func() []string { return one(g.pick("injop", []string{"+", "||", "=", "-", "*"})) }
	var bad []string
	switch c.Inject {
	case "undefined_field":
		switch g.n("badfield", 0, 4) {
		case 0:
			bad = one(g.ident(g.pick("badname", []string{"nocol", "no col", "x'y", "a`b", "日本", "a\\b", "NoCol"})))
		case 1:
			bad = one(g.ident(g.pick("badq", []string{"zz", "no tbl", "t1", "T1"})) + "." + g.ident(g.pick("badname2", []string{"nocol", "no col", "a\"b", "tab\there"})))
		case 2:
			bad = one(g.ident(g.pick("badq2", []string{"zz", "t1", "my table", "t9"})) + "." + g.pick("badnum", []string{"9", "0", "17", "007"}))
		case 3:
			bad = []string{g.ident("zz"), ".", g.ident("c1")}
		default:
			bad = cat(g.kw("STDIN"), one("."), one(g.ident("nocol")))
		}
		if g.chance("badwrap", 60) {
			bad = cat(bad, op(), g.leaf(ectx{cols: cols}))
		}
	case "undeclared_variable":
		bad = one(g.pick("badvar", []string{"@zz", "@ZZ9", "@日本", "@_", "@v4"}))
		if g.chance("badwrap", 60) {
			bad = cat(g.leaf(ectx{cols: cols}), op(), bad)
		}
	case "undefined_constant":
		bad = one(g.pick("badconst", []string{"MATH::NOPE", "math::pie", "nope::x", "Integer::Maximum", "日本::x"}))
		if g.chance("badwrap", 50) {
			bad = cat(bad, op(), g.leaf(ectx{cols: cols}))
		}
	case "nested_aggregate":
		inner := g.aggregate(1, ectx{cols: cols})
		if g.chance("nestwrap", 50) {
			inner = cat(inner, op(), g.leaf(ectx{cols: cols}))
		}
		name := g.pick("nestname", []string{"SUM", "max", "COUNT", "Avg", "LISTAGG", "median"})
		bad = cat(one(name), g.paren(inner))
		if g.chance("nestouter", 30) {
			bad = cat(bad, op(), g.leaf(ectx{}))
		}
	case "ambiguous_field":
		bad = one(g.ident("c1"))
		if g.chance("badwrap", 60) {
			bad = cat(bad, op(), g.leaf(ectx{cols: cols}))
		}
	case "not_group_key":
		bad = one(g.pick("ngk", []string{"c2", "t1.c3", "`c3`", "t1.2"}))
		if g.chance("badwrap", 60) {
			bad = cat(g.kw("UPPER"), g.paren(bad))
		}
	case "undeclared_cursor":
		bad = cat(g.kw("CURSOR"), one(g.ident(g.pick("badcur", []string{"nocur", "no cur", "c'9", "CUR9"}))), g.kw(g.pick("curattr", []string{"IS OPEN", "IS NOT IN RANGE", "COUNT"})))
	case "unknown_flag":
		bad = one(g.pick("badflag", []string{"@@no_such", "@@NOPE", "@#nope", "@#No_Such_Info", "@@日本"}))
		if g.chance("badwrap", 40) {
			bad = cat(bad, op(), g.leaf(ectx{}))
		}
	case "unspecified_placeholder":
		bad = one(g.pick("badph", []string{":nope", ":p9", ":日本", ":P1"}))
		if g.chance("badwrap", 50) {
			bad = cat(bad, op(), g.leaf(ectx{cols: cols}))
		}
	}
	if bad != nil {
		pos := g.n("badpos", 0, len(fields))
		fields = append(fields[:pos], append([][]string{bad}, fields[pos:]...)...)
	}
	for _, f := range fields {
		c.Fields = append(c.Fields, g.joinToks(f))
	}

	restToks = fromToks
	if hasFrom && c.Inject != "ambiguous_field" && g.chance("where", 30) {
		restToks = cat(restToks, g.kw("WHERE"), g.expr(1, ectx{cols: cols}))
	}
	if c.Mode == "grouped" {
		restToks = cat(restToks, g.kw("GROUP BY"), g.colRef(groupCols[0]))
	}
	if c.Inject == "limit_value" {
		var v []string
		switch g.n("limv", 0, 4) {
		case 0:
			v = one(g.strLit())
		case 1:
			v = cat(one(g.strLit()), one("||"), one(g.strLit()))
		case 2:
			v = g.paren(g.expr(1, ectx{}))
		case 3:
			v = one(g.pick("limvlit", []string{"1.5", "NULL", "TRUE", "@v2", "'abc'", "-1", "@%C18_ENV"}))
		default:
			v = cat(g.kw("UPPER"), g.paren(one(g.strLit())))
		}
		switch g.n("limk", 0, 3) {
		case 0:
			restToks = cat(restToks, g.kw("LIMIT"), v)
		case 1:
			restToks = cat(restToks, g.kw("LIMIT"), v, g.kw("PERCENT"))
		case 2:
			restToks = cat(restToks, g.kw("OFFSET"), v)
		default:
			restToks = cat(restToks, g.kw("FETCH FIRST"), v, g.kw("ROWS ONLY"))
		}
	}
	if len(restToks) > 0 {
		c.Rest = g.joinToks(restToks)
	}
	for f := range g.feats {
		c.Feats = append(c.Feats, f)
	}
	sort.Strings(c.Feats)
	return c
}

type msgTemplate struct {
	name string
	re   *regexp.Regexp
}

// messages of lib/query/error.go whose %s is the String() of a node of the query
var msgTemplates = []msgTemplate{
	{"field_not_exist", regexp.MustCompile(`(?s)^field (.+) does not exist$`)},
	{"field_ambiguous", regexp.MustCompile(`(?s)^field (.+) is ambiguous$`)},
	{"field_not_group_key", regexp.MustCompile(`(?s)^field (.+) is not a group key$`)},
	{"variable_undeclared", regexp.MustCompile(`(?s)^variable (.+) is undeclared$`)},
	{"constant_undefined", regexp.MustCompile(`(?s)^constant (.+) is not defined$`)},
	{"nested_aggregate", regexp.MustCompile(`(?s)^aggregate functions are nested at (.+)$`)},
	{"limit_number", regexp.MustCompile(`(?s)^limit number of records (.+) is not an integer value$`)},
	{"limit_percentage", regexp.MustCompile(`(?s)^limit percentage (.+) is not a float value$`)},
	{"offset_number", regexp.MustCompile(`(?s)^offset number (.+) is not an integer value$`)},
	{"invalid_delimiter", regexp.MustCompile(`(?s)^invalid delimiter: (.+)$`)},
	{"invalid_delimiter_positions", regexp.MustCompile(`(?s)^invalid delimiter positions: (.+)$`)},
	{"invalid_json_query", regexp.MustCompile(`(?s)^invalid json query: (.+)$`)},
	{"cursor_undeclared", regexp.MustCompile(`(?s)^cursor (.+) is undeclared$`)},
	{"unknown_flag", regexp.MustCompile(`(?s)^(.+) is an unknown flag$`)},
	{"unknown_runtime_information", regexp.MustCompile(`(?s)^(.+) is an unknown runtime information$`)},
	{"placeholder_unspecified", regexp.MustCompile(`(?s)^replace value for (.+) is not specified$`)},
	{"not_a_value", regexp.MustCompile(`(?s)^(.+): cannot evaluate as a value$`)},
}

var msgPosPrefix = regexp.MustCompile(`^(?:\S+ )?\[L:\d+ C:\d+\] `)

// quotedByMessage returns the template name and the expression text a message quotes ("" = none of the templates).
func quotedByMessage(msg string) (string, string) {
	msg = msgPosPrefix.ReplaceAllString(msg, "")
	for _, t := range msgTemplates {
		if m := t.re.FindStringSubmatch(msg); m != nil {
			return t.name, m[1]
		}
	}
	return "", ""
}

// printsOfTree: the printed texts of all nodes below a statement (to see whether a quoted text is the print of a node).
func printsOfTree(x interface{}) map[string]string {
	out := map[string]string{}
	walk(x, func(typ string, n interface{}) bool {
		if s, ok := printNode(n); ok && s != "" {
			if prev, dup := out[s]; !dup || prev == "Identifier" {
				out[s] = typ // (a reference prints like the identifier inside it: name the outer node)
			}
		}
		return false
	})
	return out
}

func selectFields(st parser.Statement) ([]parser.QueryExpression, bool) {
	q, ok := st.(parser.SelectQuery)
	if !ok {
		return nil, false
	}
	se, ok := q.SelectEntity.(parser.SelectEntity)
	if !ok {
		return nil, false
	}
	sc, ok := se.SelectClause.(parser.SelectClause)
	if !ok {
		return nil, false
	}
	return sc.Fields, true
}

func checkLabels(c lblCase) (fw.Outcome, *fw.Violation) {
	o := fw.Outcome{Classes: []string{"mode:" + c.Mode, fmt.Sprintf("mode:prepared=%v,ansi=%v", c.Prepared, c.Ansi)}}
	if c.Inject != "" {
		o.Classes = append(o.Classes, "inject:"+c.Inject)
	}
	if len(c.Fields) == 0 {
		o.Discard = true
		return o, nil
	}
	q1 := c.sql(c.Fields)
	out, v := checkTotal(q1, c.Prepared, c.Ansi)
	if v != nil {
		return o, v
	}
	if out.err != nil || len(out.stmts) != 1 {
		fw.AddExtra("labels_generated_unparsable", 1)
		o.Discard = true
		return o, nil
	}
	fields, ok := selectFields(out.stmts[0])
	if !ok || len(fields) != len(c.Fields) {
		fw.AddExtra("labels_fields_not_separable", 1)
		o.Discard = true
		return o, nil
	}
	if !evalSafe(scanTokens(q1, c.Prepared, c.Ansi)) {
		o.Classes = append(o.Classes, "result:not_evaluated")
		return o, nil
	}
	a := evalText(q1, c.Prepared, c.Ansi)
	if a.skipped != "" {
		o.Classes = append(o.Classes, "result:skipped")
		return o, nil
	}
	mode := fmt.Sprintf("prepared=%v ansi=%v", c.Prepared, c.Ansi)
	if a.errCls != "" {
		// ---- a message that quotes an expression
		name, text := quotedByMessage(a.errMsg)
		if name == "" {
			o.Classes = append(o.Classes, "result:error_without_quoted_expression")
			return o, nil
		}
		o.Classes = append(o.Classes, "result:message", "message:"+name)
		if c.Inject != "" {
			o.Classes = append(o.Classes, "inject:"+c.Inject+"/message:"+name)
		}
		if v := checkDerivedExpr("message_text", text, c.Prepared, c.Ansi); v != nil {
			v.Sig += ":" + name
			if _, isNode := printsOfTree(out.stmts[0])[text]; !isNode && isBareNameNeedingQuotes(text, c.Prepared, c.Ansi) {
				// the quoted text is not the print of a node of the query: csvq built the reference itself from a column name
				// (optionally qualified by a view name) and printed the name without the quotes it needs. One root cause
				// whatever the message: it has a signature of its own
				v.Sig = "message_text_reparse_fails:unquoted_name_built_by_csvq"
			}
			v.Msg = fmt.Sprintf("%s (query %s, message %q)", v.Msg, clipq(q1), a.errMsg)
			return o, v
		}
		typ, isNode := printsOfTree(out.stmts[0])[text]
		if isNode {
			o.Classes = append(o.Classes, "message_text:print_of_a_node", "message_node:"+typ)
		} else {
			o.Classes = append(o.Classes, "message_text:not_the_print_of_a_node")
			fw.AddExtra("labels_message_text_not_print_of_a_node", 1)
		}
		o.Fingerprint = "msg|" + name + "|" + typ + "|" + shapeOf(text, c.Prepared, c.Ansi) + "|" + mode
		return o, nil
	}
	// ---- header labels
	if len(a.views) != 1 || len(a.views[0].Header) != len(fields) {
		o.Classes = append(o.Classes, "result:header_not_aligned")
		fw.AddExtra("labels_header_not_aligned", 1)
		return o, nil
	}
	header := a.views[0].Header
	fields2 := append([]string(nil), c.Fields...)
	var kinds []string
	normalised := false
	for i, f := range fields {
		fld, ok := f.(parser.Field)
		if !ok {
			continue
		}
		switch e := fld.Object.(type) {
		case parser.PrimitiveType, parser.AllColumns:
			o.Classes = append(o.Classes, "label:value_of_literal")
			continue
		case parser.FieldReference:
			if _, isName := e.Column.(parser.Identifier); isName {
				o.Classes = append(o.Classes, "label:column_name")
				continue
			}
		}
		label := header[i]
		kind := typeName(fld.Object)
		if v := checkDerivedExpr("label", label, c.Prepared, c.Ansi); v != nil {
			v.Sig += ":" + kind
			v.Msg = fmt.Sprintf("%s (field %d of %s)", v.Msg, i+1, clipq(q1))
			return o, v
		}
		if s0, ok := printNode(fld.Object); ok && s0 == label {
			o.Classes = append(o.Classes, "label:equals_string_of_node")
		} else {
			o.Classes = append(o.Classes, "label:differs_from_string_of_node")
			fw.AddExtra("labels_label_differs_from_string_of_node", 1)
		}
		o.Classes = append(o.Classes, "label_node:"+kind)
		kinds = append(kinds, kind)
		if strings.TrimSpace(c.Fields[i]) != label {
			normalised = true
		}
		fields2[i] = label
	}
	if len(kinds) == 0 {
		o.Classes = append(o.Classes, "result:no_derived_label")
		return o, nil
	}
	q2 := c.sql(fields2)
	cl := "eval:same_text"
	if q2 != q1 {
		var v *fw.Violation
		cl, v = roundTripEval(q1, q2, c.Prepared, c.Ansi)
		if v != nil {
			v.Sig = "label_eval_differs"
			v.Msg = "the query with every unaliased field replaced by its header label evaluates differently: " + v.Msg
			return o, v
		}
	}
	o.Classes = append(o.Classes, "result:labels", cl)
	if normalised {
		o.Classes = append(o.Classes, "label:differs_from_source_text")
		sort.Strings(kinds)
		o.Fingerprint = "lbl|" + strings.Join(kinds, ",") + "|" + c.Mode + "|" + cl + "|" + shapeOf(strings.Join(fields2, " , "), c.Prepared, c.Ansi) + "|" + mode
	}
	return o, nil
}

// shapeOf: first token kinds, escape flag and depth bucket of a text (for fingerprints).
func shapeOf(text string, prep, ansi bool) string {
	ti := analyse(scanTokens(text, prep, ansi))
	return fmt.Sprintf("%s|e%v|d%s", ti.kindsHead, ti.escaped, bucket(ti.depth))
}

func TestC18Labels(t *testing.T) {
	fw.Run(t, fw.Spec[lblCase]{
		ID: "C18", Name: "labels", Quick: 5000, Thorough: 60000,
		Gen: genLblCase, Check: checkLabels,
		Rule: "SELECT [DISTINCT] f1, ..., fn (1-5 fields, NONE with an alias) [FROM ...] [WHERE] [GROUP BY] from the round-trip grammar in the modes plain / all-aggregate / grouped / analytic, both quoting modes, prepared mode on and off; in 35% of the cases one construct is put in that makes csvq answer with a message quoting an expression (undefined field in 5 spellings incl. column number and STDIN.x, undeclared variable, undefined constant, nested aggregate, non-numeric LIMIT / LIMIT PERCENT / OFFSET / FETCH value, ambiguous field, field that is no group key, table object with a bad format element, undeclared cursor, unknown flag / runtime information, unspecified named placeholder). The query is executed over the fixture tables and the text is taken from where csvq puts it. Oracle (labels): for every field that is not a literal, a plain column reference or *, the header label L of the result parses again as one expression whose tree prints L, and the query with these fields replaced by their labels gives the same header, rows and variables (or error class). Oracle (messages): when the error message matches one of 17 templates of lib/query/error.go that quote an expression, the quoted text parses again as one expression (or, for a row value, as the operand of a comparison) whose tree prints the same text. non-trivial = a label that differs from the field's source text (csvq normalised case, spacing, quoting, escapes) or a quoted message text; distinct by node types of the labelled fields / message template and node type, mode, evaluation class, first 14 token kinds, escape flag, depth bucket",
		Assumptions: []string{
			"labels of literals (their value), of plain column references (the column name) and of * are not derived texts and are not judged; such fields keep their source text in the second query",
			"whether the label equals String() of the field's node, and whether a quoted message text is the print of a node of the query, is only counted (classes label:*, message_text:*): the property demands that the text parses, prints and evaluates again, not how csvq obtains it",
			"a quoted message text is judged for parse/print only (the expression is not evaluable on its own by construction of the case)",
			"queries that are not confined/deterministic by the token rule of the round-trip check are not executed (class result:not_evaluated)",
		},
	})
}

// ---------------------------------------------------------------------
// check "show": SHOW CURSORS and SHOW FUNCTIONS

type showCase struct {
	Kind  string   `json:"kind"` // cursor | function | aggregate
	Sql   string   `json:"sql"`  // cursor: the query; function/aggregate: the default expression of the last parameter
	Ansi  bool     `json:"ansi"`
	Feats []string `json:"feats,omitempty"`
}

func genShowCase(t *rapid.T) showCase {
	c := showCase{Ansi: chance(t, "ansi", 40)}
	g := &qg{t: t, ansi: c.Ansi, feats: map[string]bool{}, noTail: true}
	d := g.n("depth", 1, 3)
	switch k := g.n("kind", 0, 9); {
	case k < 6:
		c.Kind = "cursor"
		toks, _ := g.query(d, 0, false, false)
		if g.chance("forupdate", 5) {
			toks = cat(toks, g.kw("FOR UPDATE"))
		}
		c.Sql = g.joinToks(toks)
	case k < 9:
		c.Kind = "function"
		c.Sql = g.joinToks(g.expr(d, ectx{}))
	default:
		c.Kind = "aggregate"
		c.Sql = g.joinToks(g.expr(d, ectx{}))
	}
	for f := range g.feats {
		c.Feats = append(c.Feats, f)
	}
	sort.Strings(c.Feats)
	return c
}

// wordSpace: the characters at which csvq's document writer (bufio.ScanWords) splits words.
func wordSpace(r rune) bool {
	switch r {
	case ' ', '\t', '\n', '\v', '\f', '\r', 0x85, 0xa0, 0x1680, 0x2028, 0x2029, 0x202f, 0x205f, 0x3000:
		return true
	}
	return 0x2000 <= r && r <= 0x200a
}

// plainlySpaced: the only word separators of s are single blanks. SHOW CURSORS lays the query out in words
// (line wrapping with a continuation mark, one blank between words); for such a text the layout loses nothing.
func plainlySpaced(s string) bool {
	prev := true // leading blank counts as a run
	for _, r := range s {
		if wordSpace(r) {
			if r != ' ' || prev {
				return false
			}
			prev = true
			continue
		}
		prev = false
	}
	return !prev || s == ""
}

// shownCursorQuery extracts the query of cursor name from the output of SHOW CURSORS and undoes the line wrapping.
func shownCursorQuery(out, name string) (text string, lines int, ok bool) {
	ls := strings.Split(out, "\n")
	for i := 0; i+2 < len(ls); i++ {
		if ls[i] != " "+name {
			continue
		}
		j := i + 1
		for j < len(ls) && strings.HasPrefix(ls[j], "     ") && strings.TrimSpace(ls[j]) != "Query:" {
			j++
		}
		if j >= len(ls) || strings.TrimSpace(ls[j]) != "Query:" {
			return "", 0, false
		}
		var parts []string
		for j++; j < len(ls) && strings.HasPrefix(ls[j], "       "); j++ {
			parts = append(parts, ls[j][7:])
		}
		if len(parts) == 0 {
			return "", 0, false
		}
		for k := 0; k < len(parts)-1; k++ {
			if !strings.HasSuffix(parts[k], `\`) {
				return "", len(parts), false
			}
			parts[k] = strings.TrimSuffix(parts[k], `\`)
		}
		return strings.Join(parts, " "), len(parts), true
	}
	return "", 0, false
}

func runShow(program string, ansi bool) (string, error, string) {
	ctx, cancel := context.WithTimeout(context.Background(), 20*time.Second)
	defer cancel()
	s, err := run.NewSess(run.Opt{Dir: fixtureDir(), CPU: 1, Ctx: ctx, CaptureOut: true})
	if err != nil {
		return "", nil, "session: " + err.Error()
	}
	defer s.Close()
	s.Tx.Flags.AnsiQuotes = ansi
	r := s.Exec(program)
	if ctx.Err() != nil {
		return "", nil, "time limit"
	}
	return s.Out.String(), r.Err, ""
}

func checkShow(c showCase) (fw.Outcome, *fw.Violation) {
	o := fw.Outcome{Classes: []string{"kind:" + c.Kind, fmt.Sprintf("mode:ansi=%v", c.Ansi)}}
	mode := fmt.Sprintf("ansi=%v", c.Ansi)
	src := c.Sql
	if c.Kind != "cursor" {
		src = "SELECT " + c.Sql
	}
	out, v := checkTotal(src, false, c.Ansi)
	if v != nil {
		return o, v
	}
	if out.err != nil || len(out.stmts) != 1 {
		fw.AddExtra("show_generated_unparsable", 1)
		o.Discard = true
		return o, nil
	}
	q, ok := out.stmts[0].(parser.SelectQuery)
	if !ok {
		o.Discard = true
		return o, nil
	}
	var s0 string // what String() gives for the declared query / default value
	var program, shown string
	switch c.Kind {
	case "cursor":
		s0, ok = printNode(q)
		if !ok {
			return o, fw.V("string_panic", "%s: String() of the parsed query %s panicked", mode, clipq(c.Sql))
		}
		if !plainlySpaced(s0) {
			// the layout of SHOW CURSORS (words separated by one blank, wrapped lines) cannot show such a text faithfully
			fw.AddExtra("show_cursor_text_with_other_word_separators_excluded", 1)
			o.Discard = true
			return o, nil
		}
		program = "DECLARE c9 CURSOR FOR " + c.Sql + ";\nSHOW CURSORS;"
	default:
		fields, okf := selectFields(q)
		if !okf || len(fields) != 1 {
			o.Discard = true
			return o, nil
		}
		f, okf := fields[0].(parser.Field)
		if !okf || f.Alias != nil {
			o.Discard = true
			return o, nil
		}
		if _, isAll := f.Object.(parser.AllColumns); isAll {
			o.Discard = true
			return o, nil
		}
		s0, ok = printNode(f.Object)
		if !ok {
			return o, fw.V("string_panic", "%s: String() of the parsed expression %s panicked", mode, clipq(c.Sql))
		}
		if strings.ContainsAny(s0, "\n") {
			o.Discard = true
			return o, nil
		}
		if c.Kind == "function" {
			program = "DECLARE fn9 FUNCTION (@a, @b DEFAULT " + c.Sql + ") AS BEGIN RETURN @b; END;\nSHOW FUNCTIONS;"
		} else {
			program = "DECLARE ag9 AGGREGATE (list, @b DEFAULT " + c.Sql + ") AS BEGIN RETURN @b; END;\nSHOW FUNCTIONS;"
		}
	}
	if _, v := checkTotal(program, false, c.Ansi); v != nil {
		return o, v
	}
	output, err, skipped := runShow(program, c.Ansi)
	if skipped != "" {
		o.Classes = append(o.Classes, "result:skipped")
		return o, nil
	}
	if err != nil {
		// the declaration is not accepted in this context (e.g. the grammar of the surrounding statement): nothing is shown
		o.Classes = append(o.Classes, "result:declaration_rejected")
		fw.AddExtra("show_declaration_rejected", 1)
		return o, nil
	}
	wrapped := false
	switch c.Kind {
	case "cursor":
		var n int
		shown, n, ok = shownCursorQuery(output, "c9")
		if !ok {
			return o, fw.Harness("SHOW CURSORS output not understood for %s: %q", clipq(c.Sql), output)
		}
		wrapped = n > 1
	default:
		prefix, suffix := " fn9 (@a, @b = ", ")"
		if c.Kind == "aggregate" {
			prefix = " ag9 (list, @b = "
		}
		ok = false
		for _, ln := range strings.Split(output, "\n") {
			if strings.HasPrefix(ln, prefix) && strings.HasSuffix(ln, suffix) {
				shown, ok = ln[len(prefix):len(ln)-len(suffix)], true
				break
			}
		}
		if !ok {
			return o, fw.Harness("SHOW FUNCTIONS output not understood for %s: %q", clipq(c.Sql), output)
		}
	}
	if shown == s0 {
		o.Classes = append(o.Classes, "shown:equals_string_of_tree")
	} else {
		o.Classes = append(o.Classes, "shown:differs_from_string_of_tree")
		fw.AddExtra("show_text_differs_from_string_of_tree", 1)
	}
	if wrapped {
		o.Classes = append(o.Classes, "shown:wrapped_lines")
	}
	what := "show_" + c.Kind
	var cl string
	if c.Kind == "cursor" {
		o2 := parseOnce(shown, false, c.Ansi)
		switch {
		case o2.panicked:
			return o, fw.V("parse_panic", "%s: parser panicked on the query shown by SHOW CURSORS %s: %s", mode, clipq(shown), o2.panicMsg)
		case o2.err != nil:
			return o, fw.V(what+"_reparse_fails", "%s: cursor declared for %s: the query shown by SHOW CURSORS, %s, does not parse: %v", mode, clipq(c.Sql), clipq(shown), o2.err)
		case len(o2.stmts) != 1:
			return o, fw.V(what+"_reparse_fails", "%s: cursor declared for %s: the query shown by SHOW CURSORS, %s, parses to %d statements", mode, clipq(c.Sql), clipq(shown), len(o2.stmts))
		}
		q2, isSel := o2.stmts[0].(parser.SelectQuery)
		if !isSel {
			return o, fw.V(what+"_reparse_fails", "%s: the query shown by SHOW CURSORS, %s, parses to a %T", mode, clipq(shown), o2.stmts[0])
		}
		s2, okp := printNode(q2)
		if !okp {
			return o, fw.V("string_panic", "%s: String() of the re-parsed shown query %s panicked", mode, clipq(shown))
		}
		if s2 != shown {
			return o, fw.V(what+"_string_differs", "%s: cursor declared for %s: SHOW CURSORS shows %s, which parses to a tree printing %s", mode, clipq(c.Sql), clipq(shown), clipq(s2))
		}
		cl, v = roundTripEval(c.Sql, shown, false, c.Ansi)
	} else {
		if v := checkDerivedExpr(what+"_default", shown, false, c.Ansi); v != nil {
			v.Msg = fmt.Sprintf("%s (declared default %s)", v.Msg, clipq(c.Sql))
			return o, v
		}
		cl, v = roundTripEval("SELECT "+c.Sql, "SELECT "+shown, false, c.Ansi)
	}
	if v != nil {
		v.Sig = what + "_eval_differs"
		v.Msg = "the text shown by SHOW evaluates differently from the declared one: " + v.Msg
		return o, v
	}
	o.Classes = append(o.Classes, cl)
	for _, f := range c.Feats {
		o.Classes = append(o.Classes, "feat:"+f)
	}
	if strings.TrimSpace(c.Sql) != shown {
		o.Fingerprint = fmt.Sprintf("%s|w%v|%s|%s|%v", c.Kind, wrapped, cl, shapeOf(shown, false, c.Ansi), c.Ansi)
	}
	return o, nil
}

func TestC18Show(t *testing.T) {
	fw.Run(t, fw.Spec[showCase]{
		ID: "C18", Name: "show", Quick: 3000, Thorough: 40000,
		Gen: genShowCase, Check: checkShow,
		Rule: "60%: DECLARE c9 CURSOR FOR <query of the round-trip grammar, depth 1-3, optional FOR UPDATE>; SHOW CURSORS - the query is taken from the 'Query:' block of cursor c9 in the captured output and its line wrapping (continuation mark, indentation) undone; 40%: DECLARE fn9 FUNCTION (@a, @b DEFAULT <expression>) / DECLARE ag9 AGGREGATE (list, @b DEFAULT <expression>); SHOW FUNCTIONS - the default is taken from the line of fn9 / ag9. Both quoting modes. Oracle: the shown text parses again (one SELECT / one expression) to a tree that prints the shown text, and evaluates like the declared source text (equal header, rows, variables or error class, in fresh sessions over the fixture tables). non-trivial = the shown text differs from the declared source text; distinct by kind, wrapped or not, evaluation class, first 14 token kinds, escape flag, depth bucket, mode",
		Assumptions: []string{
			"SHOW CURSORS lays the query out in words (one blank between words, lines wrapped with a continuation mark): a query whose printed form has word separators other than single blanks (consecutive blanks, NBSP, U+2028 ... inside a literal or quoted name) cannot be shown faithfully by that layout; such cases are excluded and counted (show_cursor_text_with_other_word_separators_excluded)",
			"whether the shown text equals String() of the declared tree is only counted (class shown:*)",
			"a declaration that csvq rejects is counted (show_declaration_rejected), not judged",
			"evaluation is compared only for confined, deterministic texts by the token rule of the round-trip check",
		},
	})
}
