package c18

// Sub-check "statements": queries and expressions do not only occur as a
// top-level SELECT. The grammar accepts them inside INSERT/UPDATE/DELETE/
// REPLACE, variable statements, cursor and view declarations, function
// declarations, IF/CASE, PRINT/PRINTF, and - as text inside a string literal -
// in PREPARE ... FROM '...' (parsed in prepared-statement mode by csvq itself)
// and EXECUTE '...'. For a program P with such holes, P' is the same program
// with every hole replaced by the text csvq prints for it. P and P' have to
// behave alike: same results, same rows in the temporary table, same variables,
// same printed output, same error class.

import (
	"context"
	"fmt"
	"reflect"
	"sort"
	"strings"
	"testing"
	"time"

	"github.com/mithrandie/csvq/lib/option"
	"github.com/mithrandie/csvq/lib/parser"
	"pgregory.net/rapid"

	"verif/internal/fw"
	"verif/internal/run"
)

type stHole struct {
	Kind string `json:"kind"` // query | expr | quoted_prepared | quoted_plain
	Text string `json:"text"`
	Lit  string `json:"lit,omitempty"` // quoted holes: the string literal that spells Text in the program
}

type stCase struct {
	Kind  string   `json:"kind"`
	Parts []string `json:"parts"` // len(Holes)+1 program fragments
	Holes []stHole `json:"holes"`
	Ansi  bool     `json:"ansi"`
	Feats []string `json:"feats,omitempty"`
}

type stTemplate struct {
	kind string
	text string // holes: {Q} any query, {Q1}/{Q2} query with 1/2 fields, {E} expression, {T} expression over tmp's columns, {P} quoted query (prepared mode), {X} quoted query (plain)
}

var stTemplates = []stTemplate{
	{"insert_select", "INSERT INTO tmp {Q2};"},
	{"insert_select_fields", "INSERT INTO tmp (b, a) {Q2};"},
	{"insert_values", "INSERT INTO tmp VALUES ({E}, {E}), ({E}, 'k');"},
	{"update", "UPDATE tmp SET b = {T} WHERE {T};"},
	{"update_two", "UPDATE tmp SET a = {T}, b = {E};"},
	{"delete", "DELETE FROM tmp WHERE {T};"},
	{"replace", "REPLACE INTO tmp (a, b) USING (a) VALUES ({E}, {E});"},
	{"var", "VAR @x := {E}, @y; @v1 := {E}; SELECT @x, @y;"},
	{"cursor", "DECLARE c3 CURSOR FOR {Q1}; OPEN c3; FETCH c3 INTO @v1; FETCH c3 INTO @v2; SELECT CURSOR c3 COUNT, CURSOR c3 IS IN RANGE; CLOSE c3;"},
	{"cursor_loop", "DECLARE c3 CURSOR FOR {Q1}; OPEN c3; WHILE @v2 IN c3 DO PRINT @v2; END WHILE;"},
	{"view", "DECLARE vw VIEW AS {Q}; SELECT * FROM vw;"},
	{"view_fields", "DECLARE vw VIEW (f1, f2) AS {Q2}; SELECT f2, f1 FROM vw;"},
	{"prepare", "PREPARE st FROM {P}; EXECUTE st USING 7, 'pv' AS p1, 2.5 AS p2, NULL AS p3, 4, 5, 6, 8;"},
	{"prepare_twice", "PREPARE st FROM {P}; EXECUTE st USING 1 AS p1, 2 AS p2, 3 AS p3; EXECUTE st USING 'x' AS p3, NULL AS p1, TRUE AS p2;"},
	{"execute_text", "EXECUTE {X};"},
	{"if", "IF {E} THEN SELECT 'then'; ELSEIF {E} THEN SELECT 'elseif'; ELSE SELECT 'else'; END IF;"},
	{"case", "CASE {E} WHEN {E} THEN SELECT 'first'; WHEN 1 THEN SELECT 'one'; ELSE SELECT 'else'; END CASE;"},
	{"while", "VAR @i := 0; WHILE @i < 2 AND ({E}) IS NOT FALSE DO @i := @i + 1; PRINT @i; END WHILE;"},
	{"function", "DECLARE fn9 FUNCTION (@a, @b DEFAULT {E}) AS BEGIN VAR @v1 := @a, @v2 := @b, @v3; RETURN {E}; END; SELECT fn9(1), fn9(2, 'z');"},
	{"print", "PRINT {E}; PRINTF '%s|%s', {E}, {E};"},
	{"create_as_rollback", "CREATE TABLE `c18new.csv` (n1, n2) AS {Q2}; SELECT n1, n2 FROM c18new; ROLLBACK;"},
	{"set_flag", "SET @@DATETIME_FORMAT TO {E}; SELECT @@DATETIME_FORMAT;"},
	{"update_from_subquery", "UPDATE tmp SET b = 'u' FROM tmp CROSS JOIN ({Q1}) s WHERE tmp.a IS NOT NULL;"},
}

func init() {
	for _, n := range []string{"FN9", "TMP", "VW"} { // names of the templates that are followed by "("
		safeFunctions[n] = true
	}
}

func stFill(tmpl string) (parts []string, kinds []string) {
	rest := tmpl
	for {
		i := strings.IndexByte(rest, '{')
		if i < 0 {
			return append(parts, rest), kinds
		}
		j := strings.IndexByte(rest[i:], '}') + i
		parts = append(parts, rest[:i])
		kinds = append(kinds, rest[i+1:j])
		rest = rest[j+1:]
	}
}

// quoteSource spells text as a string literal in one of the equivalent ways.
func quoteSource(t *rapid.T, text string, ansi bool) string {
	q := '\''
	if !ansi && chance(t, "dq", 30) {
		q = '"'
	}
	var b strings.Builder
	b.WriteRune(q)
	for _, r := range text {
		switch {
		case r == q:
			if chance(t, "qq", 50) {
				b.WriteRune(q)
				b.WriteRune(q)
			} else {
				b.WriteByte('\\')
				b.WriteRune(q)
			}
		case r == '\\':
			b.WriteString(`\\`)
		case r == '\n' && chance(t, "nl", 50):
			b.WriteString(`\n`)
		case r == '\t' && chance(t, "tab", 50):
			b.WriteString(`\t`)
		default:
			b.WriteRune(r)
		}
	}
	b.WriteRune(q)
	return b.String()
}

func genStCase(t *rapid.T) stCase {
	c := stCase{Ansi: chance(t, "ansi", 40)}
	tm := stTemplates[uniform(t, "tmpl", 0, len(stTemplates)-1)]
	c.Kind = tm.kind
	parts, kinds := stFill(tm.text)
	c.Parts = parts
	feats := map[string]bool{}
	tmpCols := []col{{"tmp", "a"}, {"tmp", "b"}}
	for _, k := range kinds {
		g := &qg{t: t, ansi: c.Ansi, prep: k == "P", feats: map[string]bool{}, noTail: true}
		d := g.n("depth", 0, 2)
		var toks []string
		h := stHole{Kind: "query"}
		switch k {
		case "Q":
			toks, _ = g.query(max(d, 1), 0, false, false)
		case "Q1":
			toks, _ = g.query(max(d, 1), 1, false, false)
		case "Q2":
			toks, _ = g.query(max(d, 1), 2, false, false)
		case "E":
			h.Kind = "expr"
			toks = g.expr(d+1, ectx{})
		case "T":
			h.Kind = "expr"
			toks = g.expr(d+1, ectx{cols: tmpCols})
		case "P":
			h.Kind = "quoted_prepared"
			toks, _ = g.query(max(d, 1), 0, false, false)
		case "X":
			h.Kind = "quoted_plain"
			toks, _ = g.query(max(d, 1), 0, false, false)
		}
		h.Text = g.joinToks(toks)
		c.Holes = append(c.Holes, h)
		for f := range g.feats {
			feats[f] = true
		}
	}
	for i, h := range c.Holes {
		if strings.HasPrefix(h.Kind, "quoted_") {
			c.Holes[i].Lit = quoteSource(t, h.Text, c.Ansi)
		}
	}
	for f := range feats {
		c.Feats = append(c.Feats, f)
	}
	sort.Strings(c.Feats)
	return c
}

// programs returns P (source spellings) and P' (printed texts), or why not.
func (c stCase) programs() (src, printed string, skip string, v *fw.Violation) {
	var a, b strings.Builder
	for i, h := range c.Holes {
		part, lit := c.Parts[i], h.Lit
		a.WriteString(part)
		b.WriteString(part)
		prep := h.Kind == "quoted_prepared"
		text := h.Text
		if h.Kind == "expr" {
			text = "SELECT " + h.Text
		}
		o := parseOnce(text, prep, c.Ansi)
		if o.panicked {
			return "", "", "", fw.V("parse_panic", "parser panicked on %s: %s", clipq(text), o.panicMsg)
		}
		if o.err != nil || len(o.stmts) != 1 {
			return "", "", "hole_unparsable", nil
		}
		q, ok := o.stmts[0].(parser.SelectQuery)
		if !ok {
			return "", "", "hole_not_select", nil
		}
		var p string
		if h.Kind == "expr" {
			se, ok := q.SelectEntity.(parser.SelectEntity)
			if !ok || q.OrderByClause != nil || q.LimitClause != nil || se.FromClause != nil || se.WhereClause != nil {
				return "", "", "hole_not_one_expression", nil
			}
			sc, ok := se.SelectClause.(parser.SelectClause)
			if !ok || len(sc.Fields) != 1 || !sc.Distinct.IsEmpty() {
				return "", "", "hole_not_one_expression", nil
			}
			f, ok := sc.Fields[0].(parser.Field)
			if !ok || f.Alias != nil {
				return "", "", "hole_not_one_expression", nil
			}
			if _, isAll := f.Object.(parser.AllColumns); isAll {
				return "", "", "hole_not_one_expression", nil
			}
			p, ok = printNode(f.Object)
			if !ok {
				return "", "", "", fw.V("string_panic", "String() of the parsed expression %s panicked", clipq(h.Text))
			}
		} else {
			p, ok = printNode(q)
			if !ok {
				return "", "", "", fw.V("string_panic", "String() of the parsed query %s panicked", clipq(h.Text))
			}
		}
		switch h.Kind {
		case "quoted_prepared", "quoted_plain":
			a.WriteString(lit)
			b.WriteString(option.QuoteString(p))
		default:
			a.WriteString(h.Text)
			b.WriteString(p)
		}
	}
	a.WriteString(c.Parts[len(c.Parts)-1])
	b.WriteString(c.Parts[len(c.Parts)-1])
	return a.String(), b.String(), "", nil
}

type stRes struct {
	syntax  bool
	errCls  string
	errMsg  string
	views   []run.Tbl
	out     string
	skipped string
}

func (r stRes) String() string {
	if r.skipped != "" {
		return "skipped: " + r.skipped
	}
	var b strings.Builder
	if r.syntax {
		b.WriteString("syntax error: " + r.errMsg + " ")
	} else if r.errCls != "" {
		b.WriteString("error " + r.errCls + " (" + r.errMsg + ") ")
	}
	for _, v := range r.views {
		b.WriteString(clipq(v.String()))
	}
	return b.String() + " printed=" + clipq(r.out)
}

func sameSt(a, b stRes) bool {
	if a.syntax != b.syntax || a.errCls != b.errCls || a.out != b.out || len(a.views) != len(b.views) {
		return false
	}
	for i := range a.views {
		if !reflect.DeepEqual(a.views[i].Header, b.views[i].Header) || !reflect.DeepEqual(a.views[i].Rows, b.views[i].Rows) {
			return false
		}
	}
	return true
}

func execProgram(text string, ansi bool) (res stRes) {
	stmts, _, perr := parser.Parse(text, "", false, ansi)
	if perr != nil {
		return stRes{syntax: true, errMsg: perr.Error()}
	}
	ctx, cancel := context.WithTimeout(context.Background(), 20*time.Second)
	defer cancel()
	s, err := run.NewSess(sessOpt(ctx, text, false, ansi, true))
	if err != nil {
		return stRes{skipped: "session: " + err.Error()}
	}
	defer s.Close()
	defer func() {
		if r := recover(); r != nil {
			res = stRes{errCls: "panic", errMsg: fmt.Sprint(r)} // C19's subject; here both programs only have to behave alike
		}
	}()
	if r := s.Exec(fixtureSetup); r.Err != nil {
		return stRes{skipped: "fixture setup: " + r.Err.Error()}
	}
	s.Tx.Flags.AnsiQuotes = ansi
	s.Out.Reset()
	r := s.ExecStmts(stmts)
	if r.Err != nil {
		res.errCls, res.errMsg = run.ErrClass(r.Err), r.Err.Error()
	}
	res.out = s.Out.String()
	pr := s.Exec("SELECT a, b FROM tmp; SELECT @v1, @v2, @v3 FROM DUAL;")
	if ctx.Err() != nil {
		return stRes{skipped: "time limit"}
	}
	if pr.Err != nil {
		res.errMsg += " / probe: " + pr.Err.Error()
		res.errCls += "+probe:" + run.ErrClass(pr.Err)
	}
	res.views = append(append([]run.Tbl(nil), r.Views...), pr.Views...) // the program's results, then the two probes
	return res
}

func stSafe(text string, ansi bool) bool {
	toks := scanTokens(text, false, ansi)
	if !evalSafe(toks) {
		return false
	}
	for _, tk := range toks {
		// the text of PREPARE/EXECUTE is a program of its own
		if tk.Token == parser.STRING && strings.Contains(strings.ToUpper(tk.Literal), "SELECT") {
			if !evalSafe(scanTokens(tk.Literal, true, ansi)) {
				return false
			}
		}
	}
	return true
}

func checkStatements(c stCase) (fw.Outcome, *fw.Violation) {
	o := fw.Outcome{Classes: []string{"kind:" + c.Kind, fmt.Sprintf("mode:ansi=%v", c.Ansi)}}
	if len(c.Parts) != len(c.Holes)+1 {
		o.Discard = true
		return o, nil
	}
	src, printed, skip, v := c.programs()
	if v != nil {
		return o, v
	}
	if skip != "" {
		fw.AddExtra("statements_"+skip, 1)
		o.Discard = true
		return o, nil
	}
	if _, v := checkTotal(src, false, c.Ansi); v != nil {
		return o, v
	}
	if _, v := checkTotal(printed, false, c.Ansi); v != nil {
		return o, v
	}
	if !stSafe(src, c.Ansi) || !stSafe(printed, c.Ansi) {
		// not confined/deterministic: only "both parse or both do not" can be observed
		a, b := parseOnce(src, false, c.Ansi), parseOnce(printed, false, c.Ansi)
		if (a.err == nil) != (b.err == nil) {
			fw.AddExtra("statements_context_syntax_mismatch", 1)
			o.Classes = append(o.Classes, "result:context_syntax_mismatch")
			return o, nil
		}
		o.Classes = append(o.Classes, "result:not_evaluated")
		return o, nil
	}
	a, b := execProgram(src, c.Ansi), execProgram(printed, c.Ansi)
	if a.skipped != "" || b.skipped != "" {
		o.Classes = append(o.Classes, "result:skipped")
		return o, nil
	}
	if a.syntax != b.syntax {
		// the hole parses on its own; whether the surrounding statement accepts a text is a matter of the grammar's
		// contexts (e.g. a leading parenthesis after INSERT INTO t), which the property does not speak about: counted
		fw.AddExtra("statements_context_syntax_mismatch", 1)
		o.Classes = append(o.Classes, "result:context_syntax_mismatch")
		return o, nil
	}
	if a.syntax {
		o.Classes = append(o.Classes, "result:both_rejected_in_context")
		return o, nil
	}
	if !sameSt(a, b) {
		as, bs := []stRes{a}, []stRes{b}
		overlap := func() bool {
			for _, x := range as {
				for _, y := range bs {
					if sameSt(x, y) {
						return true
					}
				}
			}
			return false
		}
		for i := 0; i < 12; i++ {
			a2, b2 := execProgram(src, c.Ansi), execProgram(printed, c.Ansi)
			if a2.skipped != "" || b2.skipped != "" {
				o.Classes = append(o.Classes, "result:skipped")
				return o, nil
			}
			as, bs = append(as, a2), append(bs, b2)
			if overlap() {
				o.Classes = append(o.Classes, "result:nondeterministic")
				return o, nil
			}
		}
		return o, fw.V("statement_effect_differs:"+c.Kind, "ansi=%v: program %s gives %s but with the printed texts %s gives %s (13 executions of each, no common outcome)", c.Ansi, clipq(src), a, clipq(printed), b)
	}
	cl := "result:ok"
	if a.errCls != "" {
		cl = "result:error"
	}
	o.Classes = append(o.Classes, cl, c.Kind+"/"+cl)
	if a.out != "" {
		o.Classes = append(o.Classes, "printed_output")
	}
	for _, f := range c.Feats {
		o.Classes = append(o.Classes, "feat:"+f)
	}
	if src != printed {
		ti := analyse(scanTokens(src, false, c.Ansi))
		o.Fingerprint = c.Kind + "|" + cl + "|" + ti.kindsHead + fmt.Sprintf("|e%v|d%s|%v", ti.escaped, bucket(ti.depth), c.Ansi)
	}
	return o, nil
}

func TestC18Statements(t *testing.T) {
	fw.Run(t, fw.Spec[stCase]{
		ID: "C18", Name: "statements", Quick: 6000, Thorough: 150000,
		Gen: genStCase, Check: checkStatements,
		Rule: "programs from 23 statement templates whose holes are filled by the round-trip grammar (queries with 0/1/2 fixed fields, expressions with and without the columns of a temporary table): INSERT ... SELECT / VALUES, UPDATE SET/WHERE/FROM, DELETE, REPLACE, VAR / assignment, cursor declaration + FETCH / WHILE IN, view declarations, PREPARE ... FROM '<text>' + EXECUTE USING (csvq parses the text itself in prepared-statement mode; named placeholders), EXECUTE '<text>', IF/ELSEIF, CASE, WHILE, function declaration (default value, RETURN), PRINT/PRINTF, CREATE TABLE AS + ROLLBACK, SET flag. P holds the generated source texts (quoted holes in a random spelling of the string literal), P' the texts String() prints for the parsed holes (quoted holes through QuoteString). Oracle: P and P' both parse or both do not; executed in fresh sessions they give the same result views, rows of the temporary table, variables @v1-@v3, printed output and error class. non-trivial = P differs from P'; distinct by template, outcome, first 14 token kinds, escape flag, depth bucket, mode",
		Assumptions: []string{
			"a hole is evaluated only when its text is confined and deterministic by the same token rule as the round-trip check (also inside the PREPARE/EXECUTE text)",
			"when exactly one of P and P' is rejected by the surrounding statement's grammar the case is counted (statements_context_syntax_mismatch), not reported: the property speaks about the query text, not about every context that embeds it",
			"positional placeholders are not generated (known finding roundtrip_reparse_fails:Placeholder)",
		},
	})
}
