package c18

// Sub-check "literals": the content of a string literal or of a quoted
// identifier is ARBITRARY text (the round-trip generator only joins pieces of
// fixed lists). The literal is spelled with a random choice among the
// equivalent source spellings of every character and put into every position
// where csvq later prints it back with QuoteString / QuoteIdentifier: field,
// argument, pattern, list element, field alias, table alias, column of a
// subquery, CTE name and column list, JSON_OBJECT key, environment variable.

import (
	"fmt"
	"sort"
	"strings"
	"testing"
	"unicode/utf8"

	"github.com/mithrandie/csvq/lib/parser"
	"github.com/mithrandie/csvq/lib/value"
	"pgregory.net/rapid"

	"verif/internal/fw"
)

type litCase struct {
	Sql      string `json:"sql"`
	Content  string `json:"content"` // what the literal denotes by the manual's escape rules
	Pos      string `json:"pos"`
	Quote    string `json:"quote"`
	Prepared bool   `json:"prepared"`
	Ansi     bool   `json:"ansi"`
}

var litSpecial = []rune{'\'', '"', '`', '\\', '\\', '\''}
var litEscLetters = []rune{'a', 'b', 'f', 'n', 'r', 't', 'v', 'q', '0', 'x', 'u'}
var litControls = []rune{'\a', '\b', '\f', '\n', '\r', '\t', '\v', 0, 1, 0x1b, 0x7f, 0x1f}
var litSpaces = []rune{' ', 0xa0, 0x85, 0x2028, 0x2029, 0x3000, 0xfeff, 0x200b}
var litLetters = []rune{'x', 'Z', '7', 'é', '日', '😀', 0x301, 'ß', 'İ', 0xfffd}
var litSymbols = []rune{'%', '_', '-', '/', '*', ';', ':', '?', '@', '$', '{', '}', '(', ')', ',', '.', '#', '=', '!', '|', '<'}

func genLitContent(t *rapid.T) []rune {
	n := uniform(t, "len", 0, 10)
	if n > 0 && chance(t, "longer", 10) {
		n += uniform(t, "len2", 5, 40)
	}
	out := make([]rune, 0, n)
	for i := 0; i < n; i++ {
		switch k := uniform(t, "class", 0, 19); {
		case k < 6:
			out = append(out, pickOf(t, "special", litSpecial))
		case k < 8:
			out = append(out, pickOf(t, "escletter", litEscLetters))
		case k < 11:
			out = append(out, pickOf(t, "control", litControls))
		case k < 13:
			out = append(out, pickOf(t, "space", litSpaces))
		case k < 16:
			out = append(out, pickOf(t, "letter", litLetters))
		case k < 18:
			out = append(out, pickOf(t, "symbol", litSymbols))
		default:
			r := rapid.Rune().Draw(t, "rune")
			if !utf8.ValidRune(r) {
				r = 0xfffd
			}
			out = append(out, r)
		}
	}
	return out
}

var escLetterOf = map[rune]byte{'\a': 'a', '\b': 'b', '\f': 'f', '\n': 'n', '\r': 'r', '\t': 't', '\v': 'v'}

// spellLit writes content between quote characters, choosing for every
// character one of the spellings that denote it (manual: "Escape sequences" of
// strings and identifiers; the quote itself is doubled or backslash-escaped).
// ident: the text is a quoted identifier (\' is not an escape there, \` is);
// otherwise a string (\` is not an escape, \' is).
func spellLit(t *rapid.T, content []rune, quote rune, ident bool) string {
	var b strings.Builder
	b.WriteRune(quote)
	for i, r := range content {
		var next rune = -1
		if i+1 < len(content) {
			next = content[i+1]
		}
		switch {
		case r == quote:
			if uniform(t, "spellq", 0, 1) == 0 {
				b.WriteRune(quote)
				b.WriteRune(quote)
			} else {
				b.WriteByte('\\')
				b.WriteRune(quote)
			}
		case r == '\\':
			// a backslash may stand alone when what follows is no escape letter, quote or backslash
			alone := next >= 0 && next != quote && !strings.ContainsRune("abfnrtv\"'`\\", next) && escLetterOf[next] == 0
			if alone && uniform(t, "spellbs", 0, 2) == 0 {
				b.WriteByte('\\')
			} else {
				b.WriteString(`\\`)
			}
		case escLetterOf[r] != 0:
			if uniform(t, "spellctl", 0, 1) == 0 {
				b.WriteByte('\\')
				b.WriteByte(escLetterOf[r])
			} else {
				b.WriteRune(r)
			}
		case r == '"' || (r == '\'' && !ident) || (r == '`' && ident):
			// the other quote characters: \" is an escape everywhere, \' only in strings, \` only in identifiers
			if uniform(t, "spelloq", 0, 2) == 0 {
				b.WriteByte('\\')
			}
			b.WriteRune(r)
		default:
			b.WriteRune(r)
		}
	}
	b.WriteRune(quote)
	return b.String()
}

type litPos struct {
	name  string
	ident bool
	tmpl  string // %[1]s first spelling, %[2]s a second, independently chosen spelling of the same content
}

var litPositions = []litPos{
	{"string_field", false, "SELECT %[1]s"},
	{"string_field_alias_len", false, "SELECT %[1]s AS k1, LEN(%[2]s) AS k2, %[2]s || 'x' AS k3"},
	{"string_function_arg", false, "SELECT UPPER(%[1]s), COALESCE(NULL, %[2]s)"},
	{"string_like_pattern", false, "SELECT c2, c2 LIKE %[1]s FROM t1"},
	{"string_in_list", false, "SELECT c2 FROM t1 WHERE c2 IN (%[1]s, 'a') OR %[2]s = c2"},
	{"string_case", false, "SELECT CASE %[1]s WHEN %[2]s THEN 'same' ELSE %[1]s END"},
	{"string_json_value", false, "SELECT JSON_OBJECT(%[1]s AS k)"},
	{"ident_field_alias", true, "SELECT 1 AS %[1]s, c1 AS %[2]s FROM t1 LIMIT 1"},
	{"ident_table_alias", true, "SELECT %[1]s.c1, %[2]s.* FROM t1 AS %[2]s LIMIT 2"},
	{"ident_subquery_column", true, "SELECT %[1]s, s.%[2]s FROM (SELECT c2 AS %[2]s FROM t1) s"},
	{"ident_cte", true, "WITH %[1]s (%[2]s) AS (SELECT 2) SELECT %[2]s.%[1]s, %[1]s FROM %[1]s"},
	{"ident_json_object_key", true, "SELECT JSON_OBJECT(c1 AS %[1]s, c2 AS k) FROM t1"},
	{"ident_env_var", true, "SELECT @%%%[1]s, @%%%[2]s IS NULL"},
	{"ident_order_group", true, "SELECT c2 AS %[1]s, COUNT(*) FROM t1 GROUP BY c2 ORDER BY %[2]s"},
	{"ident_cursor", true, "SELECT CURSOR %[1]s IS OPEN"},
}

func genLitCase(t *rapid.T) litCase {
	c := litCase{Prepared: chance(t, "prepared", 25), Ansi: chance(t, "ansi", 45)}
	p := litPositions[uniform(t, "pos", 0, len(litPositions)-1)]
	content := genLitContent(t)
	quote := '\''
	switch {
	case p.ident && p.name == "ident_env_var":
		quote = '`' // @%"x" is not part of the grammar
	case p.ident:
		quote = '`'
		if c.Ansi && chance(t, "dqident", 50) {
			quote = '"'
		}
	case !c.Ansi && chance(t, "dqstring", 35):
		quote = '"'
	}
	c.Pos, c.Quote, c.Content = p.name, string(quote), string(content)
	c.Sql = fmt.Sprintf(p.tmpl, spellLit(t, content, quote, p.ident), spellLit(t, content, quote, p.ident))
	return c
}

// literalValues lists, in tree order, the values of all string literals and the
// names of all quoted identifiers / quoted environment variables below a node.
func literalValues(x interface{}) (strs, idents []string) {
	walk(x, func(typ string, n interface{}) bool {
		switch e := n.(type) {
		case parser.PrimitiveType:
			if s, ok := e.Value.(*value.String); ok {
				strs = append(strs, s.Raw())
			}
		case parser.Identifier:
			// an empty qualifier (``.c1) is the same reference as no qualifier and is not printed: not a name that can get lost
			if e.Quoted && e.Literal != "" {
				idents = append(idents, e.Literal)
			}
		case parser.EnvironmentVariable:
			if e.Quoted {
				idents = append(idents, e.Name)
			}
		}
		return false
	})
	return strs, idents
}

func contentClasses(s string) []string {
	set := map[string]bool{}
	for _, r := range s {
		switch {
		case r == '\'':
			set["sq"] = true
		case r == '"':
			set["dq"] = true
		case r == '`':
			set["bq"] = true
		case r == '\\':
			set["backslash"] = true
		case escLetterOf[r] != 0:
			set["escapable_control"] = true
		case r < 0x20 || r == 0x7f:
			set["other_control"] = true
		case r > 0x7f:
			set["non_ascii"] = true
		}
	}
	if s == "" {
		set["empty"] = true
	}
	out := make([]string, 0, len(set))
	for k := range set {
		out = append(out, k)
	}
	sort.Strings(out)
	return out
}

func checkLiteral(c litCase) (fw.Outcome, *fw.Violation) {
	quoteName := map[string]string{"'": "single", "\"": "double", "`": "back"}[c.Quote]
	o := fw.Outcome{Classes: []string{"pos:" + c.Pos, "quote:" + quoteName, fmt.Sprintf("mode:prepared=%v,ansi=%v", c.Prepared, c.Ansi)}}
	out, v := checkTotal(c.Sql, c.Prepared, c.Ansi)
	if v != nil {
		return o, v
	}
	if out.err != nil || len(out.stmts) != 1 {
		// the speller follows the manual; a literal csvq does not accept is outside "every query that parses"
		fw.AddExtra("literals_generated_unparsable", 1)
		o.Discard = true
		return o, nil
	}
	q, ok := out.stmts[0].(parser.SelectQuery)
	if !ok {
		o.Discard = true
		return o, nil
	}
	strs1, ids1 := literalValues(q)
	// does the scanner read the spelling the way the manual (and this generator) means it? Not part of C18: only counted.
	want, found := c.Content, c.Content == "" // empty names are not listed
	for _, s := range append(append([]string(nil), strs1...), ids1...) {
		if s == want {
			found = true
		}
	}
	if found {
		o.Classes = append(o.Classes, "scanner_value:as_spelled")
	} else {
		o.Classes = append(o.Classes, "scanner_value:differs_from_model")
		fw.AddExtra("literals_scanner_value_differs_from_model", 1)
	}
	s1, v := roundTripPrint(q, c.Prepared, c.Ansi)
	if v != nil {
		v.Sig = "literal_" + v.Sig
		return o, v
	}
	o2 := parseOnce(s1, c.Prepared, c.Ansi)
	if o2.panicked || o2.err != nil || len(o2.stmts) != 1 {
		return o, fw.V("literal_roundtrip_reparse_unstable", "printed query %s parsed once but not twice", clipq(s1))
	}
	strs2, ids2 := literalValues(o2.stmts[0])
	if fmt.Sprintf("%q", strs1) != fmt.Sprintf("%q", strs2) {
		return o, fw.V("literal_value_changes:string", "prepared=%v ansi=%v: %s holds the string values %q; its printed form %s holds %q", c.Prepared, c.Ansi, clipq(c.Sql), strs1, clipq(s1), strs2)
	}
	if fmt.Sprintf("%q", ids1) != fmt.Sprintf("%q", ids2) {
		return o, fw.V("literal_value_changes:identifier", "prepared=%v ansi=%v: %s holds the quoted names %q; its printed form %s holds %q", c.Prepared, c.Ansi, clipq(c.Sql), ids1, clipq(s1), ids2)
	}
	cl, v := roundTripEval(c.Sql, s1, c.Prepared, c.Ansi)
	if v != nil {
		v.Sig = "literal_" + v.Sig
		return o, v
	}
	o.Classes = append(o.Classes, cl)
	cc := contentClasses(c.Content)
	for _, k := range cc {
		o.Classes = append(o.Classes, "content:"+k)
	}
	if len(cc) > 0 {
		o.Fingerprint = c.Pos + "|" + quoteName + "|" + strings.Join(cc, ",") + "|" + cl + fmt.Sprintf("|%v%v", c.Prepared, c.Ansi)
	}
	return o, nil
}

func TestC18Literals(t *testing.T) {
	fw.Run(t, fw.Spec[litCase]{
		ID: "C18", Name: "literals", Quick: 8000, Thorough: 200000,
		Gen: genLitCase, Check: checkLiteral,
		Rule: "a string literal or quoted identifier whose CONTENT is arbitrary text (0-50 characters drawn from: the three quote characters, backslash, the letters of escape sequences, the seven escapable control characters, other control characters incl. NUL/ESC/DEL, Unicode spaces and line separators, BOM, combining and astral characters, SQL punctuation, any rune), spelled with an independent random choice among the equivalent source spellings of every character (doubled or backslashed quote, escape sequence or raw control character, lone or doubled backslash, optional backslash before the other quote characters), in both quote styles of either kind, placed in 15 positions (field, alias, function argument, LIKE pattern, IN list, CASE, JSON_OBJECT value/key, table alias, subquery column, CTE name and column list, GROUP/ORDER BY, environment variable, cursor name). Oracle: s1=String() parses to one SELECT printing s1; the string values and quoted names held by the re-parsed tree equal those of the first tree; the source text and s1 evaluate to equal headers, values and variables or the same error class. non-trivial = the content has a character the printer must escape or a non-ASCII/control character or is empty; distinct by position, quote style, set of content classes, evaluation class, mode",
		Assumptions: []string{
			"whether csvq's scanner reads a spelling the way the manual describes it is not part of C18: a disagreement is only counted (class scanner_value:differs_from_model); a spelling csvq does not accept is discarded and counted (literals_generated_unparsable)",
			"the content is valid UTF-8 (the replay file stores it as a JSON string); invalid bytes are covered by the totality check",
		},
	})
}
