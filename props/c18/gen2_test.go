package c18

import "strings"

// keywordIdents: keyword tokens that the grammar's identifier rule accepts as
// plain identifiers (lib/parser/parser.y, rule "identifier").
var keywordIdents = map[string]bool{"TIES": true, "NULLS": true, "ROWS": true, "CSV": true, "JSON": true, "JSONL": true, "FIXED": true, "LTSV": true}

// fixture files of the table formats other than CSV (written next to t1.csv)
var formatFixtureFiles = map[string]string{
	"t3.ltsv":  "k1:1\tk2:x\nk1:2\tk2:\n",
	"t4.jsonl": "{\"k1\":1,\"k2\":\"x\"}\n{\"k1\":2,\"k2\":null}\n",
	"t5.txt":   "k1 k2 \n1  x  \n2     \n",
	"t6.json":  "[{\"k1\":1,\"k2\":\"x\"},{\"k1\":2,\"k2\":null}]",
	"t7.tsv":   "k1\tk2\n1\tx\n2\t\n",
}

type fmtSpec struct {
	kw    string   // format keyword
	file  string   // fixture file
	ref   string   // reference name csvq derives from the file name
	elems []string // spellings of the format element (delimiter, positions, JSON query); nil: the format has none (LTSV)
	cols  []string
	data  string // literal content usable with DATA::( ) ("" = none)
}

var fileFormats = []fmtSpec{
	{"CSV", "t1.csv", "t1", []string{"','", "\",\"", "TRIM(' , ')"}, []string{"c1", "c2", "c3"}, `'c1,c2,c3\n1,a,10\n2,b,\n'`},
	{"CSV", "t7.tsv", "t7", []string{`'\t'`, "'\t'"}, []string{"k1", "k2"}, `'k1\tk2\n1\tx\n'`},
	{"FIXED", "t5.txt", "t5", []string{"'[3,6]'", "'SPACES'", "'spaces'", "'[3, 6]'"}, []string{"k1", "k2"}, `'k1 k2 \n1  x  \n'`},
	{"LTSV", "t3.ltsv", "t3", nil, []string{"k1", "k2"}, `'k1:1\tk2:x\n'`},
	{"JSON", "t6.json", "t6", []string{"''", "'[]'"}, []string{"k1", "k2"}, `'[{"k1":1,"k2":"x"}]'`},
	{"JSONL", "t4.jsonl", "t4", []string{"''", "'{}'"}, []string{"k1", "k2"}, `'{"k1":1,"k2":"x"}\n{"k1":3,"k2":null}'`},
}

var inlineFormats = []fmtSpec{
	{"CSV_INLINE", "t1.csv", "", []string{"','"}, []string{"k1", "k2"}, `'k1,k2\n1,"a b"\n2,'`},
	{"JSON_INLINE", "t6.json", "", []string{"''", "'[]'"}, []string{"k1", "k2"}, `'[{"k1":1,"k2":"x"},{"k1":2,"k2":null}]'`},
	{"JSON_TABLE", "t6.json", "", []string{"''"}, []string{"k1", "k2"}, `'[{"k1":5,"k2":"y"}]'`},
}

// formatArgs renders the optional trailing arguments (encoding, no_header,
// without_null). noHeader reports that the header line becomes data (columns
// are then named c1..cn).
func (g *qg) formatArgs(f fmtSpec) (toks []string, noHeader bool) {
	n := g.n("fsfargs", 0, 3)
	if (f.kw == "JSON" || f.kw == "JSONL") && g.n("fsfjsonargs", 0, 9) != 0 {
		n = 0 // JSON and JSONL take exactly two arguments: further ones are an evaluation error (kept rare)
	}
	if n == 0 {
		return nil, false
	}
	g.feat("table_object_args")
	enc := g.pick("fsfenc", []string{"'UTF8'", "'utf8'", "UTF8", "'AUTO'", "auto", "`UTF8`", "'SJIS'", "'nope'"})
	toks = append(toks, ",", enc)
	if f.kw == "LTSV" {
		if n >= 2 {
			toks = append(toks, ",")
			toks = append(toks, g.kw(g.pick("fsfwn", []string{"TRUE", "FALSE"}))...)
		}
		return toks, false
	}
	if n >= 2 {
		nh := g.pick("fsfnh", []string{"FALSE", "FALSE", "TRUE", "NULL", "1"})
		noHeader = nh == "TRUE" || nh == "1"
		toks = append(toks, ",")
		toks = append(toks, g.kw(nh)...)
	}
	if n >= 3 {
		toks = append(toks, ",")
		toks = append(toks, g.kw(g.pick("fsfwn2", []string{"TRUE", "FALSE"}))...)
	}
	return toks, noHeader
}

// tableObject renders one format_specified_function or
// inline_format_specified_function of the grammar in every alternative:
// FMT(path), FMT(path, args), FMT(elem, path), FMT(elem, path, args) with the
// path an identifier, a table function (FILE::, INLINE::, DATA::, URL::), STDIN;
// IFMT(elem, identifier [, args]) and IFMT(elem, data [, args]).
// It returns the reference name (""= none: an alias is required) and the columns.
func (g *qg) tableObject() (toks []string, ref string, cols []string, forceAlias bool) {
	lower := func(kw string) string {
		switch g.n("fsfcase", 0, 3) {
		case 0:
			return strings.ToLower(kw)
		case 1:
			return strings.ToUpper(kw[:1]) + strings.ToLower(kw[1:])
		}
		return kw
	}
	if g.n("fsfinline", 0, 3) == 0 {
		f := inlineFormats[g.n("ifmt", 0, len(inlineFormats)-1)]
		g.feat("table_format:" + f.kw)
		elem := g.elemSpelling(g.pick("ifmtelem", f.elems))
		var path string
		args := []string(nil)
		cols = f.cols
		if g.n("ifmtpath", 0, 2) == 0 {
			// inline_table_format '(' substantial_value ',' identifier [',' arguments] ')': the identifier names a file
			g.feat("fsf_form:inline_identifier")
			path = g.ident(f.file)
			if f.kw == "CSV_INLINE" {
				cols = []string{"c1", "c2", "c3"}
			}
			var nh bool
			args, nh = g.formatArgs(f)
			if nh {
				cols = []string{"c1"}
			}
		} else {
			g.feat("fsf_form:inline_data")
			path = f.data
			if g.n("ifmtdataargs", 0, 4) == 0 {
				args, _ = g.formatArgs(f)
				cols = cols[:1]
			}
		}
		return cat(one(lower(f.kw)), g.paren(cat(one(elem), one(","), one(path), args))), "", cols, true
	}
	f := fileFormats[g.n("ffmt", 0, len(fileFormats)-1)]
	g.feat("table_format:" + f.kw)
	ref, cols = f.ref, f.cols
	var path []string
	switch k := g.n("fsfpath", 0, 11); {
	case k <= 5:
		g.feat("fsf_path:identifier")
		spell := f.file
		if strings.HasSuffix(f.file, ".csv") && g.n("fsfnoext", 0, 1) == 0 {
			spell = f.ref
		}
		path = one(g.ident(spell))
	case k <= 7:
		g.feat("fsf_path:file_function")
		path = cat(one(g.pick("fsffile", []string{"FILE::", "file::", "INLINE::", "Inline::"})), g.paren(one("'"+f.file+"'")))
	case k <= 9 && f.data != "":
		g.feat("fsf_path:data_function")
		path = cat(one(g.pick("fsfdata", []string{"DATA::", "data::"})), g.paren(one(f.data)))
		ref, forceAlias = "", true
		if f.kw == "CSV" && f.file == "t1.csv" {
			cols = []string{"c1", "c2", "c3"}
		}
	case k == 10:
		g.feat("fsf_path:stdin")
		path = g.kw("STDIN")
		ref, cols = "STDIN", []string{"c1"}
	default:
		g.feat("fsf_path:url_function")
		path = cat(one("URL::"), g.paren(one("'http://localhost:1/"+f.file+"'")))
		ref, forceAlias = "", true
	}
	args, noHeader := g.formatArgs(f)
	if noHeader {
		cols = []string{"c1", "c2"}
	}
	withElem := f.elems != nil
	if g.n("fsfelemflip", 0, 9) == 0 {
		withElem = !withElem // LTSV with a format element / CSV without one: other grammar alternative, evaluation decides
	}
	var inner []string
	if withElem {
		g.feat("fsf_form:element_path")
		elem := "','"
		if f.elems != nil {
			elem = g.elemSpelling(g.pick("fsfelem", f.elems))
		}
		inner = cat(one(elem), one(","), path, args)
	} else {
		g.feat("fsf_form:path_only")
		inner = cat(path, args)
	}
	return cat(one(lower(f.kw)), g.paren(inner)), ref, cols, forceAlias
}

// elemSpelling: a double-quoted string is an identifier when ansi_quotes is on.
func (g *qg) elemSpelling(s string) string {
	if g.ansi && strings.HasPrefix(s, "\"") {
		return "','"
	}
	return s
}
