package c02

import (
	"fmt"
	"os"
	"path/filepath"
	"strings"
	"testing"

	"github.com/mithrandie/csvq/lib/option"
	"pgregory.net/rapid"

	"verif/internal/fw"
	"verif/internal/run"
	"verif/internal/val"
)

// ---------------------------------------------------------------------
// E. multi_table_commit_retry: one session, several uncommitted tables
// (created and updated, several formats); a COMMIT is refused at one of them
// after others were already written; the written ones then shrink or grow, the
// refused one is repaired (or the transaction is rolled back), COMMIT again.

type mtTable struct {
	Ext     string `json:"ext"`     // csv tsv ltsv json jsonl
	Created bool   `json:"created"` // CREATE TABLE in the session (else a harness-written file)
	NRows   int    `json:"nrows"`
	Pad     int    `json:"pad"`
}

type mtStep struct {
	Kind string `json:"kind"`          // touch | poison | set | delete_gt | delete_id | insert | commit | rollback
	T    int    `json:"t"`             // table index
	ID   int    `json:"id,omitempty"`  // row id (insert: first new id)
	N    int    `json:"n,omitempty"`   // delete_gt: keep ids <= N; insert: number of rows
	Val  string `json:"val,omitempty"` // poison/set/touch: the new text of column v
}

type mtCase struct {
	LB     string    `json:"lb"`
	Tables []mtTable `json:"tables"`
	Steps  []mtStep  `json:"steps"`
}

var mtExts = []string{"csv", "tsv", "ltsv", "json", "jsonl"}

func (t mtTable) name(i int) string {
	if t.Created {
		return fmt.Sprintf("n%d.%s", i+1, t.Ext)
	}
	return fmt.Sprintf("t%d.%s", i+1, t.Ext)
}

func (t mtTable) dialect(lb string) rtCase {
	return rtCase{Format: strings.ToUpper(t.Ext), Delim: ",", Enc: "UTF8", LB: lb, Header: []string{"id", "v", "w"}}
}

func mtRow(id, pad int) []cell {
	return []cell{{S: fmt.Sprint(id)}, {S: carFill(id, 1, pad)}, {S: carFill(id, 2, pad)}}
}

func (c mtCase) malformed() bool {
	if !in(c.LB, []string{"LF", "CRLF"}) || len(c.Tables) < 2 || len(c.Tables) > 5 || len(c.Steps) > 80 {
		return true
	}
	for _, t := range c.Tables {
		if !in(t.Ext, mtExts) || t.NRows < 1 || t.NRows > 3000 || t.Pad < 0 || t.Pad > 200 {
			return true
		}
	}
	for _, st := range c.Steps {
		if !in(st.Kind, []string{"touch", "poison", "set", "delete_gt", "delete_id", "insert", "commit", "rollback"}) || st.T < 0 || st.T >= len(c.Tables) || st.N < 0 || st.N > 100000 {
			return true
		}
		ext := c.Tables[st.T].Ext
		if ext == "ltsv" && strings.Contains(st.Val, ":") { // known shape ltsv_colon_in_value_dropped
			return true
		}
		if (ext == "json" || ext == "jsonl") && strings.HasSuffix(st.Val, `\`) { // json_trailing_backslash_unloadable
			return true
		}
	}
	return false
}

func genMultiCommit(t *rapid.T) mtCase {
	c := mtCase{LB: fw.PickU(t, "lb", []string{"LF", "CRLF"})}
	n := fw.Range(t, "ntables", 2, 4)
	hasLTSV := false
	for i := 0; i < n; i++ {
		tb := mtTable{Ext: mtExts[fw.Weighted(t, "ext", []int{25, 10, 35, 15, 15})], Created: fw.Pct(t, "created", 45), Pad: fw.Range(t, "pad", 5, 50)}
		switch fw.Weighted(t, "size", []int{55, 38, 7}) {
		case 0:
			tb.NRows = fw.Range(t, "nrows", 3, 30)
		case 1:
			tb.NRows = 5000/(2*(tb.Pad+8)) + fw.Range(t, "nrows", 5, 40)
		default:
			tb.NRows = 70000/(2*(tb.Pad+8)) + fw.Range(t, "nrows", 5, 40)
		}
		if tb.Created && tb.NRows > 400 {
			tb.NRows = 400 // rows of a created table come from one INSERT statement
		}
		if tb.Ext == "ltsv" {
			hasLTSV = true
		}
		c.Tables = append(c.Tables, tb)
	}
	if !hasLTSV {
		c.Tables[fw.Uniform(t, "forceltsv", n)].Ext = "ltsv"
	}
	var ltsv []int
	for i, tb := range c.Tables {
		if tb.Ext == "ltsv" {
			ltsv = append(ltsv, i)
		}
	}
	maxID := make([]int, n)
	nextID := make([]int, n)
	for i, tb := range c.Tables {
		maxID[i], nextID[i] = tb.NRows, tb.NRows+1
	}
	goodVals := []string{"ok", "fixed value", "x,y;z|", `q"uote`, "日本語", "-", "a longer repaired value 0123456789 0123456789"}
	rounds := fw.Range(t, "rounds", 1, 2)
	for r := 0; r < rounds; r++ {
		// every table gets an uncommitted change
		for i := range c.Tables {
			if r == 0 && c.Tables[i].Created {
				continue // CREATE + INSERT is its change
			}
			if fw.Pct(t, "touch", 85) {
				c.Steps = append(c.Steps, mtStep{Kind: "touch", T: i, ID: fw.Range(t, "tid", 1, max(1, maxID[i])), Val: fw.PickU(t, "tval", goodVals)})
			}
		}
		poisonT, poisonID := -1, 0
		if fw.Pct(t, "poison", 85) {
			poisonT = fw.PickU(t, "ptable", ltsv)
			poisonID = fw.Range(t, "pid", max(1, maxID[poisonT]-3), max(1, maxID[poisonT]))
			c.Steps = append(c.Steps, mtStep{Kind: "poison", T: poisonT, ID: poisonID, Val: "p" + fw.PickU(t, "badtok", []string{"\t", "\n", "\r\n"}) + "q"})
			c.Steps = append(c.Steps, mtStep{Kind: "commit"})
		}
		// the other tables shrink or grow after the refused attempt
		for i := range c.Tables {
			if i == poisonT && !fw.Pct(t, "alsopoisoned", 30) {
				continue
			}
			switch fw.Weighted(t, "resize", []int{55, 20, 15, 10}) {
			case 0:
				keep := fw.Range(t, "keep", 1, max(1, maxID[i]/3))
				c.Steps = append(c.Steps, mtStep{Kind: "delete_gt", T: i, N: keep})
				if keep < maxID[i] {
					maxID[i] = keep
				}
			case 1:
				k := fw.Range(t, "grown", 1, 25)
				c.Steps = append(c.Steps, mtStep{Kind: "insert", T: i, ID: nextID[i], N: k})
				maxID[i] = nextID[i] + k - 1
				nextID[i] += k
			case 2:
				c.Steps = append(c.Steps, mtStep{Kind: "set", T: i, ID: fw.Range(t, "sid", 1, max(1, maxID[i])), Val: fw.PickU(t, "sval", []string{"", "s", "x"})})
			}
		}
		if poisonT >= 0 {
			switch fw.Weighted(t, "repair", []int{45, 20, 15, 20}) {
			case 0:
				c.Steps = append(c.Steps, mtStep{Kind: "set", T: poisonT, ID: poisonID, Val: fw.PickU(t, "rval", goodVals)})
			case 1:
				c.Steps = append(c.Steps, mtStep{Kind: "delete_id", T: poisonT, ID: poisonID})
			case 2: // a second refusal, then the repair
				c.Steps = append(c.Steps, mtStep{Kind: "commit"})
				c.Steps = append(c.Steps, mtStep{Kind: "set", T: poisonT, ID: poisonID, Val: "ok"})
			default:
				c.Steps = append(c.Steps, mtStep{Kind: "rollback"})
			}
		}
		c.Steps = append(c.Steps, mtStep{Kind: "commit"})
	}
	return c
}

func tableBytes(rows [][]cell) int {
	n := 0
	for _, r := range rows {
		for _, x := range r {
			n += len(x.S) + 2
		}
	}
	return n
}

func checkMultiCommit(c mtCase) (fw.Outcome, *fw.Violation) {
	if c.malformed() {
		return fw.Outcome{Discard: true}, nil
	}
	nc, nu := 0, 0
	for _, tb := range c.Tables {
		if tb.Created {
			nc++
		} else {
			nu++
		}
	}
	o := fw.Outcome{Classes: []string{fmt.Sprintf("tables:%dcreated+%dupdated", min(nc, 3), min(nu, 3))}}
	dir := caseDir("mt")
	defer os.RemoveAll(dir)
	nt := len(c.Tables)
	names := make([]string, nt)
	paths := make([]string, nt)
	exists := make([]bool, nt)      // the session can name the table
	onDisk := make([]bool, nt)      // a committed file is expected at the path
	pending := make([]bool, nt)     // created in the open transaction
	committed := make([][]byte, nt) // bytes of the last committed state
	for i, tb := range c.Tables {
		names[i] = tb.name(i)
		paths[i] = filepath.Join(dir, names[i])
		if tb.Created {
			continue
		}
		d := tb.dialect(c.LB)
		for id := 1; id <= tb.NRows; id++ {
			d.Rows = append(d.Rows, mtRow(id, tb.Pad))
		}
		b, err := harnessFile(d, true)
		if err != nil {
			return o, fw.Harness("%v", err)
		}
		if err := os.WriteFile(paths[i], b, 0644); err != nil {
			return o, fw.Harness("%v", err)
		}
		exists[i], onDisk[i], committed[i] = true, true, b
	}
	s, err := run.NewSess(run.Opt{Dir: dir})
	if err != nil {
		return o, fw.Harness("%v", err)
	}
	defer s.Close()
	if err := setFlags(s, option.LineBreakFlag, c.LB, option.ExportEncodingFlag, "UTF8"); err != nil {
		return o, fw.Harness("%v", err)
	}
	var trace []string
	exec := func(sql string) run.Res {
		trace = append(trace, clip(sql))
		return s.Exec(sql)
	}
	what := fmt.Sprintf("%d tables %v, line break %s", nt, names, c.LB)
	steps := func() string { return strings.Join(trace, " ") }
	insertSQL := func(i, first, n int) string {
		var rows []string
		for k := 0; k < n; k++ {
			var vs []string
			for _, x := range mtRow(first+k, c.Tables[i].Pad) {
				vs = append(vs, val.QuoteSQL(x.S))
			}
			rows = append(rows, "("+strings.Join(vs, ", ")+")")
		}
		return fmt.Sprintf("INSERT INTO %s VALUES %s;", val.QuoteIdent(names[i]), strings.Join(rows, ", "))
	}
	mustExec := func(k int, sql string) *fw.Violation {
		r := exec(sql)
		if r.ParseErr {
			return fw.Harness("generated statement does not parse: %s: %v", clip(sql), r.Err)
		}
		if r.Err != nil {
			return fw.V("multi_commit_statement_failed", "%s: step %d %s fails: %v\nsteps: %s", what, k+1, clip(sql), r.Err, steps())
		}
		return nil
	}
	// created tables
	for i, tb := range c.Tables {
		if !tb.Created {
			continue
		}
		if v := mustExec(-1, fmt.Sprintf("CREATE TABLE %s (id, v, w);", val.QuoteIdent(names[i]))); v != nil {
			return o, v
		}
		if v := mustExec(-1, insertSQL(i, 1, tb.NRows)); v != nil {
			return o, v
		}
		exists[i], pending[i] = true, true
	}
	// what the last refused COMMIT may have written already, and how large each table was then
	var sizeAtRefusal []int
	var writtenAtRefusal []bool
	refusals, successes, rollbacks := 0, 0, 0
	shrunkAfterPartial, grownAfterPartial := false, false
	refusedKinds := map[string]bool{}
	for k, st := range c.Steps {
		i := st.T
		tbl := val.QuoteIdent(names[i])
		var sql string
		switch st.Kind {
		case "touch", "poison", "set":
			sql = fmt.Sprintf("UPDATE %s SET v = %s WHERE id = %d;", tbl, val.QuoteSQL(st.Val), st.ID)
		case "delete_gt":
			sql = fmt.Sprintf("DELETE FROM %s WHERE id > %d;", tbl, st.N)
		case "delete_id":
			sql = fmt.Sprintf("DELETE FROM %s WHERE id = %d;", tbl, st.ID)
		case "insert":
			if st.N == 0 {
				continue
			}
			sql = insertSQL(i, st.ID, st.N)
		}
		if sql != "" {
			if !exists[i] {
				continue // the table went away with a ROLLBACK
			}
			if v := mustExec(k, sql); v != nil {
				return o, v
			}
			continue
		}
		if st.Kind == "rollback" {
			before := make([][]byte, nt)
			for j := range before {
				before[j], _ = os.ReadFile(paths[j])
			}
			if v := mustExec(k, "ROLLBACK;"); v != nil {
				return o, v
			}
			rollbacks++
			for j := range c.Tables {
				b, rerr := os.ReadFile(paths[j])
				if pending[j] {
					if rerr == nil {
						return o, fw.V("rollback_left_created_file", "%s: step %d: after ROLLBACK the created table %s still exists (%d bytes)\nsteps: %s", what, k+1, names[j], len(b), steps())
					}
					exists[j], pending[j] = false, false
				} else if onDisk[j] && (rerr != nil || string(b) != string(committed[j])) {
					return o, fw.V("rollback_changed_file", "%s: step %d: after ROLLBACK %s is not what was last committed (%d -> %d bytes)\nsteps: %s", what, k+1, names[j], len(committed[j]), len(b), steps())
				}
			}
			if left := run.ControlFiles(dir); len(left) > 0 {
				return o, fw.V("rollback_litter", "%s: step %d: after ROLLBACK %v remain\nsteps: %s", what, k+1, left, steps())
			}
			sizeAtRefusal, writtenAtRefusal = nil, nil
			continue
		}
		// COMMIT: the session's tables first
		cur := make([]rtCase, nt)
		anyNo := false
		for j, tb := range c.Tables {
			if !exists[j] {
				continue
			}
			r := exec("SELECT * FROM " + val.QuoteIdent(names[j]) + ";")
			if r.Err != nil || len(r.Views) == 0 {
				return o, fw.V("multi_commit_statement_failed", "%s: step %d: SELECT * FROM %s fails: %v\nsteps: %s", what, k+1, names[j], r.Err, steps())
			}
			cur[j] = tb.dialect(c.LB)
			cur[j].Rows = tblToRows(r.Views[len(r.Views)-1])
			for _, row := range cur[j].Rows {
				if len(row) != 3 {
					return o, fw.V("multi_commit_shape", "%s: step %d: %s shows a record with %d fields", what, k+1, names[j], len(row))
				}
			}
			if sp, _ := cur[j].spellable(); sp != spellYes {
				anyNo = true // unspellable, or open (an LTSV table without records has no spelling)
			}
		}
		cr := exec("COMMIT;")
		if cr.Err != nil {
			refusals++
			if !anyNo {
				return o, fw.V("refused_spellable_commit_multi", "%s: step %d: every table is spellable but COMMIT is refused: %v\nsteps: %s", what, k+1, cr.Err, steps())
			}
			sizeAtRefusal = make([]int, nt)
			writtenAtRefusal = make([]bool, nt)
			for j, tb := range c.Tables {
				if !exists[j] {
					continue
				}
				b, rerr := os.ReadFile(paths[j])
				if !pending[j] {
					if rerr != nil || string(b) != string(committed[j]) {
						return o, fw.V("refused_commit_changed_file", "%s: step %d: COMMIT refused (%v) but %s changed (%d -> %d bytes)\nsteps: %s", what, k+1, cr.Err, names[j], len(committed[j]), len(b), steps())
					}
					if fi, e := os.Stat(filepath.Join(dir, "."+names[j]+".temp")); e == nil && fi.Size() > 0 {
						writtenAtRefusal[j] = true
					}
				} else if rerr == nil && len(b) > 0 {
					writtenAtRefusal[j] = true
				}
				sizeAtRefusal[j] = tableBytes(cur[j].Rows)
				if sp, _ := cur[j].spellable(); sp == spellNo {
					if tb.Created && pending[j] {
						refusedKinds["refused_at:created"] = true
					} else {
						refusedKinds["refused_at:updated"] = true
					}
				}
			}
			continue
		}
		successes++
		for j := range c.Tables {
			if !exists[j] {
				continue
			}
			b, rerr := os.ReadFile(paths[j])
			if rerr != nil {
				return o, fw.V("commit_file_missing", "%s: step %d: COMMIT succeeded but %s does not exist: %v\nsteps: %s", what, k+1, names[j], rerr, steps())
			}
			if writtenAtRefusal != nil && writtenAtRefusal[j] {
				if sz := tableBytes(cur[j].Rows); sz < sizeAtRefusal[j] {
					shrunkAfterPartial = true
				} else if sz > sizeAtRefusal[j] {
					grownAfterPartial = true
				}
			}
			if v := verifyBytes(cur[j], b, true); v != nil {
				sig := "commit_retry_stale_or_wrong_bytes"
				if refusals == 0 {
					sig = cur[j].sig("multi_commit_bytes")
				}
				if sp, _ := cur[j].spellable(); sp == spellNo {
					sig = cur[j].sig("accepted_unspellable_commit")
				}
				nul := ""
				if strings.Contains(string(b), "\x00") {
					nul = " (the file contains NUL bytes)"
				}
				return o, fw.V(sig, "%s: step %d: COMMIT succeeded, the session held %d records of %s, but the file (%d bytes)%s does not read as that table: %s\nsteps: %s", what, k+1, len(cur[j].Rows), names[j], len(b), nul, v.Msg, steps())
			}
			committed[j], onDisk[j], pending[j] = b, true, false
		}
		if left := run.ControlFiles(dir); len(left) > 0 {
			return o, fw.V("commit_litter", "%s: step %d: after COMMIT %v remain\nsteps: %s", what, k+1, left, steps())
		}
		// a fresh session loads the same records
		fs, err := run.NewSess(run.Opt{Dir: dir})
		if err != nil {
			return o, fw.Harness("%v", err)
		}
		for j := range c.Tables {
			if !exists[j] {
				continue
			}
			r := fs.Exec("SELECT * FROM " + val.QuoteIdent(names[j]) + ";")
			if r.Err != nil || len(r.Views) == 0 {
				fs.Close()
				return o, fw.V(cur[j].sig("commit_retry_reload_error"), "%s: step %d: a fresh session cannot load %s after COMMIT: %v\nsteps: %s", what, k+1, names[j], r.Err, steps())
			}
			if diff := compareLoadedMode(cur[j], r.Views[len(r.Views)-1], false, true); diff != "" {
				fs.Close()
				return o, fw.V(cur[j].sig("commit_retry_reload_mismatch"), "%s: step %d: a fresh session loads %s differently: %s\nsteps: %s", what, k+1, names[j], diff, steps())
			}
		}
		fs.Close()
		sizeAtRefusal, writtenAtRefusal = nil, nil
	}
	o.Classes = append(o.Classes, fmt.Sprintf("refusals:%d", min(refusals, 3)))
	for _, k := range fw.SortedKeys(refusedKinds) {
		o.Classes = append(o.Classes, k)
	}
	if shrunkAfterPartial {
		o.Classes = append(o.Classes, "shrunk_after_partial_write")
	}
	if grownAfterPartial {
		o.Classes = append(o.Classes, "grown_after_partial_write")
	}
	if rollbacks > 0 {
		o.Classes = append(o.Classes, "rollback_after_refusal")
	}
	if refusals > 0 {
		o.Fingerprint = fmt.Sprintf("%s|%s|r%d|s%d|rb%d|%v|shrunk=%v|grown=%v", o.Classes[0], c.LB, refusals, successes, rollbacks, fw.SortedKeys(refusedKinds), shrunkAfterPartial, grownAfterPartial)
		for _, tb := range c.Tables {
			o.Fingerprint += "|" + tb.Ext
			if tb.Created {
				o.Fingerprint += "+"
			}
		}
	}
	return o, nil
}

func TestC02MultiTableCommitRetry(t *testing.T) {
	fw.Run(t, fw.Spec[mtCase]{
		ID: "C02", Name: "multi_table_commit_retry", Quick: 1600, Thorough: 32000,
		Gen: genMultiCommit, Check: checkMultiCommit,
		Rule: "ONE in-process session with 2-4 tables (45% created by CREATE TABLE + INSERT in the session, the others harness-written files; csv/tsv/ltsv/json/jsonl, at least one ltsv; 3 rows to > 64 KiB), 1-2 rounds of: an uncommitted change on every table; 85%: a late row of one LTSV table gets a TAB/LF and COMMIT (refused at that table after the tables before it in csvq's write order were already written); then the tables shrink (55%), grow (20%) or change a value; then the refused row is repaired or deleted, or COMMIT is first refused a second time, or ROLLBACK; COMMIT. Before each COMMIT the session's SELECT * of every table is recorded; oracle: a refused COMMIT leaves every committed file byte-identical; after ROLLBACK created files are gone, committed files byte-identical, no control files; after a successful COMMIT EVERY table file, read by the harness readers, is exactly the recorded table (no stale tail, no NUL bytes), no control files remain and a fresh session loads the same records. non-trivial = at least one refused COMMIT; distinct by (created/updated counts, extensions, line break, #refusals/#successes/#rollbacks, where refused, shrunk/grown after a partial write)",
		Assumptions: []string{"which tables were written before the refused one follows csvq's own order (created before updated; map order within): 'partial write' is measured from the created file / the update handler's temporary file being non-empty after the refusal",
			"UTF-8, delimiter ',', LF/CRLF; colons in LTSV values and trailing backslashes in JSON are kept out (known findings)"},
	})
}
