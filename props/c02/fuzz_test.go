package c02

import (
	"fmt"
	"strings"
	"testing"
)

// decodeFuzz turns fuzz input into a CSV/TSV round-trip case. data: cells
// separated by NUL bytes, a cell consisting of the byte 0x01 is NULL; the first
// ncols cells are the column names. opts: bits 0-1 delimiter, 2-3 line break,
// 4-6 encoding, 7 enclose-all, 8 without-header, 9 strip, 10 table object
// instead of flags, 11 without-null, 12-13 number of columns - 1.
func decodeFuzz(data []byte, opts uint16) (rtCase, bool) {
	if len(data) > 1<<16 {
		return rtCase{}, false
	}
	c := rtCase{Format: "CSV"}
	c.Delim = []string{",", ";", "|", "\t"}[opts&3]
	c.LB = []string{"LF", "CRLF", "CR", "LF"}[(opts>>2)&3]
	c.Enc = encodings[(opts>>4)&7]
	c.EncloseAll = opts&(1<<7) != 0
	c.WithoutHeader = opts&(1<<8) != 0
	c.Strip = opts&(1<<9) != 0
	c.ReadVia = "flags"
	if opts&(1<<10) != 0 {
		c.ReadVia = "func"
	}
	c.WithoutNull = opts&(1<<11) != 0
	ncols := int((opts>>12)&3) + 1
	parts := strings.Split(strings.ToValidUTF8(string(data), "?"), "\x00")
	var cells []cell
	for _, p := range parts {
		if p == "\x01" {
			cells = append(cells, cell{Null: true})
		} else {
			cells = append(cells, cell{S: p})
		}
	}
	seen := map[string]bool{}
	for i := 0; i < ncols; i++ {
		h := fmt.Sprintf("h%d", i+1)
		if i < len(cells) && trimBlank(cells[i].S) != "" {
			h = cells[i].S
		}
		for seen[strings.ToLower(trimBlank(h))] {
			h += fmt.Sprint(i + 1)
		}
		seen[strings.ToLower(trimBlank(h))] = true
		c.Header = append(c.Header, h)
	}
	if len(cells) > ncols {
		cells = cells[ncols:]
	} else {
		cells = nil
	}
	for len(cells) >= ncols {
		c.Rows = append(c.Rows, cells[:ncols])
		cells = cells[ncols:]
	}
	if c.malformed() != "" {
		return c, false
	}
	return c, true
}

// FuzzRoundTripCSV is the native fuzz target (thorough tier); a plain go test
// only runs the seed corpus.
//
//	cd /verif && go test -tags verif -run '^$' -fuzz '^FuzzRoundTripCSV$' -fuzztime 8m ./props/c02
//
// Oracle: that of roundtrip_inproc. Inputs in the shape of a finding already
// reported (knownShape) are skipped so that the fuzzer keeps going.
func FuzzRoundTripCSV(f *testing.F) {
	f.Add([]byte("a\x00b\x001\x002\x00x,y\x00\"q\""), uint16(0))
	f.Add([]byte("id\x00name\x001\x00\x01\x002\x00 日本語 \x003\x00tab\there"), uint16(1<<12|1<<7|1))
	f.Add([]byte("k\x00v\x00a;b\x00c|d\x00'\x00`\\"), uint16(2<<12|2|1<<2|1<<9))
	f.Add([]byte("x\x00\x01\x00\x00é\x00😀"), uint16(1<<12|4<<4|1<<10))
	f.Add([]byte("c\x00d\x00line\nbreak\x00cr\rhere\x00crlf\r\nhere\x00z"), uint16(1<<12|1<<7))
	f.Fuzz(func(t *testing.T, data []byte, opts uint16) {
		c, ok := decodeFuzz(data, opts)
		if !ok || c.knownShape() != "" {
			t.Skip()
		}
		if _, v := checkRoundTrip(c); v != nil && v.Sig != "HARNESS" {
			t.Fatalf("%s\ncase: %+v", v.Error(), c)
		}
	})
}
