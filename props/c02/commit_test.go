package c02

import (
	"fmt"
	"os"
	"path/filepath"
	"strings"
	"testing"

	"github.com/mithrandie/csvq/lib/option"
	"pgregory.net/rapid"

	"verif/internal/fw"
	"verif/internal/run"
	"verif/internal/val"
)

// ---------------------------------------------------------------------
// D. commit_after_refusal: one session, a sequence of edits and COMMITs some
// of which are refused part-way through writing; what a later successful
// COMMIT leaves in the file must be exactly the table of the session.

type carStep struct {
	Kind string `json:"kind"`          // poison | set | delete_gt | delete_id | insert | commit | rollback
	ID   int    `json:"id,omitempty"`  // poison/set/delete_id: the row; insert: first new id
	N    int    `json:"n,omitempty"`   // delete_gt: rows with id > N go; insert: number of rows
	Col  int    `json:"col,omitempty"` // set: value column (1-based among the value columns)
	Val  string `json:"val,omitempty"` // poison/set: the new text
}

type carCase struct {
	Format   string    `json:"format"` // LTSV FIXED CSV TSV JSON JSONL
	Fixed    string    `json:"fixed,omitempty"`
	Delim    string    `json:"delim,omitempty"`
	Enc      string    `json:"enc"`
	LB       string    `json:"lb"`
	NoHeader bool      `json:"no_header,omitempty"`
	NCols    int       `json:"ncols"` // id + value columns
	NRows    int       `json:"nrows"`
	Pad      int       `json:"pad"` // filler length of the value cells
	Steps    []carStep `json:"steps"`
}

var carHeader = []string{"id", "v", "w", "x"}

func carFill(i, j, pad int) string {
	return fmt.Sprintf("r%dc%d", i, j) + strings.Repeat("abcdefghij", pad/10+1)[:pad]
}

// dialect: the file's dialect as an rtCase (rows filled in by the caller).
func (c carCase) dialect() rtCase {
	d := rtCase{Format: c.Format, Fixed: c.Fixed, Delim: c.Delim, Enc: c.Enc, LB: c.LB, WithoutHeader: c.NoHeader,
		Header: append([]string{}, carHeader[:c.NCols]...)}
	if c.Format == "FIXED" {
		d.Widths = []int{8}
		for j := 1; j < c.NCols; j++ {
			d.Widths = append(d.Widths, c.Pad+16)
		}
	}
	return d
}

func (c carCase) initial() rtCase {
	d := c.dialect()
	for i := 1; i <= c.NRows; i++ {
		row := []cell{{S: fmt.Sprint(i)}}
		for j := 1; j < c.NCols; j++ {
			row = append(row, cell{S: carFill(i, j, c.Pad)})
		}
		d.Rows = append(d.Rows, row)
	}
	return d
}

func (c carCase) malformed() bool {
	if !in(c.Format, formats) || !in(c.Enc, []string{"UTF8", "UTF8M", "SJIS"}) || !in(c.LB, []string{"LF", "CRLF"}) {
		return true
	}
	if c.NCols < 2 || c.NCols > 4 || c.NRows < 2 || c.NRows > 5000 || c.Pad < 0 || c.Pad > 200 || len(c.Steps) > 60 {
		return true
	}
	if c.Format == "FIXED" && c.Fixed != "explicit" {
		return true
	}
	if (c.Format == "JSON" || c.Format == "JSONL") && c.Enc != "UTF8" {
		return true
	}
	for _, st := range c.Steps {
		if !in(st.Kind, []string{"poison", "set", "delete_gt", "delete_id", "insert", "commit", "rollback"}) || st.N > 100000 || st.N < 0 || st.Col < 0 || st.Col >= 4 {
			return true
		}
		if c.Enc == "SJIS" && !sjisEncodable(st.Val) {
			return true
		}
		if c.Format == "FIXED" && hasBreak(st.Val) { // known shape fixed_linebreak_accepted
			return true
		}
		if c.Format == "LTSV" && strings.Contains(st.Val, ":") { // known shape ltsv_colon_in_value_dropped
			return true
		}
		if (c.Format == "JSON" || c.Format == "JSONL") && strings.HasSuffix(st.Val, `\`) { // json_trailing_backslash_unloadable
			return true
		}
	}
	return false
}

func genCommitAfterRefusal(t *rapid.T) carCase {
	c := carCase{}
	c.Format = []string{"LTSV", "FIXED", "CSV", "TSV", "JSON", "JSONL"}[fw.Weighted(t, "format", []int{40, 36, 8, 4, 6, 6})]
	c.Enc = "UTF8"
	if c.Format != "JSON" && c.Format != "JSONL" {
		c.Enc = fw.PickU(t, "enc", []string{"UTF8", "UTF8", "UTF8M", "SJIS"})
	}
	c.LB = fw.PickU(t, "lb", []string{"LF", "CRLF"})
	if c.Format == "FIXED" {
		c.Fixed = "explicit"
	}
	if c.Format == "CSV" {
		c.Delim = fw.PickU(t, "delim", []string{",", ";", "|"})
	}
	if c.Format == "CSV" || c.Format == "TSV" || c.Format == "FIXED" {
		c.NoHeader = fw.Pct(t, "noheader", 30)
	}
	c.NCols = fw.Range(t, "ncols", 2, 3)
	c.Pad = fw.Range(t, "pad", 10, 60)
	switch fw.Weighted(t, "size", []int{20, 60, 20}) {
	case 0:
		c.NRows = fw.Range(t, "nrows", 3, 12)
	case 1:
		c.NRows = 5000/((c.NCols-1)*(c.Pad+8)+6) + fw.Range(t, "nrows", 20, 80) // past 4 KiB
	default:
		c.NRows = 70000/((c.NCols-1)*(c.Pad+8)+6) + fw.Range(t, "nrows", 20, 80) // past 64 KiB
	}
	// the generator's own picture of which ids exist (only to make the steps meaningful)
	live := map[int]bool{}
	for i := 1; i <= c.NRows; i++ {
		live[i] = true
	}
	maxID, nextID := c.NRows, c.NRows+1
	lateID := func() int {
		lo := maxID - maxID/10
		for tries := 0; tries < 20; tries++ {
			id := fw.Range(t, "late", lo, maxID)
			if live[id] {
				return id
			}
		}
		return maxID
	}
	goodVals := []string{"ok", "fixed value", "x,y;z|", `q"uote`, "日本語", "-", "A longer repaired value 0123456789"}
	if c.Enc == "SJIS" {
		goodVals[4] = "表ソ"
	}
	badVal := func() string {
		if c.Format == "FIXED" {
			return strings.Repeat("W", c.Pad+16+fw.Range(t, "over", 1, 5))
		}
		return "p" + fw.PickU(t, "badtok", []string{"\t", "\n", "\r\n", "\t\t"}) + "q"
	}
	refusable := c.Format == "LTSV" || c.Format == "FIXED"
	rounds := fw.Range(t, "rounds", 1, 3)
	for r := 0; r < rounds; r++ {
		if fw.Pct(t, "pre", 40) {
			c.Steps = append(c.Steps, carStep{Kind: "set", ID: lateID(), Col: fw.Range(t, "col", 1, c.NCols-1), Val: fw.PickU(t, "val", goodVals)})
		}
		poisoned := 0
		if refusable && fw.Pct(t, "poison", 75) {
			poisoned = lateID()
			c.Steps = append(c.Steps, carStep{Kind: "poison", ID: poisoned, Col: fw.Range(t, "col", 1, c.NCols-1), Val: badVal()})
			c.Steps = append(c.Steps, carStep{Kind: "commit"})
			if fw.Pct(t, "again", 15) {
				c.Steps = append(c.Steps, carStep{Kind: "commit"})
			}
		}
		if fw.Pct(t, "rollback", 8) {
			c.Steps = append(c.Steps, carStep{Kind: "rollback"})
		}
		// repair / shrink / grow
		switch fw.Weighted(t, "repair", []int{50, 20, 15, 15}) {
		case 0: // shrink below the leftover
			keep := fw.Range(t, "keep", 1, max(1, min(maxID/4, 40)))
			if fw.Pct(t, "keepmost", 15) {
				keep = max(1, maxID-fw.Range(t, "drop", 1, 5))
			}
			c.Steps = append(c.Steps, carStep{Kind: "delete_gt", N: keep})
			for id := range live {
				if id > keep {
					delete(live, id)
				}
			}
			if keep < maxID {
				maxID = keep
			}
		case 1:
			if poisoned > 0 {
				c.Steps = append(c.Steps, carStep{Kind: "set", ID: poisoned, Col: fw.Range(t, "col", 1, c.NCols-1), Val: fw.PickU(t, "val", goodVals)})
			}
		case 2:
			if poisoned > 0 {
				c.Steps = append(c.Steps, carStep{Kind: "delete_id", ID: poisoned})
				delete(live, poisoned)
			}
		default: // leave the poison in: the next COMMIT is refused again
		}
		if fw.Pct(t, "grow", 30) {
			n := fw.Range(t, "grown", 1, 30)
			c.Steps = append(c.Steps, carStep{Kind: "insert", ID: nextID, N: n})
			for i := 0; i < n; i++ {
				live[nextID+i] = true
			}
			maxID = nextID + n - 1
			nextID += n
		}
		c.Steps = append(c.Steps, carStep{Kind: "commit"})
	}
	return c
}

func tblToRows(t run.Tbl) [][]cell {
	out := make([][]cell, len(t.Rows))
	for i, r := range t.Rows {
		row := make([]cell, len(r))
		for j, v := range r {
			if v.K == "N" {
				row[j] = cell{Null: true}
			} else {
				row[j] = cell{S: v.S}
			}
		}
		out[i] = row
	}
	return out
}

func checkCommitAfterRefusal(c carCase) (fw.Outcome, *fw.Violation) {
	if c.malformed() {
		return fw.Outcome{Discard: true}, nil
	}
	fc := c.Format
	if fc != "LTSV" && fc != "FIXED" {
		fc = "never_refusing"
	}
	o := fw.Outcome{Classes: []string{"fmt:" + fc}}
	d0 := c.initial()
	if d0.malformed() != "" {
		return fw.Outcome{Discard: true}, nil
	}
	dir := caseDir("car")
	defer os.RemoveAll(dir)
	name := d0.fileName()
	path := filepath.Join(dir, name)
	orig, err := harnessFile(d0, true)
	if err != nil {
		return o, fw.Harness("%v", err)
	}
	if err := os.WriteFile(path, orig, 0644); err != nil {
		return o, fw.Harness("%v", err)
	}
	if len(orig) > 65536 {
		o.Classes = append(o.Classes, "file>64k")
	} else if len(orig) > 4096 {
		o.Classes = append(o.Classes, "file>4k")
	} else {
		o.Classes = append(o.Classes, "file<=4k")
	}
	s, err := run.NewSess(run.Opt{Dir: dir})
	if err != nil {
		return o, fw.Harness("%v", err)
	}
	defer s.Close()
	noHeader := !d0.headerWritten() && (d0.isCSV() || d0.Format == "FIXED")
	kv := []interface{}{option.NoHeaderFlag, noHeader, option.LineBreakFlag, c.LB}
	if !d0.isJSON() {
		kv = append(kv, option.EncodingFlag, c.Enc)
	}
	switch c.Format {
	case "CSV":
		kv = append(kv, option.DelimiterFlag, string(d0.delim()))
	case "FIXED":
		kv = append(kv, option.ImportFormatFlag, "FIXED", option.DelimiterPositionsFlag, positionsArg(d0.readEnds(), false))
	}
	if err := setFlags(s, kv...); err != nil {
		return o, fw.Harness("%v", err)
	}
	tbl := val.QuoteIdent(name)
	colName := func(j int) string {
		if noHeader {
			return fmt.Sprintf("c%d", j+1)
		}
		return carHeader[j]
	}
	what := fmt.Sprintf("%s/%s/%s %d rows x %d columns (%d bytes)", d0.dialectString(), c.Enc, c.LB, c.NRows, c.NCols, len(orig))
	var trace []string
	exec := func(sql string) run.Res {
		trace = append(trace, clip(sql))
		return s.Exec(sql)
	}
	refusedBefore, shrunkAfterRefusal := false, false
	var leftover int // size of the table at the last refused commit
	commits, refusals := 0, 0
	for k, st := range c.Steps {
		col := st.Col
		if col < 1 || col >= c.NCols {
			col = 1
		}
		var sql string
		switch st.Kind {
		case "poison", "set":
			sql = fmt.Sprintf("UPDATE %s SET %s = %s WHERE %s = %d;", tbl, colName(col), val.QuoteSQL(st.Val), colName(0), st.ID)
		case "delete_gt":
			sql = fmt.Sprintf("DELETE FROM %s WHERE %s > %d;", tbl, colName(0), st.N)
		case "delete_id":
			sql = fmt.Sprintf("DELETE FROM %s WHERE %s = %d;", tbl, colName(0), st.ID)
		case "insert":
			var rows []string
			for i := 0; i < st.N; i++ {
				vs := []string{val.QuoteSQL(fmt.Sprint(st.ID + i))}
				for j := 1; j < c.NCols; j++ {
					vs = append(vs, val.QuoteSQL(carFill(st.ID+i, j, c.Pad)))
				}
				rows = append(rows, "("+strings.Join(vs, ", ")+")")
			}
			if len(rows) == 0 {
				continue
			}
			sql = fmt.Sprintf("INSERT INTO %s VALUES %s;", tbl, strings.Join(rows, ", "))
		case "rollback":
			sql = "ROLLBACK;"
		}
		if st.Kind != "commit" {
			r := exec(sql)
			if r.ParseErr {
				return o, fw.Harness("generated statement does not parse: %s: %v", sql, r.Err)
			}
			if r.Err != nil {
				// e.g. the table file became unreadable through an earlier step: judged at the COMMIT that wrote it
				return o, fw.V(d0.sig("commit_sequence_statement_failed"), "%s: step %d %s fails: %v\nsteps so far: %s", what, k+1, clip(sql), r.Err, strings.Join(trace, " "))
			}
			continue
		}
		// COMMIT: what the session holds, the bytes before, the attempt, the bytes after
		r := exec("SELECT * FROM " + tbl + ";")
		if r.Err != nil || len(r.Views) == 0 {
			return o, fw.V(d0.sig("commit_sequence_statement_failed"), "%s: step %d: SELECT * fails: %v\nsteps so far: %s", what, k+1, r.Err, strings.Join(trace, " "))
		}
		cur := c.dialect()
		cur.Rows = tblToRows(r.Views[len(r.Views)-1])
		for _, row := range cur.Rows {
			if len(row) != c.NCols {
				return o, fw.V(d0.sig("commit_sequence_shape"), "%s: step %d: the session shows a record with %d fields", what, k+1, len(row))
			}
		}
		before, _ := os.ReadFile(path)
		cr := exec("COMMIT;")
		after, rerr := os.ReadFile(path)
		commits++
		sp, why := cur.spellable()
		size := 0
		for _, row := range cur.Rows {
			for _, x := range row {
				size += len(x.S) + 2
			}
		}
		if cr.Err != nil {
			refusals++
			if rerr != nil || string(after) != string(before) {
				return o, fw.V(d0.sig("refused_commit_changed_file"), "%s: step %d: COMMIT refused (%v) but the file changed (%d -> %d bytes)\nsteps: %s", what, k+1, cr.Err, len(before), len(after), strings.Join(trace, " "))
			}
			if sp == spellYes {
				return o, fw.V(d0.sig("refused_spellable_commit"), "%s: step %d: every text of the %d records is spellable but COMMIT is refused: %v\nsteps: %s", what, k+1, len(cur.Rows), cr.Err, strings.Join(trace, " "))
			}
			refusedBefore = true
			leftover = size
			continue
		}
		if rerr != nil {
			return o, fw.V(d0.sig("commit_file_missing"), "%s: step %d: COMMIT succeeded but the file is gone: %v", what, k+1, rerr)
		}
		if refusedBefore && size < leftover {
			shrunkAfterRefusal = true
		}
		if v := verifyBytes(cur, after, true); v != nil {
			sig := "commit_after_refusal_stale_or_wrong_bytes"
			if !refusedBefore {
				sig = d0.sig("commit_sequence_bytes")
			}
			if sp == spellNo {
				sig = d0.sig("accepted_unspellable_commit")
			}
			return o, fw.V(sig, "%s: step %d: COMMIT succeeded, the session held %d records (%s), but the file (%d bytes) does not read as that table: %s\nsteps: %s", what, k+1, len(cur.Rows), why, len(after), v.Msg, strings.Join(trace, " "))
		}
		refusedBefore = false
	}
	o.Classes = append(o.Classes, fmt.Sprintf("refusals:%d", min(refusals, 3)))
	if shrunkAfterRefusal {
		o.Classes = append(o.Classes, "shrunk_commit_after_refusal")
	}
	if refusals > 0 {
		sizeClass := o.Classes[1]
		o.Fingerprint = fmt.Sprintf("%s|%s|%s|%s|c%d|r%d|shrunk=%v", c.Format, c.Enc, c.LB, sizeClass, commits, refusals, shrunkAfterRefusal)
	}
	return o, nil
}

func TestC02CommitAfterRefusal(t *testing.T) {
	fw.Run(t, fw.Spec[carCase]{
		ID: "C02", Name: "commit_after_refusal", Quick: 1600, Thorough: 32000,
		Gen: genCommitAfterRefusal, Check: checkCommitAfterRefusal,
		Rule: "ONE in-process session on a harness-written table file (LTSV 40%, FIXED explicit 36%, CSV/TSV/JSON/JSONL; UTF8/UTF8M/SJIS; LF/CRLF; small, > 4 KiB, > 64 KiB) and 1-3 rounds of: optional edit; 75%: a late row gets a text the format cannot spell (TAB/LF in LTSV, over-long in FIXED) and COMMIT (refused after part of the output was flushed to the handler's temporary file); then DELETE of most rows (shrink), repair or delete of the row, or nothing; optional INSERT (grow); COMMIT. Before each COMMIT the session's SELECT * is recorded; oracle: a refused COMMIT leaves the file byte-identical (and is refused only if the recorded table is unspellable by the harness predicate); after a successful COMMIT the file bytes, read by the harness readers, are exactly the recorded table (same records, no stale tail). non-trivial = at least one refused COMMIT; distinct by (format, encoding, line break, size class, #commits, #refusals, shrunk-after-refusal)",
		Assumptions: []string{"UTF-16, CR line breaks, colons in LTSV values, line breaks in FIXED cells and trailing backslashes in JSON are kept out (known findings)",
			"the table of the session is taken from csvq's own SELECT * before the COMMIT, not from a DML model"},
	})
}
